//go:build verif

package cache

// C19 correspondence driver for middleware/cache (overlay-injected, never
// committed to /repo).
//
// TestVerifC19Cache, histories: clients in related subnets (same /24, the
// neighbouring /24, the same /16, the other family, no subnet option, not in
// the allow-list) ask the same names through a real Chain [edns, cache,
// scripted upstream].  The upstream answers with a fresh address per answer
// and a scripted OPT (no subnet option, SCOPE 0, the echoed source, wider,
// narrower than the source, another address, another family, malformed).
// Observed per query: hit or miss and which answer was served, the subnet
// option the upstream saw, scope and TTL of the entry written, whether a
// background refresh was queued (entries are aged into the prefetch window
// on selected queries and the queue is drained synchronously through the real
// processPrefetch and a [edns, upstream] sub-pipeline) and what its upstream
// saw.  Go-side oracle: independent audience / TTL / refresh judgement with
// net/netip.
//
// Request trees: a root query (CD, subnet option, allow-listed or not) whose
// name is covered by a seeded RFC 8020 cut, by a seeded RFC 8198 NSEC proof,
// or lies in a fresh zone for which the upstream returns a validated and
// marked NXDOMAIN; alias answers send the cache through its queryer
// ([edns, cache, upstream] as an internal client) to further such names.
// Observed per node: did it consume / create shared denial state.

import (
	"context"
	"encoding/json"
	"fmt"
	"math/big"
	"math/rand"
	"net"
	"net/netip"
	"os"
	"strconv"
	"strings"
	"testing"
	"time"

	"github.com/miekg/dns"
	"github.com/semihalev/sdns/config"
	"github.com/semihalev/sdns/internal/dnsutil"
	"github.com/semihalev/sdns/internal/ecs"
	"github.com/semihalev/sdns/middleware"
	"github.com/semihalev/sdns/middleware/edns"
)

type vC19Trace struct{ f *os.File }

func vC19Open(t *testing.T) *vC19Trace {
	p := os.Getenv("VERIF_OUT")
	if p == "" {
		t.Skip("VERIF_OUT not set")
	}
	f, err := os.Create(p)
	if err != nil {
		t.Fatal(err)
	}
	return &vC19Trace{f: f}
}

func (v *vC19Trace) emit(m map[string]any) {
	b, _ := json.Marshal(m)
	v.f.Write(append(b, '\n'))
}

func vC19EnvInt(name string, def int) int {
	if s := os.Getenv(name); s != "" {
		if n, err := strconv.Atoi(s); err == nil {
			return n
		}
	}
	return def
}

// ---- Coq term rendering

func vC19Bool(b bool) string {
	if b {
		return "true"
	}
	return "false"
}

func vC19Bytes(b []byte) string {
	return fmt.Sprintf("(mk_ipb %d %s)", len(b), new(big.Int).SetBytes(b).String())
}

func vC19AddrVal(a netip.Addr) *big.Int {
	if a.Is4() {
		b := a.As4()
		return new(big.Int).SetBytes(b[:])
	}
	b := a.As16()
	return new(big.Int).SetBytes(b[:])
}

func vC19Addr(a netip.Addr) string {
	if !a.IsValid() {
		return "None"
	}
	return fmt.Sprintf("(Some (mk_addr %s %s))", vC19Bool(a.Is4()), vC19AddrVal(a).String())
}

func vC19PfxRaw(p netip.Prefix) string {
	return fmt.Sprintf("(mk_pfx %s %s %d)", vC19Bool(p.Addr().Is4()), vC19AddrVal(p.Addr()).String(), p.Bits())
}

func vC19Pfx(p netip.Prefix) string {
	if !p.IsValid() {
		return "None"
	}
	return "(Some " + vC19PfxRaw(p) + ")"
}

func vC19Policy(p *ecs.Policy) string {
	if p == nil {
		return "None"
	}
	var nets []string
	for _, n := range p.ClientNetworks {
		nets = append(nets, vC19PfxRaw(n))
	}
	return fmt.Sprintf("(Some (mk_policy %s %d %d [%s] %d %d))", vC19Bool(p.Enabled), p.ForwardV4Max, p.ForwardV6Max,
		strings.Join(nets, "; "), p.MinScopeV4, p.MinScopeV6)
}

func vC19EcsRaw(e *dns.EDNS0_SUBNET) string {
	return fmt.Sprintf("(mk_ecs %d %d %d %s)", e.Family, e.SourceNetmask, e.SourceScope, vC19Bytes(e.Address))
}

func vC19Ecs(e *dns.EDNS0_SUBNET) string {
	if e == nil {
		return "None"
	}
	return "(Some " + vC19EcsRaw(e) + ")"
}

func vC19Opts(opts []dns.EDNS0) string {
	var s []string
	for _, o := range opts {
		if e, ok := o.(*dns.EDNS0_SUBNET); ok {
			s = append(s, "OEcs "+vC19EcsRaw(e))
		} else {
			s = append(s, fmt.Sprintf("OOther %d", o.Option()))
		}
	}
	return "[" + strings.Join(s, "; ") + "]"
}

// ---- generators

func vC19Uint8(r *rand.Rand, around ...int) uint8 {
	switch r.Intn(4) {
	case 0:
		return uint8([]int{0, 1, 8, 16, 23, 24, 25, 31, 32, 33, 48, 55, 56, 57, 64, 127, 128, 129, 200, 255}[r.Intn(20)])
	case 1:
		if len(around) > 0 {
			v := around[r.Intn(len(around))] + r.Intn(3) - 1
			if v < 0 {
				v = 0
			}
			if v > 255 {
				v = 255
			}
			return uint8(v)
		}
	}
	return uint8(r.Intn(256))
}

func vC19RandAddr(r *rand.Rand, is4 bool) netip.Addr {
	if is4 {
		var b [4]byte
		r.Read(b[:])
		switch r.Intn(4) {
		case 0:
			b[0], b[1] = 10, byte(r.Intn(3))
		case 1:
			b = [4]byte{203, 0, 113, byte(r.Intn(256))}
		}
		return netip.AddrFrom4(b)
	}
	var b [16]byte
	r.Read(b[:])
	switch r.Intn(5) {
	case 0:
		copy(b[:], []byte{0x20, 0x01, 0x0d, 0xb8, 0, byte(r.Intn(2)), 0, byte(r.Intn(2))})
	case 1: // IPv4-mapped
		for i := 0; i < 10; i++ {
			b[i] = 0
		}
		b[10], b[11] = 0xff, 0xff
	case 2: // nearly mapped
		for i := 0; i < 10; i++ {
			b[i] = 0
		}
		b[10], b[11] = 0xff, 0xfe
	}
	return netip.AddrFrom16(b)
}

func vC19RandPrefix(r *rand.Rand) netip.Prefix {
	is4 := r.Intn(2) == 0
	a := vC19RandAddr(r, is4)
	w := a.BitLen()
	var bits int
	switch r.Intn(4) {
	case 0:
		bits = []int{0, 1, w - 1, w}[r.Intn(4)]
	case 1:
		bits = []int{8, 16, 24, 32}[r.Intn(4)]
	default:
		bits = r.Intn(w + 1)
	}
	return netip.PrefixFrom(a, bits) // host bits kept
}

var vC19Malformed = []string{"", " ", "\t", "  ", " 10.0.0.0/8", "10.0.0.0/8 ", "10.0.0.0", "10.0.0.0/33", "::/129", "10.0.0.0/-1", "10.0.0.256/8", "fe80::1%eth0/64", "1.2.3.4/ 8", "/8", "2001:db8::/x", "", " "}

type vC19BuildArgs struct {
	enabled        bool
	f4, f6, m4, m6 uint8
	nets           []string
}

func (b vC19BuildArgs) coq() string {
	var nets []string
	for _, s := range b.nets {
		p, err := netip.ParsePrefix(s)
		if err != nil {
			nets = append(nets, "None")
		} else {
			nets = append(nets, "Some "+vC19PfxRaw(p))
		}
	}
	return fmt.Sprintf("(mk_bargs %s %d %d %d %d [%s])", vC19Bool(b.enabled), b.f4, b.f6, b.m4, b.m6, strings.Join(nets, "; "))
}

func vC19GenBuildArgs(r *rand.Rand) vC19BuildArgs {
	b := vC19BuildArgs{enabled: r.Intn(8) != 0}
	pick := func(lim int) uint8 {
		switch r.Intn(10) {
		case 0, 1, 2:
			return 0
		case 3:
			return uint8(lim)
		case 4:
			return uint8(lim + 1)
		case 5:
			return uint8(r.Intn(256))
		case 6:
			return 1
		}
		return uint8(1 + r.Intn(lim))
	}
	b.f4, b.f6, b.m4, b.m6 = pick(32), pick(128), pick(32), pick(128)
	if r.Intn(3) == 0 { // mostly valid configurations
		if b.f4 > 32 {
			b.f4 = 24
		}
		if b.f6 > 128 {
			b.f6 = 56
		}
		if b.m4 > 32 {
			b.m4 = 0
		}
		if b.m6 > 128 {
			b.m6 = 0
		}
	}
	n := r.Intn(4)
	if r.Intn(3) == 0 {
		n = 0
	}
	for i := 0; i < n; i++ {
		if r.Intn(7) == 0 {
			b.nets = append(b.nets, vC19Malformed[r.Intn(len(vC19Malformed))])
		} else {
			b.nets = append(b.nets, vC19RandPrefix(r).String())
		}
	}
	return b
}

// a policy: from Build (mostly), nil, or hand-made (disabled but non-nil, ceilings beyond the width)
func vC19GenPolicy(r *rand.Rand) *ecs.Policy {
	switch r.Intn(10) {
	case 0:
		return nil
	case 1:
		p := &ecs.Policy{Enabled: r.Intn(2) == 0, ForwardV4Max: vC19Uint8(r, 24, 32), ForwardV6Max: vC19Uint8(r, 56, 128),
			MinScopeV4: vC19Uint8(r, 24, 32), MinScopeV6: vC19Uint8(r, 56, 128)}
		for i := r.Intn(3); i > 0; i-- {
			p.ClientNetworks = append(p.ClientNetworks, vC19RandPrefix(r))
		}
		return p
	}
	for {
		b := vC19GenBuildArgs(r)
		b.enabled = true
		p, err := ecs.Build(b.enabled, b.f4, b.f6, b.m4, b.m6, b.nets)
		if err == nil && p != nil {
			return p
		}
	}
}

func vC19GenECS(r *rand.Rand, p *ecs.Policy) *dns.EDNS0_SUBNET {
	e := &dns.EDNS0_SUBNET{Code: dns.EDNS0SUBNET}
	fam := 1 + r.Intn(2)
	is4 := fam == 1
	a := vC19RandAddr(r, is4)
	e.Family = uint16(fam)
	e.Address = net.IP(a.AsSlice())
	ceil := []int{24, 56}
	if p != nil {
		ceil = []int{int(p.ForwardV4Max), int(p.ForwardV6Max), int(p.MinScopeV4), int(p.MinScopeV6)}
	}
	w := a.BitLen()
	switch r.Intn(5) {
	case 0:
		e.SourceNetmask = uint8([]int{0, 1, w - 1, w}[r.Intn(4)])
	case 1:
		e.SourceNetmask = vC19Uint8(r, ceil...)
	default:
		e.SourceNetmask = uint8(r.Intn(w + 1))
	}
	e.SourceScope = 0
	if r.Intn(3) == 0 {
		e.SourceScope = uint8(r.Intn(w + 1))
	}
	// deviations
	switch r.Intn(30) {
	case 0:
		e.Family = uint16([]int{0, 3, 65535}[r.Intn(3)])
	case 1: // family / address mismatch
		e.Family = uint16(3 - fam)
	case 2:
		e.Address = nil
	case 3:
		e.Address = net.IP{}
	case 4:
		e.Address = net.IP(e.Address[:len(e.Address)-1])
	case 5: // v4 in 16-byte form
		if is4 {
			e.Address = net.IP(a.AsSlice()).To16()
		}
	case 6:
		e.SourceNetmask = vC19Uint8(r)
	case 7:
		e.Address = append(net.IP{}, append(e.Address, 7)...)
	}
	return e
}

func vC19AddrOfIP(ip net.IP) (netip.Addr, bool) {
	if v4 := ip.To4(); v4 != nil {
		return netip.AddrFromSlice(v4)
	}
	return netip.AddrFromSlice(ip)
}

// independent judgement of a forwarded option
func vC19ForwardedOK(p *ecs.Policy, in, out *dns.EDNS0_SUBNET) string {
	if p == nil || in == nil {
		return "option produced without a policy / without an input"
	}
	ia, ok := vC19AddrOfIP(in.Address)
	if !ok {
		return "option produced from an unusable address"
	}
	var ceil int
	switch out.Family {
	case 1:
		ceil = int(p.ForwardV4Max)
		if !ia.Is4() || len(out.Address) != 4 {
			return "family 1 with a non-IPv4 address"
		}
	case 2:
		ceil = int(p.ForwardV6Max)
		if !ia.Is6() || ia.Is4In6() || len(out.Address) != 16 {
			return "family 2 with a non-IPv6 address"
		}
	default:
		return fmt.Sprintf("family %d forwarded", out.Family)
	}
	if out.Family != in.Family {
		return "family changed"
	}
	if int(out.SourceNetmask) > ceil || out.SourceNetmask > in.SourceNetmask {
		return fmt.Sprintf("source prefix /%d beyond ceiling /%d or client /%d", out.SourceNetmask, ceil, in.SourceNetmask)
	}
	if out.SourceScope != 0 {
		return "query SCOPE not 0"
	}
	oa, ok := netip.AddrFromSlice(out.Address)
	if !ok {
		return "bad output address"
	}
	want, err := ia.Prefix(int(out.SourceNetmask))
	if err != nil {
		return "prefix length beyond the address width"
	}
	if netip.PrefixFrom(oa, int(out.SourceNetmask)).Masked().Addr() != oa {
		return "host bits set in forwarded address " + oa.String()
	}
	if want.Addr() != oa {
		return fmt.Sprintf("forwarded %s, client network is %s", oa, want.Addr())
	}
	return ""
}

type vC19Writer struct {
	proto  string
	remote net.IP
	port   int
	msg    *dns.Msg
	bytes  bool // the reply arrived packed: the cache's byte ladder (or a direct pack) wrote it
}

func (w *vC19Writer) LocalAddr() net.Addr { return &net.UDPAddr{IP: net.IPv4(127, 0, 0, 1), Port: 53} }
func (w *vC19Writer) RemoteAddr() net.Addr {
	if w.proto == "tcp" {
		return &net.TCPAddr{IP: w.remote, Port: w.port}
	}
	return &net.UDPAddr{IP: w.remote, Port: w.port}
}
func (w *vC19Writer) WriteMsg(m *dns.Msg) error { w.msg = m; return nil }
func (w *vC19Writer) Write(b []byte) (int, error) {
	m := new(dns.Msg)
	if err := m.Unpack(b); err != nil {
		return 0, err
	}
	w.msg, w.bytes = m, true
	return len(b), nil
}
func (w *vC19Writer) Close() error  { return nil }
func (w *vC19Writer) Proto() string { return w.proto }

var vC19InternalIP = net.IPv4(127, 0, 0, 255)

// stand-in for middleware.pipelineQueryer (its constructor needs an unexported Pipeline): a fresh
// chain over the given handlers, written to as the internal client 127.0.0.255:0
type vC19Queryer struct{ handlers func() []middleware.Handler }

func (q *vC19Queryer) Query(ctx context.Context, req *dns.Msg) (*dns.Msg, error) {
	w := &vC19Writer{proto: "tcp", remote: vC19InternalIP, port: 0}
	ch := middleware.NewChain(q.handlers())
	ch.Reset(w, req)
	ch.Next(ctx)
	if w.msg == nil {
		return nil, middleware.ErrNoResponse
	}
	return w.msg, nil
}

// vC19Wire turns req into a wire-born request (the strict path the owned UDP/TCP listeners use):
// packs it, lets Request.ParseWire judge it, and returns the request together with the client
// options as the wire carries them (the packer normalises subnet options: host bits, address width).
func vC19Wire(req *dns.Msg) (*middleware.Request, []dns.EDNS0, bool, bool) {
	raw, err := req.Pack()
	if err != nil {
		return nil, nil, false, false
	}
	dec := new(dns.Msg)
	if err := dec.Unpack(raw); err != nil {
		return nil, nil, false, false
	}
	wr := new(middleware.Request)
	if !wr.ParseWire(raw, time.Now(), nil) {
		return nil, nil, false, false
	}
	if o := dec.IsEdns0(); o != nil {
		return wr, o.Option, true, true
	}
	return wr, nil, false, true
}

func vC19FirstECS(m *dns.Msg) *dns.EDNS0_SUBNET {
	if o := m.IsEdns0(); o != nil {
		for _, x := range o.Option {
			if s, ok := x.(*dns.EDNS0_SUBNET); ok {
				c := *s
				c.Address = append(net.IP(nil), s.Address...)
				return &c
			}
		}
	}
	return nil
}

func vC19OptOpts(o []dns.EDNS0, present bool) string {
	if !present {
		return "None"
	}
	return "(Some " + vC19Opts(o) + ")"
}

func vC19OptEcs(e *dns.EDNS0_SUBNET) string {
	if e == nil {
		return "None"
	}
	return "(Some " + vC19EcsRaw(e) + ")"
}

type vC19Client struct {
	remote net.IP
	opts   []dns.EDNS0
	hasOPT bool
}

func vC19V4(a, b, c, d int) net.IP { return net.IP{byte(a), byte(b), byte(c), byte(d)} }

// clients of one history: related subnets around one base network per family
func vC19GenClients(r *rand.Rand, b vC19BuildArgs) []vC19Client {
	base4 := [2]int{r.Intn(223) + 1, r.Intn(256)}
	third := r.Intn(254)
	// one "wide" source length per family and history; half of the time the base network is the FIRST
	// /24 (/56, /64) of that wide prefix, so that the wide client's masked address, zero-extended,
	// coincides with the narrow clients' network — the case in which a probe that starts below the
	// client's own length would find their entries
	wide4 := []int{8, 12, 16, 20, 22, 23}[r.Intn(6)]
	wide6 := []int{32, 40, 44, 48, 52, 55}[r.Intn(6)]
	if r.Intn(2) == 0 {
		v := uint32(base4[0])<<24 | uint32(base4[1])<<16 | uint32(third)<<8
		v &^= (uint32(1) << uint(32-wide4)) - 1
		base4[0], base4[1], third = int(v>>24), int(v>>16&0xff), int(v>>8&0xff)
		if base4[0] == 0 {
			base4[0] = 1
		}
	}
	var base6 [16]byte
	r.Read(base6[:])
	base6[0], base6[1] = 0x20, 0x01
	if r.Intn(2) == 0 {
		for bit := wide6; bit < 64; bit++ {
			base6[bit/8] &^= 0x80 >> uint(bit%8)
		}
	}
	mk4 := func() net.IP {
		switch r.Intn(6) {
		case 0, 1, 2:
			return vC19V4(base4[0], base4[1], third, r.Intn(256)) // same /24
		case 3:
			return vC19V4(base4[0], base4[1], third^1, r.Intn(256)) // neighbouring /24, same /23
		case 4:
			return vC19V4(base4[0], base4[1], r.Intn(256), r.Intn(256)) // same /16
		}
		return vC19V4(base4[0]^0x40, r.Intn(256), r.Intn(256), r.Intn(256))
	}
	mk6 := func() net.IP {
		ip := make(net.IP, 16)
		copy(ip, base6[:])
		switch r.Intn(4) {
		case 0, 1:
			for i := 8; i < 16; i++ {
				ip[i] = byte(r.Intn(256)) // same /64
			}
		case 2:
			ip[6] ^= byte(1 << uint(r.Intn(8))) // same /48, other /56 or /64
			ip[7] = byte(r.Intn(256))
		default:
			ip[3] ^= 1
		}
		return ip
	}
	n := 3 + r.Intn(4)
	var cl []vC19Client
	for i := 0; i < n; i++ {
		c := vC19Client{hasOPT: true}
		// the transport address: sometimes the subnet's own host, sometimes an unrelated forwarder
		switch r.Intn(5) {
		case 0:
			c.remote = mk6()
		case 1:
			c.remote = net.IP(vC19RandAddr(r, true).AsSlice())
		default:
			c.remote = mk4()
		}
		if len(b.nets) > 0 && r.Intn(2) == 0 {
			if p, err := netip.ParsePrefix(b.nets[r.Intn(len(b.nets))]); err == nil {
				c.remote = net.IP(p.Masked().Addr().AsSlice())
			}
		}
		if len(c.remote) == 4 && r.Intn(2) == 0 {
			c.remote = c.remote.To16()
		}
		switch r.Intn(10) {
		case 0:
			c.hasOPT = false
		case 1: // OPT without a subnet option
			c.opts = []dns.EDNS0{&dns.EDNS0_COOKIE{Code: dns.EDNS0COOKIE, Cookie: "0011223344556677"}}
		case 2: // generated option of any shape
			c.opts = []dns.EDNS0{vC19GenECS(r, nil)}
		case 3: // what `dig +subnet=0` sends: family 0, source 0, no address
			c.opts = []dns.EDNS0{&dns.EDNS0_SUBNET{Code: dns.EDNS0SUBNET, Family: 0, SourceNetmask: 0}}
		default:
			fam, ip, w := 1, mk4(), 32
			if r.Intn(4) == 0 {
				fam, ip, w = 2, mk6(), 128
			}
			mask := w
			switch r.Intn(8) {
			case 0:
				mask = []int{0, 1, w - 1, w}[r.Intn(4)]
			case 1:
				mask = r.Intn(w + 1)
			case 2, 3:
				mask = []int{24, 56}[fam-1]
			case 4, 5, 6: // shorter than the usual ceilings and floors: a wide client next to narrow ones
				if fam == 1 {
					mask = wide4
					if r.Intn(3) == 0 {
						mask = []int{8, 12, 16, 20, 22, 23}[r.Intn(6)]
					}
				} else {
					mask = wide6
					if r.Intn(3) == 0 {
						mask = []int{32, 40, 44, 48, 52, 55}[r.Intn(6)]
					}
				}
			}
			c.opts = []dns.EDNS0{&dns.EDNS0_SUBNET{Code: dns.EDNS0SUBNET, Family: uint16(fam), SourceNetmask: uint8(mask), Address: ip}}
			if r.Intn(8) == 0 {
				c.opts = append(c.opts, &dns.EDNS0_NSID{Code: dns.EDNS0NSID})
			}
		}
		cl = append(cl, c)
	}
	return cl
}

// scripted authority OPT for a query in which it saw subnet option "seen" (nil: none)
func vC19GenRespOpts(r *rand.Rand, seen *dns.EDNS0_SUBNET, floors [2]int) ([]dns.EDNS0, bool) {
	if seen == nil {
		switch r.Intn(12) {
		case 0:
			return nil, true
		case 1: // a scope although nothing was sent
			return []dns.EDNS0{&dns.EDNS0_SUBNET{Code: dns.EDNS0SUBNET, Family: 1, SourceNetmask: 24, SourceScope: 24, Address: vC19V4(198, 51, 100, 0)}}, true
		}
		return nil, false
	}
	e := &dns.EDNS0_SUBNET{Code: dns.EDNS0SUBNET, Family: seen.Family, SourceNetmask: seen.SourceNetmask, Address: append(net.IP(nil), seen.Address...)}
	w := 32
	if seen.Family == 2 {
		w = 128
	}
	src := int(seen.SourceNetmask)
	switch r.Intn(14) {
	case 0:
		return nil, false // no OPT at all
	case 1:
		return nil, true // OPT without a subnet option
	case 2:
		e.SourceScope = 0
	case 3, 4, 5:
		e.SourceScope = uint8(src)
	case 6: // wider than asked
		if src > 0 {
			e.SourceScope = uint8(1 + r.Intn(src))
		}
	case 7: // narrower than asked (RFC 7871 7.1.2 violation)
		e.SourceScope = uint8(src + r.Intn(w-src+1))
	case 8: // around the floor
		f := floors[seen.Family-1] + r.Intn(3) - 1
		if f >= 0 && f <= w {
			e.SourceScope = uint8(f)
		}
	case 9: // another address of the family
		e.SourceScope = uint8(src)
		e.Address = net.IP(vC19RandAddr(r, seen.Family == 1).AsSlice())
	case 10: // another family
		other := vC19RandAddr(r, seen.Family != 1)
		e.Family = 3 - seen.Family
		e.Address = net.IP(other.AsSlice())
		e.SourceScope = uint8(r.Intn(other.BitLen() + 1))
	case 11:
		e.SourceScope = uint8(r.Intn(w + 1))
	case 12:
		x := vC19GenECS(r, nil)
		x.SourceScope = uint8(r.Intn(129))
		return []dns.EDNS0{x}, true
	default:
		e.SourceScope = uint8(src)
		return []dns.EDNS0{&dns.EDNS0_NSID{Code: dns.EDNS0NSID, Nsid: "aa"}, e}, true
	}
	return []dns.EDNS0{e}, true
}

func vC19AnswerIP(id int) net.IP { return net.IP{10, byte(id >> 16), byte(id >> 8), byte(id)} }

// the id of a scripted answer: in the A record of a positive answer, in the SOA serial of an
// NXDOMAIN / NODATA, in the name server name of a referral
func vC19AnswerID(m *dns.Msg) int {
	for _, rr := range m.Answer {
		if a, ok := rr.(*dns.A); ok {
			ip := a.A.To4()
			return int(ip[1])<<16 | int(ip[2])<<8 | int(ip[3])
		}
	}
	for _, rr := range m.Ns {
		switch x := rr.(type) {
		case *dns.SOA:
			return int(x.Serial)
		case *dns.NS:
			var id int
			if _, err := fmt.Sscanf(x.Ns, "ns%d.", &id); err == nil {
				return id
			}
		}
	}
	return -1
}

// response classes of the scripted authority
const (
	vC19Positive = iota
	vC19NXDomainClass
	vC19NoData
	vC19Referral
)

var vC19ClassName = []string{"positive", "nxdomain", "nodata", "referral"}

type vC19Script struct {
	id     int
	ttl    int
	class  int
	msgTTL time.Duration // dnsutil.CalculateCacheTTL of the response as classified
	called bool
	seen   *dns.EDNS0_SUBNET
	opts   []dns.EDNS0
	hasOPT bool
	gen    func(seen *dns.EDNS0_SUBNET) ([]dns.EDNS0, bool)
}

func (s *vC19Script) serve(ctx context.Context, ch *middleware.Chain) {
	req := ch.Request.Msg()
	s.called = true
	s.seen = vC19FirstECS(req)
	s.opts, s.hasOPT = s.gen(s.seen)
	resp := new(dns.Msg)
	resp.SetReply(req)
	resp.RecursionAvailable = true
	qn := req.Question[0].Name
	soa := func() dns.RR {
		return &dns.SOA{Hdr: dns.RR_Header{Name: "geo.test.", Rrtype: dns.TypeSOA, Class: dns.ClassINET, Ttl: uint32(s.ttl)}, Ns: "ns.geo.test.", Mbox: "h.geo.test.",
			Serial: uint32(s.id), Refresh: 3600, Retry: 600, Expire: 86400, Minttl: uint32(s.ttl)}
	}
	switch s.class {
	case vC19NXDomainClass:
		resp.Rcode = dns.RcodeNameError
		resp.Ns = []dns.RR{soa()}
	case vC19NoData:
		resp.Ns = []dns.RR{soa()}
	case vC19Referral:
		resp.Ns = []dns.RR{&dns.NS{Hdr: dns.RR_Header{Name: "geo.test.", Rrtype: dns.TypeNS, Class: dns.ClassINET, Ttl: uint32(s.ttl)}, Ns: fmt.Sprintf("ns%d.elsewhere.test.", s.id)}}
	default:
		resp.Answer = []dns.RR{&dns.A{Hdr: dns.RR_Header{Name: qn, Rrtype: dns.TypeA, Class: dns.ClassINET, Ttl: uint32(s.ttl)}, A: vC19AnswerIP(s.id)}}
	}
	mt, _ := dnsutil.ClassifyResponse(resp, time.Now().UTC())
	s.msgTTL = dnsutil.CalculateCacheTTL(resp, mt)
	if s.hasOPT {
		o := &dns.OPT{Hdr: dns.RR_Header{Name: ".", Rrtype: dns.TypeOPT}}
		o.SetUDPSize(1232)
		o.Option = append(o.Option, s.opts...)
		resp.Extra = append(resp.Extra, o)
	}
	_ = ch.Writer.WriteMsg(resp)
	ch.Cancel()
}

func (s *vC19Script) coq() string {
	ttl := s.msgTTL
	if !s.called {
		ttl = time.Duration(s.ttl) * time.Second // never asked: the value is not used by the model
	}
	return fmt.Sprintf("(mk_uresp %d %d%%Z %s)", s.id, int64(ttl), vC19OptOpts(s.opts, s.hasOPT))
}

// independent audience bookkeeping
type vC19Answer struct {
	q   string
	cd  bool
	eff netip.Prefix // invalid: everyone
}

// what the authority declared, read off its option alone: kind 0 nothing / SCOPE 0, 1 a scope, 2 a scope
// longer than the family's addresses (read as the whole address; it is cut down like any scope longer than
// what was forwarded), 3 a non-zero SCOPE nobody can interpret (family and address disagree, unusable
// address, unknown family): tailored to somebody, but not shareable
func vC19DeclaredScope(opts []dns.EDNS0, hasOPT bool) (netip.Prefix, int) {
	if !hasOPT {
		return netip.Prefix{}, 0
	}
	for _, o := range opts {
		s, ok := o.(*dns.EDNS0_SUBNET)
		if !ok {
			continue
		}
		if s.SourceScope == 0 {
			return netip.Prefix{}, 0
		}
		a, ok := vC19AddrOfIP(s.Address)
		if !ok || (s.Family == 1 && !a.Is4()) || (s.Family == 2 && !a.Is6()) || (s.Family != 1 && s.Family != 2) {
			return netip.Prefix{}, 3
		}
		kind, bits := 1, int(s.SourceScope)
		if bits > a.BitLen() {
			kind, bits = 2, a.BitLen()
		}
		return netip.PrefixFrom(a, bits), kind
	}
	return netip.Prefix{}, 0
}

func vC19Effective(pol *ecs.Policy, declared netip.Prefix, seen *dns.EDNS0_SUBNET) netip.Prefix {
	if !declared.IsValid() || seen == nil || pol == nil {
		return netip.Prefix{}
	}
	b := declared.Bits()
	if int(seen.SourceNetmask) < b {
		b = int(seen.SourceNetmask)
	}
	floor := int(pol.MinScopeV4)
	if !declared.Addr().Is4() {
		floor = int(pol.MinScopeV6)
	}
	if floor < b {
		b = floor
	}
	if b == 0 {
		return netip.Prefix{}
	}
	p, _ := declared.Addr().Prefix(b)
	return p
}

func vC19Inside(fw *dns.EDNS0_SUBNET, sc netip.Prefix) bool {
	if fw == nil {
		return false
	}
	a, ok := vC19AddrOfIP(fw.Address)
	if !ok || a.Is4() != sc.Addr().Is4() || int(fw.SourceNetmask) < sc.Bits() {
		return false
	}
	return sc.Contains(a)
}

func vC19NewCache(b vC19BuildArgs, ecsMax time.Duration, prefetch bool) (*Cache, *edns.EDNS, *config.Config) {
	cfg := &config.Config{CacheSize: 1024, Expire: 300}
	if prefetch {
		cfg.Prefetch = 50
	}
	cfg.ECS = config.ECSConfig{Enabled: b.enabled, ForwardV4Max: b.f4, ForwardV6Max: b.f6, MinScopeV4: b.m4, MinScopeV6: b.m6, ClientNetworks: b.nets,
		CacheLimitTTL: config.Duration{Duration: ecsMax}}
	c := New(cfg)
	if c.prefetchQueue != nil {
		// same queue type, no worker goroutines: the driver drains it through processPrefetch
		c.prefetchQueue.Stop()
		c.prefetchQueue = &PrefetchQueue{items: make(chan PrefetchRequest, 64), ctx: context.Background(), metrics: c.metrics}
	}
	return c, edns.New(cfg), cfg
}

func vC19GenCacheArgs(r *rand.Rand) vC19BuildArgs {
	b := vC19GenBuildArgs(r)
	if r.Intn(6) != 0 { // mostly an enabled, valid policy
		b.enabled = true
		if b.f4 > 32 {
			b.f4 = 24
		}
		if b.f6 > 128 {
			b.f6 = 0
		}
		if b.m4 > 32 {
			b.m4 = 0
		}
		if b.m6 > 128 {
			b.m6 = 56
		}
		// operators' configurations leave knobs unset: ceilings and / or floors at their defaults
		// (floor = the RESOLVED ceiling), per family — `enabled = true` alone is the commonest shape
		switch r.Intn(6) {
		case 0:
			b.f4, b.f6, b.m4, b.m6 = 0, 0, 0, 0
		case 1:
			b.m4, b.m6 = 0, 0
		case 2:
			b.f4, b.m4 = 0, 0
		}
		var good []string
		for _, s := range b.nets {
			if _, err := netip.ParsePrefix(s); err == nil {
				good = append(good, s)
			}
		}
		b.nets = good
		if r.Intn(2) != 0 {
			b.nets = nil
		}
	}
	return b
}

func TestVerifC19Cache(t *testing.T) {
	tr := vC19Open(t)
	defer tr.f.Close()
	r := rand.New(rand.NewSource(int64(vC19EnvInt("VERIF_SEED", 1))))
	n := vC19EnvInt("VERIF_N", 300)
	vC19LeakReplay(tr)
	vC19OverlongReplay(tr)
	vC19CorpusReplay(t, tr)
	vC19TreeCorpusReplay(t, tr)
	vC19DenialSweep(tr)
	vC19RelaySweep(tr)
	vC19FailureSweep(tr)
	for c := 0; c < n; c++ {
		if c%4 == 3 {
			vC19DenialCase(tr, r)
		} else {
			vC19HistoryCase(tr, r)
		}
	}
}

// ---- corpus: fixed histories from $VERIF_CORPUS/cache_histories.json, replayed first on every run (the
// minimal inputs of the findings and of the seeded changes this check caught).  Addresses are hex byte
// strings so that 4-byte, 16-byte and IPv4-mapped forms can be told apart.
type vC19CorpusECS struct {
	Family uint16 `json:"family"`
	Mask   uint8  `json:"mask"`
	Scope  uint8  `json:"scope"`
	Addr   string `json:"addr"`
}

type vC19CorpusResp struct {
	TTL        int            `json:"ttl"`
	Class      int            `json:"class"`
	Opt        bool           `json:"opt"`
	OnlyIfSeen bool           `json:"only_if_seen"`
	ECS        *vC19CorpusECS `json:"ecs"`
}

type vC19CorpusOp struct {
	Remote string         `json:"remote"`
	Opt    bool           `json:"opt"`
	ECS    *vC19CorpusECS `json:"ecs"`
	CD     bool           `json:"cd"`
	Aged   bool           `json:"aged"`
	Wire   bool           `json:"wire"`
	Qi     int            `json:"qi"`
	Up     vC19CorpusResp `json:"up"`
	Rf     vC19CorpusResp `json:"rf"`
}

type vC19CorpusHistory struct {
	Name string `json:"name"`
	Cfg  struct {
		Enabled  bool     `json:"enabled"`
		F4       uint8    `json:"f4"`
		F6       uint8    `json:"f6"`
		M4       uint8    `json:"m4"`
		M6       uint8    `json:"m6"`
		Nets     []string `json:"nets"`
		EcsMaxS  int      `json:"ecs_max_s"`
		Prefetch bool     `json:"prefetch"`
	} `json:"cfg"`
	Ops []vC19CorpusOp `json:"ops"`
}

func vC19CorpusBytes(t *testing.T, s string) []byte {
	b := make([]byte, len(s)/2)
	for i := range b {
		n, err := strconv.ParseUint(s[2*i:2*i+2], 16, 8)
		if err != nil {
			t.Fatalf("corpus: bad hex %q", s)
		}
		b[i] = byte(n)
	}
	return b
}

func vC19CorpusOption(t *testing.T, e *vC19CorpusECS) *dns.EDNS0_SUBNET {
	return &dns.EDNS0_SUBNET{Code: dns.EDNS0SUBNET, Family: e.Family, SourceNetmask: e.Mask, SourceScope: e.Scope, Address: net.IP(vC19CorpusBytes(t, e.Addr))}
}

func vC19CorpusGen(t *testing.T, rs vC19CorpusResp) func(*dns.EDNS0_SUBNET) ([]dns.EDNS0, bool) {
	return func(seen *dns.EDNS0_SUBNET) ([]dns.EDNS0, bool) {
		if !rs.Opt || (rs.OnlyIfSeen && seen == nil) {
			return nil, false
		}
		if rs.ECS == nil {
			return nil, true
		}
		return []dns.EDNS0{vC19CorpusOption(t, rs.ECS)}, true
	}
}

func vC19CorpusReplay(t *testing.T, tr *vC19Trace) {
	dir := os.Getenv("VERIF_CORPUS")
	if dir == "" {
		return
	}
	raw, err := os.ReadFile(dir + "/cache_histories.json")
	if err != nil {
		return // no corpus: nothing to replay
	}
	var hs []vC19CorpusHistory
	if err := json.Unmarshal(raw, &hs); err != nil {
		t.Fatalf("corpus: %v", err)
	}
	for _, h := range hs {
		b := vC19BuildArgs{enabled: h.Cfg.Enabled, f4: h.Cfg.F4, f6: h.Cfg.F6, m4: h.Cfg.M4, m6: h.Cfg.M6, nets: h.Cfg.Nets}
		var plan []vC19Planned
		for _, op := range h.Ops {
			cl := vC19Client{remote: net.IP(vC19CorpusBytes(t, op.Remote)), hasOPT: op.Opt}
			if op.ECS != nil {
				cl.opts = []dns.EDNS0{vC19CorpusOption(t, op.ECS)}
			}
			plan = append(plan, vC19Planned{cl: cl, qi: op.Qi, cd: op.CD, aged: op.Aged, wire: op.Wire,
				upTTL: op.Up.TTL, rfTTL: op.Rf.TTL, upClass: op.Up.Class, rfClass: op.Rf.Class,
				upGen: vC19CorpusGen(t, op.Up), rfGen: vC19CorpusGen(t, op.Rf)})
		}
		vC19ExecHistory(tr, b, time.Duration(h.Cfg.EcsMaxS)*time.Second, h.Cfg.Prefetch, false,
			func(*ecs.Policy, [2]int) []vC19Planned { return plan }, "cache-corpus-"+h.Name)
	}
}

// ---- corpus: fixed request trees from $VERIF_CORPUS/denial_trees.json (alias chains against the seeded shared
// denial state), replayed first on every run
type vC19CorpusTree struct {
	Name string `json:"name"`
	Cfg  struct {
		Enabled bool     `json:"enabled"`
		F4      uint8    `json:"f4"`
		F6      uint8    `json:"f6"`
		M4      uint8    `json:"m4"`
		M6      uint8    `json:"m6"`
		Nets    []string `json:"nets"`
	} `json:"cfg"`
	Remote string         `json:"remote"`
	Opt    bool           `json:"opt"`
	ECS    *vC19CorpusECS `json:"ecs"`
	CD     bool           `json:"cd"`
	Wire   bool           `json:"wire"`
	Nodes  []struct {
		Kind int  `json:"kind"`
		Flip bool `json:"flip"`
	} `json:"nodes"`
}

func vC19TreeCorpusReplay(t *testing.T, tr *vC19Trace) {
	dir := os.Getenv("VERIF_CORPUS")
	if dir == "" {
		return
	}
	raw, err := os.ReadFile(dir + "/denial_trees.json")
	if err != nil {
		return
	}
	var ts []vC19CorpusTree
	if err := json.Unmarshal(raw, &ts); err != nil {
		t.Fatalf("corpus trees: %v", err)
	}
	for _, ct := range ts {
		b := vC19BuildArgs{enabled: ct.Cfg.Enabled, f4: ct.Cfg.F4, f6: ct.Cfg.F6, m4: ct.Cfg.M4, m6: ct.Cfg.M6, nets: ct.Cfg.Nets}
		cl := vC19Client{remote: net.IP(vC19CorpusBytes(t, ct.Remote)), hasOPT: ct.Opt}
		if ct.ECS != nil {
			cl.opts = []dns.EDNS0{vC19CorpusOption(t, ct.ECS)}
		}
		var nodes []*vC19Node
		for _, n := range ct.Nodes {
			nodes = append(nodes, &vC19Node{kind: n.Kind, flipCD: n.Flip})
		}
		vC19ExecTree(tr, b, nodes, cl, ct.CD, ct.Wire, "denial-corpus-"+ct.Name)
	}
}

// the systematic relay part (every run): alias chains of 1-3 plain hops in front of a creation probe, every
// pattern of responses that come back with the CD bit flipped (so that every mix of CD=0 / CD=1 sub-queries,
// inherited bypass and CD-marked proofs occurs), CD=0 and CD=1 roots, message- and wire-born: which writer
// on the way up — if any — records the denial the leaf learnt
func vC19RelaySweep(tr *vC19Trace) {
	remote := vC19V4(203, 0, 113, 77)
	for hops := 1; hops <= 3; hops++ {
		for pat := 0; pat < 1<<(hops+1); pat++ {
			for _, cd := range []bool{false, true} {
				if cd && pat%3 != 0 { // the CD roots: a third of the patterns is enough (nothing may be recorded)
					continue
				}
				var nodes []*vC19Node
				for i := 0; i <= hops; i++ {
					kind := 3
					if i == hops {
						kind = 2
					}
					nodes = append(nodes, &vC19Node{kind: kind, flipCD: pat&(1<<i) != 0})
				}
				cl := vC19Client{remote: remote, hasOPT: pat%2 == 0}
				vC19ExecTree(tr, vC19BuildArgs{enabled: hops != 2}, nodes, cl, cd, (pat+hops)%2 == 0, "denial-relay")
			}
		}
	}
}

// one planned query of a history
type vC19Planned struct {
	cl           vC19Client
	qi           int
	cd, aged     bool
	wire         bool // enter as a wire-born request when the strict parser admits the packet
	upTTL, rfTTL int
	upClass      int
	rfClass      int
	upGen, rfGen func(seen *dns.EDNS0_SUBNET) ([]dns.EDNS0, bool)
}

// regression for the former finding prefetch-ecs-overwrites-shared (fixed by d979d25): the history
// Proofs_cache.leak_ops, replayed on the real code on every run.  The refresh upstream would answer
// with SCOPE /24 if it saw a subnet option; it must not see one.
func vC19LeakReplay(tr *vC19Trace) {
	b := vC19BuildArgs{enabled: true}
	none := func(*dns.EDNS0_SUBNET) ([]dns.EDNS0, bool) { return nil, false }
	echo24 := func(seen *dns.EDNS0_SUBNET) ([]dns.EDNS0, bool) {
		if seen == nil {
			return nil, false
		}
		return []dns.EDNS0{&dns.EDNS0_SUBNET{Code: dns.EDNS0SUBNET, Family: 1, SourceNetmask: 24, SourceScope: 24, Address: vC19V4(203, 0, 113, 0)}}, true
	}
	a := vC19Client{remote: vC19V4(198, 51, 100, 10), hasOPT: true,
		opts: []dns.EDNS0{&dns.EDNS0_SUBNET{Code: dns.EDNS0SUBNET, Family: 1, SourceNetmask: 24, Address: vC19V4(203, 0, 113, 0)}}}
	plan := []vC19Planned{
		{cl: vC19Client{remote: vC19V4(198, 51, 100, 9), hasOPT: true}, upTTL: 60, rfTTL: 60, upGen: none, rfGen: none},
		{cl: a, aged: true, upTTL: 60, rfTTL: 60, upGen: none, rfGen: echo24},
		{cl: vC19Client{remote: vC19V4(198, 51, 100, 11), hasOPT: true}, upTTL: 60, rfTTL: 60, upGen: none, rfGen: none},
	}
	vC19ExecHistory(tr, b, 0, true, false, func(*ecs.Policy, [2]int) []vC19Planned { return plan }, "cache-replay-refresh")
}

// regression for the former finding unusable-scope-filed-shared (Proofs_cache.overlong_ops and
// unusable_ops), replayed on the real code on every run: SCOPE /33 on an IPv4 option, resp. family 2 on
// a 4-byte address, then a client without a subnet option, then another client of the same /24
func vC19OverlongReplay(tr *vC19Trace) {
	b := vC19BuildArgs{enabled: true}
	none := func(*dns.EDNS0_SUBNET) ([]dns.EDNS0, bool) { return nil, false }
	s33 := func(seen *dns.EDNS0_SUBNET) ([]dns.EDNS0, bool) {
		return []dns.EDNS0{&dns.EDNS0_SUBNET{Code: dns.EDNS0SUBNET, Family: 1, SourceNetmask: 24, SourceScope: 33, Address: vC19V4(203, 0, 113, 0)}}, true
	}
	a := vC19Client{remote: vC19V4(198, 51, 100, 10), hasOPT: true,
		opts: []dns.EDNS0{&dns.EDNS0_SUBNET{Code: dns.EDNS0SUBNET, Family: 1, SourceNetmask: 24, Address: vC19V4(203, 0, 113, 0)}}}
	fam2 := func(seen *dns.EDNS0_SUBNET) ([]dns.EDNS0, bool) {
		return []dns.EDNS0{&dns.EDNS0_SUBNET{Code: dns.EDNS0SUBNET, Family: 2, SourceNetmask: 24, SourceScope: 24, Address: vC19V4(10, 0, 0, 0)}}, true
	}
	a2 := a
	a2.remote = vC19V4(198, 51, 100, 12)
	for _, g := range []struct {
		gen  func(*dns.EDNS0_SUBNET) ([]dns.EDNS0, bool)
		kind string
	}{{s33, "cache-replay-overlong-scope"}, {fam2, "cache-replay-unusable-scope"}} {
		plan := []vC19Planned{
			{cl: a, upTTL: 60, rfTTL: 60, upGen: g.gen, rfGen: none},
			{cl: vC19Client{remote: vC19V4(198, 51, 100, 11), hasOPT: true}, upTTL: 60, rfTTL: 60, upGen: none, rfGen: none},
			{cl: a2, upTTL: 60, rfTTL: 60, upGen: none, rfGen: none},
		}
		vC19ExecHistory(tr, b, 0, false, false, func(*ecs.Policy, [2]int) []vC19Planned { return plan }, g.kind)
	}
}

func vC19HistoryCase(tr *vC19Trace, r *rand.Rand) {
	b := vC19GenCacheArgs(r)
	// one history in ten: client_networks also names one client of the history by its bare host address (no
	// prefix length) — a form ecs.Build refuses, so the whole [ecs] block is invalid for EVERY layer built
	// from it: nothing is forwarded, no answer is scoped.  Both layers must read the list the same way.
	var bareHost net.IP
	if b.enabled && r.Intn(10) == 0 {
		if r.Intn(3) == 0 {
			bareHost = make(net.IP, 16)
			r.Read(bareHost)
			bareHost[0], bareHost[1] = 0x20, 0x01
		} else {
			bareHost = vC19V4(1+r.Intn(222), r.Intn(256), r.Intn(256), 1+r.Intn(254))
		}
		b.nets = append(append([]string(nil), b.nets...), bareHost.String())
	}
	ecsMax := []time.Duration{0, 30 * time.Second, 300 * time.Second, 7200 * time.Second, 2 * time.Second}[r.Intn(5)]
	prefetch := r.Intn(3) != 0
	// referrals are kept for 5 s whatever their TTL says: histories with one are short-lived too
	withReferrals := r.Intn(6) == 0
	shortLived := (ecsMax > 0 && ecsMax < 5*time.Second) || withReferrals
	vC19ExecHistory(tr, b, ecsMax, prefetch, shortLived, func(pol *ecs.Policy, floors [2]int) []vC19Planned {
		clients := vC19GenClients(r, b)
		if bareHost != nil {
			clients[0].remote = bareHost
		}
		nops := 5 + r.Intn(9)
		if shortLived {
			nops = 3 + r.Intn(3)
		}
		gen := func(seen *dns.EDNS0_SUBNET) ([]dns.EDNS0, bool) { return vC19GenRespOpts(r, seen, floors) }
		class := func() int {
			switch r.Intn(10) {
			case 0, 1:
				return vC19NXDomainClass
			case 2, 3:
				return vC19NoData
			case 4:
				if withReferrals {
					return vC19Referral
				}
			}
			return vC19Positive
		}
		var plan []vC19Planned
		for i := 0; i < nops; i++ {
			pl := vC19Planned{cl: clients[r.Intn(len(clients))], qi: r.Intn(2), cd: r.Intn(10) == 0, aged: r.Intn(3) == 0,
				upTTL: []int{20, 60, 300, 3600, 86400, 200000}[r.Intn(6)], rfTTL: []int{20, 300, 86400, 200000}[r.Intn(4)],
				upClass: class(), rfClass: class(), upGen: gen, rfGen: gen, wire: r.Intn(2) == 0}
			if shortLived {
				pl.aged = false
			}
			plan = append(plan, pl)
			// audience-boundary probes: a narrow client gets an answer scoped to what it sent, then the same
			// name is asked by (a) a client of the enclosing wider prefix whose masked address, zero-extended,
			// is the narrow client's network, (b) the sibling network, (c) another host of the same network
			if !shortLived && r.Intn(4) == 0 {
				is4 := r.Intn(4) != 0
				a := vC19RandAddr(r, is4).AsSlice()
				w, narrow, wide := 32, 24, []int{8, 12, 16, 20, 22, 23}[r.Intn(6)]
				if !is4 {
					w, narrow, wide = 128, []int{56, 64}[r.Intn(2)], []int{32, 40, 44, 48, 52, 55}[r.Intn(6)]
				}
				for bit := wide; bit < narrow; bit++ {
					a[bit/8] &^= 0x80 >> uint(bit%8)
				}
				if a[0] == 0 {
					a[0] = 0x20
				}
				fam := uint16(1)
				if !is4 {
					fam = 2
				}
				mkc := func(addr []byte, mask int) vC19Client {
					return vC19Client{remote: pl.cl.remote, hasOPT: true, opts: []dns.EDNS0{&dns.EDNS0_SUBNET{Code: dns.EDNS0SUBNET, Family: fam,
						SourceNetmask: uint8(mask), Address: append(net.IP(nil), addr...)}}}
				}
				echo := func(seen *dns.EDNS0_SUBNET) ([]dns.EDNS0, bool) {
					if seen == nil {
						return nil, false
					}
					return []dns.EDNS0{&dns.EDNS0_SUBNET{Code: dns.EDNS0SUBNET, Family: seen.Family, SourceNetmask: seen.SourceNetmask,
						SourceScope: seen.SourceNetmask, Address: append(net.IP(nil), seen.Address...)}}, true
				}
				host := append([]byte(nil), a...)
				host[len(host)-1] |= byte(1 + r.Intn(200))
				sib := append([]byte(nil), a...)
				sib[(narrow-1)/8] ^= 0x80 >> uint((narrow-1)%8)
				other := append([]byte(nil), a...)
				other[len(other)-1] |= byte(201 + r.Intn(50))
				base := vC19Planned{qi: pl.qi, cd: pl.cd, upTTL: 300, rfTTL: 300, upGen: echo, rfGen: gen, wire: r.Intn(2) == 0}
				for _, cl := range []vC19Client{mkc(host, []int{narrow, w}[r.Intn(2)]), mkc(a, wide), mkc(sib, narrow), mkc(other, w)} {
					x := base
					x.cl = cl
					plan = append(plan, x)
				}
				_ = w
			}
		}
		// eligibility-boundary probes (policies with an allow-list): "the client" is one identity whatever
		// form its transport address arrives in — 4 bytes, or the 16-byte IPv4-mapped form a dual-stack
		// socket reports.  On a name of its own (so that no earlier shared entry answers first): a listed
		// client in one form gets an answer scoped to the subnet it sent; an unlisted client sending the
		// very same option, a client without any option, the listed client in its other form (same subnet:
		// a scoped hit; sibling subnet: outside) and a listed client of the other family follow.
		if pol != nil && len(pol.ClientNetworks) > 0 && !shortLived {
			plan = append(plan, vC19EligibilityProbes(r, pol, gen)...)
		}
		return plan
	}, "cache-history")
}

// a host inside p (host bits random)
func vC19HostIn(r *rand.Rand, p netip.Prefix) netip.Addr {
	b := p.Masked().Addr().AsSlice()
	for bit := p.Bits(); bit < len(b)*8; bit++ {
		if r.Intn(2) == 0 {
			b[bit/8] |= 0x80 >> uint(bit%8)
		}
	}
	a, _ := netip.AddrFromSlice(b)
	return a
}

func vC19EligibilityProbes(r *rand.Rand, pol *ecs.Policy, gen func(*dns.EDNS0_SUBNET) ([]dns.EDNS0, bool)) []vC19Planned {
	var listed, unlisted netip.Addr
	for try := 0; try < 8 && !listed.IsValid(); try++ {
		if a := vC19HostIn(r, pol.ClientNetworks[r.Intn(len(pol.ClientNetworks))]).Unmap(); pol.Allows(a) {
			listed = a
		}
	}
	if !listed.IsValid() {
		return nil
	}
	for try := 0; try < 20 && !unlisted.IsValid(); try++ {
		if a := vC19RandAddr(r, r.Intn(3) != 0); !pol.Allows(a.Unmap()) {
			unlisted = a.Unmap()
		}
	}
	if !unlisted.IsValid() {
		return nil
	}
	// the transport forms of one address
	forms := func(a netip.Addr) []net.IP {
		if a.Is4() {
			return []net.IP{net.IP(a.AsSlice()).To16(), net.IP(a.AsSlice())}
		}
		return []net.IP{net.IP(a.AsSlice())}
	}
	lf := forms(listed)
	if len(lf) == 2 && r.Intn(4) == 0 { // mostly the mapped form asks first
		lf[0], lf[1] = lf[1], lf[0]
	}
	uf := forms(unlisted)
	is4 := r.Intn(4) != 0
	sub := vC19RandAddr(r, is4).AsSlice()
	fam, narrow := uint16(1), 24
	if !is4 {
		fam, narrow = 2, 56
	}
	if sub[0] == 0 {
		sub[0] = 0x20
	}
	sib := append([]byte(nil), sub...)
	sib[(narrow-1)/8] ^= 0x80 >> uint((narrow-1)%8)
	mkc := func(remote net.IP, addr []byte, mask int) vC19Client {
		return vC19Client{remote: remote, hasOPT: true, opts: []dns.EDNS0{&dns.EDNS0_SUBNET{Code: dns.EDNS0SUBNET, Family: fam,
			SourceNetmask: uint8(mask), Address: append(net.IP(nil), addr...)}}}
	}
	echo := func(seen *dns.EDNS0_SUBNET) ([]dns.EDNS0, bool) {
		if seen == nil {
			return nil, false
		}
		return []dns.EDNS0{&dns.EDNS0_SUBNET{Code: dns.EDNS0SUBNET, Family: seen.Family, SourceNetmask: seen.SourceNetmask,
			SourceScope: seen.SourceNetmask, Address: append(net.IP(nil), seen.Address...)}}, true
	}
	cls := []vC19Client{
		mkc(lf[0], sub, narrow),
		mkc(uf[r.Intn(len(uf))], sub, narrow),
		{remote: uf[r.Intn(len(uf))], hasOPT: r.Intn(2) == 0},
		mkc(lf[len(lf)-1], sub, narrow),
		mkc(lf[r.Intn(len(lf))], sib, narrow),
	}
	if r.Intn(4) == 0 { // the unlisted client first: its shared answer must not reach the listed one's audience bookkeeping either
		cls[0], cls[1] = cls[1], cls[0]
	}
	var out []vC19Planned
	cd := r.Intn(12) == 0
	for _, cl := range cls {
		out = append(out, vC19Planned{cl: cl, qi: 2, cd: cd, upTTL: 300, rfTTL: 300, upGen: echo, rfGen: gen, wire: r.Intn(2) == 0})
	}
	return out
}

func vC19ExecHistory(tr *vC19Trace, b vC19BuildArgs, ecsMax time.Duration, prefetch bool, shortLived bool, mkPlan func(*ecs.Policy, [2]int) []vC19Planned, kind string) {
	// short-lived histories (a limit below the 5 s TTL floor, or referrals): entries live 2-5 s, so they
	// are short, never aged, and dropped if the machine stalled
	started := time.Now()
	c, e, _ := vC19NewCache(b, ecsMax, prefetch)
	defer c.Stop()
	pol := c.ecsPolicy
	floors := [2]int{24, 56}
	if pol != nil {
		floors = [2]int{int(pol.MinScopeV4), int(pol.MinScopeV6)}
	}
	plan := mkPlan(pol, floors)
	names := []string{"www.geo.test.", "cdn.geo.test.", "edge.geo.test."}
	var ops []string
	var desc []map[string]any
	known := map[int]vC19Answer{}
	byEntry := map[*CacheEntry]int{} // which answer an entry holds
	goFail := ""
	scopedHits, sharedHits, refreshes, scopedStores, bytesHits := 0, 0, 0, 0, 0
	fail := func(s string) {
		if goFail == "" {
			goFail = s
		}
	}
	nextID := 1
	for i, pl := range plan {
		cl, qi, cd, aged := pl.cl, pl.qi, pl.cd, pl.aged
		up := &vC19Script{id: nextID, ttl: pl.upTTL, class: pl.upClass, gen: pl.upGen}
		rf := &vC19Script{id: nextID + 1, ttl: pl.rfTTL, class: pl.rfClass, gen: pl.rfGen}
		nextID += 2

		req := new(dns.Msg)
		req.SetQuestion(names[qi], dns.TypeA)
		req.RecursionDesired = true
		req.CheckingDisabled = cd
		if cl.hasOPT {
			o := &dns.OPT{Hdr: dns.RR_Header{Name: ".", Rrtype: dns.TypeOPT}}
			o.SetUDPSize(1232)
			for _, x := range cl.opts {
				if s, ok := x.(*dns.EDNS0_SUBNET); ok {
					cp := *s
					cp.Address = append(net.IP(nil), s.Address...)
					if s.Address == nil {
						cp.Address = nil
					}
					o.Option = append(o.Option, &cp)
				} else {
					o.Option = append(o.Option, x)
				}
			}
			req.Extra = append(req.Extra, o)
		}
		var wireReq *middleware.Request
		if pl.wire {
			if wr, o, h, ok := vC19Wire(req); ok {
				wireReq, cl.opts, cl.hasOPT = wr, o, h
			}
		}
		qcoq := fmt.Sprintf("(mk_query %s %s %s %d)", vC19Bytes(cl.remote), vC19OptOpts(cl.opts, cl.hasOPT), vC19Bool(cd), qi)
		var qopts []string
		for _, x := range cl.opts {
			qopts = append(qopts, x.String())
		}

		// what would be forwarded for this client (for the audience oracle and to keep
		// subnet-carrying refreshes to the histories that are meant to have them)
		var fwProbe *dns.EDNS0_SUBNET
		{
			ca, _ := netip.AddrFromSlice(cl.remote)
			ca = ca.Unmap()
			if pol.Allows(ca) {
				for _, x := range cl.opts {
					if s, ok := x.(*dns.EDNS0_SUBNET); ok {
						fwProbe = pol.Clamp(s)
					}
				}
			}
		}

		// entries before; age them into the prefetch window for this query only
		before := map[*CacheEntry]time.Time{}
		c.ForEachEntry(func(_ bool, _ uint64, en *CacheEntry) bool {
			before[en] = en.stored
			if aged {
				en.stored = en.stored.Add(-(en.ttl - en.ttl/4))
			}
			return true
		})
		c.SetPrefetchQueryer(&vC19Queryer{handlers: func() []middleware.Handler {
			return []middleware.Handler{e, middleware.HandlerFunc(rf.serve)}
		}})
		w := &vC19Writer{proto: "udp", remote: cl.remote, port: 40000 + i}
		ch := middleware.NewChain([]middleware.Handler{e, c, middleware.HandlerFunc(up.serve)})
		if wireReq != nil {
			ch.ResetWire(w, wireReq)
			ch.AllowDirectPack() // as every owned listener does: the cache's byte ladder may answer
		} else {
			ch.Reset(w, req)
		}
		ch.Next(context.Background())
		for en, st := range before {
			en.stored = st
		}
		if w.msg == nil {
			tr.emit(map[string]any{"k": "cache-inconclusive", "inconclusive": true, "desc": "no reply"})
			return
		}
		served := vC19AnswerID(w.msg)

		// drain the prefetch queue synchronously
		queued := 0
	drain:
		for c.prefetchQueue != nil {
			select {
			case pr := <-c.prefetchQueue.items:
				queued++
				c.prefetchQueue.processPrefetch(pr)
			default:
				break drain
			}
		}

		// new entries
		var fresh []*CacheEntry
		c.ForEachEntry(func(_ bool, _ uint64, en *CacheEntry) bool {
			if _, ok := before[en]; !ok {
				fresh = append(fresh, en)
			}
			return true
		})

		d := map[string]any{"client": cl.remote.String(), "wire_born": wireReq != nil, "opts": qopts, "q": names[qi], "cd": cd, "aged": aged, "served_answer": served}
		obs := ""
		if up.called {
			// ---------------- miss
			if len(fresh) != 1 || queued != 0 {
				fail(fmt.Sprintf("op %d: miss wrote %d entries and queued %d refreshes", i, len(fresh), queued))
				break
			}
			en := fresh[0]
			byEntry[en] = up.id
			declared, dkind := vC19DeclaredScope(up.opts, up.hasOPT)
			if dkind == 3 && up.seen != nil {
				// a non-zero SCOPE nobody can interpret: the answer is tailored to somebody, so it is kept
				// for the audience that asked — the forwarded prefix, cut to the floor like any scope
				if a, ok := vC19AddrOfIP(up.seen.Address); ok {
					declared = netip.PrefixFrom(a, int(up.seen.SourceNetmask))
				}
			}
			eff := vC19Effective(pol, declared, up.seen)
			known[up.id] = vC19Answer{q: names[qi], cd: cd, eff: eff}
			if dkind == 3 && up.seen != nil && up.seen.SourceNetmask > 0 && !en.scope.IsValid() {
				fail(fmt.Sprintf("op %d: the authority declared a non-zero SCOPE nobody can interpret (%v) for a query that carried %v; the answer is filed under the shared key", i, up.opts, up.seen))
			}
			if served != up.id {
				fail(fmt.Sprintf("op %d: miss served answer %d, upstream produced %d", i, served, up.id))
			}
			ca, _ := netip.AddrFromSlice(cl.remote)
			if up.seen != nil {
				var ins []*dns.EDNS0_SUBNET
				for _, x := range cl.opts {
					if s, ok := x.(*dns.EDNS0_SUBNET); ok {
						ins = append(ins, s)
					}
				}
				if !pol.Allows(ca.Unmap()) {
					fail(fmt.Sprintf("op %d: subnet option reached the upstream for an ineligible client", i))
				}
				why := "no client option"
				for _, in := range ins {
					if why = vC19ForwardedOK(pol, in, up.seen); why == "" {
						break
					}
				}
				if why != "" {
					fail(fmt.Sprintf("op %d: upstream saw %s: %s", i, up.seen.String(), why))
				}
			}
			if en.scope != eff {
				fail(fmt.Sprintf("op %d: entry stored under scope %s, declared %s forwarded %v floor -> audience %s", i, en.scope, declared, up.seen, eff))
			}
			if en.scope.IsValid() {
				scopedStores++
				if ecsMax > 0 && en.ttl > ecsMax {
					fail(fmt.Sprintf("op %d: scoped entry TTL %s above the limit %s", i, en.ttl, ecsMax))
				}
				if en.PrefetchEligible() {
					fail(fmt.Sprintf("op %d: scoped entry is prefetch eligible", i))
				}
			}
			obs = fmt.Sprintf("(mk_obs 0 %d (Some %s) (Some (%s, %d%%Z)) None)", served, vC19OptEcs(up.seen), vC19Pfx(en.scope), int64(en.ttl))
			d["result"] = "miss"
			d["upstream_saw"] = fmt.Sprint(up.seen)
			d["authority_opt"] = fmt.Sprint(up.opts)
			d["answer_class"] = vC19ClassName[up.class]
			d["stored_scope"] = en.scope.String()
			d["stored_ttl"] = en.ttl.String()
		} else {
			// ---------------- hit
			ans, ok := known[served]
			if !ok {
				fail(fmt.Sprintf("op %d: served unknown answer %d", i, served))
				break
			}
			var hitEntry *CacheEntry
			for en, id := range byEntry {
				if id == served {
					if _, live := before[en]; live {
						hitEntry = en
					}
				}
			}
			if hitEntry == nil {
				fail(fmt.Sprintf("op %d: served answer %d has no live entry", i, served))
				break
			}
			src := 2
			if hitEntry.scope.IsValid() {
				src = 1
				scopedHits++
			} else {
				sharedHits++
			}
			if ans.q != names[qi] || ans.cd != cd {
				fail(fmt.Sprintf("op %d: answer of another question served", i))
			}
			if ans.eff.IsValid() && !vC19Inside(fwProbe, ans.eff) {
				fail(fmt.Sprintf("op %d: answer %d scoped to %s served to a client whose forwarded subnet is %v", i, served, ans.eff, fwProbe))
			}
			refresh := "None"
			if queued > 0 {
				refreshes++
				if queued != 1 || !rf.called {
					fail(fmt.Sprintf("op %d: %d refreshes queued, upstream called %v", i, queued, rf.called))
					break
				}
				if hitEntry.scope.IsValid() {
					fail(fmt.Sprintf("op %d: scoped entry %s was background-refreshed", i, hitEntry.scope))
				}
				if len(fresh) == 1 {
					byEntry[fresh[0]] = rf.id
					declared, _ := vC19DeclaredScope(rf.opts, rf.hasOPT)
					eff := vC19Effective(pol, declared, rf.seen)
					known[rf.id] = vC19Answer{q: names[qi], cd: cd, eff: netip.Prefix{}}
					if rf.seen != nil {
						fail(fmt.Sprintf("op %d: the background refresh showed the subnet %v to the upstream", i, rf.seen))
					}
					if eff.IsValid() {
						fail(fmt.Sprintf("op %d: the answer of a refresh, scoped to %s, now sits under the shared key", i, eff))
					}
				} else {
					fail(fmt.Sprintf("op %d: refresh wrote %d entries", i, len(fresh)))
				}
				refresh = "(Some " + vC19OptEcs(rf.seen) + ")"
				d["refresh_upstream_saw"] = fmt.Sprint(rf.seen)
				d["refresh_authority_opt"] = fmt.Sprint(rf.opts)
			} else if len(fresh) != 0 {
				fail(fmt.Sprintf("op %d: hit wrote %d entries", i, len(fresh)))
			}
			obs = fmt.Sprintf("(mk_obs %d %d None None %s)", src, served, refresh)
			d["result"] = []string{"", "scoped hit", "shared hit"}[src]
			d["entry_scope"] = hitEntry.scope.String()
		}
		fromBytes := wireReq != nil && wireReq.Undecoded() // answered without ever decoding the request
		d["wire_born"], d["from_bytes"] = wireReq != nil, fromBytes
		if fromBytes {
			bytesHits++
		}
		ops = append(ops, fmt.Sprintf("(mk_cop %s %s %s %s, %s, (%s, %s))", qcoq, up.coq(), vC19Bool(aged), rf.coq(), obs, vC19Bool(wireReq != nil), vC19Bool(fromBytes)))
		desc = append(desc, d)
	}
	if shortLived && time.Since(started) > 700*time.Millisecond {
		tr.emit(map[string]any{"k": "cache-inconclusive", "inconclusive": true, "desc": "stall during a short-lived history"})
		return
	}
	k := kind
	if pol == nil {
		k += "-policy-off"
	} else if scopedHits > 0 {
		k += "-scoped-hits"
	} else if scopedStores > 0 {
		k += "-scoped"
	}
	if refreshes > 0 {
		k += "+refresh"
	}
	if bytesHits > 0 {
		k += "+bytes"
	}
	tr.emit(map[string]any{"k": k,
		"coq":     fmt.Sprintf("CaseCacheW (mk_ccfg %s %d%%Z %s) [%s]", b.coq(), int64(ecsMax), vC19Bool(prefetch), strings.Join(ops, "; ")),
		"go_fail": goFail, "nontrivial": scopedStores > 0 || sharedHits > 0,
		"desc": map[string]any{"ecs_cfg": fmt.Sprintf("%+v", b), "cache_limit_ttl": ecsMax.String(), "prefetch": prefetch, "ops": desc}})
}

// ---------------------------------------------------------------- request trees

const (
	vC19CutZone   = "cutz.example."
	vC19CutDenied = "missing.cutz.example."
	vC19ProofZone = "nsecz.example."
)

func vC19Sig(owner, signer string, covered uint16) *dns.RRSIG {
	now := time.Now()
	return &dns.RRSIG{Hdr: dns.RR_Header{Name: owner, Rrtype: dns.TypeRRSIG, Class: dns.ClassINET, Ttl: 300},
		TypeCovered: covered, Algorithm: dns.RSASHA256, Labels: uint8(dns.CountLabel(owner)), OrigTtl: 300,
		Expiration: uint32(now.Add(time.Hour).Unix()), Inception: uint32(now.Add(-time.Hour).Unix()), KeyTag: 12345, SignerName: signer, Signature: "AA=="}
}

// NXDOMAIN with SOA and an apex NSEC spanning the zone (covers the name and the wildcard)
func vC19NXDomain(req *dns.Msg, zone string) *dns.Msg {
	resp := new(dns.Msg)
	resp.SetRcode(req, dns.RcodeNameError)
	resp.RecursionAvailable = true
	resp.AuthenticatedData = true
	resp.Ns = []dns.RR{
		&dns.SOA{Hdr: dns.RR_Header{Name: zone, Rrtype: dns.TypeSOA, Class: dns.ClassINET, Ttl: 300}, Ns: "ns1." + zone, Mbox: "hostmaster." + zone,
			Serial: 1, Refresh: 3600, Retry: 600, Expire: 86400, Minttl: 300},
		vC19Sig(zone, zone, dns.TypeSOA),
		&dns.NSEC{Hdr: dns.RR_Header{Name: zone, Rrtype: dns.TypeNSEC, Class: dns.ClassINET, Ttl: 300}, NextDomain: "zzz." + zone,
			TypeBitMap: []uint16{dns.TypeNS, dns.TypeSOA, dns.TypeRRSIG, dns.TypeNSEC, dns.TypeDNSKEY}},
		vC19Sig(zone, zone, dns.TypeNSEC),
	}
	return resp
}

type vC19Node struct {
	kind     int // 0 name under the seeded cut, 1 name covered by the seeded NSEC proof, 2 fresh zone (creation probe)
	name     string
	zone     string
	resCD    bool
	flipCD   bool
	upstream bool // reached the scripted upstream
}

func vC19DenialCase(tr *vC19Trace, r *rand.Rand) {
	b := vC19GenCacheArgs(r)
	switch r.Intn(6) {
	case 0: // no [ecs] policy: the default configuration
		b.enabled = false
	case 1: // an invalid one: fails closed to no policy
		b.enabled, b.f4 = true, 33+uint8(r.Intn(200))
	}
	// the tree: root plus a chain of alias targets
	depth := 1 + r.Intn(4)
	var nodes []*vC19Node
	for i := 0; i < depth; i++ {
		nd := &vC19Node{kind: r.Intn(3)}
		if i+1 < depth && r.Intn(3) == 0 {
			nd.kind = 3 // a plain alias hop in an unrelated zone: lets an open tree go deeper
		}
		switch nd.kind {
		case 0, 1:
			nd.flipCD = r.Intn(4) == 0
		case 3:
			nd.flipCD = r.Intn(3) == 0
		default:
			nd.flipCD = r.Intn(6) == 0
		}
		nodes = append(nodes, nd)
		if nd.kind == 2 {
			break // a marked NXDOMAIN ends the chase
		}
	}
	// the case only the context flag covers: a CD root whose alias answer comes back with CD
	// cleared, so the follow-up sub-query carries neither CD nor a subnet option
	cdFlipTemplate := len(nodes) >= 2 && nodes[0].kind != 2 && r.Intn(3) == 0
	if cdFlipTemplate {
		nodes[0].flipCD = true
	}
	// the root query
	cd := r.Intn(3) == 0
	clients := vC19GenClients(r, b)
	cl := clients[r.Intn(len(clients))]
	if r.Intn(2) == 0 { // an ordinary root: no subnet option, no CD
		cl.opts, cl.hasOPT = nil, r.Intn(2) == 0
		cd = false
	}
	if cdFlipTemplate {
		cl.opts, cl.hasOPT = nil, true
		cd = true
	} else if r.Intn(5) == 0 {
		// the option in its opt-out form (family 0, source 0, no address): still a client-sent subnet
		// option, so the tree is audience-marked although nothing can be forwarded
		cl.opts, cl.hasOPT = []dns.EDNS0{&dns.EDNS0_SUBNET{Code: dns.EDNS0SUBNET, Family: 0, SourceNetmask: 0}}, true
		cd = false
	}
	vC19ExecTree(tr, b, nodes, cl, cd, r.Intn(2) == 0, "denial")
}

// the systematic part (every run, before the random trees): depth-1 trees over the full product
// [ecs] policy {off, invalid, on for everyone, on but the client is not in client_networks}
//
//	x birth {message, wire (ParseWire + ResetWire + AllowDirectPack)}
//	x what the client sent {no OPT, bare OPT, subnet v4, subnet v6, the opt-out form, CD, CD + subnet}
//	x what covers the name {a shared RFC 8020 cut, a shared RFC 8198 proof, nothing yet (creation)}
//
// — in particular the wire-born subnet-bearing query on a resolver WITHOUT an [ecs] policy, the
// default configuration, where the byte ladder of the cache runs before anything is decoded
func vC19DenialSweep(tr *vC19Trace) {
	remote := vC19V4(203, 0, 113, 77)
	v4 := &dns.EDNS0_SUBNET{Code: dns.EDNS0SUBNET, Family: 1, SourceNetmask: 24, Address: vC19V4(203, 0, 113, 0)}
	v6 := &dns.EDNS0_SUBNET{Code: dns.EDNS0SUBNET, Family: 2, SourceNetmask: 56, Address: net.ParseIP("2001:db8:1::")}
	out := &dns.EDNS0_SUBNET{Code: dns.EDNS0SUBNET, Family: 0, SourceNetmask: 0}
	policies := []vC19BuildArgs{
		{enabled: false},
		{enabled: true, f4: 77},
		{enabled: true},
		{enabled: true, nets: []string{"198.51.100.0/24"}},
	}
	type sent struct {
		opts   []dns.EDNS0
		hasOPT bool
		cd     bool
	}
	sents := []sent{
		{nil, false, false}, {nil, true, false},
		{[]dns.EDNS0{v4}, true, false}, {[]dns.EDNS0{v6}, true, false}, {[]dns.EDNS0{out}, true, false},
		{nil, true, true}, {[]dns.EDNS0{v4}, true, true},
	}
	for _, b := range policies {
		for _, wire := range []bool{false, true} {
			for _, sn := range sents {
				for kind := 0; kind < 3; kind++ {
					cl := vC19Client{remote: remote, opts: sn.opts, hasOPT: sn.hasOPT}
					vC19ExecTree(tr, b, []*vC19Node{{kind: kind}}, cl, sn.cd, wire, "denial-sweep")
				}
			}
		}
	}
}

// RFC 9520 failure state (every run): a resolution failure of the asked name is cached under the SHARED
// failure key (as a client without request scope leaves it), for CD=0 and CD=1; then the same product
// of policies x births x client options asks that name.  Observed: answered SERVFAIL without reaching the
// upstream = the shared failure entry was consumed.
func vC19FailureSweep(tr *vC19Trace) {
	remote := vC19V4(203, 0, 113, 77)
	v4 := &dns.EDNS0_SUBNET{Code: dns.EDNS0SUBNET, Family: 1, SourceNetmask: 24, Address: vC19V4(203, 0, 113, 0)}
	v4zero := &dns.EDNS0_SUBNET{Code: dns.EDNS0SUBNET, Family: 1, SourceNetmask: 0, Address: vC19V4(0, 0, 0, 0)}
	v6 := &dns.EDNS0_SUBNET{Code: dns.EDNS0SUBNET, Family: 2, SourceNetmask: 56, Address: net.ParseIP("2001:db8:1::")}
	mism := &dns.EDNS0_SUBNET{Code: dns.EDNS0SUBNET, Family: 2, SourceNetmask: 24, Address: vC19V4(203, 0, 113, 0)} // not forwardable
	out := &dns.EDNS0_SUBNET{Code: dns.EDNS0SUBNET, Family: 0, SourceNetmask: 0}
	policies := []vC19BuildArgs{
		{enabled: false},
		{enabled: true, f4: 77},
		{enabled: true},
		{enabled: true, nets: []string{"198.51.100.0/24"}},
		{enabled: true, nets: []string{"203.0.113.0/24"}},
	}
	type sent struct {
		opts   []dns.EDNS0
		hasOPT bool
		cd     bool
	}
	sents := []sent{
		{nil, false, false}, {nil, true, false},
		{[]dns.EDNS0{v4}, true, false}, {[]dns.EDNS0{v6}, true, false}, {[]dns.EDNS0{out}, true, false},
		{[]dns.EDNS0{v4zero}, true, false}, {[]dns.EDNS0{mism}, true, false},
		{nil, true, true}, {[]dns.EDNS0{v4}, true, true},
	}
	const name = "n0.failz.example."
	for _, b := range policies {
		for _, wantWire := range []bool{false, true} {
			for _, sn := range sents {
				c, e, _ := vC19NewCache(b, 0, false)
				for _, scd := range []bool{false, true} {
					seed := new(dns.Msg)
					seed.SetQuestion(name, dns.TypeA)
					seed.CheckingDisabled = scd
					c.store.RecordFailure(seed, netip.Prefix{}, FailureProvenance("verif"), nil)
				}
				if c.store.FailureLen() == 0 {
					tr.emit(map[string]any{"k": "failure-seed-failed", "go_fail": "cannot seed the failure cache", "desc": "seed"})
					c.Stop()
					return
				}
				reached := false
				upstream := middleware.HandlerFunc(func(ctx context.Context, ch *middleware.Chain) {
					reached = true
					req := ch.Request.Msg()
					resp := new(dns.Msg)
					resp.SetReply(req)
					resp.RecursionAvailable = true
					resp.Answer = []dns.RR{&dns.A{Hdr: dns.RR_Header{Name: name, Rrtype: dns.TypeA, Class: dns.ClassINET, Ttl: 300}, A: net.IPv4(192, 0, 2, 9).To4()}}
					_ = ch.Writer.WriteMsg(resp)
					ch.Cancel()
				})
				req := new(dns.Msg)
				req.SetQuestion(name, dns.TypeA)
				req.RecursionDesired = true
				req.CheckingDisabled = sn.cd
				opts, hasOPT := sn.opts, sn.hasOPT
				if hasOPT {
					o := &dns.OPT{Hdr: dns.RR_Header{Name: ".", Rrtype: dns.TypeOPT}}
					o.SetUDPSize(1232)
					o.Option = append(o.Option, opts...)
					req.Extra = append(req.Extra, o)
				}
				var wireReq *middleware.Request
				if wantWire {
					if wr, o, h, ok := vC19Wire(req); ok {
						wireReq, opts, hasOPT = wr, o, h
					}
				}
				w := &vC19Writer{proto: "udp", remote: remote, port: 42000}
				ch := middleware.NewChain([]middleware.Handler{e, c, upstream})
				if wireReq != nil {
					ch.ResetWire(w, wireReq)
					ch.AllowDirectPack()
				} else {
					ch.Reset(w, req)
				}
				ch.Next(context.Background())
				neverDecoded := wireReq != nil && wireReq.Undecoded()
				c.Stop()
				if w.msg == nil {
					tr.emit(map[string]any{"k": "failure-inconclusive", "inconclusive": true, "desc": "no reply"})
					continue
				}
				consumed := !reached && w.msg.Rcode == dns.RcodeServerFailure
				goFail := ""
				if !reached && !consumed {
					goFail = fmt.Sprintf("upstream not reached, yet the reply is %s", dns.RcodeToString[w.msg.Rcode])
				}
				if _, leaked := vC19ReplyHasECS(w.msg); leaked {
					goFail = "the failure reply carries a subnet option"
				}
				k := "failure-sweep"
				if consumed {
					k += "-served"
				}
				if wireReq != nil {
					k += "-wire"
				}
				if c.ecsPolicy == nil {
					k += "-nopolicy"
				}
				tr.emit(map[string]any{"k": k, "coq": fmt.Sprintf("CaseFailure %s %s %s %s %s", b.coq(), vC19Bytes(remote), vC19OptOpts(opts, hasOPT), vC19Bool(wireReq != nil), vC19Bool(consumed)),
					"go_fail": goFail, "nontrivial": true,
					"desc": map[string]any{"ecs_cfg": fmt.Sprintf("%+v", b), "client": remote.String(), "cd": sn.cd, "opts": fmt.Sprint(opts), "wire_born": wireReq != nil, "never_decoded": neverDecoded, "reached_upstream": reached, "rcode": dns.RcodeToString[w.msg.Rcode]}})
			}
		}
	}
}

func vC19ReplyHasECS(m *dns.Msg) (int, bool) {
	n := 0
	for _, rr := range m.Extra {
		if o, ok := rr.(*dns.OPT); ok {
			for _, x := range o.Option {
				if _, ok := x.(*dns.EDNS0_SUBNET); ok {
					n++
				}
			}
		}
	}
	return n, n > 0
}

// runs one request tree: nodes[0] is the root's question, nodes[i+1] the alias target of nodes[i]
func vC19ExecTree(tr *vC19Trace, b vC19BuildArgs, nodes []*vC19Node, cl vC19Client, cd bool, wantWire bool, label string) {
	c, e, _ := vC19NewCache(b, 0, false)
	defer c.Stop()
	pol := c.ecsPolicy

	// seeded shared state
	seedReq := new(dns.Msg)
	seedReq.SetQuestion(vC19CutDenied, dns.TypeA)
	seedReq.SetEdns0(1232, true)
	if !c.store.RecordNXDomainCut(vC19NXDomain(seedReq, vC19CutZone), vC19CutDenied, vC19CutZone, time.Time{}) {
		tr.emit(map[string]any{"k": "denial-seed-failed", "go_fail": "cannot seed the RFC 8020 cut", "desc": "seed"})
		return
	}
	pReq := new(dns.Msg)
	pReq.SetQuestion("seed."+vC19ProofZone, dns.TypeA)
	pReq.SetEdns0(1232, true)
	proofSeeded := c.store.RecordDenialProof(vC19NXDomain(pReq, vC19ProofZone), vC19ProofZone, middleware.ValidatedNegativeProofNSEC, time.Time{})

	for i, nd := range nodes {
		if nd.kind == 1 && !proofSeeded {
			nd.kind = 0
		}
		switch nd.kind {
		case 0:
			nd.name = fmt.Sprintf("n%d.%s", i, vC19CutDenied)
			nd.zone = vC19CutZone
		case 1:
			nd.name = fmt.Sprintf("n%d.%s", i, vC19ProofZone)
			nd.zone = vC19ProofZone
		case 3:
			nd.zone = "plain.example."
			nd.name = fmt.Sprintf("alias%d.plain.example.", i)
		default:
			nd.zone = fmt.Sprintf("fresh%d.example.", i)
			nd.name = "gone." + nd.zone
		}
	}
	byName := map[string]*vC19Node{}
	for _, nd := range nodes {
		byName[nd.name] = nd
	}
	var order []*vC19Node // nodes in the order the cache evaluated them
	upstream := middleware.HandlerFunc(func(ctx context.Context, ch *middleware.Chain) {
		req := ch.Request.Msg()
		nd := byName[req.Question[0].Name]
		if nd == nil {
			return
		}
		nd.upstream = true
		var resp *dns.Msg
		if nd.kind == 2 {
			resp = vC19NXDomain(req, nd.zone)
			if nd.flipCD {
				resp.CheckingDisabled = !resp.CheckingDisabled
			}
			middleware.MarkValidatedNegativeProofResponse(ctx, resp, middleware.ValidatedNegativeProof{
				Subject: nd.name, Zone: nd.zone, Kind: middleware.ValidatedNegativeProofNSEC, Aggressive: true})
		} else {
			resp = new(dns.Msg)
			resp.SetReply(req)
			resp.RecursionAvailable = true
			// alias to the next node, or a terminal address
			var nextName string
			for i, x := range nodes {
				if x == nd && i+1 < len(nodes) {
					nextName = nodes[i+1].name
				}
			}
			if nd.flipCD {
				// an upstream / rewriting handler that does not echo the CD bit: the alias
				// follow-up then inherits the flipped bit and only the context flag remembers
				resp.CheckingDisabled = !resp.CheckingDisabled
			}
			if nextName != "" {
				resp.Answer = []dns.RR{&dns.CNAME{Hdr: dns.RR_Header{Name: nd.name, Rrtype: dns.TypeCNAME, Class: dns.ClassINET, Ttl: 300}, Target: nextName}}
			} else {
				resp.Answer = []dns.RR{&dns.A{Hdr: dns.RR_Header{Name: nd.name, Rrtype: dns.TypeA, Class: dns.ClassINET, Ttl: 300}, A: net.IPv4(192, 0, 2, 7).To4()}}
			}
		}
		nd.resCD = resp.CheckingDisabled
		_ = ch.Writer.WriteMsg(resp)
		ch.Cancel()
	})
	// a probe in front of the cache records which names the cache was asked for, in order
	probe := middleware.HandlerFunc(func(ctx context.Context, ch *middleware.Chain) {
		if ch.Request.Undecoded() {
			// the wire-born root: do not decode it here, the cache's wire ladder runs on the bytes
			order = append(order, nodes[0])
		} else if nd := byName[ch.Request.Msg().Question[0].Name]; nd != nil {
			order = append(order, nd)
		}
		ch.Next(ctx)
	})
	handlers := func() []middleware.Handler { return []middleware.Handler{e, probe, c, upstream} }
	c.SetQueryer(&vC19Queryer{handlers: handlers})

	req := new(dns.Msg)
	req.SetQuestion(nodes[0].name, dns.TypeA)
	req.RecursionDesired = true
	req.CheckingDisabled = cd
	rawECS := false
	if cl.hasOPT {
		o := &dns.OPT{Hdr: dns.RR_Header{Name: ".", Rrtype: dns.TypeOPT}}
		o.SetUDPSize(1232)
		o.SetDo()
		o.Option = append(o.Option, cl.opts...)
		req.Extra = append(req.Extra, o)
		for _, x := range cl.opts {
			if _, ok := x.(*dns.EDNS0_SUBNET); ok {
				rawECS = true
			}
		}
	}
	var wireReq *middleware.Request
	if wantWire {
		if wr, o, h, ok := vC19Wire(req); ok {
			wireReq, cl.opts, cl.hasOPT = wr, o, h
		}
	}
	cutsBefore, proofsBefore := c.store.NXDomainCutLen(), c.store.DenialProofLen()
	w := &vC19Writer{proto: "udp", remote: cl.remote, port: 41000}
	ch := middleware.NewChain(handlers())
	if wireReq != nil {
		ch.ResetWire(w, wireReq)
		ch.AllowDirectPack() // as every owned listener does: the cache's byte ladder may answer
	} else {
		ch.Reset(w, req)
	}
	ch.Next(context.Background())
	created := c.store.NXDomainCutLen() != cutsBefore || c.store.DenialProofLen() != proofsBefore

	// render the tree the cache actually walked (a chain: each node's child is the next one evaluated)
	var seen []string
	var ndesc []map[string]any
	goFail := ""
	isolated := cd || rawECS
	tree := ""
	for i := len(order) - 1; i >= 0; i-- {
		nd := order[i]
		remote, opts, ncd := vC19Bytes(vC19InternalIP.To16()), "(Some [])", false
		if i == 0 {
			remote, opts, ncd = vC19Bytes(cl.remote), vC19OptOpts(cl.opts, cl.hasOPT), cd
		} else {
			// sub-queries copy the CD bit of the message being completed
			ncd = order[i-1].resCD
		}
		child := "[]"
		if tree != "" {
			child = "[" + tree + "]"
		}
		resCD := nd.resCD
		if !nd.upstream {
			resCD = ncd
		}
		tree = fmt.Sprintf("RNode %s %s %s %s %s", vC19Bool(ncd), remote, opts, vC19Bool(resCD), child)
	}
	for _, nd := range order {
		happened := false
		switch nd.kind {
		case 0, 1:
			happened = !nd.upstream // answered from the shared denial state
		case 2:
			happened = created
		}
		seen = append(seen, fmt.Sprintf("(%d%%N, %s)", nd.kind, vC19Bool(happened)))
		ndesc = append(ndesc, map[string]any{"name": nd.name, "probe": []string{"consume-cut", "consume-proof", "create", "none"}[nd.kind], "happened": happened, "reached_upstream": nd.upstream})
		if isolated && happened && goFail == "" {
			goFail = fmt.Sprintf("a tree rooted at a CD=%v / subnet-option=%v query %s shared denial state at %s", cd, rawECS, []string{"consumed", "consumed", "created", ""}[nd.kind], nd.name)
		}
	}
	if len(order) == 0 {
		tr.emit(map[string]any{"k": "denial-inconclusive", "inconclusive": true, "desc": "cache not reached"})
		return
	}
	k := label + "-open"
	if isolated {
		k = label + "-isolated"
	}
	k += fmt.Sprintf("-depth%d", len(order))
	ctor := "CaseDenial"
	if wireReq != nil {
		ctor = "CaseDenialWire"
		k += "-wire"
	}
	if pol == nil {
		k += "-nopolicy"
	}
	tr.emit(map[string]any{"k": k, "coq": fmt.Sprintf("%s %s (%s) [%s]", ctor, b.coq(), tree, strings.Join(seen, "; ")),
		"go_fail": goFail, "nontrivial": true,
		"desc": map[string]any{"ecs_cfg": fmt.Sprintf("%+v", b), "client": cl.remote.String(), "wire_born": wireReq != nil, "reply_packed": w.bytes, "never_decoded": wireReq != nil && wireReq.Undecoded(), "cd": cd, "subnet_option": rawECS, "proof_seeded": proofSeeded, "nodes": ndesc}})
	_ = pol
}
