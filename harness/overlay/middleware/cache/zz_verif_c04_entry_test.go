//go:build verif

package cache

// C04 driver (entries): admission through every store entry point, the
// read-time expiry arithmetic, the request-tree bound, and histories of hits
// on every serving route across a stepped clock.

import (
	"context"
	"encoding/json"
	"fmt"
	"math/rand"
	"net/netip"
	"os"
	"path/filepath"
	"strings"
	"testing"
	"time"

	"github.com/miekg/dns"
	"github.com/semihalev/sdns/internal/dnsutil"
	"github.com/semihalev/sdns/middleware"
)

func vC04OptList(k *vC04Clock, ts []time.Time) string {
	var p []string
	for _, t := range ts {
		p = append(p, vC04Cut(k, t))
	}
	return "[" + strings.Join(p, "; ") + "]"
}

func TestVerifC04Entry(t *testing.T) {
	out := vC04Open(t)
	defer out.f.Close()
	seed := int64(vC04EnvInt("VERIF_SEED", 1))
	r := rand.New(rand.NewSource(seed + 4040))
	n := vC04EnvInt("VERIF_N", 1200)

	// fixed regression inputs first (seeded changes C04-4, C04-6, mutations M7, M9, M12, ...)
	if raw, err := os.ReadFile(filepath.Join(os.Getenv("VERIF_CORPUS"), "hist.jsonl")); err == nil {
		for _, line := range strings.Split(string(raw), "\n") {
			if line = strings.TrimSpace(line); line == "" || strings.HasPrefix(line, "#") {
				continue
			}
			plan := new(vC04HistPlan)
			if err := json.Unmarshal([]byte(line), plan); err != nil {
				t.Fatalf("corpus hist.jsonl: %v", err)
			}
			vC04CaseHist(out, r, plan)
		}
	}
	for c := 0; c < n; c++ {
		switch {
		case c%6 == 0:
			vC04CaseRemain(out, r)
		case c%6 == 1:
			vC04CaseFold(out, r)
		default:
			vC04CaseHist(out, r, nil)
		}
	}
}

// vC04HistPlan is one fixed scenario of corpus/C04/hist.jsonl: a positive answer (one A
// record, optionally a glue record with its own TTL in the additional section) admitted
// through entry point How with an optional lease, then hits on given routes after given
// clock steps.
type vC04HistPlan struct {
	Name     string `json:"name"`
	TTL      uint32 `json:"ttl"`
	ExtraTTL uint32 `json:"extra_ttl"` // 0: no additional section
	How      int    `json:"how"`       // 0 SetFromResponseWithKey, 1 SetFromResponseScoped, 2 client path, 3 Cache.Set, 4 ReplaceIfCurrent, 5 client path with ECS (scoped)
	LeaseMs  int64  `json:"lease_ms"`  // 0: no lease
	EcsMaxS  int64  `json:"ecs_max_s"` // the operator's ECS cap (cache_limit_ttl) in seconds, 0: none
	// Neg != "": a DNSSEC-signed negative answer instead ("nxdomain" | "nodata"): SOA with TTL and
	// MINIMUM = TTL, its RRSIG ending SoaSigS seconds from now, one NSEC with NsecTTL whose RRSIG
	// ends NsecSigS seconds from now (the signature windows are wall-clock terms of the admission)
	Neg      string `json:"neg"`
	SoaSigS  int64  `json:"soa_sig_s"`
	NsecTTL  uint32 `json:"nsec_ttl"`
	NsecSigS int64  `json:"nsec_sig_s"`
	Steps    []struct {
		ShiftMs int64 `json:"shift_ms"`
		Route   int   `json:"route"` // 0 cache alone, 1 edns+cache byte path, 2 wire-born, 3 forced Msg path, 4 Store.GetWithContext
	} `json:"steps"`
}

// CRemain / CBound: exact arithmetic with explicit instants, boundaries included.
func vC04CaseRemain(out *vC04Out, r *rand.Rand) {
	k := vC04NewClock()
	ttlChoices := []time.Duration{5 * time.Second, 7*time.Second + 300*time.Millisecond, 300 * time.Second, 24 * time.Hour, 1, time.Second}
	ttl := ttlChoices[r.Intn(len(ttlChoices))]
	e := NewCacheEntry(cutTestMsg("remain.c04.test.", dns.RcodeSuccess, 300), ttl, 0)
	if e == nil {
		return
	}
	hard := e.stored.Add(ttl)
	switch r.Intn(6) {
	case 0:
	case 1:
		e.cutUntil = hard // boundary: lease ends exactly with the ttl
	case 2:
		e.cutUntil = hard.Add(-1)
	case 3:
		e.cutUntil = hard.Add(1)
	case 4:
		e.cutUntil = e.stored.Add(time.Duration(r.Int63n(int64(2*ttl) + 1)))
	case 5:
		e.cutUntil = e.stored.Add(-time.Duration(r.Int63n(int64(time.Minute)))) // lease already over at admission
	}
	end := hard
	if !e.cutUntil.IsZero() && e.cutUntil.Before(hard) {
		end = e.cutUntil
	}
	var now time.Time
	switch r.Intn(6) {
	case 0:
		now = end
	case 1:
		now = end.Add(-1)
	case 2:
		now = end.Add(1)
	case 3:
		now = end.Add(-time.Second)
	case 4:
		now = end.Add(-time.Second + 1)
	default:
		now = e.stored.Add(time.Duration(r.Int63n(int64(2*ttl) + 1)))
	}
	if r.Intn(2) == 0 {
		got := e.remaining(now)
		fail := ""
		if want := end.Sub(now); got != want {
			fail = fmt.Sprintf("remaining=%v want end-now=%v", got, want)
		}
		out.emit(map[string]any{"k": "remaining", "nontrivial": true, "go_fail": fail,
			"coq":  fmt.Sprintf("CRemain %s %d %s %s %s", vC04Z(k.virt(e.stored)), int64(ttl), vC04Cut(k, e.cutUntil), vC04Z(k.virt(now)), vC04Z(int64(got))),
			"desc": map[string]any{"ttl": ttl.String(), "cut_minus_stored": fmt.Sprint(e.cutUntil.Sub(e.stored)), "now_minus_stored": now.Sub(e.stored).String(), "remaining": got.String()}})
		return
	}
	meta := new(middleware.ResponseMeta)
	boundRequestToEntryLifetime(middleware.WithResponseMeta(context.Background(), meta), e)
	cut, _ := meta.Cut()
	fail := ""
	if !cut.Equal(end) {
		fail = fmt.Sprintf("bound=%v want %v", cut.Sub(e.stored), end.Sub(e.stored))
	}
	out.emit(map[string]any{"k": "bound-entry", "nontrivial": true, "go_fail": fail,
		"coq":  fmt.Sprintf("CBound %s %d %s %s", vC04Z(k.virt(e.stored)), int64(ttl), vC04Cut(k, e.cutUntil), vC04Cut(k, cut)),
		"desc": map[string]any{"ttl": ttl.String(), "cut_minus_stored": fmt.Sprint(e.cutUntil.Sub(e.stored)), "bound_minus_stored": cut.Sub(e.stored).String()}})
}

// CFold: BoundCutFor sequences, a forked sub-query and inheritance.
func vC04CaseFold(out *vC04Out, r *rand.Rand) {
	k := vC04NewClock()
	gen := func() []time.Time {
		var l []time.Time
		for i, n := 0, r.Intn(4); i < n; i++ {
			if r.Intn(4) == 0 {
				l = append(l, time.Time{})
			} else {
				l = append(l, k.base.Add(time.Duration(r.Intn(6))*time.Second+time.Duration(r.Intn(3))))
			}
		}
		return l
	}
	ppre, child, ppost := gen(), gen(), gen()
	inherit := r.Intn(3) > 0
	root := new(middleware.ResponseMeta)
	ctx := middleware.WithResponseMeta(context.Background(), root)
	for _, d := range ppre {
		root.BoundCutFor(d, 1)
	}
	_, forked := middleware.WithForkedCut(ctx)
	for _, d := range child {
		forked.BoundCutFor(d, 2)
	}
	lin := subQueryLineage{parent: root, child: forked}
	if inherit {
		lin.inherit()
		lin.inherit() // idempotent
	}
	for _, d := range ppost {
		root.BoundCut(d)
	}
	pc, _ := root.Cut()
	cc, _ := forked.Cut()
	out.emit(map[string]any{"k": "fold", "nontrivial": len(ppre)+len(child)+len(ppost) > 0,
		"coq": fmt.Sprintf("CFold %s %s %v %s %s %s", vC04OptList(k, ppre), vC04OptList(k, child), inherit, vC04OptList(k, ppost), vC04Cut(k, pc), vC04Cut(k, cc)),
		"desc": map[string]any{"parent_pre": len(ppre), "child": len(child), "inherit": inherit, "parent_post": len(ppost),
			"parent_cut": fmt.Sprint(pc.Sub(k.base)), "child_cut": fmt.Sprint(cc.Sub(k.base))}})
}

// CHist: one key; admission through one entry point, then hits on serving
// routes while the clock is stepped towards and past the end of the lifetime.
func vC04CaseHist(out *vC04Out, r *rand.Rand, plan *vC04HistPlan) {
	ecsChoices := []time.Duration{0, 0, 3 * time.Second, 8 * time.Second, 30 * time.Second, 600 * time.Second, 48 * time.Hour}
	ecsMax := ecsChoices[r.Intn(len(ecsChoices))]
	if plan != nil {
		ecsMax = time.Duration(plan.EcsMaxS) * time.Second
	}
	env := vC04NewEnv(0, ecsMax, 600)
	defer env.close()
	k := env.k
	name := "www.c04.test."
	if r.Intn(3) == 0 {
		name = "WwW.c04.TEST."
	}
	kind := []int{0, 0, 0, 1, 1, 2, 3, 4, 5, 6, 7}[r.Intn(11)]
	signed := r.Intn(2) == 0 && kind != 3 && kind != 4 && kind != 5 && kind != 7
	resp := vC04GenResponse(r, name, kind, signed)
	cd := r.Intn(6) == 0
	resp.CheckingDisabled = cd
	how := []int{0, 0, 1, 2, 2, 2, 3, 4, 5, 5}[r.Intn(10)]
	// lease: none / around the ttl / short (below the floor) / already over
	hasCut := r.Intn(2) == 0 && how != 3
	cutOff := time.Duration(0)
	if hasCut {
		switch r.Intn(5) {
		case 0:
			cutOff = time.Duration(r.Intn(5000)) * time.Millisecond
		case 1:
			cutOff = -time.Duration(r.Intn(3000)) * time.Millisecond
		case 2:
			cutOff = time.Duration(vC04TTL(r))*time.Second + 500*time.Millisecond
		default:
			cutOff = time.Duration(r.Intn(400000)) * time.Millisecond
		}
	}
	if plan != nil {
		// the scenario overrides every drawn choice
		name, kind, signed, cd, how = "www.c04.test.", 0, false, false, plan.How
		resp = new(dns.Msg)
		resp.SetQuestion(name, dns.TypeA)
		resp.Response, resp.RecursionAvailable = true, true
		resp.Answer = []dns.RR{&dns.A{Hdr: dns.RR_Header{Name: name, Rrtype: dns.TypeA, Class: dns.ClassINET, Ttl: plan.TTL}, A: []byte{192, 0, 2, 1}}}
		if plan.ExtraTTL != 0 {
			resp.Extra = []dns.RR{&dns.A{Hdr: dns.RR_Header{Name: "ns1.c04.test.", Rrtype: dns.TypeA, Class: dns.ClassINET, Ttl: plan.ExtraTTL}, A: []byte{192, 0, 2, 53}}}
		}
		if plan.Neg != "" {
			zone, nowUnix := "c04.test.", time.Now().Unix()
			kind, signed = 2, true
			if plan.Neg == "nxdomain" {
				kind, resp.Rcode = 1, dns.RcodeNameError
			}
			resp.Answer, resp.AuthenticatedData = nil, true
			resp.Ns = []dns.RR{vC04SOA(zone, plan.TTL, plan.TTL), vC04Sig(zone, dns.TypeSOA, plan.TTL, nowUnix+plan.SoaSigS, zone),
				&dns.NSEC{Hdr: dns.RR_Header{Name: "a." + zone, Rrtype: dns.TypeNSEC, Class: dns.ClassINET, Ttl: plan.NsecTTL}, NextDomain: "z." + zone, TypeBitMap: []uint16{dns.TypeA, dns.TypeRRSIG, dns.TypeNSEC}},
				vC04Sig("a."+zone, dns.TypeNSEC, plan.NsecTTL, nowUnix+plan.NsecSigS, zone)}
		}
		hasCut, cutOff = plan.LeaseMs != 0 && how != 3, time.Duration(plan.LeaseMs)*time.Millisecond
	}
	var scope netip.Prefix
	var ecsOpt *dns.EDNS0_SUBNET
	client := "198.51.100.77:40000"
	scoped := how == 1 || how == 5
	if scoped {
		scope = netip.MustParsePrefix("198.51.100.0/24")
		ecsOpt = &dns.EDNS0_SUBNET{Code: dns.EDNS0SUBNET, Family: 1, SourceNetmask: 24, Address: []byte{198, 51, 100, 0}}
	}

	sec0 := time.Now().Unix()
	mt, _ := dnsutil.ClassifyResponse(resp, time.Now().UTC())
	if how == 3 {
		mt, _ = dnsutil.ClassifyResponse(filterCacheableAnswer(resp), time.Now().UTC())
	}
	key := vC04Key(name, cd)
	if scoped {
		key = vC04ScopedKey(name, cd, scope)
	}
	var cutReal time.Time
	cutV := int64(0)
	setCut := func() {
		if hasCut {
			cutV = k.now() + int64(cutOff)
			cutReal = k.real(cutV)
		}
	}
	var w0, w1, t0, t1 int64
	switch how {
	case 0:
		setCut()
		w0, t0 = time.Now().UnixNano(), k.now()
		env.c.store.SetFromResponseWithKey(key, resp, cutReal, 7)
		w1, t1 = time.Now().UnixNano(), k.now()
	case 1:
		setCut()
		w0, t0 = time.Now().UnixNano(), k.now()
		env.c.store.SetFromResponseScoped(key, resp, netip.MustParsePrefix("198.51.100.9/24"), cutReal, 7)
		w1, t1 = time.Now().UnixNano(), k.now()
	case 2:
		setCut()
		env.stub.script[strings.ToLower(name)] = &vC04Script{resp: resp, hasCut: hasCut, cut: cutV, cutKey: 7}
		w0 = time.Now().UnixNano()
		rep := env.query([]int{0, 1, 2}[r.Intn(3)], name, r.Intn(2) == 0, cd, nil, "")
		w1 = time.Now().UnixNano()
		t0, t1 = rep.t0, rep.t1
		delete(env.stub.script, strings.ToLower(name))
	case 5:
		// client path with ECS: the downstream answers with a SCOPE, WriteMsg keys the
		// entry under the clamped scope (SetFromResponseScoped) and the ECS cap applies
		setCut()
		env.stub.script[strings.ToLower(name)] = &vC04Script{resp: resp, hasCut: hasCut, cut: cutV, cutKey: 7}
		env.stub.scopeOf = func(req *dns.Msg) *dns.OPT {
			o := new(dns.OPT)
			o.Hdr.Name, o.Hdr.Rrtype = ".", dns.TypeOPT
			o.SetUDPSize(1232)
			o.Option = []dns.EDNS0{&dns.EDNS0_SUBNET{Code: dns.EDNS0SUBNET, Family: 1, SourceNetmask: 24, SourceScope: uint8([]int{24, 24, 28, 20}[r.Intn(4)]), Address: []byte{198, 51, 100, 0}}}
			return o
		}
		w0 = time.Now().UnixNano()
		rep := env.query(0, name, r.Intn(2) == 0, cd, ecsOpt, client)
		w1 = time.Now().UnixNano()
		t0, t1 = rep.t0, rep.t1
		env.stub.scopeOf = nil
		delete(env.stub.script, strings.ToLower(name))
		if e := env.peek(key); e == nil {
			// a wider SCOPE (/20) keys the entry under that prefix
			key = vC04ScopedKey(name, cd, netip.MustParsePrefix("198.51.96.0/20"))
		}
	case 3:
		w0, t0 = time.Now().UnixNano(), k.now()
		env.c.Set(key, resp)
		w1, t1 = time.Now().UnixNano(), k.now()
	case 4:
		// the refresh route: an entry exists, ReplaceIfCurrent swaps in resp
		seedMsg := cutTestMsg(name, dns.RcodeSuccess, 60)
		seedMsg.CheckingDisabled = cd
		env.c.store.SetFromResponseWithKey(key, seedMsg, time.Time{}, 0)
		old := env.peek(key)
		setCut()
		w0, t0 = time.Now().UnixNano(), k.now()
		ok := env.c.store.ReplaceIfCurrent(key, old, resp, cutReal, 7)
		w1, t1 = time.Now().UnixNano(), k.now()
		if !ok {
			env.c.positive.Remove(key)
		}
	}
	if vC04SigNearSecond(resp, sec0, time.Now().Unix()) {
		out.emit(map[string]any{"inconclusive": true})
		return
	}
	e := env.peek(key)
	header := fmt.Sprintf("%d %s %s %v %d %s %d %d %s %s %s", how, vC04Class(mt), vC04RRs(resp), scoped, int64(ecsMax), vC04OZ(hasCut, cutV),
		w0, w1, vC04Z(t0), vC04Z(t1), vC04Ent(k, e))
	desc := map[string]any{"how": how, "class": vC04Class(mt), "msg": resp.String(), "scoped": scoped, "ecs_max": ecsMax.String(), "cut_offset": fmt.Sprint(hasCut, cutOff)}
	if e != nil {
		desc["entry_ttl"] = e.ttl.String()
	}
	kname := fmt.Sprintf("hist-how%d-%s", how, vC04Class(mt))
	if plan != nil {
		kname = "corpus-" + kname
	}
	if e == nil {
		// nothing admitted: every route must miss
		rep := env.query(r.Intn(3), name, false, cd, ecsOpt, client)
		ttl := int64(-1)
		fail := ""
		if len(rep.stubbed) == 0 && rep.msg != nil && len(vC04ReplyTTLs(rep.msg)) > 0 {
			ttl = int64(vC04ReplyTTLs(rep.msg)[0])
			fail = "served although nothing was admitted"
		}
		out.emit(map[string]any{"k": kname + "-none", "nontrivial": true, "go_fail": fail, "desc": desc,
			"coq": fmt.Sprintf("CHist %s [mk_hit %d %s %s %s] []", header, 0, vC04Z(rep.t0), vC04Z(rep.t1), vC04Z(ttl))})
		return
	}

	end := e.stored.Add(e.ttl)
	if !e.cutUntil.IsZero() && e.cutUntil.Before(end) {
		end = e.cutUntil
	}
	// Go-side oracle: earliest permissible expiry from the inputs, most generous reading
	var hits, bounds []string
	last := int64(-1)
	fail := ""
	steps := 3 + r.Intn(5)
	if plan != nil {
		steps = len(plan.Steps)
	}
	for s := 0; s < steps; s++ {
		// step the clock: to a fractional offset before/after the end, or a random stride
		nowV := k.now()
		endV := k.virt(end)
		var target int64
		switch r.Intn(7) {
		case 0:
			target = endV - int64(1500*time.Millisecond)
		case 1:
			target = endV - int64(400*time.Millisecond)
		case 2:
			target = endV + int64(300*time.Millisecond)
		case 3:
			target = endV - int64(time.Duration(2+r.Intn(4))*time.Second) - int64(600*time.Millisecond)
		case 4:
			target = nowV
		default:
			left := endV - nowV
			if left > 0 {
				target = nowV + r.Int63n(left+1)
			} else {
				target = nowV + int64(time.Second)
			}
		}
		route := r.Intn(5)
		if plan != nil {
			target, route = nowV+plan.Steps[s].ShiftMs*int64(time.Millisecond), plan.Steps[s].Route
		}
		if target > nowV {
			vC04Shift(env.c, k, time.Duration(target-nowV))
		}
		if scoped {
			route = 0
		}
		ttl := int64(-1)
		var t0h, t1h int64
		if route == 4 {
			// resolver-private lookup
			if cd || scoped {
				route = 0
			}
		}
		if route == 4 {
			req := new(dns.Msg)
			req.SetQuestion(name, dns.TypeA)
			req.RecursionDesired = true
			meta := new(middleware.ResponseMeta)
			ctx := middleware.WithResponseMeta(context.Background(), meta)
			t0h = k.now()
			msg, ok := env.c.store.GetWithContext(ctx, req)
			t1h = k.now()
			if ok && msg != nil {
				if tt := vC04ReplyTTLs(msg); len(tt) > 0 {
					ttl = int64(tt[0])
					for _, x := range tt {
						if int64(x) != int64(tt[0]) {
							fail = "records of one entry carry different TTLs"
						}
						if int64(x) > ttl {
							ttl = int64(x) // judge the largest TTL shown
						}
					}
				} else {
					ttl = -2 // no record to read a TTL from
				}
				cut, _ := meta.Cut()
				bounds = append(bounds, vC04Cut(k, cut))
			}
		} else {
			rep := env.query(route, name, r.Intn(2) == 0, cd, ecsOpt, client)
			t0h, t1h = rep.t0, rep.t1
			if len(rep.stubbed) == 0 && rep.msg != nil {
				tt := vC04ReplyTTLs(rep.msg)
				if len(tt) > 0 {
					ttl = int64(tt[0])
					for _, x := range tt {
						if int64(x) != int64(tt[0]) {
							fail = "records of one entry carry different TTLs"
						}
						if int64(x) > ttl {
							ttl = int64(x) // judge the largest TTL shown
						}
					}
				} else {
					ttl = -2
				}
				if route != 2 || rep.fastWire {
					bounds = append(bounds, rep.bound)
				}
			}
		}
		if ttl == -2 {
			// served, but the reply has no record whose TTL could be read (empty NOERROR): skip the reading
			continue
		}
		if ttl >= 0 {
			if last >= 0 && ttl > last {
				fail = fmt.Sprintf("TTL grew between hits on one entry: %d -> %d", last, ttl)
			}
			last = ttl
			if endV := k.virt(end); t0h >= endV {
				fail = fmt.Sprintf("served %dns past the end of the lifetime", t0h-endV)
			} else if ttl*int64(time.Second) > endV-t0h {
				fail = fmt.Sprintf("shown TTL %ds exceeds the %dns remaining", ttl, endV-t0h)
			}
		}
		hits = append(hits, fmt.Sprintf("mk_hit %d %s %s %s", route, vC04Z(t0h), vC04Z(t1h), vC04Z(ttl)))
		if ttl < 0 {
			break // the key has been re-resolved or dropped: the history of this entry is over
		}
	}
	desc["hits"] = hits
	out.emit(map[string]any{"k": kname, "nontrivial": len(hits) > 0, "go_fail": fail, "desc": desc,
		"coq": fmt.Sprintf("CHist %s [%s] [%s]", header, strings.Join(hits, "; "), strings.Join(bounds, "; "))})
}
