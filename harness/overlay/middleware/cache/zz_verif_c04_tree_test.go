//go:build verif

package cache

// C04 driver (request trees): alias chains of differing ages resolved through
// the real Cache with a scripted downstream and a sub-query Queryer; every
// top-level query is one case: store snapshot before, scripts, clock bracket,
// reply with every TTL, request-tree bound, entries admitted, names that went
// downstream.

import (
	"encoding/json"
	"fmt"
	"math/rand"
	"os"
	"path/filepath"
	"sort"
	"strings"
	"testing"
	"time"

	"github.com/miekg/dns"
)

type vC04World struct {
	env   *vC04Env
	names []string
	ids   map[string]int
	// spell: how a name is written when it is an alias TARGET (lower case, or mixed case:
	// names compare without regard to letter case, RFC 4343). One spelling per name and world,
	// so that the code's exact-string list of visited targets agrees with name identity.
	spell map[string]string
	// bareTail: the last two names of the world are denied WITHOUT records (bare NXDOMAIN / empty
	// NOERROR / NXDOMAIN with a non-SOA authority, all held for the 5 s floor) and the names before
	// them are mostly aliases: every hop of a chain can end in a record-less denial that has aged
	bareTail bool
}

func (w *vC04World) target(name string) string {
	if s, ok := w.spell[name]; ok {
		return s
	}
	return name
}

// vC04MixCase re-spells a name with every other letter in upper case.
func vC04MixCase(name string) string {
	b := []byte(name)
	up := true
	for i, c := range b {
		if c >= 'a' && c <= 'z' {
			if up {
				b[i] = c - 'a' + 'A'
			}
			up = !up
		}
	}
	return string(b)
}

const vC04Zone = "tree.c04.test."

func (w *vC04World) id(name string) int {
	if i, ok := w.ids[strings.ToLower(name)]; ok {
		return i
	}
	return 99
}

func (w *vC04World) rrCoq(rr dns.RR) string {
	tag := int(rr.Header().Rrtype) * 1000
	if sig, ok := rr.(*dns.RRSIG); ok {
		tag += int(sig.TypeCovered)
	}
	typ := fmt.Sprintf("(TOther %d)", tag)
	switch x := rr.(type) {
	case *dns.A:
		typ = "TAddr"
	case *dns.CNAME:
		typ = fmt.Sprintf("(TCname %d)", w.id(x.Target))
	case *dns.SOA:
		typ = fmt.Sprintf("(TSoa %d)", x.Minttl)
	}
	return fmt.Sprintf("mk_mrr %d %d %s", w.id(rr.Header().Name), rr.Header().Ttl, typ)
}

func (w *vC04World) msgCoq(m *dns.Msg, q string) string {
	if m == nil {
		return fmt.Sprintf("(mk_msg %d 2 [] [])", w.id(q))
	}
	var an, ns []string
	for _, rr := range m.Answer {
		an = append(an, w.rrCoq(rr))
	}
	for _, rr := range m.Ns {
		ns = append(ns, w.rrCoq(rr))
	}
	rc := m.Rcode
	if rc != 0 && rc != 3 {
		rc = 2
	}
	return fmt.Sprintf("(mk_msg %d %d [%s] [%s])", w.id(q), rc, strings.Join(an, "; "), strings.Join(ns, "; "))
}

func (w *vC04World) genScript(r *rand.Rand, i int) *vC04Script {
	name := w.names[i]
	m := new(dns.Msg)
	m.SetQuestion(name, dns.TypeA)
	m.Response = true
	ttl := []uint32{1, 3, 5, 8, 20, 60, 300, 3600, 90000}[r.Intn(9)]
	hdr := func(n string, t uint16) dns.RR_Header {
		return dns.RR_Header{Name: n, Rrtype: t, Class: dns.ClassINET, Ttl: ttl}
	}
	other := func() string {
		j := r.Intn(len(w.names))
		if r.Intn(10) > 0 {
			// mostly forward, so that chains end
			j = i + 1 + r.Intn(len(w.names)-i)
			if j >= len(w.names) {
				j = len(w.names) - 1
			}
		}
		return w.target(w.names[j])
	}
	shape := r.Intn(15)
	if i == len(w.names)-1 && shape >= 4 && shape <= 8 {
		shape = 0
	}
	if w.bareTail {
		if i >= len(w.names)-2 {
			shape = []int{12, 12, 13, 14}[r.Intn(4)]
		} else if r.Intn(4) > 0 {
			shape = 4 // bare alias
			ttl = []uint32{60, 300, 3600}[r.Intn(3)]
		}
	}
	switch {
	case shape < 4: // address records
		for x, n := 0, 1+r.Intn(2); x < n; x++ {
			m.Answer = append(m.Answer, &dns.A{Hdr: hdr(name, dns.TypeA), A: []byte{192, 0, 2, byte(10*i + x)}})
		}
	case shape < 8: // bare alias
		m.Answer = append(m.Answer, &dns.CNAME{Hdr: hdr(name, dns.TypeCNAME), Target: other()})
	case shape == 8: // alias with the target's address in the same response
		tgt := other()
		m.Answer = append(m.Answer, &dns.CNAME{Hdr: hdr(name, dns.TypeCNAME), Target: tgt})
		if !strings.EqualFold(tgt, name) {
			m.Answer = append(m.Answer, &dns.A{Hdr: dns.RR_Header{Name: strings.ToLower(tgt), Rrtype: dns.TypeA, Class: dns.ClassINET, Ttl: uint32(1 + r.Intn(600))}, A: []byte{192, 0, 2, 77}})
		}
	case shape == 9:
		m.Rcode = dns.RcodeNameError
		m.Ns = append(m.Ns, vC04SOA(vC04Zone, ttl, []uint32{2, 7, 30, 600}[r.Intn(4)]))
	case shape == 10:
		m.Ns = append(m.Ns, vC04SOA(vC04Zone, ttl, []uint32{2, 7, 30, 600}[r.Intn(4)]))
	case shape == 11: // an alias onto its own owner, possibly re-spelled in another letter case: a loop (SERVFAIL, nothing admitted)
		m.Answer = append(m.Answer, &dns.CNAME{Hdr: hdr(name, dns.TypeCNAME), Target: w.target(name)})
	case shape == 12: // bare NXDOMAIN: no SOA, nothing in any section (cached for the floor)
		m.Rcode = dns.RcodeNameError
	case shape == 13: // bare NODATA: empty NOERROR
	case shape == 14: // NXDOMAIN whose only authority record is not an SOA
		m.Rcode = dns.RcodeNameError
		m.Ns = append(m.Ns, &dns.NS{Hdr: hdr(vC04Zone, dns.TypeNS), Ns: "ns1." + vC04Zone})
	default:
		if r.Intn(3) == 0 {
			m.Rcode = dns.RcodeServerFailure
		} else {
			m.Answer = append(m.Answer, &dns.A{Hdr: hdr(name, dns.TypeA), A: []byte{192, 0, 2, 200}})
		}
	}
	sc := &vC04Script{resp: m, cutKey: uint64(100 + i)}
	if r.Intn(2) == 0 {
		sc.hasCut = true
		off := []time.Duration{2500 * time.Millisecond, 7 * time.Second, 40 * time.Second, 10 * time.Minute, 6 * time.Hour}[r.Intn(5)]
		sc.cut = w.env.k.now() + int64(off) + int64(r.Intn(900))*int64(time.Millisecond)
	}
	return sc
}

// vC04TreePlan is one fixed scenario of corpus/C04/tree.jsonl: what each name of the world
// is scripted with, and the steps (queries on given routes, clock steps, purges).
type vC04TreePlan struct {
	Name  string `json:"name"`
	Names []struct {
		Shape   string `json:"shape"`  // addr | alias | alias+addr | nx-soa | nodata-soa | nx-bare | nodata-bare | servfail
		TTL     uint32 `json:"ttl"`    // every record of the answer
		Target  int    `json:"target"` // alias target: index into names
		SoaMin  uint32 `json:"soa_min"`
		LeaseMs int64  `json:"lease_ms"` // 0: no lease
		Respell bool   `json:"respell"`  // aliases onto this name spell it in mixed case
	} `json:"names"`
	Steps []struct {
		Op    string `json:"op"` // ask | shift | purge
		Name  int    `json:"name"`
		Route int    `json:"route"`
		Ms    int64  `json:"ms"`
	} `json:"steps"`
}

func (w *vC04World) planScript(plan *vC04TreePlan, i int) *vC04Script {
	ps := plan.Names[i]
	name := w.names[i]
	m := new(dns.Msg)
	m.SetQuestion(name, dns.TypeA)
	m.Response = true
	hdr := func(n string, t uint16) dns.RR_Header {
		return dns.RR_Header{Name: n, Rrtype: t, Class: dns.ClassINET, Ttl: ps.TTL}
	}
	switch ps.Shape {
	case "addr":
		m.Answer = append(m.Answer, &dns.A{Hdr: hdr(name, dns.TypeA), A: []byte{192, 0, 2, byte(10 * i)}})
	case "alias":
		m.Answer = append(m.Answer, &dns.CNAME{Hdr: hdr(name, dns.TypeCNAME), Target: w.target(w.names[ps.Target])})
	case "alias+addr":
		m.Answer = append(m.Answer, &dns.CNAME{Hdr: hdr(name, dns.TypeCNAME), Target: w.target(w.names[ps.Target])})
		m.Answer = append(m.Answer, &dns.A{Hdr: hdr(w.names[ps.Target], dns.TypeA), A: []byte{192, 0, 2, 77}})
	case "nx-soa":
		m.Rcode = dns.RcodeNameError
		m.Ns = append(m.Ns, vC04SOA(vC04Zone, ps.TTL, ps.SoaMin))
	case "nodata-soa":
		m.Ns = append(m.Ns, vC04SOA(vC04Zone, ps.TTL, ps.SoaMin))
	case "nx-bare":
		m.Rcode = dns.RcodeNameError
	case "nodata-bare":
	case "servfail":
		m.Rcode = dns.RcodeServerFailure
	default:
		panic("corpus tree.jsonl: unknown shape " + ps.Shape)
	}
	sc := &vC04Script{resp: m, cutKey: uint64(100 + i)}
	if ps.LeaseMs != 0 {
		sc.hasCut, sc.cut = true, w.env.k.now()+ps.LeaseMs*int64(time.Millisecond)
	}
	return sc
}

func TestVerifC04Tree(t *testing.T) {
	out := vC04Open(t)
	defer out.f.Close()
	r := rand.New(rand.NewSource(int64(vC04EnvInt("VERIF_SEED", 1)) + 4043))
	n := vC04EnvInt("VERIF_N", 700)
	emitted := 0
	// fixed regression inputs first (seeded change C04-2, mutations M6, M11, ...)
	if raw, err := os.ReadFile(filepath.Join(os.Getenv("VERIF_CORPUS"), "tree.jsonl")); err == nil {
		for _, line := range strings.Split(string(raw), "\n") {
			if line = strings.TrimSpace(line); line == "" || strings.HasPrefix(line, "#") {
				continue
			}
			plan := new(vC04TreePlan)
			if err := json.Unmarshal([]byte(line), plan); err != nil {
				t.Fatalf("corpus tree.jsonl: %v", err)
			}
			emitted += vC04TreeHistory(out, r, 1<<20, plan)
		}
	}
	for emitted < n {
		emitted += vC04TreeHistory(out, r, n-emitted, nil)
	}
}

func vC04TreeHistory(out *vC04Out, r *rand.Rand, budget int, plan *vC04TreePlan) int {
	env := vC04NewEnv(0, 0, 600)
	defer env.close()
	k := env.k
	// the RFC 8198 proof index is exercised by the cuts driver; here the only
	// synthesised denial is the RFC 8020 subtree cut (operator switch rfc8198=false)
	env.c.store.rfc8198Disabled = true
	w := &vC04World{env: env, ids: map[string]int{strings.ToLower(vC04Zone): 50}}
	nn := 3 + r.Intn(4)
	if plan != nil {
		nn = len(plan.Names)
	}
	w.spell = map[string]string{}
	for i := 0; i < nn; i++ {
		name := fmt.Sprintf("n%d.%s", i+1, vC04Zone)
		w.names = append(w.names, name)
		w.ids[name] = i + 1
		if (plan == nil && r.Intn(3) == 0) || (plan != nil && plan.Names[i].Respell) {
			w.spell[name] = vC04MixCase(name)
		}
	}
	for i := range w.names {
		if plan != nil {
			env.stub.script[w.names[i]] = w.planScript(plan, i)
		} else {
			env.stub.script[w.names[i]] = w.genScript(r, i)
		}
	}
	// some worlds also hold subtree cuts (synthesised denials) at one or two names
	cutWorld := r.Intn(3) == 0 && plan == nil
	if plan == nil && !cutWorld && r.Intn(3) == 0 {
		w.bareTail = true
		for i := range w.names {
			env.stub.script[w.names[i]] = w.genScript(r, i)
		}
	}
	var cutNames []string
	recordCut := func() {
		name := w.names[1+r.Intn(nn-1)]
		proof := vC04NXProof(r, vC04Zone, name, time.Now().Unix(), false)
		var lease time.Time
		if r.Intn(2) == 0 {
			lease = k.real(k.now() + int64(time.Duration(3+r.Intn(60))*time.Second))
		}
		if env.c.store.RecordNXDomainCut(proof, name, vC04Zone, lease) {
			cutNames = append(cutNames, name)
		}
		// session 5: mostly also an alias onto the denied name that has to be fetched (again): its
		// answer adopts the denial the rung synthesises and the client path re-records the cut from
		// it (cases CCutRerec), under a lease of its own every other time
		if j := r.Intn(nn); r.Intn(3) > 0 && w.names[j] != name {
			m := new(dns.Msg)
			m.SetQuestion(w.names[j], dns.TypeA)
			m.Response = true
			m.Answer = []dns.RR{&dns.CNAME{Hdr: dns.RR_Header{Name: w.names[j], Rrtype: dns.TypeCNAME, Class: dns.ClassINET,
				Ttl: []uint32{1, 5, 20, 300, 3600}[r.Intn(5)]}, Target: w.target(name)}}
			sc := &vC04Script{resp: m, cutKey: uint64(100 + j)}
			if r.Intn(2) == 0 {
				sc.hasCut = true
				sc.cut = k.now() + int64([]time.Duration{2500 * time.Millisecond, 7 * time.Second, 40 * time.Second, 10 * time.Minute}[r.Intn(4)]) + int64(r.Intn(900))*int64(time.Millisecond)
			}
			env.stub.script[w.names[j]] = sc
			env.c.Purge(dns.Question{Name: w.names[j], Qtype: dns.TypeA, Qclass: dns.ClassINET})
		}
	}
	if cutWorld {
		recordCut()
	}
	emitted := 0
	nops := 6 + r.Intn(14)
	if plan != nil {
		nops = len(plan.Steps)
	}
	for op := 0; op < nops && emitted < budget; op++ {
		x := r.Intn(10)
		if plan != nil {
			x = 9 // a query, unless the step says otherwise
			switch st := plan.Steps[op]; st.Op {
			case "shift":
				vC04Shift(env.c, k, time.Duration(st.Ms)*time.Millisecond)
				continue
			case "purge":
				env.c.Purge(dns.Question{Name: w.names[st.Name], Qtype: dns.TypeA, Qclass: dns.ClassINET})
				continue
			case "ask":
			default:
				panic("corpus tree.jsonl: unknown op " + st.Op)
			}
		}
		if w.bareTail && x == 0 && r.Intn(2) == 0 {
			x = 1 // fewer re-scriptings, more re-fetched aliases
		}
		switch {
		case x == 0:
			i := r.Intn(nn)
			env.stub.script[w.names[i]] = w.genScript(r, i)
			continue
		case x == 1 || (cutWorld && x == 2):
			if cutWorld && x == 1 {
				recordCut()
				continue
			}
			victim := r.Intn(nn)
			if w.bareTail {
				victim = r.Intn(nn - 2) // an alias is fetched again while the denial it ends in stays cached and ages
			}
			env.c.Purge(dns.Question{Name: w.names[victim], Qtype: dns.TypeA, Qclass: dns.ClassINET})
			continue
		case x < 5:
			// step the clock: towards the end of some cached entry, or a stride
			var ends []int64
			for _, ce := range env.c.store.nxDomainCuts.entries {
				ends = append(ends, k.virt(ce.expires))
			}
			for _, name := range w.names {
				if e := env.peek(vC04Key(name, false)); e != nil {
					end := e.stored.Add(e.ttl)
					if !e.cutUntil.IsZero() && e.cutUntil.Before(end) {
						end = e.cutUntil
					}
					ends = append(ends, k.virt(end))
				}
			}
			now := k.now()
			target := now + int64(time.Duration(r.Intn(5000))*time.Millisecond)
			if len(ends) > 0 && r.Intn(3) > 0 {
				end := ends[r.Intn(len(ends))]
				target = end + []int64{-2600, -1400, -300, 300}[r.Intn(4)]*int64(time.Millisecond)
			}
			if target > now {
				vC04Shift(env.c, k, time.Duration(target-now))
			}
			continue
		}
		// a query: snapshot, serve, observe
		type snap struct {
			name string
			e    *CacheEntry
		}
		var pre []snap
		var pres []string
		for _, name := range w.names {
			e := env.peek(vC04Key(name, false))
			pre = append(pre, snap{name, e})
			if e != nil {
				pres = append(pres, fmt.Sprintf("mk_pre %d %s %s", w.id(name), vC04Ent(k, e), w.msgCoq(e.storedMsg(), name)))
			}
		}
		var pcuts []string
		var cutSnap []*nxDomainCutEntry
		for _, name := range w.names {
			if ce := env.c.store.nxDomainCuts.entries[nxDomainCutID{deniedName: name, qclass: dns.ClassINET}]; ce != nil {
				var ns []string
				for _, rr := range ce.msg.Ns {
					ns = append(ns, w.rrCoq(rr))
				}
				pcuts = append(pcuts, fmt.Sprintf("mk_ncut %d %s [%s]", w.id(name), vC04Z(k.virt(ce.expires)), strings.Join(ns, "; ")))
				cutSnap = append(cutSnap, ce)
			}
		}
		var scs []string
		for _, name := range w.names {
			sc := env.stub.script[name]
			scs = append(scs, fmt.Sprintf("mk_nscript %d %s %s", w.id(name), w.msgCoq(sc.resp, name), vC04OZ(sc.hasCut, sc.cut)))
		}
		qname := w.names[r.Intn(nn)]
		if r.Intn(2) == 0 {
			qname = w.names[0]
		}
		route := []int{0, 0, 1, 2, 2, 3}[r.Intn(6)]
		if plan != nil {
			qname, route = w.names[plan.Steps[op].Name], plan.Steps[op].Route
		}
		do := false
		if cutWorld {
			// the synthesised denial is shaped by DO; sub-queries always set it, so the
			// top-level request does too and goes to the cache without the edns layer
			route, do = 0, true
		}
		// every admission happens at the end of the (sub-)query for its name: log the
		// entry found there, so that entries overwritten later in the same tree are seen too
		var admitted []*CacheEntry
		admName := map[*CacheEntry]string{}
		preOf := map[string]*CacheEntry{}
		for _, s := range pre {
			preOf[s.name] = s.e
		}
		note := func(name string) {
			if e := env.peek(vC04Key(name, false)); e != nil && e != preOf[name] && admName[e] == "" {
				admitted = append(admitted, e)
				admName[e] = name
			}
		}
		env.sub.done = note
		rep := env.query(route, qname, do, false, nil, "")
		env.sub.done = nil
		note(qname)
		// ambiguous bracket: some entry crosses a whole-second or its end inside [t0,t1]
		amb := false
		for _, s := range pre {
			if s.e == nil {
				continue
			}
			r0, r1 := s.e.remaining(k.real(rep.t0)), s.e.remaining(k.real(rep.t1))
			if (r0 > 0) != (r1 > 0) || (r0 > 0 && r0/time.Second != r1/time.Second) {
				amb = true
			}
		}
		for _, ce := range cutSnap {
			r0, r1 := ce.expires.Sub(k.real(rep.t0)), ce.expires.Sub(k.real(rep.t1))
			if (r0 > 0) != (r1 > 0) || (r0 > 0 && r0/time.Second != r1/time.Second) {
				amb = true
			}
		}
		if amb {
			out.emit(map[string]any{"inconclusive": true})
			continue
		}
		// a cut replaced during the query was re-recorded from a synthesised denial
		// (the scripted downstream never supplies validated proofs): it must not outlive the original
		cutFail := ""
		for _, old := range cutSnap {
			if cur := env.c.store.nxDomainCuts.entries[old.id]; cur != nil && cur != old && cur.expires.After(old.expires) {
				cutFail = fmt.Sprintf("cut for %s re-recorded from its own synthesised denial outlives it by %v", old.deniedName, cur.expires.Sub(old.expires))
			}
		}
		// ... and it is a case of its own (session 5): the client path re-records with the request's
		// bound as the lease; model = cut_record of the new entry's own records between the two
		// extremes of that lease (the tree's final bound, the older cut's expiry)
		for _, old := range cutSnap {
			cur := env.c.store.nxDomainCuts.entries[old.id]
			if cur == nil || cur == old {
				continue
			}
			var soa *dns.SOA
			for _, rr := range cur.msg.Ns {
				if x, ok := rr.(*dns.SOA); ok && soa == nil {
					soa = x
				}
			}
			if soa == nil {
				out.emit(map[string]any{"k": "cut-rerecord-tree", "go_fail": "re-recorded cut without an SOA", "desc": "internal"})
				continue
			}
			rfail := ""
			if cur.expires.After(old.expires) {
				rfail = fmt.Sprintf("cut for %s re-recorded from its own synthesised denial outlives it by %v", old.deniedName, cur.expires.Sub(old.expires))
			}
			// the top-level request recorded it last when its own answer was written (admitted) in this
			// query and is the adopted NXDOMAIN: the lease it passed is the bound the driver reads
			top := false
			for _, e := range admitted {
				if admName[e] == qname && rep.msg != nil && rep.msg.Rcode == dns.RcodeNameError {
					top = true
				}
			}
			kr := fmt.Sprintf("cut-rerecord-tree-route%d-hops%d", route, len(rep.stubbed))
			if top {
				kr += "-top"
			}
			if rep.boundOK && rep.boundV < k.virt(old.expires) {
				kr += "-shorterbound"
			}
			out.emit(map[string]any{"k": kr, "nontrivial": true, "go_fail": rfail,
				"coq": fmt.Sprintf("CCutRerec %v %d %s %s %d %d %s %s %s %d %s", top, int64(env.c.store.nxDomainCuts.maxTTL), vC04Z(k.virt(old.expires)), vC04Z(rep.t0),
					soa.Hdr.Ttl, soa.Minttl, vC04PRRs(cur.msg.Ns), rep.bound, vC04Z(k.virt(cur.stored)), cur.stored.UnixNano(), vC04Z(k.virt(cur.expires))),
				"desc": map[string]any{"q": qname, "denied": old.deniedName, "old_expires": k.virt(old.expires), "new_expires": k.virt(cur.expires), "proof": cur.msg.String()}})
		}
		var wit, adm []string
		for _, e := range admitted {
			wit = append(wit, vC04Z(k.virt(e.stored)))
			adm = append(adm, fmt.Sprintf("mk_nadm %d %s", w.id(admName[e]), vC04Ent(k, e)))
		}
		var missed []string
		for _, s := range rep.stubbed {
			missed = append(missed, fmt.Sprint(w.id(s)))
		}
		// Go-side oracle: no record served out of the cache carries more than its piece has left
		fail := ""
		stubbed := map[string]bool{} // owners whose records a downstream response supplied
		for _, s := range rep.stubbed {
			stubbed[s] = true
			if sc := env.stub.script[s]; sc != nil {
				for _, rr := range append(append([]dns.RR{}, sc.resp.Answer...), sc.resp.Ns...) {
					stubbed[strings.ToLower(rr.Header().Name)] = true
				}
			}
		}
		if rep.msg != nil {
			for _, rr := range rep.msg.Answer {
				owner := strings.ToLower(rr.Header().Name)
				if stubbed[owner] {
					continue
				}
				for _, s := range pre {
					if s.name == owner && s.e != nil {
						left := s.e.remaining(k.real(rep.t0))
						if left <= 0 || time.Duration(rr.Header().Ttl)*time.Second > left {
							fail = fmt.Sprintf("record of %s served with TTL %d while its entry had %v left", owner, rr.Header().Ttl, left)
						}
					}
				}
			}
		}
		routeCoq := route
		if route == 2 && !rep.fastWire && !rep.chase {
			routeCoq = 4 // materialised: the request meta was detached from the one the driver holds
		}
		if fail == "" {
			fail = cutFail
		}
		kk := fmt.Sprintf("tree-route%d-hops%d", route, len(rep.stubbed))
		if plan != nil {
			kk = "corpus-" + kk
		}
		if cutWorld {
			kk += "-cuts"
		}
		if rep.chase {
			kk += "-wirechase"
		}
		witS := "[]"
		if len(wit) > 0 {
			witS = "[" + strings.Join(wit, "; ") + "]%Z"
		}
		missedS := "[]"
		if len(missed) > 0 {
			missedS = "[" + strings.Join(missed, "; ") + "]%N"
		}
		nAns := 0
		if rep.msg != nil {
			nAns = len(rep.msg.Answer)
		}
		out.emit(map[string]any{"k": kk, "nontrivial": nAns > 1 || len(admitted) > 0, "go_fail": fail,
			"coq": fmt.Sprintf("CTree %d [%s] [%s] [%s] %d %s %s %s %s %s [%s] %s", routeCoq, strings.Join(pres, "; "), strings.Join(pcuts, "; "), strings.Join(scs, "; "), w.id(qname),
				vC04Z(rep.t0), vC04Z(rep.t1), witS, w.msgCoq(rep.msg, qname), rep.bound, strings.Join(adm, "; "), missedS),
			"desc": map[string]any{"q": qname, "route": route, "went_downstream": rep.stubbed, "reply": fmt.Sprint(rep.msg), "admitted": len(admitted), "wirechase": rep.chase, "cuts": vC04CutDump(env), "proofs": env.c.store.DenialProofLen()}})
		emitted++
	}
	return emitted
}

func vC04CutDump(env *vC04Env) []string {
	var out []string
	for id, ce := range env.c.store.nxDomainCuts.entries {
		out = append(out, fmt.Sprintf("%s@%d", id.deniedName, env.k.virt(ce.expires)))
	}
	sort.Strings(out)
	return out
}
