//go:build verif

package cache

import "context"

// VC12ChaseDepth exposes the CNAME-chase nesting counter (cnameChaseDepthKey, compared with
// maxCnameChaseDepth) to the C12 lab driver in package resolver.
func VC12ChaseDepth(ctx context.Context) int { return cnameChaseDepth(ctx) }
