//go:build verif

package cache

// C03 correspondence driver for the store and its lookup routes
// (overlay-injected, never committed to /repo).
//
// Each case is a history on one real Cache built by New(cfg): answers are
// admitted through the production entry points (Store.SetFromResponseWithKey,
// SetFromResponseScoped, ReplaceIfCurrent) under GENUINE or FORGED keys — an
// entry for question Q1 filed under CacheKey{Q2}.Hash(), differing from Q1 in
// name, case, type, class, CD or ECS scope — which is how a 64-bit key
// collision looks to every lookup.  Failures and subtree cuts are recorded
// through Store.RecordFailure / RecordZoneFailure / RecordNXDomainCut.
// Lookups go through the edns+cache pipeline (wire-born and message-born
// requests, with and without ECS), Store.Lookup, Store.Get, the failure and cut
// lookups (decoded and wire) and Purge.  Observable: hit / miss and WHICH stored
// response came back (each stored answer carries its id in its RDATA).

import (
	"context"
	"encoding/binary"
	"fmt"
	"math/rand"
	"net"
	"net/netip"
	"os"
	"sort"
	"strconv"
	"strings"
	"sync/atomic"
	"testing"
	"testing/synctest"
	"time"

	"encoding/json"

	"github.com/cespare/xxhash/v2"
	"github.com/miekg/dns"
	"github.com/semihalev/sdns/config"
	"github.com/semihalev/sdns/internal/dnsname"
	"github.com/semihalev/sdns/internal/mock"
	"github.com/semihalev/sdns/middleware"
	ednsmw "github.com/semihalev/sdns/middleware/edns"
)

type vC03Trace struct{ f *os.File }

func vC03Open(t *testing.T) *vC03Trace {
	p := os.Getenv("VERIF_OUT")
	if p == "" {
		t.Skip("VERIF_OUT not set")
	}
	f, err := os.Create(p)
	if err != nil {
		t.Fatal(err)
	}
	return &vC03Trace{f: f}
}

func (v *vC03Trace) emit(m map[string]any) {
	b, _ := json.Marshal(m)
	v.f.Write(append(b, '\n'))
}

func vC03EnvInt(name string, def int) int {
	if s := os.Getenv(name); s != "" {
		if n, err := strconv.Atoi(s); err == nil {
			return n
		}
	}
	return def
}

func vC03Bytes(b []byte) string {
	var sb strings.Builder
	sb.WriteString("[")
	for i, x := range b {
		if i > 0 {
			sb.WriteByte(';')
		}
		sb.WriteString(strconv.Itoa(int(x)))
	}
	sb.WriteString("]%N")
	return sb.String()
}

func vC03Bool(b bool) string {
	if b {
		return "true"
	}
	return "false"
}

func vC03Scope(p netip.Prefix) string {
	if !p.IsValid() {
		return "None"
	}
	return fmt.Sprintf("(Some (mk_scope %s %d %s))", vC03Bool(p.Addr().Is4()), p.Bits(), vC03Bytes(p.Addr().AsSlice()))
}

func vC03OptN(id uint64, ok bool) string {
	if !ok {
		return "None"
	}
	return fmt.Sprintf("(Some %d%%N)", id)
}

// ---- questions

type vC03Q struct {
	name   string // presentation form as the code sees it
	qtype  uint16
	qclass uint16
}

func (q vC03Q) coq() string {
	return fmt.Sprintf("(mk_q %s %d %d)", vC03Bytes([]byte(q.name)), q.qtype, q.qclass)
}
func (q vC03Q) dnsq() dns.Question {
	return dns.Question{Name: q.name, Qtype: q.qtype, Qclass: q.qclass}
}
func (q vC03Q) String() string {
	return fmt.Sprintf("%q/%d/%d", q.name, q.qtype, q.qclass)
}

type vC03Spec struct {
	q     vC03Q
	cd    bool
	scope netip.Prefix
}

func (s vC03Spec) String() string {
	sc := "-"
	if s.scope.IsValid() {
		sc = s.scope.String()
	}
	return fmt.Sprintf("%v cd=%v scope=%s", s.q, s.cd, sc)
}

func vC03WireOf(name string) []byte {
	buf := make([]byte, 300)
	off, err := dns.PackDomainName(name, buf, 0, nil, false)
	if err != nil {
		return nil
	}
	return append([]byte(nil), buf[:off]...)
}

// the model's fold_norm + A–Z fold: KELVIN SIGN -> k, LONG S -> s, then ASCII lower-casing
func vC03FoldD(s string) string {
	s = strings.ReplaceAll(s, "\u212a", "k")
	s = strings.ReplaceAll(s, "\u017f", "s")
	return vC03Lower(s)
}

// ASCII-only lower-casing (strings.ToLower would fold the Kelvin sign to k)
func vC03Lower(s string) string {
	b := []byte(s)
	for i := range b {
		if b[i] >= 'A' && b[i] <= 'Z' {
			b[i] += 32
		}
	}
	return string(b)
}

func vC03MixCase(r *rand.Rand, s string) string {
	b := []byte(s)
	for i := range b {
		if r.Intn(2) == 0 {
			if b[i] >= 'a' && b[i] <= 'z' {
				b[i] -= 32
			} else if b[i] >= 'A' && b[i] <= 'Z' {
				b[i] += 32
			}
		}
	}
	return string(b)
}

var vC03LabelPool = []string{"a", "b", "ab", "www", "k", "s", "x-1", "A", "Zz", "a\\.b", "\\000", "\\255x", "\\@", "i", "mail", "a\\032b", "`", "{", "\\\\",
	"[", "]", "^", "_", "}", "~", "|", "host[0]", "a_b", "x^2", "\\127", "0", "-"}

func vC03Universe(r *rand.Rand) []string {
	// a small family of related names: a zone, children, grandchildren, a sibling zone, near-miss spellings
	tld := []string{"test.", "t.", "Example.", "z\\.z."}[r.Intn(4)]
	pick := func() string { return vC03LabelPool[r.Intn(len(vC03LabelPool))] }
	l1, l2, l3 := pick(), pick(), pick()
	names := []string{
		tld,
		l1 + "." + tld,
		l2 + "." + l1 + "." + tld,
		l3 + "." + l2 + "." + l1 + "." + tld,
		l2 + "." + tld,
		l1 + l2 + "." + tld,  // string-suffix but not label-suffix relatives
		"x" + l1 + "." + tld, //   "
		l1 + "." + "x" + tld, // sibling zone whose spelling ends like the zone
		".",
	}
	// "false parents": the text behind an escaped dot (`a\.b.test.` -> `b.test.`, `x.z\.z.` -> `z.`): string
	// suffixes a careless label walk would visit although they are no ancestors of the name (a dot behind an
	// escaped backslash, `\\.`, is a real label boundary and adds nothing)
	for _, n := range append([]string(nil), names...) {
		for i := 0; i+1 < len(n); i++ {
			if n[i] == '\\' && (n[i+1] == '.' || n[i+1] == '\\') && i+2 < len(n) {
				if n[i+1] == '.' {
					names = append(names, n[i+2:])
				}
				i++
			}
		}
	}
	// keep only names the library can pack and prints back unchanged (canonical presentation)
	var out []string
	seen := map[string]bool{}
	for _, n := range names {
		w := vC03WireOf(n)
		if w == nil {
			continue
		}
		s, _, err := dns.UnpackDomainName(w, 0)
		if err != nil || seen[vC03Lower(s)] {
			continue
		}
		seen[vC03Lower(s)] = true
		out = append(out, s)
	}
	return out
}

var vC03ScopePool = []string{
	"10.1.2.0/24", "10.1.0.0/16", "10.1.2.128/25", "10.1.3.0/24", "10.9.0.0/16", "10.0.0.0/8", "10.1.2.77/32",
	"128.0.0.0/1", "0.0.0.0/1", "10.1.2.0/23", "10.1.0.0/24", "10.0.0.0/16", "10.1.0.0/28", "2001:db8::/48", "2001:db8::/64",
	"2001:db8::/32", "2001:db8:1::/48", "2001:db8:1:2::/64", "2001:db9::/32", "a01:200::/24",
}

func vC03PickScope(r *rand.Rand) netip.Prefix {
	switch r.Intn(10) {
	case 0, 1, 2, 3:
		return netip.Prefix{}
	case 4: // /0: normalises to shared
		if r.Intn(2) == 0 {
			return netip.MustParsePrefix("0.0.0.0/0")
		}
		return netip.MustParsePrefix("::/0")
	case 5: // host bits kept (unmasked)
		return netip.PrefixFrom(netip.MustParseAddr("10.1.2.77"), []int{8, 16, 22, 23, 24, 25}[r.Intn(6)])
	default:
		return netip.MustParsePrefix(vC03ScopePool[r.Intn(len(vC03ScopePool))])
	}
}

// a client's ECS source: address + source prefix length
func vC03PickClient(r *rand.Rand) netip.Prefix {
	switch r.Intn(6) {
	case 0:
		return netip.PrefixFrom(netip.MustParseAddr("10.1.2.77"), []int{0, 1, 8, 15, 16, 17, 23, 24, 25, 32}[r.Intn(10)])
	case 1:
		return netip.PrefixFrom(netip.MustParseAddr("10.1.3.200"), []int{16, 24, 32}[r.Intn(3)])
	case 2:
		return netip.PrefixFrom(netip.MustParseAddr("10.9.9.9"), []int{8, 16, 24}[r.Intn(3)])
	case 3:
		return netip.PrefixFrom(netip.MustParseAddr("2001:db8:1:2::9"), []int{0, 32, 48, 56, 64, 128}[r.Intn(6)])
	case 4:
		return netip.PrefixFrom(netip.MustParseAddr("a01:203::1"), []int{24, 32}[r.Intn(2)]) // leading bytes 10.1.2.3
	default:
		return netip.PrefixFrom(netip.MustParseAddr("192.0.2.1"), 24)
	}
}

// ---- reference preimage of CacheKey.Hash (witness only: accepted when the real hash agrees)

func vC03RefPre(s vC03Spec) []byte {
	q := s.q
	b := []byte{byte(q.qclass >> 8), byte(q.qclass), byte(q.qtype >> 8), byte(q.qtype), 0}
	if s.cd {
		b[4] = 1
	}
	for i := 0; i < len(q.name); i++ {
		c := q.name[i]
		if c >= 'A' && c <= 'Z' {
			c += 32
		}
		b = append(b, c)
	}
	p := s.scope
	if p.IsValid() && p.Bits() > 0 {
		if p.Addr().Is4() {
			b = append(b, 4)
		} else {
			b = append(b, 6)
		}
		b = append(b, byte(p.Bits()))
		a := p.Addr().AsSlice()
		n := (p.Bits() + 7) / 8
		b = append(b, a[:n]...)
	}
	return b
}

// ---- one history

type vC03Hist struct {
	r     *rand.Rand
	c     *Cache
	edns  middleware.Handler
	names []string
	ops   []string
	desc  []string
	fail  string
	incon bool

	nextID        uint64
	ptr           map[uint64]*CacheEntry // id -> entry pointer (for ReplaceIfCurrent)
	stored        []vC03Stored
	keys          map[uint64]string // hash -> preimage, to detect a genuine xxhash collision inside one history
	failIDs       map[string]uint64
	cutIDs        map[uint64]bool
	negUsed       bool
	nextShape     int       // shape of the next alias entry (0 plain)
	now           time.Time // the failure cache's injected clock
	nextRefreshID atomic.Uint64
	pol           [4]uint8
	batteries     int
	target        []vC03Spec // specs the next lookups should probe (both sides of the latest forged placement)
	raw           bool       // the universe holds raw non-ASCII names
	hot           []vC03Spec // questions of recorded failures / cuts: lookups aim at them and their descendants
	hits          int
	forged        int
	forgedLk      int
	treeN         int
}

type vC03Stored struct {
	replaced bool
	id       uint64
	ident    vC03Spec
	key      vC03Spec
	neg      bool
	keyHash  uint64
}

func (h *vC03Hist) failf(f string, a ...any) {
	if h.fail == "" {
		h.fail = fmt.Sprintf(f, a...)
	}
}

func (h *vC03Hist) keyOf(s vC03Spec) uint64 {
	k := CacheKey{Question: s.q.dnsq(), CD: s.cd, Scope: s.scope}.Hash()
	pre := vC03RefPre(s)
	if xxhash.Sum64(pre) != k {
		h.failf("CacheKey.Hash(%v) is not the hash of the expected preimage", s)
	}
	if old, ok := h.keys[k]; ok && old != string(pre) {
		h.incon = true // a real 64-bit collision between two preimages of this history
	}
	h.keys[k] = string(pre)
	return k
}

func (h *vC03Hist) keysrc(s vC03Spec) string {
	return fmt.Sprintf("(KS %s %s %s)", s.q.coq(), vC03Bool(s.cd), vC03Scope(s.scope))
}

func (h *vC03Hist) randQ() vC03Q {
	r := h.r
	n := h.names[r.Intn(len(h.names))]
	if h.raw && r.Intn(2) == 0 {
		n = h.names[len(h.names)-1-r.Intn(4)]
	}
	return vC03Q{name: vC03MixCase(r, n), qtype: []uint16{1, 1, 28, 16}[r.Intn(4)], qclass: []uint16{1, 1, 1, 3}[r.Intn(4)]}
}

func (h *vC03Hist) randSpec() vC03Spec {
	return vC03Spec{q: h.randQ(), cd: h.r.Intn(3) == 0, scope: vC03PickScope(h.r)}
}

// a name that differs from `name` in ONE octet by one bit (mostly the ASCII case bit 0x20 applied to
// a non-letter, else a random bit), still in the decoder's canonical spelling and a different DNS name
func vC03NearName(r *rand.Rand, name string) (string, bool) {
	var pos []int
	for i := 0; i < len(name); i++ {
		c := name[i]
		if c == '\\' {
			if i+3 < len(name) && name[i+1] >= '0' && name[i+1] <= '9' {
				i += 3
			} else {
				i++
			}
			continue
		}
		if c != '.' {
			pos = append(pos, i)
		}
	}
	for try := 0; try < 12 && len(pos) > 0; try++ {
		i := pos[r.Intn(len(pos))]
		bit := byte(0x20)
		if r.Intn(3) == 0 {
			bit = 1 << uint(r.Intn(7))
		}
		b := []byte(name)
		b[i] ^= bit
		n := string(b)
		if vC03Lower(n) == vC03Lower(name) {
			continue
		}
		w := vC03WireOf(n)
		if w == nil {
			continue
		}
		if back, _, err := dns.UnpackDomainName(w, 0); err != nil || back != n {
			continue // not the canonical spelling of its own octets (a special or non-printable byte)
		}
		return n, true
	}
	return name, false
}

// change exactly one dimension of a spec
func (h *vC03Hist) mutate(s vC03Spec) (vC03Spec, string) {
	r := h.r
	if h.raw {
		// swap a letter for the code point Unicode case folding (but not DNS) equates with it
		for _, pr := range [][2]string{{"k.", "\u212a."}, {"K.", "\u212a."}, {"\u212a.", "k."}, {"s.", "\u017f."}, {"S.", "\u017f."}, {"\u017f.", "S."}} {
			if strings.HasPrefix(s.q.name, pr[0]) && r.Intn(2) == 0 {
				s.q.name = pr[1] + s.q.name[len(pr[0]):]
				return s, "confusable"
			}
		}
	}
	if r.Intn(3) == 0 {
		if n, ok := vC03NearName(r, s.q.name); ok {
			s.q.name = n
			return s, "name"
		}
	}
	switch r.Intn(7) {
	case 0:
		for i := 0; i < 8; i++ {
			n := h.names[r.Intn(len(h.names))]
			if vC03Lower(n) != vC03Lower(s.q.name) {
				s.q.name = vC03MixCase(r, n)
				return s, "name"
			}
		}
		return s, "same"
	case 1:
		s.q.name = vC03MixCase(r, s.q.name)
		return s, "case"
	case 2:
		s.q.qtype = map[uint16]uint16{1: 28, 28: 1, 16: 1}[s.q.qtype]
		return s, "type"
	case 3:
		s.q.qclass = map[uint16]uint16{1: 3, 3: 1}[s.q.qclass]
		return s, "class"
	case 4:
		s.cd = !s.cd
		return s, "cd"
	default:
		old := s.scope
		if old.IsValid() && old.Bits() > 0 && r.Intn(3) != 0 {
			// a close relative of the scope: sibling subnet of the same length, one bit wider or
			// narrower, the other family with the same leading bytes, or no scope at all
			a := old.Masked().Addr().AsSlice()
			bits := old.Bits()
			switch r.Intn(5) {
			case 0: // sibling: flip one bit inside the prefix
				i := r.Intn(bits)
				a[i/8] ^= 0x80 >> uint(i%8)
			case 1:
				bits--
			case 2:
				if bits < len(a)*8 {
					bits++
				}
			case 3:
				if len(a) == 4 {
					a = append(a, make([]byte, 12)...)
				} else if bits <= 32 {
					a = a[:4]
				}
			default:
				s.scope = netip.Prefix{}
				return s, "scope"
			}
			addr, _ := netip.AddrFromSlice(a)
			if p, err := addr.Prefix(bits); err == nil && normalizeKeyScope(p) != normalizeKeyScope(old) {
				s.scope = p
				return s, "scope"
			}
		}
		for i := 0; i < 8; i++ {
			s.scope = vC03PickScope(r)
			if normalizeKeyScope(s.scope) != normalizeKeyScope(old) {
				return s, "scope"
			}
		}
		return s, "same"
	}
}

func vC03Answer(q vC03Q, id uint64) dns.RR {
	hdr := dns.RR_Header{Name: q.name, Rrtype: q.qtype, Class: q.qclass, Ttl: 3600}
	switch q.qtype {
	case dns.TypeA:
		return &dns.A{Hdr: hdr, A: net.IPv4(10, byte(id>>16), byte(id>>8), byte(id))}
	case dns.TypeAAAA:
		ip := net.ParseIP("2001:db8::")
		binary.BigEndian.PutUint32(ip[12:], uint32(id))
		return &dns.AAAA{Hdr: hdr, AAAA: ip}
	default:
		hdr.Rrtype = dns.TypeTXT
		return &dns.TXT{Hdr: hdr, Txt: []string{strconv.FormatUint(id, 10)}}
	}
}

func vC03AnswerID(m *dns.Msg) (uint64, bool) {
	if m == nil || len(m.Answer) == 0 {
		return 0, false
	}
	switch rr := m.Answer[0].(type) {
	case *dns.A:
		ip := rr.A.To4()
		return uint64(ip[1])<<16 | uint64(ip[2])<<8 | uint64(ip[3]), true
	case *dns.AAAA:
		return uint64(binary.BigEndian.Uint32(rr.AAAA[12:])), true
	case *dns.TXT:
		v, err := strconv.ParseUint(rr.Txt[0], 10, 64)
		return v, err == nil
	}
	return 0, false
}

func vC03Resp(q vC03Q, cd bool, id uint64) *dns.Msg {
	req := new(dns.Msg)
	req.SetQuestion(q.name, q.qtype)
	req.Question[0].Qclass = q.qclass
	resp := new(dns.Msg)
	resp.SetReply(req)
	resp.RecursionAvailable = true
	resp.CheckingDisabled = cd
	resp.Answer = []dns.RR{vC03Answer(q, id)}
	return resp
}

func vC03Req(q vC03Q, cd bool) *dns.Msg {
	req := new(dns.Msg)
	req.SetQuestion(q.name, q.qtype)
	req.Question[0].Qclass = q.qclass
	req.RecursionDesired = true
	req.CheckingDisabled = cd
	return req
}

func (h *vC03Hist) opSet() {
	r := h.r
	ident := h.randSpec()
	if len(h.stored) > 0 && r.Intn(3) == 0 { // revisit an identity or key already in play
		st := h.stored[r.Intn(len(h.stored))]
		if r.Intn(2) == 0 {
			ident = st.ident
		} else {
			ident = st.key
		}
		ident.q.name = vC03MixCase(r, ident.q.name)
	}
	key, how := ident, "genuine"
	if r.Intn(2) == 0 {
		key, how = h.mutate(ident)
		if how == "same" {
			how = "genuine"
		}
	}
	neg := !h.negUsed && r.Intn(12) == 0
	id := h.nextID
	h.nextID++
	k := h.keyOf(key)
	resp := vC03Resp(ident.q, ident.cd, id)
	if neg {
		h.negUsed = true
		e := NewCacheEntryWithKey(resp, time.Hour, 0, k)
		if e == nil {
			return
		}
		e.cd = ident.cd
		e.scope = normalizeKeyScope(ident.scope)
		h.c.negative.Set(k, e)
		h.ptr[id] = e
	} else {
		if ident.scope.IsValid() {
			h.c.store.SetFromResponseScoped(k, resp, ident.scope, time.Time{}, 0)
		} else {
			h.c.store.SetFromResponseWithKey(k, resp, time.Time{}, 0)
		}
		if e, ok := h.c.positive.Get(k); ok {
			if got, ok2 := vC03AnswerID(e.storedMsg()); !ok2 || got != id {
				h.failf("entry just stored under %v does not carry its response", key)
			}
			h.ptr[id] = e
			// what admission recorded as the entry's identity
			if e.question.Name != ident.q.name || e.question.Qtype != ident.q.qtype || e.question.Qclass != ident.q.qclass ||
				e.cd != ident.cd || e.scope != normalizeKeyScope(ident.scope) {
				h.failf("admission recorded identity %v/%v/%v for a response to %v", e.question, e.cd, e.scope, ident)
			}
		} else {
			h.failf("entry stored under %v is not in the positive cache", key)
		}
	}
	if how != "genuine" {
		h.forged++
		h.target = append(h.target, ident)
	}
	h.stored = append(h.stored, vC03Stored{id: id, ident: ident, key: key, neg: neg, keyHash: k})
	h.ops = append(h.ops, fmt.Sprintf("OpSet %s %s %s %s %s %d", vC03Bool(neg), h.keysrc(key), ident.q.coq(), vC03Bool(ident.cd), vC03Scope(ident.scope), id))
	h.desc = append(h.desc, fmt.Sprintf("set#%d[%s%s] ident{%v} key{%v}", id, how, map[bool]string{true: ",neg", false: ""}[neg], ident, key))
	if how != "genuine" {
		h.battery(key, "answer")
	}
}

func (h *vC03Hist) opReplace() {
	if len(h.stored) == 0 {
		return
	}
	r := h.r
	st := h.stored[r.Intn(len(h.stored))]
	key := st.key
	if r.Intn(5) == 0 {
		key = h.stored[r.Intn(len(h.stored))].key
	}
	rq := st.ident.q
	rq.name = vC03MixCase(r, rq.name)
	if r.Intn(4) == 0 {
		rq = h.randQ()
	}
	id := h.nextID
	h.nextID++
	k := h.keyOf(key)
	// a refresh answers without the CD bit the entry was filed under, half of the time
	resp := vC03Resp(rq, r.Intn(2) == 0, id)
	ok := h.c.store.ReplaceIfCurrent(k, h.ptr[st.id], resp, time.Time{}, 0)
	if ok {
		if e, ok2 := h.c.positive.Get(k); ok2 {
			h.ptr[id] = e
			old := h.ptr[st.id]
			if e.cd != old.cd || e.scope != old.scope {
				h.failf("replacement of #%d does not inherit its partition: cd %v->%v scope %v->%v", st.id, old.cd, e.cd, old.scope, e.scope)
			}
		}
		h.stored = append(h.stored, vC03Stored{id: id, ident: vC03Spec{q: rq, cd: st.ident.cd, scope: st.ident.scope}, key: key, keyHash: k})
	}
	h.ops = append(h.ops, fmt.Sprintf("OpReplace %s %d %s %d %s", h.keysrc(key), st.id, rq.coq(), id, vC03Bool(ok)))
	h.desc = append(h.desc, fmt.Sprintf("replace expected#%d key{%v} with#%d q{%v} -> %v", st.id, key, id, rq, ok))
}

func (h *vC03Hist) opRemove() {
	if len(h.stored) == 0 {
		return
	}
	st := h.stored[h.r.Intn(len(h.stored))]
	k := h.keyOf(st.key)
	if st.neg {
		h.c.negative.Remove(k)
	} else {
		h.c.positive.Remove(k)
	}
	h.ops = append(h.ops, fmt.Sprintf("OpRemove %s %s", vC03Bool(st.neg), h.keysrc(st.key)))
	h.desc = append(h.desc, fmt.Sprintf("remove key{%v} neg=%v", st.key, st.neg))
}

func (h *vC03Hist) relatedQ() vC03Q {
	r := h.r
	if len(h.stored) > 0 && r.Intn(4) != 0 {
		st := h.stored[len(h.stored)-1-r.Intn(min(len(h.stored), 4))]
		q := st.ident.q
		if r.Intn(2) == 0 {
			q = st.key.q
		}
		q.name = vC03MixCase(r, q.name)
		return q
	}
	return h.randQ()
}

func (h *vC03Hist) opPurge() {
	// Store.Purge sweeps scoped entries with strings.EqualFold (Unicode folding): raw-name histories
	// stay inside the domain the model decides exactly (ASCII + KELVIN SIGN + LONG S)
	q := h.relatedQ()
	if h.raw {
		for _, st := range h.stored {
			if got, want := strings.EqualFold(st.ident.q.name, q.name), vC03FoldD(st.ident.q.name) == vC03FoldD(q.name); got != want {
				h.failf("strings.EqualFold(%q, %q) = %v but the domain model says %v", st.ident.q.name, q.name, got, want)
			}
		}
	}
	h.c.Purge(q.dnsq())
	h.ops = append(h.ops, fmt.Sprintf("OpPurge %s", q.coq()))
	h.desc = append(h.desc, fmt.Sprintf("purge %v", q))
}

func vC03FailKey(name string, qtype, qclass uint16, cd bool, scope netip.Prefix) string {
	return fmt.Sprintf("q|%s|%d|%d|%v|%v", vC03Lower(name), qtype, qclass, cd, normalizeKeyScope(scope))
}

func (h *vC03Hist) failID(key string) uint64 {
	if id, ok := h.failIDs[key]; ok {
		return id
	}
	id := h.nextID
	h.nextID++
	h.failIDs[key] = id
	return id
}

func (h *vC03Hist) opFailQ() {
	s := h.randSpec()
	if h.r.Intn(2) == 0 {
		s.q = h.relatedQ()
	}
	id := h.failID(vC03FailKey(s.q.name, s.q.qtype, s.q.qclass, s.cd, s.scope))
	h.c.store.RecordFailure(vC03Req(s.q, s.cd), s.scope, FailureProvenance("response"), nil)
	h.hot = append(h.hot, s)
	h.ops = append(h.ops, fmt.Sprintf("OpFailQ %s %s %s %d", s.q.coq(), vC03Bool(s.cd), vC03Scope(s.scope), id))
	h.desc = append(h.desc, fmt.Sprintf("fail-question#%d %v", id, s))
}

// one question climbs the RFC 9520 backoff ladder: recorded, left to (almost) expire, probed, recorded
// again (a renewal with the next generation when it had expired, nothing when it was still active),
// probed on the other side of the new retry-after
func (h *vC03Hist) opBackoff() {
	r := h.r
	s := h.randSpec()
	if r.Intn(2) == 0 {
		s.scope = netip.Prefix{}
	}
	rec := func() {
		id := h.failID(vC03FailKey(s.q.name, s.q.qtype, s.q.qclass, s.cd, s.scope))
		h.c.store.RecordFailure(vC03Req(s.q, s.cd), s.scope, FailureProvenance("response"), nil)
		h.ops = append(h.ops, fmt.Sprintf("OpFailQ %s %s %s %d", s.q.coq(), vC03Bool(s.cd), vC03Scope(s.scope), id))
		h.desc = append(h.desc, fmt.Sprintf("fail-question#%d %v", id, s))
	}
	step := func() {
		// both sides of every generation's retry-after (5/10/20/40 s) and of the idle period after which the
		// streak restarts (retry-after + 40 s: 45, 50, 60, 80 s after the record)
		ms := []int{1, 4999, 5000, 5001, 9999, 10000, 10001, 14999, 15001, 19999, 20000, 20001, 39999, 40000, 40001,
			44999, 45000, 45001, 49999, 50000, 50001, 60000, 80000, 80001}[r.Intn(24)]
		h.now = h.now.Add(time.Duration(ms) * time.Millisecond)
		h.ops = append(h.ops, fmt.Sprintf("OpClock %d", ms))
		h.desc = append(h.desc, fmt.Sprintf("clock +%dms", ms))
	}
	probe := func() {
		at := s
		at.q.name = vC03MixCase(r, at.q.name)
		h.failAt(at)
		if !normalizeKeyScope(s.scope).IsValid() && r.Intn(2) == 0 {
			h.failWireAt(at)
		}
	}
	h.hot = append(h.hot, s)
	rec()
	for g := 0; g < 2+r.Intn(3); g++ {
		step()
		probe()
		rec()
		step()
		probe()
	}
}

// names of the universe that are a string suffix of another name without being one of its ancestors
func (h *vC03Hist) falseParents() []string {
	var out []string
	for _, z := range h.names {
		if z == "." {
			continue
		}
		for _, n := range h.names {
			if len(n) > len(z) && strings.HasSuffix(vC03Lower(n), vC03Lower(z)) && !dns.IsSubDomain(z, n) {
				out = append(out, z)
				break
			}
		}
	}
	return out
}

func (h *vC03Hist) opFailZ() {
	q := h.randQ()
	if fp := h.falseParents(); len(fp) > 0 && h.r.Intn(3) == 0 {
		// a zone-wide failure on a false parent, probed at once from the names it is only a string suffix of,
		// through each failure route (decoded lookup, wire lookup, the pipeline in both births)
		z := fp[h.r.Intn(len(fp))]
		q.name = vC03MixCase(h.r, z)
		h.failZone(q)
		for _, n := range h.names {
			if len(n) > len(z) && strings.HasSuffix(vC03Lower(n), vC03Lower(z)) && !dns.IsSubDomain(z, n) && h.batteries < 3 {
				h.batteries++
				at := vC03Spec{q: vC03Q{name: vC03MixCase(h.r, n), qtype: []uint16{1, 28}[h.r.Intn(2)], qclass: q.qclass}, cd: h.r.Intn(3) == 0}
				h.failAt(at)
				h.failWireAt(at)
				h.serve(at, false, 0)
				h.serve(at, true, 0)
			}
		}
		return
	}
	h.failZone(q)
}

func (h *vC03Hist) failZone(q vC03Q) {
	if q.name == "" {
		return
	}
	id := h.failID(fmt.Sprintf("z|%s|%d", vC03Lower(q.name), q.qclass))
	h.c.store.RecordZoneFailure(q.dnsq(), q.name)
	h.hot = append(h.hot, vC03Spec{q: q, cd: h.r.Intn(3) == 0})
	h.ops = append(h.ops, fmt.Sprintf("OpFailZ %s %d %d", vC03Bytes([]byte(q.name)), q.qclass, id))
	h.desc = append(h.desc, fmt.Sprintf("fail-zone#%d %q class %d", id, q.name, q.qclass))
}

func (h *vC03Hist) opCut() {
	q := h.randQ()
	labels := dns.SplitDomainName(q.name)
	if len(labels) < 2 {
		return
	}
	// signer zone: the last label of the denied name
	off := 0
	for {
		next, end := dns.NextLabel(q.name, off)
		if end {
			break
		}
		n2, end2 := dns.NextLabel(q.name, next)
		_ = n2
		if end2 {
			off = next
			break
		}
		off = next
	}
	zone := vC03Lower(q.name[off:])
	id := h.nextID
	h.nextID++
	proof := new(dns.Msg)
	proof.SetQuestion(q.name, dns.TypeA)
	proof.Question[0].Qclass = q.qclass
	proof.Response = true
	proof.Rcode = dns.RcodeNameError
	proof.AuthenticatedData = true
	exp := uint32(time.Now().Add(24 * time.Hour).Unix())
	inc := uint32(time.Now().Add(-time.Hour).Unix())
	sig := func(covered uint16) *dns.RRSIG {
		return &dns.RRSIG{Hdr: dns.RR_Header{Name: zone, Rrtype: dns.TypeRRSIG, Class: q.qclass, Ttl: 300}, TypeCovered: covered, Algorithm: 13,
			Labels: uint8(dns.CountLabel(zone)), OrigTtl: 300, Expiration: exp, Inception: inc, KeyTag: 1, SignerName: zone, Signature: "AAAA"}
	}
	proof.Ns = []dns.RR{
		&dns.SOA{Hdr: dns.RR_Header{Name: zone, Rrtype: dns.TypeSOA, Class: q.qclass, Ttl: 300}, Ns: "ns." + zone, Mbox: "h." + zone, Serial: uint32(id), Refresh: 1, Retry: 1, Expire: 1, Minttl: 300},
		sig(dns.TypeSOA),
		&dns.NSEC{Hdr: dns.RR_Header{Name: zone, Rrtype: dns.TypeNSEC, Class: q.qclass, Ttl: 300}, NextDomain: zone, TypeBitMap: []uint16{dns.TypeSOA, dns.TypeNSEC}},
		sig(dns.TypeNSEC),
	}
	if !h.c.store.RecordNXDomainCut(proof, q.name, zone, time.Time{}) {
		return
	}
	ent := h.c.store.nxDomainCuts.entries[nxDomainCutID{deniedName: vC03Lower(q.name), qclass: q.qclass}]
	if ent == nil {
		h.failf("cut recorded for %v is not indexed", q)
		return
	}
	h.cutIDs[id] = true
	h.hot = append(h.hot, vC03Spec{q: q, cd: h.r.Intn(5) == 0})
	h.ops = append(h.ops, fmt.Sprintf("OpCut %s %d %s %d", vC03Bytes([]byte(q.name)), q.qclass, vC03Bool(ent.wireFull != nil), id))
	h.desc = append(h.desc, fmt.Sprintf("cut#%d %q class %d zone %q wire=%v", id, q.name, q.qclass, zone, ent.wireFull != nil))
}

// the failure cache's clock moves: entries pass their retry-after, renewals climb the backoff ladder
func (h *vC03Hist) opClock() {
	dt := []time.Duration{time.Second, 4 * time.Second, 4999 * time.Millisecond, 5 * time.Second, 5001 * time.Millisecond,
		9 * time.Second, 10 * time.Second, 20 * time.Second, 39 * time.Second, 41 * time.Second, 90 * time.Second}[h.r.Intn(11)]
	h.now = h.now.Add(dt)
	h.ops = append(h.ops, fmt.Sprintf("OpClock %d", dt.Milliseconds()))
	h.desc = append(h.desc, fmt.Sprintf("clock +%v", dt))
}

// a subtree cut reaches the end of its lifetime (only its stored expiry moves)
func (h *vC03Hist) opCutExpire() {
	cc := h.c.store.nxDomainCuts
	var ids []uint64
	ents := map[uint64]*nxDomainCutEntry{}
	cc.mu.Lock()
	for _, e := range cc.entries {
		if id, ok := vC03CutID(e.msg); ok && time.Now().Before(e.expires) {
			ids = append(ids, id)
			ents[id] = e
		}
	}
	if len(ids) == 0 {
		cc.mu.Unlock()
		h.opCut()
		return
	}
	for i := range ids {
		for j := i + 1; j < len(ids); j++ {
			if ids[j] < ids[i] {
				ids[i], ids[j] = ids[j], ids[i]
			}
		}
	}
	id := ids[h.r.Intn(len(ids))]
	ents[id].expires = time.Now().Add(-time.Second)
	cc.mu.Unlock()
	h.hot = append(h.hot, vC03Spec{q: vC03Q{name: ents[id].deniedName, qtype: 1, qclass: ents[id].qclass}})
	h.ops = append(h.ops, fmt.Sprintf("OpCutExpire %d", id))
	h.desc = append(h.desc, fmt.Sprintf("cut#%d %q expires", id, ents[id].deniedName))
}

// a stored answer outlives its TTL: the stored instant moves back and the next read of its key drops it
// (PositiveCache.Get / NegativeCache.Get delete an expired entry they come across)
func (h *vC03Hist) opExpire() {
	if len(h.stored) == 0 {
		return
	}
	st := h.stored[h.r.Intn(len(h.stored))]
	e := h.ptr[st.id]
	if e == nil {
		return
	}
	k := h.keyOf(st.key)
	cur, ok := h.c.positive.cache.Get(k)
	if st.neg {
		cur, ok = h.c.negative.cache.Get(k)
	}
	if !ok || cur.(*CacheEntry) != e {
		return // not the live entry under its key any more
	}
	e.stored = time.Now().Add(-e.ttl - time.Second)
	h.c.store.LookupByKey(k)
	h.ops = append(h.ops, fmt.Sprintf("OpRemove %s %s", vC03Bool(st.neg), h.keysrc(st.key)))
	h.desc = append(h.desc, fmt.Sprintf("expire #%d key{%v} neg=%v (dropped by the next read)", st.id, st.key, st.neg))
}

// a failure entry for one key placed under the hash of another (a collision in the failure map)
func (h *vC03Hist) opFailForge() {
	r := h.r
	ident := h.randSpec()
	if len(h.hot) > 0 && r.Intn(2) == 0 {
		ident = h.hot[r.Intn(len(h.hot))]
	}
	key, how := h.mutate(ident)
	retry := h.c.failure.now().Add(time.Minute)
	if x := r.Intn(10); x < 3 {
		// the audience dimension on its own: the same question filed for one audience under the key of
		// another (scoped under shared, shared under scoped, the other CD partition)
		valid := func() netip.Prefix {
			for i := 0; i < 16; i++ {
				if p := vC03PickScope(r); normalizeKeyScope(p).IsValid() {
					return p
				}
			}
			return netip.MustParsePrefix("10.1.2.0/24")
		}
		key = ident
		switch x {
		case 0:
			if !normalizeKeyScope(ident.scope).IsValid() {
				ident.scope = valid()
			}
			key.scope = netip.Prefix{}
		case 1:
			ident.scope = netip.Prefix{}
			key.scope = valid()
		default:
			key.cd = !ident.cd
		}
		how = "audience"
	} else if r.Intn(4) == 0 { // zone kind
		id := h.failID(fmt.Sprintf("z|%s|%d", vC03Lower(ident.q.name), ident.q.qclass))
		zk := normalizeFailureZoneKey(FailureZoneKey{Zone: ident.q.name, Qclass: ident.q.qclass})
		hash := failureZoneHash(normalizeFailureZoneKey(FailureZoneKey{Zone: key.q.name, Qclass: key.q.qclass}))
		h.c.failure.entries.Add(hash, &failureEntry{kind: FailureKindZone, provenance: "authority", streak: 1, retryAfter: retry, zone: zk})
		h.hot = append(h.hot, ident, key)
		h.target = append(h.target, key, ident)
		h.ops = append(h.ops, fmt.Sprintf("OpFailSeedZ %s %d %s %d %d", vC03Bytes([]byte(key.q.name)), key.q.qclass, vC03Bytes([]byte(ident.q.name)), ident.q.qclass, id))
		h.desc = append(h.desc, fmt.Sprintf("forge-fail-zone#%d[%s] ident{%q/%d} under{%q/%d}", id, how, ident.q.name, ident.q.qclass, key.q.name, key.q.qclass))
		h.battery(vC03Spec{q: key.q, cd: r.Intn(2) == 0}, "failure")
		return
	}
	id := h.failID(vC03FailKey(ident.q.name, ident.q.qtype, ident.q.qclass, ident.cd, ident.scope))
	ik := normalizeFailureQuestionKey(FailureQuestionKey{Question: ident.q.dnsq(), CD: ident.cd, Scope: ident.scope})
	hash := failureQuestionHash(normalizeFailureQuestionKey(FailureQuestionKey{Question: key.q.dnsq(), CD: key.cd, Scope: key.scope}))
	h.c.failure.entries.Add(hash, &failureEntry{kind: FailureKindQuestion, provenance: "response", streak: 1, retryAfter: retry, question: ik})
	h.hot = append(h.hot, ident, key)
	h.target = append(h.target, key, ident, key)
	h.ops = append(h.ops, fmt.Sprintf("OpFailSeedQ %s %s %s %s %s %s %d", key.q.coq(), vC03Bool(key.cd), vC03Scope(key.scope),
		ident.q.coq(), vC03Bool(ident.cd), vC03Scope(ident.scope), id))
	h.desc = append(h.desc, fmt.Sprintf("forge-fail-question#%d[%s] ident{%v} under{%v}", id, how, ident, key))
	h.battery(key, "failure")
}

// the cut hash index pointing at a cut recorded for another (name, class)
func (h *vC03Hist) opCutForge() {
	cc := h.c.store.nxDomainCuts
	var ids []uint64
	ents := map[uint64]*nxDomainCutEntry{}
	for _, e := range cc.entries {
		if id, ok := vC03CutID(e.msg); ok {
			ids = append(ids, id)
			ents[id] = e
		}
	}
	if len(ids) == 0 {
		h.opCut()
		return
	}
	// deterministic choice: smallest-first order
	for i := range ids {
		for j := i + 1; j < len(ids); j++ {
			if ids[j] < ids[i] {
				ids[i], ids[j] = ids[j], ids[i]
			}
		}
	}
	id := ids[h.r.Intn(len(ids))]
	e := ents[id]
	key, how := vC03Spec{q: vC03Q{name: e.deniedName, qtype: 1, qclass: e.qclass}}, "class"
	if h.r.Intn(2) == 0 {
		key.q.qclass = map[uint16]uint16{1: 3, 3: 1}[key.q.qclass]
	} else {
		how = "name"
		for i := 0; i < 8; i++ {
			if n := h.names[h.r.Intn(len(h.names))]; vC03Lower(n) != vC03Lower(e.deniedName) && n != "." {
				key.q.name = n
				break
			}
		}
		if vC03Lower(key.q.name) == vC03Lower(e.deniedName) {
			key.q.qclass = map[uint16]uint16{1: 3, 3: 1}[key.q.qclass]
			how = "class"
		}
	}
	cc.mu.Lock()
	cc.byHash[nxDomainCutHash(vC03Lower(key.q.name), key.q.qclass)] = e
	cc.mu.Unlock()
	h.hot = append(h.hot, key)
	h.target = append(h.target, key, key)
	h.ops = append(h.ops, fmt.Sprintf("OpCutForge %s %d %d", vC03Bytes([]byte(key.q.name)), key.q.qclass, id))
	h.desc = append(h.desc, fmt.Sprintf("forge-cut-index[%s] cut#%d{%q/%d} under{%q/%d}", how, id, e.deniedName, e.qclass, key.q.name, key.q.qclass))
	h.battery(key, "cut")
}

// after a forged placement: probe the key it was filed under (the spelling varies) through
// every route that can reach it
func (h *vC03Hist) battery(key vC03Spec, kind string) {
	r := h.r
	at := func() vC03Spec { k := key; k.q.name = vC03MixCase(r, k.q.name); return k }
	if h.batteries >= 3 {
		return
	}
	h.batteries++
	switch kind {
	case "answer":
		if key.scope.IsValid() {
			h.serve(at(), r.Intn(2) == 0, 1)
			h.serve(at(), r.Intn(2) == 0, 1)
		} else {
			h.serve(at(), true, 0)
			h.serve(at(), false, 0)
			h.lookupAt(at())
			if r.Intn(2) == 0 {
				h.getAt(at())
			}
		}
	case "failure":
		h.failAt(at())
		if !key.scope.IsValid() {
			h.failWireAt(at())
			h.serve(at(), r.Intn(2) == 0, 0)
		} else {
			h.serve(at(), r.Intn(2) == 0, 1)
		}
	case "cut":
		k := at()
		k.cd = false
		h.cutWireAt(k)
		h.cutAt(k)
		h.serve(k, true, 0)
	}
}

// ---- admission through the real write-back: a request misses, a scripted handler below the cache
// answers through the cache's ResponseWriter.WriteMsg

type vC03LoopQueryer struct{ tld string }

// every sub-query is answered by an alias into a two-name loop
func (q vC03LoopQueryer) Query(_ context.Context, req *dns.Msg) (*dns.Msg, error) {
	m := new(dns.Msg)
	m.SetReply(req)
	name := req.Question[0].Name
	target := "loop1." + q.tld
	if vC03Lower(name) == vC03Lower(target) {
		target = "loop2." + q.tld
	}
	m.Answer = []dns.RR{&dns.CNAME{Hdr: dns.RR_Header{Name: name, Rrtype: dns.TypeCNAME, Class: req.Question[0].Qclass, Ttl: 300}, Target: target}}
	return m, nil
}

// kind: 0 answer (scopeBits = SCOPE the authority claims, 0 = global), 1 direct SERVFAIL,
// 2 alias to the question itself, 3 alias into a loop (both end in SERVFAIL after the chase),
// 4 alias to the question in the other letter case + a record of the type (SERVFAIL since fix a4faf69)
func (h *vC03Hist) resolve(s vC03Spec, wireborn bool, client netip.Prefix, kind int, scopeBits int) {
	r := h.r
	w := vC03WireOf(s.q.name)
	if w == nil {
		return
	}
	req := vC03Req(s.q, s.cd)
	if client.IsValid() || r.Intn(3) == 0 {
		req.SetEdns0(1232, r.Intn(2) == 0)
		if client.IsValid() {
			fam := uint16(2)
			if client.Addr().Is4() {
				fam = 1
			}
			req.IsEdns0().Option = append(req.IsEdns0().Option, &dns.EDNS0_SUBNET{Code: dns.EDNS0SUBNET, Family: fam,
				SourceNetmask: uint8(client.Bits()), Address: net.IP(client.Addr().AsSlice())})
		}
	}
	clientScope := h.clampClient(client)
	if kind == 0 && scopeBits > 0 && !client.IsValid() {
		scopeBits = 0
	}
	id := h.nextID
	if kind == 0 {
		h.nextID++
	} else {
		id = h.failID(vC03FailKey(s.q.name, s.q.qtype, s.q.qclass, s.cd, clientScope))
	}
	reached := false
	terminal := middleware.HandlerFunc(func(_ context.Context, ch *middleware.Chain) {
		reached = true
		rq := ch.Request.Msg()
		resp := new(dns.Msg)
		resp.SetReply(rq)
		resp.RecursionAvailable = true
		q := rq.Question[0]
		switch kind {
		case 0:
			resp.Answer = []dns.RR{vC03Answer(vC03Q{name: q.Name, qtype: q.Qtype, qclass: q.Qclass}, id)}
			if scopeBits > 0 {
				if opt := rq.IsEdns0(); opt != nil {
					for _, o := range opt.Option {
						if sub, ok := o.(*dns.EDNS0_SUBNET); ok {
							ro := new(dns.OPT)
							ro.Hdr.Name, ro.Hdr.Rrtype = ".", dns.TypeOPT
							ro.SetUDPSize(1232)
							ro.Option = []dns.EDNS0{&dns.EDNS0_SUBNET{Code: dns.EDNS0SUBNET, Family: sub.Family,
								SourceNetmask: sub.SourceNetmask, SourceScope: uint8(scopeBits), Address: sub.Address}}
							resp.Extra = []dns.RR{ro}
						}
					}
				}
			}
		case 1:
			resp.Rcode = dns.RcodeServerFailure
		case 2:
			resp.Answer = []dns.RR{&dns.CNAME{Hdr: dns.RR_Header{Name: q.Name, Rrtype: dns.TypeCNAME, Class: q.Qclass, Ttl: 300}, Target: q.Name}}
		case 3:
			resp.Answer = []dns.RR{&dns.CNAME{Hdr: dns.RR_Header{Name: q.Name, Rrtype: dns.TypeCNAME, Class: q.Qclass, Ttl: 300}, Target: "loop1." + h.names[0]}}
		case 4:
			// an alias onto the question in the other letter case, followed by a record of the asked type: the
			// same loop as kind 2 (fix a4faf69: the test folds case); nothing of it may be admitted
			b := []byte(q.Name)
			for i, c := range b {
				if c >= 'a' && c <= 'z' {
					b[i] = c - 32
				} else if c >= 'A' && c <= 'Z' {
					b[i] = c + 32
				}
			}
			resp.Answer = []dns.RR{&dns.CNAME{Hdr: dns.RR_Header{Name: q.Name, Rrtype: dns.TypeCNAME, Class: q.Qclass, Ttl: 300}, Target: string(b)},
				vC03Answer(vC03Q{name: q.Name, qtype: q.Qtype, qclass: q.Qclass}, 400000+id)}
		}
		_ = ch.Writer.WriteMsg(resp)
		ch.Cancel()
	})
	writer := mock.NewWriter("udp", "192.0.2.7:53000")
	ch := middleware.NewChain([]middleware.Handler{h.edns, h.c, terminal})
	if wireborn {
		raw, err := req.Pack()
		wr := new(middleware.Request)
		if err != nil || !wr.ParseWire(raw, time.Now(), nil) {
			wireborn = false
			ch.Reset(writer, req)
		} else {
			ch.ResetWire(writer, wr)
			ch.AllowDirectPack()
		}
	} else {
		ch.Reset(writer, req)
	}
	ch.Next(context.Background())
	out := "BMiss"
	if reached {
		m := writer.Msg()
		switch {
		case !writer.Written() || m == nil:
			h.failf("resolved request %v: the downstream response was not delivered", s)
		case kind == 0 && m.Rcode != dns.RcodeSuccess, kind != 0 && m.Rcode != dns.RcodeServerFailure:
			h.failf("resolved request %v (downstream kind %d) was answered rcode %d", s, kind, m.Rcode)
		}
		if kind == 0 {
			sc := netip.Prefix{}
			if clientScope.IsValid() && scopeBits > 0 { // a SCOPE beyond the family's length counts as the whole address (fix 9eb1ef6)
				b := min(scopeBits, clientScope.Bits())
				floor := int(h.pol[3])
				if clientScope.Addr().Is4() {
					floor = int(h.pol[2])
				}
				if b > floor {
					b = floor
				}
				sc, _ = clientScope.Addr().Prefix(b)
			}
			key := vC03Spec{q: s.q, cd: s.cd, scope: sc}
			if e, ok := h.c.positive.Get(h.keyOf(key)); ok {
				h.ptr[id] = e
			} else {
				h.failf("the answer written back for %v is not under %v", s, key)
			}
			h.stored = append(h.stored, vC03Stored{id: id, ident: key, key: key})
		} else {
			h.hot = append(h.hot, vC03Spec{q: s.q, cd: s.cd, scope: clientScope})
		}
	} else if writer.Written() {
		out = h.classify(writer.Msg())
	} else {
		h.failf("request %v: nothing written and the next handler not reached", s)
	}
	d := fmt.Sprintf("(DFail %d)", id)
	if kind == 0 {
		d = fmt.Sprintf("(DAnswer %d %d)", scopeBits, id)
	}
	h.ops = append(h.ops, fmt.Sprintf("OpResolve %s %s %s %s %s %s %s", vC03Bool(wireborn), vC03Bytes(w), s.q.coq(), vC03Bool(s.cd), vC03Scope(client), d, out))
	cl := "-"
	if client.IsValid() {
		cl = client.String()
	}
	h.desc = append(h.desc, fmt.Sprintf("resolve[%s] %v cd=%v ecs=%s downstream=%s -> %s",
		map[bool]string{true: "wire", false: "msg"}[wireborn], s.q, s.cd, cl,
		[]string{fmt.Sprintf("answer#%d scope/%d", id, scopeBits), fmt.Sprintf("SERVFAIL#%d", id), fmt.Sprintf("self-alias(SERVFAIL#%d)", id), fmt.Sprintf("alias-loop(SERVFAIL#%d)", id), fmt.Sprintf("self-alias-other-case+record(SERVFAIL#%d)", id)}[kind], out))
}

// audiences of one history: no ECS, two subnets of one family, a host inside the first, another family
func (h *vC03Hist) audience() netip.Prefix {
	r := h.r
	switch r.Intn(7) {
	case 0, 1:
		return netip.Prefix{}
	case 2:
		return netip.PrefixFrom(netip.MustParseAddr("10.1.2.77"), []int{16, 24, 24, 32}[r.Intn(4)])
	case 3:
		return netip.PrefixFrom(netip.MustParseAddr("10.1.3.9"), []int{16, 24, 24}[r.Intn(3)])
	case 4:
		return netip.PrefixFrom(netip.MustParseAddr("10.9.9.9"), []int{8, 16, 24}[r.Intn(3)])
	case 5:
		return netip.PrefixFrom(netip.MustParseAddr("2001:db8:1:2::9"), []int{32, 48, 56}[r.Intn(3)])
	default:
		return netip.PrefixFrom(netip.MustParseAddr("10.1.2.77"), 0)
	}
}

func (h *vC03Hist) resolveHistory() {
	r := h.r
	h.c.SetQueryer(vC03LoopQueryer{tld: h.names[0]})
	// two or three questions asked again and again by different audiences
	var qs []vC03Spec
	for i := 0; i < 2+r.Intn(2); i++ {
		q := h.randQ()
		if q.name == "." || strings.HasPrefix(vC03Lower(q.name), "loop") {
			continue
		}
		q.qtype = []uint16{1, 1, 28}[r.Intn(3)]
		qs = append(qs, vC03Spec{q: q, cd: r.Intn(4) == 0})
	}
	if len(qs) == 0 {
		return
	}
	n := 7 + r.Intn(7)
	if os.Getenv("VERIF_TIER") == "thorough" && r.Intn(2) == 0 {
		n = 14 + r.Intn(20)
	}
	for i := 0; i < n; i++ {
		s := qs[r.Intn(len(qs))]
		s.q.name = vC03MixCase(r, s.q.name)
		if r.Intn(8) == 0 {
			s.cd = !s.cd
		}
		client := h.audience()
		switch x := r.Intn(10); {
		case x < 5:
			kind := []int{0, 0, 1, 1, 2, 3, 4}[r.Intn(7)]
			bits := 0
			if client.IsValid() && r.Intn(3) != 0 {
				bits = []int{8, 16, 24, 32, 48, 56}[r.Intn(6)]
			}
			h.resolve(s, r.Intn(2) == 0, client, kind, bits)
		case x < 7:
			// a probe that must not populate anything: if it misses, the downstream fails it for ITS audience
			h.resolve(s, r.Intn(2) == 0, client, 1+r.Intn(4), 0)
		case x < 8:
			if r.Intn(2) == 0 {
				h.opClock()
				break
			}
			s.scope = client
			h.failAt(s)
		case x < 9:
			h.failWireAt(s)
		default:
			h.lookupAt(s)
		}
	}
}

// ---- background refresh: a hit inside the prefetch window queues a refresh whose answer replaces the entry

type vC03RefreshSeen struct {
	q     vC03Q
	cd    bool
	scope netip.Prefix // ECS source the refresh request carried (invalid: none)
	id    uint64
}

type vC03PrefetchQueryer struct {
	h    *vC03Hist
	seen chan vC03RefreshSeen
}

// the sub-pipeline's stand-in: an authority that tailors by subnet.  It answers the question it is
// asked, for the CD bit and the client subnet it is asked with, and says so in SCOPE.
func (p *vC03PrefetchQueryer) Query(_ context.Context, req *dns.Msg) (*dns.Msg, error) {
	q := req.Question[0]
	id := p.h.nextRefreshID.Add(1) + 500000
	seen := vC03RefreshSeen{q: vC03Q{name: q.Name, qtype: q.Qtype, qclass: q.Qclass}, cd: req.CheckingDisabled, id: id}
	resp := new(dns.Msg)
	resp.SetReply(req)
	resp.RecursionAvailable = true
	resp.Answer = []dns.RR{vC03Answer(seen.q, id)}
	if opt := req.IsEdns0(); opt != nil {
		for _, o := range opt.Option {
			if sub, ok := o.(*dns.EDNS0_SUBNET); ok {
				if a, ok2 := netip.AddrFromSlice(sub.Address); ok2 {
					if a.Is4In6() {
						a = a.Unmap()
					}
					seen.scope, _ = a.Prefix(int(sub.SourceNetmask))
					ro := new(dns.OPT)
					ro.Hdr.Name, ro.Hdr.Rrtype = ".", dns.TypeOPT
					ro.SetUDPSize(1232)
					ro.Option = []dns.EDNS0{&dns.EDNS0_SUBNET{Code: dns.EDNS0SUBNET, Family: sub.Family,
						SourceNetmask: sub.SourceNetmask, SourceScope: sub.SourceNetmask, Address: sub.Address}}
					resp.Extra = []dns.RR{ro}
				}
			}
		}
	}
	p.seen <- seen
	return resp, nil
}

func (h *vC03Hist) prefetchHistory() {
	r := h.r
	pq := &vC03PrefetchQueryer{h: h, seen: make(chan vC03RefreshSeen, 16)}
	h.c.SetPrefetchQueryer(pq)
	var specs []vC03Spec
	for i := 0; i < 2+r.Intn(2); i++ {
		s := h.randSpec()
		if r.Intn(3) != 0 {
			s.scope = netip.Prefix{}
		}
		id := h.setAnswer(s, s, "genuine")
		h.stored = append(h.stored, vC03Stored{id: id, ident: s, key: s, keyHash: h.keyOf(s)})
		specs = append(specs, s)
	}
	n := 5 + r.Intn(6)
	for i := 0; i < n; i++ {
		s := specs[r.Intn(len(specs))]
		s.q.name = vC03MixCase(r, s.q.name)
		if r.Intn(3) == 0 { // age the entry into its refresh window (only the stored instant moves)
			if e, ok := h.c.positive.Get(h.keyOf(s)); ok && !e.prefetch.Load() {
				e.stored = time.Now().Add(-e.ttl * 9 / 10)
			}
		}
		mode := []int{0, 1, 2, 2}[r.Intn(4)]
		if !s.scope.IsValid() && mode == 1 {
			mode = 2
		}
		h.serve(s, r.Intn(2) == 0, mode)
		if !h.prefetchCollect(pq) {
			return
		}
	}
	// probes from every audience after the refreshes
	for _, s := range specs {
		s.q.name = vC03MixCase(r, s.q.name)
		h.serve(s, r.Intn(2) == 0, 0)
		h.serve(s, r.Intn(2) == 0, 2)
	}
}

// collect every refresh the last request queued (at most one per entry): wait for the claim to clear;
// false = the history is inconclusive
func (h *vC03Hist) prefetchCollect(pq *vC03PrefetchQueryer) bool {
	{
		var due *CacheEntry
		deadline := time.Now().Add(3 * time.Second)
		for {
			pending := false
			for _, st := range h.stored {
				if e := h.ptr[st.id]; e != nil && e.prefetch.Load() {
					pending = true
					due = e
					if e.scoped() {
						h.failf("a refresh was claimed for the scoped entry #%d", st.id)
					}
				}
			}
			if !pending {
				break
			}
			if time.Now().After(deadline) {
				h.incon = true
				return false
			}
			time.Sleep(200 * time.Microsecond)
		}
		_ = due
		for len(pq.seen) > 0 {
			seen := <-pq.seen
			// the entry the refresh was for: the one whose question / partition the refresh request names
			var old *vC03Stored
			for j := len(h.stored) - 1; j >= 0; j-- {
				st := &h.stored[j]
				if vC03Lower(st.ident.q.name) == vC03Lower(seen.q.name) && st.ident.q.qtype == seen.q.qtype && st.ident.q.qclass == seen.q.qclass &&
					st.ident.cd == seen.cd && !st.neg && !st.replaced && !normalizeKeyScope(st.ident.scope).IsValid() {
					old = st
					break
				}
			}
			if old == nil {
				h.failf("a refresh for %v cd=%v was issued but no stored entry has that question", seen.q, seen.cd)
				continue
			}
			ok := false
			if e, found := h.c.positive.Get(old.keyHash); found {
				if got, ok2 := vC03AnswerID(e.storedMsg()); ok2 && got == seen.id {
					ok = true
					h.ptr[seen.id] = e
				}
			}
			if seen.scope.IsValid() && !old.ident.scope.IsValid() {
				h.failf("the refresh of the shared entry #%d went upstream with the client subnet %v", old.id, seen.scope)
			}
			h.ops = append(h.ops, fmt.Sprintf("OpRefresh %s %d %s %s %s %d %s", h.keysrc(old.key), old.id, seen.q.coq(), vC03Bool(seen.cd), vC03Scope(seen.scope), seen.id, vC03Bool(ok)))
			sc := "-"
			if seen.scope.IsValid() {
				sc = seen.scope.String()
			}
			h.desc = append(h.desc, fmt.Sprintf("refresh of #%d key{%v}: upstream asked %v cd=%v ecs=%s answered #%d -> swapped=%v", old.id, old.key, seen.q, seen.cd, sc, seen.id, ok))
			if ok {
				old.replaced = true
				h.stored = append(h.stored, vC03Stored{id: seen.id, ident: old.ident, key: old.key, keyHash: old.keyHash})
			}
		}
	}
	return true
}

// ---- the decoded-path chase (additionalAnswer) with sub-queries answered from the store

type vC03StoreQueryer struct{ c *Cache }

func (q vC03StoreQueryer) Query(_ context.Context, req *dns.Msg) (*dns.Msg, error) {
	if m, ok := q.c.store.Get(req); ok {
		return m, nil
	}
	return nil, middleware.ErrNoResponse
}

func (h *vC03Hist) serveMsgChase(s vC03Spec) {
	req := vC03Req(s.q, s.cd)
	if h.r.Intn(2) == 0 {
		req.SetEdns0(1232, h.r.Intn(2) == 0)
	}
	reached := false
	terminal := middleware.HandlerFunc(func(_ context.Context, _ *middleware.Chain) { reached = true })
	writer := mock.NewWriter("udp", "192.0.2.7:53000")
	ch := middleware.NewChain([]middleware.Handler{h.edns, h.c, terminal})
	ch.Reset(writer, req)
	ch.Next(context.Background())
	var ids []uint64
	if !reached && writer.Written() {
		m := writer.Msg()
		if m != nil && m.Rcode == dns.RcodeServerFailure {
			// an alias of the chain points back at the question (any spelling): the reply serves nothing
			if len(m.Answer) != 0 {
				h.failf("msg-chase request %v: SERVFAIL reply carries %d answer records", s, len(m.Answer))
			}
			ids = []uint64{0}
		} else if m == nil || m.Rcode != dns.RcodeSuccess {
			h.failf("msg-chase request %v answered %v", s, m)
		} else {
			ids = h.chainIDs(m)
			if len(ids) > 0 {
				h.hits++
			}
		}
	} else if !reached {
		h.failf("msg-chase request %v: nothing written and the next handler not reached", s)
	}
	var sid []string
	for _, id := range ids {
		sid = append(sid, strconv.FormatUint(id, 10))
	}
	h.ops = append(h.ops, fmt.Sprintf("OpServeMsgChase %s %s [%s]%%N", s.q.coq(), vC03Bool(s.cd), strings.Join(sid, ";")))
	h.desc = append(h.desc, fmt.Sprintf("serve-chase[msg] %v cd=%v -> %v", s.q, s.cd, ids))
}

// ids of the stored responses whose records make up a reply: an alias record names its entry in
// its target ("c<id>.…"), every other record carries its id in its RDATA
func (h *vC03Hist) chainIDs(m *dns.Msg) []uint64 {
	var ids []uint64
	for _, rr := range m.Answer {
		var id uint64
		ok := false
		switch x := rr.(type) {
		case *dns.CNAME:
			_ = x
			continue // the alias entry's id rides in the TXT record next to it
		default:
			one := new(dns.Msg)
			one.Answer = []dns.RR{rr}
			id, ok = vC03AnswerID(one)
		}
		if !ok {
			h.failf("reply holds an unrecognisable record %v", rr)
			continue
		}
		if len(ids) == 0 || ids[len(ids)-1] != id {
			ids = append(ids, id)
		}
	}
	return ids
}

// alias chains whose hops exist in BOTH CD partitions (sometimes also under the other type) with
// different stored responses, over ONE chain of names; the client of each partition must get its own
// partition's chain.  Alias entries carry their id in a TXT record next to the CNAME.
func (h *vC03Hist) msgChaseHistory(clientClass uint16) {
	r := h.r
	h.c.SetQueryer(vC03StoreQueryer{c: h.c})
	tld := h.names[0]
	for sc := 0; sc < 1+r.Intn(2); sc++ {
		qtype := []uint16{1, 28}[r.Intn(2)]
		qclass := clientClass
		var start string
		for i := 0; i < 8 && (start == "" || start == "."); i++ {
			start = h.names[r.Intn(len(h.names))]
		}
		if start == "" || start == "." {
			return
		}
		hops := 1 + r.Intn(3)
		targets := make([]string, hops)
		for i := range targets {
			targets[i] = fmt.Sprintf("t%d-%d.%s", sc, i, tld)
		}
		type part struct {
			cd bool
			qt uint16
			qc uint16
		}
		parts := []part{{false, qtype, qclass}, {true, qtype, qclass}}
		if r.Intn(3) == 0 {
			parts = append(parts, part{r.Intn(2) == 0, map[uint16]uint16{1: 28, 28: 1}[qtype], qclass})
		}
		// the same chain in the other class (a chase that left the client's class would find these)
		other := map[uint16]uint16{1: 3, 3: 1}[qclass]
		if clientClass != 1 || r.Intn(3) == 0 {
			parts = append(parts, part{false, qtype, other}, part{true, qtype, other})
		}
		r.Shuffle(len(parts), func(i, j int) { parts[i], parts[j] = parts[j], parts[i] })
		for _, pt := range parts {
			depth := hops + 1 // hops aliases + the terminal
			if r.Intn(4) == 0 {
				depth = r.Intn(hops + 1) // a partition whose chain stops early
			}
			// one partition in five closes its chain into a loop: its last alias points back at the start
			// name, re-spelled in another letter case (the self-alias test folds case since fix a4faf69)
			loopBack := depth > 0 && r.Intn(5) == 0
			cur := start
			for i := 0; i < hops && i < depth; i++ {
				sp := vC03Spec{q: vC03Q{name: vC03MixCase(r, cur), qtype: pt.qt, qclass: pt.qc}, cd: pt.cd}
				id := h.nextID
				h.nextID++
				tgt := vC03MixCase(r, targets[i])
				if loopBack && (i == hops-1 || i == depth-1) {
					tgt = vC03MixCase(r, start)
					depth = i + 1 // nothing is stored beyond the loop
				}
				h.setAliasTagged(sp, sp, tgt, id, true)
				cur = targets[i]
			}
			if depth > hops {
				sp := vC03Spec{q: vC03Q{name: vC03MixCase(r, cur), qtype: pt.qt, qclass: pt.qc}, cd: pt.cd}
				h.setAnswer(sp, sp, "genuine")
			}
		}
		for _, pt := range parts {
			if pt.qc != clientClass {
				continue
			}
			h.serveMsgChase(vC03Spec{q: vC03Q{name: vC03MixCase(r, start), qtype: pt.qt, qclass: pt.qc}, cd: pt.cd})
		}
	}
}

// ---- the cache-contained alias chase on the wire path

func (h *vC03Hist) setAlias(key, ident vC03Spec, target string, id uint64) {
	h.setAliasTagged(key, ident, target, id, false)
}

func (h *vC03Hist) setAliasTagged(key, ident vC03Spec, target string, id uint64, tag bool) {
	k := h.keyOf(key)
	req := vC03Req(ident.q, ident.cd)
	resp := new(dns.Msg)
	resp.SetReply(req)
	resp.RecursionAvailable = true
	resp.CheckingDisabled = ident.cd
	resp.Answer = []dns.RR{&dns.CNAME{Hdr: dns.RR_Header{Name: ident.q.name, Rrtype: dns.TypeCNAME, Class: ident.q.qclass, Ttl: 3600}, Target: target}}
	if tag {
		resp.Answer = append(resp.Answer, &dns.TXT{Hdr: dns.RR_Header{Name: ident.q.name, Rrtype: dns.TypeTXT, Class: ident.q.qclass, Ttl: 3600}, Txt: []string{strconv.FormatUint(id, 10)}})
	}
	plain := h.shape(resp, h.nextShape)
	h.nextShape = 0
	h.c.store.SetFromResponseWithKey(k, resp, time.Time{}, 0)
	e, ok := h.c.positive.Get(k)
	if !ok {
		h.failf("alias entry stored under %v is not in the positive cache", key)
		return
	}
	if e.wireServe&wireEligible == 0 || e.wireServe&wireChaseSafe != 0 {
		h.failf("alias entry %v has serve flags %b", ident, e.wireServe)
	}
	if !plain {
		h.ptr[id] = e
		h.ops = append(h.ops, fmt.Sprintf("OpSetAlias %s %s %s %s %d false", h.keysrc(key), ident.q.coq(), vC03Bool(ident.cd), vC03Bytes(vC03WireOf(target)), id))
		h.desc = append(h.desc, fmt.Sprintf("alias#%d[not plain] ident{%v} key{%v} -> %q", id, ident, key, target))
		return
	}
	h.ptr[id] = e
	h.ops = append(h.ops, fmt.Sprintf("OpSetAlias %s %s %s %s %d true", h.keysrc(key), ident.q.coq(), vC03Bool(ident.cd), vC03Bytes(vC03WireOf(target)), id))
	h.desc = append(h.desc, fmt.Sprintf("alias#%d ident{%v} key{%v} -> %q", id, ident, key, target))
}

// give a response one of the shapes the wire chase refuses to compose from; returns whether it stayed plain
//
//	1 authority record, 2 additional record, 3 a record type the composer cannot re-encode
func (h *vC03Hist) shape(resp *dns.Msg, kind int) bool {
	q := resp.Question[0]
	switch kind {
	case 1:
		resp.Ns = []dns.RR{&dns.NS{Hdr: dns.RR_Header{Name: h.names[0], Rrtype: dns.TypeNS, Class: q.Qclass, Ttl: 3600}, Ns: "ns." + h.names[0]}}
	case 2:
		resp.Extra = []dns.RR{&dns.A{Hdr: dns.RR_Header{Name: "ns." + h.names[0], Rrtype: dns.TypeA, Class: q.Qclass, Ttl: 3600}, A: net.IPv4(192, 0, 2, 53)}}
	case 3:
		resp.Answer = append(resp.Answer, &dns.MX{Hdr: dns.RR_Header{Name: q.Name, Rrtype: dns.TypeMX, Class: q.Qclass, Ttl: 3600}, Preference: 1, Mx: "mx." + h.names[0]})
	default:
		return true
	}
	return false
}

// a chain hop that is not a plain terminal: kind 1-3 as shape(), 4 NXDOMAIN with the record,
// 5 neither a record of the type nor an alias (only a TXT record)
func (h *vC03Hist) setHop(sp vC03Spec, kind int) uint64 {
	id := h.nextID
	h.nextID++
	k := h.keyOf(sp)
	resp := vC03Resp(sp.q, sp.cd, id)
	hasq, plain := true, true
	switch kind {
	case 4:
		resp.Rcode = dns.RcodeNameError
		plain = false
	case 5:
		resp.Answer = []dns.RR{&dns.TXT{Hdr: dns.RR_Header{Name: sp.q.name, Rrtype: dns.TypeTXT, Class: sp.q.qclass, Ttl: 3600}, Txt: []string{strconv.FormatUint(id, 10)}}}
		hasq = sp.q.qtype == dns.TypeTXT
	default:
		plain = h.shape(resp, kind)
	}
	h.c.store.SetFromResponseWithKey(k, resp, time.Time{}, 0)
	if e, ok := h.c.positive.Get(k); ok {
		h.ptr[id] = e
	} else {
		h.failf("hop stored under %v is not in the positive cache", sp)
	}
	h.ops = append(h.ops, fmt.Sprintf("OpSetHop %s %s %s %d %s %s", h.keysrc(sp), sp.q.coq(), vC03Bool(sp.cd), id, vC03Bool(hasq), vC03Bool(plain)))
	h.desc = append(h.desc, fmt.Sprintf("hop#%d[shape %d: has-type=%v plain=%v] %v", id, kind, hasq, plain, sp))
	return id
}

func (h *vC03Hist) setAnswer(key, ident vC03Spec, how string) uint64 {
	id := h.nextID
	h.nextID++
	k := h.keyOf(key)
	resp := vC03Resp(ident.q, ident.cd, id)
	if ident.scope.IsValid() {
		h.c.store.SetFromResponseScoped(k, resp, ident.scope, time.Time{}, 0)
	} else {
		h.c.store.SetFromResponseWithKey(k, resp, time.Time{}, 0)
	}
	if e, ok := h.c.positive.Get(k); ok {
		h.ptr[id] = e
	} else {
		h.failf("entry stored under %v is not in the positive cache", key)
	}
	if how != "genuine" {
		h.forged++
	}
	h.ops = append(h.ops, fmt.Sprintf("OpSet false %s %s %s %s %d", h.keysrc(key), ident.q.coq(), vC03Bool(ident.cd), vC03Scope(ident.scope), id))
	h.desc = append(h.desc, fmt.Sprintf("set#%d[%s] ident{%v} key{%v}", id, how, ident, key))
	return id
}

func (h *vC03Hist) serveChase(s vC03Spec) {
	w := vC03WireOf(s.q.name)
	if w == nil {
		return
	}
	req := vC03Req(s.q, s.cd)
	if h.r.Intn(2) == 0 {
		req.SetEdns0(1232, h.r.Intn(2) == 0)
	}
	raw, err := req.Pack()
	if err != nil {
		return
	}
	wr := new(middleware.Request)
	if !wr.ParseWire(raw, time.Now(), nil) {
		return
	}
	reached := false
	terminal := middleware.HandlerFunc(func(_ context.Context, _ *middleware.Chain) { reached = true })
	writer := mock.NewWriter("udp", "192.0.2.7:53000")
	ch := middleware.NewChain([]middleware.Handler{h.edns, h.c, terminal})
	ch.ResetWire(writer, wr)
	ch.AllowDirectPack()
	before := wireChaseServed.Value()
	ch.Next(context.Background())
	var ids []uint64
	switch {
	case reached:
	case writer.Written():
		m := writer.Msg()
		if m == nil || m.Rcode != dns.RcodeSuccess {
			h.failf("chase request %v answered rcode %v", s, m)
			break
		}
		for _, rr := range m.Answer {
			var id uint64
			ok := false
			switch x := rr.(type) {
			case *dns.CNAME:
				if strings.HasPrefix(vC03Lower(x.Target), "c") {
					lbl := dns.SplitDomainName(x.Target)[0]
					v, e2 := strconv.ParseUint(lbl[1:], 10, 64)
					id, ok = v, e2 == nil
				}
			default:
				one := new(dns.Msg)
				one.Answer = []dns.RR{rr}
				id, ok = vC03AnswerID(one)
			}
			if !ok {
				h.failf("chase reply holds an unrecognisable record %v", rr)
				continue
			}
			if len(ids) == 0 || ids[len(ids)-1] != id {
				ids = append(ids, id)
			}
		}
		if len(ids) > 0 {
			h.hits++
		}
	default:
		h.failf("chase request %v: nothing written and the next handler not reached", s)
	}
	var sid []string
	for _, id := range ids {
		sid = append(sid, strconv.FormatUint(id, 10))
	}
	h.ops = append(h.ops, fmt.Sprintf("OpServeChase %s %s %s [%s]%%N", vC03Bytes(w), s.q.coq(), vC03Bool(s.cd), strings.Join(sid, ";")))
	h.desc = append(h.desc, fmt.Sprintf("serve-chase[wire] %v cd=%v -> %v (composed on the wire: %v)", s.q, s.cd, ids, wireChaseServed.Value() > before))
}

// an alias chain start -> c<id1> (-> c<id2>) -> terminal, each entry genuine or forged in one dimension
func (h *vC03Hist) chaseScenario() {
	r := h.r
	tld := h.names[0]
	qtype := []uint16{1, 28}[r.Intn(2)]
	qclass := []uint16{1, 1, 1, 3}[r.Intn(4)]
	cd := r.Intn(3) == 0
	var start string
	for i := 0; i < 8 && (start == "" || start == "."); i++ {
		start = h.names[r.Intn(len(h.names))]
	}
	if start == "" || start == "." {
		return
	}
	startSpec := vC03Spec{q: vC03Q{name: vC03MixCase(r, start), qtype: qtype, qclass: qclass}, cd: cd}
	cur := startSpec
	hops := 1 + r.Intn(2)
	for i := 0; i < hops; i++ {
		id := h.nextID
		h.nextID++
		target := fmt.Sprintf("c%d.%s", id, tld)
		if r.Intn(2) == 0 {
			target = "C" + target[1:]
		}
		key, ident := cur, cur
		if i > 0 && r.Intn(5) == 0 { // a forged intermediate alias: filed under the hop's key, admitted for something else
			ident, _ = h.mutate(key)
			ident.scope = netip.Prefix{}
		} else if r.Intn(7) == 0 { // an alias body the composer must refuse (authority / additional records)
			h.nextShape = 1 + r.Intn(2)
		}
		h.setAlias(key, ident, target, id)
		cur = vC03Spec{q: vC03Q{name: vC03MixCase(r, target), qtype: qtype, qclass: qclass}, cd: cd}
	}
	key, ident, how := cur, cur, "genuine"
	if x := r.Intn(8); x < 2 {
		h.setHop(cur, 1+r.Intn(5)) // a genuine terminal the chase's gates must turn away
	} else {
		if x < 6 {
			ident, how = h.mutate(key)
			if how == "same" {
				how = "genuine"
			}
		}
		h.setAnswer(key, ident, how)
	}
	if r.Intn(6) == 0 {
		h.opRemoveKey(cur)
	}
	h.serveChase(startSpec)
	startSpec.q.name = vC03MixCase(r, startSpec.q.name)
	if r.Intn(3) == 0 {
		startSpec.cd = !startSpec.cd
	}
	h.serveChase(startSpec)
}

func (h *vC03Hist) opRemoveKey(key vC03Spec) {
	h.c.positive.Remove(h.keyOf(key))
	h.ops = append(h.ops, fmt.Sprintf("OpRemove false %s", h.keysrc(key)))
	h.desc = append(h.desc, fmt.Sprintf("remove key{%v}", key))
}

func vC03CutID(m *dns.Msg) (uint64, bool) {
	if m == nil {
		return 0, false
	}
	for _, rr := range m.Ns {
		if soa, ok := rr.(*dns.SOA); ok {
			return uint64(soa.Serial), true
		}
	}
	return 0, false
}

func (h *vC03Hist) classify(m *dns.Msg) string {
	switch {
	case m == nil:
		return "BMiss"
	case m.Rcode == dns.RcodeSuccess:
		if id, ok := vC03AnswerID(m); ok {
			h.hits++
			return fmt.Sprintf("(BHit %d)", id)
		}
	case m.Rcode == dns.RcodeNameError:
		if id, ok := vC03CutID(m); ok {
			return fmt.Sprintf("(BCut %d)", id)
		}
	case m.Rcode == dns.RcodeServerFailure:
		return "BFail"
	}
	h.failf("unclassifiable reply rcode=%d answers=%d", m.Rcode, len(m.Answer))
	return "BMiss"
}

// the spec a lookup should aim at: mostly the identities and the keys in play, so forged placements get probed
func (h *vC03Hist) lookupSpec() vC03Spec {
	r := h.r
	if len(h.target) > 0 && r.Intn(3) != 0 {
		s := h.target[0]
		h.target = h.target[1:]
		s.q.name = vC03MixCase(r, s.q.name)
		return s
	}
	if len(h.hot) > 0 && r.Intn(2) == 0 {
		s := h.hot[len(h.hot)-1-r.Intn(min(len(h.hot), 3))]
		// the name itself or a name of the universe at or below it (or a near miss)
		var below []string
		for _, n := range h.names {
			if strings.HasSuffix(vC03Lower(n), vC03Lower(s.q.name)) {
				below = append(below, n)
			}
		}
		if len(below) > 0 && r.Intn(4) != 0 {
			s.q.name = below[r.Intn(len(below))]
		}
		s.q.name = vC03MixCase(r, s.q.name)
		if r.Intn(3) == 0 {
			s, _ = h.mutate(s)
		}
		return s
	}
	if len(h.stored) > 0 && r.Intn(6) != 0 {
		st := h.stored[len(h.stored)-1-r.Intn(min(len(h.stored), 5))]
		s := st.ident
		if st.key != st.ident {
			h.forgedLk++
			if r.Intn(2) == 0 {
				s = st.key
			}
		}
		s.q.name = vC03MixCase(r, s.q.name)
		if r.Intn(6) == 0 {
			s, _ = h.mutate(s)
		}
		return s
	}
	return h.randSpec()
}

func (h *vC03Hist) opServe() {
	s := h.lookupSpec()
	mode := 0
	if s.scope.IsValid() && h.r.Intn(4) != 0 {
		mode = 1
	} else if h.r.Intn(3) == 0 {
		mode = 2
	}
	h.serve(s, h.r.Intn(2) == 0, mode)
}

// one request for s through the edns+cache pipeline.  mode 0: no ECS; 1: ECS source derived
// from s.scope (mostly inside it); 2: an unrelated ECS source
func (h *vC03Hist) serve(s vC03Spec, wireborn bool, mode int) {
	r := h.r
	w := vC03WireOf(s.q.name)
	if w == nil {
		return
	}
	var client netip.Prefix
	if mode == 1 && s.scope.IsValid() {
		a := s.scope.Addr().AsSlice()
		for i := range a { // fill host bits
			a[i] |= byte(r.Intn(256)) &^ vC03MaskByte(s.scope.Bits(), i)
		}
		addr, _ := netip.AddrFromSlice(a)
		extra := r.Intn(addr.BitLen() - s.scope.Bits() + 1)
		if r.Intn(5) == 0 && s.scope.Bits() > 0 { // shorter than the scope: must not see it
			client = netip.PrefixFrom(addr, s.scope.Bits()-1-r.Intn(s.scope.Bits()))
		} else {
			client = netip.PrefixFrom(addr, s.scope.Bits()+extra)
		}
	} else if mode == 2 {
		client = vC03PickClient(r)
	}
	h.serveClient(s, wireborn, client)
}

// one request for s through the edns+cache pipeline with the given ECS source (invalid: none)
func (h *vC03Hist) serveClient(s vC03Spec, wireborn bool, client netip.Prefix) {
	r := h.r
	w := vC03WireOf(s.q.name)
	if w == nil {
		return
	}
	req := vC03Req(s.q, s.cd)
	if client.IsValid() || r.Intn(3) == 0 {
		req.SetEdns0(1232, r.Intn(2) == 0)
		if client.IsValid() {
			fam := uint16(2)
			if client.Addr().Is4() {
				fam = 1
			}
			req.IsEdns0().Option = append(req.IsEdns0().Option, &dns.EDNS0_SUBNET{Code: dns.EDNS0SUBNET, Family: fam,
				SourceNetmask: uint8(client.Bits()), Address: net.IP(client.Addr().AsSlice())})
		}
	}
	for i := 0; i < len(s.q.name); i++ {
		if s.q.name[i] >= 0x80 {
			wireborn = false // a wire-born name never holds a raw high byte: the decoder escapes it
		}
	}
	reached := false
	terminal := middleware.HandlerFunc(func(_ context.Context, _ *middleware.Chain) { reached = true })
	writer := mock.NewWriter("udp", "192.0.2.7:53000")
	ch := middleware.NewChain([]middleware.Handler{h.edns, h.c, terminal})
	if wireborn {
		raw, err := req.Pack()
		if err != nil {
			return
		}
		wr := new(middleware.Request)
		if !wr.ParseWire(raw, time.Now(), nil) {
			wireborn = false
			ch.Reset(writer, req)
		} else {
			ch.ResetWire(writer, wr)
			ch.AllowDirectPack()
		}
	} else {
		ch.Reset(writer, req)
	}
	ch.Next(context.Background())
	var out string
	switch {
	case reached && writer.Written():
		h.failf("request %v both missed and was answered", s)
		out = "BMiss"
	case reached:
		out = "BMiss"
	case writer.Written():
		m := writer.Msg()
		out = h.classify(m)
		if m != nil && len(m.Question) == 1 && (m.Question[0].Name != s.q.name || m.Question[0].Qtype != s.q.qtype || m.Question[0].Qclass != s.q.qclass) {
			h.failf("reply question %v differs from the request's %v", m.Question[0], s.q)
		}
	default:
		h.failf("request %v: nothing written and the next handler not reached", s)
		out = "BMiss"
	}
	h.ops = append(h.ops, fmt.Sprintf("OpServe %s %s %s %s %s %s", vC03Bool(wireborn), vC03Bytes(w), s.q.coq(), vC03Bool(s.cd), vC03Scope(client), out))
	cl := "-"
	if client.IsValid() {
		cl = client.String()
	}
	h.desc = append(h.desc, fmt.Sprintf("serve[%s] %v cd=%v ecs=%s -> %s", map[bool]string{true: "wire", false: "msg"}[wireborn], s.q, s.cd, cl, out))
}

func vC03MaskByte(bits, i int) byte {
	rem := bits - 8*i
	if rem >= 8 {
		return 0xff
	}
	if rem <= 0 {
		return 0
	}
	return byte(0xff << uint(8-rem))
}

func (h *vC03Hist) opLookup() { h.lookupAt(h.lookupSpec()) }

func (h *vC03Hist) lookupAt(s vC03Spec) {
	e, ok := h.c.store.Lookup(vC03Req(s.q, s.cd))
	var id uint64
	if ok {
		var ok2 bool
		if id, ok2 = vC03AnswerID(e.storedMsg()); !ok2 {
			h.failf("Store.Lookup returned an entry without a recognisable answer")
		}
		h.hits++
	}
	h.ops = append(h.ops, fmt.Sprintf("OpLookup %s %s %s", s.q.coq(), vC03Bool(s.cd), vC03OptN(id, ok)))
	h.desc = append(h.desc, fmt.Sprintf("Store.Lookup %v cd=%v -> %v #%d", s.q, s.cd, ok, id))
}

func (h *vC03Hist) opGet() { h.getAt(h.lookupSpec()) }

// resolver-internal lookups inside a request tree: an outer client request (with CD=1 and / or an EDNS Client
// Subnet option, or neither) for a name nothing is cached for misses in the edns+cache pipeline; the handler below
// the cache — where the resolver sits — then asks Store.GetWithContext, with the context the cache handed down,
// for s.q in BOTH checking-disabled partitions, as Resolver.subQuery does for its DS / DNSKEY lookups.
func (h *vC03Hist) getTreeAt(s vC03Spec) {
	h.getTreeAtWith(s, h.r.Intn(2) == 0, h.r.Intn(2) == 0)
}

func (h *vC03Hist) getTreeAtWith(s vC03Spec, tcd, tecs bool) {
	r := h.r
	h.treeN++
	outer := new(dns.Msg)
	outer.SetQuestion(fmt.Sprintf("tree%d.vc03-outer-%d.", h.treeN, r.Intn(1000)), dns.TypeA)
	outer.RecursionDesired = true
	outer.CheckingDisabled = tcd
	if tecs {
		outer.SetEdns0(1232, r.Intn(2) == 0)
		cl := vC03PickClient(r)
		if !cl.IsValid() {
			cl = netip.MustParsePrefix("10.1.2.0/24")
		}
		fam := uint16(2)
		if cl.Addr().Is4() {
			fam = 1
		}
		outer.IsEdns0().Option = append(outer.IsEdns0().Option, &dns.EDNS0_SUBNET{Code: dns.EDNS0SUBNET, Family: fam,
			SourceNetmask: uint8(cl.Bits()), Address: net.IP(cl.Addr().AsSlice())})
	}
	type res struct {
		cd  bool
		out string
	}
	var got []res
	reached := false
	terminal := middleware.HandlerFunc(func(ctx context.Context, ch *middleware.Chain) {
		reached = true
		for _, cd := range []bool{s.cd, !s.cd} {
			m, ok := h.c.store.GetWithContext(ctx, vC03Req(s.q, cd))
			out := "BMiss"
			if ok {
				out = h.classify(m)
			}
			got = append(got, res{cd, out})
		}
		ch.Cancel()
	})
	writer := mock.NewWriter("udp", "192.0.2.7:53000")
	ch := middleware.NewChain([]middleware.Handler{h.edns, h.c, terminal})
	ch.Reset(writer, outer)
	ch.Next(context.Background())
	if !reached {
		// the outer name was answered from the cache (a root-zone failure, a covering cut): no tree to look into
		h.desc = append(h.desc, fmt.Sprintf("tree lookup skipped: outer request %v did not miss", outer.Question[0]))
		return
	}
	for _, g := range got {
		h.ops = append(h.ops, fmt.Sprintf("OpGetTree %s %s %s %s %s", vC03Bool(tcd), vC03Bool(tecs), s.q.coq(), vC03Bool(g.cd), g.out))
		h.desc = append(h.desc, fmt.Sprintf("Store.GetWithContext[tree cd=%v ecs=%v] %v cd=%v -> %s", tcd, tecs, s.q, g.cd, g.out))
	}
}

func (h *vC03Hist) getAt(s vC03Spec) {
	if h.r.Intn(2) == 0 {
		h.getTreeAt(s)
		return
	}
	h.getPlainAt(s)
}

func (h *vC03Hist) getPlainAt(s vC03Spec) {
	m, ok := h.c.store.Get(vC03Req(s.q, s.cd))
	out := "BMiss"
	if ok {
		out = h.classify(m)
	}
	h.ops = append(h.ops, fmt.Sprintf("OpGet %s %s %s", s.q.coq(), vC03Bool(s.cd), out))
	h.desc = append(h.desc, fmt.Sprintf("Store.Get %v cd=%v -> %s", s.q, s.cd, out))
}

func (h *vC03Hist) hitID(hit FailureHit) (uint64, bool) {
	var key string
	switch hit.Kind {
	case FailureKindQuestion:
		q := hit.Question
		key = fmt.Sprintf("q|%s|%d|%d|%v|%v", q.Question.Name, q.Question.Qtype, q.Question.Qclass, q.CD, q.Scope)
	case FailureKindZone:
		key = fmt.Sprintf("z|%s|%d", hit.Zone.Zone, hit.Zone.Qclass)
	}
	id, ok := h.failIDs[key]
	if !ok {
		h.failf("failure hit %+v matches nothing that was recorded", hit)
	}
	return id, ok
}

func (h *vC03Hist) opFail() {
	s := h.lookupSpec()
	if h.r.Intn(3) == 0 {
		s.q = h.relatedQ()
	}
	h.failAt(s)
}

func (h *vC03Hist) failAt(s vC03Spec) {
	hit, ok := h.c.store.LookupFailure(vC03Req(s.q, s.cd), s.scope)
	var id uint64
	if ok {
		id, _ = h.hitID(hit)
	}
	h.ops = append(h.ops, fmt.Sprintf("OpFail %s %s %s %s", s.q.coq(), vC03Bool(s.cd), vC03Scope(s.scope), vC03OptN(id, ok)))
	h.desc = append(h.desc, fmt.Sprintf("LookupFailure %v -> %v #%d", s, ok, id))
}

func (h *vC03Hist) opFailWire() { h.failWireAt(h.lookupSpec()) }

func (h *vC03Hist) failWireAt(s vC03Spec) {
	w := vC03WireOf(s.q.name)
	if w == nil {
		return
	}
	hit, ok := h.c.store.LookupFailureWire(w, s.q.qtype, s.q.qclass, s.cd)
	var id uint64
	if ok {
		id, _ = h.hitID(hit)
	}
	h.ops = append(h.ops, fmt.Sprintf("OpFailWire %s %d %d %s %s", vC03Bytes(w), s.q.qtype, s.q.qclass, vC03Bool(s.cd), vC03OptN(id, ok)))
	h.desc = append(h.desc, fmt.Sprintf("LookupFailureWire %v cd=%v -> %v #%d", s.q, s.cd, ok, id))
}

func (h *vC03Hist) opCutL() { h.cutAt(h.lookupSpec()) }

func (h *vC03Hist) cutAt(s vC03Spec) {
	ent, ok := h.c.store.LookupNXDomainCut(vC03Req(s.q, s.cd))
	var id uint64
	if ok {
		id, _ = vC03CutID(ent.msg)
	}
	h.ops = append(h.ops, fmt.Sprintf("OpCutL %s %s %s", s.q.coq(), vC03Bool(s.cd), vC03OptN(id, ok)))
	h.desc = append(h.desc, fmt.Sprintf("LookupNXDomainCut %v cd=%v -> %v #%d", s.q, s.cd, ok, id))
}

func (h *vC03Hist) opCutWire() { h.cutWireAt(h.lookupSpec()) }

func (h *vC03Hist) cutWireAt(s vC03Spec) {
	w := vC03WireOf(s.q.name)
	if w == nil {
		return
	}
	ent, ok := h.c.store.LookupNXDomainCutWire(w, s.q.qclass)
	var id uint64
	if ok {
		id, _ = vC03CutID(ent.msg)
	}
	h.ops = append(h.ops, fmt.Sprintf("OpCutWire %s %d %s", vC03Bytes(w), s.q.qclass, vC03OptN(id, ok)))
	h.desc = append(h.desc, fmt.Sprintf("LookupNXDomainCutWire %q class %d -> %v #%d", s.q.name, s.q.qclass, ok, id))
}

// the [ecs] policies histories run under: forward ceilings and min_scope per family
var vC03Policies = [][4]uint8{{32, 128, 32, 128}, {32, 128, 32, 128}, {24, 56, 24, 56}, {24, 56, 16, 48}, {32, 128, 24, 56}, {16, 32, 32, 128}}

func vC03Config(pol [4]uint8) *config.Config {
	cfg := &config.Config{CacheSize: 1024, Expire: 300}
	cfg.ECS.Enabled = true
	cfg.ECS.ForwardV4Max = pol[0]
	cfg.ECS.ForwardV6Max = pol[1]
	cfg.ECS.MinScopeV4 = pol[2]
	cfg.ECS.MinScopeV6 = pol[3]
	cfg.RecursionFirewall.FailureCacheMinTTL.Duration = 5 * time.Second
	cfg.RecursionFirewall.FailureCacheMaxTTL.Duration = 40 * time.Second
	return cfg
}

// what the edns layer leaves of a client's ECS source: clamped to the forward ceiling, masked
func (h *vC03Hist) clampClient(client netip.Prefix) netip.Prefix {
	if !client.IsValid() {
		return client
	}
	bits := client.Bits()
	max := int(h.pol[1])
	if client.Addr().Is4() {
		max = int(h.pol[0])
	}
	if bits > max {
		bits = max
	}
	p, _ := client.Addr().Prefix(bits)
	return p
}

func (h *vC03Hist) caseTerm() string {
	return fmt.Sprintf("CaseHist (mk_pol %d %d %d %d %d %d) [%s]", h.pol[0], h.pol[1], h.pol[2], h.pol[3],
		h.c.failure.initialTTL.Milliseconds(), h.c.failure.maxTTL.Milliseconds(), strings.Join(h.ops, "; "))
}

// ---- dedup followers.  A request that misses while another request for the same key is in flight waits for
// that leader and, when the leader's generation ends, re-checks the cache before resolving itself.  Whatever was
// admitted under the question's keys during the wait — the question's own answer, or a foreign entry under the very
// same key (a forged placement standing in for a 64-bit collision) — is what that re-check finds.  The history
// runs in a synctest bubble: the leader is parked inside the handler below the cache, the follower is started and
// synctest.Wait() returns once it is durably blocked on the leader's generation; then the placement is made and the
// leader released.  The follower's outcome is recorded as an ordinary message-born OpServe at the moment it woke.
var vC03T *testing.T

func (h *vC03Hist) placeAt(ident, key vC03Spec, how string) {
	id := h.nextID
	h.nextID++
	k := h.keyOf(key)
	resp := vC03Resp(ident.q, ident.cd, id)
	if ident.scope.IsValid() {
		h.c.store.SetFromResponseScoped(k, resp, ident.scope, time.Time{}, 0)
	} else {
		h.c.store.SetFromResponseWithKey(k, resp, time.Time{}, 0)
	}
	if e, ok := h.c.positive.Get(k); ok {
		h.ptr[id] = e
	} else {
		h.failf("entry stored under %v is not in the positive cache", key)
	}
	if how != "genuine" {
		h.forged++
	}
	h.stored = append(h.stored, vC03Stored{id: id, ident: ident, key: key, keyHash: k})
	h.ops = append(h.ops, fmt.Sprintf("OpSet false %s %s %s %s %d", h.keysrc(key), ident.q.coq(), vC03Bool(ident.cd), vC03Scope(ident.scope), id))
	h.desc = append(h.desc, fmt.Sprintf("set#%d[%s, while a follower waits] ident{%v} key{%v}", id, how, ident, key))
}

func (h *vC03Hist) followReq(s vC03Spec, client netip.Prefix) *dns.Msg {
	req := vC03Req(s.q, s.cd)
	if client.IsValid() {
		req.SetEdns0(1232, false)
		fam := uint16(2)
		if client.Addr().Is4() {
			fam = 1
		}
		req.IsEdns0().Option = append(req.IsEdns0().Option, &dns.EDNS0_SUBNET{Code: dns.EDNS0SUBNET, Family: fam,
			SourceNetmask: uint8(client.Bits()), Address: net.IP(client.Addr().AsSlice())})
	}
	return req
}

func (h *vC03Hist) followRound() {
	r := h.r
	s := h.randSpec()
	// the audience both requests come from: none, or an ECS source inside the scope an answer would be filed under
	var client netip.Prefix
	if s.scope.IsValid() && r.Intn(2) == 0 {
		client = netip.PrefixFrom(s.scope.Addr(), s.scope.Bits()+r.Intn(s.scope.Addr().BitLen()-s.scope.Bits()+1))
	}
	h.followWith(s, client, func() {
		// what lands in the cache while the follower waits
		shared := vC03Spec{q: s.q, cd: s.cd}
		scopedKey := vC03Spec{q: s.q, cd: s.cd, scope: s.scope}
		switch r.Intn(6) {
		case 0: // the question's own answer for the shared audience
			h.placeAt(shared, shared, "genuine")
		case 1: // its own answer scoped to the client's subnet
			if s.scope.IsValid() {
				h.placeAt(scopedKey, scopedKey, "genuine")
			} else {
				h.placeAt(shared, shared, "genuine")
			}
		case 2, 3, 4: // a foreign entry (one dimension changed) under the question's shared key
			ident, how := h.mutate(shared)
			if how == "same" {
				how = "genuine"
			}
			h.placeAt(ident, shared, how)
		default: // a foreign entry under the scoped key the client's probe reaches
			ident, how := h.mutate(scopedKey)
			if how == "same" {
				how = "genuine"
			}
			h.placeAt(ident, scopedKey, how)
		}
	})
}

// leader and follower for s from the audience `client`; place() runs while the follower waits.  Must run inside a
// synctest bubble (the cache included).
func (h *vC03Hist) followWith(s vC03Spec, client netip.Prefix, place func()) {
	w := vC03WireOf(s.q.name)
	if w == nil {
		return
	}
	for i := 0; i < len(s.q.name); i++ {
		if s.q.name[i] >= 0x80 {
			return
		}
	}
	emit := func(who string, reached bool, writer *mock.Writer) {
		out := "BMiss"
		switch {
		case reached && writer.Written():
			h.failf("%s %v both missed and was answered", who, s)
		case reached:
		case writer.Written():
			out = h.classify(writer.Msg())
		default:
			h.failf("%s %v: nothing written and the next handler not reached", who, s)
		}
		h.ops = append(h.ops, fmt.Sprintf("OpServe false %s %s %s %s %s", vC03Bytes(w), s.q.coq(), vC03Bool(s.cd), vC03Scope(client), out))
		cl := "-"
		if client.IsValid() {
			cl = client.String()
		}
		h.desc = append(h.desc, fmt.Sprintf("serve[msg, %s] %v cd=%v ecs=%s -> %s", who, s.q, s.cd, cl, out))
	}
	release := make(chan struct{})
	leaderIn := make(chan struct{})
	leaderReached := false
	leaderWriter := mock.NewWriter("udp", "192.0.2.7:53000")
	leaderDone := make(chan struct{})
	go func() {
		defer close(leaderDone)
		terminal := middleware.HandlerFunc(func(_ context.Context, _ *middleware.Chain) {
			leaderReached = true
			close(leaderIn)
			<-release
		})
		ch := middleware.NewChain([]middleware.Handler{h.edns, h.c, terminal})
		ch.Reset(leaderWriter, h.followReq(s, client))
		ch.Next(context.Background())
	}()
	select {
	case <-leaderIn:
	case <-leaderDone:
	}
	if !leaderReached {
		// answered from the cache: an ordinary observation, no wait to join
		<-leaderDone
		emit("leader", false, leaderWriter)
		return
	}
	emit("leader", true, leaderWriter)
	followerReached := false
	followerWriter := mock.NewWriter("udp", "192.0.2.8:53001")
	followerDone := make(chan struct{})
	go func() {
		defer close(followerDone)
		terminal := middleware.HandlerFunc(func(_ context.Context, _ *middleware.Chain) { followerReached = true })
		ch := middleware.NewChain([]middleware.Handler{h.edns, h.c, terminal})
		ch.Reset(followerWriter, h.followReq(s, client))
		ch.Next(context.Background())
	}()
	synctest.Wait() // the follower is blocked on the leader's generation (or has finished)
	select {
	case <-followerDone:
		// it did not wait (its dedup key differs from the leader's): an ordinary observation
		close(release)
		<-leaderDone
		emit("second request", followerReached, followerWriter)
		return
	default:
	}
	place()
	close(release)
	<-leaderDone
	<-followerDone
	emit("follower after the wait", followerReached, followerWriter)
}

func vC03FollowHistory(r *rand.Rand) (out map[string]any) {
	synctest.Test(vC03T, func(_ *testing.T) {
		pol := vC03Policies[r.Intn(len(vC03Policies))]
		cfg := vC03Config(pol)
		c := New(cfg)
		defer c.Stop()
		h := &vC03Hist{now: time.Unix(1_900_000_000, 0), r: r, c: c, edns: ednsmw.New(cfg), names: vC03Universe(r), nextID: 1, pol: pol,
			ptr: map[uint64]*CacheEntry{}, keys: map[uint64]string{}, failIDs: map[string]uint64{}, cutIDs: map[uint64]bool{}}
		c.failure.now = func() time.Time { return h.now }
		if c.ecsPolicy == nil {
			out = map[string]any{"inconclusive": true}
			return
		}
		for i, n := 0, 3+r.Intn(3); i < n; i++ {
			h.followRound()
		}
		if h.incon {
			out = map[string]any{"inconclusive": true}
			return
		}
		out = map[string]any{"k": "hist-follow", "coq": h.caseTerm(), "go_fail": h.fail, "nontrivial": h.forged > 0 || h.hits > 0, "desc": h.desc}
	})
	if out == nil {
		out = map[string]any{"inconclusive": true}
	}
	return out
}

func vC03History(r *rand.Rand) map[string]any {
	if r.Intn(12) == 0 {
		return vC03FollowHistory(r)
	}
	// 0,1: answers; 2: + failures; 3: + cuts; 4: wire alias chase; 5: write-back through the pipeline;
	// 6: background refresh (prefetch); 7: decoded-path alias chase over a store-backed Queryer
	flavour := r.Intn(10)
	if flavour >= 8 { // the failure cache and the write-back path get a double share
		flavour = []int{2, 5}[flavour-8]
	}
	pol := vC03Policies[r.Intn(len(vC03Policies))]
	cfg := vC03Config(pol)
	if flavour == 6 {
		cfg.Prefetch = 50
	}
	c := New(cfg)
	defer c.Stop()
	h := &vC03Hist{now: time.Unix(1_900_000_000, 0), r: r, c: c, edns: ednsmw.New(cfg), names: vC03Universe(r), nextID: 1, pol: pol,
		ptr: map[uint64]*CacheEntry{}, keys: map[uint64]string{}, failIDs: map[string]uint64{}, cutIDs: map[uint64]bool{}}
	c.failure.now = func() time.Time { return h.now }
	if c.ecsPolicy == nil {
		return map[string]any{"inconclusive": true}
	}
	n := 8 + r.Intn(9)
	if os.Getenv("VERIF_TIER") == "thorough" && r.Intn(2) == 0 {
		n = 17 + r.Intn(24) // the thorough tier also runs histories two to three times as long
	}
	if flavour == 6 || flavour == 7 {
		kind, fkey := "hist-prefetch", ""
		if flavour == 6 {
			h.prefetchHistory()
		} else if r.Intn(6) == 0 {
			// a class-CH client with the same chain cached in class IN: the chase must stay in class CH
			// (regression for fix f46047f)
			kind = "hist-msgchase-class"
			h.msgChaseHistory(3)
		} else {
			kind = "hist-msgchase"
			h.msgChaseHistory(1)
		}
		if h.incon {
			return map[string]any{"inconclusive": true}
		}
		out := map[string]any{"k": kind, "coq": h.caseTerm(), "go_fail": h.fail, "nontrivial": h.hits > 0, "desc": h.desc}
		if fkey != "" {
			out["fkey"] = fkey
		}
		return out
	}
	if flavour == 5 {
		h.resolveHistory()
		if h.incon {
			return map[string]any{"inconclusive": true}
		}
		return map[string]any{
			"k":          "hist-resolve",
			"coq":        h.caseTerm(),
			"go_fail":    h.fail,
			"nontrivial": len(h.failIDs) > 0 || h.hits > 0,
			"desc":       h.desc,
		}
	}
	if flavour == 4 {
		for i := 0; i < 1+r.Intn(2); i++ {
			h.chaseScenario()
		}
		if h.incon {
			return map[string]any{"inconclusive": true}
		}
		return map[string]any{
			"k":          "hist-chase",
			"coq":        h.caseTerm(),
			"go_fail":    h.fail,
			"nontrivial": h.hits > 0,
			"desc":       h.desc,
		}
	}
	if flavour < 2 && r.Intn(4) == 0 {
		// names that only a decoded (internal) request can carry: raw non-ASCII bytes whose
		// Unicode case folding meets an ASCII letter (Kelvin sign / k, long s / s).  The key
		// and the verifier must treat them as different names.
		tld := h.names[0]
		h.names = append(h.names, "k."+tld, "\u212a."+tld, "s."+tld, "\u017f."+tld)
		h.raw = true
	}
	type wop struct {
		w int
		f func()
	}
	table := []wop{{30, h.opSet}, {6, h.opReplace}, {3, h.opRemove}, {3, h.opExpire}, {6, h.opPurge}, {30, h.opServe}, {8, h.opLookup}, {8, h.opGet}}
	switch flavour {
	case 2:
		table = []wop{{16, h.opSet}, {3, h.opReplace}, {2, h.opRemove}, {5, h.opPurge}, {12, h.opFailQ}, {6, h.opFailZ},
			{8, h.opFailForge}, {12, h.opClock}, {5, h.opBackoff}, {22, h.opServe}, {4, h.opLookup}, {8, h.opGet}, {10, h.opFail}, {10, h.opFailWire}}
	case 3:
		table = []wop{{16, h.opSet}, {3, h.opReplace}, {2, h.opRemove}, {5, h.opPurge}, {14, h.opCut}, {4, h.opFailQ},
			{7, h.opCutForge}, {6, h.opCutExpire}, {3, h.opClock}, {24, h.opServe}, {4, h.opLookup}, {8, h.opGet}, {9, h.opCutL}, {9, h.opCutWire}}
	}
	total := 0
	for _, t := range table {
		total += t.w
	}
	for i := 0; i < n; i++ {
		if i < 2 && r.Intn(2) == 0 {
			h.opSet()
			continue
		}
		x := r.Intn(total)
		for _, t := range table {
			if x < t.w {
				t.f()
				break
			}
			x -= t.w
		}
	}
	// always end with probes of the last placements through both births
	h.opServe()
	h.opServe()
	if h.incon {
		return map[string]any{"inconclusive": true}
	}
	k := []string{"hist-answers", "hist-answers", "hist-failures", "hist-cuts", "hist-chase"}[flavour]
	return map[string]any{
		"k":          k,
		"coq":        h.caseTerm(),
		"go_fail":    h.fail,
		"nontrivial": h.forged > 0 && h.hits > 0,
		"desc":       h.desc,
	}
}

// CacheKey.Hash and normalizeKeyScope on their own
func vC03HashCase(r *rand.Rand) map[string]any {
	h := &vC03Hist{r: r, names: vC03Universe(r), keys: map[uint64]string{}}
	s := h.randSpec()
	switch r.Intn(5) {
	case 0:
		var b [4]byte
		r.Read(b[:])
		s.scope = netip.PrefixFrom(netip.AddrFrom4(b), r.Intn(33))
	case 1:
		var b [16]byte
		r.Read(b[:])
		s.scope = netip.PrefixFrom(netip.AddrFrom16(b), r.Intn(129))
	}
	h.keyOf(s)
	norm := normalizeKeyScope(s.scope)
	return map[string]any{
		"k":          "hash",
		"coq":        fmt.Sprintf("CaseHash %s %s %s %s %s", s.q.coq(), vC03Bool(s.cd), vC03Scope(s.scope), vC03Bytes(vC03RefPre(s)), vC03Scope(norm)),
		"go_fail":    h.fail,
		"nontrivial": s.scope.IsValid(),
		"desc":       fmt.Sprintf("%v -> normalised %v", s, norm),
	}
}

// ---- corpus: fixed scripted histories (VERIF_CORPUS/*.json) replayed before the generated ones.  Each
// script is the minimal history that exposed a finding or a seeded change; it names every question,
// key, audience and downstream behaviour explicitly, so it keeps its meaning when the generators drift.

type vC03CSpec struct {
	N  string `json:"n"`
	T  uint16 `json:"t"`
	C  uint16 `json:"c"`
	CD bool   `json:"cd"`
	S  string `json:"s"` // scope / audience prefix, "" = none
}

func (c *vC03CSpec) spec() vC03Spec {
	if c == nil {
		return vC03Spec{}
	}
	s := vC03Spec{q: vC03Q{name: c.N, qtype: c.T, qclass: c.C}, cd: c.CD}
	if s.q.qtype == 0 {
		s.q.qtype = 1
	}
	if s.q.qclass == 0 {
		s.q.qclass = 1
	}
	if c.S != "" {
		s.scope = netip.MustParsePrefix(c.S)
	}
	return s
}

type vC03CStep struct {
	Op      string     `json:"op"`
	Key     *vC03CSpec `json:"key"`
	Ident   *vC03CSpec `json:"ident"`
	Q       *vC03CSpec `json:"q"`
	Target  string     `json:"target"` // "%d" is replaced by the alias entry's id
	Tag     bool       `json:"tag"`
	Wire    bool       `json:"wire"`
	ECS     string     `json:"ecs"`
	Kind    int        `json:"kind"`
	Bits    int        `json:"bits"`
	Ms      int        `json:"ms"`
	Age     bool       `json:"age"`
	TreeCD  bool       `json:"tree_cd"`
	TreeECS bool       `json:"tree_ecs"`
}

type vC03CScript struct {
	Name    string      `json:"name"`
	Why     string      `json:"why"`
	Pol     [4]uint8    `json:"pol"`
	TLD     string      `json:"tld"`
	Queryer string      `json:"queryer"` // "", "loop", "store", "prefetch"
	Kind    string      `json:"kind"`
	Bubble  bool        `json:"bubble"` // run the script in a synctest bubble (needed by op follow)
	Steps   []vC03CStep `json:"steps"`
}

func vC03RunScript(sc vC03CScript) (out map[string]any) {
	if sc.Bubble {
		sc.Bubble = false
		synctest.Test(vC03T, func(_ *testing.T) { out = vC03RunScript(sc) })
		if out == nil {
			out = map[string]any{"inconclusive": true}
		}
		return out
	}
	pol := sc.Pol
	if pol == [4]uint8{} {
		pol = vC03Policies[0]
	}
	cfg := vC03Config(pol)
	if sc.Queryer == "prefetch" {
		cfg.Prefetch = 50
	}
	c := New(cfg)
	defer c.Stop()
	tld := sc.TLD
	if tld == "" {
		tld = "test."
	}
	h := &vC03Hist{now: time.Unix(1_900_000_000, 0), r: rand.New(rand.NewSource(1)), c: c, edns: ednsmw.New(cfg), names: []string{tld}, nextID: 1, pol: pol,
		ptr: map[uint64]*CacheEntry{}, keys: map[uint64]string{}, failIDs: map[string]uint64{}, cutIDs: map[uint64]bool{}}
	c.failure.now = func() time.Time { return h.now }
	if c.ecsPolicy == nil {
		return map[string]any{"inconclusive": true}
	}
	var pq *vC03PrefetchQueryer
	switch sc.Queryer {
	case "loop":
		c.SetQueryer(vC03LoopQueryer{tld: tld})
	case "store":
		c.SetQueryer(vC03StoreQueryer{c: c})
	case "prefetch":
		pq = &vC03PrefetchQueryer{h: h, seen: make(chan vC03RefreshSeen, 16)}
		c.SetPrefetchQueryer(pq)
	}
	for _, st := range sc.Steps {
		var client netip.Prefix
		if st.ECS != "" {
			client = netip.MustParsePrefix(st.ECS)
		}
		switch st.Op {
		case "set":
			key := st.Key.spec()
			ident := key
			how := "genuine"
			if st.Ident != nil {
				ident, how = st.Ident.spec(), "forged"
			}
			id := h.setAnswer(key, ident, how)
			h.stored = append(h.stored, vC03Stored{id: id, ident: ident, key: key, keyHash: h.keyOf(key)})
		case "alias":
			key := st.Key.spec()
			ident := key
			if st.Ident != nil {
				ident = st.Ident.spec()
				h.forged++
			}
			id := h.nextID
			h.nextID++
			h.setAliasTagged(key, ident, strings.ReplaceAll(st.Target, "%d", strconv.FormatUint(id, 10)), id, st.Tag)
		case "serve":
			h.serveClient(st.Q.spec(), st.Wire, client)
			if pq != nil && !h.prefetchCollect(pq) {
				return map[string]any{"inconclusive": true}
			}
		case "age":
			if e, ok := h.c.positive.Get(h.keyOf(st.Key.spec())); ok && !e.prefetch.Load() {
				e.stored = time.Now().Add(-e.ttl * 9 / 10)
			}
		case "chase":
			h.serveChase(st.Q.spec())
		case "msgchase":
			h.serveMsgChase(st.Q.spec())
		case "resolve":
			h.resolve(st.Q.spec(), st.Wire, client, st.Kind, st.Bits)
		case "fail":
			h.failAt(st.Q.spec())
		case "failwire":
			h.failWireAt(st.Q.spec())
		case "failzone":
			h.failZone(st.Q.spec().q)
		case "lookup":
			h.lookupAt(st.Q.spec())
		case "get":
			h.getPlainAt(st.Q.spec())
		case "gettree": // Store.GetWithContext inside the tree of an outer client that sent CD=1 / an ECS option
			h.getTreeAtWith(st.Q.spec(), st.TreeCD, st.TreeECS)
		case "follow": // a dedup follower of q; the placement key / ident lands while it waits (script needs "bubble")
			key := st.Key.spec()
			ident, how := key, "genuine"
			if st.Ident != nil {
				ident, how = st.Ident.spec(), "forged"
			}
			h.followWith(st.Q.spec(), client, func() { h.placeAt(ident, key, how) })
		case "clock":
			h.now = h.now.Add(time.Duration(st.Ms) * time.Millisecond)
			h.ops = append(h.ops, fmt.Sprintf("OpClock %d", st.Ms))
			h.desc = append(h.desc, fmt.Sprintf("clock +%dms", st.Ms))
		default:
			h.failf("corpus script %s: unknown op %q", sc.Name, st.Op)
		}
	}
	if h.incon {
		return map[string]any{"inconclusive": true}
	}
	k := "corpus"
	if sc.Kind != "" {
		k = sc.Kind
	}
	return map[string]any{"k": k, "coq": h.caseTerm(), "go_fail": h.fail, "nontrivial": h.hits > 0 || len(h.failIDs) > 0,
		"desc": append([]string{"script " + sc.Name + ": " + sc.Why}, h.desc...)}
}

// ---- the audience matrix (exhaustive small scope): one downstream response — an answer the authority
// scopes to /24, a direct SERVFAIL, a self-alias, an alias loop — obtained by each of seven audiences
// under each CD bit, then probed from every audience under both CD bits through the pipeline (both
// births) and the failure lookups.  7 x 2 x 4 histories.
var vC03MatrixAudiences = []string{"", "10.1.2.0/24", "10.1.3.0/24", "10.1.0.0/16", "10.1.2.77/32", "10.1.2.77/0", "2001:db8:1:2::9/48"}

const vC03MatrixSize = 7 * 2 * 4

func vC03AudienceMatrix(idx int) map[string]any {
	na := len(vC03MatrixAudiences)
	aud := vC03MatrixAudiences[idx%na]
	cd := (idx/na)%2 == 1
	kind := (idx / (2 * na)) % 4
	sc := vC03CScript{Name: fmt.Sprintf("audience-matrix[%d]", idx), Kind: "audience-matrix", Queryer: "loop",
		Why: fmt.Sprintf("downstream kind %d obtained by audience %q cd=%v, probed from every audience", kind, aud, cd)}
	q := func(cd2 bool, scope string) *vC03CSpec {
		return &vC03CSpec{N: "a.test.", T: 1, C: 1, CD: cd2, S: scope}
	}
	bits := 0
	if kind == 0 && aud != "" {
		bits = 24
	}
	sc.Steps = append(sc.Steps, vC03CStep{Op: "resolve", Q: q(cd, ""), ECS: aud, Kind: kind, Bits: bits, Wire: idx%2 == 0})
	for i, b := range vC03MatrixAudiences {
		for j, cd2 := range []bool{cd, !cd} {
			sc.Steps = append(sc.Steps, vC03CStep{Op: "serve", Q: q(cd2, ""), ECS: b, Wire: (i+j+idx)%2 == 0})
		}
		sc.Steps = append(sc.Steps, vC03CStep{Op: "fail", Q: q(cd, b)})
	}
	sc.Steps = append(sc.Steps, vC03CStep{Op: "failwire", Q: q(cd, "")}, vC03CStep{Op: "failwire", Q: q(!cd, "")},
		vC03CStep{Op: "lookup", Q: q(cd, "")}, vC03CStep{Op: "get", Q: q(!cd, "")})
	return vC03RunScript(sc)
}

func vC03Corpus(t *testing.T, tr *vC03Trace) {
	dir := os.Getenv("VERIF_CORPUS")
	if dir == "" {
		return
	}
	ents, err := os.ReadDir(dir)
	if err != nil {
		return
	}
	var names []string
	for _, e := range ents {
		if strings.HasSuffix(e.Name(), ".json") {
			names = append(names, e.Name())
		}
	}
	sort.Strings(names)
	for _, n := range names {
		raw, err := os.ReadFile(dir + "/" + n)
		if err != nil {
			t.Fatalf("corpus %s: %v", n, err)
		}
		var list []vC03CScript
		if err := json.Unmarshal(raw, &list); err != nil {
			t.Fatalf("corpus %s: %v", n, err)
		}
		for _, sc := range list {
			tr.emit(vC03RunScript(sc))
		}
	}
}

// ---- the ancestor walks on their own: walkFailureZones (decoded failure route: Lookup, RetryKey, ResetMatching),
// walkWireSuffixes (wire failure / cut routes) and dnsname.Suffixes (decoded cut route) on one name given as wire
// labels and as the text the decoder prints for them; labels over all octet values with the octets a text walk
// can trip over (dot, backslash, digits) over-represented.  stop > 0: the callback refuses the stop-th zone.

func vC03ZoneLabel(r *rand.Rand) []byte {
	n := 1 + r.Intn(4)
	l := make([]byte, n)
	for i := range l {
		switch r.Intn(8) {
		case 0, 1:
			l[i] = '.'
		case 2:
			l[i] = '\\'
		case 3:
			l[i] = byte("0469"[r.Intn(4)])
		case 4:
			l[i] = byte("abzABZ"[r.Intn(6)])
		case 5:
			l[i] = []byte{0, 46, 92, 146, 192, 255, ' ', '@', 127, 45, 47, 91, 93}[r.Intn(13)]
		default:
			l[i] = byte(r.Intn(256))
		}
	}
	return l
}

func vC03List(items [][]byte) string {
	parts := make([]string, len(items))
	for i, it := range items {
		parts[i] = vC03Bytes(it)
	}
	return "[" + strings.Join(parts, "; ") + "]"
}

func vC03ZoneWalkCase(r *rand.Rand) map[string]any {
	var w []byte
	nl := r.Intn(5)
	for i := 0; i < nl; i++ {
		l := vC03ZoneLabel(r)
		w = append(w, byte(len(l)))
		w = append(w, l...)
	}
	w = append(w, 0)
	kind := "zones"
	switch r.Intn(12) {
	case 0: // malformed wires: the wire walk's own refusals
		w = w[:len(w)-1]
		kind = "zones-noroot"
	case 1:
		w = append([]byte{byte(64 + r.Intn(192))}, w...)
		kind = "zones-labeltype"
	}
	stop := 0
	if r.Intn(3) == 0 {
		stop = 1 + r.Intn(4)
	}
	return vC03ZoneWalkOf(w, stop, kind)
}

// exhaustive small scope (thorough tier): every name of at most two labels of one or two octets, and every name of
// three one-octet labels, over {a, '.', '\', '0'} — a letter, the separator, the escape character and a digit
func vC03ZoneWalkExhaustive(emit func(map[string]any)) {
	alphabet := []byte{'a', '.', '\\', '0'}
	var l1, l2 [][]byte
	for _, x := range alphabet {
		l1 = append(l1, []byte{x})
		for _, y := range alphabet {
			l2 = append(l2, []byte{x, y})
		}
	}
	labels := append(append([][]byte(nil), l1...), l2...)
	wire := func(ls ...[]byte) []byte {
		var w []byte
		for _, l := range ls {
			w = append(w, byte(len(l)))
			w = append(w, l...)
		}
		return append(w, 0)
	}
	emit(vC03ZoneWalkOf(wire(), 0, "zones-exhaustive"))
	for _, a := range labels {
		emit(vC03ZoneWalkOf(wire(a), 0, "zones-exhaustive"))
		for _, b := range labels {
			emit(vC03ZoneWalkOf(wire(a, b), 0, "zones-exhaustive"))
		}
	}
	for _, a := range l1 {
		for _, b := range l1 {
			for _, c := range l1 {
				emit(vC03ZoneWalkOf(wire(a, b, c), 0, "zones-exhaustive"))
			}
		}
	}
}

func vC03ZoneWalkOf(w []byte, stop int, kind string) map[string]any {
	pres, presOK := "", false
	if s, off, err := dns.UnpackDomainName(w, 0); err == nil && off == len(w) {
		if back := vC03WireOf(s); back != nil && string(back) == string(w) {
			pres, presOK = s, true
		}
	}
	goFail := ""
	var zp, zw, sf [][]byte
	calls := 0
	walkWireSuffixes(w, func(zone []byte) bool {
		zw = append(zw, append([]byte(nil), zone...))
		calls++
		return calls != stop
	})
	if presOK {
		calls = 0
		walkFailureZones(pres, func(zone string) bool {
			zp = append(zp, []byte(zone))
			calls++
			return calls != stop
		})
		for off := range dnsname.Suffixes(pres) {
			sf = append(sf, []byte(pres[off:]))
		}
		// Go-side oracle: the two walks name the same zones — the i-th text zone is what the decoder prints for
		// the i-th wire suffix, lower-cased
		if len(zp) != len(zw) {
			goFail = fmt.Sprintf("walkFailureZones(%q) visits %d zones, walkWireSuffixes(%v) %d", pres, len(zp), w, len(zw))
		} else {
			for i := range zw {
				s, _, err := dns.UnpackDomainName(zw[i], 0)
				if err != nil || vC03Lower(s) != string(zp[i]) {
					goFail = fmt.Sprintf("zone %d of %q: the text walk visits %q, the wire walk %q", i, pres, zp[i], s)
					break
				}
			}
		}
	}
	presTerm := "None"
	if presOK {
		presTerm = "(Some " + vC03Bytes([]byte(pres)) + ")"
	}
	return map[string]any{
		"k":          kind,
		"coq":        fmt.Sprintf("CaseZones %s %s %d %s %s %s", vC03Bytes(w), presTerm, stop, vC03List(zp), vC03List(zw), vC03List(sf)),
		"go_fail":    goFail,
		"nontrivial": presOK && len(zp) > 1,
		"desc":       map[string]any{"wire": fmt.Sprintf("%v", w), "pres": pres, "stop": stop, "zones": fmt.Sprintf("%q", zp), "suffixes": fmt.Sprintf("%q", sf)},
	}
}

// ---- the decoded-path chase's reading of a hop response: searchAdditionalAnswer(msg, res) — which names the
// next sub-question — and respCnameHasType(res, qtype) called directly on generated answer sections: no, one or
// several alias records between records of other types, alias records first / last / only, an alias whose
// header carries another type (the code goes by the header's type), targets in several spellings.
// exhaustive small scope (thorough tier): every answer section of at most four records over {alias to b.test.,
// alias to c.test., an address record, a *dns.CNAME under an address header} asked for each of {A, CNAME}
func vC03AliasScanExhaustive(emit func(map[string]any)) {
	mk := func(kind int) (dns.RR, string) {
		hdr := dns.RR_Header{Name: "q.test.", Rrtype: dns.TypeCNAME, Class: dns.ClassINET, Ttl: 60}
		switch kind {
		case 0:
			return &dns.CNAME{Hdr: hdr, Target: "b.test."}, fmt.Sprintf("(5%%N, Some %s)", vC03Bytes([]byte("b.test.")))
		case 1:
			return &dns.CNAME{Hdr: hdr, Target: "c.test."}, fmt.Sprintf("(5%%N, Some %s)", vC03Bytes([]byte("c.test.")))
		case 2:
			hdr.Rrtype = dns.TypeA
			return &dns.A{Hdr: hdr, A: []byte{192, 0, 2, 1}}, "(1%N, None)"
		}
		hdr.Rrtype = dns.TypeA
		return &dns.CNAME{Hdr: hdr, Target: "d.test."}, fmt.Sprintf("(1%%N, Some %s)", vC03Bytes([]byte("d.test.")))
	}
	var rec func(kinds []int)
	rec = func(kinds []int) {
		for _, qtype := range []uint16{dns.TypeA, dns.TypeCNAME} {
			res, msg := new(dns.Msg), new(dns.Msg)
			var obs []string
			for _, k := range kinds {
				rr, o := mk(k)
				res.Answer = append(res.Answer, rr)
				obs = append(obs, o)
			}
			target, child := searchAdditionalAnswer(msg, res)
			has := respCnameHasType(res, qtype)
			emit(map[string]any{
				"k": "aliasscan-exhaustive",
				"coq": fmt.Sprintf("CaseAliasScan [%s] %d %s %s %d %s", strings.Join(obs, "; "), qtype, vC03Bytes([]byte(target)), vC03Bool(child),
					len(msg.Answer), vC03Bool(has)),
				"go_fail":    "",
				"nontrivial": child,
				"desc":       map[string]any{"answer": fmt.Sprintf("%v", res.Answer), "qtype": qtype, "target": target, "child": child, "has": has},
			})
		}
		if len(kinds) == 4 {
			return
		}
		for k := 0; k < 4; k++ {
			rec(append(append([]int(nil), kinds...), k))
		}
	}
	rec(nil)
}

func vC03AliasScanCase(r *rand.Rand) map[string]any {
	names := []string{"b.test.", "C.Test.", "a\\.b.test.", "\\000.z.", ".", "x.y.z.example.", "B.TEST."}
	otherTypes := []uint16{dns.TypeA, dns.TypeAAAA, dns.TypeTXT, dns.TypeRRSIG, dns.TypeNS, dns.TypeDNAME}
	res := new(dns.Msg)
	n := r.Intn(6)
	shape := r.Intn(6) // 0: no alias at all, 1: only aliases, else mixed
	var obs []string
	var aliasTargets []string
	for i := 0; i < n; i++ {
		isAlias := shape == 1 || (shape != 0 && r.Intn(3) == 0)
		if isAlias {
			tgt := names[r.Intn(len(names))]
			typ := dns.TypeCNAME
			if r.Intn(10) == 0 {
				typ = dns.TypeA // a *dns.CNAME value under a header of another type: not an alias for the scan
			}
			res.Answer = append(res.Answer, &dns.CNAME{Hdr: dns.RR_Header{Name: "q.test.", Rrtype: typ, Class: dns.ClassINET, Ttl: 60}, Target: tgt})
			obs = append(obs, fmt.Sprintf("(%d%%N, Some %s)", typ, vC03Bytes([]byte(tgt))))
			if typ == dns.TypeCNAME {
				aliasTargets = append(aliasTargets, tgt)
			}
			continue
		}
		typ := otherTypes[r.Intn(len(otherTypes))]
		var rr dns.RR
		hdr := dns.RR_Header{Name: "q.test.", Rrtype: typ, Class: dns.ClassINET, Ttl: 60}
		switch typ {
		case dns.TypeA:
			rr = &dns.A{Hdr: hdr, A: []byte{192, 0, 2, byte(i)}}
		case dns.TypeTXT:
			rr = &dns.TXT{Hdr: hdr, Txt: []string{"t"}}
		case dns.TypeNS:
			rr = &dns.NS{Hdr: hdr, Ns: "ns.test."}
		case dns.TypeDNAME:
			rr = &dns.DNAME{Hdr: hdr, Target: "d.test."}
		default:
			rr = &dns.RFC3597{Hdr: hdr, Rdata: "00"}
		}
		res.Answer = append(res.Answer, rr)
		obs = append(obs, fmt.Sprintf("(%d%%N, None)", typ))
	}
	msg := new(dns.Msg)
	for i := r.Intn(3); i > 0; i-- {
		msg.Answer = append(msg.Answer, &dns.A{Hdr: dns.RR_Header{Name: "q.test.", Rrtype: dns.TypeA, Class: dns.ClassINET, Ttl: 60}, A: []byte{198, 51, 100, 1}})
	}
	before := len(msg.Answer)
	qtype := append(otherTypes, dns.TypeCNAME, dns.TypeMX)[r.Intn(len(otherTypes)+2)]
	target, child := searchAdditionalAnswer(msg, res)
	has := respCnameHasType(res, qtype)
	goFail := ""
	if child != (len(aliasTargets) > 0) {
		goFail = fmt.Sprintf("searchAdditionalAnswer reports child=%v for an answer with %d alias records", child, len(aliasTargets))
	} else if child && target != aliasTargets[len(aliasTargets)-1] {
		goFail = fmt.Sprintf("searchAdditionalAnswer names %q, the last alias of the response points at %q", target, aliasTargets[len(aliasTargets)-1])
	}
	return map[string]any{
		"k": "aliasscan",
		"coq": fmt.Sprintf("CaseAliasScan [%s] %d %s %s %d %s", strings.Join(obs, "; "), qtype, vC03Bytes([]byte(target)), vC03Bool(child),
			len(msg.Answer)-before, vC03Bool(has)),
		"go_fail":    goFail,
		"nontrivial": len(aliasTargets) > 0,
		"desc":       map[string]any{"answer": fmt.Sprintf("%v", res.Answer), "qtype": qtype, "target": target, "child": child, "has": has},
	}
}

func TestVerifC03Store(t *testing.T) {
	vC03T = t
	tr := vC03Open(t)
	defer tr.f.Close()
	vC03Corpus(t, tr)
	if os.Getenv("VERIF_TIER") == "thorough" {
		vC03ZoneWalkExhaustive(tr.emit)
		vC03AliasScanExhaustive(tr.emit)
	}
	for i := 0; i < vC03MatrixSize; i++ {
		tr.emit(vC03AudienceMatrix(i))
	}
	seed := int64(vC03EnvInt("VERIF_SEED", 1))
	n := vC03EnvInt("VERIF_N", 500)
	r := rand.New(rand.NewSource(seed*7919 + 3))
	for i := 0; i < n; i++ {
		tr.emit(vC03History(r))
		if i%4 == 0 {
			tr.emit(vC03HashCase(r))
		}
		if i%5 == 0 {
			tr.emit(vC03ZoneWalkCase(r))
		}
		if i%3 == 0 {
			tr.emit(vC03AliasScanCase(rand.New(rand.NewSource(seed*104729 + int64(i)))))
		}
	}
}
