//go:build verif

package cache

// C07 driver, cache level: which records of an upstream answer are kept, and
// when an alias target is re-resolved.
//   * filterCacheableAnswer called directly on generated answers;
//   * the same answers written by a scripted downstream handler through a
//     real Cache (Cache.ServeDNS -> ResponseWriter.WriteMsg -> Store), then
//     asked again: the second reply is served from the entry, and what it
//     still carries of the upstream message is what was stored;
//   * the sub-queries the cache issues while doing so (Cache.additionalAnswer)
//     are recorded by a scripted Queryer.

import (
	"context"
	"encoding/json"
	"fmt"
	"math/rand"
	"net"
	"os"
	"strconv"
	"strings"
	"sync"
	"testing"

	"github.com/miekg/dns"
	"github.com/semihalev/sdns/config"
	"github.com/semihalev/sdns/internal/mock"
	"github.com/semihalev/sdns/middleware"
)

func vC07EnvInt(name string, def int) int {
	if s := os.Getenv(name); s != "" {
		if n, err := strconv.Atoi(s); err == nil {
			return n
		}
	}
	return def
}

type vC07Name []string // labels as raw octets, leaf first

func (n vC07Name) String() string {
	if len(n) == 0 {
		return "."
	}
	var sb strings.Builder
	for _, l := range n {
		for i := 0; i < len(l); i++ {
			if l[i] == '.' || l[i] == '\\' {
				sb.WriteByte('\\')
			}
			sb.WriteByte(l[i])
		}
		sb.WriteByte('.')
	}
	return sb.String()
}

func (n vC07Name) coq() string {
	var parts []string
	for i := len(n) - 1; i >= 0; i-- {
		var bs []string
		for j := 0; j < len(n[i]); j++ {
			bs = append(bs, strconv.Itoa(int(n[i][j])))
		}
		parts = append(parts, "["+strings.Join(bs, ";")+"]")
	}
	return "[" + strings.Join(parts, ";") + "]"
}

func vC07FlipCase(r *rand.Rand, s string) string {
	b := []byte(s)
	for i := range b {
		if r.Intn(2) == 0 {
			switch {
			case b[i] >= 'a' && b[i] <= 'z':
				b[i] -= 32
			case b[i] >= 'A' && b[i] <= 'Z':
				b[i] += 32
			}
		}
	}
	return string(b)
}

func vC07CaseMix(r *rand.Rand, n vC07Name) vC07Name {
	out := append(vC07Name{}, n...)
	for i := range out {
		out[i] = vC07FlipCase(r, out[i])
	}
	return out
}

type vC07RRSpec struct {
	owner   vC07Name
	rrtype  uint16
	ttl     uint32
	ip      []byte
	target  vC07Name
	covered uint16
	tag     uint16
}

func (s vC07RRSpec) coq() string {
	rd := "RdOther"
	switch s.rrtype {
	case dns.TypeA:
		var bs []string
		for _, x := range s.ip {
			bs = append(bs, strconv.Itoa(int(x)))
		}
		rd = "(RdA [" + strings.Join(bs, ";") + "])"
	case dns.TypeCNAME, dns.TypeDNAME:
		rd = "(RdName " + s.target.coq() + ")"
	case dns.TypeRRSIG:
		rd = fmt.Sprintf("(RdSig %d)", s.covered)
	}
	return fmt.Sprintf("(mk_rr %s %d 1 %d %s)", s.owner.coq(), s.rrtype, s.ttl, rd)
}

func (s vC07RRSpec) rr() dns.RR {
	h := dns.RR_Header{Name: s.owner.String(), Rrtype: s.rrtype, Class: dns.ClassINET, Ttl: s.ttl}
	switch s.rrtype {
	case dns.TypeA:
		return &dns.A{Hdr: h, A: net.IP(s.ip)}
	case dns.TypeCNAME:
		return &dns.CNAME{Hdr: h, Target: s.target.String()}
	case dns.TypeDNAME:
		return &dns.DNAME{Hdr: h, Target: s.target.String()}
	case dns.TypeRRSIG:
		return &dns.RRSIG{Hdr: h, TypeCovered: s.covered, Algorithm: 13, Labels: uint8(len(s.owner)), OrigTtl: s.ttl,
			Expiration: 2000000000, Inception: 1000000000, KeyTag: s.tag, SignerName: ".", Signature: "AAAA"}
	}
	return &dns.TXT{Hdr: h, Txt: []string{fmt.Sprintf("t%d", s.tag)}}
}

// identity of a record independent of TTL and owner case
func vC07Ident(rr dns.RR) string {
	h := rr.Header()
	switch v := rr.(type) {
	case *dns.A:
		return fmt.Sprintf("%s A %s", strings.ToLower(h.Name), v.A)
	case *dns.CNAME:
		return fmt.Sprintf("%s CNAME %s", strings.ToLower(h.Name), v.Target)
	case *dns.DNAME:
		return fmt.Sprintf("%s DNAME %s", strings.ToLower(h.Name), v.Target)
	case *dns.RRSIG:
		return fmt.Sprintf("%s RRSIG %d %d", strings.ToLower(h.Name), v.TypeCovered, v.KeyTag)
	case *dns.TXT:
		return fmt.Sprintf("%s TXT %v", strings.ToLower(h.Name), v.Txt)
	}
	return rr.String()
}

type vC07Stub struct {
	mu    sync.Mutex
	resp  *dns.Msg
	calls int
}

func (s *vC07Stub) Name() string { return "verifc07stub" }
func (s *vC07Stub) ServeDNS(ctx context.Context, ch *middleware.Chain) {
	s.mu.Lock()
	s.calls++
	src := s.resp
	s.mu.Unlock()
	_, req := ch.Materialize(ctx)
	if req == nil {
		return
	}
	m := new(dns.Msg)
	m.SetReply(req)
	m.RecursionAvailable = true
	m.Rcode = src.Rcode
	m.Answer = append([]dns.RR{}, src.Answer...)
	_ = ch.Writer.WriteMsg(m)
	ch.Cancel()
}

// the Queryer the cache re-resolves alias targets through: answers every name
// with one marked record of the asked type
type vC07Sub struct {
	err    bool
	rcode  int
	answer []vC07RRSpec
	hasNs  bool
}

type vC07Queryer struct {
	mu    sync.Mutex
	asked []string
	world map[string]vC07Sub // when set: the namespace sub-queries are answered from (exact name)
}

func (q *vC07Queryer) Query(ctx context.Context, req *dns.Msg) (*dns.Msg, error) {
	q.mu.Lock()
	q.asked = append(q.asked, req.Question[0].Name)
	world := q.world
	q.mu.Unlock()
	if world != nil {
		sub, ok := world[req.Question[0].Name]
		if !ok || sub.err {
			return nil, middleware.ErrNoResponse
		}
		m := new(dns.Msg)
		m.SetReply(req)
		m.Rcode = sub.rcode
		for _, sp := range sub.answer {
			m.Answer = append(m.Answer, sp.rr())
		}
		if sub.hasNs {
			m.Ns = []dns.RR{&dns.SOA{Hdr: dns.RR_Header{Name: "net.", Rrtype: dns.TypeSOA, Class: dns.ClassINET, Ttl: 60}, Ns: "ns.", Mbox: "h.", Serial: 1, Refresh: 1, Retry: 1, Expire: 1, Minttl: 1}}
		}
		return m, nil
	}
	m := new(dns.Msg)
	m.SetReply(req)
	h := dns.RR_Header{Name: req.Question[0].Name, Rrtype: req.Question[0].Qtype, Class: dns.ClassINET, Ttl: 300}
	switch req.Question[0].Qtype {
	case dns.TypeA:
		m.Answer = []dns.RR{&dns.A{Hdr: h, A: net.IPv4(198, 18, 0, 1)}}
	default:
		h.Rrtype = dns.TypeTXT
		if req.Question[0].Qtype != dns.TypeTXT {
			h.Rrtype = req.Question[0].Qtype
			m.Answer = []dns.RR{&dns.NULL{Hdr: h, Data: "resolved"}}
		} else {
			m.Answer = []dns.RR{&dns.TXT{Hdr: h, Txt: []string{"resolved"}}}
		}
	}
	return m, nil
}

func (q *vC07Queryer) take() []string {
	q.mu.Lock()
	defer q.mu.Unlock()
	r := q.asked
	q.asked = nil
	return r
}

func vC07ParseName(s string) vC07Name {
	if s == "." || s == "" {
		return vC07Name{}
	}
	var out vC07Name
	var cur []byte
	for i := 0; i < len(s); i++ {
		switch {
		case s[i] == '\\' && i+1 < len(s):
			cur = append(cur, s[i+1])
			i++
		case s[i] == '.':
			out = append(out, string(cur))
			cur = nil
		default:
			cur = append(cur, s[i])
		}
	}
	return out
}

func TestVerifC07Cache(t *testing.T) {
	p := os.Getenv("VERIF_OUT")
	if p == "" {
		t.Skip("VERIF_OUT not set")
	}
	f, err := os.Create(p)
	if err != nil {
		t.Fatal(err)
	}
	defer f.Close()
	r := rand.New(rand.NewSource(int64(vC07EnvInt("VERIF_SEED", 1))*15485863 + 5))
	n := vC07EnvInt("VERIF_N", 1500)
	emit := func(m map[string]any) {
		b, _ := json.Marshal(m)
		f.Write(append(b, '\n'))
	}

	c := New(&config.Config{CacheSize: 65536, Expire: 300})
	defer c.Stop()
	qy := &vC07Queryer{}
	c.SetQueryer(qy)
	stub := &vC07Stub{}
	ask := func(q dns.Question) *dns.Msg {
		req := new(dns.Msg)
		req.SetQuestion(q.Name, q.Qtype)
		req.Question[0].Qclass = q.Qclass
		w := mock.NewWriter("udp", "127.0.0.1:0")
		ch := middleware.NewChain([]middleware.Handler{c, stub})
		ch.Reset(w, req)
		ch.Next(context.Background())
		if !w.Written() {
			return nil
		}
		return w.Msg()
	}

	bases := []vC07Name{{"www", "example", "com"}, {"a", "b", "evil", "co", "uk"}, {"example", "com"}, {"x.y", "example", "net"}}
	labels := []string{"www", "ns", "a", "victim", "notexample", "example", "com", "evil", "cdn"}
	for i := 0; i < n; i++ {
		base := bases[r.Intn(len(bases))]
		qn := append(vC07Name{fmt.Sprintf("c%d", i)}, base...) // a fresh name per case: no cross-talk between cases
		qtype := []uint16{dns.TypeA, dns.TypeA, dns.TypeCNAME, dns.TypeTXT, dns.TypeDS}[r.Intn(5)]
		q := dns.Question{Name: qn.String(), Qtype: qtype, Qclass: dns.ClassINET}
		relOwner := func() (vC07Name, string) {
			switch r.Intn(9) {
			case 0, 1, 2:
				return append(vC07Name{}, qn...), "own"
			case 3:
				return vC07CaseMix(r, qn), "own-case"
			case 4:
				return append(vC07Name{}, qn[1:]...), "parent"
			case 5:
				return append(vC07Name{labels[r.Intn(len(labels))]}, qn...), "child"
			case 6:
				o := append(vC07Name{}, qn...)
				o[0] = "not" + o[0]
				return o, "nearmiss"
			case 7:
				o := append(vC07Name{}, qn...)
				o[len(o)-1] = "org"
				return o, "other-tld"
			default:
				return vC07Name{"www", "victim", "net"}, "foreign"
			}
		}
		var ans []vC07RRSpec
		cnt := 1 + r.Intn(5)
		kinds := map[string]bool{}
		for j := 0; j < cnt; j++ {
			o, ok := relOwner()
			s := vC07RRSpec{owner: o, ttl: 300, tag: uint16(j + 1)}
			switch r.Intn(10) {
			case 0, 1, 2, 3:
				s.rrtype = dns.TypeA
				s.ip = []byte{198, 51, 100, byte(j + 1)}
			case 4, 5:
				s.rrtype = dns.TypeCNAME
				s.target = vC07Name{fmt.Sprintf("t%d", j), "target", "net"}
				switch r.Intn(8) {
				case 0:
					s.target = append(vC07Name{}, qn...) // alias to the question itself
				case 1:
					s.target = vC07CaseMix(r, qn)
				}
			case 6:
				s.rrtype = dns.TypeDNAME
				s.target = vC07Name{fmt.Sprintf("d%d", j), "dtarget", "net"}
			case 7, 8:
				s.rrtype = dns.TypeRRSIG
				s.covered = []uint16{dns.TypeDNAME, dns.TypeA, dns.TypeCNAME}[r.Intn(3)]
			default:
				s.rrtype = dns.TypeTXT
			}
			kinds[ok+"/"+dns.TypeToString[s.rrtype]] = true
			ans = append(ans, s)
		}
		var coqAns, descAns []string
		var rrs []dns.RR
		for _, s := range ans {
			coqAns = append(coqAns, s.coq())
			rr := s.rr()
			rrs = append(rrs, rr)
			descAns = append(descAns, vC07Ident(rr))
		}

		// (1) the filter itself
		msg := new(dns.Msg)
		msg.Question = []dns.Question{q}
		msg.Response = true
		msg.Answer = rrs
		out := filterCacheableAnswer(msg)
		var kept []string
		goFail := ""
		k := 0
		for idx, rr := range rrs {
			if k < len(out.Answer) && out.Answer[k] == rr {
				kept = append(kept, strconv.Itoa(idx))
				k++
				owner := strings.ToLower(rr.Header().Name)
				sig, isSig := rr.(*dns.RRSIG)
				if owner != strings.ToLower(q.Name) && rr.Header().Rrtype != dns.TypeDNAME && !(isSig && sig.TypeCovered == dns.TypeDNAME) {
					goFail = "kept a record owned by another name: " + vC07Ident(rr)
				}
			}
		}
		if k != len(out.Answer) {
			goFail = "filterCacheableAnswer reordered or invented records"
		}
		emit(map[string]any{
			"k": "filter", "coq": fmt.Sprintf("CaseCacheable %s [%s] [%s]", qn.coq(), strings.Join(coqAns, ";"), strings.Join(kept, ";")),
			"nontrivial": len(kept) != len(rrs), "go_fail": goFail,
			"desc": map[string]any{"q": q.Name, "qtype": dns.TypeToString[qtype], "answer": descAns, "kept_idx": kept},
		})

		// (2) through the real cache: first reply (miss), second reply (entry)
		if i%2 == 0 {
			continue
		}
		stub.mu.Lock()
		stub.resp = &dns.Msg{Answer: rrs}
		stub.calls = 0
		stub.mu.Unlock()
		qy.take()
		r1 := ask(q)
		asked1 := qy.take()
		if r1 == nil {
			continue
		}
		obs, tgt := 0, vC07Name{}
		switch {
		case r1.Rcode == dns.RcodeServerFailure:
			obs = 1
		case len(asked1) > 0:
			obs = 2
			tgt = vC07ParseName(asked1[0])
		}
		emit(map[string]any{
			"k": fmt.Sprintf("scan-%s-%d", dns.TypeToString[qtype], obs),
			"coq": fmt.Sprintf("CaseScan (mk_q %s %d 1) 0 [%s] %d %s", qn.coq(), qtype, strings.Join(coqAns, ";"), obs, tgt.coq()),
			"nontrivial": true,
			"desc":       map[string]any{"q": q.Name, "qtype": dns.TypeToString[qtype], "answer": descAns, "rcode": r1.Rcode, "subqueries": asked1},
		})
		if r1.Rcode != dns.RcodeSuccess {
			continue
		}
		r2 := ask(q)
		qy.take()
		stub.mu.Lock()
		calls := stub.calls
		stub.mu.Unlock()
		if r2 == nil || calls != 1 {
			continue // not served from the entry (not cached): nothing to compare
		}
		// what the entry holds: read it back through the store; the hit reply itself may have been
		// turned into SERVFAIL by the alias chase (alias to the question's own name)
		probe := new(dns.Msg)
		probe.SetQuestion(q.Name, q.Qtype)
		st, isStore := c.Store().(*Store)
		if !isStore {
			continue
		}
		entry, found := st.Lookup(probe)
		if !found {
			continue
		}
		stored := entry.ToMsg(probe)
		if stored == nil {
			continue
		}
		in2 := map[string]bool{}
		for _, rr := range stored.Answer {
			in2[vC07Ident(rr)] = true
		}
		if r2.Rcode == dns.RcodeSuccess {
			// and the hit reply must not carry more of the upstream message than the entry does
			for _, rr := range r2.Answer {
				id := vC07Ident(rr)
				for _, up := range rrs {
					if vC07Ident(up) == id && !in2[id] {
						in2[id] = true
					}
				}
			}
		}
		var kept2 []string
		goFail = ""
		for idx, rr := range rrs {
			if in2[vC07Ident(rr)] {
				kept2 = append(kept2, strconv.Itoa(idx))
				owner := strings.ToLower(rr.Header().Name)
				sig, isSig := rr.(*dns.RRSIG)
				if owner != strings.ToLower(q.Name) && rr.Header().Rrtype != dns.TypeDNAME && !(isSig && sig.TypeCovered == dns.TypeDNAME) {
					goFail = "the cache entry served a record owned by another name: " + vC07Ident(rr)
				}
			}
		}
		emit(map[string]any{
			"k": "stored", "coq": fmt.Sprintf("CaseCacheable %s [%s] [%s]", qn.coq(), strings.Join(coqAns, ";"), strings.Join(kept2, ";")),
			"nontrivial": len(kept2) != len(rrs), "go_fail": goFail,
			"desc": map[string]any{"q": q.Name, "qtype": dns.TypeToString[qtype], "upstream_answer": descAns, "entry": vC07Idents(stored.Answer), "second_reply_rcode": r2.Rcode, "second_reply": vC07Idents(r2.Answer), "kept_idx": kept2},
		})
	}

	// --- Cache.additionalAnswer in full: alias chains against a scripted namespace -------------
	nChase := n / 3
	for i := 0; i < nChase; i++ {
		base := bases[r.Intn(len(bases))]
		qn := append(vC07Name{fmt.Sprintf("h%d", i)}, base...)
		qtype := []uint16{dns.TypeA, dns.TypeA, dns.TypeA, dns.TypeTXT, dns.TypeCNAME}[r.Intn(5)]
		q := dns.Question{Name: qn.String(), Qtype: qtype, Qclass: dns.ClassINET}
		tname := func(j int) vC07Name { return vC07Name{fmt.Sprintf("t%d", j), fmt.Sprintf("h%d", i), "target", "net"} }
		// the namespace: a chain of targets t0 -> t1 -> ... with a random ending
		chainLen := r.Intn(5)
		if r.Intn(6) == 0 {
			chainLen = 8 + r.Intn(6) // around and beyond the depth limit of 10
		}
		world := map[string]vC07Sub{}
		var worldOrder []vC07Name
		term := func(owner vC07Name, j int) vC07RRSpec {
			sp := vC07RRSpec{owner: owner, rrtype: qtype, ttl: 300, tag: uint16(100 + j)}
			if qtype == dns.TypeA {
				sp.ip = []byte{198, 18, byte(i), byte(j)}
			} else {
				sp.rrtype = dns.TypeTXT
			}
			return sp
		}
		for j := 0; j <= chainLen; j++ {
			var sub vC07Sub
			if j < chainLen {
				next := tname(j + 1)
				switch r.Intn(14) {
				case 0:
					next = append(vC07Name{}, qn...) // back to the question
				case 1:
					next = tname(r.Intn(j + 1)) // back to an earlier target
				case 2:
					next = vC07CaseMix(r, qn)
				}
				sub.answer = []vC07RRSpec{{owner: tname(j), rrtype: dns.TypeCNAME, ttl: 300, target: next}}
				if r.Intn(8) == 0 { // the hop already carries the final record
					sub.answer = append(sub.answer, term(next, j))
				}
				if r.Intn(10) == 0 { // two aliases in one sub-response: the last one is followed
					sub.answer = append(sub.answer, vC07RRSpec{owner: next, rrtype: dns.TypeCNAME, ttl: 300, target: tname(j + 2)})
				}
			} else {
				switch r.Intn(8) {
				case 0:
					sub.rcode = dns.RcodeNameError
					sub.hasNs = true
				case 1:
					sub.hasNs = true // NODATA with SOA
				case 2:
					// empty NOERROR
				case 3:
					sub.err = true
				case 4:
					sub.rcode = dns.RcodeNameError
					sub.answer = []vC07RRSpec{{owner: tname(j), rrtype: dns.TypeCNAME, ttl: 300, target: tname(j + 1)}}
				default:
					sub.answer = []vC07RRSpec{term(tname(j), j)}
				}
			}
			world[tname(j).String()] = sub
			worldOrder = append(worldOrder, tname(j))
		}
		// upstream answer: alias(es) from the question into the chain, sometimes with other records
		var ans []vC07RRSpec
		switch r.Intn(8) {
		case 0:
			ans = []vC07RRSpec{term(qn, 99)}
		case 1:
			ans = []vC07RRSpec{{owner: qn, rrtype: dns.TypeCNAME, ttl: 300, target: tname(0)}, term(tname(0), 98)}
		case 2:
			ans = []vC07RRSpec{{owner: qn, rrtype: dns.TypeCNAME, ttl: 300, target: tname(1)}, {owner: qn, rrtype: dns.TypeCNAME, ttl: 300, target: tname(0)}}
		case 3:
			ans = []vC07RRSpec{{owner: qn, rrtype: dns.TypeRRSIG, ttl: 300, covered: dns.TypeCNAME, tag: 7}, {owner: qn, rrtype: dns.TypeCNAME, ttl: 300, target: tname(0)}}
		default:
			ans = []vC07RRSpec{{owner: qn, rrtype: dns.TypeCNAME, ttl: 300, target: tname(0)}}
		}
		rcode0 := dns.RcodeSuccess
		if r.Intn(10) == 0 {
			rcode0 = dns.RcodeNameError
		}
		var rrs []dns.RR
		for _, sp := range ans {
			rrs = append(rrs, sp.rr())
		}
		stub.mu.Lock()
		stub.resp = &dns.Msg{Answer: rrs}
		stub.resp.Rcode = rcode0
		stub.calls = 0
		stub.mu.Unlock()
		qy.mu.Lock()
		qy.world = world
		qy.asked = nil
		qy.mu.Unlock()
		rep := ask(q)
		asked := qy.take()
		qy.mu.Lock()
		qy.world = nil
		qy.mu.Unlock()
		if rep == nil {
			continue
		}
		var oparts []string
		for _, tn := range worldOrder {
			sub := world[tn.String()]
			if sub.err {
				oparts = append(oparts, fmt.Sprintf("(%s, SubErr)", tn.coq()))
			} else {
				oparts = append(oparts, fmt.Sprintf("(%s, SubResp %d %s %v)", tn.coq(), sub.rcode, vC07CoqSpecs(sub.answer), sub.hasNs))
			}
		}
		var obs []vC07RRSpec
		for _, rr := range rep.Answer {
			obs = append(obs, vC07FromRR(rr))
		}
		// Go-side ground truth: what the reply carries beyond the upstream answer was returned by a sub-query
		goFail := ""
		up := map[string]bool{}
		for _, rr := range rrs {
			up[vC07Ident(rr)] = true
		}
		fromWorld := map[string]bool{}
		for _, nm := range asked {
			for _, sp := range world[nm].answer {
				fromWorld[vC07Ident(sp.rr())] = true
			}
		}
		for _, rr := range rep.Answer {
			if id := vC07Ident(rr); !up[id] && !fromWorld[id] {
				goFail = "reply carries a record that neither the upstream answer nor a sub-query supplied: " + id
			}
		}
		emit(map[string]any{
			"k": fmt.Sprintf("chase-%s-len%d-rc%d", dns.TypeToString[qtype], len(asked), rep.Rcode),
			"coq": fmt.Sprintf("CaseChase (mk_q %s %d 1) %d %s [%s] %d %s", qn.coq(), qtype, rcode0, vC07CoqSpecs(ans), strings.Join(oparts, ";"),
				rep.Rcode, vC07CoqSpecs(obs)),
			"nontrivial": len(asked) > 0, "go_fail": goFail,
			"desc": map[string]any{"q": q.Name, "qtype": dns.TypeToString[qtype], "upstream_rcode": rcode0, "upstream_answer": vC07Idents(rrs),
				"subqueries": asked, "reply_rcode": rep.Rcode, "reply_answer": vC07Idents(rep.Answer)},
		})
	}
}

// vC07FromRR describes a reply record as the model sees it (TTL is ignored by the comparison)
func vC07FromRR(rr dns.RR) vC07RRSpec {
	h := rr.Header()
	sp := vC07RRSpec{owner: vC07ParseName(h.Name), rrtype: h.Rrtype, ttl: h.Ttl}
	switch v := rr.(type) {
	case *dns.A:
		sp.ip = []byte(v.A.To4())
	case *dns.CNAME:
		sp.target = vC07ParseName(v.Target)
	case *dns.DNAME:
		sp.target = vC07ParseName(v.Target)
	case *dns.RRSIG:
		sp.covered = v.TypeCovered
	}
	return sp
}

func vC07CoqSpecs(l []vC07RRSpec) string {
	var parts []string
	for _, sp := range l {
		parts = append(parts, sp.coq())
	}
	return "[" + strings.Join(parts, ";") + "]"
}

func vC07Idents(rrs []dns.RR) []string {
	var out []string
	for _, rr := range rrs {
		out = append(out, vC07Ident(rr))
	}
	return out
}
