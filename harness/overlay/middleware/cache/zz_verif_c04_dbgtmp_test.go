//go:build verif

package cache

import (
	"math/rand"
	"testing"
)

func TestVerifC04DbgPT(t *testing.T) {
	out := vC04Open(t)
	defer out.f.Close()
	r := rand.New(rand.NewSource(7))
	for i := 0; i < 6; i++ {
		vC04CaseProofTree(out, r)
	}
}
