//go:build verif

package cache

// C02 driver, shared negative-cache state through the production entry point (overlay-injected,
// never committed to /repo): histories of client exchanges through a real Cache.ServeDNS chain
// whose downstream handler plays the validating resolver (true NXDOMAIN / NODATA answers built from
// subsets of a generated zone's genuine NSEC chain, with or without validated-negative provenance,
// aggressive-eligible or not), with CD / ECS requests and clock advances in between.  Observed: whether
// the client's answer was synthesized from shared state (downstream not reached) and its RCODE.
// Compared with ModelShared.v (admission guard, denial-proof index, subtree cuts, re-admission on
// hits) and judged against the zone's ground truth.

import (
	"context"
	"encoding/json"
	"fmt"
	"math/rand"
	"net"
	"os"
	"path/filepath"
	"sort"
	"strings"
	"testing"
	"time"

	"github.com/miekg/dns"
	"github.com/semihalev/sdns/config"
	"github.com/semihalev/sdns/internal/mock"
	"github.com/semihalev/sdns/middleware"
)

func vC02SharedSig(owner string, covered uint16, zone string, ttl uint32, exp time.Time) *dns.RRSIG {
	return &dns.RRSIG{
		Hdr:         dns.RR_Header{Name: owner, Rrtype: dns.TypeRRSIG, Class: dns.ClassINET, Ttl: ttl},
		TypeCovered: covered, Algorithm: dns.RSASHA256, Labels: uint8(dns.CountLabel(owner)), OrigTtl: ttl,
		Expiration: uint32(exp.Unix()), Inception: uint32(exp.Unix() - 200000), KeyTag: 1, SignerName: zone, Signature: "AA==",
	}
}

// the resolver-owned DNSSEC crypto gate, never busy (optional NSEC3 hashing of the proof index needs one)
type vC02FreeLimiter struct{}

func (vC02FreeLimiter) TryAcquire() (func(), bool) { return func() {}, true }

// vC02SharedObs reads the shared state behind the Store (in-package access, read-only): the zone's SOA
// expiry, its NSEC entries in FIFO (admission) order with their expiries, the zone's subtree cuts in FIFO
// order and how many of them are live.  Expiries of the proof index are exact (injected clock, whole
// seconds since the case's base instant); cuts run on the wall clock and are only counted.
func vC02SharedObs(c *Cache, zone string, base time.Time) (coq, desc string, cutBytes int64) {
	dp := c.store.denialProofs
	dp.mu.RLock()
	soa := "None"
	var recs []string
	n, sum := 0, int64(0)
	for el := dp.fifo.Front(); el != nil; el = el.Next() {
		e, _ := el.Value.(*denialProofEntry)
		if e == nil || e.zoneKey.zone != zone || e.zoneKey.qclass != dns.ClassINET {
			continue
		}
		exp := int64(e.expires.Sub(base) / time.Second)
		if e.id.kind == denialProofSOA {
			soa = fmt.Sprintf("(Some (%d)%%Z)", exp)
			recs = append(recs, fmt.Sprintf("SOA@%d", exp))
			continue
		}
		n++
		sum += exp
		recs = append(recs, fmt.Sprintf("%s@%d", e.id.owner, exp))
	}
	tomb := len(dp.nsec3Conflicts) > 0
	dp.mu.RUnlock()
	cc := c.store.nxDomainCuts
	cc.mu.RLock()
	var cuts []string
	ncut, nlive := 0, 0
	now := time.Now()
	if zs := cc.zones[nxDomainCutZoneKey{zone: zone, qclass: dns.ClassINET}]; zs != nil {
		for el := zs.fifo.Front(); el != nil; el = el.Next() {
			e, _ := el.Value.(*nxDomainCutEntry)
			if e == nil {
				continue
			}
			ncut++
			live := now.Before(e.expires)
			if live {
				nlive++
			}
			if e.wireBytes > cutBytes {
				cutBytes = e.wireBytes
			}
			cuts = append(cuts, fmt.Sprintf("%s(live=%v,%dB)", e.deniedName, live, e.wireBytes))
		}
	}
	cc.mu.RUnlock()
	coq = fmt.Sprintf("(mk_shobs %s %d (%d) %d %d %v)", soa, n, sum, ncut, nlive, tomb)
	desc = fmt.Sprintf("index[%s] quarantine=%v cuts[%s]", strings.Join(recs, " "), tomb, strings.Join(cuts, " "))
	return
}

// One step of a history, as generated or as read back from corpus/C02/shared-*.json: a clock advance or
// a client exchange with what the (honest) validating resolver answers downstream.
type vC02ShOp struct {
	Adv    int64   `json:"adv,omitempty"`
	Q      [][]int `json:"q,omitempty"` // labels, leaf first, octets
	Qtype  uint16  `json:"qtype,omitempty"`
	CD     bool    `json:"cd,omitempty"`
	ECS    bool    `json:"ecs,omitempty"`
	Neg    bool    `json:"neg,omitempty"`  // downstream answers NXDOMAIN / NODATA (whichever is true of the zone)
	Recs   []int   `json:"recs,omitempty"` // indexes into the zone's NSEC chain, message order
	TTL    int64   `json:"ttl,omitempty"`
	Marked bool    `json:"marked,omitempty"`
	Aggr   bool    `json:"aggr,omitempty"`
	ResCD  bool    `json:"rescd,omitempty"`
}
type vC02ShNode struct {
	Name  [][]int  `json:"name"`
	Types []uint16 `json:"types"`
}
type vC02ShScript struct {
	Note      string       `json:"note,omitempty"`
	CacheSize int          `json:"cache_size"`
	Apex      [][]int      `json:"apex"`
	Nodes     []vC02ShNode `json:"nodes"`
	Ops       []vC02ShOp   `json:"ops"`
}

func vC02ShLabels(n vC02Name) [][]int {
	out := make([][]int, len(n))
	for i, l := range n {
		out[i] = make([]int, len(l))
		for j, b := range l {
			out[i][j] = int(b)
		}
	}
	return out
}
func vC02ShName(ls [][]int) vC02Name {
	n := make(vC02Name, len(ls))
	for i, l := range ls {
		n[i] = make([]byte, len(l))
		for j, b := range l {
			n[i][j] = byte(b)
		}
	}
	return n
}

func TestVerifC02Shared(t *testing.T) {
	tr := vC02Open(t)
	defer tr.f.Close()
	seed := int64(vC02EnvInt("VERIF_SEED", 1))
	n := vC02EnvInt("VERIF_N", 100)
	r := rand.New(rand.NewSource(seed*49979687 + 13))
	g := &vC02Gen{r: r}
	// fixed regression histories first (corpus/C02/shared-*.json), on every run
	if dir := os.Getenv("VERIF_CORPUS"); dir != "" {
		files, _ := filepath.Glob(filepath.Join(dir, "shared-*.json"))
		sort.Strings(files)
		for _, f := range files {
			b, err := os.ReadFile(f)
			if err != nil {
				t.Fatalf("corpus %s: %v", f, err)
			}
			var sc vC02ShScript
			if err := json.Unmarshal(b, &sc); err != nil {
				t.Fatalf("corpus %s: %v", f, err)
			}
			z := &vC02Zone{apex: vC02ShName(sc.Apex)}
			for _, nd := range sc.Nodes {
				z.nodes = append(z.nodes, vC02Node{vC02ShName(nd.Name), nd.Types})
			}
			z.index()
			g.newPool(true)
			vC02SharedCase(t, tr, g, z, &sc)
		}
	}
	for c := 0; c < n; c++ {
		g.newPool(true)
		apex := vC02Name{[]byte{"abcxyz"[r.Intn(6)]}}
		z := g.genZone(apex, 2+r.Intn(7))
		if r.Intn(3) == 0 { // zones at and above the per-zone entry limit of the proof index (8 entries incl. the SOA)
			for try := 0; try < 12 && len(z.nodes) < 8; try++ {
				z = g.genZone(apex, 9+r.Intn(4))
			}
		}
		vC02SharedCase(t, tr, g, z, nil)
	}
}

func vC02SharedCase(t *testing.T, tr *vC02Trace, g *vC02Gen, z *vC02Zone, script *vC02ShScript) {
	r := g.r
	zoneStr := vC02Pres(z.apex)
	// denial family of the zone: NSEC, or (40 % of the generated cases) NSEC3 with one parameter tuple
	family3 := script == nil && r.Intn(5) < 2
	var chain3 []vC02Rec3
	var params vC02Params
	if family3 {
		z3 := &vC02Zone{apex: z.apex}
		for _, nd := range z.nodes {
			var ts []uint16
			for _, t := range nd.types {
				if t != dns.TypeNSEC {
					ts = append(ts, t)
				}
			}
			z3.nodes = append(z3.nodes, vC02Node{nd.name, ts})
		}
		z3.index()
		z = z3
		params = vC02Params{iter: []uint16{0, 0, 1, 5}[r.Intn(4)], salt: []string{"", "ab", "beef"}[r.Intn(3)]}
		chain3, _ = g.nsec3Chain(z, params, r.Intn(4) == 0, false)
	}
	chain := z.nsecChain()
	cands := g.candidates(z)
	var allRR3 []dns.RR // every NSEC3 record sent downstream, in order (rendered with one rank table at the end)
	var allZones3 []vC02Name
	tabNames := map[string]vC02Name{}
	dirty := false // records of a changed zone were admitted: truth is no longer judged
	// sizing as production derives it from CacheSize: per-zone entry limits of the proof index / the cut
	// cache are 8/8 at 4096 and 16/32 at 32768; the model gets them as read from the real Store
	cacheSize := []int{4096, 4096, 4096, 4096, 4096, 4096, 4096, 32768, 32768, 32768}[r.Intn(10)]
	if script != nil {
		cacheSize = script.CacheSize
	}
	rec := vC02ShScript{CacheSize: cacheSize, Apex: vC02ShLabels(z.apex)}
	for _, nd := range z.nodes {
		rec.Nodes = append(rec.Nodes, vC02ShNode{vC02ShLabels(nd.name), nd.types})
	}
	cache := New(&config.Config{CacheSize: cacheSize, Expire: 3600})
	defer cache.Stop()
	cache.SetDNSSECCryptoLimiter(vC02FreeLimiter{})
	limIndex, limCuts := cache.store.denialProofs.maxEntriesPerZone, cache.store.nxDomainCuts.maxEntriesPerZone
	base := time.Now()
	var offset int64 // model clock, seconds
	cache.store.denialProofs.now = func() time.Time { return base.Add(time.Duration(offset) * time.Second) }
	maxTTL := int64(cache.store.denialProofs.maxTTL / time.Second)
	if m := int64(cache.store.nxDomainCuts.maxTTL / time.Second); m < maxTTL {
		maxTTL = m
	}
	sigExp := base.Add(48 * time.Hour)

	asked := map[string]bool{}
	var deadlines []int64
	var ops, desc []string
	goFail := ""
	synthCount, admitCount := 0, 0
	nops := 8 + r.Intn(8)
	if r.Intn(5) == 0 { // long histories: enough admitted NXDOMAINs to fill the zone's cut FIFO
		nops = 16 + r.Intn(12)
	}
	// cut-heavy histories: many admitted NXDOMAINs with thin proofs (the index stays too sparse to
	// synthesize), so that the zone's cut FIFO overflows its entry limit
	cutHeavy := r.Intn(5) == 0
	if cutHeavy {
		nops = 20 + r.Intn(10)
	}
	if os.Getenv("VERIF_TIER") == "thorough" && r.Intn(3) == 0 { // thorough: histories two to three times as long
		nops = nops*2 + r.Intn(nops)
	}
	oversize := false
	if script != nil {
		nops = len(script.Ops)
	}
	for o := 0; o < nops; o++ {
		var sop *vC02ShOp
		if script != nil {
			sop = &script.Ops[o]
		}
		if (sop != nil && sop.Adv > 0) || (sop == nil && r.Intn(5) == 0 && len(deadlines) > 0) { // advance the clock, away from (or exactly onto) every deadline
			var s int64
			if sop != nil {
				s = sop.Adv
			}
			for try := 0; sop == nil && try < 20; try++ {
				s = []int64{30, 100, 200, 300, 450, 700}[r.Intn(6)]
				if r.Intn(3) == 0 {
					if d := deadlines[r.Intn(len(deadlines))] - offset; d > 0 {
						s = d
					}
				}
				bad := false
				for _, e := range deadlines {
					if tt := offset + s; tt > e-150 && tt < e {
						bad = true
					}
				}
				if !bad {
					break
				}
				s = 0
			}
			if s == 0 {
				continue
			}
			offset += s
			cache.store.nxDomainCuts.mu.Lock()
			for _, e := range cache.store.nxDomainCuts.entries {
				e.expires = e.expires.Add(-time.Duration(s) * time.Second)
				e.stored = e.stored.Add(-time.Duration(s) * time.Second)
			}
			cache.store.nxDomainCuts.mu.Unlock()
			rec.Ops = append(rec.Ops, vC02ShOp{Adv: s})
			ops = append(ops, fmt.Sprintf("ShAdvance (%d)", s))
			desc = append(desc, fmt.Sprintf("advance %ds -> t=%d", s, offset))
			continue
		}
		// a question never asked before (the exact-answer cache is not part of the model)
		var q vC02Name
		var qtype uint16
		found := false
		if sop != nil {
			q, qtype, found = vC02ShName(sop.Q), sop.Qtype, true
		}
		for try := 0; try < 30 && !found; try++ {
			q = cands[r.Intn(len(cands))]
			if r.Intn(3) == 0 {
				q = vC02Child(g.poolLabel(), q)
			}
			qtype = []uint16{dns.TypeA, dns.TypeAAAA, dns.TypeTXT, dns.TypeMX, dns.TypeDS, dns.TypeNS}[r.Intn(6)]
			k := fmt.Sprintf("%s/%d", vC02Key(q), qtype)
			if vC02Sub(q, z.apex) && !asked[k] && !(cutHeavy && try < 20 && z.existsHow(q) != "") {
				asked[k] = true
				found = true
			}
		}
		if !found {
			continue
		}
		if sop == nil && r.Intn(6) == 0 {
			kk := len(q) - len(z.apex)
			q = append(vC02UpperSome(r, q[:kk]), q[kk:]...)
		}
		qs := vC02Pres(q)
		if family3 { // every name a lookup may hash: the suffixes of q down to the apex and the wildcard below each
			for k := len(z.apex); k <= len(q); k++ {
				sfx := vC02Suffix(q, k)
				tabNames[vC02Key(sfx)] = sfx
				w := vC02Child(vC02Star, sfx)
				tabNames[vC02Key(w)] = w
			}
		}
		cd, ecs := false, false
		if sop != nil {
			cd, ecs = sop.CD, sop.ECS
		} else {
			cd, ecs = r.Intn(14) == 0, r.Intn(14) == 0
		}
		req := new(dns.Msg)
		req.SetQuestion(qs, qtype)
		req.Id = uint16(1000 + o)
		req.RecursionDesired = true
		req.SetEdns0(1232, true)
		req.CheckingDisabled = cd
		if ecs {
			req.IsEdns0().Option = append(req.IsEdns0().Option, &dns.EDNS0_SUBNET{Code: dns.EDNS0SUBNET, Family: 1, SourceNetmask: 24, Address: net.ParseIP("203.0.113.0").To4()})
		}
		// what the validating resolver would answer: the truth about the zone
		how := z.existsHow(q)
		ndTrue := z.nodataTrue(q, qtype)
		dsCoq := "DsPositive"
		dsDesc := "positive"
		thisOp := vC02ShOp{Q: vC02ShLabels(q), Qtype: qtype, CD: cd, ECS: ecs}
		opHonest := true
		var neg *dns.Msg
		marked, aggressive, resCD := false, false, false
		var ttl int64
		if (how == "" || ndTrue) && ((sop != nil && sop.Neg) || (sop == nil && r.Intn(8) > 0)) {
			rcode := dns.RcodeNameError
			if how != "" {
				rcode = dns.RcodeSuccess
			}
			var recIdx []int
			if sop != nil {
				ttl, recIdx, marked, aggressive, resCD = sop.TTL, sop.Recs, sop.Marked, sop.Aggr, sop.ResCD
			} else {
				ttl = []int64{300, 600, 900}[r.Intn(3)]
				for i := range chain {
					if r.Intn(3) > 0 {
						recIdx = append(recIdx, i)
					}
				}
				if len(recIdx) == 0 {
					recIdx = append(recIdx, r.Intn(len(chain)))
				}
				r.Shuffle(len(recIdx), func(i, j int) { recIdx[i], recIdx[j] = recIdx[j], recIdx[i] })
				if cutHeavy && len(recIdx) > 2 {
					recIdx = recIdx[:1+r.Intn(2)]
				}
				if len(recIdx) > 10 { // keeps every cut below the per-entry byte budget (see vC02SharedObs)
					recIdx = recIdx[:10]
				}
				marked, aggressive, resCD = r.Intn(20) > 0, r.Intn(7) > 0, r.Intn(30) == 0
				if cutHeavy && r.Intn(4) > 0 {
					marked, aggressive, resCD = true, true, false
				}
			}
			honest := true
			neg = new(dns.Msg)
			neg.SetRcode(req, rcode)
			neg.RecursionAvailable = true
			neg.AuthenticatedData = true
			neg.CheckingDisabled = cd || resCD
			soa := &dns.SOA{Hdr: dns.RR_Header{Name: zoneStr, Rrtype: dns.TypeSOA, Class: 1, Ttl: uint32(ttl)}, Ns: "ns." + zoneStr, Mbox: "h." + zoneStr,
				Serial: 1, Refresh: 1, Retry: 1, Expire: 1, Minttl: uint32(ttl)}
			neg.Ns = append(neg.Ns, soa, vC02SharedSig(zoneStr, dns.TypeSOA, zoneStr, uint32(ttl), sigExp))
			if family3 {
				// NSEC3 RRsets of the zone's one ring; NXDOMAIN proofs stay thin (closest encloser, next closer,
				// wildcard) so that a cut stays below the per-entry byte budget
				maxn := 8
				if rcode == dns.RcodeNameError {
					maxn = 3
				}
				var idx []int
				for i := range chain3 {
					if r.Intn(3) > 0 {
						idx = append(idx, i)
					}
				}
				if len(idx) == 0 {
					idx = append(idx, r.Intn(len(chain3)))
				}
				r.Shuffle(len(idx), func(i, j int) { idx[i], idx[j] = idx[j], idx[i] })
				if len(idx) > maxn {
					idx = idx[:maxn]
				}
				tamper := -1
				if r.Intn(7) == 0 { // the zone changed under the cache: one owner hash now carries other RDATA
					tamper = r.Intn(len(idx))
					honest = false
				}
				first := len(allRR3)
				for k, i := range idx {
					rc := chain3[i]
					if k == tamper {
						rc.types = append(append([]uint16(nil), rc.types...), 99) // SPF joins the bitmap
						if r.Intn(2) == 0 {
							rc.flags ^= 1
						}
					}
					rr := rc.rr()
					rr.Hdr.Ttl = uint32(ttl)
					neg.Ns = append(neg.Ns, rr, vC02SharedSig(rr.Hdr.Name, dns.TypeNSEC3, zoneStr, uint32(ttl), sigExp))
					allRR3 = append(allRR3, rr)
					allZones3 = append(allZones3, rc.zone)
				}
				dsCoq = fmt.Sprintf("(DsNegative3 %d [@@R%d:%d@@] (%d) %v %v %v)", rcode, first, len(allRR3), ttl, marked, aggressive, cd || resCD)
				dsDesc = fmt.Sprintf("rcode=%d with %d NSEC3 (changed=%v) ttl=%d provenance=%v aggressive=%v resCD=%v", rcode, len(idx), !honest, ttl, marked, aggressive, cd || resCD)
			} else {
				var rcoq []string
				for _, i := range recIdx {
					rc := chain[i%len(chain)]
					rr := rc.rr()
					rr.Hdr.Ttl = uint32(ttl)
					neg.Ns = append(neg.Ns, rr, vC02SharedSig(rr.Hdr.Name, dns.TypeNSEC, zoneStr, uint32(ttl), sigExp))
					rcoq = append(rcoq, rc.coq())
				}
				dsCoq = fmt.Sprintf("(DsNegative %d [%s] (%d) %v %v %v)", rcode, strings.Join(rcoq, ";"), ttl, marked, aggressive, cd || resCD)
				dsDesc = fmt.Sprintf("rcode=%d with %d NSEC ttl=%d provenance=%v aggressive=%v resCD=%v", rcode, len(recIdx), ttl, marked, aggressive, cd || resCD)
			}
			thisOp.Neg, thisOp.Recs, thisOp.TTL, thisOp.Marked, thisOp.Aggr, thisOp.ResCD = true, recIdx, ttl, marked, aggressive, resCD
			opHonest = honest
		}
		calls := 0
		downstream := middleware.HandlerFunc(func(ctx context.Context, ch *middleware.Chain) {
			calls++
			if neg != nil {
				if marked {
					middleware.MarkValidatedNegativeProofResponse(ctx, neg, middleware.ValidatedNegativeProof{
						Subject: qs, Zone: zoneStr, Kind: map[bool]middleware.ValidatedNegativeProofKind{false: middleware.ValidatedNegativeProofNSEC, true: middleware.ValidatedNegativeProofNSEC3}[family3], Aggressive: aggressive})
				}
				_ = ch.Writer.WriteMsg(neg)
			} else {
				resp := new(dns.Msg)
				resp.SetReply(ch.Request.Msg())
				resp.RecursionAvailable = true
				resp.Answer = []dns.RR{&dns.TXT{Hdr: dns.RR_Header{Name: qs, Rrtype: qtype, Class: 1, Ttl: 60}, Txt: []string{"downstream"}}}
				_ = ch.Writer.WriteMsg(resp)
			}
			ch.Cancel()
		})
		writer := mock.NewWriter("udp", "192.0.2.53:53000")
		ch := middleware.NewChain([]middleware.Handler{cache, downstream})
		ch.Reset(writer, req)
		ch.Next(context.Background())
		synth := "None"
		if !writer.Written() {
			goFail = "no response written for " + qs
		} else if calls == 0 {
			got := writer.Msg()
			synth = fmt.Sprintf("(Some %d)", got.Rcode)
			synthCount++
			truth := (got.Rcode == dns.RcodeNameError && how == "") || (got.Rcode == dns.RcodeSuccess && len(got.Answer) == 0 && ndTrue)
			if goFail == "" {
				switch {
				case cd || ecs:
					goFail = fmt.Sprintf("a CD=%v / ECS=%v request for %s was answered from shared denial state", cd, ecs, qs)
				case !truth && !dirty:
					goFail = fmt.Sprintf("Cache.ServeDNS synthesised rcode=%d for %s %s which is not true of the zone (exists=%q nodata=%v)", got.Rcode, qs, dns.TypeToString[qtype], how, ndTrue)
				case admitCount == 0:
					goFail = fmt.Sprintf("rcode=%d for %s synthesised although nothing passed the admission guard", got.Rcode, qs)
				}
			}
		} else if neg != nil && marked && aggressive && !cd && !ecs && !resCD {
			if !opHonest {
				dirty = true
			}
			admitCount++
			deadlines = append(deadlines, offset+min(ttl, maxTTL))
		}
		obsCoq, obsDesc, cutBytes := vC02SharedObs(cache, zoneStr, base)
		if cutBytes > nxDomainCutBudgetBytesPerEntry {
			// the model has the entry limits only; a cut above the per-entry byte budget could make the
			// byte limit bind first: such a history is outside the modelled family
			oversize = true
		}
		rec.Ops = append(rec.Ops, thisOp)
		ops = append(ops, fmt.Sprintf("ShExchange %s %d %v %v %s %v %s %s", vC02Coq(q), qtype, cd, ecs, dsCoq, opHonest, synth, obsCoq))
		desc = append(desc, fmt.Sprintf("t=%d %s %s cd=%v ecs=%v downstream:[%s] -> synthesized=%s [truth: exists=%q nodata=%v] state after: %s", offset, qs, dns.TypeToString[qtype], cd, ecs, dsDesc, synth, how, ndTrue, obsDesc))
	}
	opsText := strings.Join(ops, ";")
	tabCoq := ""
	if family3 {
		rcoq, tcoq := vC02Nsec3Coq(allRR3, allZones3, tabNames, params)
		tabCoq = strings.Join(tcoq, ";")
		for { // fill the record placeholders
			i := strings.Index(opsText, "@@R")
			if i < 0 {
				break
			}
			j := strings.Index(opsText[i:], "@@]") + i
			var a, b int
			fmt.Sscanf(opsText[i:j+2], "@@R%d:%d@@", &a, &b)
			opsText = opsText[:i] + strings.Join(rcoq[a:b], ";") + opsText[j+2:]
		}
	}
	kindTag := "shared-history"
	if family3 {
		kindTag = "shared-history-nsec3"
	}
	if script != nil {
		kindTag = "shared-corpus"
	}
	var recAny any = rec
	if family3 {
		recAny = nil // NSEC3 histories depend on the generator's Opt-Out choices: not replayable from a script
	}
	tr.emit(map[string]any{
		"k":            kindTag,
		"script":       recAny, // the history in corpus form: save it as corpus/C02/shared-<name>.json to pin it
		"coq":          fmt.Sprintf("(CaseShared %s (%d) %d %d [%s] [%s])%%N", z.coq(), maxTTL, limIndex, limCuts, tabCoq, opsText),
		"inconclusive": oversize,
		"go_fail":      goFail,
		"nontrivial":   synthCount > 0 && admitCount > 0,
		"desc":         map[string]any{"zone": z.desc(), "limits": fmt.Sprintf("index %d entries/zone, cuts %d/zone", limIndex, limCuts), "history": desc},
	})
}
