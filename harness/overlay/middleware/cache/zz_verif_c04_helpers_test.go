//go:build verif

package cache

// C04 shared driver helpers: a virtual clock implemented by shifting every
// stored instant (vC04Shift), Coq term formatting, message generators, the
// edns+cache pipeline on three serving routes with a scripted downstream.

import (
	"context"
	"encoding/json"
	"fmt"
	"math/rand"
	"net/netip"
	"os"
	"strconv"
	"strings"
	"testing"
	"time"

	"github.com/miekg/dns"
	"github.com/semihalev/sdns/config"
	"github.com/semihalev/sdns/internal/dnsutil"
	"github.com/semihalev/sdns/internal/mock"
	"github.com/semihalev/sdns/middleware"
	"github.com/semihalev/sdns/middleware/edns"
)

func vC04EnvInt(name string, def int) int {
	if s := os.Getenv(name); s != "" {
		if n, err := strconv.Atoi(s); err == nil {
			return n
		}
	}
	return def
}

type vC04Out struct {
	f *os.File
}

func vC04Open(t *testing.T) *vC04Out {
	p := os.Getenv("VERIF_OUT")
	if p == "" {
		t.Skip("VERIF_OUT not set")
	}
	f, err := os.Create(p)
	if err != nil {
		t.Fatal(err)
	}
	return &vC04Out{f: f}
}

func (o *vC04Out) emit(m map[string]any) {
	b, _ := json.Marshal(m)
	o.f.Write(append(b, '\n'))
}

// ---------------------------------------------------------------- clock

// vC04Clock is the virtual clock: virtual now = real monotonic time since
// base + everything advanced so far. Advancing by d is implemented by moving
// every stored instant back by d, which is exact for code that compares
// time.Now() with a stored instant.
type vC04Clock struct {
	base time.Time
	adv  time.Duration
}

func vC04NewClock() *vC04Clock { return &vC04Clock{base: time.Now()} }

func (k *vC04Clock) virt(t time.Time) int64 { return int64(t.Sub(k.base) + k.adv) }
func (k *vC04Clock) now() int64             { return k.virt(time.Now()) }
func (k *vC04Clock) real(v int64) time.Time { return k.base.Add(time.Duration(v) - k.adv) }

// vC04Shift advances the virtual clock of c by d: entry stored/cutUntil,
// subtree-cut stored/expires and denial-proof expiries move back by d. (The RFC 9520 failure cache is switched
// off in these drivers; it is C13's subject.)
func vC04Shift(c *Cache, k *vC04Clock, d time.Duration) {
	c.store.ForEach(func(_ bool, _ uint64, e *CacheEntry) bool {
		e.stored = e.stored.Add(-d)
		if !e.cutUntil.IsZero() {
			e.cutUntil = e.cutUntil.Add(-d)
		}
		return true
	})
	if cc := c.store.nxDomainCuts; cc != nil {
		cc.mu.Lock()
		for _, e := range cc.entries {
			e.stored = e.stored.Add(-d)
			e.expires = e.expires.Add(-d)
		}
		cc.mu.Unlock()
	}
	k.adv += d
	if dp := c.store.denialProofs; dp != nil {
		// same frame as everything else: move the stored expiries, not the clock
		dp.mu.Lock()
		for _, e := range dp.byID {
			e.expires = e.expires.Add(-d)
		}
		for key, t := range dp.nsec3Conflicts {
			dp.nsec3Conflicts[key] = t.Add(-d)
		}
		if !dp.nsec3ConflictOverflowUntil.IsZero() {
			dp.nsec3ConflictOverflowUntil = dp.nsec3ConflictOverflowUntil.Add(-d)
		}
		dp.mu.Unlock()
	}
}

// ---------------------------------------------------------------- Coq terms

func vC04Z(x int64) string {
	if x < 0 {
		return fmt.Sprintf("(%d)", x)
	}
	return strconv.FormatInt(x, 10)
}

func vC04OZ(ok bool, x int64) string {
	if !ok {
		return "None"
	}
	return "(sz " + vC04Z(x) + ")"
}

func vC04Cut(k *vC04Clock, t time.Time) string {
	return vC04OZ(!t.IsZero(), k.virt(t))
}

func vC04Ent(k *vC04Clock, e *CacheEntry) string {
	if e == nil {
		return "NoEnt"
	}
	return fmt.Sprintf("(Ent %s %d %s %v)", vC04Z(k.virt(e.stored)), int64(e.ttl), vC04Cut(k, e.cutUntil), e.scoped())
}

func vC04Class(mt dnsutil.ResponseType) string {
	switch mt {
	case dnsutil.TypeSuccess:
		return "RSuccess"
	case dnsutil.TypeNXDomain:
		return "RNXDomain"
	case dnsutil.TypeNoRecords:
		return "RNoRecords"
	case dnsutil.TypeReferral:
		return "RReferral"
	case dnsutil.TypeServerFailure:
		return "RServFail"
	case dnsutil.TypeNotCacheable:
		return "RNotCacheable"
	case dnsutil.TypeExpiredSignature:
		return "RExpiredSig"
	default:
		return "ROther"
	}
}

// vC04RRs renders what CalculateCacheTTL sees of msg after
// filterCacheableAnswer: answer records owned by the question (or DNAME),
// authority, additional.
func vC04RRs(msg *dns.Msg) string {
	var p []string
	add := func(sec int, rr dns.RR) {
		kind := "KPlain"
		switch x := rr.(type) {
		case *dns.SOA:
			kind = fmt.Sprintf("(KSoa %d)", x.Minttl)
		case *dns.RRSIG:
			kind = fmt.Sprintf("(KSig %d)", x.Expiration)
		case *dns.OPT:
			kind = "KOpt"
		}
		p = append(p, fmt.Sprintf("mk_rr %d %d %s", sec, rr.Header().Ttl, kind))
	}
	for _, rr := range msg.Answer {
		keep := rr.Header().Rrtype == dns.TypeDNAME || strings.EqualFold(msg.Question[0].Name, rr.Header().Name)
		if sig, ok := rr.(*dns.RRSIG); ok && sig.TypeCovered == dns.TypeDNAME {
			keep = true
		}
		if keep {
			add(0, rr)
		}
	}
	for _, rr := range msg.Ns {
		add(1, rr)
	}
	for _, rr := range msg.Extra {
		add(2, rr)
	}
	return "[" + strings.Join(p, "; ") + "]"
}

// ---------------------------------------------------------------- messages

var vC04TTLs = []uint32{0, 1, 4, 5, 6, 7, 9, 12, 30, 60, 120, 300, 3600, 86399, 86400, 86401, 100000, 604800}

func vC04TTL(r *rand.Rand) uint32 {
	switch r.Intn(5) {
	case 0:
		return uint32(r.Intn(40))
	case 1:
		return uint32(r.Intn(90000))
	}
	return vC04TTLs[r.Intn(len(vC04TTLs))]
}

var vC04SigDeltas = []int64{-100000, -100, -3, 3, 4, 6, 7, 8, 10, 15, 59, 61, 299, 301, 3600, 86399, 86401, 200000}

func vC04Sig(owner string, covered uint16, ttl uint32, exp int64, signer string) *dns.RRSIG {
	return &dns.RRSIG{
		Hdr:         dns.RR_Header{Name: owner, Rrtype: dns.TypeRRSIG, Class: dns.ClassINET, Ttl: ttl},
		TypeCovered: covered, Algorithm: dns.RSASHA256, Labels: uint8(dns.CountLabel(owner)), OrigTtl: ttl,
		Expiration: uint32(exp), Inception: uint32(exp - 10800), KeyTag: 1, SignerName: signer,
		Signature: "Tm90QVJlYWxTaWduYXR1cmVCdXRWYWxpZEJhc2U2NA==",
	}
}

func vC04SOA(zone string, ttl, min uint32) *dns.SOA {
	return &dns.SOA{Hdr: dns.RR_Header{Name: zone, Rrtype: dns.TypeSOA, Class: dns.ClassINET, Ttl: ttl},
		Ns: "ns1." + zone, Mbox: "hostmaster." + zone, Serial: 1, Refresh: 3600, Retry: 600, Expire: 86400, Minttl: min}
}

// vC04GenResponse builds an upstream-shaped response for qname/A:
// kind 0 positive, 1 NXDOMAIN, 2 NODATA, 3 referral, 4 empty NOERROR,
// 5 SERVFAIL, 6 positive with a foreign-owner tail record, 7 bare NXDOMAIN. signed adds
// RRSIGs with arbitrary windows relative to the wall clock.
func vC04GenResponse(r *rand.Rand, qname string, kind int, signed bool) *dns.Msg {
	m := new(dns.Msg)
	m.SetQuestion(qname, dns.TypeA)
	m.Response = true
	m.RecursionAvailable = true
	nowUnix := time.Now().Unix()
	sigExp := func() int64 {
		if r.Intn(4) == 0 {
			return nowUnix + int64(r.Intn(60)) + 3
		}
		return nowUnix + vC04SigDeltas[r.Intn(len(vC04SigDeltas))]
	}
	zone := "c04.test."
	switch kind {
	case 0, 6:
		ttl := vC04TTL(r)
		for i, n := 0, 1+r.Intn(2); i < n; i++ {
			t := ttl
			if r.Intn(4) == 0 {
				t = vC04TTL(r)
			}
			m.Answer = append(m.Answer, &dns.A{Hdr: dns.RR_Header{Name: qname, Rrtype: dns.TypeA, Class: dns.ClassINET, Ttl: t}, A: []byte{192, 0, 2, byte(1 + i)}})
		}
		if signed {
			m.Answer = append(m.Answer, vC04Sig(qname, dns.TypeA, vC04TTL(r), sigExp(), zone))
			m.AuthenticatedData = true
		}
		if kind == 6 {
			m.Answer = append(m.Answer, &dns.A{Hdr: dns.RR_Header{Name: "other." + zone, Rrtype: dns.TypeA, Class: dns.ClassINET, Ttl: uint32(r.Intn(4))}, A: []byte{192, 0, 2, 99}})
		}
		if r.Intn(5) == 0 {
			m.Extra = append(m.Extra, &dns.A{Hdr: dns.RR_Header{Name: "ns1." + zone, Rrtype: dns.TypeA, Class: dns.ClassINET, Ttl: vC04TTL(r)}, A: []byte{192, 0, 2, 53}})
		}
	case 1, 2:
		if kind == 1 {
			m.Rcode = dns.RcodeNameError
		}
		m.Ns = append(m.Ns, vC04SOA(zone, vC04TTL(r), vC04TTL(r)))
		if signed {
			m.Ns = append(m.Ns, vC04Sig(zone, dns.TypeSOA, vC04TTL(r), sigExp(), zone))
			m.Ns = append(m.Ns, &dns.NSEC{Hdr: dns.RR_Header{Name: "a." + zone, Rrtype: dns.TypeNSEC, Class: dns.ClassINET, Ttl: vC04TTL(r)}, NextDomain: "z." + zone, TypeBitMap: []uint16{dns.TypeA, dns.TypeRRSIG, dns.TypeNSEC}})
			m.Ns = append(m.Ns, vC04Sig("a."+zone, dns.TypeNSEC, vC04TTL(r), sigExp(), zone))
			m.AuthenticatedData = true
		}
	case 3:
		// NS for an ancestor of the question, no answer: a referral
		labels := dns.SplitDomainName(qname)
		parent := dns.Fqdn(strings.Join(labels[1:], "."))
		m.Ns = append(m.Ns, &dns.NS{Hdr: dns.RR_Header{Name: parent, Rrtype: dns.TypeNS, Class: dns.ClassINET, Ttl: vC04TTL(r)}, Ns: "ns1." + zone})
		m.Extra = append(m.Extra, &dns.A{Hdr: dns.RR_Header{Name: "ns1." + zone, Rrtype: dns.TypeA, Class: dns.ClassINET, Ttl: vC04TTL(r)}, A: []byte{192, 0, 2, 53}})
	case 4:
	case 7: // bare NXDOMAIN: no SOA
		m.Rcode = dns.RcodeNameError
	case 5:
		m.Rcode = dns.RcodeServerFailure
	}
	return m
}

// vC04SigNearSecond reports whether the classification of msg (expired
// signature or not) could differ between two wall-clock seconds a and b.
func vC04SigNearSecond(msg *dns.Msg, a, b int64) bool {
	if a == b {
		return false
	}
	near := false
	for _, sec := range [][]dns.RR{msg.Answer, msg.Ns, msg.Extra} {
		for _, rr := range sec {
			if s, ok := rr.(*dns.RRSIG); ok && int64(s.Expiration) >= a-1 && int64(s.Expiration) <= b+1 {
				near = true
			}
		}
	}
	return near
}

// ---------------------------------------------------------------- cache + pipeline

type vC04Env struct {
	c     *Cache
	e     *edns.EDNS
	k     *vC04Clock
	stub  *vC04Stub
	sub   *vC04Queryer
	ecs   time.Duration
	ids   map[*CacheEntry]int
	nextI int
}

// vC04Stub is the scripted downstream (stands in for resolver/forwarder): it
// folds the scripted lease into the request's ResponseMeta and writes the
// scripted response; without a script it answers REFUSED.
type vC04Stub struct {
	k       *vC04Clock
	script  map[string]*vC04Script
	calls   []string
	scopeOf func(req *dns.Msg) *dns.OPT
}

type vC04Script struct {
	resp   *dns.Msg
	hasCut bool
	cut    int64 // virtual instant
	cutKey uint64
}

func (s *vC04Stub) Name() string { return "vc04stub" }

func (s *vC04Stub) ServeDNS(ctx context.Context, ch *middleware.Chain) {
	req := ch.Request.Msg()
	name := strings.ToLower(req.Question[0].Name)
	if qt := req.Question[0].Qtype; qt != dns.TypeA {
		name += "|" + dns.TypeToString[qt] // scripts for other types are keyed name|TYPE
	}
	s.calls = append(s.calls, name)
	sc := s.script[name]
	resp := new(dns.Msg)
	if sc == nil {
		resp.SetRcode(req, dns.RcodeRefused)
		_ = ch.Writer.WriteMsg(resp)
		ch.Cancel()
		return
	}
	if sc.hasCut {
		middleware.ResponseMetaFrom(ctx).BoundCutFor(s.k.real(sc.cut), sc.cutKey)
	}
	resp = sc.resp.Copy()
	resp.SetReply(req)
	resp.Rcode = sc.resp.Rcode
	resp.AuthenticatedData = sc.resp.AuthenticatedData
	resp.RecursionAvailable = true
	if s.scopeOf != nil {
		if o := s.scopeOf(req); o != nil {
			resp.Extra = append(resp.Extra, o)
		}
	}
	_ = ch.Writer.WriteMsg(resp)
	ch.Cancel()
}

type vC04Queryer struct {
	handlers []middleware.Handler
	// done, when set, is told the question name of every sub-query as it returns
	done func(name string)
}

// Query runs the sub-pipeline with a writer that reports Internal(), as
// middleware.BufferWriter does.
func (q *vC04Queryer) Query(ctx context.Context, req *dns.Msg) (*dns.Msg, error) {
	w := mock.NewWriter("tcp", "127.0.0.255:0")
	ch := middleware.NewChain(q.handlers)
	ch.Reset(w, req)
	ch.Next(ctx)
	if q.done != nil && len(req.Question) > 0 {
		q.done(strings.ToLower(req.Question[0].Name))
	}
	if !w.Written() {
		return nil, middleware.ErrNoResponse
	}
	return w.Msg(), nil
}

func vC04NewEnv(prefetch int, ecsMax time.Duration, expire int) *vC04Env {
	off := false
	cfg := &config.Config{CacheSize: 1024, Expire: uint32(expire), RateLimit: 0, Prefetch: uint32(prefetch)}
	cfg.RFC9520 = &off
	cfg.CookieSecret = "6c6f6f6b61686172646c6f6f6b6168617264"
	cfg.ECS = config.ECSConfig{Enabled: true, ForwardV4Max: 24, ForwardV6Max: 56, MinScopeV4: 24, MinScopeV6: 56}
	cfg.ECS.CacheLimitTTL.Duration = ecsMax
	c := New(cfg)
	if c.prefetchQueue != nil {
		// no workers: queued refreshes are completed by the driver, in the order the history says
		c.prefetchQueue.Stop()
		c.prefetchQueue = NewPrefetchQueue(0, 64, c.metrics)
	}
	k := vC04NewClock()
	env := &vC04Env{c: c, e: edns.New(cfg), k: k, ecs: ecsMax, ids: map[*CacheEntry]int{}, nextI: 1}
	env.stub = &vC04Stub{k: k, script: map[string]*vC04Script{}}
	env.sub = &vC04Queryer{handlers: []middleware.Handler{c, env.stub}}
	c.SetQueryer(env.sub)
	return env
}

func (env *vC04Env) close() { env.c.Stop() }

// peek reads the stored entry without the expiry side effect of PositiveCache.Get.
func (env *vC04Env) peek(key uint64) *CacheEntry {
	if v, ok := env.c.positive.cache.Get(key); ok {
		return v.(*CacheEntry)
	}
	if v, ok := env.c.negative.cache.Get(key); ok {
		return v.(*CacheEntry)
	}
	return nil
}

func (env *vC04Env) id(e *CacheEntry) int {
	if e == nil {
		return 0
	}
	if i, ok := env.ids[e]; ok {
		return i
	}
	env.ids[e] = env.nextI
	env.nextI++
	return env.ids[e]
}

type vC04MsgShim struct {
	middleware.ResponseWriter
}

type vC04Reply struct {
	msg      *dns.Msg
	t0, t1   int64
	bound    string // Coq option Z: request meta after the query
	boundOK  bool
	boundV   int64
	stubbed  []string
	fastWire bool
	chase    bool
	cutWire  bool
}

// query serves name/A on a route: 0 cache alone (Msg path), 1 edns+cache
// decoded request with direct pack (byte path when eligible), 2 edns+cache
// wire-born request, 3 edns+cache forced Msg path.
func (env *vC04Env) query(route int, name string, do, cd bool, ecs *dns.EDNS0_SUBNET, client string) vC04Reply {
	req := new(dns.Msg)
	req.SetQuestion(name, dns.TypeA)
	req.RecursionDesired = true
	req.CheckingDisabled = cd
	if do || ecs != nil || route != 0 {
		req.SetEdns0(1232, do)
		if ecs != nil {
			o := req.IsEdns0()
			o.Option = append(o.Option, ecs)
		}
	}
	if client == "" {
		client = "198.51.100.77:40000"
	}
	writer := mock.NewWriter("udp", client)
	meta := new(middleware.ResponseMeta)
	ctx := middleware.WithResponseMeta(context.Background(), meta)
	env.stub.calls = nil
	fast0, chase0, cut0 := wireFastServed.Value(), wireChaseServed.Value(), wireCutServed.Value()
	var ch *middleware.Chain
	switch route {
	case 0:
		ch = middleware.NewChain([]middleware.Handler{env.c, env.stub})
		ch.Reset(writer, req)
	case 1, 3:
		ch = middleware.NewChain([]middleware.Handler{env.e, env.c, env.stub})
		ch.Reset(writer, req)
		ch.AllowDirectPack()
		if route == 3 {
			ch.Writer = &vC04MsgShim{ResponseWriter: ch.Writer}
		}
	case 2:
		raw, err := req.Pack()
		if err != nil {
			panic(err)
		}
		wreq := new(middleware.Request)
		if !wreq.ParseWire(raw, time.Now(), nil) {
			panic("wire request refused")
		}
		ch = middleware.NewChain([]middleware.Handler{env.e, env.c, env.stub})
		ch.ResetWire(writer, wreq)
		ch.AllowDirectPack()
	}
	t0 := env.k.now()
	ch.Next(ctx)
	t1 := env.k.now()
	rep := vC04Reply{t0: t0, t1: t1, stubbed: append([]string(nil), env.stub.calls...)}
	if writer.Written() {
		rep.msg = writer.Msg()
	}
	cut, _ := meta.Cut()
	rep.boundOK = !cut.IsZero()
	if rep.boundOK {
		rep.boundV = env.k.virt(cut)
	}
	rep.bound = vC04OZ(rep.boundOK, rep.boundV)
	rep.fastWire = wireFastServed.Value() > fast0
	rep.chase = wireChaseServed.Value() > chase0
	rep.cutWire = wireCutServed.Value() > cut0
	return rep
}

// storeGet is the resolver-private lookup (Store.GetWithContext) under a fresh request meta.
func (env *vC04Env) storeGet(name string, do bool) vC04Reply {
	req := new(dns.Msg)
	req.SetQuestion(name, dns.TypeA)
	req.RecursionDesired = true
	if do {
		req.SetEdns0(1232, true)
	}
	meta := new(middleware.ResponseMeta)
	ctx := middleware.WithResponseMeta(context.Background(), meta)
	t0 := env.k.now()
	msg, ok := env.c.store.GetWithContext(ctx, req)
	t1 := env.k.now()
	rep := vC04Reply{t0: t0, t1: t1}
	if ok {
		rep.msg = msg
	} else {
		rep.stubbed = []string{"(miss)"}
	}
	cut, _ := meta.Cut()
	rep.boundOK = !cut.IsZero()
	if rep.boundOK {
		rep.boundV = env.k.virt(cut)
	}
	rep.bound = vC04OZ(rep.boundOK, rep.boundV)
	return rep
}

// ttls returns every TTL in the reply (OPT excluded).
func vC04ReplyTTLs(m *dns.Msg) []uint32 {
	var out []uint32
	if m == nil {
		return out
	}
	for _, sec := range [][]dns.RR{m.Answer, m.Ns, m.Extra} {
		for _, rr := range sec {
			if rr.Header().Rrtype != dns.TypeOPT {
				out = append(out, rr.Header().Ttl)
			}
		}
	}
	return out
}

func vC04Key(name string, cd bool) uint64 {
	return CacheKey{Question: dns.Question{Name: name, Qtype: dns.TypeA, Qclass: dns.ClassINET}, CD: cd}.Hash()
}

func vC04ScopedKey(name string, cd bool, scope netip.Prefix) uint64 {
	return CacheKey{Question: dns.Question{Name: name, Qtype: dns.TypeA, Qclass: dns.ClassINET}, CD: cd, Scope: scope}.Hash()
}
