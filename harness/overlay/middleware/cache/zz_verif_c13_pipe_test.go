//go:build verif

package cache
