//go:build verif

package cache

// C13 correspondence driver, pipeline level (overlay-injected).  A real
// cache.Cache built by cache.New from generated recursion_firewall TTL settings
// (valid, invalid -> defaults, zero -> defaults) with rfc9520 on or off,
// driven through Cache.ServeDNS by client queries (Msg-born and wire-born,
// with and without EDNS / CD / ECS audiences) in front of a scripted
// downstream handler that plays the resolver: shared failure rcodes, every
// request-local cause (work budget, deadline, cancellation, optional
// enrichment, marked responses for attempt limit / probe limit / max
// recursion), useful answers, truncated replies, and the resolver's own
// RecordZoneFailure / ClearZoneFailure calls.  Time is virtual: either the
// failure cache's clock is scripted, or — clock left at time.Now as in
// production — the stored retry-after instants are shifted backwards
// (vC13Shift) with steps kept a second away from every boundary.
// Observables: client rcode, EDE code, downstream call count, FailureLen.

import (
	"context"
	"encoding/json"
	"fmt"
	"math/rand"
	"net"
	"net/netip"
	"os"
	"runtime"
	"strings"
	"sync"
	"sync/atomic"
	"testing"
	"testing/synctest"
	"time"

	"github.com/miekg/dns"
	"github.com/semihalev/sdns/config"
	"github.com/semihalev/sdns/internal/dnsutil"
	"github.com/semihalev/sdns/internal/mock"
	"github.com/semihalev/sdns/internal/waitgroup"
	"github.com/semihalev/sdns/middleware"
	ednsmw "github.com/semihalev/sdns/middleware/edns"
)

// vC13Shift emulates a clock advance of d for code that reads time.Now
// directly: every stored retry-after instant moves d into the past.  Entries
// are replaced by shifted copies under their own hash (the cache is far
// below capacity in these runs, so Add evicts nothing).
func vC13Shift(fc *FailureCache, d time.Duration) {
	type slot struct {
		h uint64
		e *failureEntry
	}
	var all []slot
	fc.entries.ForEach(func(h uint64, v any) bool {
		if e, ok := v.(*failureEntry); ok && e != nil {
			all = append(all, slot{h, e})
		}
		return true
	})
	for _, s := range all {
		cp := *s.e
		cp.retryAfter = cp.retryAfter.Add(-d)
		fc.entries.CompareAndSwap(s.h, s.e, &cp)
	}
}

// a context whose cancellation state the downstream script controls
type vC13Ctx struct {
	context.Context
	mu       sync.Mutex
	err      error
	deadline time.Time
	hasDL    bool
	done     chan struct{}
}

func newVC13Ctx(parent context.Context) *vC13Ctx {
	return &vC13Ctx{Context: parent, done: make(chan struct{})}
}
func (c *vC13Ctx) Deadline() (time.Time, bool) {
	c.mu.Lock()
	defer c.mu.Unlock()
	return c.deadline, c.hasDL
}
func (c *vC13Ctx) Done() <-chan struct{} { return c.done }
func (c *vC13Ctx) Err() error {
	c.mu.Lock()
	defer c.mu.Unlock()
	return c.err
}
func (c *vC13Ctx) fail(err error) {
	c.mu.Lock()
	if c.err == nil {
		c.err = err
		close(c.done)
	}
	c.mu.Unlock()
}
func (c *vC13Ctx) setDeadline(t time.Time) {
	c.mu.Lock()
	c.deadline, c.hasDL = t, true
	c.mu.Unlock()
}

type vC13Down struct {
	kind       int // 0 failure, 1 useful, 2 truncated
	rcode      int
	ctxErr     int // 0 none, 1 cancel, 2 deadline exceeded (Err), 3 deadline reached but Err not yet published
	bestEffort bool
	workLimit  bool
	marked     int // 0 none, 1..6 request-local error kinds
	zoneAct    bool
	zone       vC13Name
	zoneEmpty  bool
	zoneClass  uint16
	// useful answer to an ECS audience: 0 no ECS option in the response, 1 SCOPE=0 (global),
	// 2 SCOPE shorter than SOURCE, 3 SCOPE = SOURCE, 4 SCOPE longer than SOURCE (clamped),
	// 5 non-zero SCOPE that cannot be interpreted (family and address disagree): kept for the asking audience
	respScope int
	// set after the query: the cache filed the answer under an ECS audience
	storedScoped bool
}

func (d vC13Down) local() bool {
	return d.ctxErr != 0 || d.bestEffort || d.workLimit || d.marked != 0
}

func (d vC13Down) coq() string {
	zc := "None"
	if d.zoneAct {
		z := "(Some " + d.zone.coq() + ")"
		if d.zoneEmpty {
			z = "None"
		}
		zc = fmt.Sprintf("(Some (%d%%N, %s))", d.zoneClass, z)
	}
	switch d.kind {
	case 0:
		return fmt.Sprintf("(PDFail (mk_req_local %v %v %v %v) %s)", d.ctxErr != 0, d.bestEffort, d.workLimit, d.marked != 0, zc)
	case 1:
		if d.storedScoped {
			return fmt.Sprintf("(PDUsefulScoped %s)", zc)
		}
		return fmt.Sprintf("(PDUseful %s)", zc)
	}
	return "PDTrunc"
}

func (d vC13Down) String() string {
	var s []string
	switch d.kind {
	case 0:
		s = append(s, "fail rcode="+dns.RcodeToString[d.rcode])
	case 1:
		s = append(s, "useful rcode="+dns.RcodeToString[d.rcode])
	case 2:
		s = append(s, "truncated")
	}
	if d.ctxErr != 0 {
		s = append(s, []string{"", "ctx-canceled", "ctx-deadline", "ctx-deadline-unpublished"}[d.ctxErr])
	}
	if d.bestEffort {
		s = append(s, "best-effort")
	}
	if d.workLimit {
		s = append(s, "work-budget")
	}
	if d.marked != 0 {
		s = append(s, []string{"", "mark:attempt-limit", "mark:probe-limit", "mark:max-recursion", "mark:canceled", "mark:deadline", "mark:work-limit"}[d.marked])
	}
	if d.respScope != 0 {
		s = append(s, []string{"", "answer SCOPE=0", "answer SCOPE<SOURCE", "answer SCOPE=SOURCE", "answer SCOPE>SOURCE", "answer SCOPE uninterpretable"}[d.respScope])
	}
	if d.zoneAct {
		if d.kind == 1 {
			s = append(s, "ClearZoneFailure "+d.zone.pres())
		} else {
			s = append(s, "RecordZoneFailure "+d.zone.pres())
		}
	}
	return strings.Join(s, " ")
}

// one client query through the real cache; returns rcode, EDE, downstream calls
func vC13Serve(c *Cache, ednsH middleware.Handler, k vC13QKey, edns, do, wire bool, d vC13Down) (rcode int, ede int, calls int, scope netip.Prefix) {
	return vC13ServeHold(c, ednsH, k, edns, do, wire, d, nil)
}

// the same with a hook that runs when the request enters the downstream handler
// (before the scripted outcome is produced): cohort cases park requests there
func vC13ServeHold(c *Cache, ednsH middleware.Handler, k vC13QKey, edns, do, wire bool, d vC13Down, hold func()) (rcode int, ede int, calls int, scope netip.Prefix) {
	req := k.req()
	if edns || k.scope.IsValid() {
		req.SetEdns0(1232, do)
		if k.scope.IsValid() {
			a := k.scope.Addr()
			fam := uint16(2)
			if a.Is4() {
				fam = 1
			}
			req.IsEdns0().Option = append(req.IsEdns0().Option, &dns.EDNS0_SUBNET{
				Code: dns.EDNS0SUBNET, Family: fam, SourceNetmask: uint8(k.scope.Bits()), Address: net.IP(a.AsSlice()),
			})
		}
	}
	base := context.Background()
	var ledger *middleware.RecursionWorkLedger
	if d.workLimit {
		ledger = middleware.NewRecursionWorkLedger(middleware.RecursionWorkPolicy{Mode: middleware.RecursionWorkEnforce, MaxOutboundQueries: 1, MaxInternalQueries: 32})
		base = middleware.WithRecursionWork(base, ledger)
	}
	if d.bestEffort {
		base = middleware.WithBestEffortRecursionWork(base)
	}
	ctx := newVC13Ctx(base)
	var n atomic.Int32
	stub := middleware.HandlerFunc(func(hctx context.Context, ch *middleware.Chain) {
		n.Add(1)
		if hold != nil {
			hold()
		}
		rq := ch.Request.Msg()
		q := rq.Question[0]
		resp := new(dns.Msg)
		resp.SetReply(rq)
		switch d.kind {
		case 0:
			resp.Rcode = d.rcode
			if rq.IsEdns0() != nil {
				resp.SetEdns0(1232, false)
				dnsutil.SetEDE(resp, dns.ExtendedErrorCodeNoReachableAuthority, "no reachable authority")
			}
			if d.zoneAct {
				z := d.zone.pres()
				if d.zoneEmpty {
					z = ""
				}
				c.store.RecordZoneFailure(dns.Question{Name: q.Name, Qtype: q.Qtype, Qclass: d.zoneClass}, z)
			}
			if d.workLimit {
				_ = ledger.Debit(middleware.RecursionWorkOutboundQuery)
				_ = ledger.Debit(middleware.RecursionWorkOutboundQuery)
			}
			if d.marked != 0 {
				mctx, guard := middleware.EnsureResolutionAttemptGuard(hctx)
				var err error
				switch d.marked {
				case 1:
					for range 3 {
						_ = guard.Begin(q, "192.0.2.53:53", "udp")
					}
					err = guard.Begin(q, "192.0.2.53:53", "udp")
				case 2:
					err = middleware.ErrFailureProbeLimit
				case 3:
					err = middleware.ErrMaxRecursion
				case 4:
					err = context.Canceled
				case 5:
					err = context.DeadlineExceeded
				case 6:
					err = fmt.Errorf("resolve: %w", middleware.ErrRecursionWorkLimit)
				}
				middleware.MarkRequestLocalFailureResponse(mctx, resp, err)
			}
			switch d.ctxErr {
			case 1:
				ctx.fail(context.Canceled)
			case 2:
				ctx.setDeadline(time.Unix(1, 0))
				ctx.fail(context.DeadlineExceeded)
			case 3:
				ctx.setDeadline(time.Unix(1, 0))
			}
		case 1:
			resp.Rcode = d.rcode
			if d.rcode == dns.RcodeSuccess {
				resp.Answer = []dns.RR{&dns.A{Hdr: dns.RR_Header{Name: q.Name, Rrtype: dns.TypeA, Class: q.Qclass, Ttl: 300}, A: []byte{192, 0, 2, 80}}}
			} else {
				resp.Ns = []dns.RR{&dns.SOA{Hdr: dns.RR_Header{Name: ".", Rrtype: dns.TypeSOA, Class: q.Qclass, Ttl: 300}, Ns: "a.", Mbox: "b.", Serial: 1, Refresh: 1, Retry: 1, Expire: 1, Minttl: 300}}
			}
			if d.respScope != 0 && k.scope.IsValid() {
				// the authority's ECS answer: the audience it says the answer is good for
				a := k.scope.Masked().Addr()
				fam, src := uint16(2), k.scope.Bits()
				if a.Is4() {
					fam = 1
				}
				sc := []int{0, 0, src - 8, src, src + 8, src}[d.respScope]
				if d.respScope == 5 {
					fam = 3 - fam // the option's family contradicts its address
				}
				resp.SetEdns0(1232, false)
				resp.IsEdns0().Option = append(resp.IsEdns0().Option, &dns.EDNS0_SUBNET{
					Code: dns.EDNS0SUBNET, Family: fam, SourceNetmask: uint8(src), SourceScope: uint8(sc), Address: net.IP(a.AsSlice()),
				})
			}
			if d.zoneAct {
				z := d.zone.pres()
				if d.zoneEmpty {
					z = ""
				}
				c.store.ClearZoneFailure(dns.Question{Name: q.Name, Qtype: q.Qtype, Qclass: d.zoneClass}, z)
			}
		case 2:
			resp.Rcode = d.rcode
			resp.Truncated = true
		}
		_ = ch.Writer.WriteMsg(resp)
		ch.Cancel()
	})
	writer := mock.NewWriter("udp", "192.0.2.1:53000")
	chain := middleware.NewChain([]middleware.Handler{c, stub})
	if wire && !k.scope.IsValid() {
		// the byte path leaves OPT and EDE to the edns layer, as the live chain wires it
		chain = middleware.NewChain([]middleware.Handler{ednsH, c, stub})
		raw, err := req.Pack()
		if err != nil {
			panic(err)
		}
		wr := new(middleware.Request)
		if wr.ParseWire(raw, time.Now(), nil) {
			chain.ResetWire(writer, wr)
			chain.AllowDirectPack()
		} else {
			chain.Reset(writer, req)
		}
	} else {
		chain.Reset(writer, req)
	}
	clientAddr, _ := netip.AddrFromSlice(writer.RemoteIP())
	if clientAddr.Is4In6() {
		clientAddr = clientAddr.Unmap()
	}
	scope = c.requestScope(req, clientAddr)
	chain.Next(ctx)
	rcode, ede = 999, -1
	if m := writer.Msg(); m != nil && writer.Written() {
		rcode = m.Rcode
		if e := dnsutil.GetEDE(m); e != nil {
			ede = int(e.InfoCode)
		}
	}
	return rcode, ede, int(n.Load()), scope
}

func vC13PipeConfig(r *rand.Rand) (*config.Config, int, time.Duration, time.Duration, bool) {
	cfg := &config.Config{CacheSize: 1024, Expire: 300}
	cfg.ECS.Enabled = true
	cfg.ECS.ClientNetworks = []string{"0.0.0.0/0", "::/0"}
	cfg.ECS.ForwardV4Max = 24
	cfg.ECS.ForwardV6Max = 56
	size := []int{0, 0, 4096, 512, -3}[r.Intn(5)]
	var init, max time.Duration
	switch r.Intn(8) {
	case 0: // all defaults
	case 1: // invalid: below the one second floor
		init, max = time.Second-1, time.Minute
	case 2: // invalid: above the five minute ceiling
		init, max = 5*time.Second, 5*time.Minute+1
	case 3: // invalid: max below min
		init, max = 30*time.Second, 29*time.Second
	case 4: // only one of the two set
		if r.Intn(2) == 0 {
			init = time.Duration(1+r.Intn(5)) * time.Second
		} else {
			max = time.Duration(5+r.Intn(296)) * time.Second
		}
	default:
		init, max = vC13Durations(r)
	}
	cfg.RecursionFirewall.FailureCacheSize = size
	cfg.RecursionFirewall.FailureCacheMinTTL.Duration = init
	cfg.RecursionFirewall.FailureCacheMaxTTL.Duration = max
	off := r.Intn(7) == 0
	if off {
		f := false
		cfg.RFC9520 = &f
	} else if r.Intn(2) == 0 {
		tr := true
		cfg.RFC9520 = &tr
	}
	return cfg, size, init, max, off
}

func vC13PipeHistory(r *rand.Rand) map[string]any {
	cfg, rawSize, rawInit, rawMax, off := vC13PipeConfig(r)
	c := New(cfg)
	defer c.Stop()
	ednsH := ednsmw.New(cfg)
	g := newVC13Gen(r)
	g.scopes = []netip.Prefix{
		{}, {}, {}, {},
		netip.MustParsePrefix("198.51.100.0/24"),
		netip.MustParsePrefix("198.51.100.77/24"),
		netip.MustParsePrefix("198.51.100.0/23"),
		netip.MustParsePrefix("203.0.113.0/24"),
		netip.MustParsePrefix("2001:db8:1::/48"),
	}
	g.types = []uint16{dns.TypeA, dns.TypeAAAA, dns.TypeSOA}
	shiftMode := r.Intn(4) == 0
	clock := &vC13Clock{now: vC13Base}
	if !shiftMode {
		c.failure.now = clock.Now
	}
	init, max := c.failure.initialTTL, c.failure.maxTTL
	started := time.Now()
	var virt int64 // virtual nanoseconds elapsed
	jitterRisk := false

	tab := newVC13Tab()
	var steps, desc []string
	var recent []vC13QKey
	cachedHits, downstreamCalls, localInjected := 0, 0, 0
	// boundaries in virtual time: expiry and idle>=max instants of stored entries
	boundaries := func() []int64 {
		var b []int64
		nowReal := time.Now()
		c.failure.entries.ForEach(func(_ uint64, v any) bool {
			if e, ok := v.(*failureEntry); ok && e != nil {
				var at int64
				if shiftMode {
					at = virt + int64(e.retryAfter.Sub(nowReal))
				} else {
					at = int64(e.retryAfter.Sub(vC13Base))
				}
				b = append(b, at, at+int64(max))
			}
			return true
		})
		return b
	}
	// the answers cached so far have lived out their TTL
	expireAnswers := func() {
		var keys []uint64
		c.store.ForEach(func(positive bool, key uint64, _ *CacheEntry) bool {
			if positive {
				keys = append(keys, key)
			}
			return true
		})
		for _, key := range keys {
			c.positive.Remove(key)
		}
		steps = append(steps, "PExpireAnswers")
		desc = append(desc, "cached answers expire")
	}
	nsteps := 10 + r.Intn(16)
	// directed episode: fail, let the backoff end, recover, let the answer expire,
	// fail again, and ask once more between one and two initial intervals later —
	// the second failure must have started a new episode
	episode := r.Intn(3) == 0
	var epKey vC13QKey
	epRespScope := -1
	if episode {
		epKey = g.qkey()
		epKey.qclass = dns.ClassINET
		if r.Intn(3) != 0 {
			// an ECS audience whose recovery carries a SCOPE that is not its SOURCE
			// (no option, 0, shorter): the reset must still address the CLIENT's audience
			epKey.scope = g.scopes[4+r.Intn(len(g.scopes)-4)]
			epRespScope = r.Intn(3)
		}
		nsteps += 6
	}
	for i := 0; i < nsteps; i++ {
		script := -1
		if episode && i < 9 {
			script = i
		}
		if script == 3 || (script < 0 && r.Intn(12) == 0) {
			expireAnswers()
			continue
		}
		if script == 1 || script == 5 || script == 7 || (script < 0 && r.Intn(4) == 0) {
			var dt int64
			bs := boundaries()
			switch r.Intn(6) {
			case 0, 1, 2:
				if len(bs) > 0 {
					dt = bs[r.Intn(len(bs))] - virt + int64(r.Intn(3)-1)
				}
			case 3:
				dt = r.Int63n(int64(max) + 1)
			case 4:
				dt = int64(init) + int64(r.Intn(3)-1)
			case 5:
				dt = int64(time.Duration(1+r.Intn(72)) * time.Hour)
			}
			switch script {
			case 1:
				dt = int64(init) + 1 + r.Int63n(int64(time.Second))
			case 5:
				dt = int64(init) + 1 + r.Int63n(int64(time.Second))
				if 2*init <= max && r.Intn(2) == 0 {
					dt = 2*int64(init) - 1 - r.Int63n(int64(time.Second)/2)
				}
			case 7:
				dt = r.Int63n(int64(max) + 1)
			}
			if dt < 0 {
				dt = 0
			}
			if shiftMode {
				// wall-clock jitter must not decide anything: stay one second away from every boundary
				for tries := 0; tries < 8; tries++ {
					moved := false
					for _, b := range bs {
						if diff := virt + dt - b; diff > -int64(time.Second) && diff < int64(time.Second) {
							dt = b + int64(time.Second) + int64(r.Intn(1000))*int64(time.Millisecond) - virt
							moved = true
						}
					}
					if !moved {
						break
					}
				}
				if dt < 0 {
					dt = 0
				}
				for _, b := range bs {
					if diff := virt + dt - b; diff > -int64(time.Second) && diff < int64(time.Second) {
						jitterRisk = true // could not get clear of every boundary
					}
				}
				vC13Shift(c.failure, time.Duration(dt))
			} else {
				clock.now = clock.now.Add(time.Duration(dt))
			}
			virt += dt
			steps = append(steps, fmt.Sprintf("PAdvance %d", dt))
			desc = append(desc, "advance "+time.Duration(dt).String())
			continue
		}
		k := g.qkey()
		if k.qclass == dns.ClassCHAOS && r.Intn(2) == 0 {
			k.qclass = dns.ClassINET
		}
		if len(recent) > 0 && r.Intn(100) < 45 {
			// ask again for something that was asked before, exactly or with one
			// dimension changed: the partitions a cached failure must not cross
			k = recent[r.Intn(len(recent))]
			k.name = g.caseMix(k.name)
			switch r.Intn(8) {
			case 0:
				k.qtype = g.types[r.Intn(len(g.types))]
			case 1:
				k.cd = !k.cd
			case 2:
				k.scope = g.scopes[r.Intn(len(g.scopes))]
			case 3:
				k.qclass = g.classes[r.Intn(len(g.classes))]
			case 4:
				k.name = append(vC13Name{vC13RandLabel(r, false)}, k.name...) // a child
			}
		}
		w := r.Intn(20)
		switch script {
		case 0, 4, 6, 8:
			k, w = epKey, 0
			k.name = g.caseMix(k.name)
		case 2:
			k, w = epKey, 10
		}
		recent = append(recent, k)
		edns := r.Intn(3) != 0
		var d vC13Down
		switch {
		case w < 10:
			d.kind = 0
			d.rcode = []int{dns.RcodeServerFailure, dns.RcodeServerFailure, dns.RcodeRefused, dns.RcodeNotImplemented}[r.Intn(4)]
			if script < 0 && r.Intn(5) < 2 { // inject request-local causes
				if r.Intn(3) == 0 {
					d.ctxErr = 1 + r.Intn(3)
				}
				if r.Intn(4) == 0 {
					d.bestEffort = true
				}
				if r.Intn(4) == 0 {
					d.workLimit = true
				}
				if r.Intn(3) == 0 || !d.local() {
					d.marked = 1 + r.Intn(6)
				}
			}
			if !d.local() && r.Intn(3) == 0 { // the resolver published a zone failure on the way
				d.zoneAct = true
				d.zoneClass = k.qclass
				cut := r.Intn(len(k.name) + 1)
				d.zone = g.caseMix(k.name[cut:])
				if r.Intn(6) == 0 {
					d.zone, d.zoneClass = g.zone()
				}
				d.zoneEmpty = r.Intn(15) == 0
			}
		case w < 16:
			d.kind = 1
			d.rcode = dns.RcodeNameError
			if k.qtype == dns.TypeA && r.Intn(2) == 0 {
				d.rcode = dns.RcodeSuccess
			}
			if r.Intn(3) == 0 {
				d.zoneAct = true
				d.zoneClass = k.qclass
				cut := r.Intn(len(k.name) + 1)
				d.zone = g.caseMix(k.name[cut:])
				d.zoneEmpty = r.Intn(15) == 0
			}
			if k.scope.IsValid() && k.scope.Bits() >= 16 {
				// what the authority says about the answer's audience must not matter for
				// whose failure state the recovery resets: that is the client's audience
				d.respScope = r.Intn(6)
				if script == 2 && epRespScope >= 0 {
					d.respScope = epRespScope
				}
			}
		default:
			d.kind = 2
			d.rcode = []int{dns.RcodeServerFailure, dns.RcodeSuccess}[r.Intn(2)]
		}
		// A wire-born request continues on a detached context (Chain.Materialize):
		// by design no value, deadline or ledger of the outer context crosses that
		// boundary, so causes that live in the context can only be injected into a
		// Msg-born request here; marked responses travel through ResponseMeta and
		// work for both.
		wire := r.Intn(3) == 0 && d.ctxErr == 0 && !d.bestEffort && !d.workLimit
		rcode, ede, calls, scope := vC13Serve(c, ednsH, k, edns, r.Intn(2) == 0, wire, d)
		mk := k
		mk.scope = scope // the audience the cache derived from the ECS option
		d.storedScoped = d.kind == 1 && d.respScope >= 2 && scope.IsValid() && calls > 0
		tab.addQuestion(mk)
		if d.zoneAct {
			tab.addZone(d.zone, d.zoneClass)
		}
		if calls == 0 && rcode == dns.RcodeServerFailure {
			cachedHits++
		}
		downstreamCalls += calls
		if d.kind == 0 && d.local() && calls > 0 {
			localInjected++
		}
		edeC := "None"
		if ede >= 0 {
			edeC = fmt.Sprintf("(Some %d%%N)", ede)
		}
		steps = append(steps, fmt.Sprintf("PQuery %s %v %s %d %s %d %d", mk.coq(), edns || k.scope.IsValid(), d.coq(), rcode, edeC, calls, c.store.FailureLen()))
		desc = append(desc, fmt.Sprintf("query %s edns=%v wire=%v downstream{%s} -> rcode=%d ede=%d downstream_calls=%d failure_len=%d", mk.coq(), edns, wire, d.String(), rcode, ede, calls, c.store.FailureLen()))
		if d.storedScoped {
			// an answer filed under an ECS audience: the run's model of the answer cache
			// (a set of questions) does not cover audience-scoped answers, so they leave at once
			expireAnswers()
		}
	}
	final := "[]"
	exact := !shiftMode
	if exact {
		final, _ = vC13Dump(c.failure)
	}
	k := "pipe"
	switch {
	case off:
		k = "pipe-rfc9520-off"
	case shiftMode:
		k = "pipe-shifted-instants"
	}
	out := map[string]any{
		"k":          k,
		"coq":        fmt.Sprintf("CasePipe (%d) (%d) (%d) %v %v (%d) (%d) %s [%s] %s", rawSize, int64(rawInit), int64(rawMax), off, exact, int64(init), int64(max), tab.coq(), strings.Join(steps, ";"), final),
		"nontrivial": cachedHits > 0 && downstreamCalls > 0,
		"desc": map[string]any{"failure_cache_size": rawSize, "min_ttl": rawInit.String(), "max_ttl": rawMax.String(), "effective": init.String() + ".." + max.String(),
			"rfc9520_off": off, "clock": map[bool]string{true: "stored instants shifted, time.Now", false: "scripted"}[shiftMode],
			"steps": desc, "cached_failure_answers": cachedHits, "downstream_calls": downstreamCalls, "request_local_injected": localInjected},
	}
	if shiftMode && (jitterRisk || time.Since(started) > 400*time.Millisecond) {
		out["inconclusive"] = true // the host stalled; wall-clock jitter could have crossed a boundary
	}
	return out
}

// an expired zone failure and a cohort of concurrent queries for distinct
// names below it: one probe reaches the downstream, the others are answered
// from the failure the probe re-established
func vC13ProbeCase(r *rand.Rand) map[string]any {
	cfg := &config.Config{CacheSize: 1024}
	cfg.ECS.Enabled = true
	cfg.ECS.ClientNetworks = []string{"0.0.0.0/0", "::/0"}
	cfg.ECS.ForwardV4Max = 24
	cfg.ECS.ForwardV6Max = 56
	c := New(cfg)
	defer c.Stop()
	clock := &vC13Clock{now: vC13Base}
	c.failure.now = clock.Now
	g := newVC13Gen(r)
	zone := g.names[2]
	qclass := uint16(dns.ClassINET)
	tab := newVC13Tab()
	c.store.RecordZoneFailure(dns.Question{Name: "seed." + zone.pres(), Qtype: dns.TypeA, Qclass: qclass}, zone.pres())
	expired := vC13Base.Add(c.failure.initialTTL + 1)
	clock.now = expired

	// the cohort: distinct names below the zone, from the shared audience and from
	// several ECS audiences, some with an expired failure of their own
	audiences := []netip.Prefix{{}, {}, netip.MustParsePrefix("198.51.100.0/24"), netip.MustParsePrefix("203.0.113.0/24"), netip.MustParsePrefix("2001:db8:1::/48")}
	scoped := r.Intn(3) != 0
	n := 3 + r.Intn(6)
	type member struct {
		key   vC13QKey
		req   *dns.Msg
		exact bool
	}
	mkReq := func(k vC13QKey) *dns.Msg {
		req := k.req()
		req.SetEdns0(1232, false)
		if k.scope.IsValid() {
			a := k.scope.Addr()
			fam := uint16(2)
			if a.Is4() {
				fam = 1
			}
			req.IsEdns0().Option = append(req.IsEdns0().Option, &dns.EDNS0_SUBNET{Code: dns.EDNS0SUBNET, Family: fam, SourceNetmask: uint8(k.scope.Bits()), Address: net.IP(a.AsSlice())})
		}
		return req
	}
	client, _ := netip.AddrFromSlice(net.ParseIP("192.0.2.1").To4())
	var members []member
	var keys, ncoq []string
	for i := 0; i < n; i++ {
		nm := append(vC13Name{[]byte(fmt.Sprintf("p%d", i))}, zone...)
		if i%3 == 2 {
			nm = append(vC13Name{vC13RandLabel(r, false)}, nm...)
		}
		k := vC13QKey{name: nm, qtype: dns.TypeA, qclass: qclass}
		if scoped {
			k.scope = audiences[r.Intn(len(audiences))]
		}
		req := mkReq(k)
		k.scope = c.requestScope(req, client) // the audience the cache derives
		tab.addQuestion(k)
		m := member{key: k, req: req, exact: i%2 == 1}
		if m.exact {
			clock.now = vC13Base
			c.store.RecordFailure(req, k.scope, FailureProvenance("response"), nil)
			clock.now = expired
		}
		members = append(members, m)
		ncoq = append(ncoq, fmt.Sprintf("(%s,%v,%s)", nm.coq(), m.exact, vC13ScopeCoq(k.scope)))
	}
	for _, m := range members {
		key, ok := c.store.FailureRetryKey(m.req, m.key.scope)
		if ok {
			keys = append(keys, fmt.Sprintf("Some %d%%N", key))
		} else {
			keys = append(keys, "None")
		}
	}

	var calls atomic.Int32
	entered := make(chan struct{}, n)
	release := make(chan struct{})
	stub := middleware.HandlerFunc(func(_ context.Context, ch *middleware.Chain) {
		calls.Add(1)
		entered <- struct{}{}
		<-release
		rq := ch.Request.Msg()
		resp := new(dns.Msg)
		resp.SetRcode(rq, dns.RcodeServerFailure)
		// the resolver finds the zone still dead
		c.store.RecordZoneFailure(rq.Question[0], zone.pres())
		_ = ch.Writer.WriteMsg(resp)
		ch.Cancel()
	})
	type result struct {
		rcode, ede int
	}
	results := make(chan result, n)
	run := func(m member) {
		writer := mock.NewWriter("udp", "192.0.2.1:53000")
		chain := middleware.NewChain([]middleware.Handler{c, stub})
		chain.Reset(writer, m.req.Copy())
		chain.Next(context.Background())
		res := result{999, -1}
		if msg := writer.Msg(); msg != nil {
			res.rcode = msg.Rcode
			if e := dnsutil.GetEDE(msg); e != nil {
				res.ede = int(e.InfoCode)
			}
		}
		results <- res
	}
	go run(members[0])
	<-entered // the probe leader is inside the downstream
	for _, m := range members[1:] {
		go run(m)
	}
	// Followers either queue behind the leader's generation (then they block
	// until it is released) or — if single-probe election is broken — reach the
	// downstream themselves while the probe is still in flight.
	before := 1
	deadline := time.After(30 * time.Millisecond)
wait:
	for before < n {
		select {
		case <-entered:
			before++
		case <-deadline:
			break wait
		}
	}
	runtime.Gosched()
	close(release)
	cached := 0
	for i := 0; i < n; i++ {
		res := <-results
		if res.rcode == dns.RcodeServerFailure && res.ede == int(dns.ExtendedErrorCodeCachedError) {
			cached++
		}
	}
	// a follower the scheduler held back until after the probe completed starts
	// a new generation of its own; that is a later probe, not a concurrent one
	late := int(calls.Load()) - before
	total := before
	cached += late
	k := "probe-cohort"
	if scoped {
		k = "probe-cohort-ecs"
	}
	return map[string]any{
		"k":          k,
		"coq":        fmt.Sprintf("CaseProbe %s %s %d [%s] [%s] %d %d", tab.coq(), zone.coq(), qclass, strings.Join(ncoq, ";"), strings.Join(keys, ";"), total, cached),
		"nontrivial": true,
		"desc":       map[string]any{"zone": zone.pres(), "cohort": n, "ecs_audiences": scoped, "downstream_calls_while_probe_in_flight": total, "answered_from_failure_cache": cached, "retry_keys": keys},
	}
}

// the election under different probe outcomes: every probe stays in the
// downstream for a few milliseconds; the most that are there at once is observed
func vC13ElectCase(r *rand.Rand) map[string]any {
	c := New(&config.Config{CacheSize: 1024})
	defer c.Stop()
	clock := &vC13Clock{now: vC13Base}
	c.failure.now = clock.Now
	g := newVC13Gen(r)
	zone := g.names[2]
	c.store.RecordZoneFailure(dns.Question{Name: "seed." + zone.pres(), Qtype: dns.TypeA, Qclass: dns.ClassINET}, zone.pres())
	clock.now = vC13Base.Add(c.failure.initialTTL + 1)
	firstLocal := r.Intn(3) != 0
	n := 3 + r.Intn(8)
	var calls, inFlight, maxInFlight atomic.Int32
	stub := middleware.HandlerFunc(func(hctx context.Context, ch *middleware.Chain) {
		call := calls.Add(1)
		cur := inFlight.Add(1)
		for {
			m := maxInFlight.Load()
			if cur <= m || maxInFlight.CompareAndSwap(m, cur) {
				break
			}
		}
		time.Sleep(4 * time.Millisecond)
		rq := ch.Request.Msg()
		resp := new(dns.Msg)
		resp.SetRcode(rq, dns.RcodeServerFailure)
		if firstLocal && call == 1 {
			mctx, _ := middleware.EnsureResolutionAttemptGuard(hctx)
			middleware.MarkRequestLocalFailureResponse(mctx, resp, middleware.ErrResolutionAttemptLimit)
		} else {
			c.store.RecordZoneFailure(rq.Question[0], zone.pres())
		}
		inFlight.Add(-1)
		_ = ch.Writer.WriteMsg(resp)
		ch.Cancel()
	})
	type result struct{ rcode, ede int }
	results := make(chan result, n)
	gate := make(chan struct{})
	for i := 0; i < n; i++ {
		nm := append(vC13Name{[]byte(fmt.Sprintf("e%d", i))}, zone...)
		go func() {
			<-gate
			req := vC13QKey{name: nm, qtype: dns.TypeA, qclass: dns.ClassINET}.req()
			req.SetEdns0(1232, false)
			writer := mock.NewWriter("udp", "192.0.2.1:53000")
			chain := middleware.NewChain([]middleware.Handler{c, stub})
			chain.Reset(writer, req)
			chain.Next(context.Background())
			res := result{999, -1}
			if msg := writer.Msg(); msg != nil {
				res.rcode = msg.Rcode
				if e := dnsutil.GetEDE(msg); e != nil {
					res.ede = int(e.InfoCode)
				}
			}
			results <- res
		}()
	}
	close(gate)
	served, shed := 0, 0
	for i := 0; i < n; i++ {
		res := <-results
		switch {
		case res.rcode == dns.RcodeServerFailure && res.ede == int(dns.ExtendedErrorCodeCachedError):
			served++
		case res.rcode == dns.RcodeServerFailure && res.ede == int(dns.ExtendedErrorCodeOther):
			shed++
		}
	}
	return map[string]any{
		"k":          map[bool]string{true: "elect-first-probe-local", false: "elect-first-probe-shared"}[firstLocal],
		"coq":        fmt.Sprintf("CaseElect %d %v %d %d %d %d", n, firstLocal, maxInFlight.Load(), calls.Load(), served, shed),
		"nontrivial": true,
		"desc":       map[string]any{"zone": zone.pres(), "requests": n, "first_probe_request_local": firstLocal, "max_probes_in_flight": maxInFlight.Load(), "probes_sent": calls.Load(), "served_from_failure_cache": served, "shed_by_probe_limit": shed},
	}
}

// The wire fast path's gate.  A failure is recorded through the real ladder
// (wire-born query, denial rung runs and misses, downstream SERVFAILs), with
// validated NSEC proofs admitted to the denial index before the rung, between
// rung and write-back, after the record, on or off the name's path; then the
// same question arrives wire-born again.  Observed: did the byte path compose
// the answer (wireFailureServed), and what the client got.  The proofs come
// from the package's own fixtures (newDenialProofNSECFixture) and never cover
// the failing name, so both ladders answer the cached failure.
func vC13WireGateCase(t *testing.T, r *rand.Rand) map[string]any {
	cfg := &config.Config{CacheSize: 1024}
	dnssecOff := r.Intn(4) == 0
	if dnssecOff {
		cfg.DNSSEC = "off"
	}
	c := New(cfg)
	defer c.Stop()
	ednsH := ednsmw.New(cfg)
	zone := "sig.test."
	other := "other.test."
	pairs := [][2]string{{"glib", "help"}, {"mo", "mu"}, {"ga", "gb"}}
	stamps := map[string]int{}
	nextStamp := 0
	admit := func(z string) {
		p := pairs[nextStamp%len(pairs)]
		fixture := newDenialProofNSECFixture(t, time.Now().UTC(), "q."+z, dns.TypeA, dns.RcodeNameError, z, [2]string{p[0] + "." + z, p[1] + "." + z})
		aggressiveNegativeMakeSignaturesPackable(fixture.msg)
		if c.store.RecordDenialProof(fixture.msg, z, middleware.ValidatedNegativeProofNSEC, time.Time{}) {
			nextStamp++
			stamps[z] = nextStamp
		}
	}
	idx := func() string {
		var rows []string
		for _, z := range []string{zone, other} {
			if id, ok := stamps[z]; ok {
				rows = append(rows, fmt.Sprintf("(%s,%d%%N)", vC13LabelsOf(z).coq(), id))
			}
		}
		return "[" + strings.Join(rows, ";") + "]"
	}
	cd := r.Intn(4) == 0
	kindQ := r.Intn(3) != 0
	label := []string{"down", "real", "racy", "blind"}[r.Intn(4)]
	name := label + "." + zone
	if !kindQ {
		name = label + ".lame." + zone
	}
	var how []string
	if r.Intn(2) == 0 {
		z := []string{zone, other}[r.Intn(2)]
		admit(z)
		how = append(how, "proof for "+z+" before the rung")
	}
	duringZone := ""
	if r.Intn(4) == 0 {
		duringZone = []string{zone, other}[r.Intn(2)]
		how = append(how, "proof for "+duringZone+" during the failing resolution")
	}
	idxRung := ""
	stub := middleware.HandlerFunc(func(_ context.Context, ch *middleware.Chain) {
		idxRung = idx() // the rung has run; this is what it saw
		if duringZone != "" {
			admit(duringZone)
		}
		rq := ch.Request.Msg()
		if !kindQ {
			c.store.RecordZoneFailure(rq.Question[0], "lame."+zone)
		}
		resp := new(dns.Msg)
		resp.SetReply(rq)
		resp.Rcode = dns.RcodeServerFailure
		_ = ch.Writer.WriteMsg(resp)
		ch.Cancel()
	})
	wireAsk := func(qname string) (int, int) {
		q := new(dns.Msg)
		q.SetQuestion(qname, dns.TypeA)
		q.RecursionDesired = true
		q.CheckingDisabled = cd
		q.SetEdns0(1232, false)
		raw, err := q.Pack()
		if err != nil {
			panic(err)
		}
		req := new(middleware.Request)
		if !req.ParseWire(raw, time.Now(), nil) {
			panic("wire query refused")
		}
		w := mock.NewWriter("udp", "198.51.100.9:40000")
		ch := middleware.NewChain([]middleware.Handler{ednsH, c, stub})
		ch.ResetWire(w, req)
		ch.AllowDirectPack()
		ch.Next(context.Background())
		rc, ede := 999, -1
		if m := w.Msg(); m != nil && w.Written() {
			rc = m.Rcode
			if e := dnsutil.GetEDE(m); e != nil {
				ede = int(e.InfoCode)
			}
		}
		return rc, ede
	}
	first := name
	if !kindQ {
		first = "seed.lame." + zone // the zone failure is learned through another name
	}
	wireAsk(first)
	if r.Intn(3) == 0 {
		z := []string{zone, other}[r.Intn(2)]
		admit(z)
		how = append(how, "proof for "+z+" after the record")
	}
	idxQuery := idx()
	before := wireFailureServed.Value()
	rc, ede := wireAsk(name)
	byWire := wireFailureServed.Value() > before
	edeC := "None"
	if ede >= 0 {
		edeC = fmt.Sprintf("(Some %d%%N)", ede)
	}
	return map[string]any{
		"k":          "wire-gate",
		"coq":        fmt.Sprintf("CaseWireGate %v %v %v %s %s %s %v %d %s", cd, kindQ, dnssecOff, vC13LabelsOf(name).coq(), idxRung, idxQuery, byWire, rc, edeC),
		"nontrivial": len(how) > 0,
		"desc":       map[string]any{"name": name, "cd": cd, "failure_kind_question": kindQ, "dnssec_off": dnssecOff, "denial_index_changes": how, "index_at_rung": idxRung, "index_at_query": idxQuery, "answered_by_byte_path": byWire, "rcode": rc, "ede": ede},
	}
}

// An abandoned leader: the probe's downstream blocks; the waitgroup's generation
// bound (15 s in production, 25 ms here — the only thing changed) passes; the
// followers of that generation, and requests arriving later while the leader is
// still registered, must be shed — not re-elected, not sent downstream — and
// only after the leader has returned may another probe start.  No verdict
// depends on timing: every wait is on a channel or on the requests' own return.
func vC13TimeoutCase(r *rand.Rand) map[string]any {
	c := New(&config.Config{CacheSize: 1024})
	defer c.Stop()
	c.wg = waitgroup.New(25 * time.Millisecond)
	clock := &vC13Clock{now: vC13Base}
	c.failure.now = clock.Now
	g := newVC13Gen(r)
	zone := g.names[2]
	c.store.RecordZoneFailure(dns.Question{Name: "seed." + zone.pres(), Qtype: dns.TypeA, Qclass: dns.ClassINET}, zone.pres())
	clock.now = vC13Base.Add(c.failure.initialTTL + 1)
	leaderLocal := r.Intn(2) == 0
	n := 2 + r.Intn(6)
	late := r.Intn(4)
	var calls atomic.Int32
	release := make(chan struct{})
	entered := make(chan struct{}, 8)
	stub := middleware.HandlerFunc(func(hctx context.Context, ch *middleware.Chain) {
		call := calls.Add(1)
		rq := ch.Request.Msg()
		resp := new(dns.Msg)
		resp.SetRcode(rq, dns.RcodeServerFailure)
		if call == 1 {
			entered <- struct{}{}
			<-release // the abandoned probe
		}
		if leaderLocal && call == 1 {
			mctx, _ := middleware.EnsureResolutionAttemptGuard(hctx)
			middleware.MarkRequestLocalFailureResponse(mctx, resp, middleware.ErrResolutionAttemptLimit)
		} else {
			c.store.RecordZoneFailure(rq.Question[0], zone.pres())
		}
		_ = ch.Writer.WriteMsg(resp)
		ch.Cancel()
	})
	type result struct{ rcode, ede int }
	ask := func(i int, out chan<- result) {
		nm := append(vC13Name{[]byte(fmt.Sprintf("t%d", i))}, zone...)
		req := vC13QKey{name: nm, qtype: dns.TypeA, qclass: dns.ClassINET}.req()
		req.SetEdns0(1232, false)
		writer := mock.NewWriter("udp", "192.0.2.1:53000")
		chain := middleware.NewChain([]middleware.Handler{c, stub})
		chain.Reset(writer, req)
		chain.Next(context.Background())
		res := result{999, -1}
		if msg := writer.Msg(); msg != nil {
			res.rcode = msg.Rcode
			if e := dnsutil.GetEDE(msg); e != nil {
				res.ede = int(e.InfoCode)
			}
		}
		out <- res
	}
	isShed := func(x result) bool {
		return x.rcode == dns.RcodeServerFailure && x.ede == int(dns.ExtendedErrorCodeOther)
	}
	first := make(chan result, n)
	for i := 0; i < n; i++ {
		go ask(i, first)
	}
	<-entered // the leader is in its downstream call
	shedFirst := 0
	for i := 0; i < n-1; i++ { // every follower comes back on its own once the generation bound has passed
		if isShed(<-first) {
			shedFirst++
		}
	}
	shedLate := 0
	lateCh := make(chan result, late+1)
	for i := 0; i < late; i++ {
		go ask(n+i, lateCh)
		if isShed(<-lateCh) {
			shedLate++
		}
	}
	callsBlocked := int(calls.Load())
	close(release)
	<-first // the leader's own answer
	go ask(n+late, lateCh)
	lastRes := <-lateCh
	last := 3
	switch {
	case lastRes.rcode == dns.RcodeServerFailure && lastRes.ede == int(dns.ExtendedErrorCodeCachedError):
		last = 0
	case isShed(lastRes):
		last = 2
	case int(calls.Load()) > callsBlocked:
		last = 1
	}
	return map[string]any{
		"k":          map[bool]string{true: "abandoned-leader-local", false: "abandoned-leader-shared"}[leaderLocal],
		"coq":        fmt.Sprintf("CaseTimeout %d %d %v %d %d %d %d %d", n, late, leaderLocal, callsBlocked, shedFirst, shedLate, calls.Load(), last),
		"nontrivial": true,
		"desc": map[string]any{"zone": zone.pres(), "requests": n, "late_requests": late, "leader_fails_request_locally": leaderLocal,
			"probes_sent_while_leader_blocked": callsBlocked, "followers_shed": shedFirst, "late_requests_shed": shedLate,
			"probes_sent_in_all": calls.Load(), "last_request": []string{"served from the failure cache", "became the next probe", "shed", "other"}[last]},
	}
}

// ---------------------------------------------------------------- cohorts
// Requests that share one dedup key while a miss is being resolved.  Groups of
// 1 + f requests for one five-tuple each (followers spell the name in another
// case or carry host bits in their ECS source); distinct groups differ from one
// another in exactly the dimensions a cached failure must not cross (child /
// parent / sibling name, type, CD, ECS audience).  A short prelude of ordinary
// queries may have left an active failure or a cached answer.  Every leader is
// parked inside the downstream handler, then every follower arrives (and parks
// behind its leader's generation), then the leaders are released one at a time
// (shared failure with or without a zone failure published on the way, every
// request-local cause, useful answer, truncated reply) and after each release
// the followers that woke into a miss and went downstream themselves are released
// one at a time.  The run happens in a testing/synctest bubble: synctest.Wait() is
// the exact barrier "every request is parked or has returned", so no verdict
// depends on scheduling.  Observed per request: rcode, EDE, own downstream calls,
// whether its downstream call began after its leader had returned.
type vC13Member struct {
	key     vC13QKey
	edns    bool
	d       vC13Down
	rel     chan struct{}
	done    chan struct{}
	entered atomic.Bool
	late    bool
	rcode   int
	ede     int
	calls   int
	scope   netip.Prefix
}

func vC13CohortDown(r *rand.Rand, g *vC13Gen, k vC13QKey, follower bool) vC13Down {
	var d vC13Down
	w := r.Intn(20)
	if follower {
		w = r.Intn(14) // what a follower that goes downstream itself would get
	}
	switch {
	case w < 12:
		d.kind = 0
		d.rcode = []int{dns.RcodeServerFailure, dns.RcodeServerFailure, dns.RcodeRefused, dns.RcodeNotImplemented}[r.Intn(4)]
		if r.Intn(4) == 0 {
			if r.Intn(3) == 0 {
				d.ctxErr = 1 + r.Intn(3)
			}
			if r.Intn(4) == 0 {
				d.bestEffort = true
			}
			if r.Intn(4) == 0 {
				d.workLimit = true
			}
			if r.Intn(3) == 0 || !d.local() {
				d.marked = 1 + r.Intn(6)
			}
		}
		if !d.local() && r.Intn(3) == 0 {
			d.zoneAct = true
			d.zoneClass = k.qclass
			d.zone = g.caseMix(k.name[r.Intn(len(k.name)+1):])
		}
	case w < 17:
		d.kind = 1
		d.rcode = dns.RcodeNameError
		if k.qtype == dns.TypeA && r.Intn(2) == 0 {
			d.rcode = dns.RcodeSuccess
		}
		if k.scope.IsValid() && k.scope.Bits() >= 16 {
			d.respScope = r.Intn(2) // no option / SCOPE=0: the answer is good for everyone
		}
		if r.Intn(3) == 0 {
			d.zoneAct = true
			d.zoneClass = k.qclass
			d.zone = g.caseMix(k.name[r.Intn(len(k.name)+1):])
		}
	default:
		d.kind = 2
		d.rcode = []int{dns.RcodeServerFailure, dns.RcodeSuccess}[r.Intn(2)]
	}
	return d
}

func vC13CohortCase(t *testing.T, r *rand.Rand) map[string]any {
	cfg, rawSize, rawInit, rawMax, off := vC13PipeConfig(r)
	g := newVC13Gen(r)
	g.scopes = []netip.Prefix{
		{}, {}, {}, {},
		netip.MustParsePrefix("198.51.100.0/24"),
		netip.MustParsePrefix("203.0.113.0/24"),
		netip.MustParsePrefix("2001:db8:1::/48"),
	}
	hostBits := map[string]netip.Prefix{
		"198.51.100.0/24": netip.MustParsePrefix("198.51.100.77/24"),
		"203.0.113.0/24":  netip.MustParsePrefix("203.0.113.9/24"),
		"2001:db8:1::/48": netip.MustParsePrefix("2001:db8:1::53/48"),
	}
	g.types = []uint16{dns.TypeA, dns.TypeAAAA}
	upper := func(n vC13Name) vC13Name {
		out := make(vC13Name, len(n))
		for i, l := range n {
			b := append([]byte(nil), l...)
			for j, c := range b {
				if c >= 'a' && c <= 'z' && (i+j)%2 == 0 {
					b[j] = c - 32
				}
			}
			out[i] = b
		}
		return out
	}
	// groups: the first key, then keys one dimension away from an earlier one
	base := g.qkey()
	base.qclass = dns.ClassINET
	keys := []vC13QKey{base}
	ident := func(k vC13QKey) string {
		sc := k.scope
		if !sc.IsValid() || sc.Bits() == 0 {
			sc = netip.Prefix{}
		}
		return fmt.Sprintf("%s|%d|%v|%s", strings.ToLower(k.name.pres()), k.qtype, k.cd, sc.Masked())
	}
	seen := map[string]bool{ident(base): true}
	ng := 1 + r.Intn(3)
	for tries := 0; len(keys) < ng && tries < 20; tries++ {
		k := keys[r.Intn(len(keys))]
		switch r.Intn(6) {
		case 0:
			k.qtype = g.types[r.Intn(len(g.types))]
		case 1:
			k.cd = !k.cd
		case 2:
			k.scope = g.scopes[r.Intn(len(g.scopes))]
		case 3:
			k.name = append(vC13Name{vC13RandLabel(r, false)}, k.name...)
		case 4:
			if len(k.name) > 0 {
				k.name = k.name[1:]
			}
		case 5:
			k = g.qkey()
			k.qclass = dns.ClassINET
		}
		if !seen[ident(k)] {
			seen[ident(k)] = true
			keys = append(keys, k)
		}
	}
	mk := func(k vC13QKey, follower bool) *vC13Member {
		return &vC13Member{key: k, edns: r.Intn(4) != 0, d: vC13CohortDown(r, g, k, follower)}
	}
	var groups []*vC13Group
	for _, k := range keys {
		gr := &vC13Group{leader: mk(k, false)}
		for i, nf := 0, r.Intn(4); i < nf; i++ {
			fk := k
			switch r.Intn(3) {
			case 0:
				fk.name = upper(k.name)
			case 1:
				if hb, ok := hostBits[k.scope.String()]; ok {
					fk.scope = hb
				}
			}
			gr.followers = append(gr.followers, mk(fk, true))
		}
		groups = append(groups, gr)
	}
	// prelude: ordinary queries, one after the other, at the same instant
	var pre []*vC13Member
	for i, np := 0, r.Intn(3); i < np; i++ {
		k := keys[r.Intn(len(keys))]
		if r.Intn(2) == 0 && len(k.name) > 0 {
			k.name = k.name[1:] // a parent: its zone failure covers the group
		}
		pre = append(pre, mk(k, true))
	}
	kk := "cohort"
	if off {
		kk = "cohort-rfc9520-off"
	}
	// the next clients: the cohort's questions again, siblings below the zones it touched, parents
	var post []*vC13Member
	for i, np := 0, r.Intn(3); i < np; i++ {
		k := keys[r.Intn(len(keys))]
		switch r.Intn(3) {
		case 0:
			if len(k.name) > 0 {
				k.name = append(vC13Name{vC13RandLabel(r, false)}, k.name[1:]...) // a sibling
			}
		case 1:
			if len(k.name) > 0 {
				k.name = k.name[1:]
			}
		}
		post = append(post, mk(k, true))
	}
	// Directed, 1 case in 2: a zone flaps while requests for names below it are in flight.  Two
	// leaders below one zone Z are parked; one ends in a shared failure and files a zone failure
	// for Z (all of Z's servers failed for it), the other ends in a useful answer — in either
	// order; then the next clients ask for a third name below Z and for the two again.  A useful
	// answer resets what was filed before it (however long its own request has been under way), a
	// failure filed after it stands.
	if r.Intn(2) == 0 && len(base.name) > 0 {
		cut := 1 + r.Intn(len(base.name))
		zone := base.name[cut:]
		below := func() vC13Name {
			n := vC13Name{vC13RandLabel(r, false)}
			if r.Intn(3) == 0 {
				n = append(vC13Name{vC13RandLabel(r, false)}, n...)
			}
			return append(n, zone...)
		}
		kf, ku, kn := base, base, base
		kf.name, ku.name, kn.name = below(), below(), below()
		kf.scope, ku.scope, kn.scope = netip.Prefix{}, netip.Prefix{}, netip.Prefix{}
		if r.Intn(4) == 0 {
			ku.name, ku.qtype = kf.name, kf.qtype^(dns.TypeA^dns.TypeAAAA) // the same name, the other type
		}
		if ident(kf) != ident(ku) {
			fail := &vC13Group{leader: &vC13Member{key: kf, edns: r.Intn(4) != 0, d: vC13Down{kind: 0, rcode: []int{dns.RcodeServerFailure, dns.RcodeRefused}[r.Intn(2)], zoneAct: true, zone: g.caseMix(zone), zoneClass: kf.qclass}}}
			usefulD := vC13Down{kind: 1, rcode: dns.RcodeNameError}
			if ku.qtype == dns.TypeA && r.Intn(2) == 0 {
				usefulD.rcode = dns.RcodeSuccess
			}
			if r.Intn(3) == 0 { // the resolver clears the zone's failure state on the way, as it does after an answer
				usefulD.zoneAct, usefulD.zone, usefulD.zoneClass = true, g.caseMix(zone), ku.qclass
			}
			useful := &vC13Group{leader: &vC13Member{key: ku, edns: r.Intn(4) != 0, d: usefulD}}
			for _, gr := range []*vC13Group{fail, useful} {
				for i, nf := 0, r.Intn(3); i < nf; i++ {
					fk := gr.leader.key
					if i%2 == 1 {
						fk.name = upper(fk.name)
					}
					gr.followers = append(gr.followers, mk(fk, true))
				}
			}
			groups = []*vC13Group{fail, useful}
			if r.Intn(3) == 0 {
				groups = []*vC13Group{useful, fail}
			}
			post = []*vC13Member{mk(kn, true), mk(kf, true), mk(ku, true)} // the third name first: nothing but the zone's state decides it
			if r.Intn(2) == 0 {
				post[1], post[2] = post[2], post[1]
			}
			post = post[:1+r.Intn(3)]
			if !off {
				kk = "cohort-zone-flap"
			}
		}
	}
	return vC13CohortRun(t, kk, cfg, rawSize, rawInit, rawMax, off, pre, groups, post)
}

type vC13Group struct {
	leader    *vC13Member
	followers []*vC13Member
}

func vC13CohortRun(t *testing.T, kk string, cfg *config.Config, rawSize int, rawInit, rawMax time.Duration, off bool, prelude []*vC13Member, groups []*vC13Group, postlude []*vC13Member) map[string]any {
	var out map[string]any
	synctest.Test(t, func(t *testing.T) {
		c := New(cfg)
		defer c.Stop()
		ednsH := ednsmw.New(cfg)
		clock := &vC13Clock{now: vC13Base}
		c.failure.now = clock.Now
		init, max := c.failure.initialTTL, c.failure.maxTTL
		tab := newVC13Tab()
		var desc []string
		memberCoq := func(kind string, m *vC13Member) string {
			mkk := m.key
			mkk.scope = m.scope
			tab.addQuestion(mkk)
			if m.d.zoneAct {
				tab.addZone(m.d.zone, m.d.zoneClass)
			}
			edeC := "None"
			if m.ede >= 0 {
				edeC = fmt.Sprintf("(Some %d%%N)", m.ede)
			}
			desc = append(desc, fmt.Sprintf("%s %s edns=%v downstream{%s} -> rcode=%d ede=%d downstream_calls=%d began_after_leader_returned=%v", kind, mkk.coq(), m.edns, m.d.String(), m.rcode, m.ede, m.calls, m.late))
			return fmt.Sprintf("CM %s %v %s %d %s %d %v", mkk.coq(), m.edns || m.key.scope.IsValid(), m.d.coq(), m.rcode, edeC, m.calls, m.late)
		}
		var pre []string
		for _, m := range prelude {
			m.rcode, m.ede, m.calls, m.scope = vC13Serve(c, ednsH, m.key, m.edns, false, false, m.d)
			pre = append(pre, memberCoq("before", m))
		}
		launch := func(m *vC13Member) {
			// channels the bubble blocks on must be made inside it
			m.rel, m.done = make(chan struct{}), make(chan struct{})
			go func() {
				defer close(m.done)
				m.rcode, m.ede, m.calls, m.scope = vC13ServeHold(c, ednsH, m.key, m.edns, false, false, m.d, func() {
					m.entered.Store(true)
					<-m.rel
				})
			}()
		}
		finished := func(m *vC13Member) bool {
			select {
			case <-m.done:
				return true
			default:
				return false
			}
		}
		released := map[*vC13Member]bool{}
		release := func(m *vC13Member) {
			if !released[m] {
				released[m] = true
				close(m.rel)
				synctest.Wait()
			}
		}
		for _, gr := range groups {
			launch(gr.leader)
		}
		synctest.Wait()
		for _, gr := range groups {
			for _, f := range gr.followers {
				launch(f)
			}
		}
		synctest.Wait()
		early := map[*vC13Member]bool{} // in the downstream before any leader returned
		inFlight := 0
		for _, gr := range groups {
			for _, m := range append([]*vC13Member{gr.leader}, gr.followers...) {
				if m.entered.Load() {
					early[m] = true
					inFlight++
				}
			}
		}
		for _, gr := range groups {
			release(gr.leader)
			for _, f := range gr.followers {
				if f.entered.Load() && !finished(f) {
					f.late = !early[f]
					release(f)
				}
			}
		}
		// nothing may be left parked; a request that is gets released and reported
		stuck := 0
		for _, gr := range groups {
			for _, m := range append([]*vC13Member{gr.leader}, gr.followers...) {
				if !finished(m) {
					stuck++
					m.late = m.entered.Load() && !early[m]
					release(m)
				}
			}
		}
		goFail := ""
		for _, gr := range groups {
			for _, m := range append([]*vC13Member{gr.leader}, gr.followers...) {
				if !finished(m) {
					goFail = "a request of the cohort never returned"
				}
			}
		}
		if stuck > 0 && goFail == "" {
			goFail = fmt.Sprintf("%d request(s) still waiting after their leader and every earlier request had returned", stuck)
		}
		var gs []string
		served, solo, nf := 0, 0, 0
		for _, gr := range groups {
			var fs []string
			lc := memberCoq("leader", gr.leader)
			for _, f := range gr.followers {
				nf++
				fs = append(fs, memberCoq("  follower", f))
				if f.calls == 0 && f.rcode == dns.RcodeServerFailure {
					served++
				}
				if f.calls > 0 {
					solo++
				}
			}
			gs = append(gs, fmt.Sprintf("(%s,[%s])", lc, strings.Join(fs, ";")))
		}
		// the next clients, one after the other, once every request of the cohort has returned
		var post []string
		for _, m := range postlude {
			m.rcode, m.ede, m.calls, m.scope = vC13Serve(c, ednsH, m.key, m.edns, false, false, m.d)
			post = append(post, memberCoq("after", m))
		}
		final, flen := vC13Dump(c.failure)
		out = map[string]any{
			"k":          kk,
			"coq":        fmt.Sprintf("CaseCohort (%d) (%d) (%d) %v (%d) (%d) %s [%s] [%s] [%s] %d %s", rawSize, int64(rawInit), int64(rawMax), off, int64(init), int64(max), tab.coq(), strings.Join(pre, ";"), strings.Join(gs, ";"), strings.Join(post, ";"), inFlight, final),
			"nontrivial": nf > 0 && (served > 0 || solo > 0),
			"desc": map[string]any{"effective": init.String() + ".." + max.String(), "rfc9520_off": off, "requests": desc, "in_downstream_before_any_leader_returned": inFlight,
				"followers": nf, "followers_served_from_failure_cache": served, "followers_sent_downstream": solo, "failure_len": flen},
		}
		if goFail != "" {
			out["go_fail"] = goFail
		}
	})
	return out
}

// ---------------------------------------------------------------- corpus
// Fixed recovery episodes (VERIF_CORPUS/pipe.json), replayed first on every
// run: question fails -> backoff ends -> the probe brings a useful answer (with
// the given response SCOPE) -> the answer expires -> the question fails again ->
// one initial interval later it must be asked upstream again (the second
// failure started a new episode at the minimum backoff).
type vC13PipeCorpusCase struct {
	Name      string `json:"name"`
	Qtype     uint16 `json:"qtype"`
	CD        bool   `json:"cd"`
	Scope     string `json:"scope"`      // client ECS source prefix, "" = none
	RespScope int    `json:"resp_scope"` // 0 none, 1 SCOPE=0, 2 shorter, 3 equal, 4 longer than SOURCE, 5 uninterpretable
	Zone      string `json:"zone"`       // the first failure also publishes this zone failure ("" = none)
	InitS     int    `json:"init_s"`
	MaxS      int    `json:"max_s"`
}

func vC13PipeCorpus(t *testing.T) []vC13PipeCorpusCase {
	dir := os.Getenv("VERIF_CORPUS")
	if dir == "" {
		return nil
	}
	b, err := os.ReadFile(dir + "/pipe.json")
	if os.IsNotExist(err) {
		return nil
	}
	if err != nil {
		t.Fatalf("corpus: %v", err)
	}
	var out []vC13PipeCorpusCase
	if err := json.Unmarshal(b, &out); err != nil {
		t.Fatalf("corpus pipe.json: %v", err)
	}
	return out
}

func vC13PipeEpisode(t *testing.T, ep vC13PipeCorpusCase) map[string]any {
	cfg := &config.Config{CacheSize: 1024, Expire: 300}
	cfg.ECS.Enabled = true
	cfg.ECS.ClientNetworks = []string{"0.0.0.0/0", "::/0"}
	cfg.ECS.ForwardV4Max = 24
	cfg.ECS.ForwardV6Max = 56
	rawInit, rawMax := time.Duration(ep.InitS)*time.Second, time.Duration(ep.MaxS)*time.Second
	cfg.RecursionFirewall.FailureCacheMinTTL.Duration = rawInit
	cfg.RecursionFirewall.FailureCacheMaxTTL.Duration = rawMax
	c := New(cfg)
	defer c.Stop()
	ednsH := ednsmw.New(cfg)
	clock := &vC13Clock{now: vC13Base}
	c.failure.now = clock.Now
	init, max := c.failure.initialTTL, c.failure.maxTTL
	k := vC13QKey{name: vC13LabelsOf(ep.Name), qtype: ep.Qtype, qclass: dns.ClassINET, cd: ep.CD}
	if ep.Scope != "" {
		pfx, err := netip.ParsePrefix(ep.Scope)
		if err != nil {
			t.Fatalf("corpus pipe.json: scope %q: %v", ep.Scope, err)
		}
		k.scope = pfx
	}
	tab := newVC13Tab()
	var steps, desc []string
	cachedHits, downstreamCalls := 0, 0
	advance := func(dt time.Duration) {
		clock.now = clock.now.Add(dt)
		steps = append(steps, fmt.Sprintf("PAdvance %d", int64(dt)))
		desc = append(desc, "advance "+dt.String())
	}
	expire := func() {
		var keys []uint64
		c.store.ForEach(func(positive bool, key uint64, _ *CacheEntry) bool {
			if positive {
				keys = append(keys, key)
			}
			return true
		})
		for _, key := range keys {
			c.positive.Remove(key)
		}
		steps = append(steps, "PExpireAnswers")
		desc = append(desc, "cached answers expire")
	}
	query := func(d vC13Down) {
		rcode, ede, calls, scope := vC13Serve(c, ednsH, k, true, false, false, d)
		mk := k
		mk.scope = scope
		d.storedScoped = d.kind == 1 && d.respScope >= 2 && scope.IsValid() && calls > 0
		tab.addQuestion(mk)
		if d.zoneAct {
			tab.addZone(d.zone, d.zoneClass)
		}
		if calls == 0 && rcode == dns.RcodeServerFailure {
			cachedHits++
		}
		downstreamCalls += calls
		edeC := "None"
		if ede >= 0 {
			edeC = fmt.Sprintf("(Some %d%%N)", ede)
		}
		steps = append(steps, fmt.Sprintf("PQuery %s %v %s %d %s %d %d", mk.coq(), true, d.coq(), rcode, edeC, calls, c.store.FailureLen()))
		desc = append(desc, fmt.Sprintf("query %s downstream{%s} -> rcode=%d ede=%d downstream_calls=%d failure_len=%d", mk.coq(), d.String(), rcode, ede, calls, c.store.FailureLen()))
		if d.storedScoped {
			expire()
		}
	}
	fail := vC13Down{kind: 0, rcode: dns.RcodeServerFailure}
	first := fail
	if ep.Zone != "" {
		first.zoneAct, first.zone, first.zoneClass = true, vC13LabelsOf(ep.Zone), dns.ClassINET
	}
	useful := vC13Down{kind: 1, rcode: dns.RcodeNameError, respScope: ep.RespScope}
	if ep.Qtype == dns.TypeA {
		useful.rcode = dns.RcodeSuccess
	}
	query(first)
	query(fail) // inside the backoff: served from the failure cache
	advance(init + time.Second)
	query(useful)
	expire()
	query(fail)
	advance(init + time.Second)
	query(fail) // a new episode began: this one goes upstream again
	advance(init - time.Second)
	query(fail) // and is suppressed for the initial interval only
	final, _ := vC13Dump(c.failure)
	return map[string]any{
		"k":          "pipe-corpus-episode",
		"coq":        fmt.Sprintf("CasePipe (%d) (%d) (%d) %v %v (%d) (%d) %s [%s] %s", 0, int64(rawInit), int64(rawMax), false, true, int64(init), int64(max), tab.coq(), strings.Join(steps, ";"), final),
		"nontrivial": cachedHits > 0 && downstreamCalls > 0,
		"desc":       map[string]any{"episode": ep, "effective": init.String() + ".." + max.String(), "steps": desc, "cached_failure_answers": cachedHits, "downstream_calls": downstreamCalls},
	}
}

// Fixed cohorts (VERIF_CORPUS/cohort.json), replayed first on every run: one question,
// a leader and n followers (odd ones spell the name in upper case), the leader's outcome,
// optionally a zone failure the resolver publishes on the way.
type vC13CohortCorpusCase struct {
	Name      string `json:"name"`
	Qtype     uint16 `json:"qtype"`
	CD        bool   `json:"cd"`
	Scope     string `json:"scope"`
	Followers int    `json:"followers"`
	Leader    string `json:"leader"` // shared | local | useful
	Zone      string `json:"zone"`
	// optional: a second request, parked while the first one's outcome lands, that ends in a
	// useful answer; and the questions asked once everything has returned
	ThenUseful string   `json:"then_useful"`
	After      []string `json:"after"`
}

func vC13CohortCorpus(t *testing.T) []map[string]any {
	dir := os.Getenv("VERIF_CORPUS")
	if dir == "" {
		return nil
	}
	b, err := os.ReadFile(dir + "/cohort.json")
	if os.IsNotExist(err) {
		return nil
	}
	if err != nil {
		t.Fatalf("corpus: %v", err)
	}
	var eps []vC13CohortCorpusCase
	if err := json.Unmarshal(b, &eps); err != nil {
		t.Fatalf("corpus cohort.json: %v", err)
	}
	var out []map[string]any
	for _, ep := range eps {
		cfg := &config.Config{CacheSize: 1024, Expire: 300}
		cfg.ECS.Enabled = true
		cfg.ECS.ClientNetworks = []string{"0.0.0.0/0", "::/0"}
		cfg.ECS.ForwardV4Max = 24
		cfg.ECS.ForwardV6Max = 56
		k := vC13QKey{name: vC13LabelsOf(ep.Name), qtype: ep.Qtype, qclass: dns.ClassINET, cd: ep.CD}
		if ep.Scope != "" {
			pfx, err := netip.ParsePrefix(ep.Scope)
			if err != nil {
				t.Fatalf("corpus cohort.json: scope %q: %v", ep.Scope, err)
			}
			k.scope = pfx
		}
		var d vC13Down
		switch ep.Leader {
		case "shared":
			d = vC13Down{kind: 0, rcode: dns.RcodeServerFailure}
		case "local":
			d = vC13Down{kind: 0, rcode: dns.RcodeServerFailure, marked: 1}
		case "useful":
			d = vC13Down{kind: 1, rcode: dns.RcodeNameError}
		default:
			t.Fatalf("corpus cohort.json: leader %q", ep.Leader)
		}
		if ep.Zone != "" && d.kind == 0 && !d.local() {
			d.zoneAct, d.zone, d.zoneClass = true, vC13LabelsOf(ep.Zone), dns.ClassINET
		}
		gr := &vC13Group{leader: &vC13Member{key: k, edns: true, d: d}}
		for i := 0; i < ep.Followers; i++ {
			fk := k
			if i%2 == 1 {
				fk.name = vC13LabelsOf(strings.ToUpper(ep.Name))
			}
			gr.followers = append(gr.followers, &vC13Member{key: fk, edns: i%3 != 2, d: vC13Down{kind: 0, rcode: dns.RcodeServerFailure}})
		}
		groups := []*vC13Group{gr}
		if ep.ThenUseful != "" {
			k2 := vC13QKey{name: vC13LabelsOf(ep.ThenUseful), qtype: ep.Qtype, qclass: dns.ClassINET, cd: ep.CD}
			groups = append(groups, &vC13Group{leader: &vC13Member{key: k2, edns: true, d: vC13Down{kind: 1, rcode: dns.RcodeNameError}}})
		}
		var post []*vC13Member
		for _, n := range ep.After {
			post = append(post, &vC13Member{key: vC13QKey{name: vC13LabelsOf(n), qtype: ep.Qtype, qclass: dns.ClassINET, cd: ep.CD}, edns: true, d: vC13Down{kind: 0, rcode: dns.RcodeServerFailure}})
		}
		out = append(out, vC13CohortRun(t, "cohort-corpus", cfg, 0, 0, 0, false, nil, groups, post))
	}
	return out
}

func TestVerifC13Pipe(t *testing.T) {
	tr := vC13Open(t)
	defer tr.f.Close()
	seed := int64(vC13EnvInt("VERIF_SEED", 1))
	n := vC13EnvInt("VERIF_N", 200)
	r := rand.New(rand.NewSource(seed + 1000003))
	for _, ep := range vC13PipeCorpus(t) {
		tr.emit(vC13PipeEpisode(t, ep))
	}
	for _, m := range vC13CohortCorpus(t) {
		tr.emit(m)
	}
	for i := 0; i < n; i++ {
		tr.emit(vC13PipeHistory(r))
	}
	for i := 0; i < n/12+6; i++ {
		tr.emit(vC13ProbeCase(r))
	}
	for i := 0; i < n/10+8; i++ {
		tr.emit(vC13ElectCase(r))
	}
	for i := 0; i < n/5+10; i++ {
		tr.emit(vC13WireGateCase(t, r))
	}
	for i := 0; i < n/25+6; i++ {
		tr.emit(vC13TimeoutCase(r))
	}
	for i := 0; i < n/5+10; i++ {
		tr.emit(vC13CohortCase(t, r))
	}
}
