//go:build verif

package cache

// C16 correspondence driver for the expiring wrappers of the answer cache
// (overlay-injected, never committed to /repo): PositiveCache and NegativeCache
// (positive_cache.go / negative_cache.go) over one internal/cache.Cache each.
//
// Part 1: histories of Get / Set / Remove / Len that run to completion, entries
//   either expired long ago (stored 48 h back, ttl 1 h) or fresh for 48 h — no
//   verdict depends on the wall clock.  After every call: result (entry identity),
//   Len() and, after a Set, the keys that vanished.  Coq: CaseWrap (Wrap.v w_get /
//   w_set / w_remove on the cache model; spec = bounded map whose readers never
//   see an expired entry).  Go-side reference map as go_fail oracle.
// Part 2: concurrent histories recorded on one wrapper (general rounds: 3 goroutines x 4 calls;
//   chase: a writer storing an expired then a fresh entry under 80000 keys in turn and reading
//   it back while two readers clean up behind it — one history per key;
//   lined up by a spin barrier, logical-clock stamps around every call, one more
//   Get per key at the end).  Coq: CaseWLin — the calls read through the fresh
//   view (a Set of an expired entry is a removal) must have a linearization that
//   is legal for Lin.legal, which Proofs_wrap.wrappers_linearize proves for every
//   schedule of the interleaving model.  A Go-side Wing-Gong search judges the
//   same history per key (go_fail).

import (
	"encoding/json"
	"fmt"
	"math/rand"
	"os"
	"runtime"
	"sort"
	"strconv"
	"strings"
	"sync"
	"sync/atomic"
	"testing"
	"time"

	icache "github.com/semihalev/sdns/internal/cache"
)

type vC16Trace struct{ f *os.File }

func vC16Open(t *testing.T) *vC16Trace {
	p := os.Getenv("VERIF_OUT")
	if p == "" {
		t.Skip("VERIF_OUT not set")
	}
	f, err := os.Create(p)
	if err != nil {
		t.Fatal(err)
	}
	return &vC16Trace{f: f}
}

func (v *vC16Trace) emit(m map[string]any) {
	b, _ := json.Marshal(m)
	v.f.Write(append(b, '\n'))
}

func vC16EnvInt(name string, def int) int {
	if s := os.Getenv(name); s != "" {
		if n, err := strconv.Atoi(s); err == nil {
			return n
		}
	}
	return def
}

func vC16Z(v int64) string {
	if v < 0 {
		return fmt.Sprintf("(%d)", v)
	}
	return fmt.Sprintf("%d", v)
}

func vC16Opt(v uint64, ok bool) string {
	if ok {
		return fmt.Sprintf("(Some %d%%N)", v)
	}
	return "None"
}

func vC16NList(l []uint64) string {
	if len(l) == 0 {
		return "[]"
	}
	s := make([]string, len(l))
	for i, x := range l {
		s[i] = strconv.FormatUint(x, 10)
	}
	return "[" + strings.Join(s, ";") + "]%N"
}

// one of the two wrappers behind the calls they share
type vC16Wrap struct {
	name   string
	get    func(uint64) (*CacheEntry, bool)
	set    func(uint64, *CacheEntry)
	remove func(uint64)
	length func() int
	inner  *icache.Cache
}

func vC16NewWrap(negative bool, size int) vC16Wrap {
	if negative {
		nc := NewNegativeCache(size, time.Second, time.Hour, nil)
		return vC16Wrap{"negative", nc.Get, nc.Set, nc.Remove, nc.Len, nc.cache}
	}
	pc := NewPositiveCache(size, time.Second, time.Hour, nil)
	return vC16Wrap{"positive", pc.Get, pc.Set, pc.Remove, pc.Len, pc.cache}
}

// an entry that ran out two days ago / that stays fresh for two days
func vC16Entry(expired bool) *CacheEntry {
	if expired {
		return &CacheEntry{stored: time.Now().Add(-48 * time.Hour), ttl: time.Hour}
	}
	return &CacheEntry{stored: time.Now(), ttl: 48 * time.Hour}
}

func vC16WrapHistory(r *rand.Rand, negative bool, size int, nops int) map[string]any {
	w := vC16NewWrap(negative, size)
	eff := size
	if eff < 1 {
		eff = 1
	}
	ids := map[*CacheEntry]uint64{}
	var expIDs []uint64
	newEntry := func(expired bool) *CacheEntry {
		e := vC16Entry(expired)
		ids[e] = uint64(len(ids) + 1)
		if expired {
			expIDs = append(expIDs, ids[e])
		}
		return e
	}
	ref := map[uint64]*CacheEntry{}
	var pool []uint64
	for len(pool) < 4+r.Intn(20) {
		k := r.Uint64()
		if r.Intn(3) == 0 {
			k = uint64(r.Intn(6))
		}
		pool = append(pool, k)
	}
	var steps, desc []string
	goFail := ""
	fail := func(f string, a ...any) {
		if goFail == "" {
			goFail = fmt.Sprintf("%s cache, op %d: ", w.name, len(steps)) + fmt.Sprintf(f, a...)
		}
	}
	cleaned, evictions, hits := 0, 0, 0
	for i := 0; i < nops; i++ {
		k := pool[r.Intn(len(pool))]
		var op string
		x := r.Intn(100)
		switch {
		case x < 45:
			e := newEntry(x < 18)
			before := len(ref)
			w.set(k, e)
			ref[k] = e
			var gone []uint64
			for rk := range ref {
				if _, ok := w.inner.Get(rk); !ok {
					gone = append(gone, rk)
				}
			}
			sort.Slice(gone, func(a, b int) bool { return gone[a] < gone[b] })
			for _, gk := range gone {
				if gk == k {
					fail("Set(%d) evicted the key it was writing", k)
				}
				delete(ref, gk)
			}
			evictions += len(gone)
			if before <= eff && len(ref) > eff {
				fail("Set(%d): %d entries before, %d after, capacity %d, no other writer", k, before, len(ref), eff)
			}
			op = fmt.Sprintf("WSet %d %d %s", k, ids[e], vC16NList(gone))
		case x < 55:
			w.remove(k)
			delete(ref, k)
			op = fmt.Sprintf("WRem %d", k)
		default:
			got, ok := w.get(k)
			rv, had := ref[k]
			wantHit := had && !rv.IsExpired()
			if ok != wantHit || (ok && got != rv) || (!ok && got != nil) {
				fail("Get(%d)=(%v,%v): stored %v, fresh %v", k, ids[got], ok, had, wantHit)
			}
			if had && !wantHit {
				delete(ref, k) // the expired entry is cleaned up
				cleaned++
			}
			if ok {
				hits++
			}
			op = fmt.Sprintf("WGet %d %s", k, vC16Opt(ids[got], ok))
		}
		if w.length() != len(ref) {
			fail("Len()=%d but reference holds %d", w.length(), len(ref))
		}
		for rk, rv := range ref {
			if got, ok := w.inner.Get(rk); !ok || got.(*CacheEntry) != rv {
				fail("key %d no longer holds the entry stored under it", rk)
			}
		}
		steps = append(steps, fmt.Sprintf("Ws (%s) %d", op, w.length()))
		if len(desc) < 40 {
			desc = append(desc, op)
		}
	}
	return map[string]any{
		"k":          "wrap-" + w.name,
		"coq":        fmt.Sprintf("CaseWrap %s %s [%s]", vC16Z(int64(size)), vC16NList(expIDs), strings.Join(steps, ";")),
		"go_fail":    goFail,
		"nontrivial": cleaned > 0 && hits > 0,
		"desc":       map[string]any{"cache": w.name, "size": size, "ops": nops, "expired_cleaned": cleaned, "hits": hits, "evictions": evictions, "first_ops": desc},
	}
}

// ---------------------------------------------------- recorded concurrent histories

type vC16WOp struct {
	kind      int    // 0 Get, 1 Set, 2 Remove
	val       uint64 // Set: entry identity
	expired   bool   // Set: the entry had expired
	res       uint64 // Get: identity returned (0 = miss)
	call, ret int64
}

func (o vC16WOp) String() string {
	n := []string{"Get", "Set", "Remove"}[o.kind]
	return fmt.Sprintf("%s(entry=%d,expired=%v)->%d@[%d,%d]", n, o.val, o.expired, o.res, o.call, o.ret)
}

// the sequential register of fresh entries: state 0 = nothing a reader may see
func vC16WApply(state uint64, o vC16WOp) (uint64, bool) {
	switch o.kind {
	case 0:
		return state, o.res == state
	case 1:
		if o.expired {
			return 0, true
		}
		return o.val, true
	default:
		return 0, true
	}
}

func vC16WLinearizable(ops []vC16WOp) bool {
	n := len(ops)
	if n > 62 {
		return false
	}
	full := uint64(1)<<uint(n) - 1
	type memoKey struct{ done, state uint64 }
	seen := map[memoKey]bool{}
	var rec func(done, state uint64) bool
	rec = func(done, state uint64) bool {
		if done == full {
			return true
		}
		mk := memoKey{done, state}
		if seen[mk] {
			return false
		}
		seen[mk] = true
		minRet := int64(1) << 62
		for i := 0; i < n; i++ {
			if done&(1<<uint(i)) == 0 && ops[i].ret < minRet {
				minRet = ops[i].ret
			}
		}
		for i := 0; i < n; i++ {
			if done&(1<<uint(i)) != 0 || ops[i].call > minRet {
				continue
			}
			if ns, ok := vC16WApply(state, ops[i]); ok && rec(done|1<<uint(i), ns) {
				return true
			}
		}
		return false
	}
	return rec(0, 0)
}

func vC16WLinSelfTest() string {
	good := []vC16WOp{{kind: 1, val: 9, expired: true, call: 1, ret: 2}, {kind: 0, res: 0, call: 3, ret: 8}, {kind: 1, val: 7, call: 4, ret: 5}, {kind: 0, res: 7, call: 9, ret: 10}}
	bad := []vC16WOp{{kind: 1, val: 9, expired: true, call: 1, ret: 2}, {kind: 0, res: 0, call: 3, ret: 8}, {kind: 1, val: 7, call: 4, ret: 5}, {kind: 0, res: 0, call: 9, ret: 10}}
	if !vC16WLinearizable(good) {
		return "wrapper-history checker rejects a linearizable history"
	}
	if vC16WLinearizable(bad) {
		return "wrapper-history checker accepts a lost fresh entry"
	}
	return ""
}

func vC16WaitOrHang(wg *sync.WaitGroup) bool {
	done := make(chan struct{})
	go func() { wg.Wait(); close(done) }()
	select {
	case <-done:
		return true
	case <-time.After(150 * time.Second):
		return false
	}
}

func vC16WLinCases(seed int64, rounds, emit, workers, perWorker int) []map[string]any {
	type rec struct {
		c        map[string]any
		overlap  int
		rejected bool
	}
	var all []rec
	if msg := vC16WLinSelfTest(); msg != "" {
		return []map[string]any{{"k": "wlin", "coq": "CaseGo 10", "go_fail": msg, "nontrivial": false, "desc": "self-test"}}
	}
	for round := 0; round < rounds; round++ {
		w := vC16NewWrap(round%2 == 1, 4096)
		rr := rand.New(rand.NewSource(seed*7919 + int64(round)))
		keys := []uint64{0, rr.Uint64() | 1}
		hot := round % len(keys)
		hist := make([][]vC16WOp, workers+1)
		kidx := make([][]int, workers+1)
		var clk, arrive atomic.Int64
		// most rounds start with an expired entry under the hot key (so that the first
		// readers run their clean-up while the writers store)
		if round%4 != 3 {
			o := vC16WOp{kind: 1, val: 20001, expired: true}
			o.call = clk.Add(1)
			e0 := vC16Entry(true)
			e0.rateLimKey = 20001
			w.set(keys[hot], e0)
			o.ret = clk.Add(1)
			hist[workers] = append(hist[workers], o)
			kidx[workers] = append(kidx[workers], hot)
		}
		var wg sync.WaitGroup
		start := make(chan struct{})
		for wk := 0; wk < workers; wk++ {
			wg.Add(1)
			go func(wk int) {
				defer wg.Done()
				r := rand.New(rand.NewSource(seed*104729 + int64(round)*977 + int64(wk)))
				<-start
				for n := 0; n < perWorker; n++ {
					arrive.Add(1)
					for spin := 0; arrive.Load() < int64(workers*(n+1)) && spin < 1<<22; spin++ {
						if spin&255 == 255 {
							runtime.Gosched()
						}
					}
					ki := r.Intn(len(keys))
					if r.Intn(10) < 8 {
						ki = hot
					}
					k := keys[ki]
					id := uint64(wk+1)*100 + uint64(n+1)
					o := vC16WOp{}
					switch x := r.Intn(20); {
					case x < 9:
						o = vC16WOp{kind: 0}
						o.call = clk.Add(1)
						e, ok := w.get(k)
						o.ret = clk.Add(1)
						if ok {
							o.res = e.rateLimKey // the identity the test put into the entry
						}
					case x < 14:
						e := vC16Entry(false)
						e.rateLimKey = id
						o = vC16WOp{kind: 1, val: id}
						o.call = clk.Add(1)
						w.set(k, e)
						o.ret = clk.Add(1)
					case x < 18:
						e := vC16Entry(true)
						e.rateLimKey = 10000 + id
						o = vC16WOp{kind: 1, val: 10000 + id, expired: true}
						o.call = clk.Add(1)
						w.set(k, e)
						o.ret = clk.Add(1)
					default:
						o = vC16WOp{kind: 2}
						o.call = clk.Add(1)
						w.remove(k)
						o.ret = clk.Add(1)
					}
					hist[wk] = append(hist[wk], o)
					kidx[wk] = append(kidx[wk], ki)
				}
			}(wk)
		}
		close(start)
		if !vC16WaitOrHang(&wg) {
			all = append(all, rec{c: map[string]any{"k": "wlin", "coq": "CaseGo 10", "go_fail": "deadlock: recorded wrapper-history workers did not finish", "nontrivial": false, "desc": "hang"}, rejected: true})
			break
		}
		fin := make([]vC16WOp, len(keys))
		for ki, k := range keys {
			fin[ki] = vC16WOp{kind: 0, call: clk.Add(1)}
			if e, ok := w.get(k); ok {
				fin[ki].res = e.rateLimKey
			}
			fin[ki].ret = clk.Add(1)
		}
		goFail := ""
		overlap := 0
		var hops, descs []string
		var expIDs []uint64
		hop := func(t int, k uint64, o vC16WOp) {
			ev := ""
			switch o.kind {
			case 0:
				ev = fmt.Sprintf("LGet %d %d %s", t, k, vC16Opt(o.res, o.res != 0))
			case 1:
				ev = fmt.Sprintf("LStore %d %d %d", t, k, o.val)
				if o.expired {
					expIDs = append(expIDs, o.val)
				}
			default:
				ev = fmt.Sprintf("LRem %d %d", t, k)
			}
			hops = append(hops, fmt.Sprintf("mk_hop (%s) %d %d", ev, o.call, o.ret))
			descs = append(descs, fmt.Sprintf("t%d key %d %s", t, k, o.String()))
		}
		for ki, k := range keys {
			var ops []vC16WOp
			for t := range hist {
				for i, o := range hist[t] {
					if kidx[t][i] == ki {
						ops = append(ops, o)
					}
				}
			}
			sort.Slice(ops, func(a, b int) bool { return ops[a].call < ops[b].call })
			for i := 1; i < len(ops); i++ {
				if ops[i].call < ops[i-1].ret {
					overlap++
				}
			}
			ops = append(ops, fin[ki])
			if goFail == "" && !vC16WLinearizable(ops) {
				goFail = fmt.Sprintf("%s cache: the recorded wrapper calls on key %d have no linearization as a map of fresh entries", w.name, k)
			}
		}
		for t := range hist {
			for i, o := range hist[t] {
				hop(t, keys[kidx[t][i]], o)
			}
		}
		for ki, k := range keys {
			hop(workers+1, k, fin[ki])
		}
		if w.length() > len(keys) && goFail == "" {
			goFail = fmt.Sprintf("Len()=%d with %d keys in use", w.length(), len(keys))
		}
		all = append(all, rec{overlap: overlap, rejected: goFail != "", c: map[string]any{
			"k": "wlin-" + w.name, "coq": "CaseWLin " + vC16NList(expIDs) + " [" + strings.Join(hops, "; ") + "]", "go_fail": goFail,
			"nontrivial": overlap > 0, "desc": map[string]any{"cache": w.name, "round": round, "overlapping_pairs": overlap, "history": strings.Join(descs, " | ")}}})
	}
	sort.SliceStable(all, func(a, b int) bool {
		if all[a].rejected != all[b].rejected {
			return all[a].rejected
		}
		return all[a].overlap > all[b].overlap
	})
	var out []map[string]any
	nrej := 0
	for _, x := range all {
		if x.rejected {
			if nrej++; nrej > 4 {
				continue
			}
		} else if len(out)-min(nrej, 4) >= emit {
			break
		}
		out = append(out, x.c)
	}
	return out
}

// The race the clean-up's CompareAndDelete exists for, many times over.  One wrapper
// (far below its capacity).  A writer goroutine walks through n distinct keys (the
// zero key first): Set(expired entry); Set(fresh entry); Get — its own Get must find
// the fresh entry it has just stored, whatever the readers do.  Two reader goroutines
// chase it: they Get the key the writer is working on (at most 8 times per key);
// whenever one finds the expired entry it runs the clean-up, and the writer's fresh
// entry may arrive between its look and its CompareAndDelete.  After all returned,
// one more Get per key.  Every key is one history (keys are independent registers of
// the specification), recorded and judged like the general rounds (CaseWLin + Go-side
// search); every rejected key (at most 4) and the `emit` with the most reader calls
// overlapping the writer's are written out.
func vC16WChase(seed int64, negative bool, n, emit int) []map[string]any {
	w := vC16NewWrap(negative, 1<<20)
	base := uint64(seed&1)<<40 + 1
	keyOf := func(i int) uint64 {
		if i == 0 {
			return 0
		}
		return base + uint64(i)*2
	}
	type rop struct {
		idx int
		o   vC16WOp
	}
	var clk, cur atomic.Int64
	wops := make([][3]vC16WOp, n)
	rops := make([][]rop, 2)
	var wg sync.WaitGroup
	start := make(chan struct{})
	wg.Add(3)
	go func() {
		defer wg.Done()
		<-start
		for i := 0; i < n; i++ {
			cur.Store(int64(i))
			k := keyOf(i)
			ex, fr := vC16Entry(true), vC16Entry(false)
			ex.rateLimKey, fr.rateLimKey = uint64(1000000000+i), uint64(i+1)
			o := vC16WOp{kind: 1, val: ex.rateLimKey, expired: true, call: clk.Add(1)}
			w.set(k, ex)
			o.ret = clk.Add(1)
			wops[i][0] = o
			o = vC16WOp{kind: 1, val: fr.rateLimKey, call: clk.Add(1)}
			w.set(k, fr)
			o.ret = clk.Add(1)
			wops[i][1] = o
			o = vC16WOp{kind: 0, call: clk.Add(1)}
			got, ok := w.get(k)
			o.ret = clk.Add(1)
			if ok {
				o.res = got.rateLimKey
			}
			wops[i][2] = o
		}
		cur.Store(int64(n))
	}()
	for rd := 0; rd < 2; rd++ {
		go func(rd int) {
			defer wg.Done()
			<-start
			last, cnt := -1, 0
			for {
				i := int(cur.Load())
				if i >= n {
					return
				}
				if i != last {
					last, cnt = i, 0
				}
				if cnt++; cnt > 8 {
					runtime.Gosched()
					continue
				}
				o := vC16WOp{kind: 0, call: clk.Add(1)}
				got, ok := w.get(keyOf(i))
				o.ret = clk.Add(1)
				if ok {
					o.res = got.rateLimKey
				}
				rops[rd] = append(rops[rd], rop{i, o})
			}
		}(rd)
	}
	close(start)
	if !vC16WaitOrHang(&wg) {
		return []map[string]any{{"k": "wchase", "coq": "CaseGo 10", "go_fail": "deadlock: chase workers did not finish", "nontrivial": false, "desc": "hang"}}
	}
	perKey := make([][][]vC16WOp, n) // key -> thread (writer, reader 0, reader 1, final) -> ops
	for i := range perKey {
		perKey[i] = [][]vC16WOp{wops[i][:], nil, nil, nil}
	}
	for rd := range rops {
		for _, r := range rops[rd] {
			perKey[r.idx][1+rd] = append(perKey[r.idx][1+rd], r.o)
		}
	}
	for i := 0; i < n; i++ {
		fin := vC16WOp{kind: 0, call: clk.Add(1)}
		if got, ok := w.get(keyOf(i)); ok {
			fin.res = got.rateLimKey
		}
		fin.ret = clk.Add(1)
		perKey[i][3] = []vC16WOp{fin}
	}
	type rec struct {
		i, overlap int
		rejected   bool
	}
	recs := make([]rec, 0, n)
	nrejAll := 0
	for i := 0; i < n; i++ {
		var all []vC16WOp
		for _, t := range perKey[i] {
			all = append(all, t...)
		}
		sort.Slice(all, func(a, b int) bool { return all[a].call < all[b].call })
		overlap := 0
		wlast := wops[i][2].ret
		for t := 1; t <= 2; t++ {
			for _, o := range perKey[i][t] {
				if o.call < wlast {
					overlap++
				}
			}
		}
		rej := !vC16WLinearizable(all)
		if rej {
			nrejAll++
		}
		recs = append(recs, rec{i, overlap, rej})
	}
	sort.SliceStable(recs, func(a, b int) bool {
		if recs[a].rejected != recs[b].rejected {
			return recs[a].rejected
		}
		return recs[a].overlap > recs[b].overlap
	})
	var out []map[string]any
	nrej := 0
	for _, x := range recs {
		if x.rejected {
			if nrej++; nrej > 4 {
				continue
			}
		} else if len(out)-min(nrej, 4) >= emit {
			break
		}
		k := keyOf(x.i)
		var hops, descs []string
		var expIDs []uint64
		for t, l := range perKey[x.i] {
			for _, o := range l {
				ev := ""
				switch o.kind {
				case 0:
					ev = fmt.Sprintf("LGet %d %d %s", t, k, vC16Opt(o.res, o.res != 0))
				default:
					ev = fmt.Sprintf("LStore %d %d %d", t, k, o.val)
					if o.expired {
						expIDs = append(expIDs, o.val)
					}
				}
				hops = append(hops, fmt.Sprintf("mk_hop (%s) %d %d", ev, o.call, o.ret))
				descs = append(descs, fmt.Sprintf("t%d %s", t, o.String()))
			}
		}
		goFail := ""
		if x.rejected {
			goFail = fmt.Sprintf("%s cache: the calls on key %d (a writer storing an expired, then a fresh entry and reading it back; readers cleaning up) have no linearization as a map of fresh entries (%d of %d keys rejected in this run)", w.name, k, nrejAll, n)
		}
		out = append(out, map[string]any{
			"k": "wchase-" + w.name, "coq": "CaseWLin " + vC16NList(expIDs) + " [" + strings.Join(hops, "; ") + "]", "go_fail": goFail,
			"nontrivial": x.overlap > 0, "desc": map[string]any{"cache": w.name, "key": k, "reader_calls_overlapping_writer": x.overlap, "history": strings.Join(descs, " | ")}})
	}
	return out
}

// ------------------------------------------------------------------ corpus
// Fixed wrapper scripts replayed first on every run: "S<key>" Set fresh, "X<key>" Set
// expired, "G<key>" Get, "R<key>" Remove.

type vC16WrapScript struct {
	Name     string   `json:"name"`
	Negative bool     `json:"negative"`
	Size     int      `json:"size"`
	Ops      []string `json:"ops"`
}

func vC16CorpusWrap(path string) []map[string]any {
	b, err := os.ReadFile(path)
	if err != nil {
		return nil
	}
	var scripts []vC16WrapScript
	if err := json.Unmarshal(b, &scripts); err != nil {
		return []map[string]any{{"k": "corpus", "coq": "CaseGo 11", "go_fail": "corpus/C16/wrap_scripts.json does not parse: " + err.Error(), "nontrivial": false, "desc": "corpus"}}
	}
	var out []map[string]any
	for _, sc := range scripts {
		w := vC16NewWrap(sc.Negative, sc.Size)
		ids := map[*CacheEntry]uint64{}
		var expIDs []uint64
		ref := map[uint64]*CacheEntry{}
		var steps []string
		goFail := ""
		for i, s := range sc.Ops {
			k, _ := strconv.ParseUint(s[1:], 10, 64)
			op := ""
			switch s[0] {
			case 'S', 'X':
				e := vC16Entry(s[0] == 'X')
				ids[e] = uint64(len(ids) + 1)
				if s[0] == 'X' {
					expIDs = append(expIDs, ids[e])
				}
				w.set(k, e)
				ref[k] = e
				var gone []uint64
				for rk := range ref {
					if _, ok := w.inner.Get(rk); !ok {
						gone = append(gone, rk)
					}
				}
				sort.Slice(gone, func(a, b int) bool { return gone[a] < gone[b] })
				for _, gk := range gone {
					delete(ref, gk)
				}
				op = fmt.Sprintf("WSet %d %d %s", k, ids[e], vC16NList(gone))
			case 'R':
				w.remove(k)
				delete(ref, k)
				op = fmt.Sprintf("WRem %d", k)
			default:
				got, ok := w.get(k)
				rv, had := ref[k]
				wantHit := had && !rv.IsExpired()
				if (ok != wantHit || (ok && got != rv)) && goFail == "" {
					goFail = fmt.Sprintf("script %s op %d: Get(%d) hit=%v, stored %v, fresh %v", sc.Name, i, k, ok, had, wantHit)
				}
				if had && !wantHit {
					delete(ref, k)
				}
				op = fmt.Sprintf("WGet %d %s", k, vC16Opt(ids[got], ok))
			}
			if w.length() != len(ref) && goFail == "" {
				goFail = fmt.Sprintf("script %s op %d: Len()=%d but reference holds %d", sc.Name, i, w.length(), len(ref))
			}
			steps = append(steps, fmt.Sprintf("Ws (%s) %d", op, w.length()))
		}
		out = append(out, map[string]any{
			"k": "wrap-corpus", "coq": fmt.Sprintf("CaseWrap %s %s [%s]", vC16Z(int64(sc.Size)), vC16NList(expIDs), strings.Join(steps, ";")),
			"go_fail": goFail, "nontrivial": true, "desc": map[string]any{"script": sc.Name, "ops": sc.Ops},
		})
	}
	return out
}

// CacheEntry.IsExpired on real entries against the translated function's model (CaseExp):
// entries whose ttl / cutUntil end hours, seconds or microseconds before or after "now"
// (and entries without a cut), the clock read before and after the calls.  Where the
// model's verdict is the same at both readings the code must agree — no verdict depends
// on where inside the bracket the calls fell.
func vC16ExpCase(r *rand.Rand, n int) map[string]any {
	type ent struct {
		e *CacheEntry
		b bool
	}
	base := time.Now()
	spans := []time.Duration{100 * time.Hour, time.Hour, 3 * time.Second, 20 * time.Microsecond, 0}
	off := func() time.Duration {
		s := spans[r.Intn(len(spans))]
		if s == 0 {
			return 0
		}
		return time.Duration(r.Int63n(int64(2*s))) - s
	}
	ents := make([]ent, n)
	for i := range ents {
		stored := base.Add(off() - time.Hour)
		// ttl so that stored+ttl lands at base+off(); clamped at 0 like a stored TTL
		ttl := base.Add(off()).Sub(stored)
		if ttl < 0 || r.Intn(10) == 0 {
			ttl = time.Duration(r.Intn(2)) * time.Second * time.Duration(r.Intn(4000))
		}
		e := &CacheEntry{stored: stored, ttl: ttl}
		if r.Intn(2) == 0 {
			e.cutUntil = base.Add(off())
			if e.cutUntil.Equal(base) {
				e.cutUntil = base.Add(time.Nanosecond)
			}
		}
		ents[i] = ent{e: e}
	}
	lo := time.Now()
	for i := range ents {
		ents[i].b = ents[i].e.IsExpired()
	}
	hi := time.Now()
	var obs []string
	goFail := ""
	nExp := 0
	for _, x := range ents {
		cut := int64(0)
		ends := x.e.stored.Add(x.e.ttl)
		if !x.e.cutUntil.IsZero() {
			cut = int64(x.e.cutUntil.Sub(base))
			if x.e.cutUntil.Before(ends) {
				ends = x.e.cutUntil
			}
		}
		if !ends.After(lo) && !x.b && goFail == "" {
			goFail = fmt.Sprintf("entry stored %v ttl %v cut %v: ended %v before the clock was read, IsExpired() = false", x.e.stored.Sub(base), x.e.ttl, cut, lo.Sub(ends))
		}
		if ends.After(hi) && x.b && goFail == "" {
			goFail = fmt.Sprintf("entry stored %v ttl %v cut %v: %v left after the clock was read, IsExpired() = true", x.e.stored.Sub(base), x.e.ttl, cut, ends.Sub(hi))
		}
		if x.b {
			nExp++
		}
		obs = append(obs, fmt.Sprintf("Eobs %s %s %s %v", vC16Z(int64(x.e.stored.Sub(base))), vC16Z(int64(x.e.ttl)), vC16Z(cut), x.b))
	}
	return map[string]any{
		"k": "expiry", "coq": fmt.Sprintf("CaseExp %s %s [%s]", vC16Z(int64(lo.Sub(base))), vC16Z(int64(hi.Sub(base))), strings.Join(obs, "; ")),
		"go_fail": goFail, "nontrivial": nExp > 0 && nExp < n,
		"desc": map[string]any{"entries": n, "expired": nExp, "bracket_ns": int64(hi.Sub(lo))},
	}
}

func TestVerifC16Wrap(t *testing.T) {
	tr := vC16Open(t)
	defer tr.f.Close()
	seed := int64(vC16EnvInt("VERIF_SEED", 1))
	n := vC16EnvInt("VERIF_N", 60)
	r := rand.New(rand.NewSource(seed + 1601))
	if dir := os.Getenv("VERIF_CORPUS"); dir != "" {
		for _, c := range vC16CorpusWrap(dir + "/wrap_scripts.json") {
			tr.emit(c)
		}
	}
	sizes := []int{-1, 0, 1, 2, 3, 5, 8, 20, 100, 1500}
	for c := 0; c < n; c++ {
		size := sizes[r.Intn(len(sizes))]
		nops := 25 + r.Intn(40)
		if c%2 == 1 {
			size, nops = []int{1, 1, 2, 3, 5}[r.Intn(5)], 8+r.Intn(12)
		}
		tr.emit(vC16WrapHistory(r, c%4 >= 2, size, nops))
	}
	for c := 0; c < 6; c++ {
		tr.emit(vC16ExpCase(r, 40))
	}
	rounds, emit := 1000, 30
	chase, cemit := 80000, 12
	if os.Getenv("VERIF_TIER") == "thorough" {
		rounds, emit = 10000, 300
		chase, cemit = 300000, 120
	}
	for _, c := range vC16WLinCases(seed, rounds, emit, 3, 4) {
		tr.emit(c)
	}
	for _, c := range vC16WChase(seed, false, chase, cemit) {
		tr.emit(c)
	}
	for _, c := range vC16WChase(seed+1, true, chase, cemit) {
		tr.emit(c)
	}
}
