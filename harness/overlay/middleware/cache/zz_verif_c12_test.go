//go:build verif

package cache

// C12 driver (package middleware/cache): the CNAME chase loop of Cache.additionalAnswer as it is
// reached in production — a terminal handler writes "c0 CNAME c1" through the cache's
// ResponseWriter, which chases through the injected Queryer. The scripted queryer answers
// name c<i> with one CNAME hop (or the final A record) and counts how often it is asked.
// Observed: number of chase sub-queries and the rcode the client gets, for chains of any length,
// chains that loop back to the question or to an earlier target, and any incoming chase nesting.

import (
	"context"
	"encoding/json"
	"fmt"
	"math/rand"
	"net"
	"os"
	"strconv"
	"testing"

	"github.com/miekg/dns"
	"github.com/semihalev/sdns/config"
	"github.com/semihalev/sdns/internal/mock"
	"github.com/semihalev/sdns/middleware"
)

type vC12ChainQueryer struct {
	chainLen, loopAt, loopTo int
	prefix                   string
	asked                    int
	unexpected               string
}

func (q *vC12ChainQueryer) name(i int) string { return fmt.Sprintf("c%d.%s.verif.test.", i, q.prefix) }

func (q *vC12ChainQueryer) Query(ctx context.Context, req *dns.Msg) (*dns.Msg, error) {
	q.asked++
	var i int
	if _, err := fmt.Sscanf(req.Question[0].Name, "c%d.", &i); err != nil || req.Question[0].Name != q.name(i) {
		q.unexpected = req.Question[0].Name
	}
	m := new(dns.Msg)
	m.SetReply(req)
	m.CheckingDisabled = req.CheckingDisabled
	hdr := func(t uint16) dns.RR_Header {
		return dns.RR_Header{Name: q.name(i), Rrtype: t, Class: dns.ClassINET, Ttl: 300}
	}
	switch {
	case q.loopAt > 0 && i == q.loopAt:
		m.Answer = []dns.RR{&dns.CNAME{Hdr: hdr(dns.TypeCNAME), Target: q.name(q.loopTo)}}
	case i < q.chainLen:
		m.Answer = []dns.RR{&dns.CNAME{Hdr: hdr(dns.TypeCNAME), Target: q.name(i + 1)}}
	default:
		m.Answer = []dns.RR{&dns.A{Hdr: hdr(dns.TypeA), A: net.IPv4(192, 0, 2, 7)}}
	}
	return m, nil
}

type vC12Terminal struct{ q *vC12ChainQueryer }

func (h *vC12Terminal) Name() string { return "vc12terminal" }
func (h *vC12Terminal) ServeDNS(ctx context.Context, ch *middleware.Chain) {
	req := ch.Request.Msg()
	m := new(dns.Msg)
	m.SetReply(req)
	m.CheckingDisabled = req.CheckingDisabled
	m.Answer = []dns.RR{&dns.CNAME{Hdr: dns.RR_Header{Name: h.q.name(0), Rrtype: dns.TypeCNAME, Class: dns.ClassINET, Ttl: 300}, Target: h.q.name(1)}}
	_ = ch.Writer.WriteMsg(m)
}

func TestVerifC12Chase(t *testing.T) {
	path := os.Getenv("VERIF_OUT")
	if path == "" {
		t.Skip("VERIF_OUT not set")
	}
	f, err := os.Create(path)
	if err != nil {
		t.Fatal(err)
	}
	defer f.Close()
	seed, _ := strconv.Atoi(os.Getenv("VERIF_SEED"))
	n, _ := strconv.Atoi(os.Getenv("VERIF_N"))
	if n == 0 {
		n = 200
	}
	r := rand.New(rand.NewSource(int64(seed)*104729 + 12))
	cfg := new(config.Config)
	cfg.CacheSize = 4096
	cfg.Expire = 600
	cfg.RecursionFirewall.Mode = config.RecursionFirewallModeOff
	c := New(cfg)
	for i := 0; i < n; i++ {
		q := &vC12ChainQueryer{prefix: fmt.Sprintf("s%dn%d", seed, i)}
		switch r.Intn(4) {
		case 0:
			q.chainLen = 1 + r.Intn(9)
		case 1:
			q.chainLen = 8 + r.Intn(6) // around the 10-hop cap
		default:
			q.chainLen = 1 + r.Intn(30)
		}
		if r.Intn(3) == 0 {
			q.loopAt = 1 + r.Intn(q.chainLen)
			q.loopTo = r.Intn(q.loopAt + 1) // back to the question (0) or an earlier / the same target
		}
		depth0 := 0
		switch r.Intn(4) {
		case 0:
			depth0 = 8 + r.Intn(4)
		case 1:
			depth0 = r.Intn(8)
		}
		c.SetQueryer(q)
		ctx := context.Background()
		if depth0 > 0 {
			ctx = withCnameChaseDepth(ctx, depth0)
		}
		w := mock.NewWriter("udp", "192.0.2.98:5353")
		req := new(dns.Msg)
		req.SetQuestion(q.name(0), dns.TypeA)
		req.SetEdns0(1232, false)
		ch := middleware.NewChain([]middleware.Handler{c, &vC12Terminal{q: q}})
		ch.Reset(w, req)
		ch.Next(ctx)
		rcode := -1
		if w.Written() {
			rcode = w.Msg().Rcode
		}
		goFail := ""
		if q.unexpected != "" {
			goFail = "chase asked for a name outside the chain: " + q.unexpected
		}
		kind := "chain"
		if q.loopAt > 0 {
			kind = "loop"
		}
		if depth0 >= 10 {
			kind += "-deep"
		}
		b, _ := json.Marshal(map[string]any{
			"k":          "chase-" + kind,
			"coq":        fmt.Sprintf("CaseChase %d %d %d %d %d %d", depth0, q.chainLen, q.loopAt, q.loopTo, q.asked, rcode),
			"nontrivial": q.chainLen >= 10 || q.loopAt > 0 || depth0 >= 9,
			"go_fail":    goFail,
			"desc":       map[string]any{"chase_depth_in_ctx": depth0, "chain_len": q.chainLen, "loop_at": q.loopAt, "loop_to": q.loopTo, "subqueries": q.asked, "rcode": rcode},
		})
		f.Write(append(b, '\n'))
	}
}
