//go:build verif

package cache

// C04 driver (subtree cuts and denial proofs): lifetimes are the plain minimum
// of every proof term and the lease, no floor; nothing is served past expiry
// on the Msg route or the wire route.

import (
	"encoding/json"
	"fmt"
	"math/rand"
	"os"
	"path/filepath"
	"sort"
	"strings"
	"testing"
	"time"

	"github.com/miekg/dns"
	"github.com/semihalev/sdns/middleware"
)

var vC04ProofTTLs = []uint32{0, 1, 2, 3, 4, 5, 6, 10, 30, 60, 300, 3600, 10799, 10800, 10801, 86400, 100000}

func vC04PTTL(r *rand.Rand) uint32 {
	if r.Intn(3) == 0 {
		return uint32(r.Intn(30))
	}
	return vC04ProofTTLs[r.Intn(len(vC04ProofTTLs))]
}

func vC04PRRs(rrs []dns.RR) string {
	var p []string
	for _, rr := range rrs {
		switch x := rr.(type) {
		case *dns.SOA:
			p = append(p, fmt.Sprintf("PSoa %d %d", x.Hdr.Ttl, x.Minttl))
		case *dns.RRSIG:
			p = append(p, fmt.Sprintf("PSig %d %d %d", x.Hdr.Ttl, x.OrigTtl, x.Expiration))
		default:
			p = append(p, fmt.Sprintf("PPlain %d", rr.Header().Ttl))
		}
	}
	return "[" + strings.Join(p, "; ") + "]"
}

// vC04NXProof: NXDOMAIN for denied under zone, proved by two NSEC intervals,
// every TTL field and signature window drawn independently.
func vC04NXProof(r *rand.Rand, zone, denied string, nowUnix int64, tight bool) *dns.Msg {
	exp := func() int64 {
		if tight || r.Intn(3) == 0 {
			return nowUnix + []int64{-5, 1, 2, 3, 5, 8, 13, 40}[r.Intn(8)]
		}
		return nowUnix + 7200 + int64(r.Intn(100000))
	}
	ttl := func() uint32 {
		if tight {
			return vC04PTTL(r)
		}
		if r.Intn(3) == 0 {
			return vC04PTTL(r)
		}
		return 300
	}
	m := new(dns.Msg)
	m.SetQuestion(denied, dns.TypeA)
	m.Response = true
	m.Rcode = dns.RcodeNameError
	m.AuthenticatedData = true
	sig := func(owner string, covered uint16) *dns.RRSIG {
		s := vC04Sig(owner, covered, ttl(), exp(), zone)
		s.OrigTtl = ttl()
		return s
	}
	m.Ns = []dns.RR{
		vC04SOA(zone, ttl(), ttl()),
		sig(zone, dns.TypeSOA),
		&dns.NSEC{Hdr: dns.RR_Header{Name: "a." + zone, Rrtype: dns.TypeNSEC, Class: dns.ClassINET, Ttl: ttl()}, NextDomain: "z." + zone, TypeBitMap: []uint16{dns.TypeA, dns.TypeRRSIG, dns.TypeNSEC}},
		sig("a."+zone, dns.TypeNSEC),
		&dns.NSEC{Hdr: dns.RR_Header{Name: zone, Rrtype: dns.TypeNSEC, Class: dns.ClassINET, Ttl: ttl()}, NextDomain: "a." + zone, TypeBitMap: []uint16{dns.TypeNS, dns.TypeSOA, dns.TypeRRSIG, dns.TypeNSEC, dns.TypeDNSKEY}},
		sig(zone, dns.TypeNSEC),
	}
	return m
}

// vC04NXProofFixed: the same proof shape with one TTL for every field and one
// signature expiration (seconds from nowUnix) — for the fixed scenarios of corpus/C04/cuts.jsonl.
func vC04NXProofFixed(zone, denied string, nowUnix int64, ttl uint32, sigExp int64) *dns.Msg {
	m := new(dns.Msg)
	m.SetQuestion(denied, dns.TypeA)
	m.Response = true
	m.Rcode = dns.RcodeNameError
	m.AuthenticatedData = true
	sig := func(owner string, covered uint16) *dns.RRSIG {
		s := vC04Sig(owner, covered, ttl, nowUnix+sigExp, zone)
		s.OrigTtl = ttl
		return s
	}
	m.Ns = []dns.RR{
		vC04SOA(zone, ttl, ttl),
		sig(zone, dns.TypeSOA),
		&dns.NSEC{Hdr: dns.RR_Header{Name: "a." + zone, Rrtype: dns.TypeNSEC, Class: dns.ClassINET, Ttl: ttl}, NextDomain: "z." + zone, TypeBitMap: []uint16{dns.TypeA, dns.TypeRRSIG, dns.TypeNSEC}},
		sig("a."+zone, dns.TypeNSEC),
		&dns.NSEC{Hdr: dns.RR_Header{Name: zone, Rrtype: dns.TypeNSEC, Class: dns.ClassINET, Ttl: ttl}, NextDomain: "a." + zone, TypeBitMap: []uint16{dns.TypeNS, dns.TypeSOA, dns.TypeRRSIG, dns.TypeNSEC, dns.TypeDNSKEY}},
		sig(zone, dns.TypeNSEC),
	}
	return m
}

// vC04CutPlan is one fixed scenario of corpus/C04/cuts.jsonl: admissions of a cut for
// the same denied name, each followed by clock steps and descendant queries.
type vC04CutPlan struct {
	Name       string `json:"name"`
	Admissions []struct {
		TTL     uint32 `json:"ttl"`
		SigExpS int64  `json:"sig_exp_s"`
		LeaseMs int64  `json:"lease_ms"` // 0: no lease
		Steps   []struct {
			ShiftMs int64 `json:"shift_ms"`
			Route   int   `json:"route"` // 0 1 2 as env.query, 5 Store.GetWithContext
		} `json:"steps"`
	} `json:"admissions"`
}

func TestVerifC04Cuts(t *testing.T) {
	out := vC04Open(t)
	defer out.f.Close()
	r := rand.New(rand.NewSource(int64(vC04EnvInt("VERIF_SEED", 1)) + 4041))
	n := vC04EnvInt("VERIF_N", 600)
	// fixed regression inputs first (seeded change C04-5: re-recording a live cut, ...)
	if raw, err := os.ReadFile(filepath.Join(os.Getenv("VERIF_CORPUS"), "cuts.jsonl")); err == nil {
		for _, line := range strings.Split(string(raw), "\n") {
			if line = strings.TrimSpace(line); line == "" || strings.HasPrefix(line, "#") {
				continue
			}
			plan := new(vC04CutPlan)
			if err := json.Unmarshal([]byte(line), plan); err != nil {
				t.Fatalf("corpus cuts.jsonl: %v", err)
			}
			vC04CaseCut(out, r, plan)
		}
	}
	// seeded changes C04-3 / C04-7: several admissions into one signer zone
	if raw, err := os.ReadFile(filepath.Join(os.Getenv("VERIF_CORPUS"), "proofhist.jsonl")); err == nil {
		for _, line := range strings.Split(string(raw), "\n") {
			if line = strings.TrimSpace(line); line == "" || strings.HasPrefix(line, "#") {
				continue
			}
			plan := new(vC04PHPlan)
			if err := json.Unmarshal([]byte(line), plan); err != nil {
				t.Fatalf("corpus proofhist.jsonl: %v", err)
			}
			vC04CaseProofHist(out, r, plan)
		}
	}
	for c := 0; c < n; c++ {
		if c%8 == 7 {
			// (every eighth case; a proof-tree history emits several cases)
			vC04CaseProofTree(out, r)
			continue
		}
		switch c % 4 {
		case 0:
			vC04CaseProofExp(out, r)
		case 1:
			vC04CaseCut(out, r, nil)
		case 2:
			vC04CaseProofServe(out, r)
		case 3:
			vC04CaseProofHist(out, r, nil)
		}
	}
}

// denialProofExpiry with an explicit clock: exact.
func vC04CaseProofExp(out *vC04Out, r *rand.Rand) {
	sec := int64(1790000000 + r.Intn(100000))
	nsec := int64([]int{0, 1, 999999999, r.Intn(1000000000)}[r.Intn(4)])
	now := time.Unix(sec, nsec)
	nowNs := sec*1000000000 + nsec
	proof := vC04NXProof(r, "c04exp.test.", "m.c04exp.test.", sec, r.Intn(2) == 0)
	recs := proof.Ns[:2+2*r.Intn(3)]
	var cut time.Time
	hasCut := r.Intn(2) == 0
	cutNs := int64(0)
	if hasCut {
		off := []time.Duration{-time.Second, 0, 1, time.Second, 2500 * time.Millisecond, time.Hour, 4 * time.Hour}[r.Intn(7)]
		cut = now.Add(off)
		cutNs = nowNs + int64(off)
	}
	maxTTL := []time.Duration{0, -1, 25 * time.Second, 3 * time.Hour, 3*time.Hour + 1, 24 * time.Hour}[r.Intn(6)]
	got, ok := denialProofExpiry(now, maxTTL, cut, recs)
	obs := "None"
	fail := ""
	if ok {
		obs = fmt.Sprintf("(sz %d)", got.UnixNano())
		life := got.Sub(now)
		if life <= 0 {
			fail = "non-positive proof lifetime admitted"
		}
		if hasCut && got.After(cut) {
			fail = "proof outlives its lease"
		}
		for _, rr := range recs {
			if life > time.Duration(rr.Header().Ttl)*time.Second {
				fail = "proof outlives a record TTL (a floor was applied?)"
			}
			if s, ok := rr.(*dns.RRSIG); ok && got.After(time.Unix(int64(s.Expiration), 0)) {
				fail = "proof outlives its signature"
			}
		}
	}
	out.emit(map[string]any{"k": "proof-expiry", "nontrivial": true, "go_fail": fail,
		"coq":  fmt.Sprintf("CProofExp %s %s %s %d %s", vC04Z(int64(maxTTL)), vC04OZ(hasCut, cutNs), vC04PRRs(recs), nowNs, obs),
		"desc": map[string]any{"max_ttl": maxTTL.String(), "cut": fmt.Sprint(hasCut, cutNs-nowNs), "records": len(recs), "ok": ok, "life": fmt.Sprint(got.Sub(now))}})
}

// a subtree cut: record through the store seam WriteMsg uses, then serve a
// descendant on the Msg and the wire route across a stepped clock.
func vC04CaseCut(out *vC04Out, r *rand.Rand, plan *vC04CutPlan) {
	expire := []int{0, 5, 600, 600, 100000}[r.Intn(5)]
	if plan != nil {
		expire = 600
	}
	env := vC04NewEnv(0, 0, expire)
	defer env.close()
	k := env.k
	zone, denied := "c04cut.test.", "gone.c04cut.test."
	cc := env.c.store.nxDomainCuts
	id := nxDomainCutID{deniedName: denied, qclass: dns.ClassINET}
	// one to three admissions for the same denied name across clock steps: a cut
	// re-learned while the previous one is live takes the lifetime of the NEW proof
	nAdm := 1 + r.Intn(3)
	if plan != nil {
		nAdm = len(plan.Admissions)
	}
	pre := ""
	if plan != nil {
		pre = "corpus-"
	}
	for adm := 0; adm < nAdm; adm++ {
		tight := r.Intn(3) == 0
		if adm == 0 && nAdm > 1 {
			tight = r.Intn(6) == 0 // something long-lived to be replaced
		}
		if adm > 0 {
			tight = r.Intn(3) > 0 // re-admissions are mostly shorter-lived than what they replace
		}
		proof := vC04NXProof(r, zone, denied, time.Now().Unix(), tight)
		hasCut := r.Intn(2) == 0
		cutV := int64(0)
		var cutReal time.Time
		if hasCut {
			off := []time.Duration{-time.Second, 1500 * time.Millisecond, 4 * time.Second, 200 * time.Second, 2 * time.Hour}[r.Intn(5)]
			cutV = k.now() + int64(off)
			cutReal = k.real(cutV)
		}
		if plan != nil {
			pa := plan.Admissions[adm]
			proof = vC04NXProofFixed(zone, denied, time.Now().Unix(), pa.TTL, pa.SigExpS)
			hasCut, cutV, cutReal = pa.LeaseMs != 0, 0, time.Time{}
			if hasCut {
				cutV = k.now() + pa.LeaseMs*int64(time.Millisecond)
				cutReal = k.real(cutV)
			}
		}
		prev := cc.entries[id]
		t0, w0 := k.now(), time.Now().UnixNano()
		ok := env.c.store.RecordNXDomainCut(proof, denied, zone, cutReal)
		t1, w1 := k.now(), time.Now().UnixNano()
		_ = t0
		_ = w0
		soa := proof.Ns[0].(*dns.SOA)
		entry := cc.entries[id]
		if ok != (entry != nil && entry != prev) {
			out.emit(map[string]any{"k": "cut-record", "go_fail": "RecordNXDomainCut verdict disagrees with the index", "desc": "internal"})
			return
		}
		if !ok {
			out.emit(map[string]any{"k": pre + "cut-record-refused", "nontrivial": true,
				"coq": fmt.Sprintf("CCutRec %d %d %d %s %s %s %d %s %d None", int64(cc.maxTTL), soa.Hdr.Ttl, soa.Minttl, vC04PRRs(proof.Ns), vC04OZ(hasCut, cutV),
					vC04Z(t1), w1, vC04Z(t1), w1),
				"desc": map[string]any{"proof": proof.String(), "cut": fmt.Sprint(hasCut, cutV)}})
			if entry == nil {
				continue
			}
		}
		nowV, wall := k.virt(entry.stored), entry.stored.UnixNano()
		expV := k.virt(entry.expires)
		fail := ""
		life := entry.expires.Sub(entry.stored)
		for _, rr := range entry.msg.Ns {
			if ok && life > time.Duration(rr.Header().Ttl)*time.Second {
				fail = "cut outlives a proof record TTL (a floor was applied?)"
			}
		}
		if ok && hasCut && expV > cutV {
			fail = "cut outlives its lease"
		}
		kr := "cut-record"
		if adm > 0 {
			kr = "cut-rerecord"
			if prev != nil && prev != entry && time.Now().Before(prev.expires) {
				kr = "cut-rerecord-live"
				if entry.expires.Before(prev.expires) {
					kr = "cut-rerecord-live-shorter"
				}
			}
		}
		if !ok {
			kr = "" // refused: keep serving what is there, against ITS expiry
		}
		if kr != "" {
			out.emit(map[string]any{"k": pre + kr, "nontrivial": true, "go_fail": fail,
				"coq": fmt.Sprintf("CCutRec %d %d %d %s %s %s %d %s %d (sz %s)", int64(cc.maxTTL), soa.Hdr.Ttl, soa.Minttl, vC04PRRs(entry.msg.Ns), vC04OZ(hasCut, cutV),
					vC04Z(nowV), wall, vC04Z(t1), w1, vC04Z(expV)),
				"desc": map[string]any{"proof": proof.String(), "cut": fmt.Sprint(hasCut, cutV), "life": life.String()}})
		}

		// serve descendants while stepping towards and past the expiry
		steps := 2 + r.Intn(3)
		if plan != nil {
			steps = len(plan.Admissions[adm].Steps)
		}
		for s := 0; s < steps; s++ {
			now := k.now()
			var target int64
			pick := r.Intn(5)
			if adm < nAdm-1 && r.Intn(4) > 0 {
				pick = 3 + r.Intn(2) // stay inside the lifetime: the next admission replaces a live cut
			}
			switch pick {
			case 0:
				target = expV - int64(1400*time.Millisecond)
			case 1:
				target = expV - int64(300*time.Millisecond)
			case 2:
				target = expV + int64(200*time.Millisecond)
			case 3:
				target = now
			default:
				if expV > now {
					span := expV - now
					if adm < nAdm-1 {
						span /= 2
					}
					target = now + r.Int63n(span+1)
				}
			}
			route := []int{0, 1, 2, 2, 5}[r.Intn(5)]
			if plan != nil {
				ps := plan.Admissions[adm].Steps[s]
				target, route = now+ps.ShiftMs*int64(time.Millisecond), ps.Route
			}
			if target > now {
				vC04Shift(env.c, k, time.Duration(target-now))
			}
			qname := []string{"a.b.GONE.c04cut.test.", "gone.c04cut.test.", "x.gone.c04cut.test."}[r.Intn(3)]
			var rep vC04Reply
			if route == 5 {
				rep = env.storeGet(qname, r.Intn(2) == 0)
			} else {
				rep = env.query(route, qname, r.Intn(2) == 0, false, nil, "")
			}
			ttl := int64(-1)
			sfail := ""
			if len(rep.stubbed) == 0 && rep.msg != nil && rep.msg.Rcode == dns.RcodeNameError {
				tt := vC04ReplyTTLs(rep.msg)
				if len(tt) == 0 {
					continue
				}
				ttl = int64(tt[0])
				for _, x := range tt {
					if int64(x) != ttl {
						sfail = "records of one cut carry different TTLs"
					}
				}
				if rep.t0 >= expV {
					sfail = "cut served past its expiry"
				} else if ttl*int64(time.Second) > expV-rep.t0 {
					sfail = "cut TTL exceeds the time remaining"
				}
			}
			kk := fmt.Sprintf("%scut-serve-route%d", pre, route)
			if rep.cutWire {
				kk += "-wire"
			}
			bound := rep.bound
			if ttl < 0 {
				bound = "None"
			}
			out.emit(map[string]any{"k": kk, "nontrivial": true, "go_fail": sfail,
				"coq":  fmt.Sprintf("CCutServe %d %s %s %s %s %s", route, vC04Z(expV), vC04Z(rep.t0), vC04Z(rep.t1), vC04Z(ttl), bound),
				"desc": map[string]any{"qname": qname, "expires_in": expV - rep.t0, "ttl": ttl, "route": route, "wire": rep.cutWire}})
			if ttl < 0 && plan == nil {
				break
			}
		}
	}
}

// the RFC 8198 proof index with its injectable clock: exact.
func vC04CaseProofServe(out *vC04Out, r *rand.Rand) {
	now := time.Unix(int64(1790000000+r.Intn(100000)), int64(r.Intn(1000000000)))
	cur := now
	maxTTL := []time.Duration{25 * time.Second, 3 * time.Hour, 3 * time.Hour, 24 * time.Hour}[r.Intn(4)]
	cache := newDenialProofCacheWithConfig(denialProofCacheConfig{
		MaxEntries: 64, MaxEntriesPerZone: 32, MaxBytes: denialProofDerivedBytes(64), MaxBytesPerZone: denialProofDerivedBytes(32),
		MaxTTL: maxTTL, Now: func() time.Time { return cur },
	})
	zone := "c04proof.test."
	proof := vC04NXProof(r, zone, "m."+zone, now.Unix(), r.Intn(3) == 0)
	var cut time.Time
	if r.Intn(3) == 0 {
		cut = now.Add(time.Duration(1+r.Intn(20)) * time.Second)
	}
	if !cache.recordWithKind(proof, zone, denialProofNSEC, cut) {
		out.emit(map[string]any{"k": "proof-serve-refused", "nontrivial": false,
			"coq": fmt.Sprintf("CProofServe 0 [] %d (-1) None", now.UnixNano()), "desc": "proof refused at admission (a non-positive term)"})
		return
	}
	var soaExp int64
	pieceOf := map[string]int64{}
	minExp := int64(0)
	for id, e := range cache.byID {
		x := e.expires.UnixNano()
		if id.kind == denialProofSOA {
			soaExp = x
		} else {
			pieceOf[id.owner] = x
		}
		if minExp == 0 || x < minExp {
			minExp = x
		}
	}
	// step the injected clock: before / at / after the earliest expiry
	switch r.Intn(6) {
	case 0:
		cur = time.Unix(0, minExp)
	case 1:
		cur = time.Unix(0, minExp-1)
	case 2:
		cur = time.Unix(0, minExp+1)
	case 3:
		cur = time.Unix(0, minExp-int64(time.Second))
	case 4:
		cur = time.Unix(0, minExp-int64(time.Second)+1)
	default:
		cur = now.Add(time.Duration(r.Int63n(minExp - now.UnixNano() + int64(time.Second))))
	}
	req := new(dns.Msg)
	req.SetQuestion("M."+zone, dns.TypeA)
	req.SetEdns0(1232, true)
	msg, _, _, expires, ok := cache.lookupWithMeta(req, nil)
	var pieces []string
	for _, o := range []string{"a." + zone, zone} {
		pieces = append(pieces, fmt.Sprint(pieceOf[o]))
	}
	ttl := int64(-1)
	eo := "None"
	fail := ""
	if ok {
		tt := vC04ReplyTTLs(msg)
		ttl = int64(tt[0])
		for _, x := range tt {
			if int64(x) != ttl {
				fail = "records of one synthesized denial carry different TTLs"
			}
		}
		eo = fmt.Sprintf("(sz %d)", expires.UnixNano())
		if cur.UnixNano() >= minExp {
			fail = "denial synthesized past the expiry of one of its pieces"
		} else if ttl*int64(time.Second) > minExp-cur.UnixNano() {
			fail = "synthesized TTL exceeds the earliest piece's remaining time"
		}
	}
	out.emit(map[string]any{"k": "proof-serve", "nontrivial": true, "go_fail": fail,
		"coq":  fmt.Sprintf("CProofServe %d [%s]%%Z %d %s %s", soaExp, strings.Join(pieces, "; "), cur.UnixNano(), vC04Z(ttl), eo),
		"desc": map[string]any{"served": ok, "ttl": ttl, "earliest_in_ns": minExp - cur.UnixNano()}})
}

// several proofs admitted into ONE signer zone across clock steps, with
// differing SOA negative TTLs, NSEC TTLs, signature windows and leases; every
// synthesised denial is judged against the end of the admission each of its
// pieces arrived in. Zone layout (canonical order): apex < a < c < m < p < z.
//
//	proof A denies c.<zone>: NSEC a->m (owner 1) + apex->a (owner 0, wildcard)
//	proof B denies p.<zone>: NSEC m->z (owner 2) + apex->a (owner 0, wildcard)
//
// Both carry the zone's SOA; a later admission replaces the SOA entry and the
// sets it carries, nothing else.
// vC04PHPlan is one fixed scenario of corpus/C04/proofhist.jsonl: admissions of proof A
// (denies c.<zone>: NSEC a->m + apex) / proof B (denies p.<zone>: NSEC m->z + apex) into one
// signer zone, clock steps and lookups.
type vC04PHOp struct {
	Op      string `json:"op"`    // admit | step | lookup
	Which   int    `json:"which"` // 0: proof A / name c, 1: proof B / name p
	SoaTTL  uint32 `json:"soa_ttl"`
	SoaMin  uint32 `json:"soa_min"`
	SetTTL  uint32 `json:"set_ttl"`
	SigExpS int64  `json:"sig_exp_s"`
	LeaseS  int64  `json:"lease_s"` // 0: no lease
	Ms      int64  `json:"ms"`
}
type vC04PHPlan struct {
	Name    string     `json:"name"`
	MaxTTLs int64      `json:"max_ttl_s"`
	Ops     []vC04PHOp `json:"ops"`
}

func vC04CaseProofHist(out *vC04Out, r *rand.Rand, plan *vC04PHPlan) {
	base := time.Unix(int64(1790000000+r.Intn(100000)), int64(r.Intn(1000000000)))
	cur := base
	maxTTL := []time.Duration{3 * time.Hour, 3 * time.Hour, 90 * time.Second, 24 * time.Hour}[r.Intn(4)]
	if plan != nil {
		maxTTL = time.Duration(plan.MaxTTLs) * time.Second
	}
	var pop *vC04PHOp // the scenario step being executed
	cache := newDenialProofCacheWithConfig(denialProofCacheConfig{
		MaxEntries: 64, MaxEntriesPerZone: 32, MaxBytes: denialProofDerivedBytes(64), MaxBytesPerZone: denialProofDerivedBytes(32),
		MaxTTL: maxTTL, Now: func() time.Time { return cur },
	})
	zone := "c04hist.test."
	ownerID := map[string]int{zone: 0, "a." + zone: 1, "m." + zone: 2}
	negTTLs := []uint32{20, 30, 60, 120, 3600}
	setTTLs := []uint32{15, 60, 300, 3600, 86400}
	build := func(which int) (*dns.Msg, string) {
		denied, owner, next := "c."+zone, "a."+zone, "m."+zone
		if which >= 1 {
			denied, owner, next = "p."+zone, "m."+zone, "z."+zone
		}
		if which == 2 {
			// proof C: x.m.<zone> does not exist below the existing name m: the one NSEC m->z covers
			// the name and the wildcard *.m — an admission that refreshes the zone's SOA entry
			// WITHOUT carrying the apex set the other proofs need
			denied = "x.m." + zone
		}
		exp := func() int64 {
			if r.Intn(5) == 0 {
				return cur.Unix() + int64(10+r.Intn(200))
			}
			return cur.Unix() + 7200 + int64(r.Intn(100000))
		}
		sig := func(o string, covered uint16, ttl uint32) *dns.RRSIG {
			s := vC04Sig(o, covered, ttl, exp(), zone)
			if r.Intn(4) == 0 {
				s.OrigTtl = setTTLs[r.Intn(len(setTTLs))]
			}
			return s
		}
		soaTTL, soaMin := negTTLs[r.Intn(len(negTTLs))], negTTLs[r.Intn(len(negTTLs))]
		t1, t0 := setTTLs[r.Intn(len(setTTLs))], setTTLs[r.Intn(len(setTTLs))]
		if pop != nil {
			soaTTL, soaMin, t1, t0 = pop.SoaTTL, pop.SoaMin, pop.SetTTL, pop.SetTTL
			fixed := cur.Unix() + pop.SigExpS
			exp = func() int64 { return fixed }
			sig = func(o string, covered uint16, ttl uint32) *dns.RRSIG { return vC04Sig(o, covered, ttl, fixed, zone) }
		}
		m := new(dns.Msg)
		m.SetQuestion(denied, dns.TypeA)
		m.Response = true
		m.Rcode = dns.RcodeNameError
		m.AuthenticatedData = true
		m.Ns = []dns.RR{
			vC04SOA(zone, soaTTL, soaMin),
			sig(zone, dns.TypeSOA, soaTTL),
			&dns.NSEC{Hdr: dns.RR_Header{Name: owner, Rrtype: dns.TypeNSEC, Class: dns.ClassINET, Ttl: t1}, NextDomain: next, TypeBitMap: []uint16{dns.TypeA, dns.TypeRRSIG, dns.TypeNSEC}},
			sig(owner, dns.TypeNSEC, t1),
			&dns.NSEC{Hdr: dns.RR_Header{Name: zone, Rrtype: dns.TypeNSEC, Class: dns.ClassINET, Ttl: t0}, NextDomain: "a." + zone, TypeBitMap: []uint16{dns.TypeNS, dns.TypeSOA, dns.TypeRRSIG, dns.TypeNSEC, dns.TypeDNSKEY}},
			sig(zone, dns.TypeNSEC, t0),
		}
		if which == 2 {
			m.Ns = m.Ns[:4]
		}
		return m, owner
	}
	var steps, desc []string
	fail := ""
	// Go-side oracle: per owner, the end of the admission that last carried it
	endOf := map[int]int64{}
	soaEnd := int64(0)
	plainEnd := func(now time.Time, cut time.Time, rrs []dns.RR) int64 {
		life := int64(3 * time.Hour)
		if maxTTL > 0 && int64(maxTTL) < life {
			life = int64(maxTTL)
		}
		low := func(x int64) {
			if x < life {
				life = x
			}
		}
		for _, rr := range rrs {
			low(int64(rr.Header().Ttl) * int64(time.Second))
			switch x := rr.(type) {
			case *dns.SOA:
				low(int64(x.Minttl) * int64(time.Second))
			case *dns.RRSIG:
				low(int64(x.OrigTtl) * int64(time.Second))
				low(int64(x.Expiration)*int64(time.Second) - now.UnixNano())
			}
		}
		if !cut.IsZero() {
			low(cut.UnixNano() - now.UnixNano())
		}
		return now.UnixNano() + life
	}
	admit := func() {
		which := []int{0, 1, 2, 2}[r.Intn(4)]
		if pop != nil {
			which = pop.Which
		}
		m, owner := build(which)
		var cut time.Time
		if r.Intn(4) == 0 {
			cut = cur.Add(time.Duration(5+r.Intn(300)) * time.Second)
		}
		if which == 2 && r.Intn(2) == 0 {
			// the admission that refreshes only the SOA entry often comes through a short lease
			cut = cur.Add(time.Duration(3+r.Intn(40)) * time.Second)
		}
		if pop != nil {
			cut = time.Time{}
			if pop.LeaseS != 0 {
				cut = cur.Add(time.Duration(pop.LeaseS) * time.Second)
			}
		}
		ok := cache.recordWithKind(m, zone, denialProofNSEC, cut)
		common := m.Ns[0:2]
		set1 := m.Ns[2:4]
		psets := fmt.Sprintf("mk_pset %d %s", ownerID[owner], vC04PRRs(set1))
		t0s := "-"
		if which != 2 {
			psets += fmt.Sprintf("; mk_pset 0 %s", vC04PRRs(m.Ns[4:6]))
			t0s = fmt.Sprint(m.Ns[4].Header().Ttl)
		}
		steps = append(steps, fmt.Sprintf("PAdm %d %s %s [%s] %v", cur.UnixNano(), vC04OZ(!cut.IsZero(), cut.UnixNano()), vC04PRRs(common), psets, ok))
		desc = append(desc, fmt.Sprintf("t0+%v admit proof %c soa=%d/%d sets=%d/%s cut=%v -> %v", cur.Sub(base), 'A'+rune(which),
			m.Ns[0].Header().Ttl, m.Ns[0].(*dns.SOA).Minttl, set1[0].Header().Ttl, t0s, !cut.IsZero(), ok))
		if ok {
			soaEnd = plainEnd(cur, cut, common)
			endOf[ownerID[owner]] = plainEnd(cur, cut, append(append([]dns.RR{}, common...), set1...))
			if which != 2 {
				endOf[0] = plainEnd(cur, cut, append(append([]dns.RR{}, common...), m.Ns[4:6]...))
			}
		}
	}
	lookup := func() {
		which := r.Intn(3)
		if pop != nil {
			which = pop.Which
		}
		qname, needed := "C."+zone, []int{1, 0}
		if which == 1 {
			qname, needed = "p."+zone, []int{2, 0}
		}
		if which == 2 {
			qname, needed = "X.m."+zone, []int{2}
		}
		req := new(dns.Msg)
		req.SetQuestion(qname, dns.TypeA)
		req.SetEdns0(1232, true)
		msg, _, _, expires, ok := cache.lookupWithMeta(req, nil)
		ttl, eo := int64(-1), "None"
		if ok {
			tt := vC04ReplyTTLs(msg)
			ttl = int64(tt[0])
			for _, x := range tt {
				if int64(x) != ttl {
					fail = "records of one synthesized denial carry different TTLs"
				}
			}
			eo = fmt.Sprintf("(sz %d)", expires.UnixNano())
			var owners []int
			for _, rr := range msg.Ns {
				if rr.Header().Rrtype == dns.TypeNSEC {
					owners = append(owners, ownerID[strings.ToLower(rr.Header().Name)])
				}
			}
			sort.Ints(owners)
			want := append([]int{}, needed...)
			sort.Ints(want)
			if fmt.Sprint(owners) != fmt.Sprint(want) {
				fail = fmt.Sprintf("unexpected proof shape for %s: NSEC owners %v", qname, owners)
			}
			nowNs := cur.UnixNano()
			if expires.UnixNano() > soaEnd {
				fail = fmt.Sprintf("the expiry handed to the request tree is %v after the end of the SOA piece of the answer", time.Duration(expires.UnixNano()-soaEnd))
			}
			ends := []int64{soaEnd}
			for _, o := range needed {
				ends = append(ends, endOf[o])
			}
			for _, e := range ends {
				if nowNs >= e {
					fail = fmt.Sprintf("%s denied %v after the end of the admission one of its pieces arrived in", qname, time.Duration(nowNs-e))
				} else if ttl*int64(time.Second) > e-nowNs {
					fail = fmt.Sprintf("synthesised TTL %ds exceeds the %v left of the admission one of its pieces arrived in", ttl, time.Duration(e-nowNs))
				}
			}
		}
		var ns []string
		for _, o := range needed {
			ns = append(ns, fmt.Sprint(o))
		}
		steps = append(steps, fmt.Sprintf("PLook %d [%s]%%N %s %s", cur.UnixNano(), strings.Join(ns, "; "), vC04Z(ttl), eo))
		desc = append(desc, fmt.Sprintf("t0+%v lookup %s -> served=%v ttl=%d", cur.Sub(base), qname, ok, ttl))
	}
	step := func() {
		// stride, or to just before / at / after the end of some live piece
		var ends []int64
		for _, e := range cache.byID {
			ends = append(ends, e.expires.UnixNano())
		}
		if len(ends) > 0 && r.Intn(2) == 0 {
			t := ends[r.Intn(len(ends))] + []int64{-int64(time.Second) - 1, -1, 0, 1, int64(3 * time.Second)}[r.Intn(5)]
			if t > cur.UnixNano() {
				cur = time.Unix(0, t)
				return
			}
		}
		cur = cur.Add([]time.Duration{time.Second, 10 * time.Second, 25 * time.Second, 50 * time.Second, 61 * time.Second, 5 * time.Minute}[r.Intn(6)])
	}
	kk := "proof-history"
	if plan != nil {
		kk = "corpus-proof-history"
		for i := range plan.Ops {
			pop = &plan.Ops[i]
			switch pop.Op {
			case "admit":
				admit()
			case "step":
				cur = cur.Add(time.Duration(pop.Ms) * time.Millisecond)
			case "lookup":
				lookup()
			default:
				panic("corpus proofhist.jsonl: unknown op " + pop.Op)
			}
		}
	} else {
		admit()
		for i, n := 0, 5+r.Intn(8); i < n; i++ {
			switch x := r.Intn(10); {
			case x < 3:
				admit()
			case x < 6:
				step()
			default:
				lookup()
			}
		}
		lookup()
	}
	out.emit(map[string]any{"k": kk, "nontrivial": true, "go_fail": fail,
		"coq": fmt.Sprintf("CProofHist %s [%s]", vC04Z(int64(maxTTL)), strings.Join(steps, "; ")), "desc": desc})
}

// the RFC 8198 proof index through the whole pipeline: a denial synthesised from
// the index is served directly and adopted by an alias from another zone; whatever is
// served or re-cached from it ends with the earliest piece of the proof.
func vC04CaseProofTree(out *vC04Out, r *rand.Rand) {
	env := vC04NewEnv(0, 0, 600)
	defer env.close()
	k := env.k
	zone, denied, alias := "c04pt.test.", "m.c04pt.test.", "www.c04.test."
	proof := vC04NXProof(r, zone, denied, time.Now().Unix(), r.Intn(2) == 0)
	var leaseReal time.Time
	if r.Intn(3) == 0 {
		leaseReal = k.real(k.now() + int64(time.Duration(2+r.Intn(30))*time.Second) + int64(r.Intn(900))*int64(time.Millisecond))
	}
	if !env.c.store.RecordDenialProof(proof, zone, middleware.ValidatedNegativeProofNSEC, leaseReal) {
		return // refused at admission (a non-positive term): judged by the proof-expiry cases
	}
	pexp := func() (int64, bool) {
		var p int64
		found := false
		for _, e := range env.c.store.denialProofs.byID {
			if x := k.virt(e.expires); !found || x < p {
				p, found = x, true
			}
		}
		return p, found
	}
	// the alias lives in another zone, so its own name is not covered by the proof
	am := new(dns.Msg)
	am.SetQuestion(alias, dns.TypeA)
	am.Response = true
	am.Answer = []dns.RR{&dns.CNAME{Hdr: dns.RR_Header{Name: alias, Rrtype: dns.TypeCNAME, Class: dns.ClassINET, Ttl: []uint32{3, 60, 300, 3600}[r.Intn(4)]}, Target: denied}}
	asc := &vC04Script{resp: am, cutKey: 9}
	if r.Intn(3) == 0 {
		asc.hasCut, asc.cut = true, k.now()+int64(time.Duration(2+r.Intn(40))*time.Second)+int64(r.Intn(900))*int64(time.Millisecond)
	}
	env.stub.script[alias] = asc
	cutID := nxDomainCutID{deniedName: denied, qclass: dns.ClassINET}
	// the deadline of the denial each cached alias entry was composed from
	composedFrom := map[*CacheEntry]int64{}
	secsLeft := func(deadline, now int64) int64 {
		if deadline <= now {
			return -1
		}
		return (deadline - now) / int64(time.Second)
	}
	for s, steps := 0, 3+r.Intn(4); s < steps; s++ {
		// what the denial rung holds: a subtree cut for the name (recorded when an earlier
		// synthesised denial was adopted) is consulted before the proof index. Both deadlines
		// are read up front; which of them answers is a function of the clock reading alone.
		rungAt := func() func(t int64) (int64, bool) {
			var dcut, dproof int64
			hasCutE := false
			if ce := env.c.store.nxDomainCuts.entries[cutID]; ce != nil {
				dcut, hasCutE = k.virt(ce.expires), true
			}
			dproof, hasProof := pexp()
			return func(t int64) (int64, bool) {
				switch {
				case hasCutE && t < dcut:
					return dcut, true
				case hasProof && t < dproof:
					return dproof, true
				case hasCutE && hasProof && dproof > dcut:
					return dproof, false // nothing live: the later of the two ended last
				case hasCutE:
					return dcut, false
				}
				return dproof, false
			}
		}
		now := k.now()
		D, live := rungAt()(now)
		if !live && s > 0 {
			return
		}
		target := now
		switch r.Intn(6) {
		case 0:
			target = D - int64(2600*time.Millisecond)
		case 1:
			target = D - int64(1400*time.Millisecond)
		case 2:
			target = D - int64(300*time.Millisecond)
		case 3:
			target = D + int64(300*time.Millisecond)
		case 4:
			if D > now {
				target = now + r.Int63n(D-now+1)
			}
		}
		if target > now {
			vC04Shift(env.c, k, time.Duration(target-now))
		}
		rung := rungAt()
		qname := alias
		if r.Intn(3) == 0 {
			qname = denied
		}
		route := []int{0, 1, 2, 3}[r.Intn(4)]
		do := r.Intn(4) > 0
		preAlias := env.peek(vC04Key(alias, false))
		rep := env.query(route, qname, do, false, nil, "")
		postAlias := env.peek(vC04Key(alias, false))
		stubbed := map[string]bool{}
		for _, n := range rep.stubbed {
			stubbed[n] = true
		}
		if rep.msg == nil || stubbed[denied] || rep.msg.Rcode != dns.RcodeNameError {
			continue // the denial rung was not what answered: nothing composed from it
		}
		aliasHit := qname == alias && !stubbed[alias]
		// ambiguous bracket: the rung changes hands, or its deadline crosses a whole second
		// or its end, inside [t0,t1]
		D, live0 := rung(rep.t0)
		D1, live1 := rung(rep.t1)
		amb := live0 != live1 || D != D1 || secsLeft(D, rep.t0) != secsLeft(D, rep.t1)
		if aliasHit && preAlias != nil {
			r0, r1 := preAlias.remaining(k.real(rep.t0)), preAlias.remaining(k.real(rep.t1))
			amb = amb || (r0 > 0) != (r1 > 0) || (r0 > 0 && r0/time.Second != r1/time.Second)
		}
		leaseS := "None"
		if !aliasHit && qname == alias && asc.hasCut {
			leaseS = "(Some " + vC04Z(asc.cut) + ")"
			amb = amb || secsLeft(asc.cut, rep.t0) != secsLeft(asc.cut, rep.t1)
		}
		if amb {
			out.emit(map[string]any{"inconclusive": true})
			continue
		}
		// TTLs of the records that came out of the cache: the denial's authority section, and
		// the alias record too when the whole answer is a hit on the cached alias entry
		var ttls []string
		var raw []uint32
		for _, rr := range rep.msg.Ns {
			raw = append(raw, rr.Header().Ttl)
		}
		hitS, dspec := "None", D
		if aliasHit {
			if preAlias == nil {
				continue
			}
			for _, rr := range rep.msg.Answer {
				raw = append(raw, rr.Header().Ttl)
			}
			hitS = fmt.Sprintf("(Some (mk_entry 0 %s %d %s false))", vC04Z(k.virt(preAlias.stored)), int64(preAlias.ttl), vC04Cut(k, preAlias.cutUntil))
			d0, known := composedFrom[preAlias]
			if !known {
				continue
			}
			dspec = d0
		}
		fail := ""
		for _, x := range raw {
			ttls = append(ttls, fmt.Sprint(x))
			if rep.t0 >= dspec {
				fail = "a synthesised denial (or an answer composed from it) was served past the end of the denial"
			} else if int64(x)*int64(time.Second) > dspec-rep.t0 {
				fail = fmt.Sprintf("TTL %d exceeds the %dns left of the denial the answer was composed from", x, dspec-rep.t0)
			}
		}
		var adm []string
		if postAlias != nil && postAlias != preAlias {
			composedFrom[postAlias] = D
			adm = append(adm, fmt.Sprintf("(%s, %d, %s)", vC04Z(k.virt(postAlias.stored)), int64(postAlias.ttl), vC04Cut(k, postAlias.cutUntil)))
			end := postAlias.stored.Add(postAlias.ttl)
			if !postAlias.cutUntil.IsZero() && postAlias.cutUntil.Before(end) {
				end = postAlias.cutUntil
			}
			if k.virt(end) > D {
				fail = fmt.Sprintf("the alias re-cached from a synthesised denial outlives it by %dns", k.virt(end)-D)
			}
		}
		bobs := "None"
		if route != 2 {
			bobs = "(Some " + rep.bound + ")"
			if !rep.boundOK || rep.boundV > dspec {
				fail = "the request tree is not bound by the denial it was answered from"
			}
		}
		kk := fmt.Sprintf("proof-tree-route%d", route)
		switch {
		case aliasHit:
			kk += "-aliashit"
		case qname == alias:
			kk += "-adopted"
		default:
			kk += "-direct"
		}
		out.emit(map[string]any{"k": kk, "nontrivial": true, "go_fail": fail,
			"coq":  fmt.Sprintf("CProofTree %s %s %s %s %s %s [%s]%%Z %s [%s]", vC04Z(D), vC04Z(dspec), leaseS, hitS, vC04Z(rep.t0), vC04Z(rep.t1), strings.Join(ttls, "; "), bobs, strings.Join(adm, "; ")),
			"desc": map[string]any{"q": qname, "route": route, "do": do, "went_downstream": rep.stubbed, "reply": fmt.Sprint(rep.msg), "denial_ends_in": D - rep.t0}})
	}
}
