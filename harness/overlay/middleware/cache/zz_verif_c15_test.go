//go:build verif

package cache

// C15 consumer driver (overlay-injected): the bytes NewCacheEntryWithKey stores (and
// the DNSSEC-stripped body) against the library's Pack of the same storable view.

import (
	"bytes"
	"encoding/json"
	"fmt"
	"math/rand"
	"os"
	"strconv"
	"strings"
	"testing"
	"time"

	"github.com/miekg/dns"
	"github.com/semihalev/sdns/internal/vc15gen"
)

func vC15EnvInt(name string, def int) int {
	if s := os.Getenv(name); s != "" {
		if n, err := strconv.Atoi(s); err == nil {
			return n
		}
	}
	return def
}

// vC15Storable rebuilds, on a deep copy, the view the entry stores: header, question,
// answer, authority, additional without OPT records; compression on.
func vC15Storable(ref *dns.Msg) *dns.Msg {
	v := new(dns.Msg)
	v.MsgHdr = ref.MsgHdr
	v.Question = ref.Question
	v.Answer = ref.Answer
	v.Ns = ref.Ns
	if len(ref.Extra) > 0 {
		v.Extra = []dns.RR{}
		for _, rr := range ref.Extra {
			if _, isOpt := rr.(*dns.OPT); !isOpt {
				v.Extra = append(v.Extra, rr)
			}
		}
	}
	v.Compress = true
	return v
}

func TestVerifC15CacheEntry(t *testing.T) {
	p := os.Getenv("VERIF_OUT")
	if p == "" {
		t.Skip("VERIF_OUT not set")
	}
	f, err := os.Create(p)
	if err != nil {
		t.Fatal(err)
	}
	defer f.Close()
	emit := func(m map[string]any) {
		b, _ := json.Marshal(m)
		f.Write(append(b, '\n'))
	}
	seed := int64(vC15EnvInt("VERIF_SEED", 1))
	n := vC15EnvInt("VERIF_N", 400)
	r := rand.New(rand.NewSource(seed))
	for c := 0; c < n; c++ {
		var cs *vc15gen.VC15Case
		switch c % 8 {
		case 5:
			cs = vc15gen.VC15Gen(r, true)
		case 6:
			cs = vc15gen.VC15Sized(r, 4096+[]int{-1, 0, 1, 600}[r.Intn(4)])
		case 7:
			if r.Intn(2) == 0 {
				cs = vc15gen.VC15AliasedOversize(r)
			} else {
				cs = vc15gen.VC15Bare(r)
			}
		default:
			cs = vc15gen.VC15Gen(r, false)
		}
		msg := cs.Msg
		typedNilOpt := false
		for _, rr := range msg.Extra {
			if o, ok := rr.(*dns.OPT); ok && o == nil {
				typedNilOpt = true
			}
		}
		if typedNilOpt {
			// NewCacheEntryWithKey's own OPT filter dereferences it before anything is
			// packed: not the packer's behaviour, not judged here
			emit(map[string]any{"k": "cacheentry/skipped-typednil-opt", "desc": cs.Tags, "nontrivial": false})
			continue
		}
		allClean := true
		for _, b := range cs.Clean {
			allClean = allClean && b
		}
		var fails []string
		fail := func(s string, a ...any) { fails = append(fails, fmt.Sprintf(s, a...)) }
		ref := vc15gen.VC15DeepCopy(msg)
		snap := vc15gen.VC15DeepCopy(msg)
		slots := vc15gen.VC15Records(msg)
		view := vC15Storable(ref)
		want, werr, wpanic := vc15gen.VC15LibPack(view)

		var e *CacheEntry
		panicked := false
		func() {
			defer func() {
				if recover() != nil {
					panicked = true
				}
			}()
			e = NewCacheEntryWithKey(msg, 300*time.Second, 0, 1)
		}()
		stripChecked := false
		switch {
		case panicked != wpanic:
			fail("NewCacheEntryWithKey panic=%v, library panic=%v", panicked, wpanic)
		case panicked:
		case (e == nil) != (werr != nil):
			fail("entry nil=%v, library error %v", e == nil, werr)
		case e != nil && !bytes.Equal(e.wire, want):
			fail("stored bytes differ from the library's")
		case e != nil && cap(e.wire) != len(e.wire):
			fail("stored slice keeps %d spare bytes", cap(e.wire)-len(e.wire))
		}
		if e != nil && e.stripped != nil {
			// the DO=0 body: the same view through ClearDNSSEC, packed by the library
			ref2 := vc15gen.VC15DeepCopy(msg)
			v2 := vC15CEStripped(vC15Storable(ref2)) // the driver's own filter, by object type
			want2, werr2, wpanic2 := vc15gen.VC15LibPack(v2)
			stripChecked = true
			if wpanic2 || werr2 != nil || !bytes.Equal(e.stripped, want2) {
				fail("stripped body differs from the library's")
			}
		}
		if allClean {
			if d := vc15gen.VC15Diff(msg, snap, slots); d != "" {
				fail("NewCacheEntryWithKey modified the message: %s", d)
			}
		}
		line := map[string]any{
			"k":          fmt.Sprintf("cacheentry/stored=%v/stripped=%v", e != nil, stripChecked),
			"desc":       map[string]any{"tags": cs.Tags, "rcode": msg.Rcode, "sections": []int{len(msg.Question), len(msg.Answer), len(msg.Ns), len(msg.Extra)}, "lib_ok": werr == nil && !wpanic, "len": len(want)},
			"nontrivial": e != nil && len(slots) > 0,
		}
		if len(fails) > 0 {
			line["go_fail"] = strings.Join(fails, " | ")
		}
		emit(line)
	}
	// the model tie: small concrete replies, stored body and DO=0 body computed by C15.Cache
	for c := 0; c < 12+n/10; c++ {
		vC15CacheEntryModelCase(emit, r)
	}
}
