//go:build verif

package cache

// C15, cache-entry model tie: small replies whose records this file decomposes into the step
// model of C15.Concrete (its own encoders, never a record's pack method) go through
// NewCacheEntryWithKey; the Coq side (C15.Run.CaseCacheEntry) computes the stored body and the
// DO=0 body from the message alone — storable view, ClearDNSSEC view, PackClone on the pooled
// state — and demands the observed bytes octet by octet, next to the library's Pack of the
// driver's own views.

import (
	"bytes"
	"encoding/base64"
	"encoding/hex"
	"fmt"
	"math/rand"
	"net"
	"strings"
	"time"

	"github.com/miekg/dns"
	"github.com/semihalev/sdns/internal/vc15gen"
)

func vC15CEBool(b bool) string {
	if b {
		return "true"
	}
	return "false"
}

func vC15CEBytes(b []byte) string { return vc15gen.VC15CoqBytes(string(b)) }

// vC15CESteps: the rdata of the record types this generator builds, as C15.Concrete steps.
func vC15CESteps(rr dns.RR) (string, bool) {
	lit := func(x []byte) string { return "SBytes " + vC15CEBytes(x) }
	nm := func(s string, compressible bool) string {
		return fmt.Sprintf("SName %s %s", vc15gen.VC15CoqBytes(s), vC15CEBool(compressible))
	}
	u16 := func(v uint16) []byte { return []byte{byte(v >> 8), byte(v)} }
	u32 := func(v uint32) []byte { return []byte{byte(v >> 24), byte(v >> 16), byte(v >> 8), byte(v)} }
	var parts []string
	switch v := rr.(type) {
	case *dns.A:
		if len(v.A) != 4 {
			return "", false
		}
		parts = append(parts, lit(v.A))
	case *dns.AAAA:
		if len(v.AAAA) != 16 {
			return "", false
		}
		parts = append(parts, lit(v.AAAA))
	case *dns.NS:
		parts = append(parts, nm(v.Ns, true))
	case *dns.CNAME:
		parts = append(parts, nm(v.Target, true))
	case *dns.MX:
		parts = append(parts, lit(u16(v.Preference)), nm(v.Mx, true))
	case *dns.TXT:
		if len(v.Txt) == 0 {
			return "", false
		}
		for _, s := range v.Txt {
			if strings.Contains(s, "\\") || len(s) > 255 {
				return "", false
			}
			parts = append(parts, lit(append([]byte{byte(len(s))}, s...)))
		}
	case *dns.SOA:
		fixed := append(append(append(append(u32(v.Serial), u32(v.Refresh)...), u32(v.Retry)...), u32(v.Expire)...), u32(v.Minttl)...)
		parts = append(parts, nm(v.Ns, true), nm(v.Mbox, true), lit(fixed))
	case *dns.DS:
		d, err := hex.DecodeString(v.Digest)
		if err != nil || len(d) == 0 {
			return "", false
		}
		parts = append(parts, lit(append(append(u16(v.KeyTag), v.Algorithm, v.DigestType), d...)))
	case *dns.RRSIG:
		sig, err := base64.StdEncoding.DecodeString(v.Signature)
		if err != nil || len(sig) == 0 || len(sig)%3 != 0 {
			return "", false
		}
		fixed := append(u16(v.TypeCovered), v.Algorithm, v.Labels)
		fixed = append(append(append(append(fixed, u32(v.OrigTtl)...), u32(v.Expiration)...), u32(v.Inception)...), u16(v.KeyTag)...)
		parts = append(parts, lit(fixed), nm(v.SignerName, false), lit(sig))
	case *dns.NSEC:
		// RFC 4034 4.1.2, one window: types below 256, strictly increasing, not empty
		if len(v.TypeBitMap) == 0 {
			return "", false
		}
		var block [32]byte
		n := 0
		for i, t := range v.TypeBitMap {
			if t > 255 || (i > 0 && t <= v.TypeBitMap[i-1]) {
				return "", false
			}
			block[t/8] |= 1 << (7 - t%8)
			n = int(t/8) + 1
		}
		parts = append(parts, nm(v.NextDomain, false), lit(append([]byte{0, byte(n)}, block[:n]...)))
	case *dns.OPT:
		for _, o := range v.Option {
			var data []byte
			switch e := o.(type) {
			case *dns.EDNS0_EDE:
				data = append(u16(e.InfoCode), e.ExtraText...)
			case *dns.EDNS0_PADDING:
				data = e.Padding
			default:
				return "", false
			}
			parts = append(parts, lit(append(u16(o.Option()), u16(uint16(len(data)))...)))
			if len(data) > 0 {
				parts = append(parts, lit(data))
			}
		}
	default:
		return "", false
	}
	return "[" + strings.Join(parts, ";") + "]", true
}

// vC15CEMsg: a small reply of such records.
func vC15CEMsg(r *rand.Rand) *dns.Msg {
	m := new(dns.Msg)
	vc15gen.VC15Header(r, m)
	m.Rcode = []int{0, 0, 0, 2, 3, 3, 5, 16, 23, 4095}[r.Intn(10)]
	m.Compress = r.Intn(2) == 0
	base := []string{"example.com.", "a.example.org.", "Example.COM.", "xn--bcher-kva.example.", "."}[r.Intn(5)]
	pick := func() string {
		switch r.Intn(5) {
		case 0:
			return base
		case 1:
			return "www." + base
		case 2:
			return "ns1.a." + strings.ToLower(base)
		case 3:
			return "mail.example.net."
		}
		return "a.b." + base
	}
	if base == "." {
		pick = func() string { return []string{".", "com.", "a.root-servers.net.", "net."}[r.Intn(4)] }
	}
	qname := pick()
	qtype := []uint16{dns.TypeA, dns.TypeA, dns.TypeAAAA, dns.TypeMX, dns.TypeCNAME, dns.TypeDS, dns.TypeRRSIG, dns.TypeTXT}[r.Intn(8)]
	for i := []int{1, 1, 1, 1, 1, 1, 0, 2}[r.Intn(8)]; i > 0; i-- {
		m.Question = append(m.Question, dns.Question{Name: qname, Qtype: qtype, Qclass: dns.ClassINET})
		qtype = dns.TypeRRSIG // a second question asking for signatures does not count
	}
	if len(m.Question) > 0 && r.Intn(10) == 0 {
		m.Question[0].Name = vc15gen.VC15OddQName(r)
	}
	rb := func(n int) []byte { d := make([]byte, n); r.Read(d); return d }
	hdr := func(name string, t uint16) dns.RR_Header {
		return dns.RR_Header{Name: name, Rrtype: t, Class: dns.ClassINET, Ttl: uint32(r.Intn(90000)), Rdlength: uint16(40000 + r.Intn(100))}
	}
	sig := func(owner string, covered uint16) dns.RR {
		return &dns.RRSIG{Hdr: hdr(owner, dns.TypeRRSIG), TypeCovered: covered, Algorithm: 13, Labels: uint8(r.Intn(5)), OrigTtl: 3600, Expiration: r.Uint32(), Inception: r.Uint32(),
			KeyTag: uint16(r.Intn(65536)), SignerName: base, Signature: base64.StdEncoding.EncodeToString(rb(3 * (1 + r.Intn(8))))}
	}
	mk := func() dns.RR {
		owner := pick()
		if r.Intn(3) == 0 {
			owner = qname
		}
		switch r.Intn(11) {
		case 0, 1:
			return &dns.A{Hdr: hdr(owner, dns.TypeA), A: net.IP(rb(4))}
		case 2:
			return &dns.AAAA{Hdr: hdr(owner, dns.TypeAAAA), AAAA: net.IP(rb(16))}
		case 3:
			return &dns.NS{Hdr: hdr(owner, dns.TypeNS), Ns: pick()}
		case 4:
			return &dns.CNAME{Hdr: hdr(owner, dns.TypeCNAME), Target: pick()}
		case 5:
			return &dns.MX{Hdr: hdr(owner, dns.TypeMX), Preference: uint16(r.Intn(100)), Mx: pick()}
		case 6:
			return &dns.TXT{Hdr: hdr(owner, dns.TypeTXT), Txt: []string{"v=spf1 -all", "x"}[:1+r.Intn(2)]}
		case 7:
			return &dns.SOA{Hdr: hdr(owner, dns.TypeSOA), Ns: pick(), Mbox: pick(), Serial: r.Uint32(), Refresh: 7200, Retry: 900, Expire: 1209600, Minttl: 300}
		case 8:
			return &dns.DS{Hdr: hdr(owner, dns.TypeDS), KeyTag: uint16(r.Intn(65536)), Algorithm: 13, DigestType: 2, Digest: hex.EncodeToString(rb(32))}
		case 9:
			var ts []uint16
			t := 0
			for i := 1 + r.Intn(5); i > 0; i-- {
				t += 1 + r.Intn(40)
				ts = append(ts, uint16(t))
			}
			return &dns.NSEC{Hdr: hdr(owner, dns.TypeNSEC), NextDomain: pick(), TypeBitMap: ts}
		}
		return sig(owner, dns.TypeA)
	}
	signed := r.Intn(3) != 0
	fill := func(n int) []dns.RR {
		var out []dns.RR
		for i := 0; i < n; i++ {
			rr := mk()
			out = append(out, rr)
			if _, isSig := rr.(*dns.RRSIG); signed && !isSig && r.Intn(2) == 0 {
				out = append(out, sig(rr.Header().Name, rr.Header().Rrtype))
			}
		}
		return out
	}
	m.Answer, m.Ns, m.Extra = fill(r.Intn(4)), fill(r.Intn(3)), fill(r.Intn(3))
	// a DNSSEC object wearing another type, another object wearing a DNSSEC type: the filters go by object
	if all := append(append([]dns.RR{}, m.Answer...), m.Ns...); len(all) > 0 && r.Intn(5) == 0 {
		rr := all[r.Intn(len(all))]
		if _, isSig := rr.(*dns.RRSIG); isSig {
			rr.Header().Rrtype = dns.TypeTXT
		} else {
			rr.Header().Rrtype = []uint16{dns.TypeRRSIG, dns.TypeNSEC, dns.TypeNSEC3}[r.Intn(3)]
		}
	}
	// EDNS: none / last / first / two / retyped object / the object also in another section / with options
	mkOpt := func() *dns.OPT {
		o := &dns.OPT{Hdr: dns.RR_Header{Name: ".", Rrtype: dns.TypeOPT, Class: 1232, Ttl: []uint32{0, 0x8000, 0xAB008000}[r.Intn(3)], Rdlength: 77}}
		switch r.Intn(4) {
		case 0:
			o.Option = append(o.Option, &dns.EDNS0_EDE{InfoCode: uint16(r.Intn(30)), ExtraText: []string{"", "signature expired"}[r.Intn(2)]})
		case 1:
			o.Option = append(o.Option, &dns.EDNS0_PADDING{Padding: make([]byte, r.Intn(12))}, &dns.EDNS0_EDE{InfoCode: 6})
		}
		return o
	}
	switch r.Intn(9) {
	case 0, 1:
	case 2, 3, 4:
		m.Extra = append(m.Extra, mkOpt())
	case 5:
		m.Extra = append([]dns.RR{mkOpt()}, m.Extra...)
	case 6:
		m.Extra = append(append([]dns.RR{mkOpt()}, m.Extra...), mkOpt())
	case 7:
		o := mkOpt()
		o.Hdr.Rrtype = []uint16{0, dns.TypeA, dns.TypeTXT}[r.Intn(3)]
		at := r.Intn(len(m.Extra) + 1)
		m.Extra = append(m.Extra[:at:at], append([]dns.RR{o}, m.Extra[at:]...)...)
		if r.Intn(2) == 0 {
			m.Extra = append(m.Extra, mkOpt())
		}
	default:
		o := mkOpt()
		m.Extra = append(m.Extra, o)
		if r.Intn(2) == 0 {
			m.Answer = append(m.Answer, o)
		} else {
			m.Ns = append([]dns.RR{o}, m.Ns...)
		}
	}
	if r.Intn(20) == 0 {
		if recs := vc15gen.VC15Records(m); len(recs) > 0 {
			if rr := recs[r.Intn(len(recs))]; rr.Header().Rrtype != dns.TypeOPT {
				rr.Header().Name = "not-fully-qualified" // the library refuses: no entry
			}
		}
	}
	return m
}

func vC15CEIsDNSSEC(rr dns.RR) bool {
	switch rr.(type) {
	case *dns.RRSIG, *dns.NSEC, *dns.NSEC3:
		return true
	}
	return false
}

// vC15CEStripped: the driver's own DO=0 view of a storable view (records filtered by object type).
func vC15CEStripped(view *dns.Msg) *dns.Msg {
	v := *view
	if len(v.Question) == 0 || v.Question[0].Qtype != dns.TypeRRSIG {
		keep := func(in []dns.RR) []dns.RR {
			out := []dns.RR{}
			for _, rr := range in {
				if !vC15CEIsDNSSEC(rr) {
					out = append(out, rr)
				}
			}
			return out
		}
		v.Answer, v.Ns = keep(v.Answer), keep(v.Ns)
	}
	v.Compress = true
	return &v
}

func vC15CacheEntryModelCase(emit func(map[string]any), r *rand.Rand) {
	m := vC15CEMsg(r)
	sh := vc15gen.VC15MakeShapes(m)
	recs := vc15gen.VC15Records(m)
	var ids []string
	seen := map[int]bool{}
	ok := true
	render := func(lo, hi int) string {
		var parts []string
		for i := lo; i < hi; i++ {
			rr := recs[i]
			steps, okSteps := vC15CESteps(rr)
			if !okSteps {
				ok = false
			}
			kind := "KOther"
			if _, isOpt := rr.(*dns.OPT); isOpt {
				kind = "KOpt"
			}
			if vC15CEIsDNSSEC(rr) && !seen[sh.PtrOf[i]] {
				seen[sh.PtrOf[i]] = true
				ids = append(ids, fmt.Sprint(sh.PtrOf[i]))
			}
			h := rr.Header()
			parts = append(parts, fmt.Sprintf("R %s %s %d %d %d %d %d %s", vc15gen.VC15CoqBytes(h.Name), kind, sh.PtrOf[i], h.Rrtype, h.Class, h.Ttl, h.Rdlength, steps))
		}
		return "[" + strings.Join(parts, ";") + "]"
	}
	var qs []string
	for _, q := range m.Question {
		qs = append(qs, fmt.Sprintf("(%s, %d%%N, %d%%N)", vc15gen.VC15CoqBytes(q.Name), q.Qtype, q.Qclass))
	}
	na, nn := len(m.Answer), len(m.Ns)
	term := fmt.Sprintf("(CM %s %s [%s] %s %s %s)", vc15gen.VC15CoqHeader(m), vC15CEBool(m.Compress), strings.Join(qs, ";"),
		render(0, na), render(na, na+nn), render(na+nn, len(recs)))
	if !ok {
		emit(map[string]any{"k": "cacheentry-model/driver", "desc": "generator produced a record its own renderer cannot decompose", "nontrivial": false,
			"go_fail": "driver: vC15CESteps refused a record of vC15CEMsg"})
		return
	}
	idl := "[]"
	if len(ids) > 0 {
		idl = "[" + strings.Join(ids, ";") + "]%N"
	}

	snap := vc15gen.VC15DeepCopy(m)
	slots := vc15gen.VC15Records(m)
	view := vC15Storable(vc15gen.VC15DeepCopy(m))
	want, werr, wpanic := vc15gen.VC15LibPack(view)
	lib := 0
	if wpanic {
		lib = 2
	} else if werr != nil {
		lib = 1
		want = nil
	}
	// a pooled state full of an earlier reply, as far as one P allows
	junk := new(dns.Msg)
	junk.Response, junk.Compress = true, true
	junk.Question = []dns.Question{{Name: "junk.example.com.", Qtype: dns.TypeTXT, Qclass: dns.ClassINET}}
	junk.Answer = []dns.RR{&dns.TXT{Hdr: dns.RR_Header{Name: "junk.example.com.", Rrtype: dns.TypeTXT, Class: dns.ClassINET, Ttl: 0xFFFFFFFF}, Txt: []string{strings.Repeat("\xEE", 250), strings.Repeat("\xDD", 250)}}}
	_ = NewCacheEntryWithKey(junk, time.Second, 0, 2)

	var e *CacheEntry
	panicked := false
	func() {
		defer func() {
			if recover() != nil {
				panicked = true
			}
		}()
		e = NewCacheEntryWithKey(m, 300*time.Second, 0, 1)
	}()
	var fails []string
	if panicked {
		fails = append(fails, "NewCacheEntryWithKey panicked on a reply of plain library records")
	}
	if (e != nil) != (lib == 0) {
		fails = append(fails, fmt.Sprintf("entry stored=%v, library result %d (%v)", e != nil, lib, werr))
	}
	var wire []byte
	stripped := "None"
	haveStripped := false
	if e != nil {
		wire = e.wire
		if lib == 0 && !bytes.Equal(wire, want) {
			fails = append(fails, "stored bytes differ from the library's Pack of the storable view")
		}
		if e.stripped != nil {
			haveStripped = true
			want2, werr2, wpanic2 := vc15gen.VC15LibPack(vC15CEStripped(vC15Storable(vc15gen.VC15DeepCopy(m))))
			if wpanic2 || werr2 != nil {
				want2 = nil
				fails = append(fails, "a DO=0 body is stored but the library does not pack the stripped view")
			} else if !bytes.Equal(e.stripped, want2) {
				fails = append(fails, "DO=0 body differs from the library's Pack of the stripped view")
			}
			stripped = fmt.Sprintf("(Some (%s, %s))", vC15CEBytes(e.stripped), vC15CEBytes(want2))
		}
	}
	if d := vc15gen.VC15Diff(m, snap, slots); d != "" {
		fails = append(fails, "NewCacheEntryWithKey modified the reply: "+d)
	}
	line := map[string]any{
		"coq": fmt.Sprintf("CaseCacheEntry %s %s %d %s %s %s %s", term, idl, lib, vC15CEBytes(want), vC15CEBool(e != nil), vC15CEBytes(wire), stripped),
		"k":   fmt.Sprintf("cacheentry-model/stored=%v/stripped=%v", e != nil, haveStripped),
		"desc": map[string]any{"rcode": m.Rcode, "compress": m.Compress, "sections": []int{len(m.Question), na, nn, len(m.Extra)}, "dnssec_objects": len(ids),
			"len": len(wire), "liberr": fmt.Sprint(werr)},
		"nontrivial": e != nil && len(recs) >= 2,
	}
	if len(fails) > 0 {
		line["go_fail"] = strings.Join(fails, " | ")
	}
	emit(line)
}
