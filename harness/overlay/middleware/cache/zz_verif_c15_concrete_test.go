//go:build verif

package cache

// C15, cache-entry model tie: small replies whose records this file decomposes into the step
// model of C15.Concrete (its own encoders, never a record's pack method) go through
// NewCacheEntryWithKey; the Coq side (C15.Run.CaseCacheEntry) computes the stored body and the
// DO=0 body from the message alone — storable view, ClearDNSSEC view, PackClone on the pooled
// state — and demands the observed bytes octet by octet, next to the library's Pack of the
// driver's own views.

import (
	"bytes"
	"fmt"
	"math/rand"
	"strings"
	"time"

	"github.com/miekg/dns"
	"github.com/semihalev/sdns/internal/vc15gen"
)

func vC15CEBytes(b []byte) string { return vc15gen.VC15CoqBytes(string(b)) }

// vC15CEStripped: the driver's own DO=0 view of a storable view (records filtered by object type).
func vC15CEStripped(view *dns.Msg) *dns.Msg {
	v := *view
	if len(v.Question) == 0 || v.Question[0].Qtype != dns.TypeRRSIG {
		keep := func(in []dns.RR) []dns.RR {
			out := []dns.RR{}
			for _, rr := range in {
				if !vc15gen.VC15IsDNSSECObject(rr) {
					out = append(out, rr)
				}
			}
			return out
		}
		v.Answer, v.Ns = keep(v.Answer), keep(v.Ns)
	}
	v.Compress = true
	return &v
}

func vC15CacheEntryModelCase(emit func(map[string]any), r *rand.Rand) {
	m := vc15gen.VC15SmallReply(r)
	recs := vc15gen.VC15Records(m)
	na, nn := len(m.Answer), len(m.Ns)
	term, idl, ok := vc15gen.VC15SmallTerm(m)
	if !ok {
		emit(map[string]any{"k": "cacheentry-model/driver", "desc": "generator produced a record its own renderer cannot decompose", "nontrivial": false,
			"go_fail": "driver: VC15SmallSteps refused a record of VC15SmallReply"})
		return
	}

	snap := vc15gen.VC15DeepCopy(m)
	slots := vc15gen.VC15Records(m)
	view := vC15Storable(vc15gen.VC15DeepCopy(m))
	want, werr, wpanic := vc15gen.VC15LibPack(view)
	lib := 0
	if wpanic {
		lib = 2
	} else if werr != nil {
		lib = 1
		want = nil
	}
	// a pooled state full of an earlier reply, as far as one P allows
	junk := new(dns.Msg)
	junk.Response, junk.Compress = true, true
	junk.Question = []dns.Question{{Name: "junk.example.com.", Qtype: dns.TypeTXT, Qclass: dns.ClassINET}}
	junk.Answer = []dns.RR{&dns.TXT{Hdr: dns.RR_Header{Name: "junk.example.com.", Rrtype: dns.TypeTXT, Class: dns.ClassINET, Ttl: 0xFFFFFFFF}, Txt: []string{strings.Repeat("\xEE", 250), strings.Repeat("\xDD", 250)}}}
	_ = NewCacheEntryWithKey(junk, time.Second, 0, 2)

	var e *CacheEntry
	panicked := false
	func() {
		defer func() {
			if recover() != nil {
				panicked = true
			}
		}()
		e = NewCacheEntryWithKey(m, 300*time.Second, 0, 1)
	}()
	var fails []string
	if panicked {
		fails = append(fails, "NewCacheEntryWithKey panicked on a reply of plain library records")
	}
	if (e != nil) != (lib == 0) {
		fails = append(fails, fmt.Sprintf("entry stored=%v, library result %d (%v)", e != nil, lib, werr))
	}
	var wire []byte
	stripped := "None"
	haveStripped := false
	if e != nil {
		wire = e.wire
		if lib == 0 && !bytes.Equal(wire, want) {
			fails = append(fails, "stored bytes differ from the library's Pack of the storable view")
		}
		if e.stripped != nil {
			haveStripped = true
			want2, werr2, wpanic2 := vc15gen.VC15LibPack(vC15CEStripped(vC15Storable(vc15gen.VC15DeepCopy(m))))
			if wpanic2 || werr2 != nil {
				want2 = nil
				fails = append(fails, "a DO=0 body is stored but the library does not pack the stripped view")
			} else if !bytes.Equal(e.stripped, want2) {
				fails = append(fails, "DO=0 body differs from the library's Pack of the stripped view")
			}
			stripped = fmt.Sprintf("(Some (%s, %s))", vC15CEBytes(e.stripped), vC15CEBytes(want2))
		}
	}
	if d := vc15gen.VC15Diff(m, snap, slots); d != "" {
		fails = append(fails, "NewCacheEntryWithKey modified the reply: "+d)
	}
	line := map[string]any{
		"coq": fmt.Sprintf("CaseCacheEntry %s %s %d %s %s %s %s", term, idl, lib, vC15CEBytes(want), fmt.Sprint(e != nil), vC15CEBytes(wire), stripped),
		"k":   fmt.Sprintf("cacheentry-model/stored=%v/stripped=%v", e != nil, haveStripped),
		"desc": map[string]any{"rcode": m.Rcode, "compress": m.Compress, "sections": []int{len(m.Question), na, nn, len(m.Extra)}, "dnssec_objects": idl,
			"len": len(wire), "liberr": fmt.Sprint(werr)},
		"nontrivial": e != nil && len(recs) >= 2,
	}
	if len(fails) > 0 {
		line["go_fail"] = strings.Join(fails, " | ")
	}
	emit(line)
}
