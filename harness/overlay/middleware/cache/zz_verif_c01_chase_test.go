//go:build verif

package cache

// C01 driver (chase): the cache as a store of validated verdicts and the alias chase over it.
// A store = one entry per name (its own stored AD bit; a CNAME to another name of the store, in any letter case, or
// terminal A data), filed per CD partition. A client question for the first name is served through edns + cache, on the
// decoded path (additionalAnswer chasing through the cache itself) and on the byte path (composeWireChase). Straight
// chains of 1-5 entries, chains that loop (onto the question's own name, onto an earlier target, onto themselves; same or
// different spelling), observed: rcode, AD toward the client, the owners of the answer records in order.
// A second part files a resolver verdict through the cache's own ResponseWriter and reads the partition back.

import (
	"context"
	"encoding/json"
	"fmt"
	"io"
	"math/rand"
	"os"
	"path/filepath"
	"sort"
	"strings"
	"testing"
	"time"

	"github.com/miekg/dns"
	"github.com/semihalev/sdns/config"
	"github.com/semihalev/sdns/internal/mock"
	"github.com/semihalev/sdns/middleware"
	"github.com/semihalev/sdns/middleware/edns"
	"github.com/semihalev/zlog/v2"
)

// vC01Spell: the same name in another letter case (deterministic per draw)
func vC01Spell(r *rand.Rand, s string, how int) string {
	switch how {
	case 1:
		return strings.ToUpper(s)
	case 2:
		b := []byte(s)
		for i := range b {
			if b[i] >= 'a' && b[i] <= 'z' && r.Intn(2) == 0 {
				b[i] -= 32
			}
		}
		return string(b)
	}
	return s
}

// vC01TermDraw: the drawn ending of a chain (0, 1 data; 2 NODATA; 3 NXDOMAIN), or the corpus entry's
func vC01TermDraw(drawn int, isForced bool, term string) int {
	if !isForced {
		return drawn
	}
	switch term {
	case "TNoData":
		return 2
	case "TNxDomain":
		return 3
	}
	return 0
}

func TestVerifC01Chase(t *testing.T) {
	p := os.Getenv("VERIF_OUT")
	if p == "" {
		t.Skip("VERIF_OUT not set")
	}
	f, err := os.Create(p)
	if err != nil {
		t.Fatal(err)
	}
	defer f.Close()
	seed := int64(1)
	fmt.Sscan(os.Getenv("VERIF_SEED"), &seed)
	n := 300
	fmt.Sscan(os.Getenv("VERIF_N"), &n)
	r := rand.New(rand.NewSource(seed*7907 + 5))
	vC01Quiet2()
	b := func(x bool) string {
		if x {
			return "true"
		}
		return "false"
	}
	// corpus first: straight chains with fixed verdicts and a fixed ending (corpus/C01/chase-*.json)
	type forcedChase struct {
		Ads              []bool // stored AD of each entry, in chain order
		Term             string // TData | TNoData | TNxDomain: what the last entry holds
		Do, Cd, Ad, Wire bool
	}
	var forced []forcedChase
	if dir := os.Getenv("VERIF_CORPUS"); dir != "" {
		files, _ := filepath.Glob(filepath.Join(dir, "chase-*.json"))
		sort.Strings(files)
		for _, fn := range files {
			var fc forcedChase
			if raw, err := os.ReadFile(fn); err == nil && json.Unmarshal(raw, &fc) == nil && len(fc.Ads) > 0 && len(fc.Ads) <= 5 {
				forced = append(forced, fc)
			}
		}
	}
	for i := 0; i < len(forced)+n; i++ {
		var fc *forcedChase
		if i < len(forced) {
			fc = &forced[i]
		}
		cfg := new(config.Config)
		cfg.CacheSize = 1024
		cfg.Expire = 600
		cfg.DNSSEC = "on"
		c := New(cfg)
		c.SetQueryer(vC01SelfQueryer{c: c})
		e := edns.New(cfg)
		length := 1 + r.Intn(5) // entries h0 … h(length-1)
		if fc != nil {
			length = len(fc.Ads)
		}
		// next[h]: index of the entry h's CNAME points at; -1 = terminal data
		next := make([]int, length)
		for h := 0; h < length; h++ {
			next[h] = h + 1
		}
		next[length-1] = -1
		shape := "straight"
		shapeDraw := r.Intn(6)
		if fc != nil {
			shapeDraw = 5
		}
		switch shapeDraw {
		case 0: // the last entry aliases back
			next[length-1] = r.Intn(length)
			shape = fmt.Sprintf("loop-to-h%d", next[length-1])
		case 1: // the first entry aliases onto itself
			next[0] = 0
			shape = "self-loop"
		}
		name := func(h int) string { return fmt.Sprintf("h%d.chase%d.c01.test.", h, i) }
		do, cd, ad, wire := r.Intn(2) == 0, r.Intn(5) == 0, r.Intn(3) == 0, r.Intn(2) == 0
		if fc != nil {
			do, cd, ad, wire = fc.Do, fc.Cd, fc.Ad, fc.Wire
		}
		var ads []bool
		var entries []string
		spelled := false
		negative := ""
		for h := 0; h < length; h++ {
			v := r.Intn(3) != 0
			if fc != nil {
				v = fc.Ads[h]
			}
			ads = append(ads, v)
			q := new(dns.Msg)
			q.SetQuestion(name(h), dns.TypeA)
			m := new(dns.Msg)
			m.SetReply(q)
			m.RecursionAvailable = true
			m.AuthenticatedData = v
			nx := "None"
			term := "TData"
			if next[h] >= 0 {
				how := []int{0, 0, 1, 2}[r.Intn(4)]
				spelled = spelled || how != 0
				m.Answer = []dns.RR{&dns.CNAME{Hdr: dns.RR_Header{Name: name(h), Rrtype: dns.TypeCNAME, Class: dns.ClassINET, Ttl: 300}, Target: vC01Spell(r, name(next[h]), how)}}
				nx = fmt.Sprintf("(Some %d)", next[h])
			} else if tk := vC01TermDraw(r.Intn(4), fc != nil, func() string {
				if fc != nil {
					return fc.Term
				}
				return ""
			}()); tk >= 2 {
				// the chain ends in a denial: only authority records (the SOA's serial names the entry) and, for a name that
				// does not exist, the rcode
				m.Ns = []dns.RR{&dns.SOA{Hdr: dns.RR_Header{Name: fmt.Sprintf("chase%d.c01.test.", i), Rrtype: dns.TypeSOA, Class: dns.ClassINET, Ttl: 300},
					Ns: "ns.c01.test.", Mbox: "h.c01.test.", Serial: uint32(h + 1), Refresh: 1, Retry: 1, Expire: 1, Minttl: 60}}
				term = "TNoData"
				if tk == 3 {
					m.Rcode = dns.RcodeNameError
					term = "TNxDomain"
				}
				negative = term
			} else {
				m.Answer = []dns.RR{&dns.A{Hdr: dns.RR_Header{Name: name(h), Rrtype: dns.TypeA, Class: dns.ClassINET, Ttl: 300}, A: []byte{192, 0, 2, byte(h + 1)}}}
			}
			entries = append(entries, fmt.Sprintf("(%d, mk_centry %s %s %s)", h, b(v), nx, term))
			for _, keyCD := range []bool{false, true} {
				mm := m.Copy()
				mm.CheckingDisabled = keyCD
				c.store.SetFromResponseWithKey(CacheKey{Question: m.Question[0], CD: keyCD}.Hash(), mm, time.Time{}, 0)
			}
		}
		req := new(dns.Msg)
		req.SetQuestion(name(0), dns.TypeA)
		req.RecursionDesired = true
		req.CheckingDisabled, req.AuthenticatedData = cd, ad
		req.SetEdns0(1232, do)
		stub := &vC01MissStub{}
		ch := middleware.NewChain([]middleware.Handler{e, c, stub})
		w := mock.NewWriter("udp", "198.51.100.77:40000")
		path := "msg"
		if wire {
			raw, _ := req.Pack()
			wr := new(middleware.Request)
			if wr.ParseWire(raw, time.Now(), nil) {
				ch.ResetWire(w, wr)
				ch.AllowDirectPack()
				path = "wire-born"
			} else {
				ch.Reset(w, req)
			}
		} else {
			ch.Reset(w, req)
		}
		before := wireChaseServed.Value()
		ch.Next(context.Background())
		m := w.Msg()
		c.Stop()
		if m == nil {
			continue
		}
		if wireChaseServed.Value() != before {
			path += "-wirechase"
		}
		var owners []string
		for _, rr := range m.Answer {
			var h int
			if _, err := fmt.Sscanf(strings.ToLower(rr.Header().Name), "h%d.chase", &h); err == nil {
				owners = append(owners, fmt.Sprint(h))
			} else {
				owners = append(owners, "99")
			}
		}
		var auth []string
		for _, rr := range m.Ns {
			if soa, ok := rr.(*dns.SOA); ok && soa.Serial >= 1 {
				auth = append(auth, fmt.Sprint(soa.Serial-1))
			} else {
				auth = append(auth, "99")
			}
		}
		k := "chase-" + shape
		if fc != nil {
			k = "corpus:" + k
		}
		if negative != "" {
			k += "-" + negative
		}
		if spelled {
			k += "-spelled"
		}
		rec, _ := json.Marshal(map[string]any{"k": k + "-" + path, "nontrivial": true,
			"coq":  fmt.Sprintf("CaseChase (mk_creq %s %s %s) [%s] 0 (mk_ochase %d %s [%s] [%s] %s)", b(cd), b(do), b(ad), strings.Join(entries, ";"), m.Rcode, b(m.AuthenticatedData), strings.Join(owners, ";"), strings.Join(auth, ";"), b(stub.hit)),
			"desc": map[string]any{"entries_ad": ads, "next": next, "shape": shape, "do": do, "cd": cd, "ad": ad, "path": path, "rcode": dns.RcodeToString[m.Rcode], "client_sees_ad": m.AuthenticatedData, "owners": owners, "authority_from": auth, "terminal": negative, "miss": stub.hit, "answer": fmt.Sprint(m.Answer)}})
		f.Write(append(rec, '\n'))
	}
}

// vC01AnswerStub stands for the resolver: it answers with a prepared message (its verdict in the AD bit)
type vC01AnswerStub struct{ m *dns.Msg }

func (s *vC01AnswerStub) Name() string { return "verifanswer" }
func (s *vC01AnswerStub) ServeDNS(ctx context.Context, ch *middleware.Chain) {
	_, req := ch.Materialize(ctx)
	if req == nil {
		return
	}
	m := s.m.Copy()
	m.Id = req.Id
	m.CheckingDisabled = req.CheckingDisabled
	_ = ch.Writer.WriteMsg(m)
}

// TestVerifC01Filed: a resolver verdict written through the cache's own ResponseWriter — which partition holds it, with
// which AD bit — for every verdict x request CD x DO x positive / negative answer.
func TestVerifC01Filed(t *testing.T) {
	p := os.Getenv("VERIF_OUT")
	if p == "" {
		t.Skip("VERIF_OUT not set")
	}
	f, err := os.Create(p)
	if err != nil {
		t.Fatal(err)
	}
	defer f.Close()
	vC01Quiet2()
	b := func(x bool) string {
		if x {
			return "true"
		}
		return "false"
	}
	for mask := 0; mask < 32; mask++ {
		v, cd, do, negative, wire := mask&1 != 0, mask&2 != 0, mask&4 != 0, mask&8 != 0, mask&16 != 0
		cfg := new(config.Config)
		cfg.CacheSize = 1024
		cfg.Expire = 600
		cfg.DNSSEC = "on"
		c := New(cfg)
		name := fmt.Sprintf("filed%d.c01.test.", mask)
		resp := new(dns.Msg)
		resp.SetQuestion(name, dns.TypeA)
		resp.Response = true
		resp.RecursionAvailable = true
		resp.AuthenticatedData = v
		if negative {
			resp.Ns = []dns.RR{&dns.SOA{Hdr: dns.RR_Header{Name: "c01.test.", Rrtype: dns.TypeSOA, Class: dns.ClassINET, Ttl: 300}, Ns: "ns.c01.test.", Mbox: "h.c01.test.", Serial: 1, Refresh: 1, Retry: 1, Expire: 1, Minttl: 60}}
		} else {
			resp.Answer = []dns.RR{&dns.A{Hdr: dns.RR_Header{Name: name, Rrtype: dns.TypeA, Class: dns.ClassINET, Ttl: 300}, A: []byte{192, 0, 2, 9}}}
		}
		req := new(dns.Msg)
		req.SetQuestion(name, dns.TypeA)
		req.RecursionDesired = true
		req.CheckingDisabled = cd
		req.SetEdns0(1232, do)
		ch := middleware.NewChain([]middleware.Handler{c, &vC01AnswerStub{m: resp}})
		w := mock.NewWriter("udp", "198.51.100.78:40000")
		path := "msg"
		if wire {
			raw, _ := req.Pack()
			wr := new(middleware.Request)
			if wr.ParseWire(raw, time.Now(), nil) {
				ch.ResetWire(w, wr)
				path = "wire-born"
			} else {
				ch.Reset(w, req)
			}
		} else {
			ch.Reset(w, req)
		}
		ch.Next(context.Background())
		read := func(part bool) string {
			probe := new(dns.Msg)
			probe.SetQuestion(name, dns.TypeA)
			probe.CheckingDisabled = part
			e, ok := c.store.Lookup(probe)
			if !ok || e == nil {
				return "None"
			}
			plain := new(dns.Msg)
			plain.SetQuestion(name, dns.TypeA)
			plain.SetEdns0(1232, true)
			m := e.ToMsg(plain) // a CD=0 reader: the stored bit as it is
			if m == nil {
				return "None"
			}
			return "(Some " + b(m.AuthenticatedData) + ")"
		}
		p0, p1 := read(false), read(true)
		c.Stop()
		rec, _ := json.Marshal(map[string]any{"k": "filed-" + path, "nontrivial": true,
			"coq":  fmt.Sprintf("CaseFiled %s %s %s %s", b(v), b(cd), p0, p1),
			"desc": map[string]any{"verdict_ad": v, "cd": cd, "do": do, "negative": negative, "path": path, "partition_cd0": p0, "partition_cd1": p1}})
		f.Write(append(rec, '\n'))
	}
}

func vC01Quiet2() {
	logger := zlog.NewStructured()
	logger.SetWriter(zlog.NewTerminalWriter(io.Discard))
	logger.SetLevel(zlog.LevelFatal)
	zlog.SetDefault(logger)
}
