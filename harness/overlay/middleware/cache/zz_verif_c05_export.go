//go:build verif

package cache

// C05 export hook (overlay-injected with the build tag `verif`, never part of /repo):
// a virtual clock for the answer cache, used by the C05 two-server differential driver in
// package server to let short-lived entries expire between two packets of a history without
// waiting.  Every stored instant of the answer entries and subtree cuts moves d into the
// past; the denial-proof and failure caches read an injected clock that runs total ahead.

import "time"

// VC05Shift emulates a clock advance of d (total = sum of all advances so far, d included).
func VC05Shift(c *Cache, d, total time.Duration) {
	if c == nil || c.store == nil {
		return
	}
	c.store.ForEach(func(_ bool, _ uint64, e *CacheEntry) bool {
		e.stored = e.stored.Add(-d)
		if !e.cutUntil.IsZero() {
			e.cutUntil = e.cutUntil.Add(-d)
		}
		return true
	})
	if cc := c.store.nxDomainCuts; cc != nil {
		cc.mu.Lock()
		for _, e := range cc.entries {
			e.stored = e.stored.Add(-d)
			e.expires = e.expires.Add(-d)
		}
		cc.mu.Unlock()
	}
	if dp := c.store.denialProofs; dp != nil {
		dp.mu.Lock()
		dp.now = func() time.Time { return time.Now().Add(total) }
		dp.mu.Unlock()
	}
	if f := c.store.failure; f != nil {
		f.now = func() time.Time { return time.Now().Add(total) }
	}
}

// VC05PrefetchIdle waits until the background refresh queue has nothing queued and no entry
// holds a prefetch claim (a claim is released when the refresh replaced the entry, failed or was
// dropped), so that a refresh started by one packet of a history is finished before the next
// packet is served.  Returns false if that does not happen within the limit.
func VC05PrefetchIdle(c *Cache, limit time.Duration) bool {
	if c == nil || c.prefetchQueue == nil {
		return true
	}
	deadline := time.Now().Add(limit)
	for {
		busy := len(c.prefetchQueue.items) > 0
		if !busy {
			c.store.ForEach(func(_ bool, _ uint64, e *CacheEntry) bool {
				if e.prefetch.Load() {
					busy = true
					return false
				}
				return true
			})
		}
		if !busy {
			return true
		}
		if time.Now().After(deadline) {
			return false
		}
		time.Sleep(200 * time.Microsecond)
	}
}
