//go:build verif

package cache

// C05 export hook (overlay-injected with the build tag `verif`, never part of /repo):
// a virtual clock for the answer cache, used by the C05 two-server differential driver in
// package server to let short-lived entries expire between two packets of a history without
// waiting.  Every stored instant of the answer entries and subtree cuts moves d into the
// past; the denial-proof and failure caches read an injected clock that runs total ahead.

import "time"

// VC05Shift emulates a clock advance of d (total = sum of all advances so far, d included).
func VC05Shift(c *Cache, d, total time.Duration) {
	if c == nil || c.store == nil {
		return
	}
	c.store.ForEach(func(_ bool, _ uint64, e *CacheEntry) bool {
		e.stored = e.stored.Add(-d)
		if !e.cutUntil.IsZero() {
			e.cutUntil = e.cutUntil.Add(-d)
		}
		return true
	})
	if cc := c.store.nxDomainCuts; cc != nil {
		cc.mu.Lock()
		for _, e := range cc.entries {
			e.stored = e.stored.Add(-d)
			e.expires = e.expires.Add(-d)
		}
		cc.mu.Unlock()
	}
	if dp := c.store.denialProofs; dp != nil {
		dp.mu.Lock()
		dp.now = func() time.Time { return time.Now().Add(total) }
		dp.mu.Unlock()
	}
	if f := c.store.failure; f != nil {
		f.now = func() time.Time { return time.Now().Add(total) }
	}
}
