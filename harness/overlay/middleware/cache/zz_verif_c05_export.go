//go:build verif

package cache

// C05 export hook (overlay-injected with the build tag `verif`, never part of /repo):
// a virtual clock for the answer cache, used by the C05 two-server differential driver in
// package server to let short-lived entries expire between two packets of a history without
// waiting.  Every stored instant of the answer entries and subtree cuts moves d into the
// past; the denial-proof and failure caches read an injected clock that runs total ahead.

import (
	"hash/fnv"
	"reflect"
	"strings"
	"time"

	"github.com/miekg/dns"
	internalcache "github.com/semihalev/sdns/internal/cache"
	"github.com/semihalev/sdns/internal/wire"
	"github.com/semihalev/sdns/middleware"
)

// VC05Shift emulates a clock advance of d (total = sum of all advances so far, d included).
func VC05Shift(c *Cache, d, total time.Duration) {
	if c == nil || c.store == nil {
		return
	}
	c.store.ForEach(func(_ bool, _ uint64, e *CacheEntry) bool {
		e.stored = e.stored.Add(-d)
		if !e.cutUntil.IsZero() {
			e.cutUntil = e.cutUntil.Add(-d)
		}
		return true
	})
	if cc := c.store.nxDomainCuts; cc != nil {
		cc.mu.Lock()
		for _, e := range cc.entries {
			e.stored = e.stored.Add(-d)
			e.expires = e.expires.Add(-d)
		}
		cc.mu.Unlock()
	}
	if dp := c.store.denialProofs; dp != nil {
		dp.mu.Lock()
		dp.now = func() time.Time { return time.Now().Add(total) }
		dp.mu.Unlock()
	}
	if f := c.store.failure; f != nil {
		f.now = func() time.Time { return time.Now().Add(total) }
	}
}

// VC05FreshEntryLimiters drops the process-global pools of per-entry limiters (shared_ratelimiter.go), so that
// the next server's entries draw full buckets: the state a refill pause of one second reaches, without the wait.
// Only for drivers that build a fresh Cache afterwards (live entries keep the limiter they were given).
func VC05FreshEntryLimiters() {
	poolsMu.Lock()
	rateLimiterPools = make(map[int]*sharedRateLimiterPool)
	poolsMu.Unlock()
}

// VC05PrefetchIdle waits until the background refresh queue has nothing queued and no entry
// holds a prefetch claim (a claim is released when the refresh replaced the entry, failed or was
// dropped), so that a refresh started by one packet of a history is finished before the next
// packet is served.  Returns false if that does not happen within the limit.
func VC05PrefetchIdle(c *Cache, limit time.Duration) bool {
	if c == nil || c.prefetchQueue == nil {
		return true
	}
	deadline := time.Now().Add(limit)
	for {
		busy := len(c.prefetchQueue.items) > 0
		if !busy {
			c.store.ForEach(func(_ bool, _ uint64, e *CacheEntry) bool {
				if e.prefetch.Load() {
					busy = true
					return false
				}
				return true
			})
		}
		if !busy {
			return true
		}
		if time.Now().After(deadline) {
			return false
		}
		time.Sleep(200 * time.Microsecond)
	}
}

// ---------------------------------------------------------------------------------------------
// C05 CaseChase: a read-only view of the alias chain a question would walk, hop by hop, taken
// INDEPENDENTLY of collectWireChase (bodies are decoded with the library, the next hop is found from the
// last alias record), next to what collectWireChase / composeWireChase really do on the same state.
// Nothing is written, claimed, counted or queried upstream.

// VC05Rec is one answer record in the abstract form of Chase.rrec: type, the (folded) alias target for a
// CNAME, a digest of everything else (folded owner, class, RDATA in presentation form, lower-cased), TTL.
type VC05Rec struct {
	Type   uint16
	Target string
	Rest   uint64
	TTL    uint32
}

func VC05RecOf(rr dns.RR) VC05Rec {
	h := rr.Header()
	out := VC05Rec{Type: h.Rrtype, TTL: h.Ttl}
	if c, ok := rr.(*dns.CNAME); ok {
		out.Target = strings.ToLower(c.Target)
	}
	cp := dns.Copy(rr)
	cp.Header().Ttl = 0
	f := fnv.New64a()
	f.Write([]byte(strings.ToLower(cp.String())))
	out.Rest = f.Sum64() >> 4 // fits a Coq N literal comfortably
	return out
}

// VC05Hop is one entry on the chain as both paths see it for this question.
type VC05Hop struct {
	Asked        string // folded name the entry was looked up under (the question for hop 0, else the last alias target)
	StoredName   string // folded owner of the stored question
	Recs         []VC05Rec
	NS, Extra    int
	Rcode        int
	AD           bool
	Live         bool
	TTL          uint32
	WireOK       bool // wireServe&wireEligible != 0 and a body exists for the client's DO class
	Recomposable bool
	Due          bool
	// the same entry as the decoded path reads it (CacheEntry.ToMsg decodes the FULL stored body; DNSSEC
	// records are removed later, by the edns writer, for a client without DO)
	FullRecs            []VC05Rec
	FullNS, FullExtra   int
	FullRcode           int
	FullAD, FullDNSSEC  bool
}

type VC05Chase struct {
	Qtype, Qclass uint16
	CD            bool
	Hops          []VC05Hop // hop 0 = the entry of the question itself; the view follows the chain for up to 12 entries
	// what the code did on this state
	CodeOK   bool
	CodeSegs []string  // folded stored names of the segments collectWireChase filled, in order
	Composed []VC05Rec // records of composeWireChase's reply (decoded), when CodeOK
	CompAD   bool
	CompOK   bool
	Stable   bool
}

// VC05ChaseView returns nil unless the cache holds, for the question in raw, an exact entry that
// serveHitFromWire would hand to serveChaseHit (byte-eligible, not chase-safe).
func VC05ChaseView(c *Cache, raw []byte, do bool) *VC05Chase {
	v := vC05ChaseView(c, raw, do, true)
	if v != nil {
		// read the entries once more: a second boundary between the view and the code's own clock reading
		// (or anything else that moved) makes the case incomparable, and the driver drops it
		v2 := vC05ChaseView(c, raw, do, false)
		v.Stable = v2 != nil && reflect.DeepEqual(v.Hops, v2.Hops)
	}
	return v
}

func vC05ChaseView(c *Cache, raw []byte, do bool, withCode bool) *VC05Chase {
	if c == nil || c.store == nil {
		return nil
	}
	var req middleware.Request
	if !req.ParseWire(raw, time.Now(), nil) || !req.RD() || req.HasECS() {
		return nil
	}
	qtype, qclass, cd := req.Qtype(), req.Qclass(), req.CD()
	key, ok := internalcache.KeyWire(req.WireName(), qtype, qclass, cd)
	if !ok {
		return nil
	}
	alias := c.checkCache(key)
	if alias == nil || !entryMatchesWire(alias, &req) || alias.wireServe&wireEligible == 0 || alias.wireServe&wireChaseSafe != 0 {
		return nil
	}
	out := &VC05Chase{Qtype: qtype, Qclass: qclass, CD: cd}
	now := time.Now()
	qname, _, _ := dns.UnpackDomainName(req.WireName(), 0)
	asked := strings.ToLower(qname)
	entry := alias
	for len(out.Hops) < 12 && entry != nil {
		h := VC05Hop{Asked: asked, StoredName: strings.ToLower(entry.question.Name), Recomposable: true}
		body, _ := entry.wireBodyFor(do)
		h.WireOK = entry.wireServe&wireEligible != 0 && body != nil
		rem := entry.remaining(now)
		h.Live = rem > 0
		if h.Live {
			h.TTL = uint32(rem.Seconds())
		}
		h.Due = c.prefetchQueue != nil && entry.PrefetchEligible() && entry.ShouldPrefetch(c.config.Prefetch)
		next := ""
		hasQ := false
		if body != nil {
			m := new(dns.Msg)
			if err := m.Unpack(body); err == nil {
				h.Rcode, h.AD, h.NS, h.Extra = m.Rcode, m.AuthenticatedData, len(m.Ns), len(m.Extra)
				for _, rr := range m.Answer {
					r := VC05RecOf(rr)
					r.TTL = 0
					h.Recs = append(h.Recs, r)
					if !wireRecomposable(rr.Header().Rrtype) {
						h.Recomposable = false
					}
					if rr.Header().Rrtype == qtype {
						hasQ = true
					}
					if cn, ok := rr.(*dns.CNAME); ok {
						next = strings.ToLower(cn.Target)
					}
				}
			} else {
				h.WireOK = false
			}
		}
		if fm := new(dns.Msg); fm.Unpack(entry.wire) == nil {
			h.FullRcode, h.FullAD, h.FullNS, h.FullExtra = fm.Rcode, fm.AuthenticatedData, len(fm.Ns), len(fm.Extra)
			for _, rr := range fm.Answer {
				r := VC05RecOf(rr)
				r.TTL = 0
				h.FullRecs = append(h.FullRecs, r)
				switch rr.Header().Rrtype {
				case dns.TypeRRSIG, dns.TypeNSEC, dns.TypeNSEC3:
					h.FullDNSSEC = true
				}
			}
			if body == nil {
				// no byte-servable body for this DO class: the decoded path still follows the full body's alias
				for _, rr := range fm.Answer {
					if rr.Header().Rrtype == qtype {
						hasQ = true
					}
					if cn, ok := rr.(*dns.CNAME); ok {
						next = strings.ToLower(cn.Target)
					}
				}
			}
		}
		out.Hops = append(out.Hops, h)
		if hasQ || next == "" {
			break
		}
		wn := make([]byte, 256)
		off, err := dns.PackDomainName(next, wn, 0, nil, false)
		if err != nil {
			break
		}
		k2, ok := internalcache.KeyWire(wn[:off], qtype, qclass, cd)
		if !ok {
			break
		}
		asked = next
		entry = c.checkCache(k2)
		if entry != nil && !entryMatchesWireQuestion(entry, wn[:off], qtype, qclass, cd) {
			// a colliding entry: the walk treats it as absent; show it as an entry stored under another name
			h2 := VC05Hop{Asked: asked, StoredName: strings.ToLower(entry.question.Name)}
			out.Hops = append(out.Hops, h2)
			break
		}
	}
	if !withCode {
		return out
	}
	// --- the code itself, on the same state
	var segs [maxWireChaseHops]wireChaseSegment
	n, okc := c.collectWireChase(&req, alias, do, segs[:])
	out.CodeOK = okc
	if okc {
		for i := 0; i < n; i++ {
			out.CodeSegs = append(out.CodeSegs, strings.ToLower(segs[i].entry.question.Name))
		}
		dst := make([]byte, 0, 16384)
		if body, _, built := composeWireChase(dst, &req, alias, segs[:n]); built {
			m := new(dns.Msg)
			if err := m.Unpack(body); err == nil {
				out.CompOK, out.CompAD = true, m.AuthenticatedData
				for _, rr := range m.Answer {
					out.Composed = append(out.Composed, VC05RecOf(rr))
				}
			}
		}
	}
	return out
}

// ---------------------------------------------------------------------------------------------
// C05 CaseVerdict: a read-only view of the exact entry a question hits - the full stored body and the
// stripped (DO=0) body decoded with the library, next to the admission-time verdict the code keeps for each
// (wireServe / strippedServe), the body wireBodyFor picks for the client's DO bit and the HasDNSSEC fact
// wireInfoFor reports for it.  Nothing is written, claimed, counted or queried upstream.

type VC05Body struct {
	Rcode      int
	AD         bool
	An, Ns, Ar []VC05Rec // TTL erased; OPT never stored
}

type VC05Flags struct{ Eligible, DNSSEC, ChaseSafe bool }

type VC05Verdict struct {
	Qtype, Qclass uint16
	CD            bool
	Name          string // folded question name
	Full          VC05Body
	FullFlags     VC05Flags
	HasStripped   bool
	Stripped      VC05Body
	StrippedFlags VC05Flags
	Choice        int // wireBodyFor(do): 0 = none, 1 = the stored body, 2 = the stripped body
	ChoiceFlags   VC05Flags
	InfoDNSSEC    bool // wireInfoFor(header, flags of the chosen body).HasDNSSEC
	Live, Due     bool
	Wire          []byte // the stored packed body (for the translated prepareWireServe)
}

func vC05FlagsOf(f wireServeFlags) VC05Flags {
	return VC05Flags{Eligible: f&wireEligible != 0, DNSSEC: f&wireHasDNSSEC != 0, ChaseSafe: f&wireChaseSafe != 0}
}

func vC05BodyOf(packed []byte) (VC05Body, bool) {
	m := new(dns.Msg)
	if err := m.Unpack(packed); err != nil {
		return VC05Body{}, false
	}
	out := VC05Body{Rcode: m.Rcode, AD: m.AuthenticatedData}
	sec := func(rrs []dns.RR) []VC05Rec {
		var rs []VC05Rec
		for _, rr := range rrs {
			if rr.Header().Rrtype == dns.TypeOPT {
				continue
			}
			r := VC05RecOf(rr)
			r.TTL = 0
			rs = append(rs, r)
		}
		return rs
	}
	out.An, out.Ns, out.Ar = sec(m.Answer), sec(m.Ns), sec(m.Extra)
	return out, true
}

// VC05VerdictView returns nil unless the cache holds a shared (scope-free) exact entry for the question in raw.
func VC05VerdictView(c *Cache, raw []byte, do bool) *VC05Verdict {
	if c == nil || c.store == nil {
		return nil
	}
	var req middleware.Request
	if !req.ParseWire(raw, time.Now(), nil) || !req.RD() || req.HasECS() {
		return nil
	}
	qtype, qclass, cd := req.Qtype(), req.Qclass(), req.CD()
	key, ok := internalcache.KeyWire(req.WireName(), qtype, qclass, cd)
	if !ok {
		return nil
	}
	e := c.checkCache(key)
	if e == nil || !entryMatchesWire(e, &req) || len(e.wire) == 0 {
		return nil
	}
	out := &VC05Verdict{Qtype: qtype, Qclass: qclass, CD: cd, Name: strings.ToLower(e.question.Name)}
	full, ok := vC05BodyOf(e.wire)
	if !ok {
		return nil
	}
	out.Full, out.FullFlags = full, vC05FlagsOf(e.wireServe)
	if e.stripped != nil {
		sb, ok := vC05BodyOf(e.stripped)
		if !ok {
			return nil
		}
		out.HasStripped, out.Stripped, out.StrippedFlags = true, sb, vC05FlagsOf(e.strippedServe)
	}
	body, flags := e.wireBodyFor(do)
	switch {
	case body == nil:
		out.Choice = 0
	case len(body) > 0 && len(e.stripped) > 0 && &body[0] == &e.stripped[0]:
		out.Choice = 2
	default:
		out.Choice = 1
	}
	out.ChoiceFlags = vC05FlagsOf(flags)
	if body != nil {
		if header, ok := wire.ParseHeader(body); ok {
			out.InfoDNSSEC = e.wireInfoFor(header, flags, false).HasDNSSEC
		}
	}
	out.Live = e.remaining(time.Now()) > 0
	out.Due = c.prefetchQueue != nil && e.PrefetchEligible() && e.ShouldPrefetch(c.config.Prefetch)
	out.Wire = append([]byte(nil), e.wire...)
	return out
}
