//go:build verif

package cache

// C11 inline driver, cache-side half (the driver lives in package server, next to the UDP
// engine): read-only facts about a cached entry that the model takes as inputs, and a reset of
// the process-wide per-entry limiter pools so that every scenario starts from full buckets.

import (
	"github.com/miekg/dns"
)

// VC11ResetEntryLimiters forgets every shared per-entry rate limiter: the next
// CacheEntry.GetRateLimiter builds a fresh pool (full buckets).
func VC11ResetEntryLimiters() {
	poolsMu.Lock()
	rateLimiterPools = make(map[int]*sharedRateLimiterPool)
	poolsMu.Unlock()
}

// VC11HitFacts reports, for the shared-key entry of (name, A, IN, CD=0): the length of the
// stored body a client with the given DO bit is served, the entry's EDE reserve, whether the
// entry is a flat wire-eligible one (the shape Inline.v models), and the tokens its limiter
// holds now, in thousandths (-1 without a limiter).
func (c *Cache) VC11HitFacts(name string, do bool) (bodyLen, edeReserve int, flat bool, milliTokens int64, ok bool) {
	q := dns.Question{Name: name, Qtype: dns.TypeA, Qclass: dns.ClassINET}
	entry := c.checkCache(CacheKey{Question: q}.Hash())
	if entry == nil {
		return 0, 0, false, 0, false
	}
	body, _ := entry.wireBodyFor(do)
	flat = entry.wireServe&wireEligible != 0 && entry.wireServe&wireChaseSafe != 0 && body != nil
	milliTokens = -1
	if l := entry.GetRateLimiter(); l != nil {
		t := l.Tokens() * 1000
		milliTokens = int64(t + 0.5)
	}
	return len(body), entry.wireEDEReserve(), flat, milliTokens, true
}
