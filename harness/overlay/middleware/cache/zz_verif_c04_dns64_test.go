//go:build verif

package cache

// C04 driver (DNS64 composition): the real dns64 handler above the real cache
// with a scripted downstream. A synthesised AAAA is composed from the AAAA
// NODATA answer and the A answer of the sub-query, each either fresh or served
// from a cache entry of its own age; its TTL must not exceed what is left of
// any cached piece.

import (
	"context"
	"fmt"
	"math/rand"
	"strings"
	"testing"
	"time"

	"github.com/miekg/dns"
	"github.com/semihalev/sdns/config"
	"github.com/semihalev/sdns/internal/mock"
	"github.com/semihalev/sdns/middleware"
	"github.com/semihalev/sdns/middleware/dns64"
)

func vC04KeyT(name string, qtype uint16) uint64 {
	return CacheKey{Question: dns.Question{Name: name, Qtype: qtype, Qclass: dns.ClassINET}}.Hash()
}

func vC04PieceCoq(k *vC04Clock, e *CacheEntry, fresh uint32) string {
	if e == nil {
		return fmt.Sprintf("(PFresh %d)", fresh)
	}
	return fmt.Sprintf("(PHit (mk_entry 0 %s %d %s false))", vC04Z(k.virt(e.stored)), int64(e.ttl), vC04Cut(k, e.cutUntil))
}

func TestVerifC04Dns64(t *testing.T) {
	out := vC04Open(t)
	defer out.f.Close()
	r := rand.New(rand.NewSource(int64(vC04EnvInt("VERIF_SEED", 1)) + 4044))
	n := vC04EnvInt("VERIF_N", 400)
	for emitted := 0; emitted < n; {
		emitted += vC04Dns64History(out, r, n-emitted)
	}
}

func vC04Dns64History(out *vC04Out, r *rand.Rand, budget int) int {
	env := vC04NewEnv(0, 0, 600)
	defer env.close()
	k := env.k
	dcfg := &config.Config{}
	dcfg.DNS64 = config.DNS64Config{Enabled: true, Prefixes: []string{"2001:db8:64::/96"}}
	d := dns64.New(dcfg)
	if d == nil {
		panic("dns64 disabled")
	}
	d.SetQueryer(env.sub)
	name := "d64.c04.test."
	target := name
	ttls := []uint32{1, 4, 7, 30, 60, 300, 601, 3600}
	script := func() {
		// AAAA: NODATA with or without an SOA; A: one or two addresses, possibly behind an alias
		neg := new(dns.Msg)
		neg.SetQuestion(name, dns.TypeAAAA)
		neg.Response = true
		if r.Intn(4) > 0 {
			neg.Ns = []dns.RR{vC04SOA("c04.test.", ttls[r.Intn(len(ttls))], ttls[r.Intn(len(ttls))])}
		}
		sn := &vC04Script{resp: neg}
		if r.Intn(3) == 0 {
			sn.hasCut, sn.cut = true, k.now()+int64(time.Duration(3+r.Intn(100))*time.Second)
		}
		env.stub.script[name+"|AAAA"] = sn
		a := new(dns.Msg)
		a.SetQuestion(name, dns.TypeA)
		a.Response = true
		target = name
		if r.Intn(3) == 0 {
			target = "t64.c04.test."
			a.Answer = append(a.Answer, &dns.CNAME{Hdr: dns.RR_Header{Name: name, Rrtype: dns.TypeCNAME, Class: dns.ClassINET, Ttl: ttls[r.Intn(len(ttls))]}, Target: target})
			ta := new(dns.Msg)
			ta.SetQuestion(target, dns.TypeA)
			ta.Response = true
			tt := ttls[r.Intn(len(ttls))]
			for i, c := 0, 1+r.Intn(2); i < c; i++ {
				ta.Answer = append(ta.Answer, &dns.A{Hdr: dns.RR_Header{Name: target, Rrtype: dns.TypeA, Class: dns.ClassINET, Ttl: tt}, A: []byte{203, 0, 113, byte(1 + i)}})
			}
			env.stub.script[target] = &vC04Script{resp: ta}
		} else {
			tt := ttls[r.Intn(len(ttls))]
			for i, c := 0, 1+r.Intn(2); i < c; i++ {
				a.Answer = append(a.Answer, &dns.A{Hdr: dns.RR_Header{Name: name, Rrtype: dns.TypeA, Class: dns.ClassINET, Ttl: tt}, A: []byte{203, 0, 113, byte(1 + i)}})
			}
		}
		sa := &vC04Script{resp: a}
		if r.Intn(3) == 0 {
			sa.hasCut, sa.cut = true, k.now()+int64(time.Duration(3+r.Intn(100))*time.Second)
		}
		env.stub.script[name] = sa
	}
	script()
	emitted := 0
	for op, ops := 0, 5+r.Intn(8); op < ops && emitted < budget; op++ {
		switch x := r.Intn(10); {
		case x == 0:
			script()
			continue
		case x == 1:
			// drop one piece so that the pieces get differing ages
			qt := []uint16{dns.TypeA, dns.TypeAAAA}[r.Intn(2)]
			env.c.positive.Remove(vC04KeyT(name, qt))
			continue
		case x < 5:
			var ends []int64
			for _, key := range []uint64{vC04KeyT(name, dns.TypeA), vC04KeyT(name, dns.TypeAAAA), vC04KeyT(target, dns.TypeA)} {
				if e := env.peek(key); e != nil {
					end := e.stored.Add(e.ttl)
					if !e.cutUntil.IsZero() && e.cutUntil.Before(end) {
						end = e.cutUntil
					}
					ends = append(ends, k.virt(end))
				}
			}
			now := k.now()
			tgt := now + int64(time.Duration(r.Intn(4000))*time.Millisecond)
			if len(ends) > 0 && r.Intn(3) > 0 {
				tgt = ends[r.Intn(len(ends))] + []int64{-2600, -1400, -300, 300}[r.Intn(4)]*int64(time.Millisecond)
			}
			if tgt > now {
				vC04Shift(env.c, k, time.Duration(tgt-now))
			}
			continue
		}
		// snapshot the pieces, ask for AAAA through dns64 -> cache -> downstream
		preNeg := env.peek(vC04KeyT(name, dns.TypeAAAA))
		preA := env.peek(vC04KeyT(name, dns.TypeA))
		preT := env.peek(vC04KeyT("t64.c04.test.", dns.TypeA))
		req := new(dns.Msg)
		req.SetQuestion(name, dns.TypeAAAA)
		req.RecursionDesired = true
		writer := mock.NewWriter("udp", "198.51.100.77:40000")
		ch := middleware.NewChain([]middleware.Handler{d, env.c, env.stub})
		ch.Reset(writer, req)
		env.stub.calls = nil
		// the server's request context exposes the chain's ResponseMeta; the cache folds its hits into it
		ctx := middleware.WithResponseMeta(context.Background(), new(middleware.ResponseMeta))
		t0 := k.now()
		ch.Next(ctx)
		t1 := k.now()
		if !writer.Written() {
			continue
		}
		resp := writer.Msg()
		stubbed := map[string]bool{}
		for _, c := range env.stub.calls {
			stubbed[c] = true
		}
		live := func(e *CacheEntry) bool { return e != nil && e.remaining(k.real(t1)) > 0 }
		amb := false
		for _, e := range []*CacheEntry{preNeg, preA, preT} {
			if e == nil {
				continue
			}
			r0, r1 := e.remaining(k.real(t0)), e.remaining(k.real(t1))
			if (r0 > 0) != (r1 > 0) || (r0 > 0 && r0/time.Second != r1/time.Second) {
				amb = true
			}
		}
		if amb {
			out.emit(map[string]any{"inconclusive": true})
			continue
		}
		var obs []string
		for _, rr := range resp.Answer {
			if rr.Header().Rrtype == dns.TypeAAAA {
				obs = append(obs, fmt.Sprint(rr.Header().Ttl))
			}
		}
		if len(obs) == 0 {
			continue // nothing synthesised (no address): not a composition
		}
		// which piece supplied what: a name that went downstream is fresh, otherwise the snapshot entry
		negScript := env.stub.script[name+"|AAAA"].resp
		hasSOA, minimum := false, uint32(0)
		var negPiece string
		if stubbed[name+"|AAAA"] || !live(preNeg) {
			if len(negScript.Ns) > 0 {
				soa := negScript.Ns[0].(*dns.SOA)
				hasSOA, minimum = true, soa.Minttl
				negPiece = vC04PieceCoq(k, nil, soa.Hdr.Ttl)
			} else {
				negPiece = "(PFresh 600)" // no SOA downstream: RFC 6147 ceiling
			}
		} else {
			m := preNeg.storedMsg()
			if len(m.Ns) > 0 {
				soa := m.Ns[0].(*dns.SOA)
				hasSOA, minimum = true, soa.Minttl
			}
			negPiece = vC04PieceCoq(k, preNeg, 0)
		}
		// the address records come from the answer of the name that owns the synthesised
		// records (the end of the alias chain as it was actually followed)
		var addrs []string
		termName, termPre := name, preA
		for _, rr := range resp.Answer {
			if rr.Header().Rrtype == dns.TypeAAAA {
				termName = strings.ToLower(rr.Header().Name)
			}
		}
		if termName != name {
			termPre = preT
		}
		if stubbed[termName] || !live(termPre) {
			for _, rr := range env.stub.script[termName].resp.Answer {
				if a, ok := rr.(*dns.A); ok {
					addrs = append(addrs, vC04PieceCoq(k, nil, a.Hdr.Ttl))
				}
			}
		} else {
			for _, rr := range termPre.storedMsg().Answer {
				if _, ok := rr.(*dns.A); ok {
					addrs = append(addrs, vC04PieceCoq(k, termPre, 0))
				}
			}
		}
		fail := ""
		for _, e := range []*CacheEntry{preNeg, termPre} {
			if e == nil || !live(e) {
				continue
			}
			if e == preNeg && stubbed[name+"|AAAA"] || e == termPre && stubbed[termName] {
				continue
			}
			left := e.remaining(k.real(t0))
			for _, rr := range resp.Answer {
				if rr.Header().Rrtype == dns.TypeAAAA && time.Duration(rr.Header().Ttl)*time.Second > left {
					fail = fmt.Sprintf("synthesised AAAA TTL %d exceeds the %v left of a cached piece", rr.Header().Ttl, left)
				}
			}
		}
		kk := "dns64"
		if !stubbed[name+"|AAAA"] {
			kk += "-negcached"
		}
		if !stubbed[termName] {
			kk += "-addrcached"
		}
		if termName != name {
			kk += "-alias"
		}
		fkey := ""
		if !hasSOA && !stubbed[name+"|AAAA"] && live(preNeg) {
			// KNOWN finding class: the AAAA NODATA piece is a cached answer without an SOA
			// (held for the 5 s floor); nothing in it carries its remaining lifetime to dns64
			fkey = "dns64-bare-nodata"
			kk += "-baresoa"
		}
		out.emit(map[string]any{"k": kk, "nontrivial": true, "go_fail": fail, "fkey": fkey,
			"coq": fmt.Sprintf("CDns64 %v %s %d [%s] %s %s [%s]%%Z", hasSOA, negPiece, minimum, strings.Join(addrs, "; "), vC04Z(t0), vC04Z(t1), strings.Join(obs, "; ")),
			"desc": map[string]any{"reply": resp.String(), "went_downstream": env.stub.calls}})
		emitted++
	}
	if emitted == 0 {
		return 1
	}
	return emitted
}
