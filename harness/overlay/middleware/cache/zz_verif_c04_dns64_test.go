//go:build verif

package cache

// C04 driver (DNS64 composition): the real dns64 handler above the real cache
// with a scripted downstream. A synthesised AAAA is composed from the AAAA
// NODATA answer and the A answer of the sub-query, each either fresh or served
// from a cache entry of its own age; its TTL must not exceed what is left of
// any cached piece.

import (
	"context"
	"encoding/json"
	"fmt"
	"math/rand"
	"os"
	"path/filepath"
	"strings"
	"testing"
	"time"

	"github.com/miekg/dns"
	"github.com/semihalev/sdns/config"
	"github.com/semihalev/sdns/internal/mock"
	"github.com/semihalev/sdns/middleware"
	"github.com/semihalev/sdns/middleware/dns64"
)

func vC04KeyT(name string, qtype uint16) uint64 {
	return CacheKey{Question: dns.Question{Name: name, Qtype: qtype, Qclass: dns.ClassINET}}.Hash()
}

// vC04PieceCoq: a cache hit is the snapshot entry; a fresh downstream answer is its
// upstream TTL and the lease the scripted downstream folded with it (sc may be nil).
func vC04PieceCoq(k *vC04Clock, e *CacheEntry, fresh uint32, sc *vC04Script) string {
	if e == nil {
		lease := "None"
		if sc != nil && sc.hasCut {
			lease = "(Some " + vC04Z(sc.cut) + ")"
		}
		return fmt.Sprintf("(PFresh %d %s)", fresh, lease)
	}
	return fmt.Sprintf("(PHit (mk_entry 0 %s %d %s false))", vC04Z(k.virt(e.stored)), int64(e.ttl), vC04Cut(k, e.cutUntil))
}

// vC04D64Scn is one fixed scenario of corpus/C04/dns64.jsonl (replayed before the generated
// histories): what the downstream is scripted with and the steps to take.
type vC04D64Scn struct {
	Name     string `json:"name"`
	NegSOA   bool   `json:"neg_soa"`
	SoaTTL   uint32 `json:"soa_ttl"`
	SoaMin   uint32 `json:"soa_min"`
	NegLease int    `json:"neg_lease_s"` // 0: the AAAA answer comes without a lease
	ATTL     uint32 `json:"a_ttl"`
	ALease   int    `json:"a_lease_s"`
	Alias    bool   `json:"alias"`
	CnameTTL uint32 `json:"cname_ttl"`
	TLease   int    `json:"target_lease_s"`
	Steps    []struct {
		Op    string `json:"op"` // ask | shift | drop-a | drop-aaaa
		Route int    `json:"route"`
		Ms    int    `json:"ms"`
	} `json:"steps"`
}

func TestVerifC04Dns64(t *testing.T) {
	out := vC04Open(t)
	defer out.f.Close()
	r := rand.New(rand.NewSource(int64(vC04EnvInt("VERIF_SEED", 1)) + 4044))
	n := vC04EnvInt("VERIF_N", 400)
	emitted := 0
	// fixed regression inputs first (the former finding dns64-bare-nodata on every route, ...)
	if raw, err := os.ReadFile(filepath.Join(os.Getenv("VERIF_CORPUS"), "dns64.jsonl")); err == nil {
		for _, line := range strings.Split(string(raw), "\n") {
			if line = strings.TrimSpace(line); line == "" || strings.HasPrefix(line, "#") {
				continue
			}
			scn := new(vC04D64Scn)
			if err := json.Unmarshal([]byte(line), scn); err != nil {
				t.Fatalf("corpus dns64.jsonl: %v", err)
			}
			emitted += vC04Dns64History(out, r, 1<<20, scn)
		}
	}
	// the replies dns64 RELAYS (A-basis of RFC 6147 5.1.6, PTR translation of 5.3.1): fixed scenarios
	// of dns64relay.jsonl, then generated histories for about a quarter of the budget
	relayN := n / 4
	relayed := 0
	if raw, err := os.ReadFile(filepath.Join(os.Getenv("VERIF_CORPUS"), "dns64relay.jsonl")); err == nil {
		for _, line := range strings.Split(string(raw), "\n") {
			if line = strings.TrimSpace(line); line == "" || strings.HasPrefix(line, "#") {
				continue
			}
			scn := new(vC04RelayScn)
			if err := json.Unmarshal([]byte(line), scn); err != nil {
				t.Fatalf("corpus dns64relay.jsonl: %v", err)
			}
			relayed += vC04Dns64Relay(out, r, 1<<20, scn)
		}
	}
	for relayed < relayN {
		relayed += vC04Dns64Relay(out, r, relayN-relayed, nil)
	}
	emitted += relayed
	for emitted < n {
		emitted += vC04Dns64History(out, r, n-emitted, nil)
	}
}

func vC04Dns64History(out *vC04Out, r *rand.Rand, budget int, scn *vC04D64Scn) int {
	env := vC04NewEnv(0, 0, 600)
	defer env.close()
	k := env.k
	dcfg := &config.Config{}
	dcfg.DNS64 = config.DNS64Config{Enabled: true, Prefixes: []string{"2001:db8:64::/96"}}
	d := dns64.New(dcfg)
	if d == nil {
		panic("dns64 disabled")
	}
	d.SetQueryer(env.sub)
	name := "d64.c04.test."
	target := name
	ttls := []uint32{1, 4, 7, 30, 60, 300, 601, 3600}
	lease := func(sc *vC04Script, secs int) {
		if secs != 0 {
			sc.hasCut, sc.cut = true, k.now()+int64(time.Duration(secs)*time.Second)
		}
	}
	rndLease := func() int {
		if r.Intn(3) == 0 {
			return 3 + r.Intn(100)
		}
		return 0
	}
	script := func() {
		// AAAA: NODATA with or without an SOA; A: one or two addresses, possibly behind an alias
		p := scn
		if p == nil {
			p = &vC04D64Scn{NegSOA: r.Intn(4) > 0, SoaTTL: ttls[r.Intn(len(ttls))], SoaMin: ttls[r.Intn(len(ttls))], NegLease: rndLease(),
				Alias: r.Intn(3) == 0, CnameTTL: ttls[r.Intn(len(ttls))], ATTL: ttls[r.Intn(len(ttls))], ALease: rndLease(), TLease: rndLease()}
		}
		naddr := 1
		if scn == nil {
			naddr += r.Intn(2)
		}
		neg := new(dns.Msg)
		neg.SetQuestion(name, dns.TypeAAAA)
		neg.Response = true
		if p.NegSOA {
			neg.Ns = []dns.RR{vC04SOA("c04.test.", p.SoaTTL, p.SoaMin)}
		}
		sn := &vC04Script{resp: neg}
		lease(sn, p.NegLease)
		env.stub.script[name+"|AAAA"] = sn
		a := new(dns.Msg)
		a.SetQuestion(name, dns.TypeA)
		a.Response = true
		target = name
		if p.Alias {
			target = "t64.c04.test."
			a.Answer = append(a.Answer, &dns.CNAME{Hdr: dns.RR_Header{Name: name, Rrtype: dns.TypeCNAME, Class: dns.ClassINET, Ttl: p.CnameTTL}, Target: target})
			ta := new(dns.Msg)
			ta.SetQuestion(target, dns.TypeA)
			ta.Response = true
			for i := 0; i < naddr; i++ {
				ta.Answer = append(ta.Answer, &dns.A{Hdr: dns.RR_Header{Name: target, Rrtype: dns.TypeA, Class: dns.ClassINET, Ttl: p.ATTL}, A: []byte{203, 0, 113, byte(1 + i)}})
			}
			st := &vC04Script{resp: ta}
			lease(st, p.TLease)
			env.stub.script[target] = st
		} else {
			for i := 0; i < naddr; i++ {
				a.Answer = append(a.Answer, &dns.A{Hdr: dns.RR_Header{Name: name, Rrtype: dns.TypeA, Class: dns.ClassINET, Ttl: p.ATTL}, A: []byte{203, 0, 113, byte(1 + i)}})
			}
		}
		sa := &vC04Script{resp: a}
		lease(sa, p.ALease)
		env.stub.script[name] = sa
	}
	script()
	emitted := 0
	nops := 5 + r.Intn(8)
	if scn != nil {
		nops = len(scn.Steps)
	}
	for op := 0; op < nops && emitted < budget; op++ {
		route := r.Intn(3)
		if scn != nil {
			st := scn.Steps[op]
			route = st.Route
			switch st.Op {
			case "shift":
				vC04Shift(env.c, k, time.Duration(st.Ms)*time.Millisecond)
				continue
			case "drop-a":
				env.c.positive.Remove(vC04KeyT(name, dns.TypeA))
				continue
			case "drop-aaaa":
				env.c.positive.Remove(vC04KeyT(name, dns.TypeAAAA))
				env.c.negative.Remove(vC04KeyT(name, dns.TypeAAAA))
				continue
			case "ask":
			default:
				panic("corpus dns64.jsonl: unknown op " + st.Op)
			}
		} else {
			x := r.Intn(10)
			switch {
			case x == 0:
				script()
				continue
			case x == 1:
				// drop one piece so that the pieces get differing ages
				qt := []uint16{dns.TypeA, dns.TypeAAAA}[r.Intn(2)]
				env.c.positive.Remove(vC04KeyT(name, qt))
				env.c.negative.Remove(vC04KeyT(name, qt))
				continue
			case x < 5:
				var ends []int64
				for _, key := range []uint64{vC04KeyT(name, dns.TypeA), vC04KeyT(name, dns.TypeAAAA), vC04KeyT(target, dns.TypeA)} {
					if e := env.peek(key); e != nil {
						end := e.stored.Add(e.ttl)
						if !e.cutUntil.IsZero() && e.cutUntil.Before(end) {
							end = e.cutUntil
						}
						ends = append(ends, k.virt(end))
					}
				}
				now := k.now()
				tgt := now + int64(time.Duration(r.Intn(4000))*time.Millisecond)
				if len(ends) > 0 && r.Intn(3) > 0 {
					tgt = ends[r.Intn(len(ends))] + []int64{-2600, -1400, -300, 300}[r.Intn(4)]*int64(time.Millisecond)
				}
				if tgt > now {
					vC04Shift(env.c, k, time.Duration(tgt-now))
				}
				continue
			}
		}
		// snapshot the pieces, ask for AAAA through dns64 -> cache -> downstream
		preNeg := env.peek(vC04KeyT(name, dns.TypeAAAA))
		preA := env.peek(vC04KeyT(name, dns.TypeA))
		preT := env.peek(vC04KeyT("t64.c04.test.", dns.TypeA))
		req := new(dns.Msg)
		req.SetQuestion(name, dns.TypeAAAA)
		req.RecursionDesired = true
		writer := mock.NewWriter("udp", "198.51.100.77:40000")
		env.stub.calls = nil
		// routes: 0 message-born under a server-style context that already carries a meta,
		// 1 message-born under a bare context (the chain establishes its own meta),
		// 2 wire-born below edns (dns64 materialises; everything below runs on the detached context)
		var ch *middleware.Chain
		ctx := context.Background()
		meta := new(middleware.ResponseMeta)
		switch route {
		case 0:
			ch = middleware.NewChain([]middleware.Handler{d, env.c, env.stub})
			ch.Reset(writer, req)
			ctx = middleware.WithResponseMeta(ctx, meta)
		case 1:
			ch = middleware.NewChain([]middleware.Handler{d, env.c, env.stub})
			ch.Reset(writer, req)
			meta = &ch.Meta
		default:
			req.SetEdns0(1232, false)
			raw, err := req.Pack()
			if err != nil {
				panic(err)
			}
			wreq := new(middleware.Request)
			if !wreq.ParseWire(raw, time.Now(), nil) {
				panic("wire request refused")
			}
			ch = middleware.NewChain([]middleware.Handler{env.e, d, env.c, env.stub})
			ch.ResetWire(writer, wreq)
			ch.AllowDirectPack()
			meta = nil // the detached context carries a copy the driver cannot reach
		}
		t0 := k.now()
		ch.Next(ctx)
		t1 := k.now()
		bobs := "None"
		if meta != nil {
			cut, _ := meta.Cut()
			bobs = "(Some " + vC04OZ(!cut.IsZero(), k.virt(cut)) + ")"
		}
		if !writer.Written() {
			continue
		}
		resp := writer.Msg()
		stubbed := map[string]bool{}
		for _, c := range env.stub.calls {
			stubbed[c] = true
		}
		live := func(e *CacheEntry) bool { return e != nil && e.remaining(k.real(t1)) > 0 }
		amb := false
		for _, e := range []*CacheEntry{preNeg, preA, preT} {
			if e == nil {
				continue
			}
			r0, r1 := e.remaining(k.real(t0)), e.remaining(k.real(t1))
			if (r0 > 0) != (r1 > 0) || (r0 > 0 && r0/time.Second != r1/time.Second) {
				amb = true
			}
		}
		var obs, cobs []string
		for _, rr := range resp.Answer {
			switch rr.Header().Rrtype {
			case dns.TypeAAAA:
				obs = append(obs, fmt.Sprint(rr.Header().Ttl))
			case dns.TypeCNAME:
				cobs = append(cobs, fmt.Sprint(rr.Header().Ttl))
			}
		}
		if len(obs) == 0 {
			continue // nothing synthesised (no address): not a composition
		}
		// which piece supplied what: a name that went downstream is fresh, otherwise the snapshot entry
		negSc := env.stub.script[name+"|AAAA"]
		negScript := negSc.resp
		hasSOA, minimum := false, uint32(0)
		var negPiece string
		var leases []int64 // deadlines folded by fresh downstream answers
		if stubbed[name+"|AAAA"] || !live(preNeg) {
			if len(negScript.Ns) > 0 {
				soa := negScript.Ns[0].(*dns.SOA)
				hasSOA, minimum = true, soa.Minttl
				negPiece = vC04PieceCoq(k, nil, soa.Hdr.Ttl, negSc)
			} else {
				negPiece = vC04PieceCoq(k, nil, 600, negSc) // no SOA downstream: RFC 6147 ceiling
			}
			if negSc.hasCut {
				leases = append(leases, negSc.cut)
			}
		} else {
			m := preNeg.storedMsg()
			if len(m.Ns) > 0 {
				soa := m.Ns[0].(*dns.SOA)
				hasSOA, minimum = true, soa.Minttl
			}
			negPiece = vC04PieceCoq(k, preNeg, 0, nil)
		}
		// the address records come from the answer of the name that owns the synthesised
		// records (the end of the alias chain as it was actually followed)
		var addrs, via []string
		termName, termPre := name, preA
		for _, rr := range resp.Answer {
			if rr.Header().Rrtype == dns.TypeAAAA {
				termName = strings.ToLower(rr.Header().Name)
			}
		}
		if termName != name {
			termPre = preT
			// the alias answer at the queried name is a consulted piece of its own
			if stubbed[name] || !live(preA) {
				sc := env.stub.script[name]
				cttl := uint32(0)
				for _, rr := range sc.resp.Answer {
					if c, ok := rr.(*dns.CNAME); ok {
						cttl = c.Hdr.Ttl
					}
				}
				via = append(via, vC04PieceCoq(k, nil, cttl, sc))
				if sc.hasCut {
					leases = append(leases, sc.cut)
				}
			} else {
				via = append(via, vC04PieceCoq(k, preA, 0, nil))
			}
		}
		if stubbed[termName] || !live(termPre) {
			sc := env.stub.script[termName]
			for _, rr := range sc.resp.Answer {
				if a, ok := rr.(*dns.A); ok {
					addrs = append(addrs, vC04PieceCoq(k, nil, a.Hdr.Ttl, sc))
				}
			}
			if sc.hasCut {
				leases = append(leases, sc.cut)
			}
		} else {
			for _, rr := range termPre.storedMsg().Answer {
				if _, ok := rr.(*dns.A); ok {
					addrs = append(addrs, vC04PieceCoq(k, termPre, 0, nil))
				}
			}
		}
		// a lease whose whole seconds left differ between the two readings of the bracket
		// cannot be attributed to one clock reading
		secsLeft := func(deadline, now int64) int64 {
			if deadline <= now {
				return 0
			}
			return (deadline - now) / int64(time.Second)
		}
		for _, l := range leases {
			if secsLeft(l, t0) != secsLeft(l, t1) {
				amb = true
			}
		}
		if amb {
			out.emit(map[string]any{"inconclusive": true})
			continue
		}
		// Go-side oracle (the statement): no synthesised record outlives a piece the reply was
		// composed from — the cached AAAA answer, the cached address answer, the cached alias
		// answer the A chase went through, and the lease of every piece fetched in this query
		fail := ""
		viaPre := (*CacheEntry)(nil)
		if termName != name {
			viaPre = preA
		}
		for i, e := range []*CacheEntry{preNeg, termPre, viaPre} {
			if e == nil || !live(e) {
				continue
			}
			if i == 0 && stubbed[name+"|AAAA"] || i == 1 && stubbed[termName] || i == 2 && stubbed[name] {
				continue
			}
			left := e.remaining(k.real(t0))
			for _, rr := range resp.Answer {
				if rr.Header().Rrtype == dns.TypeAAAA && time.Duration(rr.Header().Ttl)*time.Second > left {
					fail = fmt.Sprintf("synthesised AAAA TTL %d exceeds the %v left of a cached piece (%s)", rr.Header().Ttl, left,
						[]string{"AAAA answer", "address answer", "alias answer"}[i])
				}
			}
		}
		for _, l := range leases {
			left := time.Duration(l - t0)
			if left < 0 {
				left = 0
			}
			for _, rr := range resp.Answer {
				if rr.Header().Rrtype == dns.TypeAAAA && time.Duration(rr.Header().Ttl)*time.Second > left {
					fail = fmt.Sprintf("synthesised AAAA TTL %d exceeds the %v left of the lease a fresh piece was learned under", rr.Header().Ttl, left)
				}
			}
		}
		kk := fmt.Sprintf("dns64-route%d", route)
		if scn != nil {
			kk = "corpus-" + kk
		}
		if !stubbed[name+"|AAAA"] {
			kk += "-negcached"
		}
		if !stubbed[termName] {
			kk += "-addrcached"
		}
		if termName != name {
			kk += "-alias"
		}
		if len(leases) > 0 {
			kk += "-lease"
		}
		if !hasSOA && !stubbed[name+"|AAAA"] && live(preNeg) {
			// the class of the former finding dns64-bare-nodata (repaired by af44539): the AAAA
			// NODATA piece is a cached answer without an SOA, held for the 5 s floor; only the
			// request tree's bound carries its remaining lifetime to dns64. Judged strictly.
			kk += "-baresoa"
		}
		out.emit(map[string]any{"k": kk, "nontrivial": true, "go_fail": fail,
			"coq": fmt.Sprintf("CDns64 %v %s %d [%s] [%s] %s %s %s [%s]%%Z [%s]%%Z", hasSOA, negPiece, minimum,
				strings.Join(addrs, "; "), strings.Join(via, "; "), vC04Z(t0), vC04Z(t1), bobs, strings.Join(obs, "; "), strings.Join(cobs, "; ")),
			"desc": map[string]any{"route": route, "reply": resp.String(), "went_downstream": env.stub.calls}})
		emitted++
	}
	if emitted == 0 {
		return 1
	}
	return emitted
}

// ---------------------------------------------------------------- the replies dns64 relays

// vC04RelayScn is one scenario of the relayed reply shapes (fixed ones in corpus/C04/dns64relay.jsonl,
// generated ones drawn from the seed): mode "basis" = the A sub-answer has no address, so it becomes
// the basis of the reply (buildAResponseAsBasis); mode "ptr" = an ip6.arpa PTR question under the
// Pref64 is answered with a synthesised CNAME plus the PTR records of the in-addr.arpa sub-query.
type vC04RelayScn struct {
	Name     string `json:"name"`
	Mode     string `json:"mode"`
	NegSOA   bool   `json:"neg_soa"` // AAAA NODATA with an SOA (soa_ttl, soa_min) or bare
	SoaTTL   uint32 `json:"soa_ttl"`
	SoaMin   uint32 `json:"soa_min"`
	NegLease int    `json:"neg_lease_s"`
	ABare    bool   `json:"a_bare"` // the terminal A answer is NODATA without an SOA
	ASoaTTL  uint32 `json:"a_soa_ttl"`
	ASoaMin  uint32 `json:"a_soa_min"`
	ALease   int    `json:"a_lease_s"`
	Alias    bool   `json:"alias"`
	CnameTTL uint32 `json:"cname_ttl"`
	TLease   int    `json:"target_lease_s"`
	PtrTTL   uint32 `json:"ptr_ttl"`
	PtrN     int    `json:"ptr_n"` // 0: the in-addr.arpa name does not exist (CNAME only)
	PtrLease int    `json:"ptr_lease_s"`
	Steps    []struct {
		Op    string `json:"op"` // ask | shift | drop-a | drop-aaaa | drop-t | drop-ptr
		Route int    `json:"route"`
		Ms    int    `json:"ms"`
	} `json:"steps"`
}

// vC04RelaySeq numbers the generated relay histories: every third one is a PTR translation
var vC04RelaySeq int

func vC04Dns64Relay(out *vC04Out, r *rand.Rand, budget int, scn *vC04RelayScn) int {
	env := vC04NewEnv(0, 0, 600)
	defer env.close()
	k := env.k
	dcfg := &config.Config{}
	dcfg.DNS64 = config.DNS64Config{Enabled: true, Prefixes: []string{"2001:db8:64::/96"}}
	d := dns64.New(dcfg)
	if d == nil {
		panic("dns64 disabled")
	}
	d.SetQueryer(env.sub)
	name, target := "b64.c04.test.", "u64.c04.test."
	ptrQ, _ := dns.ReverseAddr("2001:db8:64::c000:221")
	ptrT, _ := dns.ReverseAddr("192.0.2.33")
	ttls := []uint32{1, 4, 7, 30, 60, 300, 601, 3600}
	p := scn
	generated := scn == nil
	if generated {
		rndLease := func() int {
			if r.Intn(3) == 0 {
				return 3 + r.Intn(100)
			}
			return 0
		}
		vC04RelaySeq++
		p = &vC04RelayScn{Mode: []string{"basis", "ptr", "basis"}[vC04RelaySeq%3], NegSOA: r.Intn(4) > 0, SoaTTL: ttls[r.Intn(len(ttls))], SoaMin: ttls[r.Intn(len(ttls))],
			NegLease: rndLease(), ABare: r.Intn(4) == 0, ASoaTTL: ttls[r.Intn(len(ttls))], ASoaMin: ttls[r.Intn(len(ttls))], ALease: rndLease(),
			Alias: r.Intn(3) == 0, CnameTTL: ttls[r.Intn(len(ttls))], TLease: rndLease(), PtrTTL: ttls[r.Intn(len(ttls))], PtrN: r.Intn(3), PtrLease: rndLease()}
	}
	ptr := p.Mode == "ptr"
	lease := func(sc *vC04Script, secs int) {
		if secs != 0 {
			sc.hasCut, sc.cut = true, k.now()+int64(time.Duration(secs)*time.Second)
		}
	}
	script := func() {
		if ptr {
			m := new(dns.Msg)
			m.SetQuestion(ptrT, dns.TypePTR)
			m.Response = true
			if p.PtrN == 0 {
				m.Rcode = dns.RcodeNameError
				m.Ns = []dns.RR{vC04SOA("2.0.192.in-addr.arpa.", p.PtrTTL, p.PtrTTL)}
			}
			for i := 0; i < p.PtrN; i++ {
				m.Answer = append(m.Answer, &dns.PTR{Hdr: dns.RR_Header{Name: ptrT, Rrtype: dns.TypePTR, Class: dns.ClassINET, Ttl: p.PtrTTL}, Ptr: fmt.Sprintf("host%d.c04.test.", i)})
			}
			sc := &vC04Script{resp: m}
			lease(sc, p.PtrLease)
			env.stub.script[ptrT+"|PTR"] = sc
			return
		}
		neg := new(dns.Msg)
		neg.SetQuestion(name, dns.TypeAAAA)
		neg.Response = true
		if p.NegSOA {
			neg.Ns = []dns.RR{vC04SOA("c04.test.", p.SoaTTL, p.SoaMin)}
		}
		sn := &vC04Script{resp: neg}
		lease(sn, p.NegLease)
		env.stub.script[name+"|AAAA"] = sn
		term := new(dns.Msg)
		term.Response = true
		if !p.ABare {
			term.Ns = []dns.RR{vC04SOA("c04.test.", p.ASoaTTL, p.ASoaMin)}
		}
		if p.Alias {
			a := new(dns.Msg)
			a.SetQuestion(name, dns.TypeA)
			a.Response = true
			a.Answer = []dns.RR{&dns.CNAME{Hdr: dns.RR_Header{Name: name, Rrtype: dns.TypeCNAME, Class: dns.ClassINET, Ttl: p.CnameTTL}, Target: target}}
			sa := &vC04Script{resp: a}
			lease(sa, p.ALease)
			env.stub.script[name] = sa
			term.SetQuestion(target, dns.TypeA)
			term.Response = true
			st := &vC04Script{resp: term}
			lease(st, p.TLease)
			env.stub.script[target] = st
		} else {
			term.SetQuestion(name, dns.TypeA)
			term.Response = true
			sa := &vC04Script{resp: term}
			lease(sa, p.ALease)
			env.stub.script[name] = sa
		}
	}
	script()
	keys := []uint64{vC04KeyT(name, dns.TypeAAAA), vC04KeyT(name, dns.TypeA), vC04KeyT(target, dns.TypeA), vC04KeyT(ptrT, dns.TypePTR)}
	drop := func(i int) {
		env.c.positive.Remove(keys[i])
		env.c.negative.Remove(keys[i])
	}
	emitted := 0
	nops := 5 + r.Intn(8)
	if !generated {
		nops = len(scn.Steps)
	}
	for op := 0; op < nops && emitted < budget; op++ {
		route := r.Intn(3)
		if !generated {
			st := scn.Steps[op]
			route = st.Route
			switch st.Op {
			case "shift":
				vC04Shift(env.c, k, time.Duration(st.Ms)*time.Millisecond)
				continue
			case "drop-aaaa":
				drop(0)
				continue
			case "drop-a":
				drop(1)
				continue
			case "drop-t":
				drop(2)
				continue
			case "drop-ptr":
				drop(3)
				continue
			case "ask":
			default:
				panic("corpus dns64relay.jsonl: unknown op " + st.Op)
			}
		} else {
			x := r.Intn(10)
			switch {
			case x == 0:
				script()
				continue
			case x == 1:
				drop(r.Intn(4)) // pieces of differing ages
				continue
			case x < 5:
				var ends []int64
				for _, key := range keys {
					if e := env.peek(key); e != nil {
						end := e.stored.Add(e.ttl)
						if !e.cutUntil.IsZero() && e.cutUntil.Before(end) {
							end = e.cutUntil
						}
						ends = append(ends, k.virt(end))
					}
				}
				now := k.now()
				tgt := now + int64(time.Duration(r.Intn(4000))*time.Millisecond)
				if len(ends) > 0 && r.Intn(3) > 0 {
					tgt = ends[r.Intn(len(ends))] + []int64{-2600, -1400, -300, 300}[r.Intn(4)]*int64(time.Millisecond)
				}
				if tgt > now {
					vC04Shift(env.c, k, time.Duration(tgt-now))
				}
				continue
			}
		}
		pre := make([]*CacheEntry, len(keys))
		for i, key := range keys {
			pre[i] = env.peek(key)
		}
		req := new(dns.Msg)
		if ptr {
			req.SetQuestion(ptrQ, dns.TypePTR)
		} else {
			req.SetQuestion(name, dns.TypeAAAA)
		}
		req.RecursionDesired = true
		writer := mock.NewWriter("udp", "198.51.100.77:40000")
		env.stub.calls = nil
		var ch *middleware.Chain
		ctx := context.Background()
		meta := new(middleware.ResponseMeta)
		switch route {
		case 0:
			ch = middleware.NewChain([]middleware.Handler{d, env.c, env.stub})
			ch.Reset(writer, req)
			ctx = middleware.WithResponseMeta(ctx, meta)
		case 1:
			ch = middleware.NewChain([]middleware.Handler{d, env.c, env.stub})
			ch.Reset(writer, req)
			meta = &ch.Meta
		default:
			req.SetEdns0(1232, false)
			raw, err := req.Pack()
			if err != nil {
				panic(err)
			}
			wreq := new(middleware.Request)
			if !wreq.ParseWire(raw, time.Now(), nil) {
				panic("wire request refused")
			}
			ch = middleware.NewChain([]middleware.Handler{env.e, d, env.c, env.stub})
			ch.ResetWire(writer, wreq)
			ch.AllowDirectPack()
			meta = nil
		}
		t0 := k.now()
		ch.Next(ctx)
		t1 := k.now()
		bobs := "None"
		if meta != nil {
			cut, _ := meta.Cut()
			bobs = "(Some " + vC04OZ(!cut.IsZero(), k.virt(cut)) + ")"
		}
		if !writer.Written() {
			continue
		}
		resp := writer.Msg()
		stubbed := map[string]bool{}
		for _, c := range env.stub.calls {
			stubbed[c] = true
		}
		live := func(e *CacheEntry) bool { return e != nil && e.remaining(k.real(t1)) > 0 }
		amb := false
		for _, e := range pre {
			if e == nil {
				continue
			}
			r0, r1 := e.remaining(k.real(t0)), e.remaining(k.real(t1))
			if (r0 > 0) != (r1 > 0) || (r0 > 0 && r0/time.Second != r1/time.Second) {
				amb = true
			}
		}
		// (the lease of a fresh answer is checked for the same ambiguity below, once it is known
		// which answers were fetched in this query)
		if amb {
			out.emit(map[string]any{"inconclusive": true})
			continue
		}
		// a consulted answer is fresh when its question reached the scripted downstream, otherwise
		// it is the snapshot entry; every record of the reply is attributed to the answer it is in
		type src struct {
			coq   string // the piece when it is a cache hit
			fresh *vC04Script
			e     *CacheEntry
			msg   *dns.Msg // the answer's records (script or stored message)
		}
		mk := func(i int, stubKey string) *src {
			if stubbed[stubKey] {
				sc := env.stub.script[stubKey]
				return &src{fresh: sc, msg: sc.resp}
			}
			if live(pre[i]) {
				return &src{e: pre[i], msg: pre[i].storedMsg(), coq: vC04PieceCoq(k, pre[i], 0, nil)}
			}
			return nil
		}
		var consulted []*src
		var gate *src
		if ptr {
			if s := mk(3, ptrT+"|PTR"); s != nil {
				consulted = append(consulted, s)
			}
		} else {
			gate = mk(0, name+"|AAAA")
			if gate == nil {
				continue
			}
			consulted = append(consulted, gate)
			if s := mk(1, name); s != nil {
				consulted = append(consulted, s)
			}
			// the alias chase (Cache.additionalAnswer) folds the target's answer into the request tree
			// where its records or its rcode reach the outer answer (`lineage.inherit()`: answer or
			// authority records, an adopted NXDOMAIN); a bare NOERROR answer at the target contributes
			// nothing to the reply and is not a piece of it (as in the tree model, Model.v `additional`)
			if s := mk(2, target); s != nil && p.Alias &&
				(len(s.msg.Answer) > 0 || len(s.msg.Ns) > 0 || s.msg.Rcode == dns.RcodeNameError) {
				consulted = append(consulted, s)
			}
		}
		// since 1a0e74f an A-basis reply is capped by the request tree's bound: a lease of a fresh
		// answer whose whole seconds left differ between the two readings of the bracket cannot be
		// attributed to one clock reading
		for _, s := range consulted {
			if s.fresh != nil && s.fresh.hasCut {
				l0, l1 := s.fresh.cut-t0, s.fresh.cut-t1
				if l0 < 0 {
					l0 = 0
				}
				if l1 < 0 {
					l1 = 0
				}
				if l0/int64(time.Second) != l1/int64(time.Second) {
					amb = true
				}
			}
		}
		if amb {
			out.emit(map[string]any{"inconclusive": true})
			continue
		}
		find := func(rr dns.RR) (string, bool) {
			for _, s := range consulted {
				if s == gate {
					continue
				}
				for _, sec := range [][]dns.RR{s.msg.Answer, s.msg.Ns, s.msg.Extra} {
					for _, x := range sec {
						if x.Header().Rrtype == rr.Header().Rrtype && strings.EqualFold(x.Header().Name, rr.Header().Name) {
							if s.fresh != nil {
								return vC04PieceCoq(k, nil, x.Header().Ttl, s.fresh), true
							}
							return s.coq, true
						}
					}
				}
			}
			return "", false
		}
		var obs, recs []string
		shape := true
		var relayed []dns.RR
		for si, sec := range [][]dns.RR{resp.Answer, resp.Ns, resp.Extra} {
			for i, rr := range sec {
				if rr.Header().Rrtype == dns.TypeOPT {
					continue
				}
				obs = append(obs, fmt.Sprint(rr.Header().Ttl))
				if ptr && si == 0 && i == 0 {
					if rr.Header().Rrtype != dns.TypeCNAME {
						shape = false
					}
					continue // the synthesised CNAME: no piece
				}
				pc, ok := find(rr)
				if !ok {
					shape = false
				}
				recs = append(recs, pc)
				relayed = append(relayed, rr)
			}
		}
		if !ptr {
			for _, rr := range resp.Answer {
				if t := rr.Header().Rrtype; t == dns.TypeAAAA || t == dns.TypeA {
					shape = false // not the A-basis shape
				}
			}
		}
		if !shape || len(obs) == 0 {
			if os.Getenv("VERIF_C04_DEBUG") != "" {
				fmt.Fprintf(os.Stderr, "relay: unattributed reply (mode %s route %d)\n%v\ncalls %v\n", p.Mode, route, resp, env.stub.calls)
			}
			continue
		}
		var cons []string
		for _, s := range consulted {
			if s.fresh != nil {
				cons = append(cons, vC04PieceCoq(k, nil, 0, s.fresh))
			} else {
				cons = append(cons, s.coq)
			}
		}
		// Go-side oracle (the statement): a relayed record never outlives the cached answer it was copied from
		fail := ""
		for _, rr := range relayed {
			for _, s := range consulted {
				if s.e == nil || s == gate {
					continue
				}
				in := false
				for _, sec := range [][]dns.RR{s.msg.Answer, s.msg.Ns, s.msg.Extra} {
					for _, x := range sec {
						if x.Header().Rrtype == rr.Header().Rrtype && strings.EqualFold(x.Header().Name, rr.Header().Name) {
							in = true
						}
					}
				}
				if left := s.e.remaining(k.real(t0)); in && time.Duration(rr.Header().Ttl)*time.Second > left {
					fail = fmt.Sprintf("relayed %s TTL %d exceeds the %v left of the cached answer it was copied from", dns.TypeToString[rr.Header().Rrtype], rr.Header().Ttl, left)
				}
			}
		}
		// ... and an A-basis reply is composed from every answer consulted: no relayed record outlives
		// the cached AAAA answer that gated it, any other cached answer of the A chase, or the lease a
		// fresh one was learned under (the former finding dns64-abasis-gate, repaired by 1a0e74f)
		if !ptr {
			for _, rr := range relayed {
				for _, s := range consulted {
					var left time.Duration
					what := ""
					switch {
					case s.e != nil:
						left, what = s.e.remaining(k.real(t0)), "a cached answer the reply was composed from"
						if s == gate {
							what = "the cached AAAA answer that gated it"
						}
					case s.fresh != nil && s.fresh.hasCut:
						left, what = time.Duration(s.fresh.cut-t0), "the lease a fresh answer was learned under"
						if left < 0 {
							left = 0
						}
					default:
						continue
					}
					if time.Duration(rr.Header().Ttl)*time.Second > left && fail == "" {
						fail = fmt.Sprintf("A-basis reply relays %s with TTL %d while %s has %v left", dns.TypeToString[rr.Header().Rrtype], rr.Header().Ttl, what, left)
					}
				}
			}
		}
		mode, kk := 0, fmt.Sprintf("dns64-basis-route%d", route)
		if ptr {
			mode, kk = 2, fmt.Sprintf("dns64-ptr-route%d", route)
			if len(relayed) == 0 {
				kk += "-cnameonly"
			}
		}
		if !generated {
			kk = "corpus-" + kk
		}
		gateCoq := "None"
		if gate != nil {
			if gate.fresh != nil {
				gateCoq = "(Some " + vC04PieceCoq(k, nil, 0, gate.fresh) + ")"
			} else {
				gateCoq = "(Some " + gate.coq + ")"
				kk += "-gatecached"
			}
		}
		for _, s := range consulted {
			if s != gate && s.e != nil {
				kk += "-cached"
				break
			}
		}
		if p.Alias && !ptr {
			kk += "-alias"
		}
		body := fmt.Sprintf("%s [%s] [%s] %s %s %s [%s]%%Z", gateCoq, strings.Join(recs, "; "), strings.Join(cons, "; "), vC04Z(t0), vC04Z(t1), bobs, strings.Join(obs, "; "))
		out.emit(map[string]any{"k": kk, "nontrivial": true, "go_fail": fail, "coq": fmt.Sprintf("CDns64Relay %d %s", mode, body),
			"desc": map[string]any{"route": route, "reply": resp.String(), "went_downstream": env.stub.calls}})
		emitted++
		// the gating AAAA answer contributes no record to an A-basis reply; whether the reply is
		// inside ITS lifetime is also judged by a twin case of its own (mode 1: that clause alone).
		// Until 1a0e74f these twins carried the fkey of finding dns64-abasis-gate; they are strict
		// regression cases now.
		if gate != nil && gate.e != nil {
			left := gate.e.remaining(k.real(t0))
			gfail := ""
			for _, rr := range relayed {
				if time.Duration(rr.Header().Ttl)*time.Second > left {
					gfail = fmt.Sprintf("A-basis reply relays %s with TTL %d while the cached AAAA answer that gated it has %v left", dns.TypeToString[rr.Header().Rrtype], rr.Header().Ttl, left)
				}
			}
			out.emit(map[string]any{"k": kk + "-gateclause", "nontrivial": true, "go_fail": gfail, "coq": fmt.Sprintf("CDns64Relay 1 %s", body),
				"desc": map[string]any{"route": route, "reply": resp.String(), "went_downstream": env.stub.calls}})
			emitted++
		}
	}
	if emitted == 0 {
		return 1
	}
	return emitted
}
