//go:build verif

package cache

// C01 driver C: the AD bit of a stored answer as served back to a request — the
// decoded path (CacheEntry.ToMsg) and the two byte paths (serveWireInto,
// serveWireIntoRequest) — for every combination of stored AD, the request's
// CD / DO / AD bits.

import (
	"context"
	"encoding/json"
	"fmt"
	"io"
	"math/rand"
	"net"
	"os"
	"path/filepath"
	"sort"
	"strings"
	"testing"
	"time"

	"github.com/miekg/dns"
	"github.com/semihalev/sdns/config"
	"github.com/semihalev/sdns/internal/dnsutil"
	"github.com/semihalev/sdns/internal/mock"
	"github.com/semihalev/sdns/middleware"
	"github.com/semihalev/sdns/middleware/edns"
	"github.com/semihalev/zlog/v2"
)

func TestVerifC01CacheAD(t *testing.T) {
	p := os.Getenv("VERIF_OUT")
	if p == "" {
		t.Skip("VERIF_OUT not set")
	}
	f, err := os.Create(p)
	if err != nil {
		t.Fatal(err)
	}
	defer f.Close()
	b := func(x bool) string {
		if x {
			return "true"
		}
		return "false"
	}
	for mask := 0; mask < 32; mask++ {
		stored, cd, do, ad := mask&1 != 0, mask&2 != 0, mask&4 != 0, mask&8 != 0
		negative := mask&16 != 0
		resp := new(dns.Msg)
		resp.SetQuestion("ad.c01.test.", dns.TypeA)
		resp.Response = true
		resp.RecursionAvailable = true
		resp.AuthenticatedData = stored
		if negative {
			resp.Rcode = dns.RcodeNameError
			resp.Ns = []dns.RR{&dns.SOA{Hdr: dns.RR_Header{Name: "c01.test.", Rrtype: dns.TypeSOA, Class: dns.ClassINET, Ttl: 300}, Ns: "ns.c01.test.", Mbox: "h.c01.test.", Serial: 1, Refresh: 1, Retry: 1, Expire: 1, Minttl: 60}}
		} else {
			resp.Answer = []dns.RR{&dns.A{Hdr: dns.RR_Header{Name: "ad.c01.test.", Rrtype: dns.TypeA, Class: dns.ClassINET, Ttl: 300}, A: net.IPv4(192, 0, 2, 7).To4()}}
		}
		e := NewCacheEntry(resp, 300*time.Second, 0)
		if e == nil {
			continue
		}
		req := new(dns.Msg)
		req.SetQuestion("ad.c01.test.", dns.TypeA)
		req.CheckingDisabled, req.AuthenticatedData = cd, ad
		req.SetEdns0(1232, do)
		emit := func(path string, got bool) {
			rec, _ := json.Marshal(map[string]any{"k": "cache-" + path, "nontrivial": true,
				"coq":  fmt.Sprintf("CaseCacheAD (mk_creq %s %s %s) %s %s", b(cd), b(do), b(ad), b(stored), b(got)),
				"desc": map[string]any{"stored_ad": stored, "cd": cd, "do": do, "ad": ad, "negative": negative, "path": path, "served_ad": got}})
			f.Write(append(rec, '\n'))
		}
		if m := e.ToMsg(req); m != nil {
			emit("tomsg", m.AuthenticatedData)
		}
		dst := make([]byte, 0, 4096)
		if body, info, ok := e.serveWireInto(dst, req, do); ok {
			m := new(dns.Msg)
			if m.Unpack(body) == nil {
				emit("wire-msg", m.AuthenticatedData || info.AuthenticatedData)
			}
		}
		raw, _ := req.Pack()
		wr := new(middleware.Request)
		if wr.ParseWire(raw, time.Now(), nil) {
			dst2 := make([]byte, 0, 4096)
			if body, info, ok := e.serveWireIntoRequest(dst2, wr, do); ok {
				m := new(dns.Msg)
				if m.Unpack(body) == nil {
					emit("wire-request", m.AuthenticatedData || info.AuthenticatedData)
				}
			}
		}
	}
}

// ---- alias chains composed from several entries, through edns + cache ----

type vC01MissStub struct{ hit bool }

func (s *vC01MissStub) Name() string { return "verifmiss" }
func (s *vC01MissStub) ServeDNS(ctx context.Context, ch *middleware.Chain) {
	s.hit = true
	_, req := ch.Materialize(ctx)
	if req != nil {
		_ = ch.Writer.WriteMsg(dnsutil.SetRcode(req, dns.RcodeServerFailure, false))
	}
}

// internal chase of the decoded path: served by the same cache, never by an upstream
type vC01SelfQueryer struct{ c *Cache }

func (q vC01SelfQueryer) Query(ctx context.Context, req *dns.Msg) (*dns.Msg, error) {
	stub := &vC01MissStub{}
	ch := middleware.NewChain([]middleware.Handler{q.c, stub})
	w := mock.NewWriter("tcp", "127.0.0.255:0")
	ch.Reset(w, req)
	ch.Next(middleware.MarkInternal(ctx))
	if stub.hit || w.Msg() == nil {
		return nil, middleware.ErrNoResponse
	}
	return w.Msg(), nil
}

func TestVerifC01CacheChain(t *testing.T) {
	p := os.Getenv("VERIF_OUT")
	if p == "" {
		t.Skip("VERIF_OUT not set")
	}
	f, err := os.Create(p)
	if err != nil {
		t.Fatal(err)
	}
	defer f.Close()
	seed := int64(1)
	fmt.Sscan(os.Getenv("VERIF_SEED"), &seed)
	n := 300
	fmt.Sscan(os.Getenv("VERIF_N"), &n)
	r := rand.New(rand.NewSource(seed*613 + 11))
	b := func(x bool) string {
		if x {
			return "true"
		}
		return "false"
	}
	logger := zlog.NewStructured()
	logger.SetWriter(zlog.NewTerminalWriter(io.Discard))
	logger.SetLevel(zlog.LevelFatal)
	zlog.SetDefault(logger)
	type chainCase struct {
		Hops                     []bool
		Signed, Do, Cd, Ad, Wire bool
	}
	var corpus []chainCase
	if dir := os.Getenv("VERIF_CORPUS"); dir != "" {
		files, _ := filepath.Glob(filepath.Join(dir, "chain-*.json"))
		sort.Strings(files)
		for _, fn := range files {
			raw, err := os.ReadFile(fn)
			var c chainCase
			if err == nil && json.Unmarshal(raw, &c) == nil && len(c.Hops) >= 2 {
				corpus = append(corpus, c)
			}
		}
	}
	for i := -len(corpus); i < n; i++ {
		var forced *chainCase
		if i < 0 {
			forced = &corpus[i+len(corpus)]
		}
		cfg := new(config.Config)
		cfg.CacheSize = 1024
		cfg.Expire = 600
		cfg.DNSSEC = "on"
		c := New(cfg)
		c.SetQueryer(vC01SelfQueryer{c: c})
		e := edns.New(cfg)
		hopsN := 1 + r.Intn(3)
		signed := r.Intn(2) == 0
		var hops []bool
		var hopsCoq []string
		do, cd, ad, wire := r.Intn(2) == 0, r.Intn(5) == 0, r.Intn(3) == 0, r.Intn(2) == 0
		if forced != nil {
			hopsN, signed, do, cd, ad, wire = len(forced.Hops)-1, forced.Signed, forced.Do, forced.Cd, forced.Ad, forced.Wire
		}
		for h := 0; h <= hopsN; h++ {
			name := fmt.Sprintf("h%d.chain%d.c01.test.", h, i)
			v := r.Intn(3) != 0
			if forced != nil {
				v = forced.Hops[h]
			}
			hops = append(hops, v)
			hopsCoq = append(hopsCoq, b(v))
			q := new(dns.Msg)
			q.SetQuestion(name, dns.TypeA)
			m := new(dns.Msg)
			m.SetReply(q)
			m.RecursionAvailable = true
			m.AuthenticatedData = v
			var rr dns.RR
			if h < hopsN {
				rr = &dns.CNAME{Hdr: dns.RR_Header{Name: name, Rrtype: dns.TypeCNAME, Class: dns.ClassINET, Ttl: 300}, Target: fmt.Sprintf("h%d.chain%d.c01.test.", h+1, i)}
			} else {
				rr = &dns.A{Hdr: dns.RR_Header{Name: name, Rrtype: dns.TypeA, Class: dns.ClassINET, Ttl: 300}, A: net.IPv4(192, 0, 2, byte(h+1)).To4()}
			}
			m.Answer = []dns.RR{rr}
			if signed && v {
				m.Answer = append(m.Answer, &dns.RRSIG{Hdr: dns.RR_Header{Name: name, Rrtype: dns.TypeRRSIG, Class: dns.ClassINET, Ttl: 300}, TypeCovered: rr.Header().Rrtype, Algorithm: 13, Labels: 4, OrigTtl: 300,
					Expiration: 2114380800, Inception: 1767225600, KeyTag: 7, SignerName: "c01.test.", Signature: "ZmFrZXNpZ25hdHVyZQ=="})
			}
			for _, keyCD := range []bool{false, true} {
				mm := m.Copy()
				mm.CheckingDisabled = keyCD
				c.store.SetFromResponseWithKey(CacheKey{Question: m.Question[0], CD: keyCD}.Hash(), mm, time.Time{}, 0)
			}
		}
		req := new(dns.Msg)
		req.SetQuestion(fmt.Sprintf("h0.chain%d.c01.test.", i), dns.TypeA)
		req.RecursionDesired = true
		req.CheckingDisabled, req.AuthenticatedData = cd, ad
		req.SetEdns0(1232, do)
		stub := &vC01MissStub{}
		ch := middleware.NewChain([]middleware.Handler{e, c, stub})
		w := mock.NewWriter("udp", "198.51.100.77:40000")
		path := "msg"
		if wire {
			raw, _ := req.Pack()
			wr := new(middleware.Request)
			if wr.ParseWire(raw, time.Now(), nil) {
				ch.ResetWire(w, wr)
				ch.AllowDirectPack()
				path = "wire-born"
			} else {
				ch.Reset(w, req)
			}
		} else {
			ch.Reset(w, req)
			if r.Intn(2) == 0 {
				ch.AllowDirectPack()
				path = "msg-directpack"
			}
		}
		before := wireChaseServed.Value()
		ch.Next(context.Background())
		m := w.Msg()
		c.Stop()
		if stub.hit || m == nil || m.Rcode != dns.RcodeSuccess {
			continue
		}
		composed := "single"
		if wireChaseServed.Value() != before {
			composed = "wire-chase"
		}
		sawTarget := false
		for _, rr := range m.Answer {
			if rr.Header().Rrtype == dns.TypeA {
				sawTarget = true
			}
		}
		if !sawTarget {
			continue // only the first hop was served: its own verdict applies, covered by the entry cases
		}
		rec, _ := json.Marshal(map[string]any{"k": "chain-" + path + "-" + composed, "nontrivial": true,
			"coq":  fmt.Sprintf("CaseChainAD (mk_creq %s %s %s) [%s] %s", b(cd), b(do), b(ad), strings.Join(hopsCoq, ";"), b(m.AuthenticatedData)),
			"desc": map[string]any{"hops_validated": hops, "signed": signed, "do": do, "cd": cd, "ad": ad, "path": path, "composed": composed, "client_sees_ad": m.AuthenticatedData, "answer": fmt.Sprint(m.Answer)}})
		f.Write(append(rec, '\n'))
	}
}
