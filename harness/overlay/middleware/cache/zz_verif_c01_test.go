//go:build verif

package cache

// C01 driver C: the AD bit of a stored answer as served back to a request — the
// decoded path (CacheEntry.ToMsg) and the two byte paths (serveWireInto,
// serveWireIntoRequest) — for every combination of stored AD, the request's
// CD / DO / AD bits.

import (
	"encoding/json"
	"fmt"
	"net"
	"os"
	"testing"
	"time"

	"github.com/miekg/dns"
	"github.com/semihalev/sdns/middleware"
)

func TestVerifC01CacheAD(t *testing.T) {
	p := os.Getenv("VERIF_OUT")
	if p == "" {
		t.Skip("VERIF_OUT not set")
	}
	f, err := os.Create(p)
	if err != nil {
		t.Fatal(err)
	}
	defer f.Close()
	b := func(x bool) string {
		if x {
			return "true"
		}
		return "false"
	}
	for mask := 0; mask < 32; mask++ {
		stored, cd, do, ad := mask&1 != 0, mask&2 != 0, mask&4 != 0, mask&8 != 0
		negative := mask&16 != 0
		resp := new(dns.Msg)
		resp.SetQuestion("ad.c01.test.", dns.TypeA)
		resp.Response = true
		resp.RecursionAvailable = true
		resp.AuthenticatedData = stored
		if negative {
			resp.Rcode = dns.RcodeNameError
			resp.Ns = []dns.RR{&dns.SOA{Hdr: dns.RR_Header{Name: "c01.test.", Rrtype: dns.TypeSOA, Class: dns.ClassINET, Ttl: 300}, Ns: "ns.c01.test.", Mbox: "h.c01.test.", Serial: 1, Refresh: 1, Retry: 1, Expire: 1, Minttl: 60}}
		} else {
			resp.Answer = []dns.RR{&dns.A{Hdr: dns.RR_Header{Name: "ad.c01.test.", Rrtype: dns.TypeA, Class: dns.ClassINET, Ttl: 300}, A: net.IPv4(192, 0, 2, 7).To4()}}
		}
		e := NewCacheEntry(resp, 300*time.Second, 0)
		if e == nil {
			continue
		}
		req := new(dns.Msg)
		req.SetQuestion("ad.c01.test.", dns.TypeA)
		req.CheckingDisabled, req.AuthenticatedData = cd, ad
		req.SetEdns0(1232, do)
		emit := func(path string, got bool) {
			rec, _ := json.Marshal(map[string]any{"k": "cache-" + path, "nontrivial": true,
				"coq":  fmt.Sprintf("CaseCacheAD (mk_creq %s %s %s) %s %s", b(cd), b(do), b(ad), b(stored), b(got)),
				"desc": map[string]any{"stored_ad": stored, "cd": cd, "do": do, "ad": ad, "negative": negative, "path": path, "served_ad": got}})
			f.Write(append(rec, '\n'))
		}
		if m := e.ToMsg(req); m != nil {
			emit("tomsg", m.AuthenticatedData)
		}
		dst := make([]byte, 0, 4096)
		if body, info, ok := e.serveWireInto(dst, req, do); ok {
			m := new(dns.Msg)
			if m.Unpack(body) == nil {
				emit("wire-msg", m.AuthenticatedData || info.AuthenticatedData)
			}
		}
		raw, _ := req.Pack()
		wr := new(middleware.Request)
		if wr.ParseWire(raw, time.Now(), nil) {
			dst2 := make([]byte, 0, 4096)
			if body, info, ok := e.serveWireIntoRequest(dst2, wr, do); ok {
				m := new(dns.Msg)
				if m.Unpack(body) == nil {
					emit("wire-request", m.AuthenticatedData || info.AuthenticatedData)
				}
			}
		}
	}
}
