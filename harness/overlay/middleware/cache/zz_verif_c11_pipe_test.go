//go:build verif

package cache

// C11 driver (c): the REAL Cache.ServeDNS dedup loop (real WaitGroup with its
// 15 s bound, real LazyDeadline request contexts, real base response writer)
// in front of a scripted downstream handler, run inside a testing/synctest
// bubble: time is virtual, so request deadlines, the generation bound and the
// RFC 9520 failure TTL all elapse deterministically and instantly, and
// synctest.Wait() is an exact "everything that can run has run" barrier.
//
// A scenario is a set of requests (question, deadline, what the downstream
// does when this request reaches it: answer / plain SERVFAIL / request-local
// SERVFAIL / two writes; immediately, when released, or when its context
// ends) and a timeline of arrivals, client cancellations and releases, for
// plain misses, expired exact-failure probes and expired zone-failure probes.
// Recorded per request: how many writes reached its transport, the class of
// the reply, whether it ran the downstream handler, when the reply was written.
// The Coq model replays the same timeline.

import (
	"context"
	"encoding/json"
	"fmt"
	"math/rand"
	"net"
	"os"
	"sort"
	"strconv"
	"strings"
	"sync"
	"sync/atomic"
	"testing"
	"testing/synctest"
	"time"

	"github.com/miekg/dns"
	"github.com/semihalev/sdns/config"
	"github.com/semihalev/sdns/internal/contextutil"
	"github.com/semihalev/sdns/internal/dnsutil"
	"github.com/semihalev/sdns/middleware"
)

func vC11PEnvInt(name string, def int) int {
	if s := os.Getenv(name); s != "" {
		if n, err := strconv.Atoi(s); err == nil {
			return n
		}
	}
	return def
}

type vC11Att struct {
	code  int // 0 answer, 2 SERVFAIL
	local bool
}

const (
	vC11HoldNone = iota
	vC11HoldRelease
	vC11HoldCtx
)

type vC11Req struct {
	name     int
	internal bool
	arrive   int // ms
	timeout  int // ms
	hold     int
	atts     []vC11Att
	cancelAt int // -1 none
	release  int // -1 none (released at the end)
	racy     bool
	late     bool // its context's cancellation signal comes last within the deadline's instant (see vC11LateCtx)

	// run state
	lctx      *vC11LateCtx
	lateFired bool
	mu       sync.Mutex
	writes   int
	class    int
	wtime    int
	called   atomic.Bool
	relCh    chan struct{}
	relOnce  sync.Once
	cancel   context.CancelFunc
	done     chan struct{}
	start    time.Time
	endAt    int
}

// vC11LateCtx is a request context whose timer is late: at the instant of its deadline the clock
// has reached Deadline() while Err() is still nil and Done() still open, until the driver fires it -
// after everything else that happens at that instant has settled. It stands for a materialised
// deadline context whose timer goroutine the scheduler runs last in its turn (the boundary
// contextutil.EffectiveError exists for). In virtual time nothing moves: a correct reader of the
// context (EffectiveError) sees the expiry at the deadline's instant either way.
type vC11LateCtx struct {
	deadline time.Time
	mu       sync.Mutex
	done     chan struct{}
	err      error
}

func (c *vC11LateCtx) Deadline() (time.Time, bool) { return c.deadline, true }
func (c *vC11LateCtx) Done() <-chan struct{}       { return c.done }
func (c *vC11LateCtx) Value(any) any               { return nil }
func (c *vC11LateCtx) Err() error {
	c.mu.Lock()
	defer c.mu.Unlock()
	return c.err
}
func (c *vC11LateCtx) fire(err error) {
	c.mu.Lock()
	if c.err == nil {
		c.err = err
		close(c.done)
	}
	c.mu.Unlock()
}

type vC11PTransport struct {
	rq *vC11Req
}

func (t *vC11PTransport) LocalAddr() net.Addr { return &net.UDPAddr{IP: net.IPv4(127, 0, 0, 1), Port: 53} }
func (t *vC11PTransport) RemoteAddr() net.Addr {
	return &net.UDPAddr{IP: net.IPv4(192, 0, 2, 10), Port: 40000}
}
func (t *vC11PTransport) Close() error   { return nil }
func (t *vC11PTransport) Internal() bool { return t.rq.internal }
func (t *vC11PTransport) record(m *dns.Msg) {
	rq := t.rq
	rq.mu.Lock()
	defer rq.mu.Unlock()
	rq.writes++
	if rq.writes > 1 {
		return
	}
	rq.wtime = int(time.Since(rq.start) / time.Millisecond)
	rq.class = vC11Classify(m)
}
func (t *vC11PTransport) WriteMsg(m *dns.Msg) error { t.record(m); return nil }
func (t *vC11PTransport) Write(b []byte) (int, error) {
	m := new(dns.Msg)
	if err := m.Unpack(b); err != nil {
		m = nil
	}
	t.record(m)
	return len(b), nil
}

func vC11Classify(m *dns.Msg) int {
	if m == nil {
		return 9
	}
	if m.Rcode == dns.RcodeSuccess {
		return 1
	}
	if m.Rcode != dns.RcodeServerFailure {
		return 8
	}
	ede := dnsutil.GetEDE(m)
	switch {
	case ede == nil:
		return 2
	case ede.InfoCode == dns.ExtendedErrorCodeNoReachableAuthority && ede.ExtraText == "Query timeout exceeded":
		return 3
	case ede.InfoCode == dns.ExtendedErrorCodeOther && ede.ExtraText == failureProbeLimitEDEText:
		return 4
	case ede.InfoCode == dns.ExtendedErrorCodeCachedError:
		return 5
	default:
		return 2
	}
}

type vC11Event struct {
	t    int
	kind int // 0 arrive, 1 cancel, 2 release, 3 zonefail
	idx  int
}

type vC11Scenario struct {
	family int // 0 plain, 1 exact-failure probe, 2 zone-failure probe
	reqs   []*vC11Req
	events []vC11Event
}

func vC11GenScenario(r *rand.Rand) *vC11Scenario {
	sc := &vC11Scenario{family: r.Intn(3)}
	if r.Intn(3) == 0 {
		sc.family = 0
	}
	used := map[int]bool{}
	pick := func(lo, hi int) int {
		for {
			t := lo + r.Intn(hi-lo)
			if !used[t] {
				used[t] = true
				return t
			}
		}
	}
	timeouts := []int{40, 90, 150, 400, 1200, 21000, 60000}
	base := 1
	add := func(rq *vC11Req) int {
		sc.reqs = append(sc.reqs, rq)
		return len(sc.reqs) - 1
	}
	if sc.family == 1 {
		// seed an exact failure for question 0 and let it expire
		i := add(&vC11Req{name: 0, arrive: 1, timeout: 60000, hold: vC11HoldNone, atts: []vC11Att{{2, false}}, cancelAt: -1, release: -1})
		used[1] = true
		sc.events = append(sc.events, vC11Event{1, 0, i})
		base = 5002 + r.Intn(3000)
		if r.Intn(6) == 0 {
			base = 4000 // still active: hits
		}
	}
	if sc.family == 2 {
		sc.events = append(sc.events, vC11Event{0, 3, 0})
		base = 5001 + r.Intn(3000)
		if r.Intn(6) == 0 {
			base = 3000
		}
	}
	nreq := 1 + r.Intn(6)
	// what every non-first request does downstream (identical so that a re-election's
	// winner does not change the multiset of outcomes)
	followAtts := []vC11Att{{0, false}}
	if r.Intn(2) == 0 {
		followAtts = []vC11Att{{2, true}}
	}
	sameName := r.Intn(2) == 0
	longWait := r.Intn(5) == 0 // the leader stays stuck past the 15 s generation bound
	// templates that aim at one mechanism
	coincide := r.Intn(7) == 0                    // followers' deadlines fall on the very instant the leader ends
	probeLimit := sc.family != 0 && r.Intn(3) == 0 // failed probe, failed re-elected probe, the rest is shed
	if probeLimit {
		followAtts = []vC11Att{{2, true}}
		nreq = 4 + r.Intn(4)
		longWait = false
		coincide = false
	}
	for i := 0; i < nreq; i++ {
		rq := &vC11Req{cancelAt: -1, release: -1}
		switch sc.family {
		case 0:
			rq.name = 0
			if r.Intn(5) == 0 {
				rq.name = 1
			}
		case 1:
			rq.name = 0
			if r.Intn(8) == 0 {
				rq.name = 1
			}
		case 2:
			if sameName {
				rq.name = 0
			} else {
				rq.name = i
			}
		}
		rq.arrive = pick(base, base+300)
		rq.timeout = timeouts[r.Intn(len(timeouts))]
		if longWait && r.Intn(2) == 0 {
			rq.timeout = 60000
		}
		rq.internal = r.Intn(25) == 0
		if r.Intn(12) == 0 && !probeLimit {
			rq.timeout = 0 // the budget is already gone when the request reaches the cache
		}
		if i == 0 {
			switch r.Intn(10) {
			case 0:
				rq.hold = vC11HoldNone
			case 1, 2:
				rq.hold = vC11HoldCtx
			default:
				rq.hold = vC11HoldRelease
			}
			switch r.Intn(8) {
			case 0, 1:
				rq.atts = []vC11Att{{0, false}}
			case 2, 3:
				rq.atts = []vC11Att{{2, true}}
			case 4, 5:
				rq.atts = []vC11Att{{2, false}}
			case 6:
				rq.atts = []vC11Att{{0, false}, {2, false}}
			default:
				rq.atts = []vC11Att{{2, true}, {0, false}}
			}
			if rq.hold == vC11HoldCtx {
				rq.atts = []vC11Att{{2, true}}
			}
			if coincide {
				// a resolution that ends exactly at its own deadline, with an answer or a failure
				rq.hold = vC11HoldCtx
				rq.timeout = 400
				if r.Intn(2) == 0 {
					rq.atts = []vC11Att{{0, false}}
				}
			}
			if probeLimit {
				rq.hold = vC11HoldRelease
				rq.atts = []vC11Att{{2, true}}
				rq.timeout = 60000
				rq.internal = false
			}
			if sc.family != 0 && len(rq.atts) > 1 {
				rq.atts = rq.atts[:1]
			}
			if rq.hold == vC11HoldRelease {
				if longWait {
					rq.release = pick(base+16000, base+19000)
				} else {
					rq.release = pick(base+10, base+500)
				}
			}
		} else {
			rq.hold = vC11HoldNone
			rq.atts = followAtts
			rq.racy = true
			if probeLimit && r.Intn(4) != 0 {
				rq.timeout = 60000
			}
		}
		if coincide && i > 0 && r.Intn(2) == 0 {
			lead := sc.reqs[len(sc.reqs)-i]
			if d := lead.arrive + lead.timeout - rq.arrive; d > 0 {
				rq.timeout = d
			}
		}
		if r.Intn(6) == 0 && !(coincide && i == 0) {
			// the client goes away strictly before its own deadline
			lim := rq.timeout
			if lim > 600 {
				lim = 600
			}
			if lim > 3 {
				rq.cancelAt = pick(rq.arrive+1, rq.arrive+lim-1)
			}
		}
		idx := add(rq)
		sc.events = append(sc.events, vC11Event{rq.arrive, 0, idx})
		if rq.cancelAt >= 0 {
			sc.events = append(sc.events, vC11Event{rq.cancelAt, 1, idx})
		}
		if rq.release >= 0 {
			sc.events = append(sc.events, vC11Event{rq.release, 2, idx})
		}
	}
	// the first arrival after the set-up must be the scripted "first" request
	// only by chance; that is fine: scripts belong to requests, not roles.
	sort.SliceStable(sc.events, func(a, b int) bool { return sc.events[a].t < sc.events[b].t })
	// late timers: only where the order inside the deadline's instant cannot change what the model
	// computes - the request is never cancelled by its client and no downstream waits on its context
	for _, rq := range sc.reqs {
		if rq.cancelAt < 0 && rq.hold != vC11HoldCtx && r.Intn(3) == 0 {
			rq.late = true
		}
	}
	return sc
}

// corpus/C11/pipe.json: fixed scenarios of the plain family, replayed first on every run
type vC11PCorpusReq struct {
	Name     int     `json:"name"`
	Arrive   int     `json:"arrive"`
	Timeout  int     `json:"timeout"`
	Hold     int     `json:"hold"`
	Atts     [][]int `json:"atts"` // [code, local]
	CancelAt int     `json:"cancel_at"`
	Release  int     `json:"release"`
	Late     bool    `json:"late"`
}
type vC11PCorpusEntry struct {
	Note string           `json:"note"`
	Reqs []vC11PCorpusReq `json:"reqs"`
}

func vC11PCorpus() []*vC11Scenario {
	dir := os.Getenv("VERIF_CORPUS")
	if dir == "" {
		return nil
	}
	b, err := os.ReadFile(dir + "/pipe.json")
	if err != nil {
		return nil
	}
	var es []vC11PCorpusEntry
	if json.Unmarshal(b, &es) != nil {
		return nil
	}
	var out []*vC11Scenario
	for _, e := range es {
		sc := &vC11Scenario{family: 0}
		for i, q := range e.Reqs {
			rq := &vC11Req{name: q.Name, arrive: q.Arrive, timeout: q.Timeout, hold: q.Hold, cancelAt: q.CancelAt, release: q.Release,
				late: q.Late && q.CancelAt < 0 && q.Hold != vC11HoldCtx}
			for _, a := range q.Atts {
				if len(a) == 2 {
					rq.atts = append(rq.atts, vC11Att{a[0], a[1] != 0})
				}
			}
			sc.reqs = append(sc.reqs, rq)
			sc.events = append(sc.events, vC11Event{rq.arrive, 0, i})
			if rq.cancelAt >= 0 {
				sc.events = append(sc.events, vC11Event{rq.cancelAt, 1, i})
			}
			if rq.release >= 0 {
				sc.events = append(sc.events, vC11Event{rq.release, 2, i})
			}
		}
		sort.SliceStable(sc.events, func(a, b int) bool { return sc.events[a].t < sc.events[b].t })
		out = append(out, sc)
	}
	return out
}

func vC11HoldName(h int) string {
	return []string{"HNone", "HUntilRelease", "HUntilCtx"}[h]
}

func TestVerifC11Pipe(t *testing.T) {
	out := os.Getenv("VERIF_OUT")
	if out == "" {
		t.Skip("VERIF_OUT not set")
	}
	f, err := os.Create(out)
	if err != nil {
		t.Fatal(err)
	}
	defer f.Close()
	seed := int64(vC11PEnvInt("VERIF_SEED", 1))
	n := vC11PEnvInt("VERIF_N", 200)
	r := rand.New(rand.NewSource(seed*15485863 + 3))
	corpus := vC11PCorpus()
	for c := 0; c < n; c++ {
		sc := vC11GenScenario(r)
		if c < len(corpus) {
			sc = corpus[c]
		}
		var coqEvents []string
		var downCalls atomic.Int64
		goFail := ""
		synctest.Test(t, func(t *testing.T) {
			cch := New(&config.Config{CacheSize: 1024})
			defer cch.Stop()
			start := time.Now()
			down := middleware.HandlerFunc(func(ctx context.Context, ch *middleware.Chain) {
				req := ch.Request.Msg()
				rq := sc.reqs[int(req.Id)-1]
				rq.called.Store(true)
				downCalls.Add(1)
				switch rq.hold {
				case vC11HoldRelease:
					<-rq.relCh
				case vC11HoldCtx:
					<-ctx.Done()
				}
				for _, a := range rq.atts {
					resp := new(dns.Msg)
					resp.SetReply(req)
					resp.RecursionAvailable = true
					if a.code == 0 {
						resp.Answer = []dns.RR{&dns.A{Hdr: dns.RR_Header{Name: req.Question[0].Name, Rrtype: dns.TypeA, Class: dns.ClassINET, Ttl: 3000}, A: net.IPv4(192, 0, 2, 1)}}
					} else {
						resp.Rcode = dns.RcodeServerFailure
						resp.SetEdns0(1232, false)
						dnsutil.SetEDE(resp, dns.ExtendedErrorCodeNetworkError, "scripted failure")
						if a.local {
							lctx, _ := middleware.EnsureResolutionAttemptGuard(ctx)
							middleware.MarkRequestLocalFailureResponse(lctx, resp, middleware.ErrResolutionAttemptLimit)
						}
					}
					_ = ch.Writer.WriteMsg(resp)
				}
				ch.Cancel()
			})
			for _, rq := range sc.reqs {
				rq.relCh = make(chan struct{})
				rq.start = start
			}
			now := 0
			// fire the late contexts whose deadline has been reached, one at a time (earliest
			// deadline, then lowest index), letting everything settle in between
			fireLate := func(upTo int) {
				for {
					best := -1
					for i, rq := range sc.reqs {
						if rq.lctx != nil && !rq.lateFired && rq.arrive+rq.timeout <= upTo &&
							(best < 0 || rq.arrive+rq.timeout < sc.reqs[best].arrive+sc.reqs[best].timeout) {
							best = i
						}
					}
					if best < 0 {
						return
					}
					sc.reqs[best].lateFired = true
					sc.reqs[best].lctx.fire(context.DeadlineExceeded)
					synctest.Wait()
				}
			}
			sleepTo := func(ms int) {
				if ms > now {
					fireLate(now) // the end of the current instant
					for {
						next := -1
						for _, rq := range sc.reqs {
							if d := rq.arrive + rq.timeout; rq.lctx != nil && !rq.lateFired && d > now && d < ms && (next < 0 || d < next) {
								next = d
							}
						}
						if next < 0 {
							break
						}
						time.Sleep(start.Add(time.Duration(next) * time.Millisecond).Sub(time.Now()))
						now = next
						synctest.Wait()
						fireLate(next)
					}
					time.Sleep(start.Add(time.Duration(ms) * time.Millisecond).Sub(time.Now()))
					now = ms
					synctest.Wait()
					coqEvents = append(coqEvents, fmt.Sprintf("EAdvance %d", ms))
				}
			}
			launch := func(idx int) {
				rq := sc.reqs[idx]
				rq.done = make(chan struct{})
				parent, cancel := context.WithCancel(context.Background())
				rq.cancel = cancel
				msg := new(dns.Msg)
				msg.SetQuestion(fmt.Sprintf("n%d.dead.example.", rq.name), dns.TypeA)
				msg.Id = uint16(idx + 1)
				msg.SetEdns0(1232, false)
				deadline := start.Add(time.Duration(rq.arrive+rq.timeout) * time.Millisecond)
				if rq.late {
					cancel()
					lc := &vC11LateCtx{deadline: deadline, done: make(chan struct{})}
					rq.lctx = lc
					rq.cancel = func() { lc.fire(context.Canceled) }
					go func() {
						defer close(rq.done)
						defer func() { rq.endAt = int(time.Since(start) / time.Millisecond) }()
						ch := middleware.NewChain([]middleware.Handler{cch, down})
						ch.Reset(&vC11PTransport{rq: rq}, msg)
						ch.Next(lc)
					}()
					return
				}
				go func() {
					defer close(rq.done)
					defer func() { rq.endAt = int(time.Since(start) / time.Millisecond) }()
					ctx := contextutil.WithLazyDeadline(parent, deadline)
					defer ctx.Cancel()
					ch := middleware.NewChain([]middleware.Handler{cch, down})
					ch.Reset(&vC11PTransport{rq: rq}, msg)
					ch.Next(ctx)
				}()
			}
			for _, ev := range sc.events {
				sleepTo(ev.t)
				switch ev.kind {
				case 0:
					launch(ev.idx)
					coqEvents = append(coqEvents, fmt.Sprintf("EArrive %d", ev.idx))
				case 1:
					if sc.reqs[ev.idx].cancel == nil {
						t.Fatal("cancel before arrival")
					}
					sc.reqs[ev.idx].cancel()
					coqEvents = append(coqEvents, fmt.Sprintf("ECancel %d", ev.idx))
				case 2:
					rq := sc.reqs[ev.idx]
					rq.relOnce.Do(func() { close(rq.relCh) })
					coqEvents = append(coqEvents, fmt.Sprintf("ERelease %d", ev.idx))
				case 3:
					cch.store.RecordZoneFailure(dns.Question{Name: "seed.dead.example.", Qtype: dns.TypeA, Qclass: dns.ClassINET}, "dead.example.")
					coqEvents = append(coqEvents, "EZoneFail")
				}
				synctest.Wait()
			}
			sleepTo(now + 100000)
			for i, rq := range sc.reqs {
				if rq.hold == vC11HoldRelease {
					fired := false
					rq.relOnce.Do(func() { close(rq.relCh); fired = true })
					if fired {
						coqEvents = append(coqEvents, fmt.Sprintf("ERelease %d", i))
						synctest.Wait()
					}
				}
			}
			synctest.Wait()
			for i, rq := range sc.reqs {
				select {
				case <-rq.done:
				default:
					goFail = fmt.Sprintf("request %d still running after every deadline, bound and release", i)
					rq.cancel()
				}
			}
			synctest.Wait()
		})
		var reqCoq, obsCoq []string
		var desc []map[string]any
		nontrivial := false
		for i, rq := range sc.reqs {
			var atts []string
			for _, a := range rq.atts {
				atts = append(atts, fmt.Sprintf("mk_att %d %v", a.code, a.local))
			}
			deadline := rq.arrive + rq.timeout
			reqCoq = append(reqCoq, fmt.Sprintf("new_preq %d %v %d %s [%s]", rq.name, rq.internal, deadline, vC11HoldName(rq.hold), strings.Join(atts, "; ")))
			cancelled := rq.cancelAt >= 0
			expired := rq.writes > 0 && rq.wtime >= deadline
			obsCoq = append(obsCoq, fmt.Sprintf("mk_pobs %d %d %v %v %v %d %v %d", rq.writes, rq.class, rq.called.Load(), cancelled, expired, rq.wtime, rq.racy, rq.endAt))
			desc = append(desc, map[string]any{"i": i, "q": rq.name, "arrive": rq.arrive, "deadline": deadline, "hold": vC11HoldName(rq.hold), "atts": fmt.Sprint(rq.atts),
				"cancel_at": rq.cancelAt, "release_at": rq.release, "late_timer": rq.late, "writes": rq.writes, "class": rq.class, "downstream": rq.called.Load(), "written_at": rq.wtime, "returned_at": rq.endAt})
			if rq.writes > 1 && goFail == "" {
				goFail = fmt.Sprintf("request %d: %d writes reached the transport", i, rq.writes)
			}
			if rq.writes == 0 && !cancelled && goFail == "" {
				goFail = fmt.Sprintf("request %d: no reply although the client never went away", i)
			}
			if !rq.called.Load() {
				nontrivial = true // somebody was served without resolving
			}
		}
		k := []string{"pipe-plain", "pipe-exact-probe", "pipe-zone-probe"}[sc.family]
		b, _ := json.Marshal(map[string]any{
			"k":          k,
			"coq":        fmt.Sprintf("CasePipe [%s] [%s] [%s] %d", strings.Join(reqCoq, "; "), strings.Join(coqEvents, "; "), strings.Join(obsCoq, "; "), downCalls.Load()),
			"nontrivial": nontrivial && len(sc.reqs) > 1,
			"go_fail":    goFail,
			"desc":       map[string]any{"family": k, "requests": desc, "timeline": coqEvents, "downstream_calls": downCalls.Load()},
		})
		f.Write(append(b, '\n'))
	}
}
