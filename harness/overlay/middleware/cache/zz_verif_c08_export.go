//go:build verif

package cache

// C08 export hooks (overlay-injected with the build tag `verif`, never
// committed to /repo): virtual-clock support and entry inspection for the
// answer cache, used by the C08 lab driver in package middleware/resolver.

import (
	"context"
	"time"

	"github.com/miekg/dns"
	"github.com/semihalev/sdns/middleware"
)

// VC08Shift emulates a clock advance of d for every instant the answer cache
// stores: entry stored/cutUntil and subtree-cut stored/expires move d into the
// past; the denial-proof and failure caches' injectable clocks move to
// time.Now()+total.
func VC08Shift(c *Cache, d, total time.Duration) {
	c.store.ForEach(func(_ bool, _ uint64, e *CacheEntry) bool {
		e.stored = e.stored.Add(-d)
		if !e.cutUntil.IsZero() {
			e.cutUntil = e.cutUntil.Add(-d)
		}
		return true
	})
	if cc := c.store.nxDomainCuts; cc != nil {
		cc.mu.Lock()
		for _, e := range cc.entries {
			e.stored = e.stored.Add(-d)
			e.expires = e.expires.Add(-d)
		}
		cc.mu.Unlock()
	}
	if dp := c.store.denialProofs; dp != nil {
		dp.mu.Lock()
		dp.now = func() time.Time { return time.Now().Add(total) }
		dp.mu.Unlock()
	}
	if f := c.store.failure; f != nil {
		f.now = func() time.Time { return time.Now().Add(total) }
	}
}

// VC08Entry is the lifetime-relevant part of one stored answer.
type VC08Entry struct {
	Stored   time.Time
	TTL      time.Duration
	CutUntil time.Time
	CutKey   uint64
	Rcode    int
	Answers  int
	Prefetch bool
}

// VC08Peek returns the stored entry for (q, cd) whether or not it is still live.
func VC08Peek(c *Cache, q dns.Question, cd bool) (VC08Entry, bool) {
	key := CacheKey{Question: q, CD: cd}.Hash()
	var e *CacheEntry
	if v, ok := c.positive.cache.Get(key); ok {
		e, _ = v.(*CacheEntry)
	}
	if e == nil {
		if v, ok := c.negative.cache.Get(key); ok {
			e, _ = v.(*CacheEntry)
		}
	}
	if e == nil {
		return VC08Entry{}, false
	}
	out := VC08Entry{Stored: e.stored, TTL: e.ttl, CutUntil: e.cutUntil, CutKey: e.cutKey, Prefetch: e.prefetch.Load()}
	if m := e.storedMsg(); m != nil {
		out.Rcode = m.Rcode
		out.Answers = len(m.Answer)
	}
	return out, true
}

// VC08Remaining is CacheEntry.remaining for a hand-built entry (unit tie of the
// lifetime formula the C08 model restates: min(stored+ttl, cut) - now).
func VC08Remaining(stored time.Time, ttl time.Duration, cut time.Time, now time.Time) time.Duration {
	e := &CacheEntry{stored: stored, ttl: ttl, cutUntil: cut}
	return e.remaining(now)
}

// VC08Bound is the deadline boundRequestToEntryLifetime folds into a fresh
// request-tree sink for a hand-built entry (what a cache hit contributes to the
// lineage of whatever is being assembled).
func VC08Bound(stored time.Time, ttl time.Duration, cut time.Time) time.Time {
	e := &CacheEntry{stored: stored, ttl: ttl, cutUntil: cut}
	var meta middleware.ResponseMeta
	boundRequestToEntryLifetime(middleware.WithResponseMeta(context.Background(), &meta), e)
	return meta.CutUntil()
}

// VC08Derived is one record of the stores DERIVED from validated denials: an RFC 8020 cut (Kind "nxcut": every name at
// or below Name is denied) or one RRset of the RFC 8198 proof index (Kind "soa" / "nsec" / "nsec3").  Shifted tells
// which clock Expires lives on: true = an instant VC08Shift moves into the past (nxcut), false = an instant of the
// store's own injectable clock (proof index).
type VC08Derived struct {
	Kind    string
	Name    string
	Zone    string
	Expires time.Time
	Shifted bool
}

// VC08DerivedDenials lists every record of the two derived denial stores, live or not.
func VC08DerivedDenials(c *Cache) []VC08Derived {
	var out []VC08Derived
	if cc := c.store.nxDomainCuts; cc != nil {
		cc.mu.RLock()
		for _, e := range cc.entries {
			out = append(out, VC08Derived{Kind: "nxcut", Name: e.deniedName, Zone: e.zone, Expires: e.expires, Shifted: true})
		}
		cc.mu.RUnlock()
	}
	if dp := c.store.denialProofs; dp != nil {
		dp.mu.RLock()
		for id, e := range dp.byID {
			kind := "soa"
			switch id.kind {
			case denialProofNSEC:
				kind = "nsec"
			case denialProofNSEC3:
				kind = "nsec3"
			}
			out = append(out, VC08Derived{Kind: kind, Name: id.owner, Zone: id.zone, Expires: e.expires})
		}
		dp.mu.RUnlock()
	}
	return out
}
