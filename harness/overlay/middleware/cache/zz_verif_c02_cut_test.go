//go:build verif

package cache

// C02 driver, subtree-cut cache (overlay-injected, never committed to /repo):
// histories of Store.RecordNXDomainCut / clock advances / Store.LookupNXDomainCut
// (and the wire lookup) on a real Store.  The code reads time.Now(); the clock
// is advanced by shifting every stored instant, and advances are chosen away
// from every expiry (or exactly on it) so that wall-clock jitter never decides
// an observation.

import (
	"encoding/json"
	"fmt"
	"math/rand"
	"os"
	"strconv"
	"strings"
	"testing"
	"time"

	"github.com/miekg/dns"
)

func vC02CutEnvInt(name string, def int) int {
	if s := os.Getenv(name); s != "" {
		if n, err := strconv.Atoi(s); err == nil {
			return n
		}
	}
	return def
}

type vC02CutName [][]byte

func vC02CutWire(n vC02CutName) []byte {
	var w []byte
	for _, l := range n {
		w = append(w, byte(len(l)))
		w = append(w, l...)
	}
	return append(w, 0)
}

func vC02CutPres(n vC02CutName) string {
	s, _, err := dns.UnpackDomainName(vC02CutWire(n), 0)
	if err != nil {
		panic(err)
	}
	return s
}

func vC02CutCoq(n vC02CutName) string {
	p := make([]string, len(n))
	for i, l := range n {
		q := make([]string, len(l))
		for j, b := range l {
			q[j] = strconv.Itoa(int(b))
		}
		p[i] = "[" + strings.Join(q, ";") + "]"
	}
	return "[" + strings.Join(p, ";") + "]"
}

func vC02CutFold(s string) string { return strings.ToLower(s) }

type vC02CutSig struct {
	signerOK              bool
	class                 uint16
	ttl, origTTL, expires int64 // expires: seconds from now
}

func (g *vC02CutSig) coq() string {
	if g == nil {
		return "None"
	}
	return fmt.Sprintf("(Some (mk_csig %v %d %d %d (%d)))", g.signerOK, g.class, g.ttl, g.origTTL, g.expires)
}

type vC02CutProof struct {
	nsec3       bool
	owner       vC02CutName
	ownerInZone bool
	class       uint16
	ttl         int64
	nextInZone  bool
	optout      bool
	sig         *vC02CutSig
}

func vC02CutMkSig(owner string, covered uint16, zone string, g *vC02CutSig, now time.Time) *dns.RRSIG {
	signer := zone
	if !g.signerOK {
		signer = "other." + zone
	}
	return &dns.RRSIG{
		Hdr:         dns.RR_Header{Name: owner, Rrtype: dns.TypeRRSIG, Class: g.class, Ttl: uint32(g.ttl)},
		TypeCovered: covered, Algorithm: dns.RSASHA256, Labels: uint8(dns.CountLabel(owner)),
		OrigTtl: uint32(g.origTTL), Expiration: uint32(now.Unix() + g.expires), Inception: uint32(now.Unix() - 3600),
		KeyTag: 1, SignerName: signer, Signature: "Zml4dHVyZQ==",
	}
}

func TestVerifC02Cut(t *testing.T) {
	p := os.Getenv("VERIF_OUT")
	if p == "" {
		t.Skip("VERIF_OUT not set")
	}
	f, err := os.Create(p)
	if err != nil {
		t.Fatal(err)
	}
	defer f.Close()
	emit := func(m map[string]any) {
		b, _ := json.Marshal(m)
		f.Write(append(b, '\n'))
	}
	seed := int64(vC02CutEnvInt("VERIF_SEED", 1))
	n := vC02CutEnvInt("VERIF_N", 100)
	r := rand.New(rand.NewSource(seed*15485863 + 5))
	labels := [][]byte{[]byte("a"), []byte("b"), []byte("c"), []byte("A"), []byte("x."), []byte("*"), {0}, []byte("zz"), []byte("c.a"), []byte("b\\.a")}
	lab := func() []byte { return labels[r.Intn(len(labels))] }
	const maxTTL = 3600

	for c := 0; c < n; c++ {
		cfg := CacheConfig{Size: 1 << 16, PositiveTTL: time.Hour, NegativeTTL: maxTTL * time.Second, MinTTL: time.Second, MaxTTL: 24 * time.Hour}
		metrics := &CacheMetrics{}
		store := NewStore(NewPositiveCache(cfg.Size/2, cfg.MinTTL, cfg.MaxTTL, metrics), NewNegativeCache(cfg.Size/2, cfg.MinTTL, cfg.NegativeTTL, metrics), cfg)
		zone := vC02CutName{lab()}
		if r.Intn(3) == 0 {
			zone = vC02CutName{lab(), lab()}
		}
		zoneStr := vC02CutPres(zone)
		// a small pool of names in and around the zone
		var pool []vC02CutName
		for i := 0; i < 6; i++ {
			nm := zone
			for d := 1 + r.Intn(3); d > 0; d-- {
				nm = append(vC02CutName{lab()}, nm...)
			}
			pool = append(pool, nm)
		}
		pool = append(pool, zone, zone[1:], append(vC02CutName{[]byte("q")}, zone[1:]...))
		pick := func() vC02CutName { return pool[r.Intn(len(pool))] }

		var modelNow int64
		var expiries []int64
		var ops, desc []string
		goFail := ""
		type rec struct {
			denied string
			class  uint16
			at     int64
		}
		var accepted []rec
		var acceptedNames []vC02CutName
		hits := 0
		nops := 6 + r.Intn(10)
		for o := 0; o < nops; o++ {
			switch k := r.Intn(10); {
			case k < 4: // record
				now := time.Now()
				denied := pick()
				if r.Intn(5) > 0 { // mostly a proper descendant of the zone
					denied = append(vC02CutName{lab()}, zone...)
					if r.Intn(2) == 0 {
						denied = append(vC02CutName{lab()}, denied...)
					}
					pool = append(pool, denied, append(vC02CutName{lab()}, denied...), append(vC02CutName{lab(), lab()}, denied...))
				}
				qclass := uint16(1)
				if r.Intn(25) == 0 {
					qclass = 3
				}
				rcode := dns.RcodeNameError
				if r.Intn(25) == 0 {
					rcode = dns.RcodeSuccess
				}
				cd := r.Intn(25) == 0
				ttlOf := func() int64 { return []int64{300, 600, 900, 1800, 7200}[r.Intn(5)] }
				mkSig := func(class uint16) *vC02CutSig {
					if r.Intn(30) == 0 {
						return nil
					}
					g := &vC02CutSig{signerOK: r.Intn(30) > 0, class: class, ttl: ttlOf(), origTTL: ttlOf(), expires: []int64{1200, 2400, 86400, 86400, 86400, 86400, 86400, 86400, 86400, 2400, 1200, 0, -50}[r.Intn(13)]}
					if r.Intn(40) == 0 {
						g.class = 3
					}
					return g
				}
				msg := new(dns.Msg)
				msg.SetQuestion(vC02CutPres(denied), dns.TypeA)
				msg.Question[0].Qclass = qclass
				msg.Response = true
				msg.Rcode = rcode
				msg.CheckingDisabled = cd
				msg.AuthenticatedData = true
				soaCoq := "None"
				if r.Intn(30) > 0 {
					sclass := qclass
					if r.Intn(30) == 0 {
						sclass = 4
					}
					sttl, smin := ttlOf(), ttlOf()
					sg := mkSig(sclass)
					soa := &dns.SOA{Hdr: dns.RR_Header{Name: zoneStr, Rrtype: dns.TypeSOA, Class: sclass, Ttl: uint32(sttl)},
						Ns: "ns." + zoneStr, Mbox: "h." + zoneStr, Serial: 1, Refresh: 1, Retry: 1, Expire: 1, Minttl: uint32(smin)}
					msg.Ns = append(msg.Ns, soa)
					if sg != nil {
						msg.Ns = append(msg.Ns, vC02CutMkSig(zoneStr, dns.TypeSOA, zoneStr, sg, now))
					}
					soaCoq = fmt.Sprintf("(Some (%d, %d%%Z, %d%%Z, %s))", sclass, sttl, smin, sg.coq())
				}
				var pcoq []string
				use3 := r.Intn(3) == 0
				for i := 0; i < r.Intn(3)+vC02CutBoolInt(r.Intn(8) > 0); i++ {
					pr := vC02CutProof{nsec3: use3, class: qclass, ttl: ttlOf(), nextInZone: true, ownerInZone: true}
					if r.Intn(20) == 0 {
						pr.nsec3 = !pr.nsec3
					}
					if r.Intn(30) == 0 {
						pr.class = 3
					}
					pr.owner = append(vC02CutName{[]byte(fmt.Sprintf("o%d", i))}, zone...)
					if r.Intn(25) == 0 { // out of zone
						pr.owner = vC02CutName{[]byte(fmt.Sprintf("o%d", i)), []byte("elsewhere")}
						pr.ownerInZone = false
					}
					pr.sig = mkSig(pr.class)
					ownerStr := vC02CutPres(pr.owner)
					if pr.nsec3 {
						pr.optout = r.Intn(15) == 0
						lbl := fmt.Sprintf("%032d", i)
						pr.owner = append(vC02CutName{[]byte(lbl)}, pr.owner[1:]...)
						ownerStr = vC02CutPres(pr.owner)
						fl := uint8(0)
						if pr.optout {
							fl = 1
						}
						msg.Ns = append(msg.Ns, &dns.NSEC3{Hdr: dns.RR_Header{Name: ownerStr, Rrtype: dns.TypeNSEC3, Class: pr.class, Ttl: uint32(pr.ttl)},
							Hash: 1, Flags: fl, Iterations: 0, SaltLength: 0, Salt: "", HashLength: 20, NextDomain: "0000000000000000000000000000000G", TypeBitMap: []uint16{1}})
						if pr.sig != nil {
							msg.Ns = append(msg.Ns, vC02CutMkSig(ownerStr, dns.TypeNSEC3, zoneStr, pr.sig, now))
						}
					} else {
						next := "zz." + zoneStr
						if r.Intn(25) == 0 {
							next = "zz.elsewhere."
							pr.nextInZone = false
						}
						msg.Ns = append(msg.Ns, &dns.NSEC{Hdr: dns.RR_Header{Name: ownerStr, Rrtype: dns.TypeNSEC, Class: pr.class, Ttl: uint32(pr.ttl)},
							NextDomain: strings.TrimPrefix(next, "."), TypeBitMap: []uint16{1, 46, 47}})
						if pr.sig != nil {
							msg.Ns = append(msg.Ns, vC02CutMkSig(ownerStr, dns.TypeNSEC, zoneStr, pr.sig, now))
						}
					}
					pcoq = append(pcoq, fmt.Sprintf("mk_cproof %v %v %d %d %v %v %s", pr.nsec3, pr.ownerInZone, pr.class, pr.ttl, pr.nextInZone, pr.optout, pr.sig.coq()))
				}
				r.Shuffle(len(msg.Ns), func(i, j int) { msg.Ns[i], msg.Ns[j] = msg.Ns[j], msg.Ns[i] })
				var cutUntil time.Time
				cuCoq := "None"
				if r.Intn(4) == 0 {
					rel := []int64{450, 1500, 5000, -10}[r.Intn(4)]
					cutUntil = now.Add(time.Duration(rel) * time.Second)
					cuCoq = fmt.Sprintf("(Some (%d)%%Z)", modelNow+rel)
				}
				zarg := zoneStr
				if r.Intn(6) == 0 {
					zarg = strings.ToUpper(zarg)
				}
				ok := store.RecordNXDomainCut(msg, vC02CutPres(denied), zarg, cutUntil)
				if ok {
					e := store.nxDomainCuts.entries[nxDomainCutID{deniedName: dns.CanonicalName(vC02CutPres(denied)), qclass: qclass}]
					if e == nil {
						goFail = "accepted record not found in the index"
					} else {
						expiries = append(expiries, modelNow+int64(e.expires.Sub(now)/time.Second))
						accepted = append(accepted, rec{e.deniedName, qclass, modelNow})
						acceptedNames = append(acceptedNames, denied)
					}
					if (rcode != dns.RcodeNameError || cd) && goFail == "" {
						goFail = fmt.Sprintf("RecordNXDomainCut accepted rcode=%d cd=%v", rcode, cd)
					}
				}
				ops = append(ops, fmt.Sprintf("OpRecord (mk_cutmsg %d %v %d %s [%s]) %s %s %s %v", rcode, cd, qclass, soaCoq, strings.Join(pcoq, ";"),
					vC02CutCoq(denied), vC02CutCoq(zone), cuCoq, ok))
				desc = append(desc, fmt.Sprintf("t=%d record denied=%s zone=%s rcode=%d cd=%v class=%d ns=%d cutUntil=%s -> %v", modelNow, vC02CutPres(denied), zarg, rcode, cd, qclass, len(msg.Ns), cuCoq, ok))
			case k < 6: // advance the clock, away from every expiry or exactly onto one
				var s int64
				for try := 0; try < 20; try++ {
					s = []int64{1, 60, 100, 200, 200, 500, 1000, 4000}[r.Intn(8)]
					if len(expiries) > 0 && r.Intn(3) == 0 {
						if d := expiries[r.Intn(len(expiries))] - modelNow; d > 0 {
							s = d // exactly at an expiry: expired
						}
					}
					bad := false
					for _, e := range expiries {
						if t := modelNow + s; t > e-150 && t < e {
							bad = true
						}
					}
					if !bad {
						break
					}
					s = 0
				}
				if s == 0 {
					continue
				}
				store.nxDomainCuts.mu.Lock()
				for _, e := range store.nxDomainCuts.entries {
					e.expires = e.expires.Add(-time.Duration(s) * time.Second)
					e.stored = e.stored.Add(-time.Duration(s) * time.Second)
				}
				store.nxDomainCuts.mu.Unlock()
				modelNow += s
				ops = append(ops, fmt.Sprintf("OpAdvance (%d)", s))
				desc = append(desc, fmt.Sprintf("advance %ds -> t=%d", s, modelNow))
			case k == 6 && r.Intn(2) == 0: // operator purge of a question: removes the cuts at and above it
				q := pick()
				if len(acceptedNames) > 0 && r.Intn(2) == 0 {
					d := acceptedNames[r.Intn(len(acceptedNames))]
					switch r.Intn(3) {
					case 0:
						q = d
					case 1:
						q = append(vC02CutName{lab()}, d...)
					default: // escaped-dot confusion: must NOT purge the cut
						if len(d) > 0 {
							q = append(vC02CutName{append(append(append([]byte(nil), lab()...), '.'), d[0]...)}, d[1:]...)
						}
					}
				}
				qclass := uint16(1)
				if r.Intn(10) == 0 {
					qclass = 3
				}
				store.Purge(dns.Question{Name: vC02CutPres(q), Qtype: dns.TypeA, Qclass: qclass})
				ops = append(ops, fmt.Sprintf("OpPurge %s %d", vC02CutCoq(q), qclass))
				desc = append(desc, fmt.Sprintf("t=%d purge %s class=%d", modelNow, vC02CutPres(q), qclass))
			default: // lookup
				q := pick()
				if len(acceptedNames) > 0 && r.Intn(10) < 6 { // at or below an accepted cut
					q = acceptedNames[r.Intn(len(acceptedNames))]
					for d := r.Intn(3); d > 0; d-- {
						q = append(vC02CutName{lab()}, q...)
					}
				}
				if r.Intn(5) == 0 {
					q = append(vC02CutName{lab()}, q...)
				}
				if len(acceptedNames) > 0 && r.Intn(6) == 0 {
					// a label that merely ends with the text of an accepted cut's first label after a
					// literal dot (or an escaped backslash and a dot): "x\.bar.example." is one label
					// "x.bar" under example., not a descendant of the cut bar.example.
					d := acceptedNames[r.Intn(len(acceptedNames))]
					if len(d) > 0 {
						l := append(append([]byte(nil), lab()...), '.')
						if r.Intn(3) == 0 {
							l = append(append([]byte(nil), lab()...), '\\', '.')
						}
						l = append(l, d[0]...)
						q = append(vC02CutName{l}, d[1:]...)
						if r.Intn(3) == 0 {
							q = append(vC02CutName{lab()}, q...)
						}
					}
				}
				qclass := uint16(1)
				switch r.Intn(15) {
				case 0:
					qclass = 3
				case 1:
					qclass = 0
				}
				cd := r.Intn(8) == 0
				req := new(dns.Msg)
				req.SetQuestion(vC02CutPres(q), dns.TypeA)
				req.Question[0].Qclass = qclass
				req.CheckingDisabled = cd
				found, fw := "None", "None"
				var fname, wname string
				if e, ok := store.LookupNXDomainCut(req); ok {
					fname = e.deniedName
					hits++
				}
				if e, ok := store.LookupNXDomainCutWire(vC02CutWire(q), qclass); ok {
					wname = e.deniedName
				}
				toCoq := func(pres string) string {
					// the entry's denied name is a canonical spelling of an ancestor-or-self of q
					for k := 0; k <= len(q); k++ {
						if vC02CutFold(vC02CutPres(q[k:])) == pres {
							return "(Some " + vC02CutCoq(q[k:]) + ")"
						}
					}
					if goFail == "" {
						goFail = fmt.Sprintf("lookup(%s) returned the cut %s which is not an ancestor of the question", vC02CutPres(q), pres)
					}
					return "(Some [[0;0;0]])"
				}
				if fname != "" {
					found = toCoq(fname)
					if cd && goFail == "" {
						goFail = "LookupNXDomainCut answered a CD=1 request"
					}
					okRec := false
					for _, a := range accepted {
						if a.denied == fname && a.class == qclass {
							okRec = true
						}
					}
					if !okRec && goFail == "" {
						goFail = fmt.Sprintf("lookup(%s) returned a cut %s that was never accepted for class %d", vC02CutPres(q), fname, qclass)
					}
				}
				if wname != "" {
					fw = toCoq(wname)
				}
				ops = append(ops, fmt.Sprintf("OpLookup %s %d %v %s %s", vC02CutCoq(q), qclass, cd, found, fw))
				desc = append(desc, fmt.Sprintf("t=%d lookup %s class=%d cd=%v -> %q wire=%q", modelNow, vC02CutPres(q), qclass, cd, fname, wname))
			}
		}
		emit(map[string]any{
			"k":          "cut-history",
			"coq":        fmt.Sprintf("(CaseCut (%d) [%s])%%N", maxTTL, strings.Join(ops, ";")),
			"go_fail":    goFail,
			"nontrivial": len(accepted) > 0 && hits > 0,
			"desc":       map[string]any{"zone": zoneStr, "history": desc},
		})
	}
}

func vC02CutBoolInt(b bool) int {
	if b {
		return 1
	}
	return 0
}
