//go:build verif

package cache

// C04 driver (late writes): ReplaceIfCurrent racing SetFromResponse*/purge/
// expiry on the real store in every order, and the real prefetch queue
// (claim on a hit, completion by processPrefetch) interleaved with
// client-path writes.

import (
	"context"
	"fmt"
	"math/rand"
	"os"
	"runtime"
	"strings"
	"sync"
	"sync/atomic"
	"testing"
	"time"

	"github.com/miekg/dns"
	"github.com/semihalev/sdns/internal/dnsutil"
	"github.com/semihalev/sdns/middleware"
)

type vC04PrefetchQueryer struct {
	k      *vC04Clock
	resp   *dns.Msg
	hasCut bool
	cut    int64
	calls  int
}

func (q *vC04PrefetchQueryer) Query(ctx context.Context, req *dns.Msg) (*dns.Msg, error) {
	q.calls++
	if q.resp == nil {
		return nil, middleware.ErrNoResponse
	}
	if q.hasCut {
		middleware.ResponseMetaFrom(ctx).BoundCutFor(q.k.real(q.cut), 9)
	}
	resp := q.resp.Copy()
	resp.SetReply(req)
	resp.Rcode = q.resp.Rcode
	return resp, nil
}

func TestVerifC04Race(t *testing.T) {
	out := vC04Open(t)
	defer out.f.Close()
	r := rand.New(rand.NewSource(int64(vC04EnvInt("VERIF_SEED", 1)) + 4042))
	n := vC04EnvInt("VERIF_N", 500)
	for c := 0; c < n; c++ {
		if c%2 == 0 {
			vC04CaseCas(out, r)
		} else {
			vC04CasePrefetch(out, r)
		}
	}
	// the real-goroutine race: short in the quick tier, long in the thorough one
	budget := 2500 * time.Millisecond
	if os.Getenv("VERIF_TIER") == "thorough" {
		budget = 20 * time.Second
	}
	vC04CasStress(out, budget)
}

func vC04CaseCas(out *vC04Out, r *rand.Rand) {
	env := vC04NewEnv(0, 0, 600)
	defer env.close()
	k := env.k
	names := []string{"r1.c04.test.", "r2.c04.test."}
	known := map[string][]*CacheEntry{}
	var ops, desc []string
	fail := ""
	latest := map[string]*CacheEntry{} // Go-side oracle: the newest client-path entry per key
	doSet := func(ki int) {
		name := names[ki]
		key := vC04Key(name, false)
		kind := []int{0, 0, 1, 2}[r.Intn(4)]
		resp := vC04GenResponse(r, name, kind, false)
		switch r.Intn(3) {
		case 0:
			env.c.store.SetFromResponseWithKey(key, resp, time.Time{}, 0)
		case 1:
			env.c.Set(key, resp)
		default:
			// client path: drop what is there, resolve again through the pipeline
			env.c.positive.Remove(key)
			env.stub.script[name] = &vC04Script{resp: resp}
			env.query(r.Intn(3), name, false, false, nil, "")
			delete(env.stub.script, name)
		}
		e := env.peek(key)
		if e != nil {
			known[name] = append(known[name], e)
		}
		latest[name] = e
		ops = append(ops, fmt.Sprintf("XSet %d %d", ki+1, env.id(e)))
		desc = append(desc, fmt.Sprintf("set %s -> #%d", name, env.id(e)))
	}
	doRemove := func(ki int) {
		name := names[ki]
		key := vC04Key(name, false)
		switch r.Intn(3) {
		case 0:
			env.c.Purge(dns.Question{Name: name, Qtype: dns.TypeA, Qclass: dns.ClassINET})
		case 1:
			env.c.positive.Remove(key)
		default:
			// expiry: step past the end and let a lookup delete it
			if e := env.peek(key); e != nil {
				vC04Shift(env.c, k, e.remaining(time.Now())+time.Second)
				env.c.checkCache(key)
			}
		}
		latest[name] = nil
		ops = append(ops, fmt.Sprintf("XRemove %d %d", ki+1, env.id(env.peek(key))))
		desc = append(desc, fmt.Sprintf("remove %s", name))
	}
	doCas := func(ki int, old *CacheEntry) {
		name := names[ki]
		key := vC04Key(name, false)
		sf := r.Intn(7) == 0
		kind := []int{0, 0, 1}[r.Intn(3)]
		if sf {
			kind = 5
		}
		resp := vC04GenResponse(r, name, kind, false)
		before := env.peek(key)
		ok := env.c.store.ReplaceIfCurrent(key, old, resp, time.Time{}, 0)
		after := env.peek(key)
		if ok {
			known[name] = append(known[name], after)
		}
		// Go-side oracle: newer data stored for the key after `old` must survive
		if before != old && (ok || after != before) {
			fail = "ReplaceIfCurrent overwrote an entry it did not claim"
		}
		if before == old && old != nil && !sf && !ok {
			fail = "ReplaceIfCurrent refused although the claimed entry was still current"
		}
		ops = append(ops, fmt.Sprintf("XCas %d %d %v %v %d", ki+1, env.id(old), sf, ok, env.id(after)))
		desc = append(desc, fmt.Sprintf("cas %s expected #%d servfail=%v -> %v, now #%d", name, env.id(old), sf, ok, env.id(after)))
	}
	// capacity eviction: admissions of other names push the store over its size until
	// SetWithCap evicts the key from its segment (a removal nobody asked for)
	doEvict := func(ki int) {
		name := names[ki]
		key := vC04Key(name, false)
		if env.peek(key) == nil {
			return
		}
		// the filler admissions may push the OTHER tracked key out of its segment as well
		// (which victim a full segment drops is the store's choice): every tracked key that
		// was there before and is gone afterwards is recorded as removed — the history
		// states what happened to the store, not what the step aimed at
		var had [2]bool
		for j, n := range names {
			had[j] = env.peek(vC04Key(n, false)) != nil
		}
		for i := 0; i < 6000 && env.peek(key) != nil; i++ {
			fname := fmt.Sprintf("f%d-%d.fill.c04.test.", r.Intn(1<<30), i)
			env.c.store.SetFromResponseWithKey(vC04Key(fname, false), cutTestMsg(fname, dns.RcodeSuccess, 300), time.Time{}, 0)
		}
		for j, n := range names {
			if !had[j] || env.peek(vC04Key(n, false)) != nil {
				continue // not evicted this time: nothing happened to the key
			}
			latest[n] = nil
			ops = append(ops, fmt.Sprintf("XRemove %d 0", j+1))
			desc = append(desc, fmt.Sprintf("evict %s by capacity", n))
		}
	}
	pick := func(ki int) *CacheEntry {
		l := known[names[ki]]
		if r.Intn(8) == 0 {
			l = known[names[1-ki]] // an entry of the other key
		}
		if len(l) == 0 {
			return nil
		}
		if r.Intn(2) == 0 {
			return l[len(l)-1]
		}
		return l[r.Intn(len(l))]
	}
	switch r.Intn(4) {
	case 0: // the late write: claim, newer data, then the refresh completes
		doSet(0)
		claim := env.peek(vC04Key(names[0], false))
		switch r.Intn(5) {
		case 0, 1:
			doSet(0)
		case 2:
			doEvict(0)
		default:
			doRemove(0)
			if r.Intn(2) == 0 {
				doSet(0)
			}
		}
		if claim != nil {
			doCas(0, claim)
		}
	case 1: // the other order: the refresh completes first, then newer data arrives
		doSet(0)
		claim := env.peek(vC04Key(names[0], false))
		if claim != nil {
			doCas(0, claim)
		}
		doSet(0)
		if claim != nil {
			doCas(0, claim) // a second completion of the same stale claim
		}
	default:
		for i, steps := 0, 4+r.Intn(7); i < steps; i++ {
			ki := r.Intn(2)
			switch x := r.Intn(10); {
			case x < 4:
				doSet(ki)
			case x < 6:
				if r.Intn(6) == 0 {
					doEvict(ki)
				} else {
					doRemove(ki)
				}
			default:
				if old := pick(ki); old != nil {
					doCas(ki, old)
				} else {
					doSet(ki)
				}
			}
		}
	}
	out.emit(map[string]any{"k": "cas-history", "nontrivial": len(ops) > 1, "go_fail": fail,
		"coq": "CCas [" + strings.Join(ops, "; ") + "]", "desc": desc})
}

func vC04CasePrefetch(out *vC04Out, r *rand.Rand) {
	pct := []int{10, 25, 50, 90}[r.Intn(4)]
	env := vC04NewEnv(pct, 0, 600)
	defer env.close()
	k := env.k
	pq := env.c.prefetchQueue
	pfq := &vC04PrefetchQueryer{k: k}
	env.c.SetPrefetchQueryer(pfq)
	name := "pf.c04.test."
	key := vC04Key(name, false)
	ttl0 := uint32(20 + r.Intn(400))
	first := cutTestMsg(name, dns.RcodeSuccess, ttl0)
	env.stub.script[name] = &vC04Script{resp: first}
	env.query(r.Intn(3), name, false, false, nil, "")
	e0 := env.peek(key)
	if e0 == nil {
		return
	}
	env.id(e0)
	// step into the prefetch window: remaining seconds <= pct% of the original ttl
	thr := int64(float64(pct) / 100.0 * float64(e0.origTTL))
	if thr < 1 {
		return
	}
	left := time.Duration(1+r.Int63n(thr))*time.Second - 400*time.Millisecond
	vC04Shift(env.c, k, e0.remaining(time.Now())-left)
	route := r.Intn(4)
	rep := env.query(route, name, false, false, nil, "")
	if len(rep.stubbed) != 0 || len(pq.items) != 1 || !e0.prefetch.Load() {
		out.emit(map[string]any{"k": "prefetch-noclaim", "go_fail": "a hit inside the prefetch window did not claim a refresh",
			"desc": map[string]any{"pct": pct, "left": left.String(), "queued": len(pq.items), "stubbed": rep.stubbed}})
		return
	}
	// a second hit must not queue a second refresh for the same entry
	env.query(r.Intn(4), name, false, false, nil, "")
	claimFail := ""
	if len(pq.items) != 1 {
		claimFail = "two refreshes queued for one claimed entry"
	}
	// what the client path does while the refresh is in flight
	inter := r.Intn(7)
	interDesc := ""
	switch inter {
	case 0:
		interDesc = "nothing"
	case 1:
		interDesc = "newer data stored through the store"
		env.c.store.SetFromResponseWithKey(key, vC04GenResponse(r, name, []int{0, 1}[r.Intn(2)], false), time.Time{}, 0)
	case 2:
		interDesc = "purged"
		env.c.Purge(dns.Question{Name: name, Qtype: dns.TypeA, Qclass: dns.ClassINET})
	case 3:
		interDesc = "purged and resolved again by a client"
		env.c.Purge(dns.Question{Name: name, Qtype: dns.TypeA, Qclass: dns.ClassINET})
		env.stub.script[name] = &vC04Script{resp: vC04GenResponse(r, name, []int{0, 1}[r.Intn(2)], false)}
		env.query(r.Intn(3), name, false, false, nil, "")
	case 4:
		interDesc = "expired and resolved again by a client"
		vC04Shift(env.c, k, e0.remaining(time.Now())+500*time.Millisecond)
		env.stub.script[name] = &vC04Script{resp: vC04GenResponse(r, name, 0, false)}
		env.query(r.Intn(3), name, false, false, nil, "")
	case 5:
		interDesc = "expired, nobody asked"
		vC04Shift(env.c, k, e0.remaining(time.Now())+500*time.Millisecond)
	case 6:
		interDesc = "Cache.Set with newer data"
		env.c.Set(key, vC04GenResponse(r, name, 0, false))
	}
	before := env.peek(key)
	// the refresh result
	kind := []int{0, 0, 0, 1, 2, 5}[r.Intn(6)]
	signed := r.Intn(3) == 0 && kind != 5
	pfq.resp = vC04GenResponse(r, name, kind, signed)
	pfq.hasCut = r.Intn(2) == 0
	if pfq.hasCut {
		pfq.cut = k.now() + int64(time.Duration(r.Intn(600000))*time.Millisecond)
	}
	sec0 := time.Now().Unix()
	mt, _ := dnsutil.ClassifyResponse(pfq.resp, time.Now().UTC())
	req := <-pq.items
	w0, t0 := time.Now().UnixNano(), k.now()
	pq.processPrefetch(req)
	w1, t1 := time.Now().UnixNano(), k.now()
	if vC04SigNearSecond(pfq.resp, sec0, time.Now().Unix()) {
		out.emit(map[string]any{"inconclusive": true})
		return
	}
	after := env.peek(key)
	replaced := after != before
	fail := claimFail
	if before != e0 && replaced {
		fail = "a late refresh overwrote newer state for the key"
	}
	if e0.prefetch.Load() {
		fail = "the prefetch claim was not released"
	}
	if pfq.calls != 1 {
		fail = fmt.Sprintf("refresh went upstream %d times", pfq.calls)
	}
	out.emit(map[string]any{"k": fmt.Sprintf("prefetch-inter%d-%s", inter, vC04Class(mt)), "nontrivial": true, "go_fail": fail,
		"coq": fmt.Sprintf("CPrefetch %d %d %s %s %s %d %d %s %s %v %d %s", env.id(e0), env.id(before), vC04Class(mt), vC04RRs(pfq.resp), vC04OZ(pfq.hasCut, pfq.cut),
			w0, w1, vC04Z(t0), vC04Z(t1), replaced, env.id(after), vC04Ent(k, after)),
		"desc": map[string]any{"pct": pct, "meanwhile": interDesc, "refresh": pfq.resp.String(), "replaced": replaced, "route": route}})
}

// vC04CasStress races, on real goroutines released by a spin barrier with a
// swept skew, one completion of a prefetch claim (Store.ReplaceIfCurrent)
// against one client-path operation on the same key: SetFromResponseWithKey
// (newer data), Cache.Purge, or an expiry-style removal. Whatever the
// schedule, what is left under the key once both returned is the client
// path's: its entry, or nothing. Either order is legal (refresh first: it is
// then overwritten / removed; client first: the CAS declines), so the verdict
// never depends on the schedule; only a guard that is not atomic against the
// client-path write can end a round differently. Runs for about `budget`.
func vC04CasStress(out *vC04Out, budget time.Duration) {
	if runtime.GOMAXPROCS(0) < 2 {
		defer runtime.GOMAXPROCS(runtime.GOMAXPROCS(2))
	}
	env := vC04NewEnv(0, 0, 600)
	defer env.close()
	name := "stress.c04.test."
	key := vC04Key(name, false)
	q := dns.Question{Name: name, Qtype: dns.TypeA, Qclass: dns.ClassINET}
	seed, stale := cutTestMsg(name, dns.RcodeSuccess, 100), cutTestMsg(name, dns.RcodeSuccess, 300)
	withdrawal := cutTestNXMsg(name, 30)
	var sink atomic.Uint64
	spin := func(n int) {
		var x uint64
		for j := 0; j < n*8; j++ {
			x += uint64(j)
		}
		sink.Add(x)
	}
	variants := []string{"set", "purge", "remove"}
	for vi, variant := range variants {
		deadline := time.Now().Add(budget / time.Duration(len(variants)))
		rounds, bad, refreshFirst := 0, 0, 0
		example := ""
		for i := 0; time.Now().Before(deadline); i++ {
			env.c.store.SetFromResponseWithKey(key, seed, time.Time{}, 0)
			claim := env.peek(key)
			if claim == nil {
				break
			}
			skewClient, skewRefresh := (i>>1)%131, 0
			if i&1 == 1 {
				skewClient, skewRefresh = 0, (i>>1)%131
			}
			var gate atomic.Int32
			var wg sync.WaitGroup
			var ok bool
			wg.Add(2)
			go func() {
				defer wg.Done()
				gate.Add(1)
				for gate.Load() < 2 {
				}
				spin(skewClient)
				switch vi {
				case 0:
					env.c.store.SetFromResponseWithKey(key, withdrawal, time.Time{}, 0)
				case 1:
					env.c.Purge(q)
				default:
					env.c.positive.Remove(key)
				}
			}()
			go func() {
				defer wg.Done()
				gate.Add(1)
				for gate.Load() < 2 {
				}
				spin(skewRefresh)
				ok = env.c.store.ReplaceIfCurrent(key, claim, stale, time.Time{}, 0)
			}()
			wg.Wait()
			rounds++
			if ok {
				refreshFirst++
			}
			e := env.peek(key)
			wrong := false
			if vi == 0 {
				wrong = e == nil || e.ttl != 30*time.Second
			} else {
				wrong = e != nil
			}
			if wrong {
				bad++
				if example == "" {
					left := "nothing"
					if e != nil {
						left = "an entry with ttl " + e.ttl.String()
					}
					example = fmt.Sprintf("round %d (ReplaceIfCurrent=%v): %s left under the key", i, ok, left)
				}
			}
		}
		fail := ""
		if bad > 0 {
			fail = fmt.Sprintf("a late refresh overwrote/resurrected state the client path wrote after it was claimed (%s vs ReplaceIfCurrent): %d of %d races; %s", variant, bad, rounds, example)
		}
		out.emit(map[string]any{"k": "cas-race-" + variant, "nontrivial": rounds > 0, "go_fail": fail, "coq": "CCas []",
			"desc": map[string]any{"client_op": variant, "rounds": "a few thousand (time-boxed)", "bad": bad}})
		_ = refreshFirst
	}
}
