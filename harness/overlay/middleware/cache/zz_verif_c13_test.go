//go:build verif

package cache

// C13 correspondence driver, unit level (overlay-injected, never committed to
// /repo).  Drives a real Store + FailureCache whose clock is scripted through
// FailureCacheConfig.Now with generated operation histories (question / zone
// failures across names, types, classes, CD and ECS audiences, lookups incl.
// wire lookups, retry keys, resets, purges, time steps placed on the expiry
// boundaries, capacity evictions, colliding writers planted straight into the
// backing map) and records what the code returned / what state it left.
// Also: FailureCache.backoff for whole streak ranges incl. 2^32-1,
// NewFailureCache validation, and the admission filter
// cacheableResolutionFailure with every request-local cause realised in a
// real context.  One trace line per case: a Coq term for C13.Run.

import (
	"context"
	"encoding/json"
	"errors"
	"fmt"
	"math/big"
	"math/rand"
	"net/netip"
	"os"
	"sort"
	"strconv"
	"strings"
	"sync"
	"sync/atomic"
	"testing"
	"time"

	"github.com/miekg/dns"
	internalcache "github.com/semihalev/sdns/internal/cache"
	"github.com/semihalev/sdns/middleware"
)

// ---------------------------------------------------------------- plumbing

type vC13Trace struct{ f *os.File }

func vC13Open(t *testing.T) *vC13Trace {
	p := os.Getenv("VERIF_OUT")
	if p == "" {
		t.Skip("VERIF_OUT not set")
	}
	f, err := os.Create(p)
	if err != nil {
		t.Fatal(err)
	}
	return &vC13Trace{f: f}
}

func (v *vC13Trace) emit(m map[string]any) {
	b, _ := json.Marshal(m)
	v.f.Write(append(b, '\n'))
}

func vC13EnvInt(name string, def int) int {
	if s := os.Getenv(name); s != "" {
		if n, err := strconv.Atoi(s); err == nil {
			return n
		}
	}
	return def
}

var vC13Base = time.Date(2026, 7, 30, 12, 0, 0, 0, time.UTC)

type vC13Clock struct{ now time.Time }

func (c *vC13Clock) Now() time.Time { return c.now }
func (c *vC13Clock) rel() int64      { return int64(c.now.Sub(vC13Base)) }

// ------------------------------------------------------------------- names

// a name is its label list (raw bytes, original case)
type vC13Name [][]byte

func (n vC13Name) wire() []byte {
	var w []byte
	for _, l := range n {
		w = append(w, byte(len(l)))
		w = append(w, l...)
	}
	return append(w, 0)
}

// presentation form exactly as miekg decodes the wire name
func (n vC13Name) pres() string {
	s, _, err := dns.UnpackDomainName(n.wire(), 0)
	if err != nil {
		panic(err)
	}
	return s
}

func (n vC13Name) lower() vC13Name {
	out := make(vC13Name, len(n))
	for i, l := range n {
		b := make([]byte, len(l))
		for j, c := range l {
			if c >= 'A' && c <= 'Z' {
				c += 'a' - 'A'
			}
			b[j] = c
		}
		out[i] = b
	}
	return out
}

func (n vC13Name) coq() string {
	var ls []string
	for _, l := range n {
		var bs []string
		for _, c := range l {
			bs = append(bs, strconv.Itoa(int(c)))
		}
		ls = append(ls, "["+strings.Join(bs, ";")+"]")
	}
	return "[" + strings.Join(ls, ";") + "]%N"
}

// label list of a stored presentation name
func vC13LabelsOf(pres string) vC13Name {
	if pres == "" || pres == "." {
		return vC13Name{}
	}
	buf := make([]byte, 300)
	off, err := dns.PackDomainName(pres, buf, 0, nil, false)
	if err != nil {
		panic(fmt.Sprintf("pack %q: %v", pres, err))
	}
	var n vC13Name
	i := 0
	for i < off {
		c := int(buf[i])
		if c == 0 {
			break
		}
		n = append(n, append([]byte(nil), buf[i+1:i+1+c]...))
		i += 1 + c
	}
	return n
}

// ------------------------------------------------------------------ scopes

func vC13ScopeCoq(p netip.Prefix) string {
	if !p.IsValid() {
		return "None"
	}
	a := p.Addr()
	var v *big.Int
	if a.Is4() {
		b := a.As4()
		v = new(big.Int).SetBytes(b[:])
	} else {
		b := a.As16()
		v = new(big.Int).SetBytes(b[:])
	}
	return fmt.Sprintf("(Some (mk_scope %v %s %d))", a.Is4(), v.String(), p.Bits())
}

// -------------------------------------------------------------------- keys

type vC13QKey struct {
	name   vC13Name
	qtype  uint16
	qclass uint16
	cd     bool
	scope  netip.Prefix
}

func (k vC13QKey) coq() string {
	return fmt.Sprintf("(mk_qkey %s %d %d %v %s)", k.name.coq(), k.qtype, k.qclass, k.cd, vC13ScopeCoq(k.scope))
}

func (k vC13QKey) fkey() FailureQuestionKey {
	return FailureQuestionKey{Question: dns.Question{Name: k.name.pres(), Qtype: k.qtype, Qclass: k.qclass}, CD: k.cd, Scope: k.scope}
}

func (k vC13QKey) req() *dns.Msg {
	m := new(dns.Msg)
	m.Id = 4242
	m.RecursionDesired = true
	m.CheckingDisabled = k.cd
	m.Question = []dns.Question{{Name: k.name.pres(), Qtype: k.qtype, Qclass: k.qclass}}
	return m
}

func vC13QKeyOf(f FailureQuestionKey) vC13QKey {
	return vC13QKey{name: vC13LabelsOf(f.Question.Name), qtype: f.Question.Qtype, qclass: f.Question.Qclass, cd: f.CD, scope: f.Scope}
}

// the hash table handed to the model: normalised preimage -> pre-salt hash
type vC13Tab struct {
	seen map[string]bool
	rows []string
}

func newVC13Tab() *vC13Tab { return &vC13Tab{seen: map[string]bool{}} }

func (t *vC13Tab) addQ(k vC13QKey) {
	nk := vC13QKey{name: k.name.lower(), qtype: k.qtype, qclass: k.qclass, cd: k.cd, scope: normalizeKeyScope(k.scope)}
	c := nk.coq()
	if t.seen[c] {
		return
	}
	t.seen[c] = true
	q := dns.Question{Name: nk.name.pres(), Qtype: nk.qtype, Qclass: nk.qclass}
	var h uint64
	if nk.scope.IsValid() {
		h = internalcache.KeyWithPrefix(q, nk.cd, nk.scope)
	} else {
		h = internalcache.Key(q, nk.cd)
	}
	t.rows = append(t.rows, fmt.Sprintf("(%s,%d%%N)", c, h))
}

// every preimage an operation about question k can touch: the exact key and
// one zone preimage per suffix
func (t *vC13Tab) addQuestion(k vC13QKey) {
	t.addQ(k)
	for i := 0; i <= len(k.name); i++ {
		t.addZone(k.name[i:], k.qclass)
	}
}

func (t *vC13Tab) addZone(z vC13Name, qclass uint16) {
	t.addQ(vC13QKey{name: z, qtype: dns.TypeSOA, qclass: qclass})
}

func (t *vC13Tab) coq() string { return "[" + strings.Join(t.rows, ";") + "]" }

// ----------------------------------------------------------------- entries

func vC13Prov(p FailureProvenance) int {
	switch p {
	case "response":
		return 1
	case "authority":
		return 2
	}
	return 0
}

func vC13EntryCoq(kind FailureKind, prov FailureProvenance, streak uint32, retry time.Time, q FailureQuestionKey, z FailureZoneKey) string {
	var key string
	switch kind {
	case FailureKindQuestion:
		key = "(EQ " + vC13QKeyOf(q).coq() + ")"
	case FailureKindZone:
		key = fmt.Sprintf("(EZ (mk_zkey %s %d))", vC13LabelsOf(z.Zone).coq(), z.Qclass)
	default:
		key = "EOther"
	}
	return fmt.Sprintf("(mk_entry %s %d %d (%d))", key, vC13Prov(prov), streak, int64(retry.Sub(vC13Base)))
}

func vC13HitCoq(h FailureHit, ok bool) string {
	if !ok {
		return "None"
	}
	return "(Some " + vC13EntryCoq(h.Kind, h.Provenance, h.Streak, h.RetryAfter, h.Question, h.Zone) + ")"
}

func vC13SlotCoq(fc *FailureCache, hash uint64) string {
	e, ok := fc.loadEntry(hash)
	if !ok || e == nil {
		return "None"
	}
	return "(Some " + vC13EntryCoq(e.kind, e.provenance, e.streak, e.retryAfter, e.question, e.zone) + ")"
}

func vC13Keys(fc *FailureCache) map[uint64]bool {
	m := map[uint64]bool{}
	fc.entries.ForEach(func(h uint64, _ any) bool { m[h] = true; return true })
	return m
}

func vC13Evicted(before, after map[uint64]bool) string {
	var ev []uint64
	for h := range before {
		if !after[h] {
			ev = append(ev, h)
		}
	}
	sort.Slice(ev, func(i, j int) bool { return ev[i] < ev[j] })
	var s []string
	for _, h := range ev {
		s = append(s, strconv.FormatUint(h, 10))
	}
	return "[" + strings.Join(s, ";") + "]%N"
}

func vC13Dump(fc *FailureCache) (string, int) {
	type row struct {
		h uint64
		s string
	}
	var rows []row
	fc.entries.ForEach(func(h uint64, v any) bool {
		e, ok := v.(*failureEntry)
		if ok && e != nil {
			rows = append(rows, row{h, fmt.Sprintf("(%d%%N,%s)", h, vC13EntryCoq(e.kind, e.provenance, e.streak, e.retryAfter, e.question, e.zone))})
		}
		return true
	})
	sort.Slice(rows, func(i, j int) bool { return rows[i].h < rows[j].h })
	var s []string
	for _, r := range rows {
		s = append(s, r.s)
	}
	return "[" + strings.Join(s, ";") + "]", len(rows)
}

// --------------------------------------------------------------- generator

type vC13Gen struct {
	r       *rand.Rand
	names   []vC13Name // pool used by ordinary operations
	aliens  []vC13Name // names only colliding writers use
	types   []uint16
	classes []uint16
	scopes  []netip.Prefix
	recent  []vC13QKey
	textual []vC13Name // names that are textual, not structural, suffixes of pool names
	traps   []vC13Trap // (zone, name with an escaped-dot label whose tail spells the zone's first labels)
}

// A trap: zone Z = l1.l2...lk and a name that is NOT at or below Z although its
// presentation string ends in Z's: some label is "x.l1[.l2...]" (dots inside the
// label, written "\." in presentation form) followed by the rest of Z.  Any walk
// that looks for the parent in the TEXT of the name visits Z as an ancestor.
type vC13Trap struct {
	zone, name vC13Name
}

// every way of folding the first j labels of zone into one dotted label, with 0..2 plain labels in front
func vC13TrapsFor(r *rand.Rand, zone vC13Name) []vC13Trap {
	var out []vC13Trap
	for j := 1; j <= len(zone); j++ {
		label := vC13RandLabel(r, false)
		for _, l := range zone[:j] {
			label = append(append(label, '.'), l...)
		}
		name := vC13Name{}
		for k := r.Intn(3); k > 0; k-- {
			name = append(name, vC13RandLabel(r, false))
		}
		name = append(append(name, label), zone[j:]...)
		out = append(out, vC13Trap{zone: zone, name: name})
	}
	return out
}

func vC13RandLabel(r *rand.Rand, special bool) []byte {
	n := 1 + r.Intn(2)
	b := make([]byte, n)
	for i := range b {
		b[i] = byte('a' + r.Intn(6))
	}
	if special {
		// a byte that needs an escape in presentation form, inside the label:
		// "\." "\\" "\200" "\ " — text-level shortcuts through the name go wrong here
		sp := []byte{'.', '.', '\\', 200, ' '}[r.Intn(5)]
		tail := make([]byte, 1+r.Intn(2))
		for i := range tail {
			tail[i] = byte('a' + r.Intn(6))
		}
		b = append(append(b, sp), tail...)
	}
	return b
}

// for a label with an inner dot ("x.y"), the name [y]+parent: its presentation
// string is a textual suffix of "x\.y.parent." without being an ancestor of it
func vC13TextualSiblings(n vC13Name) []vC13Name {
	var out []vC13Name
	for i, l := range n {
		for j, c := range l {
			if c == '.' && j+1 < len(l) {
				out = append(out, append(vC13Name{append([]byte(nil), l[j+1:]...)}, n[i+1:]...))
			}
		}
	}
	return out
}

func newVC13Gen(r *rand.Rand) *vC13Gen {
	g := &vC13Gen{r: r}
	special := r.Intn(4) == 0
	tld := vC13RandLabel(r, false)
	z1 := vC13Name{vC13RandLabel(r, special), tld}
	z2 := vC13Name{vC13RandLabel(r, false), tld}
	g.names = []vC13Name{
		{}, {tld}, z1, z2,
		append(vC13Name{vC13RandLabel(r, special)}, z1...),
		append(vC13Name{vC13RandLabel(r, false)}, z1...),
		append(vC13Name{vC13RandLabel(r, false), vC13RandLabel(r, false)}, z1...),
		append(vC13Name{vC13RandLabel(r, false)}, z2...),
	}
	// a sibling whose presentation string has the zone's string as a suffix but
	// is not below it: "xab.com." vs "ab.com."
	g.names = append(g.names, vC13Name{append([]byte{'x'}, z1[0]...), tld})
	for _, nm := range append([]vC13Name(nil), g.names...) {
		for _, sib := range vC13TextualSiblings(nm) {
			g.names = append(g.names, sib)
			g.textual = append(g.textual, sib)
		}
	}
	if r.Intn(2) == 0 {
		// escaped-dot labels whose tail spells a zone of the pool, at every position
		z3 := append(vC13Name{vC13RandLabel(r, false)}, z2...)
		g.names = append(g.names, z3)
		for _, z := range []vC13Name{{tld}, z2, z3} {
			for _, t := range vC13TrapsFor(r, z) {
				g.traps = append(g.traps, t)
				g.names = append(g.names, t.name)
				g.textual = append(g.textual, t.zone)
			}
		}
	}
	alienTLD := []byte("zz")
	g.aliens = []vC13Name{{alienTLD}, {vC13RandLabel(r, false), alienTLD}, {z1[0], alienTLD}}
	g.types = []uint16{dns.TypeA, dns.TypeAAAA, dns.TypeSOA}
	g.classes = []uint16{dns.ClassINET, dns.ClassCHAOS}
	g.scopes = []netip.Prefix{
		{}, {}, {},
		netip.MustParsePrefix("192.0.2.0/24"),
		netip.MustParsePrefix("192.0.2.77/24"), // host bits: same audience after masking
		netip.MustParsePrefix("192.0.2.0/25"),
		netip.MustParsePrefix("10.1.2.3/0"), // /0 is the shared audience
		netip.MustParsePrefix("2001:db8::/32"),
		netip.MustParsePrefix("2001:db8:0:1::/64"),
		netip.MustParsePrefix("::ffff:192.0.2.0/120"),
	}
	return g
}

func (g *vC13Gen) caseMix(n vC13Name) vC13Name {
	if g.r.Intn(4) != 0 {
		return n
	}
	out := make(vC13Name, len(n))
	for i, l := range n {
		b := append([]byte(nil), l...)
		for j, c := range b {
			if c >= 'a' && c <= 'z' && g.r.Intn(2) == 0 {
				b[j] = c - 32
			}
		}
		out[i] = b
	}
	return out
}

// a key that was used before in this history (exactly, or with the case of its
// name changed), so that lookups, retry keys and resets meet recorded state
func (g *vC13Gen) hot() vC13QKey {
	if len(g.recent) == 0 || g.r.Intn(100) >= 45 {
		k := g.qkey()
		g.recent = append(g.recent, k)
		return k
	}
	k := g.recent[g.r.Intn(len(g.recent))]
	k.name = g.caseMix(k.name)
	if g.r.Intn(6) == 0 {
		k.name = append(vC13Name{vC13RandLabel(g.r, false)}, k.name...)
	}
	return k
}

func (g *vC13Gen) qkey() vC13QKey {
	k := vC13QKey{
		name:   g.caseMix(g.names[g.r.Intn(len(g.names))]),
		qtype:  g.types[g.r.Intn(len(g.types))],
		qclass: g.classes[0],
		cd:     g.r.Intn(3) == 0,
		scope:  g.scopes[g.r.Intn(len(g.scopes))],
	}
	if g.r.Intn(5) == 0 {
		k.qclass = g.classes[1]
	}
	if g.r.Intn(3) != 0 {
		k.qtype = g.types[0]
	}
	return k
}

func (g *vC13Gen) zone() (vC13Name, uint16) {
	z := g.caseMix(g.names[g.r.Intn(4)]) // root, tld, the two zones
	if g.r.Intn(4) == 0 {
		z = g.caseMix(g.names[g.r.Intn(len(g.names))])
	}
	if len(g.textual) > 0 && g.r.Intn(3) == 0 {
		z = g.caseMix(g.textual[g.r.Intn(len(g.textual))])
	}
	c := g.classes[0]
	if g.r.Intn(6) == 0 {
		c = g.classes[1]
	}
	return z, c
}

func vC13Durations(r *rand.Rand) (time.Duration, time.Duration) {
	var init time.Duration
	switch r.Intn(8) {
	case 0:
		init = time.Second
	case 1:
		init = 5 * time.Second
	case 2:
		init = 5 * time.Minute
	case 3:
		init = time.Second + time.Duration(r.Int63n(int64(4*time.Second)))
	case 4:
		init = time.Duration(1+r.Intn(300)) * time.Second
	case 5:
		init = 150*time.Second + time.Duration(r.Intn(3)-1)
	default:
		init = time.Duration(1+r.Intn(20)) * time.Second
	}
	ceiling := 5 * time.Minute
	var max time.Duration
	switch r.Intn(8) {
	case 0:
		max = init
	case 1:
		max = ceiling
	case 2:
		max = 2*init + time.Duration(r.Intn(3)-1)
	case 3:
		max = 4*init + time.Duration(r.Intn(3)-1)
	case 4:
		max = init + time.Duration(r.Int63n(int64(ceiling-init)+1))
	case 5:
		max = 3 * init
	default:
		max = init * time.Duration(1<<uint(r.Intn(7)))
	}
	if max < init {
		max = init
	}
	if max > ceiling {
		max = ceiling
	}
	return init, max
}

// ------------------------------------------------------------- history case

func vC13History(r *rand.Rand, quickOps int) map[string]any { return vC13HistoryWith(r, quickOps, nil) }

// fixed != nil: a corpus history — only the directed trap block, on the given zone and name
func vC13HistoryWith(r *rand.Rand, quickOps int, fixed *vC13Trap) map[string]any {
	g := newVC13Gen(r)
	if fixed != nil {
		g.traps = []vC13Trap{*fixed}
	}
	init, max := vC13Durations(r)
	size := 64
	small := r.Intn(6) == 0
	if small {
		size = 2 + r.Intn(5)
	}
	disabled := r.Intn(10) == 0
	if fixed != nil {
		small, size, disabled = false, 64, false
	}
	clock := &vC13Clock{now: vC13Base}
	fc, err := NewFailureCache(FailureCacheConfig{Size: size, InitialTTL: init, MaxTTL: max, Now: clock.Now})
	if err != nil {
		panic(err)
	}
	defer fc.Stop()
	metrics := &CacheMetrics{}
	ccfg := CacheConfig{Size: 1024, PositiveTTL: maxTTL, NegativeTTL: time.Minute, MinTTL: minTTL, MaxTTL: maxTTL}
	st := NewStore(NewPositiveCache(1024, minTTL, maxTTL, metrics), NewNegativeCache(16, minTTL, time.Minute, metrics), ccfg, fc)
	defer st.Stop()
	st.failureCacheDisabled = disabled

	tab := newVC13Tab()
	var ops, desc []string
	var instants []int64 // retry-after instants seen so far (ns since base)
	noteSlot := func(hash uint64) {
		if e, ok := fc.loadEntry(hash); ok && e != nil {
			instants = append(instants, int64(e.retryAfter.Sub(vC13Base)))
		}
	}
	hits, misses, evictions, collisions := 0, 0, 0, 0
	planted := map[string]bool{}
	opLookup := func(k vC13QKey) {
		tab.addQuestion(k)
		hit, ok := st.LookupFailure(k.req(), k.scope)
		if ok {
			hits++
		} else {
			misses++
		}
		obs := vC13HitCoq(hit, ok)
		ops = append(ops, fmt.Sprintf("OLookup %s %s", k.coq(), obs))
		desc = append(desc, fmt.Sprintf("LookupFailure %s -> %s", k.coq(), obs))
	}
	opLookupWire := func(k vC13QKey) {
		k.scope = netip.Prefix{}
		tab.addQuestion(k)
		hit, ok := st.LookupFailureWire(k.name.wire(), k.qtype, k.qclass, k.cd)
		if ok {
			hits++
		} else {
			misses++
		}
		obs := vC13HitCoq(hit, ok)
		ops = append(ops, fmt.Sprintf("OLookupWire %s %d %d %v %s", k.name.coq(), k.qtype, k.qclass, k.cd, obs))
		desc = append(desc, fmt.Sprintf("LookupFailureWire %s -> %s", k.coq(), obs))
	}
	opRetryKey := func(k vC13QKey) {
		tab.addQuestion(k)
		key, ok := st.FailureRetryKey(k.req(), k.scope)
		obs := "None"
		if ok {
			obs = fmt.Sprintf("(Some %d%%N)", key)
		}
		ops = append(ops, fmt.Sprintf("ORetryKey %s %s", k.coq(), obs))
		desc = append(desc, fmt.Sprintf("FailureRetryKey %s -> %s", k.coq(), obs))
	}
	opRecZone := func(z vC13Name, c uint16) {
		tab.addZone(z, c)
		before := vC13Keys(fc)
		st.RecordZoneFailure(dns.Question{Name: "seed." + z.pres(), Qtype: dns.TypeA, Qclass: c}, z.pres())
		h := failureZoneHash(normalizeFailureZoneKey(FailureZoneKey{Zone: z.pres(), Qclass: c}))
		ev := vC13Evicted(before, vC13Keys(fc))
		noteSlot(h)
		obs := vC13SlotCoq(fc, h)
		ops = append(ops, fmt.Sprintf("ORecZ %d (Some %s) %s %s", c, z.coq(), ev, obs))
		desc = append(desc, fmt.Sprintf("RecordZoneFailure %q class %d -> %s", z.pres(), c, obs))
	}
	opResetMatching := func(k vC13QKey) {
		tab.addQuestion(k)
		st.resetMatchingFailures(dns.Question{Name: k.name.pres(), Qtype: k.qtype, Qclass: k.qclass}, k.cd, k.scope)
		ops = append(ops, "OResetMatching "+k.coq())
		desc = append(desc, "resetMatchingFailures "+k.coq())
	}
	opAdvance := func(dt int64) {
		if dt < 0 {
			dt = 0
		}
		clock.now = clock.now.Add(time.Duration(dt))
		ops = append(ops, fmt.Sprintf("OAdvance %d", dt))
		desc = append(desc, fmt.Sprintf("advance %s", time.Duration(dt)))
	}
	// Directed: zone Z fails; a name whose escaped-dot label only SPELLS Z is asked
	// for (decoded and wire lookups, retry key) and recovers (ResetMatching); a real
	// child of Z is asked before and after.  Then the same once Z's backoff has ended.
	runTrap := func(t vC13Trap) {
		c := uint16(dns.ClassINET)
		trap := vC13QKey{name: g.caseMix(t.name), qtype: dns.TypeA, qclass: c, cd: r.Intn(3) == 0}
		child := vC13QKey{name: append(vC13Name{vC13RandLabel(r, false)}, t.zone...), qtype: dns.TypeA, qclass: c, cd: trap.cd}
		opRecZone(g.caseMix(t.zone), c)
		opLookup(trap)
		opLookupWire(trap)
		opRetryKey(trap)
		opLookup(child)
		opResetMatching(trap)
		opLookup(child)
		opLookupWire(child)
		if e, ok := fc.loadEntry(failureZoneHash(normalizeFailureZoneKey(FailureZoneKey{Zone: t.zone.pres(), Qclass: c}))); ok && e != nil {
			opAdvance(int64(e.retryAfter.Sub(clock.now)) + int64(r.Intn(2)))
		}
		opRetryKey(trap)
		opRetryKey(child)
		opResetMatching(trap)
		opRetryKey(child)
	}
	nops := quickOps/2 + r.Intn(quickOps)
	trapAt := -1
	if len(g.traps) > 0 && !disabled {
		trapAt = r.Intn(nops)
	}
	if fixed != nil {
		nops, trapAt = 1, 0
	}
	// a key whose streak is about to saturate: its own state, written into its
	// own slot, expired a moment ago; the following failures renew it
	saturating := fixed == nil && !disabled && r.Intn(8) == 0
	var satKey vC13QKey
	if saturating {
		satKey = g.hot()
		tab.addQuestion(satKey)
		fk := normalizeFailureQuestionKey(satKey.fkey())
		slot := failureQuestionHash(fk)
		e := &failureEntry{kind: FailureKindQuestion, provenance: "response", question: fk,
			streak: ^uint32(0) - uint32(r.Intn(3)), retryAfter: clock.now.Add(-time.Duration(r.Int63n(int64(max))))}
		before := vC13Keys(fc)
		fc.entries.Add(slot, e)
		ev := vC13Evicted(before, vC13Keys(fc))
		ec := vC13EntryCoq(e.kind, e.provenance, e.streak, e.retryAfter, e.question, e.zone)
		ops = append(ops, fmt.Sprintf("OPlant %d %s true %s", slot, ec, ev))
		desc = append(desc, fmt.Sprintf("plant slot=%d own=true %s", slot, ec))
		collisions++
	}
	for i := 0; i < nops; i++ {
		w := r.Intn(100)
		if i == trapAt {
			runTrap(g.traps[r.Intn(len(g.traps))])
			continue
		}
		if saturating && i < 8 && i%2 == 0 {
			// fail again as soon as the current generation has ended
			if e, ok := fc.loadEntry(failureQuestionHash(normalizeFailureQuestionKey(satKey.fkey()))); ok && e != nil {
				if dt := int64(e.retryAfter.Sub(clock.now)) + int64(r.Intn(2)); dt > 0 {
					clock.now = clock.now.Add(time.Duration(dt))
					ops = append(ops, fmt.Sprintf("OAdvance %d", dt))
					desc = append(desc, fmt.Sprintf("advance %s", time.Duration(dt)))
				}
			}
			before := vC13Keys(fc)
			st.RecordFailure(satKey.req(), satKey.scope, FailureProvenance("response"), nil)
			h := failureQuestionHash(normalizeFailureQuestionKey(satKey.fkey()))
			ev := vC13Evicted(before, vC13Keys(fc))
			noteSlot(h)
			obs := vC13SlotCoq(fc, h)
			ops = append(ops, fmt.Sprintf("ORecQ %s %s %s", satKey.coq(), ev, obs))
			desc = append(desc, fmt.Sprintf("RecordFailure %s -> %s", satKey.coq(), obs))
			continue
		}
		switch {
		case w < 16: // time
			var dt int64
			switch r.Intn(7) {
			case 0, 1:
				if len(instants) > 0 {
					t := instants[r.Intn(len(instants))]
					dt = t - clock.rel() + int64(r.Intn(3)-1) // expiry boundary -1/0/+1 ns
				}
			case 2:
				if len(instants) > 0 {
					t := instants[r.Intn(len(instants))]
					dt = t + int64(max) - clock.rel() + int64(r.Intn(3)-1) // idle >= max boundary
				}
			case 3:
				dt = int64(init) + int64(r.Intn(3)-1)
			case 4:
				dt = r.Int63n(int64(max) + 1)
			case 5:
				dt = r.Int63n(int64(2*time.Second) + 1)
			case 6:
				dt = int64(time.Duration(r.Intn(400)) * 24 * time.Hour)
			}
			if dt < 0 {
				dt = 0
			}
			clock.now = clock.now.Add(time.Duration(dt))
			ops = append(ops, fmt.Sprintf("OAdvance %d", dt))
			desc = append(desc, fmt.Sprintf("advance %s", time.Duration(dt)))
		case w < 34: // question failure through the Store
			k := g.hot()
			tab.addQuestion(k)
			before := vC13Keys(fc)
			st.RecordFailure(k.req(), k.scope, FailureProvenance("response"), nil)
			h := failureQuestionHash(normalizeFailureQuestionKey(k.fkey()))
			ev := vC13Evicted(before, vC13Keys(fc))
			if ev != "[]%N" {
				evictions++
			}
			noteSlot(h)
			obs := vC13SlotCoq(fc, h)
			ops = append(ops, fmt.Sprintf("ORecQ %s %s %s", k.coq(), ev, obs))
			desc = append(desc, fmt.Sprintf("RecordFailure %s -> %s", k.coq(), obs))
		case w < 46: // zone failure
			z, c := g.zone()
			tab.addZone(z, c)
			before := vC13Keys(fc)
			zoneArg, zcoq := z.pres(), "(Some "+z.coq()+")"
			if r.Intn(12) == 0 {
				zoneArg, zcoq = "", "None"
			}
			st.RecordZoneFailure(dns.Question{Name: "seed." + zoneArg, Qtype: dns.TypeA, Qclass: c}, zoneArg)
			h := failureZoneHash(normalizeFailureZoneKey(FailureZoneKey{Zone: z.pres(), Qclass: c}))
			ev := vC13Evicted(before, vC13Keys(fc))
			if ev != "[]%N" {
				evictions++
			}
			obs := "None"
			if zoneArg != "" {
				noteSlot(h)
				obs = vC13SlotCoq(fc, h)
			}
			ops = append(ops, fmt.Sprintf("ORecZ %d %s %s %s", c, zcoq, ev, obs))
			desc = append(desc, fmt.Sprintf("RecordZoneFailure %q class %d -> %s", zoneArg, c, obs))
		case w < 66: // lookup
			opLookup(g.hot())
		case w < 73: // wire lookup (no scope)
			opLookupWire(g.hot())
		case w < 80: // retry key
			opRetryKey(g.hot())
		case w < 83:
			z, c := g.zone()
			tab.addZone(z, c)
			zoneArg, zcoq := z.pres(), "(Some "+z.coq()+")"
			if r.Intn(12) == 0 {
				zoneArg, zcoq = "", "None"
			}
			st.ClearZoneFailure(dns.Question{Name: "x.", Qtype: dns.TypeA, Qclass: c}, zoneArg)
			ops = append(ops, fmt.Sprintf("OClearZone %d %s", c, zcoq))
			desc = append(desc, fmt.Sprintf("ClearZoneFailure %q class %d", zoneArg, c))
		case w < 85:
			k := g.qkey()
			tab.addQuestion(k)
			st.resetQuestionFailure(dns.Question{Name: k.name.pres(), Qtype: k.qtype, Qclass: k.qclass}, k.cd, k.scope)
			ops = append(ops, "OResetQ "+k.coq())
			desc = append(desc, "resetQuestionFailure "+k.coq())
		case w < 89:
			k := g.hot()
			tab.addQuestion(k)
			st.resetMatchingFailures(dns.Question{Name: k.name.pres(), Qtype: k.qtype, Qclass: k.qclass}, k.cd, k.scope)
			ops = append(ops, "OResetMatching "+k.coq())
			desc = append(desc, "resetMatchingFailures "+k.coq())
		case w < 90:
			k := g.qkey()
			st.Purge(dns.Question{Name: k.name.pres(), Qtype: k.qtype, Qclass: k.qclass})
			ops = append(ops, fmt.Sprintf("OPurge %s %d %d", k.name.coq(), k.qtype, k.qclass))
			desc = append(desc, "Purge "+k.coq())
		case w < 92:
			n := st.FailureLen()
			ops = append(ops, fmt.Sprintf("OLen %d", n))
			desc = append(desc, fmt.Sprintf("FailureLen -> %d", n))
		case w < 95: // Store.SetFromResponse: another write-back route
			k := g.hot()
			if r.Intn(3) != 0 {
				k.scope = netip.Prefix{}
			}
			tab.addQuestion(k)
			gk := k
			gk.scope = netip.Prefix{}
			tab.addQuestion(gk)
			resp := new(dns.Msg)
			resp.SetReply(k.req())
			failure := r.Intn(3) != 0
			if failure {
				resp.Rcode = []int{dns.RcodeServerFailure, dns.RcodeRefused, dns.RcodeNotImplemented}[r.Intn(3)]
			} else if r.Intn(2) == 0 {
				resp.Rcode = dns.RcodeNameError
			} else if k.qtype == dns.TypeA {
				resp.Answer = []dns.RR{&dns.A{Hdr: dns.RR_Header{Name: k.name.pres(), Rrtype: dns.TypeA, Class: k.qclass, Ttl: 300}, A: []byte{192, 0, 2, 1}}}
			}
			before := vC13Keys(fc)
			if normalizeKeyScope(k.scope).IsValid() {
				// the pre-keyed scoped route (ResponseWriter uses it for SCOPE>0 answers)
				key := CacheKey{Question: resp.Question[0], CD: k.cd, Scope: k.scope}.Hash()
				st.SetFromResponseScoped(key, resp, k.scope, time.Time{}, 0)
			} else {
				st.SetFromResponse(resp, k.cd, time.Time{})
			}
			h := failureQuestionHash(normalizeFailureQuestionKey(gk.fkey()))
			ev := "[]%N"
			if failure {
				ev = vC13Evicted(before, vC13Keys(fc))
				noteSlot(h)
			}
			obs := vC13SlotCoq(fc, h)
			ops = append(ops, fmt.Sprintf("OSetResp %s %v %s %s", k.coq(), failure, ev, obs))
			desc = append(desc, fmt.Sprintf("SetFromResponse rcode=%d %s -> %s", resp.Rcode, k.coq(), obs))
		case w < 97: // direct FailureCache resets with their return values
			k := g.qkey()
			tab.addQuestion(k)
			switch r.Intn(4) {
			case 0:
				ok := fc.ResetQuestion(k.fkey())
				ops = append(ops, fmt.Sprintf("OFcResetQ %s %v", k.coq(), ok))
				desc = append(desc, fmt.Sprintf("ResetQuestion %s -> %v", k.coq(), ok))
			case 1:
				z, c := g.zone()
				tab.addZone(z, c)
				ok := fc.ResetZone(FailureZoneKey{Zone: z.pres(), Qclass: c})
				ops = append(ops, fmt.Sprintf("OFcResetZ (mk_zkey %s %d) %v", z.coq(), c, ok))
				desc = append(desc, fmt.Sprintf("ResetZone %s -> %v", z.pres(), ok))
			case 2:
				n := fc.ResetMatching(k.fkey())
				ops = append(ops, fmt.Sprintf("OFcResetMatching %s %d", k.coq(), n))
				desc = append(desc, fmt.Sprintf("ResetMatching %s -> %d", k.coq(), n))
			case 3:
				n := fc.PurgeQuestion(dns.Question{Name: k.name.pres(), Qtype: k.qtype, Qclass: k.qclass})
				ops = append(ops, fmt.Sprintf("OFcPurge %s %d %d %d", k.name.coq(), k.qtype, k.qclass, n))
				desc = append(desc, fmt.Sprintf("PurgeQuestion %s -> %d", k.coq(), n))
			}
		default: // a colliding writer: an entry for some OTHER key sits in the slot of a pool key
			if disabled {
				continue
			}
			victim := g.hot()
			if r.Intn(2) == 0 {
				victim.scope = netip.Prefix{}
			}
			tab.addQuestion(victim)
			var slot uint64
			zoneSlot := r.Intn(2) == 0
			vz, vc := g.zone()
			tab.addZone(vz, vc)
			if zoneSlot {
				slot = failureZoneHash(normalizeFailureZoneKey(FailureZoneKey{Zone: vz.pres(), Qclass: vc}))
			} else {
				slot = failureQuestionHash(normalizeFailureQuestionKey(victim.fkey()))
			}
			e := &failureEntry{provenance: "response"}
			switch r.Intn(4) {
			case 0:
				e.streak = ^uint32(0) - uint32(r.Intn(3))
			case 1:
				e.streak = 1
			default:
				e.streak = uint32(1 + r.Intn(12))
			}
			if r.Intn(3) == 0 {
				e.retryAfter = clock.now.Add(-time.Duration(r.Int63n(int64(2 * max))))
			} else {
				e.retryAfter = clock.now.Add(time.Duration(1 + r.Int63n(int64(max))))
			}
			alien := g.aliens[r.Intn(len(g.aliens))]
			vq := normalizeFailureQuestionKey(victim.fkey())
			vzk := normalizeFailureZoneKey(FailureZoneKey{Zone: vz.pres(), Qclass: vc})
			if zoneSlot {
				switch r.Intn(7) {
				case 0: // the slot's own key with a chosen streak (saturation tests)
					e.kind, e.zone = FailureKindZone, vzk
				case 1: // same zone, other class
					e.kind, e.zone = FailureKindZone, FailureZoneKey{Zone: vzk.Zone, Qclass: vzk.Qclass ^ 2}
				case 2: // other zone: a sibling whose string ends like the zone, or a foreign one
					e.kind = FailureKindZone
					e.zone = FailureZoneKey{Zone: []vC13Name{g.names[8].lower(), alien, g.aliens[2]}[r.Intn(3)].pres(), Qclass: vc}
				case 3: // a child of the zone: below, not above, the names that walk through this slot
					e.kind = FailureKindZone
					e.zone = FailureZoneKey{Zone: append(vC13Name{[]byte("k")}, vz.lower()...).pres(), Qclass: vc}
				case 4: // the question with the zone's own preimage (SOA, CD=0, unscoped): kind confusion
					e.kind = FailureKindQuestion
					e.question = FailureQuestionKey{Question: dns.Question{Name: vzk.Zone, Qtype: dns.TypeSOA, Qclass: vc}}
				case 5: // neither kind
					e.kind = 0
				case 6: // a parent of the zone
					e.kind = FailureKindZone
					if len(vz) > 0 {
						e.zone = FailureZoneKey{Zone: vz[1:].lower().pres(), Qclass: vc}
					} else {
						e.zone = FailureZoneKey{Zone: alien.pres(), Qclass: vc}
					}
				}
			} else {
				e.kind = FailureKindQuestion
				e.question = vq
				switch r.Intn(8) {
				case 0: // own key
				case 1:
					e.question.Question.Name = []vC13Name{alien, g.names[r.Intn(len(g.names))].lower()}[r.Intn(2)].pres()
				case 2:
					e.question.Question.Qtype = []uint16{dns.TypeA, dns.TypeAAAA, dns.TypeSOA, dns.TypeMX}[r.Intn(4)]
				case 3:
					e.question.Question.Qclass ^= 2
				case 4:
					e.question.CD = !e.question.CD
				case 5:
					e.question.Scope = normalizeKeyScope(g.scopes[r.Intn(len(g.scopes))])
				case 6: // the zone state of the very same name in the question's slot
					e.kind, e.question = FailureKindZone, FailureQuestionKey{}
					e.zone = FailureZoneKey{Zone: vq.Question.Name, Qclass: vq.Question.Qclass}
				case 7:
					e.kind, e.question = 0, FailureQuestionKey{}
				}
			}
			own := (e.kind == FailureKindZone && failureZoneHash(e.zone) == slot) ||
				(e.kind == FailureKindQuestion && failureQuestionHash(e.question) == slot)
			// one foreign state per key and history keeps the trace readable
			if e.kind != 0 && !own {
				id := vC13EntryCoq(e.kind, "", 0, vC13Base, e.question, e.zone)
				if planted[id] {
					continue
				}
				planted[id] = true
			}
			collisions++
			before := vC13Keys(fc)
			fc.entries.Add(slot, e)
			after := vC13Keys(fc)
			ev := vC13Evicted(before, after)
			instants = append(instants, int64(e.retryAfter.Sub(vC13Base)))
			ec := vC13EntryCoq(e.kind, e.provenance, e.streak, e.retryAfter, e.question, e.zone)
			ops = append(ops, fmt.Sprintf("OPlant %d %s %v %s", slot, ec, own, ev))
			desc = append(desc, fmt.Sprintf("plant slot=%d own=%v %s", slot, own, ec))
			// what the slot's rightful key sees now
			probe := victim
			if zoneSlot {
				probe = vC13QKey{name: append(vC13Name{vC13RandLabel(r, false)}, vz...), qtype: dns.TypeA, qclass: vc, cd: r.Intn(2) == 0, scope: g.scopes[r.Intn(len(g.scopes))]}
				if r.Intn(3) == 0 {
					probe.name = vz
				}
			}
			if r.Intn(4) != 0 {
				opLookup(probe)
			}
			if r.Intn(4) != 0 && (zoneSlot || !victim.scope.IsValid()) {
				opLookupWire(probe)
			}
			if r.Intn(3) == 0 {
				opRetryKey(probe)
			}
		}
	}
	final, n := vC13Dump(fc)
	k := "hist"
	switch {
	case disabled:
		k = "hist-rfc9520-off"
	case small:
		k = "hist-small-capacity"
	case collisions > 0:
		k = "hist-collisions"
	case trapAt >= 0:
		k = "hist-escaped-dot-trap"
	}
	if fixed != nil {
		k = "hist-corpus-trap"
	}
	return map[string]any{
		"k": k,
		"coq": fmt.Sprintf("CaseHist %d %d %v %s [%s] %s", int64(init), int64(max), disabled, tab.coq(), strings.Join(ops, ";"), final),
		"nontrivial": hits > 0 && misses > 0,
		"desc":       map[string]any{"init": init.String(), "max": max.String(), "size": size, "rfc9520_off": disabled, "ops": desc, "retained": n, "evicting_ops": evictions},
	}
}

// ------------------------------------------------------------- other cases

func vC13BackoffCase(r *rand.Rand) map[string]any {
	init, max := vC13Durations(r)
	fc, err := NewFailureCache(FailureCacheConfig{Size: 8, InitialTTL: init, MaxTTL: max})
	if err != nil {
		panic(err)
	}
	defer fc.Stop()
	var obs, desc []string
	goFail := ""
	prev := time.Duration(0)
	add := func(s uint32) {
		d := fc.backoff(s)
		obs = append(obs, fmt.Sprintf("(%d%%N,%d)", s, int64(d)))
		desc = append(desc, fmt.Sprintf("%d:%s", s, d))
		if d > 5*time.Minute || d > max || d < init {
			if goFail == "" {
				goFail = fmt.Sprintf("backoff(%d)=%s outside [%s,%s] (ceiling 5m)", s, d, init, max)
			}
		}
		prev = d
	}
	for s := uint32(1); s <= 14; s++ {
		add(s)
	}
	for _, s := range []uint32{31, 32, 33, 63, 64, 65, 66, 1 << 16, 1<<31 - 1, 1 << 31, ^uint32(0) - 1, ^uint32(0), uint32(r.Int63n(1 << 32))} {
		add(s)
	}
	_ = prev
	return map[string]any{
		"k":          "backoff",
		"coq":        fmt.Sprintf("CaseBackoff %d %d [%s]", int64(init), int64(max), strings.Join(obs, ";")),
		"go_fail":    goFail,
		"nontrivial": max > init,
		"desc":       map[string]any{"init": init.String(), "max": max.String(), "backoff": desc},
	}
}

func vC13NewCase(r *rand.Rand) map[string]any {
	pick := func() time.Duration {
		switch r.Intn(10) {
		case 0:
			return 0
		case 1:
			return time.Second
		case 2:
			return time.Second - 1
		case 3:
			return 5 * time.Minute
		case 4:
			return 5*time.Minute + 1
		case 5:
			return time.Duration(r.Int63n(int64(10 * time.Minute)))
		case 6:
			return -time.Second
		case 7:
			return 5 * time.Second
		default:
			return time.Duration(r.Intn(400)) * time.Second
		}
	}
	size := []int{-1, 0, 1, 2, 4096, 100000}[r.Intn(6)]
	init, max := pick(), pick()
	if r.Intn(3) == 0 && init > 0 {
		max = init + time.Duration(r.Intn(3)-1)
	}
	fc, err := NewFailureCache(FailureCacheConfig{Size: size, InitialTTL: init, MaxTTL: max})
	ok := err == nil
	var ei, em int64
	goFail := ""
	if ok {
		ei, em = int64(fc.initialTTL), int64(fc.maxTTL)
		fc.Stop()
		if fc.maxTTL > 5*time.Minute {
			goFail = fmt.Sprintf("NewFailureCache accepted maxTTL %s above the five minute ceiling", fc.maxTTL)
		}
	}
	return map[string]any{
		"k":          map[bool]string{true: "new-accepted", false: "new-rejected"}[ok],
		"coq":        fmt.Sprintf("CaseNew (%d) (%d) (%d) %v (%d) (%d)", size, int64(init), int64(max), ok, ei, em),
		"go_fail":    goFail,
		"nontrivial": true,
		"desc":       map[string]any{"size": size, "init": init.String(), "max": max.String(), "accepted": ok, "err": fmt.Sprint(err)},
	}
}

// the request-local facts, realised in a real context / response
func vC13AdmitCtx(r *rand.Rand, ctxErr, bestEffort, workLimit, marked bool, res *dns.Msg) (context.Context, func(), string) {
	ctx := context.Background()
	cancel := func() {}
	var how []string
	q := dns.Question{Name: "admit.example.", Qtype: dns.TypeA, Qclass: dns.ClassINET}
	// work budget: an enforce-mode ledger crossed (fact true) or a shadow-mode one (fact false)
	if workLimit {
		ledger := middleware.NewRecursionWorkLedger(middleware.RecursionWorkPolicy{Mode: middleware.RecursionWorkEnforce, MaxOutboundQueries: 1, MaxInternalQueries: 1, MaxSignatureChecks: 1})
		kind := []middleware.RecursionWorkKind{middleware.RecursionWorkOutboundQuery, middleware.RecursionWorkInternalQuery, middleware.RecursionWorkSignature}[r.Intn(3)]
		_ = ledger.Debit(kind)
		_ = ledger.Debit(kind)
		ctx = middleware.WithRecursionWork(ctx, ledger)
		how = append(how, "work-limit(enforce)")
	} else if r.Intn(3) == 0 {
		ledger := middleware.NewRecursionWorkLedger(middleware.RecursionWorkPolicy{Mode: middleware.RecursionWorkShadow, MaxOutboundQueries: 1, MaxInternalQueries: 1})
		_ = ledger.Debit(middleware.RecursionWorkOutboundQuery)
		_ = ledger.Debit(middleware.RecursionWorkOutboundQuery)
		ctx = middleware.WithRecursionWork(ctx, ledger)
		how = append(how, "work-crossed(shadow: not enforced)")
	}
	if bestEffort {
		ctx = middleware.WithBestEffortRecursionWork(ctx)
		how = append(how, "best-effort")
	}
	ctx, guard := middleware.EnsureResolutionAttemptGuard(ctx)
	if marked {
		var err error
		switch r.Intn(6) {
		case 0:
			for range 3 {
				_ = guard.Begin(q, "192.0.2.53:53", "udp")
			}
			err = guard.Begin(q, "192.0.2.53:53", "udp")
		case 1:
			err = middleware.ErrFailureProbeLimit
		case 2:
			err = middleware.ErrMaxRecursion
		case 3:
			err = context.Canceled
		case 4:
			err = context.DeadlineExceeded
		case 5:
			err = fmt.Errorf("wrapped: %w", middleware.ErrRecursionWorkLimit)
		}
		middleware.MarkRequestLocalFailureResponse(ctx, res, err)
		how = append(how, fmt.Sprintf("marked(%v)", err))
	} else {
		switch r.Intn(3) {
		case 0: // a shared (network) error is not a request-local mark
			middleware.MarkRequestLocalFailureResponse(ctx, res, errors.New("read udp: i/o timeout"))
			how = append(how, "mark-attempt(network error: ignored)")
		case 1: // another response of the same tree is marked, not this one
			other := res.Copy()
			middleware.MarkRequestLocalFailureResponse(ctx, other, middleware.ErrResolutionAttemptLimit)
			how = append(how, "other-response-marked")
		}
	}
	if ctxErr {
		switch r.Intn(3) {
		case 0:
			c2, cf := context.WithCancel(ctx)
			cf()
			ctx = c2
			how = append(how, "canceled")
		case 1:
			c2, cf := context.WithDeadline(ctx, time.Unix(1, 0))
			ctx, cancel = c2, cf
			how = append(how, "deadline-exceeded")
		case 2:
			c2, cf := context.WithTimeout(ctx, 0)
			ctx, cancel = c2, cf
			how = append(how, "timeout-0")
		}
	} else if r.Intn(3) == 0 {
		c2, cf := context.WithTimeout(ctx, time.Hour)
		ctx, cancel = c2, cf
		how = append(how, "deadline-far")
	}
	return ctx, cancel, strings.Join(how, "+")
}

func vC13AdmitCase(r *rand.Rand, bits int) map[string]any {
	ctxErr, bestEffort, workLimit, marked := bits&1 != 0, bits&2 != 0, bits&4 != 0, bits&8 != 0
	req := new(dns.Msg)
	req.SetQuestion("admit.example.", dns.TypeA)
	res := new(dns.Msg)
	res.SetRcode(req, dns.RcodeServerFailure)
	ctx, cancel, how := vC13AdmitCtx(r, ctxErr, bestEffort, workLimit, marked, res)
	defer cancel()
	obs := cacheableResolutionFailure(ctx, res)
	k := "admit-shared"
	if bits != 0 {
		k = "admit-request-local"
	}
	return map[string]any{
		"k":          k,
		"coq":        fmt.Sprintf("CaseAdmit (mk_req_local %v %v %v %v) %v", ctxErr, bestEffort, workLimit, marked, obs),
		"nontrivial": true,
		"desc":       map[string]any{"facts": how, "cacheable": obs},
	}
}

// n goroutines record the same key once its backoff has ended; every call reads
// its own clock value (1 ms apart, far inside one initial interval)
func vC13RaceCase(r *rand.Rand) map[string]any {
	init, max := vC13Durations(r)
	var tick atomic.Int64
	start := vC13Base.Add(time.Hour)
	var readings sync.Map
	fc, err := NewFailureCache(FailureCacheConfig{Size: 64, InitialTTL: init, MaxTTL: max, Now: func() time.Time {
		n := tick.Add(1)
		readings.Store(n, true)
		return start.Add(time.Duration(n) * time.Millisecond)
	}})
	if err != nil {
		panic(err)
	}
	defer fc.Stop()
	g := newVC13Gen(r)
	zoneKind := r.Intn(2) == 0
	k := g.qkey()
	z, zc := g.zone()
	var slot uint64
	e := &failureEntry{provenance: "response"}
	switch r.Intn(4) {
	case 0:
		e.streak = ^uint32(0) - uint32(r.Intn(2))
	case 1:
		e.streak = 1
	default:
		e.streak = uint32(1 + r.Intn(9))
	}
	// ended between "just now" and "more than max ago"
	ago := time.Duration(r.Int63n(int64(max) + int64(max)/4))
	if r.Intn(3) == 0 {
		ago = 0
	}
	e.retryAfter = start.Add(time.Millisecond).Add(-ago)
	if zoneKind {
		e.kind, e.zone = FailureKindZone, normalizeFailureZoneKey(FailureZoneKey{Zone: z.pres(), Qclass: zc})
		e.provenance = "authority"
		slot = failureZoneHash(e.zone)
	} else {
		e.kind, e.question = FailureKindQuestion, normalizeFailureQuestionKey(k.fkey())
		slot = failureQuestionHash(e.question)
	}
	fc.entries.Add(slot, e)
	before := vC13EntryCoq(e.kind, e.provenance, e.streak, e.retryAfter, e.question, e.zone)
	n := 2 + r.Intn(15)
	hits := make([]FailureHit, n)
	var wg sync.WaitGroup
	gate := make(chan struct{})
	for i := 0; i < n; i++ {
		wg.Add(1)
		go func(i int) {
			defer wg.Done()
			<-gate
			if zoneKind {
				hits[i] = fc.RecordZone(FailureZoneKey{Zone: z.pres(), Qclass: zc}, "authority", nil)
			} else {
				hits[i] = fc.RecordQuestion(k.fkey(), "response", nil)
			}
		}(i)
	}
	close(gate)
	wg.Wait()
	distinct := map[string]bool{}
	for _, h := range hits {
		distinct[vC13HitCoq(h, true)] = true
	}
	var nows []string
	total := tick.Load()
	for i := int64(1); i <= total; i++ {
		nows = append(nows, strconv.FormatInt(int64(start.Add(time.Duration(i)*time.Millisecond).Sub(vC13Base)), 10))
	}
	cur, _ := fc.loadEntry(slot)
	after := vC13EntryCoq(cur.kind, cur.provenance, cur.streak, cur.retryAfter, cur.question, cur.zone)
	return map[string]any{
		"k":          "race-recorders",
		"coq":        fmt.Sprintf("CaseRace %d %d %s [%s] %s %d", int64(init), int64(max), before, strings.Join(nows, ";"), after, len(distinct)),
		"nontrivial": true,
		"desc":       map[string]any{"init": init.String(), "max": max.String(), "recorders": n, "before": before, "after": after, "distinct_hits": len(distinct), "ended_ago": ago.String()},
	}
}

// corpus/C13/unit.json: [{"zone": ["dead","example"], "name": ["foo.dead","example"]}] — labels as raw octets
func vC13UnitCorpus(t *testing.T) []vC13Trap {
	dir := os.Getenv("VERIF_CORPUS")
	if dir == "" {
		return nil
	}
	b, err := os.ReadFile(dir + "/unit.json")
	if os.IsNotExist(err) {
		return nil
	}
	if err != nil {
		t.Fatalf("corpus: %v", err)
	}
	var raw []struct {
		Zone []string `json:"zone"`
		Name []string `json:"name"`
	}
	if err := json.Unmarshal(b, &raw); err != nil {
		t.Fatalf("corpus unit.json: %v", err)
	}
	var out []vC13Trap
	for _, x := range raw {
		var tr vC13Trap
		for _, l := range x.Zone {
			tr.zone = append(tr.zone, []byte(l))
		}
		for _, l := range x.Name {
			tr.name = append(tr.name, []byte(l))
		}
		if len(tr.name) == 0 {
			t.Fatalf("corpus unit.json: empty name")
		}
		out = append(out, tr)
	}
	return out
}

func TestVerifC13Unit(t *testing.T) {
	tr := vC13Open(t)
	defer tr.f.Close()
	seed := int64(vC13EnvInt("VERIF_SEED", 1))
	n := vC13EnvInt("VERIF_N", 300)
	r := rand.New(rand.NewSource(seed))
	for i, t := range vC13UnitCorpus(t) {
		tr.emit(vC13HistoryWith(rand.New(rand.NewSource(int64(7000+i))), 24, &t))
	}
	for i := 0; i < n; i++ {
		tr.emit(vC13History(r, 24))
	}
	for i := 0; i < n/3+8; i++ {
		tr.emit(vC13BackoffCase(r))
	}
	for i := 0; i < n/2+8; i++ {
		tr.emit(vC13NewCase(r))
	}
	for i := 0; i < n/4+10; i++ {
		tr.emit(vC13RaceCase(r))
	}
	for rep := 0; rep < n/40+3; rep++ {
		for bits := 0; bits < 16; bits++ {
			tr.emit(vC13AdmitCase(r, bits))
		}
	}
}
