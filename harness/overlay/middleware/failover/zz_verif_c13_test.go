//go:build verif

package failover

// C13 driver for the wrapper BEHIND the cache (overlay-injected): the chain
// cache -> failover -> scripted primary, with 0..3 scripted fallback servers
// on loopback.  What the cache's write-back sees is failover's final response:
//   * a primary SERVFAIL that is request-local (client gone, probe-limit shed,
//     attempt-limit mark) must stay request-local whatever the fallbacks say,
//     and a shed / dead request must not start fallback traffic at all;
//   * a shared primary failure that no fallback repairs is recorded (the next
//     query is answered from the failure cache, no packet anywhere);
//   * a fallback's useful answer is a recovery: nothing is recorded.
// Observed: packets per fallback server, client rcode/EDE, FailureLen, and the
// same query once more (primary calls, fallback packets, rcode, EDE).

import (
	"context"
	"encoding/json"
	"fmt"
	"math/rand"
	"net"
	"os"
	"strconv"
	"strings"
	"sync/atomic"
	"testing"
	"time"

	"github.com/miekg/dns"
	"github.com/semihalev/sdns/config"
	"github.com/semihalev/sdns/internal/dnsutil"
	"github.com/semihalev/sdns/internal/mock"
	"github.com/semihalev/sdns/middleware"
	cachemw "github.com/semihalev/sdns/middleware/cache"
)

const (
	vC13FoShared = iota
	vC13FoMarkedAttempt
	vC13FoMarkedProbe
	vC13FoCtxErr
	vC13FoUseful
	vC13FoOtherFailure
)

var vC13FoNames = []string{"SERVFAIL (shared)", "SERVFAIL marked attempt-limit", "SERVFAIL marked probe-limit (shed)", "SERVFAIL, client context cancelled", "useful answer", "REFUSED"}

type vC13Fallback struct {
	pc    net.PacketConn
	srv   *dns.Server
	asked atomic.Int64
}

// behave: 0 useful answer, 1 SERVFAIL, 2 REFUSED
func vC13StartFallback(behave int) (*vC13Fallback, error) {
	pc, err := net.ListenPacket("udp", "127.0.0.1:0")
	if err != nil {
		return nil, err
	}
	a := &vC13Fallback{pc: pc}
	a.srv = &dns.Server{Net: "udp", PacketConn: pc, Handler: dns.HandlerFunc(func(w dns.ResponseWriter, req *dns.Msg) {
		if len(req.Question) == 0 {
			return
		}
		a.asked.Add(1)
		reply := new(dns.Msg)
		reply.SetReply(req)
		reply.RecursionAvailable = true
		switch behave {
		case 1:
			reply.Rcode = dns.RcodeServerFailure
		case 2:
			reply.Rcode = dns.RcodeRefused
		default:
			q := req.Question[0]
			reply.Answer = []dns.RR{&dns.A{Hdr: dns.RR_Header{Name: q.Name, Rrtype: dns.TypeA, Class: dns.ClassINET, Ttl: 60}, A: net.IPv4(192, 0, 2, 99)}}
		}
		_ = w.WriteMsg(reply)
	})}
	started := make(chan struct{})
	a.srv.NotifyStartedFunc = func() { close(started) }
	go func() { _ = a.srv.ActivateAndServe() }()
	select {
	case <-started:
	case <-time.After(2 * time.Second):
		pc.Close()
		return nil, fmt.Errorf("fallback server did not start")
	}
	return a, nil
}

func (a *vC13Fallback) stop() { _ = a.srv.Shutdown(); _ = a.pc.Close() }

type vC13FoObs struct {
	asked1       []int64
	rc1, ede1    int
	flen         int
	calls2       int
	asked2       int64
	rc2, ede2    int
	infra        bool
	note         string
	primaryCalls int
}

func vC13FailoverRun(primary int, rd bool, fbs []int, name string) vC13FoObs {
	var servers []*vC13Fallback
	defer func() {
		for _, s := range servers {
			s.stop()
		}
	}()
	cfg := &config.Config{CacheSize: 1024, Expire: 300}
	for _, b := range fbs {
		s, err := vC13StartFallback(b)
		if err != nil {
			return vC13FoObs{infra: true, note: err.Error()}
		}
		servers = append(servers, s)
		cfg.FallbackServers = append(cfg.FallbackServers, s.pc.LocalAddr().String())
	}
	f := New(cfg)
	c := cachemw.New(cfg)
	defer c.Stop()
	store, ok := c.Store().(*cachemw.Store)
	if !ok {
		return vC13FoObs{infra: true, note: "cache store type"}
	}
	calls := 0
	var cancelReq context.CancelFunc
	stub := middleware.HandlerFunc(func(hctx context.Context, ch *middleware.Chain) {
		calls++
		rq := ch.Request.Msg()
		resp := new(dns.Msg)
		resp.SetReply(rq)
		resp.RecursionAvailable = true
		resp.RecursionDesired = rd // failover reads the RD bit of the RESPONSE it wraps
		switch primary {
		case vC13FoUseful:
			resp.Answer = []dns.RR{&dns.A{Hdr: dns.RR_Header{Name: rq.Question[0].Name, Rrtype: dns.TypeA, Class: dns.ClassINET, Ttl: 60}, A: net.IPv4(192, 0, 2, 98)}}
		case vC13FoOtherFailure:
			resp.Rcode = dns.RcodeRefused
		default:
			resp.Rcode = dns.RcodeServerFailure
		}
		switch primary {
		case vC13FoMarkedAttempt:
			middleware.MarkRequestLocalFailureResponse(hctx, resp, middleware.ErrResolutionAttemptLimit)
		case vC13FoMarkedProbe:
			middleware.MarkRequestLocalFailureResponse(hctx, resp, middleware.ErrFailureProbeLimit)
		case vC13FoCtxErr:
			cancelReq()
		}
		_ = ch.Writer.WriteMsg(resp)
		ch.Cancel()
	})
	ask := func() (int, int) {
		req := new(dns.Msg)
		req.SetQuestion(name, dns.TypeA)
		req.RecursionDesired = true
		req.SetEdns0(1232, false)
		w := mock.NewWriter("udp", "203.0.113.9:53000")
		ch := middleware.NewChain([]middleware.Handler{c, f, stub})
		ch.Reset(w, req)
		ctx, cancel := context.WithCancel(context.Background())
		cancelReq = cancel
		ch.Next(ctx)
		cancel()
		rc, ede := 999, -1
		if m := w.Msg(); m != nil && w.Written() {
			rc = m.Rcode
			if e := dnsutil.GetEDE(m); e != nil {
				ede = int(e.InfoCode)
			}
		}
		return rc, ede
	}
	total := func() (out []int64, sum int64) {
		for _, s := range servers {
			v := s.asked.Load()
			out = append(out, v)
			sum += v
		}
		return
	}
	var o vC13FoObs
	o.rc1, o.ede1 = ask()
	var sum1 int64
	o.asked1, sum1 = total()
	o.flen = store.FailureLen()
	before := calls
	o.rc2, o.ede2 = ask()
	o.calls2 = calls - before
	_, sum2 := total()
	o.asked2 = sum2 - sum1
	o.primaryCalls = calls
	return o
}

func vC13FoEde(e int) string {
	if e < 0 {
		return "None"
	}
	return fmt.Sprintf("(Some %d%%N)", e)
}

func TestVerifC13Failover(t *testing.T) {
	p := os.Getenv("VERIF_OUT")
	if p == "" {
		t.Skip("VERIF_OUT not set")
	}
	out, err := os.Create(p)
	if err != nil {
		t.Fatal(err)
	}
	defer out.Close()
	seed := int64(1)
	if s, err := strconv.Atoi(os.Getenv("VERIF_SEED")); err == nil {
		seed = int64(s)
	}
	n := 40
	if v, err := strconv.Atoi(os.Getenv("VERIF_N")); err == nil && v > 0 {
		n = v
	}
	r := rand.New(rand.NewSource(seed + 9520))
	for i := 0; i < n; i++ {
		primary := i % 6 // every primary outcome in turn
		rd := r.Intn(5) != 0
		k := r.Intn(4)
		if i < 12 && k == 0 {
			k = 1 + r.Intn(2)
		}
		fbs := make([]int, k)
		for j := range fbs {
			fbs[j] = r.Intn(3)
		}
		name := fmt.Sprintf("fo%d.example.org.", r.Intn(100000))
		o := vC13FailoverRun(primary, rd, fbs, name)
		var fc, ac, fn []string
		for _, b := range fbs {
			fc = append(fc, strconv.Itoa(b))
			fn = append(fn, []string{"useful", "SERVFAIL", "REFUSED"}[b])
		}
		for _, a := range o.asked1 {
			ac = append(ac, strconv.FormatInt(a, 10))
		}
		kind := "failover-" + []string{"shared", "marked-attempt", "probe-shed", "ctx-cancelled", "useful", "other-rcode"}[primary]
		b, _ := json.Marshal(map[string]any{
			"k": kind,
			"coq": fmt.Sprintf("CaseFailover %d%%N %v [%s]%%N [%s] %d%%N %s %d %d %d %d%%N %s",
				primary, rd, strings.Join(fc, ";"), strings.Join(ac, ";"), o.rc1, vC13FoEde(o.ede1), o.flen, o.calls2, o.asked2, o.rc2, vC13FoEde(o.ede2)),
			"nontrivial":   len(fbs) > 0 && primary != vC13FoUseful,
			"inconclusive": o.infra,
			"desc": map[string]any{"primary": vC13FoNames[primary], "response_rd": rd, "fallbacks": fn, "question": name,
				"first":  fmt.Sprintf("fallback_packets=%v rcode=%d ede=%d failure_len=%d", o.asked1, o.rc1, o.ede1, o.flen),
				"second": fmt.Sprintf("primary_calls=%d fallback_packets=%d rcode=%d ede=%d", o.calls2, o.asked2, o.rc2, o.ede2), "note": o.note},
		})
		out.Write(append(b, '\n'))
	}
}
