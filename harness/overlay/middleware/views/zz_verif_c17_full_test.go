//go:build verif

package views

// C17 driver "viewsfull": the views handler as a whole. Several views in declaration order, each with its
// own networks (overlapping with earlier views, loopback-covering, unparsable entries) AND its own generated
// record list (exact owners, wildcards at several depths, other types, unparsable entries); a generated client
// on a transport of any remote-address type (incl. the sub-query signature's neighbourhood) and a generated
// question, through the real handler in a real Chain. Every record carries (view index, record index) in its
// data, so the reply tells which view answered and with which of its records, in order.

import (
	"context"
	"encoding/json"
	"fmt"
	"math/rand"
	"net"
	"net/netip"
	"os"
	"strings"
	"testing"

	"github.com/miekg/dns"
	"github.com/semihalev/sdns/config"
	"github.com/semihalev/sdns/middleware"
)

// vC17ViewSlab is a long-lived transport of the kind the server's UDP engine keeps: one value, one cached *net.UDPAddr whose
// IP bytes are rewritten in place for every packet ("observers must copy, never retain")
type vC17ViewSlab struct {
	vC17Tr
	udp     net.UDPAddr
	scratch [16]byte
}

func (s *vC17ViewSlab) set(ip net.IP, port int) {
	s.udp.IP, s.udp.Port = append(s.scratch[:0], ip...), port
	s.addr = &s.udp
	s.msg = nil
}

func TestVerifC17ViewsFull(t *testing.T) {
	p := os.Getenv("VERIF_OUT")
	if p == "" {
		t.Skip("VERIF_OUT not set")
	}
	f, err := os.Create(p)
	if err != nil {
		t.Fatal(err)
	}
	defer f.Close()
	r := rand.New(rand.NewSource(int64(vEnvInt("VERIF_SEED", 1)) + 131))
	n := vEnvInt("VERIF_N", 300)
	owners := []string{"host.example.", "*.example.", "*.sub.example.", "a.sub.example.", "*.", "HOST.Example.", "sub.example.", "*.SUB.example.", "*.xample.", "host.example"}
	questions := []string{"host.example.", "a.sub.example.", "x.sub.example.", "sub.example.", "Host.EXAMPLE.", "other.", "xsub.example.", "x.example."}
	types := []uint16{dns.TypeA, dns.TypeAAAA, dns.TypeTXT}
	tnum := map[string]uint16{"A": dns.TypeA, "AAAA": dns.TypeAAAA, "TXT": dns.TypeTXT}
	type fixedRec struct {
		Owner string `json:"owner"`
		Type  string `json:"type"`
	}
	var corpus []struct {
		From  string `json:"from"`
		Views []struct {
			Networks []string   `json:"networks"`
			Records  []fixedRec `json:"records"`
		} `json:"views"`
		QName string `json:"qname"`
		QType string `json:"qtype"`
		vC17Fixed
		// further clients served, after the entry's own, through the same Views instance on ONE long-lived transport
		// whose peer address is rewritten in place (the UDP engine's job)
		Then []struct {
			Src  string `json:"src"`
			Form int    `json:"ip_bytes"`
			Port int    `json:"port"`
		} `json:"then_on_one_slab"`
	}
	if dir := os.Getenv("VERIF_CORPUS"); dir != "" {
		if raw, err := os.ReadFile(dir + "/viewsfull.json"); err == nil {
			if err := json.Unmarshal(raw, &corpus); err != nil {
				t.Fatalf("corpus viewsfull.json: %v", err)
			}
		}
	}
	type rec struct {
		owner string
		typ   uint16
	}
	for c := -len(corpus); c < n; c++ {
		fixed := c < 0
		cfg := &config.Config{}
		var vcoq []string
		var vdesc []any
		var all []netip.Prefix
		// addView registers one view; returns nothing: the model gets the parsable networks and the parsable records
		addView := func(i int, nets []string, recs []rec, sprinkle bool) {
			var pc []string
			for _, e := range nets {
				pf, err := netip.ParsePrefix(e)
				if err != nil {
					continue // an unparsable network entry is ignored, never widening
				}
				all = append(all, pf)
				pc = append(pc, fmt.Sprintf("mk_prefix %v %s %d", pf.Addr().Is4(), vAddrBig(pf.Addr()).String(), pf.Bits()))
			}
			var answers, rcoq, rdesc []string
			idx := 0 // index among the view's PARSED records
			for _, rc := range recs {
				var line string
				switch rc.typ {
				case dns.TypeA:
					line = fmt.Sprintf("%s 60 IN A 192.0.%d.%d", rc.owner, i, idx)
				case dns.TypeAAAA:
					line = fmt.Sprintf("%s 60 IN AAAA 2001:db8::%x:%x", rc.owner, i, idx)
				default:
					line = fmt.Sprintf("%s 60 IN TXT \"v%dr%d\"", rc.owner, i, idx)
				}
				parsed, perr := dns.NewRR(line)
				if perr != nil || parsed == nil {
					answers = append(answers, line) // the handler skips it too
					continue
				}
				if sprinkle && r.Intn(10) == 0 {
					answers = append(answers, "@@ not a record")
				}
				answers = append(answers, line)
				rcoq = append(rcoq, fmt.Sprintf("(%s, %d%%N)", vC17CoqBytes(parsed.Header().Name), rc.typ))
				rdesc = append(rdesc, fmt.Sprintf("%d:%s/%s", idx, parsed.Header().Name, dns.TypeToString[rc.typ]))
				idx++
			}
			cfg.Views = append(cfg.Views, config.ViewConfig{Zone: fmt.Sprintf("v%d", i), Networks: nets, Answers: answers})
			vcoq = append(vcoq, fmt.Sprintf("([%s], [%s])", strings.Join(pc, "; "), strings.Join(rcoq, "; ")))
			vdesc = append(vdesc, map[string]any{"networks": nets, "records": rdesc})
		}
		var qname string
		var qtype uint16
		var allRecs []rec
		if fixed {
			e := corpus[c+len(corpus)]
			for i, fv := range e.Views {
				var recs []rec
				for _, fr := range fv.Records {
					recs = append(recs, rec{fr.Owner, tnum[fr.Type]})
				}
				addView(i, fv.Networks, recs, false)
			}
			qname, qtype = e.QName, tnum[e.QType]
		} else {
			nv := 1 + r.Intn(4)
			if r.Intn(25) == 0 {
				nv = 0 // no views configured: the handler steps aside
			}
			// layered: one case in three, every view's first network is the same one (or a wider one around it), so the
			// client lies in SEVERAL views, and the views differ in what they hold for the question: only a covering
			// wildcard / the exact owner / nothing / another name. Only the first one may decide.
			layered := r.Intn(3) == 0
			base := vRandPrefix(r)
			if layered && nv < 2 {
				nv = 2 + r.Intn(2)
			}
			for i := 0; i < nv; i++ {
				var nets []string
				for j := 0; j < 1+r.Intn(2); j++ {
					var pf netip.Prefix
					switch {
					case layered && j == 0:
						pf = base
						if r.Intn(2) == 0 && base.Bits() > 10 {
							pf = netip.PrefixFrom(base.Addr(), base.Bits()-1-r.Intn(3))
						}
					case len(all) > 0 && r.Intn(2) == 0:
						pf = all[r.Intn(len(all))] // the same network as an earlier view: shadowed
						if r.Intn(2) == 0 && pf.Bits() > 8 {
							pf = netip.PrefixFrom(pf.Addr(), pf.Bits()-1-r.Intn(3)) // ... or a wider one around it
						}
					case r.Intn(5) == 0: // views over (part of) the loopback block
						pf = netip.MustParsePrefix([]string{"127.0.0.0/8", "127.0.0.255/32", "127.0.0.254/31", "::1/128"}[r.Intn(4)])
					default:
						pf = vRandPrefix(r)
					}
					all = append(all, pf) // (appended again by addView: harmless duplicates in the source pool)
					nets = append(nets, pf.String())
					if r.Intn(8) == 0 {
						nets = append(nets, []string{"10.0.0.0/33", "bogus", "2001:db8::/129", "10.0.0.0"}[r.Intn(4)])
					}
				}
				var recs []rec
				nrec := 1 + r.Intn(4)
				if r.Intn(4) == 0 {
					nrec = 0 // a view left without any record: it still takes part in first-match selection
				}
				for k := nrec; k > 0; k-- {
					ty := types[0]
					if r.Intn(4) == 0 {
						ty = types[r.Intn(3)]
					}
					recs = append(recs, rec{owners[r.Intn(len(owners))], ty})
				}
				if layered {
					recs = [][]rec{{{"*.example.", dns.TypeA}}, {{"host.example.", dns.TypeA}}, {}, {{"a.sub.example.", dns.TypeA}},
						{{"*.example.", dns.TypeA}, {"*.sub.example.", dns.TypeA}}, {{"host.example.", dns.TypeAAAA}, {"*.", dns.TypeA}}}[r.Intn(6)]
				}
				allRecs = append(allRecs, recs...)
				addView(i, nets, recs, true)
			}
			qname = questions[r.Intn(len(questions))]
			if len(allRecs) > 0 && r.Intn(10) < 7 { // mostly a name some record of some view covers
				o := allRecs[r.Intn(len(allRecs))].owner
				switch {
				case o == "*.":
					qname = []string{"other.", "host.example.", "x.sub.example."}[r.Intn(3)]
				case strings.HasPrefix(o, "*."):
					qname = []string{"x.", "a.b.", "host."}[r.Intn(3)] + dns.Fqdn(o[2:])
				default:
					qname = dns.Fqdn(o)
				}
				if r.Intn(4) == 0 {
					qname = strings.ToUpper(qname[:1]) + qname[1:]
				}
			}
			qtype = types[0]
			if r.Intn(5) == 0 {
				qtype = types[r.Intn(3)]
			}
			if layered {
				qname, qtype = []string{"host.example.", "host.example.", "x.sub.example.", "Host.Example."}[r.Intn(4)], dns.TypeA
				all = append([]netip.Prefix{base, base, base}, all...) // the source is mostly drawn from the shared network
			}
		}
		v := New(cfg)
		var w middleware.Transport
		var wr vC17Sink
		var remoteCoq string
		var rdesc map[string]any
		sentinel := false
		if fixed {
			w, wr, remoteCoq, rdesc = corpus[c+len(corpus)].vC17Make()
		} else {
			var src netip.Addr
			if len(all) == 0 || r.Intn(8) == 0 {
				src = vRandPrefix(r).Addr()
			} else {
				pf := all[r.Intn(len(all))]
				switch r.Intn(8) {
				case 0:
					src = pf.Masked().Addr()
				case 1:
					src = pf.Masked().Addr().Prev()
				default:
					src = pf.Addr()
				}
			}
			sentinel = r.Intn(8) == 0
			if sentinel {
				src = netip.MustParseAddr([]string{"127.0.0.255", "127.0.0.255", "127.0.0.254", "127.0.1.0"}[r.Intn(4)])
			}
			if !src.IsValid() {
				src = netip.MustParseAddr("203.0.113.9")
			}
			ip := net.IP(src.AsSlice())
			if src.Is4() && r.Intn(2) == 0 {
				b := src.As16()
				ip = net.IP(b[:])
			}
			w, wr, remoteCoq, rdesc = vC17Remote(r, ip, sentinel)
		}
		stub := &vStub{}
		ch := middleware.NewChain([]middleware.Handler{v, stub})
		serve := func(w middleware.Transport, wr vC17Sink, remoteCoq string, rdesc map[string]any, sentinel bool, tag string) {
			stub.calls = 0
			req := new(dns.Msg)
			req.SetQuestion(qname, qtype)
			ch.Reset(w, req)
			internal := ch.Writer.Internal()
			ch.Next(context.Background())
			answered := "None"
			var served []string
			k := "viewsfull-fallthrough"
			goFail := ""
			if wr.vC17Written() {
				view := -1
				for _, rr := range wr.vC17Msg().Answer {
					vi, ri := -1, -1
					switch x := rr.(type) {
					case *dns.A:
						vi, ri = int(x.A.To4()[2]), int(x.A.To4()[3])
					case *dns.AAAA:
						vi, ri = int(x.AAAA[13]), int(x.AAAA[15])
					case *dns.TXT:
						fmt.Sscanf(x.Txt[0], "v%dr%d", &vi, &ri)
					}
					if view >= 0 && vi != view && goFail == "" {
						goFail = "one reply carries records of two views"
					}
					view = vi
					served = append(served, fmt.Sprintf("%d%%nat", ri))
					if rr.Header().Name != qname && goFail == "" {
						goFail = "a served record does not carry the question's name"
					}
				}
				if len(served) == 0 {
					goFail = "the view wrote a reply without answers"
				}
				if stub.calls != 0 {
					goFail = "a view answered and also called the next handler"
				}
				answered = fmt.Sprintf("(Some (%d%%nat, [%s]))", view, strings.Join(served, "; "))
				k = "viewsfull-answered"
				if view > 0 {
					k = "viewsfull-answered-by-later-view"
				}
			} else if stub.calls != 1 {
				goFail = fmt.Sprintf("no reply and next handler called %d times", stub.calls)
			}
			if sentinel {
				k += "-sentinel-sweep"
			}
			if fixed {
				k += "-corpus"
			}
			k += tag
			if internal {
				k += "-internal"
			}
			b, _ := json.Marshal(map[string]any{
				"k":          k,
				"coq":        fmt.Sprintf("CaseViewsFull [%s] %s %s %d %s", strings.Join(vcoq, "; "), remoteCoq, vC17CoqBytes(qname), qtype, answered),
				"go_fail":    goFail,
				"nontrivial": len(vcoq) > 0,
				"desc":       map[string]any{"views": vdesc, "remote": rdesc, "question": qname + " " + dns.TypeToString[qtype], "writer_internal": internal, "answered": answered},
			})
			f.Write(append(b, '\n'))
		}
		serve(w, wr, remoteCoq, rdesc, sentinel, "")
		// The engines' transports are long-lived: ONE job value, bound to its chain again for every packet, whose peer
		// address is rewritten IN PLACE over a scratch array (udpJob.setRemote). One case in three goes on with a run of
		// further clients - in other views, in none, the first one again - through the same Views instance, the same chain
		// and one such transport: every packet is judged by ITS source, whatever the handler saw before.
		if fixed {
			slab := &vC17ViewSlab{}
			for step, e := range corpus[c+len(corpus)].Then {
				a := netip.MustParseAddr(e.Src)
				ip := net.IP(a.AsSlice())
				if e.Form == 16 && a.Is4() {
					b16 := a.As16()
					ip = net.IP(b16[:])
				}
				slab.set(ip, e.Port)
				coq := fmt.Sprintf("(mk_remote KUdp %s %d None)", vC17CoqIP(ip), e.Port)
				desc := map[string]any{"remote_addr_type": "*net.UDPAddr (long-lived transport, address rewritten in place)", "ip": fmt.Sprint(ip), "ip_bytes": len(ip), "port": e.Port, "packet_of_run": step}
				serve(slab, slab, coq, desc, false, "-slab-run")
			}
		}
		if !fixed && len(all) > 0 && len(vcoq) > 0 && c%3 == 0 {
			slab := &vC17ViewSlab{}
			var first netip.Addr
			for step := 0; step < 3; step++ {
				pf := all[r.Intn(len(all))]
				src := pf.Addr()
				switch r.Intn(6) {
				case 0:
					src = pf.Masked().Addr().Prev()
				case 1:
					src = vRandPrefix(r).Addr()
				case 2:
					if first.IsValid() {
						src = first
					}
				}
				if !src.IsValid() {
					src = netip.MustParseAddr("203.0.113.9")
				}
				if step == 0 {
					first = src
				}
				ip := net.IP(src.AsSlice())
				if src.Is4() && r.Intn(3) == 0 {
					b16 := src.As16()
					ip = net.IP(b16[:])
				}
				port := 1024 + r.Intn(60000)
				slab.set(ip, port)
				coq := fmt.Sprintf("(mk_remote KUdp %s %d None)", vC17CoqIP(ip), port)
				desc := map[string]any{"remote_addr_type": "*net.UDPAddr (long-lived transport, address rewritten in place)", "ip": fmt.Sprint(ip), "ip_bytes": len(ip), "port": port, "packet_of_run": step}
				serve(slab, slab, coq, desc, false, "-slab-run")
			}
		}
	}
}
