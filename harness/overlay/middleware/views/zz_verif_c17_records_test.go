//go:build verif

package views

// C17 driver "viewrec": which records a matched view serves. One view covering every client, a generated
// list of records (exact owners, wildcards at several depths, "*.", mixed case, other types, unparsable
// entries) and a generated question, through the real handler in a real Chain; every record carries its index
// in its data, so the reply tells exactly which records were selected, in which order.

import (
	"context"
	"encoding/json"
	"fmt"
	"math/rand"
	"net"
	"os"
	"strings"
	"testing"

	"github.com/miekg/dns"
	"github.com/semihalev/sdns/config"
	"github.com/semihalev/sdns/middleware"
)

func vC17CoqBytes(s string) string {
	parts := make([]string, 0, len(s))
	for i := 0; i < len(s); i++ {
		parts = append(parts, fmt.Sprint(int(s[i])))
	}
	return "[" + strings.Join(parts, ";") + "]"
}

func TestVerifC17ViewRecords(t *testing.T) {
	p := os.Getenv("VERIF_OUT")
	if p == "" {
		t.Skip("VERIF_OUT not set")
	}
	f, err := os.Create(p)
	if err != nil {
		t.Fatal(err)
	}
	defer f.Close()
	r := rand.New(rand.NewSource(int64(vEnvInt("VERIF_SEED", 1)) + 83))
	n := vEnvInt("VERIF_N", 300)
	owners := []string{"host.example.", "*.example.", "*.sub.example.", "a.sub.example.", "*.", "HOST.Example.", "example.", "*.b.sub.example.",
		"*.SUB.example.", "sub.example.", "x.b.sub.example.", "*.example", "host.example", "*.xample.", "**.example.", "*.ub.example."}
	questions := []string{"host.example.", "a.sub.example.", "x.sub.example.", "x.y.sub.example.", "sub.example.", "example.", "Host.EXAMPLE.",
		"other.", "xsub.example.", "x.b.sub.example.", "y.x.b.sub.example.", "b.sub.example.", ".", "a.SUB.Example.", "x.example."}
	types := []uint16{dns.TypeA, dns.TypeAAAA, dns.TypeTXT}
	type fixedRec struct {
		Owner string `json:"owner"`
		Type  string `json:"type"`
	}
	var corpus []struct {
		From    string     `json:"from"`
		Records []fixedRec `json:"records"`
		QName   string     `json:"qname"`
		QType   string     `json:"qtype"`
	}
	if dir := os.Getenv("VERIF_CORPUS"); dir != "" {
		if raw, err := os.ReadFile(dir + "/viewrec.json"); err == nil {
			if err := json.Unmarshal(raw, &corpus); err != nil {
				t.Fatalf("corpus viewrec.json: %v", err)
			}
		}
	}
	tnum := map[string]uint16{"A": dns.TypeA, "AAAA": dns.TypeAAAA, "TXT": dns.TypeTXT}
	for c := -len(corpus); c < n; c++ {
		type rec struct {
			owner string
			typ   uint16
		}
		var recs []rec
		var qname string
		var qtype uint16
		if c < 0 {
			e := corpus[c+len(corpus)]
			for _, fr := range e.Records {
				recs = append(recs, rec{fr.Owner, tnum[fr.Type]})
			}
			qname, qtype = e.QName, tnum[e.QType]
		} else {
			cnt := r.Intn(7)
			for i := 0; i < cnt; i++ {
				ty := types[0]
				if r.Intn(3) == 0 {
					ty = types[r.Intn(3)]
				}
				recs = append(recs, rec{owners[r.Intn(len(owners))], ty})
			}
			qname = questions[r.Intn(len(questions))]
			qtype = types[0]
			if r.Intn(4) == 0 {
				qtype = types[r.Intn(3)]
			}
		}
		var answers []string
		var rcoq []string
		var rdesc []string
		idx := 0 // index among the PARSED records = what the handler's answer list holds
		for _, rc := range recs {
			var line string
			switch rc.typ {
			case dns.TypeA:
				line = fmt.Sprintf("%s 60 IN A 192.0.2.%d", rc.owner, idx)
			case dns.TypeAAAA:
				line = fmt.Sprintf("%s 60 IN AAAA 2001:db8::%x", rc.owner, idx)
			default:
				line = fmt.Sprintf("%s 60 IN TXT \"r%d\"", rc.owner, idx)
			}
			parsed, perr := dns.NewRR(line)
			if perr != nil || parsed == nil {
				answers = append(answers, line) // the handler skips it too
				continue
			}
			if c >= 0 && r.Intn(12) == 0 {
				answers = append(answers, "@@ not a record") // an unparsable entry in between: skipped, indices unaffected
			}
			answers = append(answers, line)
			// the model gets the owner as the parsed record carries it (what ServeDNS reads)
			rcoq = append(rcoq, fmt.Sprintf("(%s, %d%%N)", vC17CoqBytes(parsed.Header().Name), rc.typ))
			rdesc = append(rdesc, fmt.Sprintf("%d:%s/%s", idx, parsed.Header().Name, dns.TypeToString[rc.typ]))
			idx++
		}
		cfg := &config.Config{Views: []config.ViewConfig{{Zone: "v0", Networks: []string{"0.0.0.0/0", "::/0"}, Answers: answers}}}
		v := New(cfg)
		w, wr, _, _ := vC17MkRemote(net.IP{10, 1, 2, 3}, c&1, 4242, 0)
		stub := &vStub{}
		ch := middleware.NewChain([]middleware.Handler{v, stub})
		req := new(dns.Msg)
		req.SetQuestion(qname, qtype)
		ch.Reset(w, req)
		ch.Next(context.Background())
		var sel []string
		goFail := ""
		if wr.vC17Written() {
			for _, rr := range wr.vC17Msg().Answer {
				switch x := rr.(type) {
				case *dns.A:
					sel = append(sel, fmt.Sprintf("%d%%nat", int(x.A.To4()[3])))
				case *dns.AAAA:
					sel = append(sel, fmt.Sprintf("%d%%nat", int(x.AAAA[15])))
				case *dns.TXT:
					sel = append(sel, strings.TrimPrefix(x.Txt[0], "r")+"%nat")
				}
				if rr.Header().Name != qname && goFail == "" {
					goFail = "a served record does not carry the question's name"
				}
			}
			if stub.calls != 0 {
				goFail = "the view answered and also called the next handler"
			}
			if len(sel) == 0 {
				goFail = "the view wrote a reply without answers"
			}
		} else if stub.calls != 1 {
			goFail = fmt.Sprintf("no reply and next handler called %d times", stub.calls)
		}
		k := "viewrec-fallthrough"
		if len(sel) > 0 {
			k = "viewrec-answered"
		}
		if c < 0 {
			k += "-corpus"
		}
		b, _ := json.Marshal(map[string]any{
			"k":          k,
			"coq":        fmt.Sprintf("CaseViewRecords [%s] %s %d [%s]", strings.Join(rcoq, "; "), vC17CoqBytes(qname), qtype, strings.Join(sel, "; ")),
			"go_fail":    goFail,
			"nontrivial": len(rcoq) > 0,
			"desc":       map[string]any{"records": rdesc, "question": qname + " " + dns.TypeToString[qtype], "served": sel},
		})
		f.Write(append(b, '\n'))
	}
}
