//go:build verif

package views

// C17 driver: real views handler; each view's answer encodes the view index
// in the A record so that the reply tells which view answered.

import (
	"context"
	"encoding/binary"
	"encoding/json"
	"fmt"
	"math/big"
	"math/rand"
	"net"
	"net/netip"
	"os"
	"strconv"
	"strings"
	"testing"

	"github.com/miekg/dns"
	"github.com/semihalev/sdns/config"
	"github.com/semihalev/sdns/internal/mock"
	"github.com/semihalev/sdns/middleware"
)

type vWriter struct {
	*mock.Writer
	ip       net.IP
	internal bool
}

func (w *vWriter) RemoteIP() net.IP       { return w.ip }
func (w *vWriter) RemoteAddr() net.Addr { return &net.UDPAddr{IP: w.ip, Port: 5353} }
func (w *vWriter) Internal() bool   { return w.internal }

type vStub struct{ calls int }

func (s *vStub) Name() string                                        { return "verifstub" }
func (s *vStub) ServeDNS(ctx context.Context, ch *middleware.Chain) { s.calls++ }

func vEnvInt(name string, def int) int {
	if s := os.Getenv(name); s != "" {
		if n, err := strconv.Atoi(s); err == nil {
			return n
		}
	}
	return def
}

func vAddrBig(a netip.Addr) *big.Int {
	if a.Is4() {
		b := a.As4()
		return new(big.Int).SetUint64(uint64(binary.BigEndian.Uint32(b[:])))
	}
	b := a.As16()
	return new(big.Int).SetBytes(b[:])
}

func vRandPrefix(r *rand.Rand) netip.Prefix {
	if r.Intn(3) != 0 {
		var b [4]byte
		r.Read(b[:])
		b[0] = 10
		b[1] = byte(r.Intn(2))
		b[2] = byte(r.Intn(4))
		return netip.PrefixFrom(netip.AddrFrom4(b), 8+r.Intn(25))
	}
	var b [16]byte
	r.Read(b[:])
	copy(b[:], []byte{0x20, 0x01, 0x0d, 0xb8, 0, 0, 0, byte(r.Intn(2))})
	return netip.PrefixFrom(netip.AddrFrom16(b), 32+r.Intn(97))
}

func TestVerifC17Views(t *testing.T) {
	p := os.Getenv("VERIF_OUT")
	if p == "" {
		t.Skip("VERIF_OUT not set")
	}
	f, err := os.Create(p)
	if err != nil {
		t.Fatal(err)
	}
	defer f.Close()
	r := rand.New(rand.NewSource(int64(vEnvInt("VERIF_SEED", 1)) + 29))
	n := vEnvInt("VERIF_N", 300)
	for c := 0; c < n; c++ {
		nv := 1 + r.Intn(4)
		cfg := &config.Config{}
		var vcoq []string
		var all []netip.Prefix
		var desc []any
		for i := 0; i < nv; i++ {
			var nets []string
			var pc []string
			for j := 0; j < 1+r.Intn(3); j++ {
				var pf netip.Prefix
				if len(all) > 0 && r.Intn(3) == 0 {
					pf = all[r.Intn(len(all))] // overlap with an earlier view
				} else {
					pf = vRandPrefix(r)
				}
				all = append(all, pf)
				nets = append(nets, pf.String())
				pc = append(pc, fmt.Sprintf("mk_prefix %v %s %d", pf.Addr().Is4(), vAddrBig(pf.Addr()).String(), pf.Bits()))
			}
			has := r.Intn(4) != 0
			vc := config.ViewConfig{Zone: fmt.Sprintf("v%d", i), Networks: nets}
			if has {
				vc.Answers = []string{fmt.Sprintf("host.example. 60 IN A 192.0.2.%d", i)}
			} else {
				vc.Answers = []string{fmt.Sprintf("other.example. 60 IN A 192.0.2.%d", i)}
			}
			cfg.Views = append(cfg.Views, vc)
			vcoq = append(vcoq, fmt.Sprintf("([%s], %v)", strings.Join(pc, "; "), has))
			desc = append(desc, map[string]any{"networks": nets, "has_answer": has})
		}
		v := New(cfg)
		pf := all[r.Intn(len(all))]
		var src netip.Addr
		switch r.Intn(4) {
		case 0:
			src = vRandPrefix(r).Addr()
		case 1:
			src = pf.Masked().Addr()
		default:
			src = pf.Addr()
		}
		ip := net.IP(src.AsSlice())
		srcCoq := fmt.Sprintf("(mk_addr %v %s)", src.Is4(), vAddrBig(src).String())
		if src.Is4() && r.Intn(2) == 0 {
			b := src.As16()
			ip = net.IP(b[:])
			srcCoq = fmt.Sprintf("(mk_addr false %s)", new(big.Int).SetBytes(b[:]).String())
		}
		internal := r.Intn(10) == 0
		stub := &vStub{}
		ch := middleware.NewChain([]middleware.Handler{v, stub})
		w := &vWriter{Writer: mock.NewWriter("udp", "192.0.2.1:53"), ip: ip, internal: internal}
		req := new(dns.Msg)
		req.SetQuestion("host.example.", dns.TypeA)
		ch.Reset(w, req)
		ch.Next(context.Background())
		answered := "None"
		k := "view-fallthrough"
		goFail := ""
		if w.Written() {
			m := w.Msg()
			if m == nil || len(m.Answer) != 1 {
				goFail = "view reply without exactly one answer"
			} else if a, ok := m.Answer[0].(*dns.A); ok {
				answered = fmt.Sprintf("(Some %d%%nat)", int(a.A.To4()[3]))
				k = "view-answered"
			}
			if stub.calls != 0 {
				goFail = "view answered and also called the next handler"
			}
		} else if stub.calls != 1 {
			goFail = fmt.Sprintf("no reply and next handler called %d times", stub.calls)
		}
		b, _ := json.Marshal(map[string]any{
			"k":          k,
			"coq":        fmt.Sprintf("CaseView [%s] %v %s %s", strings.Join(vcoq, "; "), internal, srcCoq, answered),
			"go_fail":    goFail,
			"nontrivial": true,
			"desc":       map[string]any{"views": desc, "src": ip.String(), "internal": internal, "answered": answered},
		})
		f.Write(append(b, '\n'))
	}
}
