//go:build verif

package views

// C17 driver: real views handler; each view's answer encodes the view index
// in the A record so that the reply tells which view answered.

import (
	"context"
	"encoding/binary"
	"encoding/json"
	"fmt"
	"math/big"
	"math/rand"
	"net"
	"net/netip"
	"os"
	"strconv"
	"strings"
	"testing"

	"github.com/miekg/dns"
	"github.com/semihalev/sdns/config"
	"github.com/semihalev/sdns/middleware"
)

// a transport without an Internal() method, reporting an arbitrary remote address
type vC17Tr struct {
	addr net.Addr
	msg  *dns.Msg
}

func (t *vC17Tr) LocalAddr() net.Addr         { return &net.UDPAddr{IP: net.IPv4(127, 0, 0, 1), Port: 53} }
func (t *vC17Tr) RemoteAddr() net.Addr        { return t.addr }
func (t *vC17Tr) WriteMsg(m *dns.Msg) error   { t.msg = m; return nil }
func (t *vC17Tr) Write(b []byte) (int, error) { t.msg = new(dns.Msg); return len(b), t.msg.Unpack(b) }
func (t *vC17Tr) Close() error                { return nil }
func (t *vC17Tr) vC17Written() bool           { return t.msg != nil }
func (t *vC17Tr) vC17Msg() *dns.Msg           { return t.msg }

// ... and one with it
type vC17TrSays struct {
	vC17Tr
	says bool
}

func (t *vC17TrSays) Internal() bool { return t.says }

func vC17CoqIP(ip net.IP) string {
	switch len(ip) {
	case 4:
		return fmt.Sprintf("(Some (mk_addr true %s))", new(big.Int).SetBytes(ip).String())
	case 16:
		return fmt.Sprintf("(Some (mk_addr false %s))", new(big.Int).SetBytes(ip).String())
	}
	return "None"
}

type vC17Sink interface {
	vC17Written() bool
	vC17Msg() *dns.Msg
}

// one corpus entry: a fixed remote (see corpus/C17/*.json)
type vC17Fixed struct {
	Src    string `json:"src"`       // address literal
	Form   int    `json:"ip_bytes"`  // 4 or 16 (an IPv4 address in 16-byte IPv4-mapped form)
	Kind   string `json:"addr_type"` // udp | tcp | ipaddr | nil
	Port   int    `json:"port"`
	Method string `json:"internal_method"` // none | false | true
}

func (e vC17Fixed) vC17Make() (middleware.Transport, vC17Sink, string, map[string]any) {
	a := netip.MustParseAddr(e.Src)
	ip := net.IP(a.AsSlice())
	if e.Form == 16 && a.Is4() {
		b := a.As16()
		ip = net.IP(b[:])
	}
	kind := map[string]int{"udp": 0, "tcp": 1, "ipaddr": 2, "nil": 3}[e.Kind]
	says := map[string]int{"none": 0, "": 0, "false": 1, "true": 2}[e.Method]
	return vC17MkRemote(ip, kind, e.Port, says)
}

// vC17Remote builds a transport for a peer with this IP: the remote-address type, the port and the
// Internal() method vary; sentinel = offer the sub-query signature's neighbourhood (port 0, any method).
// Returns the transport, the model's [remote] term and a description.
func vC17Remote(r *rand.Rand, ip net.IP, sentinel bool) (middleware.Transport, vC17Sink, string, map[string]any) {
	kind := r.Intn(2)
	port := []int{4242, 1, 53, 65535, 1024 + r.Intn(60000)}[r.Intn(5)]
	says := r.Intn(2) // none / false
	if sentinel {
		port = []int{0, 0, 4242, 1, 65535}[r.Intn(5)]
		says = r.Intn(3)
		if r.Intn(6) == 0 {
			kind = 2
		}
	} else {
		switch r.Intn(16) {
		case 0:
			says = 2 // a transport that declares the request internal
		case 1:
			kind = 2 + r.Intn(2) // a foreign address type: no usable peer address
		case 2:
			port = 0
		}
	}
	return vC17MkRemote(ip, kind, port, says)
}

// vC17MkRemote: kind 0 = *net.UDPAddr, 1 = *net.TCPAddr, 2 = *net.IPAddr, 3 = nil address; says 0 = the
// transport has no Internal() method, 1 = it says false, 2 = it says true.
func vC17MkRemote(ip net.IP, kind, port, says int) (middleware.Transport, vC17Sink, string, map[string]any) {
	var addr net.Addr
	kindCoq, ipCoq, kindName := "KOther", "None", "nil"
	switch kind {
	case 0:
		addr, kindCoq, ipCoq, kindName = &net.UDPAddr{IP: ip, Port: port}, "KUdp", vC17CoqIP(ip), "*net.UDPAddr"
	case 1:
		addr, kindCoq, ipCoq, kindName = &net.TCPAddr{IP: ip, Port: port}, "KTcp", vC17CoqIP(ip), "*net.TCPAddr"
	case 2:
		addr, ipCoq, kindName = &net.IPAddr{IP: ip}, vC17CoqIP(ip), "*net.IPAddr"
	}
	saysCoq := []string{"None", "(Some false)", "(Some true)"}[says]
	coq := fmt.Sprintf("(mk_remote %s %s %d %s)", kindCoq, ipCoq, port, saysCoq)
	desc := map[string]any{"remote_addr_type": kindName, "ip": fmt.Sprint(ip), "ip_bytes": len(ip), "port": port, "transport_internal_method": saysCoq}
	if says == 0 {
		t := &vC17Tr{addr: addr}
		return t, t, coq, desc
	}
	t := &vC17TrSays{vC17Tr{addr: addr}, says == 2}
	return t, t, coq, desc
}

type vStub struct{ calls int }

func (s *vStub) Name() string                                       { return "verifstub" }
func (s *vStub) ServeDNS(ctx context.Context, ch *middleware.Chain) { s.calls++ }

func vEnvInt(name string, def int) int {
	if s := os.Getenv(name); s != "" {
		if n, err := strconv.Atoi(s); err == nil {
			return n
		}
	}
	return def
}

func vAddrBig(a netip.Addr) *big.Int {
	if a.Is4() {
		b := a.As4()
		return new(big.Int).SetUint64(uint64(binary.BigEndian.Uint32(b[:])))
	}
	b := a.As16()
	return new(big.Int).SetBytes(b[:])
}

func vRandPrefix(r *rand.Rand) netip.Prefix {
	if r.Intn(3) != 0 {
		var b [4]byte
		r.Read(b[:])
		b[0] = 10
		b[1] = byte(r.Intn(2))
		b[2] = byte(r.Intn(4))
		return netip.PrefixFrom(netip.AddrFrom4(b), 8+r.Intn(25))
	}
	var b [16]byte
	r.Read(b[:])
	copy(b[:], []byte{0x20, 0x01, 0x0d, 0xb8, 0, 0, 0, byte(r.Intn(2))})
	return netip.PrefixFrom(netip.AddrFrom16(b), 32+r.Intn(97))
}

func TestVerifC17Views(t *testing.T) {
	p := os.Getenv("VERIF_OUT")
	if p == "" {
		t.Skip("VERIF_OUT not set")
	}
	f, err := os.Create(p)
	if err != nil {
		t.Fatal(err)
	}
	defer f.Close()
	r := rand.New(rand.NewSource(int64(vEnvInt("VERIF_SEED", 1)) + 29))
	n := vEnvInt("VERIF_N", 300)
	// corpus first (corpus/C17/views.json): minimal failing inputs of the seeded changes this driver caught
	var corpus []struct {
		From  string `json:"from"`
		Views []struct {
			Networks []string `json:"networks"`
			Has      bool     `json:"has_answer"`
			Answers  string   `json:"answers"` // "", other-name | no-answers | only-unparsable-answers | other-type
		} `json:"views"`
		vC17Fixed
	}
	if dir := os.Getenv("VERIF_CORPUS"); dir != "" {
		if raw, err := os.ReadFile(dir + "/views.json"); err == nil {
			if err := json.Unmarshal(raw, &corpus); err != nil {
				t.Fatalf("corpus views.json: %v", err)
			}
		}
	}
	for c := -len(corpus); c < n; c++ {
		fixed := c < 0
		nv := 0
		if !fixed {
			nv = 1 + r.Intn(4)
		}
		cfg := &config.Config{}
		var vcoq []string
		var all []netip.Prefix
		var desc []any
		// ansShape: how the view's answer list is written. A view takes part in first-match selection whatever its
		// answers are: one with no usable answer matches, has no record, and the query falls through.
		//   0 = a record for another name, 1 = no answers at all, 2 = only unparsable answers,
		//   3 = a record for another type, -1 = a record for the question (possibly next to an unparsable one)
		addView := func(i int, nets []string, pc []string, has bool, ansShape int) {
			vc := config.ViewConfig{Zone: fmt.Sprintf("v%d", i), Networks: nets}
			shapeName := "record"
			if has {
				vc.Answers = []string{fmt.Sprintf("host.example. 60 IN A 192.0.2.%d", i)}
				if ansShape == 2 {
					vc.Answers = []string{"host.example. 60 IN A not-an-address", vc.Answers[0]}
					shapeName = "record+unparsable"
				}
			} else {
				switch ansShape {
				case 1:
					vc.Answers = nil
					shapeName = "no-answers"
				case 2:
					vc.Answers = []string{"host.example. 60 IN A not-an-address", "@@ bogus"}
					shapeName = "only-unparsable-answers"
				case 3:
					vc.Answers = []string{fmt.Sprintf("host.example. 60 IN TXT \"v%d\"", i)}
					shapeName = "other-type"
				default:
					vc.Answers = []string{fmt.Sprintf("other.example. 60 IN A 192.0.2.%d", i)}
					shapeName = "other-name"
				}
			}
			cfg.Views = append(cfg.Views, vc)
			vcoq = append(vcoq, fmt.Sprintf("([%s], %v)", strings.Join(pc, "; "), has))
			desc = append(desc, map[string]any{"networks": nets, "has_answer": has, "answers": shapeName})
		}
		if fixed {
			for i, fv := range corpus[c+len(corpus)].Views {
				var pc []string
				for _, e := range fv.Networks {
					pf, err := netip.ParsePrefix(e)
					if err != nil {
						continue // an unparsable network entry is ignored
					}
					all = append(all, pf)
					pc = append(pc, fmt.Sprintf("mk_prefix %v %s %d", pf.Addr().Is4(), vAddrBig(pf.Addr()).String(), pf.Bits()))
				}
				addView(i, fv.Networks, pc, fv.Has, map[string]int{"": 0, "other-name": 0, "no-answers": 1, "only-unparsable-answers": 2, "other-type": 3}[fv.Answers])
			}
		}
		for i := 0; i < nv; i++ {
			var nets []string
			var pc []string
			for j := 0; j < 1+r.Intn(3); j++ {
				var pf netip.Prefix
				if len(all) > 0 && r.Intn(3) == 0 {
					pf = all[r.Intn(len(all))] // overlap with an earlier view
				} else {
					pf = vRandPrefix(r)
					if r.Intn(4) == 0 { // views over (part of) the loopback block: the sentinel's neighbourhood is answered too
						pf = netip.MustParsePrefix([]string{"127.0.0.0/8", "127.0.0.255/32", "127.0.0.254/31", "127.0.0.0/24"}[r.Intn(4)])
					}
				}
				all = append(all, pf)
				nets = append(nets, pf.String())
				pc = append(pc, fmt.Sprintf("mk_prefix %v %s %d", pf.Addr().Is4(), vAddrBig(pf.Addr()).String(), pf.Bits()))
				if r.Intn(8) == 0 { // an unparsable network entry next to it: ignored, never widening
					nets = append(nets, []string{"10.0.0.0/33", "bogus", "2001:db8::/129", "10.0.0.0"}[r.Intn(4)])
				}
			}
			// a view without a record for the question (other name / other type / NO answers / only unparsable answers)
			// is as likely in first position as anywhere: 2 views in 5
			has := r.Intn(5) >= 2
			addView(i, nets, pc, has, r.Intn(4))
		}
		v := New(cfg)
		var w middleware.Transport
		var wr vC17Sink
		var remoteCoq string
		var rdesc map[string]any
		sentinel := false
		if fixed {
			w, wr, remoteCoq, rdesc = corpus[c+len(corpus)].vC17Make()
		} else {
			pf := all[r.Intn(len(all))]
			var src netip.Addr
			switch r.Intn(4) {
			case 0:
				src = vRandPrefix(r).Addr()
			case 1:
				src = pf.Masked().Addr()
			default:
				src = pf.Addr()
			}
			// one case in six: the neighbourhood of the sub-query signature (127.0.0.255, port 0) on every address type
			sentinel = r.Intn(6) == 0
			if sentinel {
				src = netip.MustParseAddr([]string{"127.0.0.255", "127.0.0.255", "127.0.0.254", "127.0.1.0"}[r.Intn(4)])
			}
			ip := net.IP(src.AsSlice())
			if src.Is4() && r.Intn(2) == 0 {
				b := src.As16()
				ip = net.IP(b[:])
			}
			w, wr, remoteCoq, rdesc = vC17Remote(r, ip, sentinel)
		}
		stub := &vStub{}
		ch := middleware.NewChain([]middleware.Handler{v, stub})
		req := new(dns.Msg)
		req.SetQuestion("host.example.", dns.TypeA)
		ch.Reset(w, req)
		internal := ch.Writer.Internal()
		ch.Next(context.Background())
		answered := "None"
		k := "view-fallthrough"
		goFail := ""
		if wr.vC17Written() {
			m := wr.vC17Msg()
			if m == nil || len(m.Answer) != 1 {
				goFail = "view reply without exactly one answer"
			} else if a, ok := m.Answer[0].(*dns.A); ok {
				answered = fmt.Sprintf("(Some %d%%nat)", int(a.A.To4()[3]))
				k = "view-answered"
			}
			if stub.calls != 0 {
				goFail = "view answered and also called the next handler"
			}
		} else if stub.calls != 1 {
			goFail = fmt.Sprintf("no reply and next handler called %d times", stub.calls)
		}
		if sentinel {
			k += "-sentinel-sweep"
		}
		if fixed {
			k += "-corpus"
		}
		if internal {
			k += "-internal"
		}
		b, _ := json.Marshal(map[string]any{
			"k":          k,
			"coq":        fmt.Sprintf("CaseView [%s] %s %s", strings.Join(vcoq, "; "), remoteCoq, answered),
			"go_fail":    goFail,
			"nontrivial": true,
			"desc":       map[string]any{"views": desc, "remote": rdesc, "writer_internal": internal, "answered": answered},
		})
		f.Write(append(b, '\n'))
	}
}
