//go:build verif

package forwarder

// C19 correspondence driver for the EXIT of the pipeline in forwarder mode (overlay-injected, never
// committed to /repo): client queries — message-born, or wire-born through Request.ParseWire +
// ResetWire when the strict parser admits the packet — run through the real chain [edns, forwarder]
// against one to three scripted upstream servers on loopback sockets (UDP and TCP on one port each).
// Each upstream records, in arrival order, the additional section of every query that reaches it —
// the octets that really left the process — and answers as scripted: a usable answer (echoing a
// subnet option it saw with SCOPE = SOURCE, as real authorities do), SERVFAIL (the forwarder moves
// on to the next configured upstream), a response to another question (dropped, next upstream), and
// any of these only after a truncated UDP answer (the dnsclient retries over TCP).  Recorded: what
// every upstream saw, and the subnet options per OPT record of the reply the client transport got.
// The helper section is the one of the edns driver (same generators, same renderers).

import (
	"context"
	"encoding/json"
	"fmt"
	"math/big"
	"math/rand"
	"net"
	"net/netip"
	"os"
	"strconv"
	"strings"
	"sync"
	"testing"
	"time"

	"github.com/miekg/dns"
	"github.com/semihalev/sdns/config"
	"github.com/semihalev/sdns/internal/ecs"
	"github.com/semihalev/sdns/middleware"
	"github.com/semihalev/sdns/middleware/edns"
)

type vC19Trace struct{ f *os.File }

func vC19Open(t *testing.T) *vC19Trace {
	p := os.Getenv("VERIF_OUT")
	if p == "" {
		t.Skip("VERIF_OUT not set")
	}
	f, err := os.Create(p)
	if err != nil {
		t.Fatal(err)
	}
	return &vC19Trace{f: f}
}

func (v *vC19Trace) emit(m map[string]any) {
	b, _ := json.Marshal(m)
	v.f.Write(append(b, '\n'))
}

func vC19EnvInt(name string, def int) int {
	if s := os.Getenv(name); s != "" {
		if n, err := strconv.Atoi(s); err == nil {
			return n
		}
	}
	return def
}

// ---- Coq term rendering

func vC19Bool(b bool) string {
	if b {
		return "true"
	}
	return "false"
}

func vC19Bytes(b []byte) string {
	return fmt.Sprintf("(mk_ipb %d %s)", len(b), new(big.Int).SetBytes(b).String())
}

func vC19AddrVal(a netip.Addr) *big.Int {
	if a.Is4() {
		b := a.As4()
		return new(big.Int).SetBytes(b[:])
	}
	b := a.As16()
	return new(big.Int).SetBytes(b[:])
}

func vC19Addr(a netip.Addr) string {
	if !a.IsValid() {
		return "None"
	}
	return fmt.Sprintf("(Some (mk_addr %s %s))", vC19Bool(a.Is4()), vC19AddrVal(a).String())
}

func vC19PfxRaw(p netip.Prefix) string {
	return fmt.Sprintf("(mk_pfx %s %s %d)", vC19Bool(p.Addr().Is4()), vC19AddrVal(p.Addr()).String(), p.Bits())
}

func vC19Pfx(p netip.Prefix) string {
	if !p.IsValid() {
		return "None"
	}
	return "(Some " + vC19PfxRaw(p) + ")"
}

func vC19Policy(p *ecs.Policy) string {
	if p == nil {
		return "None"
	}
	var nets []string
	for _, n := range p.ClientNetworks {
		nets = append(nets, vC19PfxRaw(n))
	}
	return fmt.Sprintf("(Some (mk_policy %s %d %d [%s] %d %d))", vC19Bool(p.Enabled), p.ForwardV4Max, p.ForwardV6Max,
		strings.Join(nets, "; "), p.MinScopeV4, p.MinScopeV6)
}

func vC19EcsRaw(e *dns.EDNS0_SUBNET) string {
	return fmt.Sprintf("(mk_ecs %d %d %d %s)", e.Family, e.SourceNetmask, e.SourceScope, vC19Bytes(e.Address))
}

func vC19Ecs(e *dns.EDNS0_SUBNET) string {
	if e == nil {
		return "None"
	}
	return "(Some " + vC19EcsRaw(e) + ")"
}

func vC19Opts(opts []dns.EDNS0) string {
	var s []string
	for _, o := range opts {
		if e, ok := o.(*dns.EDNS0_SUBNET); ok {
			s = append(s, "OEcs "+vC19EcsRaw(e))
		} else {
			s = append(s, fmt.Sprintf("OOther %d", o.Option()))
		}
	}
	return "[" + strings.Join(s, "; ") + "]"
}

// ---- generators

func vC19Uint8(r *rand.Rand, around ...int) uint8 {
	switch r.Intn(4) {
	case 0:
		return uint8([]int{0, 1, 8, 16, 23, 24, 25, 31, 32, 33, 48, 55, 56, 57, 64, 127, 128, 129, 200, 255}[r.Intn(20)])
	case 1:
		if len(around) > 0 {
			v := around[r.Intn(len(around))] + r.Intn(3) - 1
			if v < 0 {
				v = 0
			}
			if v > 255 {
				v = 255
			}
			return uint8(v)
		}
	}
	return uint8(r.Intn(256))
}

func vC19RandAddr(r *rand.Rand, is4 bool) netip.Addr {
	if is4 {
		var b [4]byte
		r.Read(b[:])
		switch r.Intn(4) {
		case 0:
			b[0], b[1] = 10, byte(r.Intn(3))
		case 1:
			b = [4]byte{203, 0, 113, byte(r.Intn(256))}
		}
		return netip.AddrFrom4(b)
	}
	var b [16]byte
	r.Read(b[:])
	switch r.Intn(5) {
	case 0:
		copy(b[:], []byte{0x20, 0x01, 0x0d, 0xb8, 0, byte(r.Intn(2)), 0, byte(r.Intn(2))})
	case 1: // IPv4-mapped
		for i := 0; i < 10; i++ {
			b[i] = 0
		}
		b[10], b[11] = 0xff, 0xff
	case 2: // nearly mapped
		for i := 0; i < 10; i++ {
			b[i] = 0
		}
		b[10], b[11] = 0xff, 0xfe
	}
	return netip.AddrFrom16(b)
}

func vC19RandPrefix(r *rand.Rand) netip.Prefix {
	is4 := r.Intn(2) == 0
	a := vC19RandAddr(r, is4)
	w := a.BitLen()
	var bits int
	switch r.Intn(4) {
	case 0:
		bits = []int{0, 1, w - 1, w}[r.Intn(4)]
	case 1:
		bits = []int{8, 16, 24, 32}[r.Intn(4)]
	default:
		bits = r.Intn(w + 1)
	}
	return netip.PrefixFrom(a, bits) // host bits kept
}

var vC19Malformed = []string{"", " ", "\t", "  ", " 10.0.0.0/8", "10.0.0.0/8 ", "10.0.0.0", "10.0.0.0/33", "::/129", "10.0.0.0/-1", "10.0.0.256/8", "fe80::1%eth0/64", "1.2.3.4/ 8", "/8", "2001:db8::/x", "", " "}

type vC19BuildArgs struct {
	enabled        bool
	f4, f6, m4, m6 uint8
	nets           []string
}

func (b vC19BuildArgs) coq() string {
	var nets []string
	for _, s := range b.nets {
		p, err := netip.ParsePrefix(s)
		if err != nil {
			nets = append(nets, "None")
		} else {
			nets = append(nets, "Some "+vC19PfxRaw(p))
		}
	}
	return fmt.Sprintf("(mk_bargs %s %d %d %d %d [%s])", vC19Bool(b.enabled), b.f4, b.f6, b.m4, b.m6, strings.Join(nets, "; "))
}

func vC19GenBuildArgs(r *rand.Rand) vC19BuildArgs {
	b := vC19BuildArgs{enabled: r.Intn(8) != 0}
	pick := func(lim int) uint8 {
		switch r.Intn(10) {
		case 0, 1, 2:
			return 0
		case 3:
			return uint8(lim)
		case 4:
			return uint8(lim + 1)
		case 5:
			return uint8(r.Intn(256))
		case 6:
			return 1
		}
		return uint8(1 + r.Intn(lim))
	}
	b.f4, b.f6, b.m4, b.m6 = pick(32), pick(128), pick(32), pick(128)
	if r.Intn(3) == 0 { // mostly valid configurations
		if b.f4 > 32 {
			b.f4 = 24
		}
		if b.f6 > 128 {
			b.f6 = 56
		}
		if b.m4 > 32 {
			b.m4 = 0
		}
		if b.m6 > 128 {
			b.m6 = 0
		}
	}
	n := r.Intn(4)
	if r.Intn(3) == 0 {
		n = 0
	}
	for i := 0; i < n; i++ {
		if r.Intn(7) == 0 {
			b.nets = append(b.nets, vC19Malformed[r.Intn(len(vC19Malformed))])
		} else {
			b.nets = append(b.nets, vC19RandPrefix(r).String())
		}
	}
	return b
}

// a policy: from Build (mostly), nil, or hand-made (disabled but non-nil, ceilings beyond the width)
func vC19GenPolicy(r *rand.Rand) *ecs.Policy {
	switch r.Intn(10) {
	case 0:
		return nil
	case 1:
		p := &ecs.Policy{Enabled: r.Intn(2) == 0, ForwardV4Max: vC19Uint8(r, 24, 32), ForwardV6Max: vC19Uint8(r, 56, 128),
			MinScopeV4: vC19Uint8(r, 24, 32), MinScopeV6: vC19Uint8(r, 56, 128)}
		for i := r.Intn(3); i > 0; i-- {
			p.ClientNetworks = append(p.ClientNetworks, vC19RandPrefix(r))
		}
		return p
	}
	for {
		b := vC19GenBuildArgs(r)
		b.enabled = true
		p, err := ecs.Build(b.enabled, b.f4, b.f6, b.m4, b.m6, b.nets)
		if err == nil && p != nil {
			return p
		}
	}
}

func vC19GenECS(r *rand.Rand, p *ecs.Policy) *dns.EDNS0_SUBNET {
	e := &dns.EDNS0_SUBNET{Code: dns.EDNS0SUBNET}
	fam := 1 + r.Intn(2)
	is4 := fam == 1
	a := vC19RandAddr(r, is4)
	e.Family = uint16(fam)
	e.Address = net.IP(a.AsSlice())
	ceil := []int{24, 56}
	if p != nil {
		ceil = []int{int(p.ForwardV4Max), int(p.ForwardV6Max), int(p.MinScopeV4), int(p.MinScopeV6)}
	}
	w := a.BitLen()
	switch r.Intn(5) {
	case 0:
		e.SourceNetmask = uint8([]int{0, 1, w - 1, w}[r.Intn(4)])
	case 1:
		e.SourceNetmask = vC19Uint8(r, ceil...)
	default:
		e.SourceNetmask = uint8(r.Intn(w + 1))
	}
	e.SourceScope = 0
	if r.Intn(3) == 0 {
		e.SourceScope = uint8(r.Intn(w + 1))
	}
	// deviations
	switch r.Intn(30) {
	case 0:
		e.Family = uint16([]int{0, 3, 65535}[r.Intn(3)])
	case 1: // family / address mismatch
		e.Family = uint16(3 - fam)
	case 2:
		e.Address = nil
	case 3:
		e.Address = net.IP{}
	case 4:
		e.Address = net.IP(e.Address[:len(e.Address)-1])
	case 5: // v4 in 16-byte form
		if is4 {
			e.Address = net.IP(a.AsSlice()).To16()
		}
	case 6:
		e.SourceNetmask = vC19Uint8(r)
	case 7:
		e.Address = append(net.IP{}, append(e.Address, 7)...)
	}
	return e
}

func vC19AddrOfIP(ip net.IP) (netip.Addr, bool) {
	if v4 := ip.To4(); v4 != nil {
		return netip.AddrFromSlice(v4)
	}
	return netip.AddrFromSlice(ip)
}

// independent judgement of a forwarded option
func vC19ForwardedOK(p *ecs.Policy, in, out *dns.EDNS0_SUBNET) string {
	if p == nil || in == nil {
		return "option produced without a policy / without an input"
	}
	ia, ok := vC19AddrOfIP(in.Address)
	if !ok {
		return "option produced from an unusable address"
	}
	var ceil int
	switch out.Family {
	case 1:
		ceil = int(p.ForwardV4Max)
		if !ia.Is4() || len(out.Address) != 4 {
			return "family 1 with a non-IPv4 address"
		}
	case 2:
		ceil = int(p.ForwardV6Max)
		if !ia.Is6() || ia.Is4In6() || len(out.Address) != 16 {
			return "family 2 with a non-IPv6 address"
		}
	default:
		return fmt.Sprintf("family %d forwarded", out.Family)
	}
	if out.Family != in.Family {
		return "family changed"
	}
	if int(out.SourceNetmask) > ceil || out.SourceNetmask > in.SourceNetmask {
		return fmt.Sprintf("source prefix /%d beyond ceiling /%d or client /%d", out.SourceNetmask, ceil, in.SourceNetmask)
	}
	if out.SourceScope != 0 {
		return "query SCOPE not 0"
	}
	oa, ok := netip.AddrFromSlice(out.Address)
	if !ok {
		return "bad output address"
	}
	want, err := ia.Prefix(int(out.SourceNetmask))
	if err != nil {
		return "prefix length beyond the address width"
	}
	if netip.PrefixFrom(oa, int(out.SourceNetmask)).Masked().Addr() != oa {
		return "host bits set in forwarded address " + oa.String()
	}
	if want.Addr() != oa {
		return fmt.Sprintf("forwarded %s, client network is %s", oa, want.Addr())
	}
	return ""
}

func vC19Extra(extra []dns.RR) string {
	var s []string
	for _, rr := range extra {
		if o, ok := rr.(*dns.OPT); ok {
			s = append(s, fmt.Sprintf("ROpt (mk_optrr %d %s)", o.Version(), vC19Opts(o.Option)))
		} else {
			s = append(s, "ROther")
		}
	}
	return "[" + strings.Join(s, "; ") + "]"
}

func vC19GenOption(r *rand.Rand, p *ecs.Policy) dns.EDNS0 {
	switch r.Intn(9) {
	case 0:
		return &dns.EDNS0_COOKIE{Code: dns.EDNS0COOKIE, Cookie: "0011223344556677"}
	case 1:
		return &dns.EDNS0_NSID{Code: dns.EDNS0NSID}
	case 2:
		return &dns.EDNS0_PADDING{Padding: make([]byte, r.Intn(8))}
	case 3:
		return &dns.EDNS0_TCP_KEEPALIVE{Code: dns.EDNS0TCPKEEPALIVE}
	case 4:
		return &dns.EDNS0_LOCAL{Code: uint16(65001 + r.Intn(20)), Data: []byte{1, 2, 3}}
	}
	return vC19GenECS(r, p)
}

func vC19GenExtra(r *rand.Rand, p *ecs.Policy) []dns.RR {
	var extra []dns.RR
	nopt := 1
	switch r.Intn(40) {
	case 0, 1, 2, 3:
		nopt = 0
	case 4, 5:
		nopt = 2
	case 6:
		nopt = 3
	}
	other := func() {
		if r.Intn(5) == 0 {
			extra = append(extra, &dns.A{Hdr: dns.RR_Header{Name: "ns.example.", Rrtype: dns.TypeA, Class: dns.ClassINET, Ttl: 60}, A: net.IPv4(192, 0, 2, 1).To4()})
		}
	}
	other()
	for i := 0; i < nopt; i++ {
		o := &dns.OPT{Hdr: dns.RR_Header{Name: ".", Rrtype: dns.TypeOPT}}
		o.SetUDPSize(uint16([]int{0, 512, 1232, 4096, 65535}[r.Intn(5)]))
		if r.Intn(2) == 0 {
			o.SetDo()
		}
		if r.Intn(15) == 0 {
			o.SetVersion(uint8(1 + r.Intn(3)))
		}
		cnt := r.Intn(4)
		if r.Intn(3) == 0 {
			cnt = 1
		}
		for j := 0; j < cnt; j++ {
			o.Option = append(o.Option, vC19GenOption(r, p))
		}
		extra = append(extra, o)
		other()
	}
	return extra
}

func vC19Eligible(p *ecs.Policy, client netip.Addr) bool {
	if p == nil || !p.Enabled || !client.IsValid() {
		return false
	}
	if len(p.ClientNetworks) == 0 {
		return true
	}
	for _, q := range p.ClientNetworks {
		if q.Masked().Contains(client) {
			return true
		}
	}
	return false
}

// independent privacy oracle for an upstream-bound additional section
func vC19UpstreamOK(p *ecs.Policy, client netip.Addr, before []*dns.EDNS0_SUBNET, after []dns.RR) string {
	necs := 0
	for _, rr := range after {
		o, ok := rr.(*dns.OPT)
		if !ok {
			continue
		}
		for _, opt := range o.Option {
			e, isECS := opt.(*dns.EDNS0_SUBNET)
			if !isECS {
				return fmt.Sprintf("client option code %d survived", opt.Option())
			}
			necs++
			if !vC19Eligible(p, client) {
				return fmt.Sprintf("subnet option %s forwarded for an ineligible client %s", e.String(), client)
			}
			why := "no client subnet option to derive it from"
			for _, in := range before {
				if why = vC19ForwardedOK(p, in, e); why == "" {
					break
				}
			}
			if why != "" {
				return "forwarded subnet option " + e.String() + ": " + why
			}
		}
	}
	if necs > 1 {
		return "more than one subnet option forwarded"
	}
	return ""
}

func vC19SnapECS(extra []dns.RR) (all []*dns.EDNS0_SUBNET, leftovers bool, nopt int) {
	last := -1
	for i, rr := range extra {
		if _, ok := rr.(*dns.OPT); ok {
			last = i
			nopt++
		}
	}
	for i, rr := range extra {
		o, ok := rr.(*dns.OPT)
		if !ok {
			continue
		}
		if i != last && len(o.Option) > 0 {
			leftovers = true
		}
		for _, opt := range o.Option {
			if e, ok := opt.(*dns.EDNS0_SUBNET); ok {
				c := *e
				c.Address = append(net.IP(nil), e.Address...)
				if e.Address == nil {
					c.Address = nil
				}
				all = append(all, &c)
			}
		}
	}
	return
}

// a transport with an arbitrary remote address
type vC19Writer struct {
	proto  string
	remote net.IP
	msg    *dns.Msg
	raw    []byte // the octets of a reply that arrived packed (the byte path)
	bad    string // why they do not unpack, if they do not
}

func (w *vC19Writer) LocalAddr() net.Addr {
	if w.proto == "tcp" {
		return &net.TCPAddr{IP: net.IPv4(127, 0, 0, 1), Port: 53}
	}
	return &net.UDPAddr{IP: net.IPv4(127, 0, 0, 1), Port: 53}
}
func (w *vC19Writer) RemoteAddr() net.Addr {
	if w.proto == "tcp" {
		return &net.TCPAddr{IP: w.remote, Port: 40000}
	}
	return &net.UDPAddr{IP: w.remote, Port: 40000}
}
func (w *vC19Writer) WriteMsg(m *dns.Msg) error { w.msg = m; return nil }
func (w *vC19Writer) Write(b []byte) (int, error) {
	// like a socket: the octets are gone whatever they are; whether they are a message is judged afterwards
	w.raw = append([]byte(nil), b...)
	m := new(dns.Msg)
	if err := m.Unpack(b); err != nil {
		w.msg, w.bad = nil, err.Error()
		return len(b), nil
	}
	w.msg = m
	return len(b), nil
}
func (w *vC19Writer) Close() error  { return nil }
func (w *vC19Writer) Proto() string { return w.proto }

func vC19RemoteIP(r *rand.Rand, b vC19BuildArgs) net.IP {
	is4 := r.Intn(3) != 0
	a := vC19RandAddr(r, is4)
	if len(b.nets) > 0 && r.Intn(2) == 0 {
		if p, err := netip.ParsePrefix(b.nets[r.Intn(len(b.nets))]); err == nil {
			a = p.Masked().Addr()
		}
	}
	ip := net.IP(a.AsSlice())
	if a.Is4() && r.Intn(2) == 0 {
		ip = ip.To16() // the form net.ResolveUDPAddr produces
	}
	switch r.Intn(40) {
	case 0:
		ip = nil
	case 1:
		ip = ip[:3]
	}
	return ip
}

// ---------------------------------------------------------------- scripted upstreams

type vC19Seen struct {
	port  int
	tcp   bool
	cd    bool
	extra []dns.RR
}

type vC19Upstreams struct {
	mu    sync.Mutex
	beh   map[int]int // port -> behaviour code: code%3 = final (0 answer, 1 SERVFAIL, 2 other question); code >= 3: truncated over UDP first
	log   []vC19Seen
	ports []int
	stop  []func()
}

func (u *vC19Upstreams) handler(port int, tcp bool) dns.HandlerFunc {
	return func(w dns.ResponseWriter, q *dns.Msg) {
		u.mu.Lock()
		code := u.beh[port]
		seen := q.Copy().Extra
		for _, rr := range seen {
			if o, ok := rr.(*dns.OPT); ok {
				for _, x := range o.Option {
					// the wire carries an IPv4 subnet as family 1 + prefix octets; the unpacker's 16-byte
					// in-memory form is the observer's, not the wire's
					if e, ok := x.(*dns.EDNS0_SUBNET); ok && e.Family == 1 && e.Address.To4() != nil {
						e.Address = e.Address.To4()
					}
				}
			}
		}
		u.log = append(u.log, vC19Seen{port: port, tcp: tcp, cd: q.CheckingDisabled, extra: seen})
		u.mu.Unlock()
		resp := new(dns.Msg)
		resp.SetReply(q)
		resp.RecursionAvailable = true
		if !tcp && code >= 3 {
			resp.Truncated = true
			_ = w.WriteMsg(resp)
			return
		}
		switch code % 3 {
		case 1:
			resp.Rcode = dns.RcodeServerFailure
		case 2:
			resp.Question[0].Name = "other.example.org."
			fallthrough
		default:
			resp.Answer = []dns.RR{&dns.A{Hdr: dns.RR_Header{Name: resp.Question[0].Name, Rrtype: dns.TypeA, Class: dns.ClassINET, Ttl: 60}, A: net.IPv4(192, 0, 2, byte(port%250+1)).To4()}}
			// as authorities do: echo the subnet option with SCOPE = SOURCE, next to an option of their own
			if o := q.IsEdns0(); o != nil {
				ro := &dns.OPT{Hdr: dns.RR_Header{Name: ".", Rrtype: dns.TypeOPT}}
				ro.SetUDPSize(1232)
				for _, x := range o.Option {
					if s, ok := x.(*dns.EDNS0_SUBNET); ok {
						c := *s
						c.SourceScope = s.SourceNetmask
						ro.Option = append(ro.Option, &c)
					}
				}
				ro.Option = append(ro.Option, &dns.EDNS0_NSID{Code: dns.EDNS0NSID, Nsid: "7570"})
				resp.Extra = append(resp.Extra, ro)
			}
		}
		_ = w.WriteMsg(resp)
	}
}

func vC19StartUpstreams(n int) (*vC19Upstreams, error) {
	u := &vC19Upstreams{beh: map[int]int{}}
	for i := 0; i < n; i++ {
		var (
			pc   net.PacketConn
			ln   net.Listener
			port int
			err  error
		)
		for try := 0; try < 30; try++ {
			pc, err = net.ListenPacket("udp4", "127.0.0.1:0")
			if err != nil {
				continue
			}
			port = pc.LocalAddr().(*net.UDPAddr).Port
			ln, err = net.Listen("tcp4", fmt.Sprintf("127.0.0.1:%d", port))
			if err == nil {
				break
			}
			pc.Close()
		}
		if err != nil {
			u.close()
			return nil, err
		}
		var wg sync.WaitGroup
		wg.Add(2)
		// the observer takes every query: miekg's default MsgAcceptFunc answers FORMERR to ARCOUNT > 2 before
		// the handler sees the packet (a query whose additional section keeps its non-OPT records around the
		// one OPT would have left the process unrecorded)
		acceptAll := func(dns.Header) dns.MsgAcceptAction { return dns.MsgAccept }
		us := &dns.Server{PacketConn: pc, Handler: u.handler(port, false), NotifyStartedFunc: wg.Done, MsgAcceptFunc: acceptAll}
		ts := &dns.Server{Listener: ln, Handler: u.handler(port, true), NotifyStartedFunc: wg.Done, MsgAcceptFunc: acceptAll}
		go us.ActivateAndServe()
		go ts.ActivateAndServe()
		wg.Wait()
		u.ports = append(u.ports, port)
		u.stop = append(u.stop, func() { us.Shutdown(); ts.Shutdown() })
	}
	return u, nil
}

func (u *vC19Upstreams) close() {
	for _, f := range u.stop {
		f()
	}
}

// the additional section as the wire carried it: a subnet option's address in its family's natural
// width (the unpacker's in-memory form — 16 bytes for IPv4 — is the observer's, not the wire's)
func vC19ExtraWire(extra []dns.RR) string {
	var s []string
	for _, rr := range extra {
		o, ok := rr.(*dns.OPT)
		if !ok {
			s = append(s, "ROther")
			continue
		}
		var opts []dns.EDNS0
		for _, x := range o.Option {
			if e, ok := x.(*dns.EDNS0_SUBNET); ok {
				c := *e
				if v4 := e.Address.To4(); e.Family == 1 && v4 != nil {
					c.Address = v4
				}
				opts = append(opts, &c)
			} else {
				opts = append(opts, x)
			}
		}
		s = append(s, fmt.Sprintf("ROpt (mk_optrr %d %s)", o.Version(), vC19Opts(opts)))
	}
	return "[" + strings.Join(s, "; ") + "]"
}

func vC19ReplyCounts(m *dns.Msg) (string, bool) {
	var s []string
	any := false
	for _, rr := range m.Extra {
		if o, ok := rr.(*dns.OPT); ok {
			n := 0
			for _, x := range o.Option {
				if _, isECS := x.(*dns.EDNS0_SUBNET); isECS {
					n++
				}
			}
			if n > 0 {
				any = true
			}
			s = append(s, fmt.Sprintf("%d%%N", n))
		}
	}
	return "[" + strings.Join(s, "; ") + "]", any
}

type vC19ExitPlan struct {
	b      vC19BuildArgs
	remote net.IP
	proto  string
	dnssec bool
	cd     bool
	extra  []dns.RR
	wire   bool
	order  []int // indices into the upstream set, in configured order
	codes  []int // behaviour of each configured upstream
}

func vC19RunExit(tr *vC19Trace, u *vC19Upstreams, pl vC19ExitPlan, kind string) {
	cfg := &config.Config{CookieSecret: "verif-secret", DNSSEC: "off"}
	if pl.dnssec {
		cfg.DNSSEC = "on"
	}
	cfg.Timeout = config.Duration{Duration: 4 * time.Second}
	cfg.QueryTimeout = config.Duration{Duration: 20 * time.Second}
	cfg.ECS = config.ECSConfig{Enabled: pl.b.enabled, ForwardV4Max: pl.b.f4, ForwardV6Max: pl.b.f6, MinScopeV4: pl.b.m4, MinScopeV6: pl.b.m6, ClientNetworks: pl.b.nets}
	pos := map[int]int{}
	u.mu.Lock()
	u.log = nil
	for i, idx := range pl.order {
		port := u.ports[idx]
		cfg.ForwarderServers = append(cfg.ForwarderServers, fmt.Sprintf("127.0.0.1:%d", port))
		pos[port] = i
		u.beh[port] = pl.codes[i]
	}
	u.mu.Unlock()
	e := edns.New(cfg)
	f := New(cfg)
	pol, _ := ecs.Build(pl.b.enabled, pl.b.f4, pl.b.f6, pl.b.m4, pl.b.m6, pl.b.nets)

	msg := new(dns.Msg)
	msg.SetQuestion("www.example.org.", dns.TypeA)
	msg.RecursionDesired = true
	msg.CheckingDisabled = pl.cd
	msg.Extra = pl.extra
	var wireReq *middleware.Request
	if pl.wire {
		if raw, err := msg.Pack(); err == nil {
			dec := new(dns.Msg)
			wr := new(middleware.Request)
			if dec.Unpack(raw) == nil && wr.ParseWire(raw, time.Now(), nil) {
				wireReq, msg = wr, dec // the client options as the wire carries them
			}
		}
	}
	extraIn := vC19Extra(msg.Extra)
	snap, _, _ := vC19SnapECS(msg.Extra)
	var qdesc []string
	for _, rr := range msg.Extra {
		qdesc = append(qdesc, rr.String())
	}
	clientAddr, _ := netip.AddrFromSlice(pl.remote)
	clientAddr = clientAddr.Unmap()

	w := &vC19Writer{proto: pl.proto, remote: pl.remote}
	ch := middleware.NewChain([]middleware.Handler{e, f})
	if wireReq != nil {
		ch.ResetWire(w, wireReq)
	} else {
		ch.Reset(w, msg)
	}
	started := time.Now()
	ch.Next(context.Background())
	if time.Since(started) > 3*time.Second || w.msg == nil {
		// an exchange ran into its time-out (loaded machine) or nothing came back: not an observation
		tr.emit(map[string]any{"k": "exit-inconclusive", "inconclusive": true, "desc": "stall or no reply"})
		return
	}
	u.mu.Lock()
	log := append([]vC19Seen(nil), u.log...)
	u.mu.Unlock()

	goFail := ""
	var sent, sdesc []string
	anyECS := false
	for _, s := range log {
		sent = append(sent, fmt.Sprintf("mk_wq %d %s %s %s", pos[s.port], vC19Bool(s.tcp), vC19Bool(s.cd), vC19ExtraWire(s.extra)))
		var rrs []string
		for _, rr := range s.extra {
			rrs = append(rrs, rr.String())
			if o, ok := rr.(*dns.OPT); ok {
				for _, x := range o.Option {
					if _, isECS := x.(*dns.EDNS0_SUBNET); isECS {
						anyECS = true
					}
				}
			}
		}
		sdesc = append(sdesc, fmt.Sprintf("upstream #%d tcp=%v cd=%v additional=%v", pos[s.port], s.tcp, s.cd, rrs))
		if why := vC19UpstreamOK(pol, clientAddr, snap, s.extra); why != "" && goFail == "" {
			goFail = fmt.Sprintf("upstream #%d (tcp=%v) received: %s", pos[s.port], s.tcp, why)
		}
	}
	counts, leaked := vC19ReplyCounts(w.msg)
	if leaked && goFail == "" {
		goFail = "the client reply carries a subnet option"
	}
	var codes []string
	for _, c := range pl.codes {
		codes = append(codes, strconv.Itoa(c))
	}
	k := kind
	if wireReq != nil {
		k += "-wire"
	}
	if len(log) == 0 {
		k += "-nothing-sent"
	} else if anyECS {
		k += "-ecs"
	}
	if len(log) > 1 {
		k += "-failover"
	}
	tr.emit(map[string]any{"k": k,
		"coq": fmt.Sprintf("CaseExitFwd %s %s %s %s %s [%s] [%s] %s", pl.b.coq(), vC19Bytes(pl.remote), vC19Bool(pl.dnssec), vC19Bool(pl.cd),
			extraIn, strings.Join(codes, "; "), strings.Join(sent, "; "), counts),
		"go_fail": goFail, "nontrivial": len(snap) > 0 || len(log) > 1,
		"desc": map[string]any{"ecs_cfg": fmt.Sprintf("%+v", pl.b), "client": pl.remote.String(), "wire_born": wireReq != nil, "dnssec": pl.dnssec, "cd": pl.cd,
			"query_additional": qdesc, "upstream_behaviour": pl.codes, "upstreams_received": sdesc, "reply_rcode": w.msg.Rcode, "reply_subnet_options_per_opt": counts}})
}

func vC19ExitArgs(r *rand.Rand) vC19BuildArgs {
	b := vC19GenBuildArgs(r)
	if r.Intn(3) != 0 { // mostly an enabled, valid policy
		b.enabled = true
		if b.f4 > 32 {
			b.f4 = 24
		}
		if b.f6 > 128 {
			b.f6 = 0
		}
		if b.m4 > 32 {
			b.m4 = 0
		}
		if b.m6 > 128 {
			b.m6 = 56
		}
		var good []string
		for _, s := range b.nets {
			if _, err := netip.ParsePrefix(s); err == nil {
				good = append(good, s)
			}
		}
		b.nets = good
		if r.Intn(2) == 0 {
			b.nets = nil
		}
	}
	return b
}

func TestVerifC19Exit(t *testing.T) {
	tr := vC19Open(t)
	defer tr.f.Close()
	r := rand.New(rand.NewSource(int64(vC19EnvInt("VERIF_SEED", 1))))
	n := vC19EnvInt("VERIF_N", 300)
	u, err := vC19StartUpstreams(3)
	if err != nil {
		tr.emit(map[string]any{"k": "exit-inconclusive", "inconclusive": true, "desc": "cannot bind loopback sockets: " + err.Error()})
		return
	}
	defer u.close()

	// fixed first: an eligible client's /32 behind two failing upstreams (SERVFAIL, then truncated UDP and
	// SERVFAIL over TCP) and a third that answers; the same without any policy; a two-OPT query
	sub := func() *dns.OPT {
		o := &dns.OPT{Hdr: dns.RR_Header{Name: ".", Rrtype: dns.TypeOPT}}
		o.SetUDPSize(1232)
		o.Option = []dns.EDNS0{&dns.EDNS0_SUBNET{Code: dns.EDNS0SUBNET, Family: 1, SourceNetmask: 32, Address: net.IPv4(203, 0, 113, 77).To4()},
			&dns.EDNS0_COOKIE{Code: dns.EDNS0COOKIE, Cookie: "0011223344556677"}}
		return o
	}
	on := vC19BuildArgs{enabled: true}
	vC19RunExit(tr, u, vC19ExitPlan{b: on, remote: net.IPv4(198, 51, 100, 7).To4(), proto: "udp", extra: []dns.RR{sub()}, order: []int{0, 1, 2}, codes: []int{1, 4, 0}}, "exit-replay-failover")
	vC19RunExit(tr, u, vC19ExitPlan{b: vC19BuildArgs{}, remote: net.IPv4(198, 51, 100, 7).To4(), proto: "udp", extra: []dns.RR{sub()}, order: []int{2, 0}, codes: []int{5, 3}}, "exit-replay-no-policy")
	vC19RunExit(tr, u, vC19ExitPlan{b: on, remote: net.IPv4(198, 51, 100, 7).To16(), proto: "tcp", cd: true, dnssec: true, extra: []dns.RR{sub(), sub()}, order: []int{1}, codes: []int{3}}, "exit-replay-two-opt")

	for c := 0; c < n; c++ {
		b := vC19ExitArgs(r)
		pol, _ := ecs.Build(b.enabled, b.f4, b.f6, b.m4, b.m6, b.nets)
		pl := vC19ExitPlan{b: b, remote: vC19RemoteIP(r, b), proto: "udp", dnssec: r.Intn(2) == 0, cd: r.Intn(4) == 0, wire: r.Intn(2) == 0}
		if r.Intn(4) == 0 {
			pl.proto = "tcp"
		}
		pl.extra = vC19GenExtra(r, pol)
		if (len(pl.remote) == 4 || len(pl.remote) == 16) && r.Intn(12) == 0 {
			// client_networks names this very client by its bare host address: refused by ecs.Build, the block is invalid
			pl.b.nets = append(append([]string(nil), pl.b.nets...), pl.remote.String())
		}
		pl.order = r.Perm(3)[:1+r.Intn(3)]
		for range pl.order {
			pl.codes = append(pl.codes, []int{0, 0, 0, 1, 1, 2, 3, 4, 5}[r.Intn(9)])
		}
		vC19RunExit(tr, u, pl, "exit-forwarder")
	}
}
