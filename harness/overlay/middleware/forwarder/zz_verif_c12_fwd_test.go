//go:build verif

package forwarder

// C12 forwarder driver (package middleware/forwarder): the real Forwarder (New(cfg), ServeDNS through a Chain) against
// scripted upstreams on loopback (UDP + TCP on one port), one behaviour per configured upstream, with the request tree's
// own ledger in the context. The forwarder tries its upstreams one after the other, so the model (Skeleton.forward run
// against the script) predicts exactly how many datagrams / TCP queries the upstreams receive, what the ledger counts
// and what the client gets.

import (
	"context"
	"encoding/json"
	"fmt"
	"math/rand"
	"net"
	"os"
	"strconv"
	"strings"
	"sync/atomic"
	"testing"
	"time"

	"github.com/miekg/dns"
	"github.com/semihalev/sdns/config"
	"github.com/semihalev/sdns/internal/mock"
	"github.com/semihalev/sdns/middleware"
)

type vC12FwdUp struct {
	addr     string
	udp, tcp *dns.Server
}

// behaviours: 0 answers; 1 TC=1 over UDP, answers over TCP; 2 TC=1 over UDP, SERVFAIL over TCP; 3 SERVFAIL
func vC12FwdStart(beh int, packets *atomic.Int64) (*vC12FwdUp, error) {
	var pc net.PacketConn
	var ln net.Listener
	var err error
	for try := 0; try < 20; try++ {
		pc, err = net.ListenPacket("udp", "127.0.0.1:0")
		if err != nil {
			continue
		}
		ln, err = net.Listen("tcp", pc.LocalAddr().String())
		if err == nil {
			break
		}
		pc.Close()
	}
	if err != nil {
		return nil, err
	}
	h := func(tcp bool) dns.Handler {
		return dns.HandlerFunc(func(w dns.ResponseWriter, req *dns.Msg) {
			packets.Add(1)
			m := new(dns.Msg)
			m.SetReply(req)
			switch {
			case beh == 3 || (beh == 2 && tcp):
				m.Rcode = dns.RcodeServerFailure
			case (beh == 1 || beh == 2) && !tcp:
				m.Truncated = true
			default:
				m.Answer = []dns.RR{&dns.A{Hdr: dns.RR_Header{Name: req.Question[0].Name, Rrtype: dns.TypeA, Class: dns.ClassINET, Ttl: 60}, A: net.IPv4(203, 0, 113, 40)}}
			}
			_ = w.WriteMsg(m)
		})
	}
	u := &vC12FwdUp{addr: pc.LocalAddr().String()}
	u.udp = &dns.Server{PacketConn: pc, Net: "udp", Handler: h(false)}
	u.tcp = &dns.Server{Listener: ln, Net: "tcp", Handler: h(true)}
	started := make(chan struct{}, 2)
	u.udp.NotifyStartedFunc = func() { started <- struct{}{} }
	u.tcp.NotifyStartedFunc = func() { started <- struct{}{} }
	go func() { _ = u.udp.ActivateAndServe() }()
	go func() { _ = u.tcp.ActivateAndServe() }()
	<-started
	<-started
	return u, nil
}

func TestVerifC12Fwd(t *testing.T) {
	path := os.Getenv("VERIF_OUT")
	if path == "" {
		t.Skip("VERIF_OUT not set")
	}
	f, err := os.Create(path)
	if err != nil {
		t.Fatal(err)
	}
	defer f.Close()
	emit := func(m map[string]any) {
		b, _ := json.Marshal(m)
		f.Write(append(b, '\n'))
	}
	seed, _ := strconv.Atoi(os.Getenv("VERIF_SEED"))
	n, _ := strconv.Atoi(os.Getenv("VERIF_N"))
	if n == 0 {
		n = 60
	}
	r := rand.New(rand.NewSource(int64(seed)*86028121 + 12))
	// fixed scripts first: every budget boundary of a three-upstream pool of truncating servers
	fixed := [][]int{{3, 2, 1}, {1}, {2, 2, 2}, {3, 3, 3, 0}, {1, 1}, {0}}
	for c := 0; c < n+len(fixed)*3; c++ {
		var script []int
		mode := 2
		var maxOut uint32
		if c < len(fixed)*3 {
			script = fixed[c/3]
			maxOut = uint32(1 + c%3*2)
		} else {
			for i, k := 0, 1+r.Intn(5); i < k; i++ {
				script = append(script, r.Intn(4))
			}
			mode = []int{2, 2, 2, 1, 0}[r.Intn(5)]
			maxOut = uint32(1 + r.Intn(8))
		}
		var packets atomic.Int64
		var ups []*vC12FwdUp
		cfg := &config.Config{Timeout: config.Duration{Duration: time.Second}, QueryTimeout: config.Duration{Duration: 5 * time.Second}}
		bad := false
		for _, b := range script {
			u, err := vC12FwdStart(b, &packets)
			if err != nil {
				bad = true
				break
			}
			ups = append(ups, u)
			cfg.ForwarderServers = append(cfg.ForwarderServers, u.addr)
		}
		stop := func() {
			for _, u := range ups {
				_ = u.udp.Shutdown()
				_ = u.tcp.Shutdown()
			}
		}
		if bad {
			stop()
			emit(map[string]any{"k": "fwd", "inconclusive": true, "desc": "bind"})
			continue
		}
		fw := New(cfg)
		modeCfg := []config.RecursionFirewallMode{config.RecursionFirewallModeOff, config.RecursionFirewallModeShadow, config.RecursionFirewallModeEnforce}[mode]
		pol := middleware.MustRecursionWorkPolicyFromConfig(config.RecursionFirewallConfig{Mode: modeCfg, MaxOutboundQueries: maxOut})
		own := middleware.NewRecursionWorkLedger(pol)
		req := new(dns.Msg)
		req.SetQuestion(fmt.Sprintf("q%d.fwd.", c), dns.TypeA)
		req.SetEdns0(1232, false)
		mw := mock.NewWriter("udp", "198.51.100.77:5300")
		ch := middleware.NewChain([]middleware.Handler{fw})
		ch.Reset(mw, req)
		ctx := context.Background()
		if own != nil {
			ctx = middleware.WithRecursionWork(ctx, own)
		}
		t0 := time.Now()
		ch.Next(ctx)
		el := time.Since(t0)
		stop()
		if el > 900*time.Millisecond {
			// a socket timeout (loopback hiccup) is an upstream behaviour the script does not describe
			emit(map[string]any{"k": "fwd", "inconclusive": true, "desc": "slow exchange"})
			continue
		}
		reply, rcode, ede := 2, -1, -1
		if mw.Written() {
			m := mw.Msg()
			rcode = m.Rcode
			if opt := m.IsEdns0(); opt != nil {
				for _, o := range opt.Option {
					if e, ok := o.(*dns.EDNS0_EDE); ok {
						ede = int(e.InfoCode)
					}
				}
			}
			switch {
			case rcode == dns.RcodeSuccess && len(m.Answer) > 0:
				reply = 0
			case rcode == dns.RcodeServerFailure && ede == 0 && own != nil && own.EnforcementError() != nil:
				reply = 1
			}
		}
		var ledOut uint32
		if own != nil {
			ledOut = own.Snapshot().OutboundQueries
		}
		var ss []string
		for _, b := range script {
			ss = append(ss, strconv.Itoa(b))
		}
		goFail := ""
		if !mw.Written() {
			goFail = "no reply written to the client"
		}
		modeName := []string{"off", "shadow", "enforce"}[mode]
		emit(map[string]any{
			"k":          "fwd-" + modeName,
			"coq":        fmt.Sprintf("CaseFwd %d %d [%s] %d %d %d", mode, maxOut, strings.Join(ss, ";"), packets.Load(), ledOut, reply),
			"nontrivial": reply == 1 || packets.Load() > 1,
			"go_fail":    goFail,
			"desc": map[string]any{"mode": modeName, "max_outbound": maxOut, "upstream_behaviours(0 ok,1 tc-ok,2 tc-servfail,3 servfail)": script,
				"upstream_arrivals": packets.Load(), "ledger_outbound": ledOut, "rcode": rcode, "ede": ede, "reply_class": reply},
		})
	}
}
