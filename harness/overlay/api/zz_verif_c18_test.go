//go:build verif

package api

// C18 driver, API level: the blocklist endpoints of api.go through the real
// router (path parameter decoding, batch JSON bodies, response arithmetic) on a
// BlockList built by middleware.Setup, as sdns.go wires it. The package cannot
// see the list's maps; the memory is read back from the `local` file, which the
// blocklist driver ties to the maps, and probed through /exists.

import (
	"bytes"
	"context"
	"encoding/json"
	"fmt"
	"math/rand"
	"net/http"
	"net/http/httptest"
	"net/url"
	"os"
	"path/filepath"
	"sort"
	"strconv"
	"strings"
	"testing"

	"github.com/miekg/dns"
	"github.com/semihalev/sdns/config"
	"github.com/semihalev/sdns/middleware"
	"github.com/semihalev/sdns/middleware/blocklist"
)

func vC18EnvInt(name string, def int) int {
	if s := os.Getenv(name); s != "" {
		if n, err := strconv.Atoi(s); err == nil {
			return n
		}
	}
	return def
}

func vC18Str(s string) string {
	for i := 0; i < len(s); i++ {
		c := s[i]
		if !((c >= 32 && c <= 126 && c != '"') || c == '\n') {
			parts := make([]string, len(s))
			for j := 0; j < len(s); j++ {
				parts[j] = strconv.Itoa(int(s[j]))
			}
			return "[" + strings.Join(parts, ";") + "]%N"
		}
	}
	return `(S "` + s + `")`
}

func vC18List(l []string) string {
	parts := make([]string, len(l))
	for i, s := range l {
		parts[i] = vC18Str(s)
	}
	return "[" + strings.Join(parts, "; ") + "]"
}

var vC18Labels = []string{"example", "notexample", "exampl", "com", "org", "net", "a", "b", "www", "ads", "x1", "sub", "tracker",
	"zone", "quiz", "az", "z", "a[b", "q{r", "x`y", "fghijklmnopqrstuvwxyz", `w\\`, `e\\\.f`}

func vC18Name(r *rand.Rand) string {
	n := 1 + r.Intn(3)
	parts := make([]string, n)
	for i := range parts {
		parts[i] = vC18Labels[r.Intn(len(vC18Labels))]
	}
	if r.Intn(3) > 0 {
		parts[n-1] = []string{"com", "org", "net"}[r.Intn(3)]
	}
	return strings.Join(parts, ".") + "."
}

func vC18Spell(r *rand.Rand, s string) string {
	if r.Intn(3) == 0 && len(s) > 1 {
		s = strings.TrimSuffix(s, ".")
	}
	if r.Intn(3) == 0 {
		b := []byte(s)
		var letters []int
		for i := range b {
			if b[i] >= 'a' && b[i] <= 'z' {
				letters = append(letters, i)
			}
		}
		switch mode := r.Intn(4); {
		case len(letters) == 0:
		case mode == 0: // exactly one capital, any letter of the alphabet
			b[letters[r.Intn(len(letters))]] -= 32
		case mode == 1: // only the boundary letters
			hit := false
			for _, i := range letters {
				if b[i] == 'a' || b[i] == 'z' {
					b[i] -= 32
					hit = true
				}
			}
			if !hit {
				b[letters[r.Intn(len(letters))]] -= 32
			}
		case mode == 2:
			for _, i := range letters {
				b[i] -= 32
			}
		default:
			for _, i := range letters {
				if r.Intn(2) == 0 {
					b[i] -= 32
				}
			}
		}
		s = string(b)
	}
	return s
}

func vC18Call(a *API, method, path string, body []byte, token string) (int, map[string]any) {
	req := httptest.NewRequest(method, path, bytes.NewReader(body))
	if token != "" {
		req.Header.Set("Authorization", "Bearer "+token)
	}
	w := httptest.NewRecorder()
	a.router.ServeHTTP(w, req)
	var out map[string]any
	_ = json.Unmarshal(w.Body.Bytes(), &out)
	return w.Code, out
}

func TestVerifC18Api(t *testing.T) {
	p := os.Getenv("VERIF_OUT")
	if p == "" {
		t.Skip("VERIF_OUT not set")
	}
	f, err := os.Create(p)
	if err != nil {
		t.Fatal(err)
	}
	defer f.Close()
	emit := func(k, coq string, desc any, nontrivial bool, goFail string) {
		rec := map[string]any{"k": k, "coq": coq, "desc": desc, "nontrivial": nontrivial}
		if goFail != "" {
			rec["go_fail"] = goFail
		}
		b, _ := json.Marshal(rec)
		f.Write(append(b, '\n'))
	}
	r := rand.New(rand.NewSource(int64(vC18EnvInt("VERIF_SEED", 1))*7919 + 1818))
	n := vC18EnvInt("VERIF_N", 60)
	base := os.Getenv("VERIF_SCRATCH")
	if base == "" {
		base = t.TempDir()
	}
	t.Cleanup(middleware.Reset)
	for c := 0; c < n; c++ {
		dir := filepath.Join(base, fmt.Sprintf("api%05d", c))
		if err := os.MkdirAll(dir, 0o755); err != nil {
			t.Fatal(err)
		}
		// a pool of keys so that removals hit
		var pool []string
		for i := 0; i < 4+r.Intn(4); i++ {
			k := vC18Name(r)
			if len(pool) > 0 && r.Intn(3) == 0 {
				k = vC18Labels[r.Intn(len(vC18Labels))] + "." + strings.TrimPrefix(pool[r.Intn(len(pool))], "*.")
			}
			if r.Intn(4) == 0 {
				k = "*." + k
			}
			pool = append(pool, k)
		}
		cfg := new(config.Config)
		cfg.Nullroute, cfg.Nullroutev6 = "0.0.0.0", "::0"
		cfg.BlockListDir = dir
		cfg.API = "127.0.0.1:0"
		token := ""
		if r.Intn(4) == 0 {
			token = "verif-token"
			cfg.BearerToken = token
		}
		if r.Intn(3) == 0 {
			e := strings.TrimPrefix(pool[r.Intn(len(pool))], "*.")
			cfg.Whitelist = []string{vC18Spell(r, []string{e, "www." + e, e[strings.IndexByte(e, '.')+1:]}[r.Intn(3)])}
			if cfg.Whitelist[0] == "" {
				cfg.Whitelist = nil
			}
		}
		middleware.Reset()
		middleware.Register("blocklist", func(cfg *config.Config) middleware.Handler { return blocklist.New(cfg) })
		middleware.Setup(cfg)
		a := New(cfg)
		ctx, cancel := context.WithCancel(context.Background())
		a.Run(ctx) // registers the routes (and starts the listener we do not use)

		wset := map[string]bool{}
		for _, e := range cfg.Whitelist {
			wset[dns.CanonicalName(e)] = true
		}
		w := []string{}
		for k := range wset {
			w = append(w, k)
		}
		sort.Strings(w)

		pick := func() string { return vC18Spell(r, pool[r.Intn(len(pool))]) }
		var parts []string
		var descOps []any
		goFail := ""
		anyOK := false
		nops := 2 + r.Intn(6)
		// "cover, then uncover" (one history in four): a broad entry, a narrower one at or below
		// it, then the broad one removed — forced[i] = the call and key of step i
		type forcedCall struct {
			x int
			k string
		}
		forced := map[int]forcedCall{}
		if r.Intn(4) == 0 {
			d := strings.TrimPrefix(pool[r.Intn(len(pool))], "*.")
			broad := d
			if r.Intn(2) == 0 {
				broad = "*." + d
			}
			narrow := []string{"www." + d, "*.ads." + d, "a.b." + d, "*." + d, d}[r.Intn(5)]
			at := r.Intn(2)
			if nops < at+3 {
				nops = at + 3
			}
			forced[at] = forcedCall{0, vC18Spell(r, broad)}
			forced[at+1] = forcedCall{[]int{0, 6}[r.Intn(2)], vC18Spell(r, narrow)}
			forced[at+2] = forcedCall{[]int{4, 8}[r.Intn(2)], vC18Spell(r, broad)}
		}
		for i := 0; i < nops; i++ {
			x := r.Intn(10)
			fk := ""
			if fc, ok := forced[i]; ok {
				x, fk = fc.x, fc.k
			}
			pick := func() string {
				if fk != "" {
					k := fk
					fk = ""
					return k
				}
				return pick()
			}
			switch {
			case x < 4:
				k := pick()
				code, out := vC18Call(a, http.MethodGet, "/api/v1/block/set/"+url.PathEscape(k), nil, token)
				ret := 0
				if out["success"] == true {
					ret = 1
					anyOK = true
				}
				if code != 200 {
					goFail = fmt.Sprintf("set %q: HTTP %d", k, code)
				}
				parts = append(parts, fmt.Sprintf("(OpSet %s, %d%%N)", vC18Str(k), ret))
				descOps = append(descOps, []any{"GET set", k, out})
			case x < 6:
				k := pick()
				code, out := vC18Call(a, http.MethodGet, "/api/v1/block/remove/"+url.PathEscape(k), nil, token)
				ret := 0
				if out["success"] == true {
					ret = 1
					anyOK = true
				}
				if code != 200 {
					goFail = fmt.Sprintf("remove %q: HTTP %d", k, code)
				}
				parts = append(parts, fmt.Sprintf("(OpRemove %s, %d%%N)", vC18Str(k), ret))
				descOps = append(descOps, []any{"GET remove", k, out})
			default:
				ks := []string{}
				for j := 0; j < 1+r.Intn(3); j++ {
					ks = append(ks, pick())
				}
				body, _ := json.Marshal(map[string]any{"keys": ks})
				set := x < 8
				path, field, other, opn := "/api/v1/block/set/batch", "added", "skipped", "OpSetBatch"
				if !set {
					path, field, other, opn = "/api/v1/block/remove/batch", "removed", "missing", "OpRemoveBatch"
				}
				code, out := vC18Call(a, http.MethodPost, path, body, token)
				cnt, _ := out[field].(float64)
				oth, _ := out[other].(float64)
				req, _ := out["requested"].(float64)
				if code != 200 || int(req) != len(ks) || int(cnt)+int(oth) != len(ks) {
					goFail = fmt.Sprintf("%s %v: HTTP %d %v", path, ks, code, out)
				}
				if cnt > 0 {
					anyOK = true
				}
				parts = append(parts, fmt.Sprintf("(%s %s, %d%%N)", opn, vC18List(ks), int(cnt)))
				descOps = append(descOps, []any{"POST " + path, ks, out})
			}
		}
		// without the token nothing changes, on any of the endpoints
		if token != "" {
			k := url.PathEscape(pick())
			body, _ := json.Marshal(map[string]any{"keys": []string{pick()}})
			for _, call := range [][3]string{
				{http.MethodGet, "/api/v1/block/set/" + k, ""}, {http.MethodGet, "/api/v1/block/remove/" + k, ""},
				{http.MethodGet, "/api/v1/block/exists/" + k, ""}, {http.MethodGet, "/api/v1/block/get/" + k, ""},
				{http.MethodPost, "/api/v1/block/set/batch", string(body)}, {http.MethodPost, "/api/v1/block/remove/batch", string(body)},
			} {
				tok := ""
				if r.Intn(3) == 0 {
					tok = "wrong-token"
				}
				code, _ := vC18Call(a, call[0], call[1], []byte(call[2]), tok)
				if code != http.StatusUnauthorized {
					goFail = fmt.Sprintf("%s %s without the bearer token: HTTP %d", call[0], call[1], code)
				}
			}
		}
		data, ferr := os.ReadFile(filepath.Join(dir, "local"))
		present := ferr == nil
		m1, wild1 := []string{}, []string{}
		if present {
			lines := strings.Split(strings.TrimSuffix(string(data), "\n"), "\n")
			for _, l := range lines[1:] {
				if strings.HasPrefix(l, "*.") {
					wild1 = append(wild1, l[2:])
				} else {
					m1 = append(m1, l)
				}
			}
		}
		sort.Strings(m1)
		sort.Strings(wild1)
		file := "None"
		if present {
			file = "(Some " + vC18Str(string(data)) + ")"
		}
		emit("api-history", fmt.Sprintf("CaseHistory [] [] %s [%s] %s %s %s", vC18List(w), strings.Join(parts, "; "), vC18List(m1), vC18List(wild1), file),
			map[string]any{"whitelist": cfg.Whitelist, "calls": descOps, "file_present": present, "file": string(data), "token": token != ""}, anyOK, goFail)

		// probes through /exists
		var pparts []string
		var pdesc []any
		blocked := 0
		np := 4 + r.Intn(4)
		for i := 0; i < np; i++ {
			e := strings.TrimPrefix(pool[r.Intn(len(pool))], "*.")
			var q string
			switch r.Intn(7) {
			case 0:
				q = e
			case 1:
				q = "www." + e
			case 2:
				q = "not" + e
			case 3:
				q = e[strings.IndexByte(e, '.')+1:]
			case 4:
				q = vC18Spell(r, "a.b."+e)
			case 5:
				q = vC18Name(r)
			default:
				q = vC18Spell(r, e)
			}
			if q == "" {
				q = "."
			}
			code, out := vC18Call(a, http.MethodGet, "/api/v1/block/exists/"+url.PathEscape(q), nil, token)
			got := out["exists"] == true
			if code != 200 {
				goFail = fmt.Sprintf("exists %q: HTTP %d", q, code)
			}
			if got {
				blocked++
			}
			pparts = append(pparts, fmt.Sprintf("(%s, %v)", vC18Str(q), got))
			pdesc = append(pdesc, []any{q, got})
		}
		emit("api-exists", fmt.Sprintf("CaseExists %s %s %s [%s]", vC18List(m1), vC18List(wild1), vC18List(w), strings.Join(pparts, "; ")),
			map[string]any{"m (from file)": m1, "wild (from file)": wild1, "w": w, "exists": pdesc}, blocked > 0 && blocked < np, goFail)
		cancel()
	}
}
