//go:build verif && linux && (amd64 || arm64)

package server

// C10 driver "conn": one stream connection through the REAL tcpEngine.serveConn
// (prefix-first frame loop, fill buffer, slab acquire/release and class swap,
// serveFrame, tcpJob.Write / WriteMsg-less byte path / rejectInPlace / LeaseWire /
// FlushStaged, tcpStream.stage / flush / beforeRead / beforeWrite, the deferred
// last flush) over a scripted net.Conn:
//
//   Read         hands over the client's byte stream in chunks of scripted size
//   Write        accepts a scripted number of bytes (short write + error, as the
//                net.Conn contract demands)
//   SetDeadline  succeeds or fails as scripted
//
// The run is synchronous and deterministic. Observed: the bytes of every
// conn.Write call, in order.
//
// A third of the cases serve two or three connections one after the other on
// ONE engine, so that the later ones run on the pooled tcpStream (and the slab)
// the earlier ones handed back — most of the earlier ones ending in a failed
// write or a failed SetDeadline with replies still staged. Every connection's
// output must be its own: frames carrying the IDs of its own queries only.

import (
	"encoding/binary"
	"encoding/json"
	"errors"
	"fmt"
	"io"
	"math/rand"
	"net"
	"os"
	"path/filepath"
	"sort"
	"strings"
	"testing"
	"time"

	"github.com/semihalev/sdns/middleware"
)

var (
	vC10ErrShort = errors.New("verif: short write")
	vC10ErrArm   = errors.New("verif: set deadline failed")
)

type vC10Conn struct {
	in      []byte
	reads   []int
	budgets []int // 0 = unlimited, k+1 = k bytes
	arms    []bool
	writes  [][]byte
}

func (c *vC10Conn) Read(b []byte) (int, error) {
	if len(c.in) == 0 {
		return 0, io.EOF
	}
	want := len(b)
	if len(c.reads) > 0 {
		k := c.reads[0]
		c.reads = c.reads[1:]
		if k < 1 {
			k = 1
		}
		if k < want {
			want = k
		}
	}
	n := copy(b[:want], c.in)
	c.in = c.in[n:]
	return n, nil
}

func (c *vC10Conn) Write(b []byte) (int, error) {
	k := 0
	if len(c.budgets) > 0 {
		k = c.budgets[0]
		c.budgets = c.budgets[1:]
	}
	if k == 0 || len(b) <= k-1 {
		c.writes = append(c.writes, append([]byte(nil), b...))
		return len(b), nil
	}
	c.writes = append(c.writes, append([]byte(nil), b[:k-1]...))
	return k - 1, vC10ErrShort
}

func (c *vC10Conn) SetDeadline(time.Time) error {
	ok := true
	if len(c.arms) > 0 {
		ok = c.arms[0]
		c.arms = c.arms[1:]
	}
	if !ok {
		return vC10ErrArm
	}
	return nil
}
func (c *vC10Conn) SetReadDeadline(t time.Time) error  { return c.SetDeadline(t) }
func (c *vC10Conn) SetWriteDeadline(t time.Time) error { return c.SetDeadline(t) }
func (c *vC10Conn) Close() error                       { return nil }
func (c *vC10Conn) LocalAddr() net.Addr                { return &net.TCPAddr{IP: net.IPv4(127, 0, 0, 1), Port: 53} }
func (c *vC10Conn) RemoteAddr() net.Addr               { return &net.TCPAddr{IP: net.IPv4(127, 0, 0, 9), Port: 4242} }

type vC10ConnHandler struct {
	scripts map[uint16]*vC10Script
	stream  *tcpStream // the pooled stream the connection being served runs on
}

func (h *vC10ConnHandler) ServeRaw(w middleware.Transport, raw []byte, _ time.Time) bool {
	if j, ok := w.(*tcpJob); ok {
		h.stream = j.stream
	}
	s := &vC10Script{ok: true}
	if len(raw) >= 2 {
		if x := h.scripts[binary.BigEndian.Uint16(raw)]; x != nil {
			s = x
		}
	}
	vC10RunHops(w, s.main, 4096)
	return s.ok
}

func (g *vC10Gen) streamSize() int {
	switch g.r.Intn(60) {
	case 0:
		return tcpDrainSize - 2 // need == len(drain)
	case 1:
		return tcpDrainSize - 1 // need == len(drain)+1: on its own
	case 2:
		return tcpDrainSize - 3
	case 3:
		return tcpDrainSize
	case 4:
		return 16000 + g.r.Intn(3000)
	case 5:
		return 65535
	case 6:
		return 65536
	case 7:
		return 66000 + g.r.Intn(5000)
	case 8:
		return 0
	case 9:
		return 1
	}
	if g.r.Intn(3) == 0 {
		return 400 + g.r.Intn(3200)
	}
	return 12 + g.r.Intn(60)
}

func (g *vC10Gen) streamHops(id uint16) []vC10Hop {
	if g.r.Intn(100) < 5 {
		// the Msg path of the stream transport (tcpJob.WriteMsg packs behind the frame prefix of
		// the job's TX, or lets the library grow, then stages a copy in the drain)
		mh := g.msgHop(id, udpJobBufSize)
		if g.r.Intn(3) == 0 {
			return []vC10Hop{mh, {kind: vC10HopWrite, data: g.payload(id, 2+g.r.Intn(30))}}
		}
		return []vC10Hop{mh}
	}
	switch k := g.r.Intn(100); {
	case k < 55:
		return []vC10Hop{{kind: vC10HopWrite, data: g.payload(id, g.streamSize())}}
	case k < 70:
		hs := []vC10Hop{{kind: vC10HopLease}, {kind: vC10HopAppend, data: g.payload(id, 2+g.r.Intn(40))}}
		if g.r.Intn(2) == 0 {
			hs = append(hs, vC10Hop{kind: vC10HopAppend, data: g.payload(id, 1+g.r.Intn(900))[1:]})
		}
		return append(hs, vC10Hop{kind: vC10HopWriteLease})
	case k < 78:
		return nil
	case k < 81:
		return []vC10Hop{{kind: vC10HopWrite, data: g.payload(id, g.streamSize())}, {kind: vC10HopPanic}}
	case k < 88:
		return []vC10Hop{{kind: vC10HopFlush}, {kind: vC10HopWrite, data: g.payload(id, g.streamSize())}}
	case k < 94:
		return []vC10Hop{{kind: vC10HopWrite, data: g.payload(id, g.streamSize())}, {kind: vC10HopWrite, data: g.payload(id, 2+g.r.Intn(30))}}
	default:
		return []vC10Hop{{kind: vC10HopWrite, data: g.payload(id, g.streamSize())}, {kind: vC10HopFlush}}
	}
}

func vC10Ints(xs []int) string {
	var p []string
	for _, x := range xs {
		p = append(p, fmt.Sprint(x))
	}
	return "[" + strings.Join(p, ";") + "]"
}

// vC10ConnSpec is one generated connection: input, I/O scripts and what goes into the Coq case.
type vC10ConnSpec struct {
	nf, inputLen, junkLen int
	sweep                 bool
	kinds                 map[string]int
	ids                   map[uint16]bool
	framesCoq, scriptsCoq []string
	junk                  []byte
	reads, budgets        []int
	arms                  []bool
	conn                  *vC10Conn
	clean                 bool // nothing scripted to fail, no junk, no panic
}

// vC10GenConn generates one connection; its handler scripts are added to h.
// failing: make a failed write / SetDeadline with replies staged likely.
func vC10GenConn(g *vC10Gen, h *vC10ConnHandler, allowSweep, failing bool) *vC10ConnSpec {
	r := g.r
	cs := &vC10ConnSpec{kinds: map[string]int{}, ids: map[uint16]bool{}, clean: true}
	nf := 1 + r.Intn(10)
	if r.Intn(6) == 0 || (failing && r.Intn(2) == 0) {
		nf = 10 + r.Intn(30) // a long pipelined burst
	}
	// a sweep: one pipelined burst, answered out of the fill buffer with no flush in
	// between, whose staged bytes (prefix + payload, cumulatively) land on the drain
	// buffer's size -3..+3 at some reply
	sweep := allowSweep && r.Intn(4) == 0
	sweepAt, sweepDelta, staged := 0, 0, 0
	if sweep {
		nf = 2 + r.Intn(5)
		sweepAt = 1 + r.Intn(nf-1)
		sweepDelta = r.Intn(7) - 3
	}
	var frames [][]byte
	var input []byte
	kinds := cs.kinds
	for i := 0; i < nf; i++ {
		id := g.id()
		cs.ids[id] = true
		pkt := g.packet(id)
		for len(pkt) < 12 {
			pkt = g.packet(id)
		}
		switch r.Intn(30) {
		case 0: // large class, still within the fill buffer
			pkt = append(pkt, g.payload(id, tcpSmallFrame-len(pkt)+1+r.Intn(1500))...)
			kinds["q-large"]++
		case 1: // larger than the fill buffer: read straight into the slab
			pkt = append(pkt, g.payload(id, tcpFillSize+r.Intn(3000))...)
			kinds["q-over-fill"]++
		case 2:
			pkt = append(pkt, g.payload(id, tcpSmallFrame-len(pkt))...)
			kinds["q-small-max"]++
		}
		sc := &vC10Script{ok: r.Intn(14) != 0, main: g.streamHops(id)}
		if nf >= 10 && r.Intn(4) != 0 {
			sc = &vC10Script{ok: true, main: []vC10Hop{{kind: vC10HopWrite, data: g.payload(id, 200+r.Intn(700))}}}
		}
		if sweep {
			pkt = pkt[:12:12]
			copy(pkt[2:], []byte{byte(r.Intn(2)), 0, 0, 1, 0, 0, 0, 0, 0, 0})
			pkt = append(pkt, g.payload(id, r.Intn(12))...)
			size := 0
			switch {
			case i < sweepAt:
				room := tcpDrainSize - staged - 2*(sweepAt-i) - 64*(sweepAt-i)
				size = 32 + r.Intn(max(1, room/(sweepAt-i)))
			case i == sweepAt:
				size = tcpDrainSize + sweepDelta - staged - 2
			default:
				size = 12 + r.Intn(300)
			}
			if size < 2 {
				size = 2
			}
			if i <= sweepAt {
				staged += 2 + size
			}
			sc = &vC10Script{ok: true, main: []vC10Hop{{kind: vC10HopWrite, data: g.payload(id, size)}}}
			kinds[fmt.Sprintf("sweep-drain%+d", sweepDelta)] = 1
		}
		for _, hp := range sc.main {
			if hp.kind == vC10HopPanic {
				cs.clean = false
			}
		}
		h.scripts[id] = sc
		frames = append(frames, pkt)
		cs.framesCoq = append(cs.framesCoq, vC10RLE(pkt))
		cs.scriptsCoq = append(cs.scriptsCoq, fmt.Sprintf("(%d,%s)", id, sc.coq()))
		input = binary.BigEndian.AppendUint16(input, uint16(len(pkt)))
		input = append(input, pkt...)
	}
	var junk []byte
	switch r.Intn(12) {
	case 0:
		junk = []byte{0}
		kinds["junk-half-prefix"]++
	case 1:
		junk = []byte{0, 5, 1, 2, 3, 4, 5}
		kinds["junk-subheader-frame"]++
	case 2:
		junk = append([]byte{0, 40}, g.payload(9, 17)...)
		kinds["junk-partial-body"]++
	case 3:
		junk = append([]byte{0x30, 0x00}, g.payload(9, 5000)...)
		kinds["junk-partial-large"]++
	}
	input = append(input, junk...)

	var reads []int
	switch r.Intn(5) {
	case 0: // everything the kernel has, each time
	case 1:
		for i := 0; i < 400; i++ {
			reads = append(reads, r.Intn(8))
		}
		kinds["read-dribble"]++
	case 2:
		for i := 0; i < 200; i++ {
			reads = append(reads, 1+r.Intn(120))
		}
		kinds["read-chunks"]++
	case 3:
		for i := 0; i < 60; i++ {
			reads = append(reads, []int{1, 2, 3, 13, 14, 15, 30, 4096, 9000}[r.Intn(9)])
		}
		kinds["read-mixed"]++
	default:
		// frame by frame, as a client that waits for each answer would send
		for _, p := range frames {
			reads = append(reads, 2+len(p))
		}
		kinds["read-per-frame"]++
	}
	if sweep || (failing && r.Intn(2) == 0) {
		reads = nil // the whole burst is in the fill buffer: replies pile up in the drain
	}
	var budgets []int
	if !sweep && (r.Intn(5) == 0 || (failing && r.Intn(4) != 0)) {
		nb := 1 + r.Intn(6)
		if failing {
			nb = r.Intn(2)
		}
		for i := 0; i < nb; i++ {
			budgets = append(budgets, 0)
		}
		budgets = append(budgets, 1+[]int{0, 1, 2, 3, 50, 5000}[r.Intn(6)])
		kinds["write-fails"]++
	}
	var arms []bool
	if !sweep && r.Intn(7) == 0 {
		for i := 0; i < r.Intn(8); i++ {
			arms = append(arms, true)
		}
		arms = append(arms, false)
		if r.Intn(2) == 0 {
			arms = append(arms, false, false, false, false, false, false)
		}
		kinds["setdeadline-fails"]++
	}
	cs.nf, cs.sweep, cs.junk, cs.reads, cs.budgets, cs.arms = nf, sweep, junk, reads, budgets, arms
	cs.inputLen, cs.junkLen = len(input), len(junk)
	if len(junk) > 0 || len(budgets) > 0 || len(arms) > 0 {
		cs.clean = false
	}
	cs.conn = &vC10Conn{in: append([]byte(nil), input...), reads: append([]int(nil), reads...), budgets: append([]int(nil), budgets...), arms: append([]bool(nil), arms...)}
	return cs
}

// coqFields: frames junk scripts reads budgets arms writes
func (cs *vC10ConnSpec) coqFields() string {
	var wr, armsCoq []string
	for _, w := range cs.conn.writes {
		wr = append(wr, vC10RLE(w))
	}
	for _, a := range cs.arms {
		armsCoq = append(armsCoq, vC10Bool(a))
	}
	return fmt.Sprintf("[%s] %s [%s] %s %s [%s] [%s]", strings.Join(cs.framesCoq, ";"), vC10RLE(cs.junk),
		strings.Join(cs.scriptsCoq, ";"), vC10Ints(cs.reads), vC10Ints(cs.budgets), strings.Join(armsCoq, ";"), strings.Join(wr, ";"))
}

func (cs *vC10ConnSpec) bytesOut() int {
	total := 0
	for _, w := range cs.conn.writes {
		total += len(w)
	}
	return total
}

// foreign: what this connection's client received, cut into frames, must carry the IDs of
// its own queries only; a clean connection's stream ends on a frame boundary.
func (cs *vC10ConnSpec) foreign() string {
	var wire []byte
	for _, w := range cs.conn.writes {
		wire = append(wire, w...)
	}
	for len(wire) >= 2 {
		n := int(binary.BigEndian.Uint16(wire))
		if len(wire) < 2+n {
			break
		}
		if n >= 2 {
			if id := binary.BigEndian.Uint16(wire[2:]); !cs.ids[id] {
				return fmt.Sprintf("the client received a %d-byte frame with id %d, which is none of its queries", n, id)
			}
		}
		wire = wire[2+n:]
	}
	if len(wire) > 0 && cs.clean {
		return fmt.Sprintf("the client's stream ends with %d bytes that are no whole frame although nothing failed", len(wire))
	}
	return ""
}

// ---------------------------------------------------------------- corpus
//
// corpus/C10/conn-*.json: fixed connection histories replayed before the generated ones
// (minimal inputs of seeded changes and mutations this driver caught). Format:
//
//	{"name": "...", "conns": [{"queries": [{"id": 7, "op": 0, "reply": [100], "ok": true}],
//	                          "junk": [0], "reads": [..], "budgets": [..], "arms": [true,..]}]}
//
// a query is a bare 12-byte header (ID, opcode `op`, QDCOUNT 1) + 4 body bytes; its handler
// writes one reply per entry of "reply" (that many bytes, starting with the ID); budgets:
// 0 = unlimited, k+1 = the Write accepts k bytes and fails; a size may be written relative to
// the drain buffer as {"drain": -3} = tcpDrainSize-3.
type vC10CorpusQuery struct {
	ID    uint16            `json:"id"`
	Op    int               `json:"op"`
	Reply []json.RawMessage `json:"reply"`
	Ok    *bool             `json:"ok"`
}
type vC10CorpusConn struct {
	Queries []vC10CorpusQuery `json:"queries"`
	Junk    []byte            `json:"junk"`
	Reads   []int             `json:"reads"`
	Budgets []int             `json:"budgets"`
	Arms    []bool            `json:"arms"`
}
type vC10CorpusCase struct {
	Name  string           `json:"name"`
	Conns []vC10CorpusConn `json:"conns"`
}

func vC10CorpusSize(raw json.RawMessage) int {
	var n int
	if json.Unmarshal(raw, &n) == nil {
		return n
	}
	var rel struct {
		Drain *int `json:"drain"`
	}
	if json.Unmarshal(raw, &rel) == nil && rel.Drain != nil {
		return tcpDrainSize + *rel.Drain
	}
	return 12
}

func vC10CorpusPayload(id uint16, n int) []byte {
	b := make([]byte, n)
	for i := range b {
		b[i] = 0xAB
	}
	if n >= 1 {
		b[0] = byte(id >> 8)
	}
	if n >= 2 {
		b[1] = byte(id)
	}
	if n >= 4 {
		b[n-1] = 0xCD
	}
	return b
}

func (cc *vC10CorpusConn) spec(h *vC10ConnHandler) *vC10ConnSpec {
	cs := &vC10ConnSpec{kinds: map[string]int{"corpus": 1}, ids: map[uint16]bool{}, clean: true}
	var input []byte
	for _, q := range cc.Queries {
		pkt := []byte{byte(q.ID >> 8), byte(q.ID), byte(q.Op&0xF) << 3, 0, 0, 1, 0, 0, 0, 0, 0, 0, 3, 3, 3, 3}
		sc := &vC10Script{ok: q.Ok == nil || *q.Ok}
		for _, raw := range q.Reply {
			sc.main = append(sc.main, vC10Hop{kind: vC10HopWrite, data: vC10CorpusPayload(q.ID, vC10CorpusSize(raw))})
		}
		cs.ids[q.ID] = true
		h.scripts[q.ID] = sc
		cs.framesCoq = append(cs.framesCoq, vC10RLE(pkt))
		cs.scriptsCoq = append(cs.scriptsCoq, fmt.Sprintf("(%d,%s)", q.ID, sc.coq()))
		input = binary.BigEndian.AppendUint16(input, uint16(len(pkt)))
		input = append(input, pkt...)
	}
	input = append(input, cc.Junk...)
	cs.nf, cs.junk, cs.reads, cs.budgets, cs.arms = len(cc.Queries), cc.Junk, cc.Reads, cc.Budgets, cc.Arms
	cs.inputLen, cs.junkLen = len(input), len(cc.Junk)
	if len(cc.Junk) > 0 || len(cc.Budgets) > 0 || len(cc.Arms) > 0 {
		cs.clean = false
	}
	cs.conn = &vC10Conn{in: input, reads: append([]int(nil), cc.Reads...), budgets: append([]int(nil), cc.Budgets...), arms: append([]bool(nil), cc.Arms...)}
	return cs
}

func vC10LoadConnCorpus() []vC10CorpusCase {
	dir := os.Getenv("VERIF_CORPUS")
	if dir == "" {
		return nil
	}
	files, _ := filepath.Glob(filepath.Join(dir, "conn-*.json"))
	sort.Strings(files)
	var out []vC10CorpusCase
	for _, p := range files {
		b, err := os.ReadFile(p)
		if err != nil {
			continue
		}
		var cases []vC10CorpusCase
		if json.Unmarshal(b, &cases) == nil {
			out = append(out, cases...)
		}
	}
	return out
}

func TestVerifC10Conn(t *testing.T) {
	out := os.Getenv("VERIF_OUT")
	if out == "" {
		t.Skip("VERIF_OUT not set")
	}
	f, err := os.Create(out)
	if err != nil {
		t.Fatal(err)
	}
	defer f.Close()
	seed := vC10EnvInt("VERIF_SEED", 1)
	n := vC10EnvInt("VERIF_N", 200)
	g := &vC10Gen{r: rand.New(rand.NewSource(int64(seed)*104729 + 11))}
	r := g.r

	corpus := vC10LoadConnCorpus()
	for cn := -len(corpus); cn < n; cn++ {
		h := &vC10ConnHandler{scripts: map[uint16]*vC10Script{}}
		plan := resourcePlan{tcpConns: 4, tcpSmallJobs: 2, tcpLargeJobs: 1}
		e := newTCPEngine(h, "tcp", 0, plan)

		var fixed *vC10CorpusCase
		nconn := 1
		if cn < 0 {
			fixed = &corpus[cn+len(corpus)]
			nconn = len(fixed.Conns)
		} else if r.Intn(3) == 0 {
			nconn = 2 + r.Intn(2)
		}
		var specs []*vC10ConnSpec
		var reused []bool
		goFail := ""
		var prevStream *tcpStream
		for ci := 0; ci < nconn; ci++ {
			var cs *vC10ConnSpec
			if fixed != nil {
				cs = fixed.Conns[ci].spec(h)
			} else {
				cs = vC10GenConn(g, h, nconn == 1, nconn > 1 && ci < nconn-1)
			}
			specs = append(specs, cs)
			h.stream = nil
			func() {
				defer func() {
					if rec := recover(); rec != nil {
						goFail = fmt.Sprint("serveConn panicked: ", rec)
					}
				}()
				e.register(cs.conn)
				e.serveConn(cs.conn)
			}()
			if goFail == "" && !e.quiesced() {
				goFail = "a slab token did not come home after the connection ended"
			}
			reused = append(reused, ci > 0 && h.stream != nil && h.stream == prevStream)
			if h.stream != nil {
				prevStream = h.stream
			}
			if nconn > 1 && goFail == "" {
				if msg := cs.foreign(); msg != "" {
					goFail = fmt.Sprintf("connection %d of %d on one engine: %s", ci+1, nconn, msg)
				}
			}
		}

		var line map[string]any
		if nconn == 1 {
			cs := specs[0]
			kind := "conn"
			if cs.nf >= 10 {
				kind = "conn-burst"
			}
			if cs.sweep {
				kind = "conn-sweep"
			}
			if len(cs.budgets) > 0 {
				kind += "-wfail"
			}
			if len(cs.arms) > 0 {
				kind += "-armfail"
			}
			line = map[string]any{
				"k":          kind,
				"coq":        "CaseConn " + cs.coqFields(),
				"nontrivial": len(cs.conn.writes) > 0 && cs.nf > 1,
				"desc":       map[string]any{"frames": cs.nf, "input_bytes": cs.inputLen, "junk": cs.junkLen, "kinds": cs.kinds, "conn_writes": len(cs.conn.writes), "bytes_out": cs.bytesOut()},
			}
		} else {
			var recs []string
			var descs []map[string]any
			nreused, nfail, outConns := 0, 0, 0
			for ci, cs := range specs {
				recs = append(recs, fmt.Sprintf("CR %s %s", vC10Bool(reused[ci]), cs.coqFields()))
				descs = append(descs, map[string]any{"frames": cs.nf, "input_bytes": cs.inputLen, "kinds": cs.kinds, "conn_writes": len(cs.conn.writes), "bytes_out": cs.bytesOut(), "same_stream_as_previous": reused[ci]})
				if reused[ci] {
					nreused++
				}
				if len(cs.budgets) > 0 || len(cs.arms) > 0 {
					nfail++
				}
				if len(cs.conn.writes) > 0 {
					outConns++
				}
			}
			kind := fmt.Sprintf("conn-seq-%d", nconn)
			if nfail > 0 {
				kind += "-fail"
			}
			line = map[string]any{
				"k":          kind,
				"coq":        "CaseConnSeq [" + strings.Join(recs, ";") + "]",
				"nontrivial": nreused > 0 && outConns > 1,
				"desc":       map[string]any{"connections": descs, "pooled_stream_reused": nreused},
			}
		}
		if fixed != nil {
			line["k"] = "corpus:" + fixed.Name
		}
		if goFail != "" {
			line["go_fail"] = goFail
		}
		b, _ := json.Marshal(line)
		f.Write(append(b, '\n'))
	}
}
