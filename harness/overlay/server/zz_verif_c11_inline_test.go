//go:build verif

package server

// C11 driver (i): cache hits across the UDP transport's passes, with the cache's per-entry
// rate limiter switched on (config ratelimit 1-5/s) and, in half of the cases, the ratelimit
// middleware's per-client limiter too (clientratelimit 2-30/min; one or two remote clients next
// to a loopback client, which that middleware lets pass). The REAL default chain up to the cache
// (a stand-in resolver behind it) behind the REAL udpEngine: a hit is served by one full pass
// on a pool worker (ring path: ServeRaw) or by an inline pass on the "reader" (serveInline ->
// Server.ServeRawInline) which either answers from the cache's wire ladder or hands off,
// unwritten, to a replay on a worker (ServeRawReplay). Clients differ in what the byte path
// must respect: no OPT (512-byte ceiling), advertised sizes 0 / 512 / 600 / 1232 / 4096, DO,
// a client cookie (a longer OPT in the reply); cached answers are sized on and around those
// ceilings (and far below / above), so that the wire ladder declines for some clients and the
// Msg path has to truncate. Queries arrive at the same instant, a few ms apart, around the
// bucket's refill instants and far apart. Everything runs in a testing/synctest bubble: the
// token bucket (golang.org/x/time/rate reads time.Now) refills in virtual time.
// Recorded per query: datagrams that reached the client socket with its ID, the TC bit,
// whether the inline pass handed off, the tokens the entry's limiter held just before the
// query was dispatched and after it was finished.

import (
	"context"
	"encoding/json"
	"fmt"
	"math/rand"
	"net"
	"net/netip"
	"os"
	"strings"
	"sync/atomic"
	"syscall"
	"testing"
	"testing/synctest"
	"time"

	"github.com/miekg/dns"
	"github.com/semihalev/sdns/config"
	"github.com/semihalev/sdns/middleware"
	"github.com/semihalev/sdns/middleware/cache"
	"github.com/semihalev/sdns/middleware/defaults"
	"github.com/semihalev/sdns/middleware/ratelimit"
)

type vC11IClient struct {
	edns   bool
	adv    int
	do     bool
	cookie bool
}

type vC11IQuery struct {
	at     int
	name   int
	client int // 0: loopback; k+1: remote client k (198.51.100.(10+k))
	inline bool
	cl     vC11IClient
	cbefore int64
	cafter  int64

	body    int
	before  int64
	after   int64
	replies int
	tc      bool
	rcode   int
	handoff bool
}

type vC11ITail struct {
	answers []int // per name: number of A records
	names   []string
	calls   atomic.Int64
}

func (tl *vC11ITail) Name() string { return "verif-c11-itail" }
func (tl *vC11ITail) ServeDNS(ctx context.Context, ch *middleware.Chain) {
	_, req := ch.Materialize(ctx)
	if req == nil {
		return
	}
	tl.calls.Add(1)
	resp := new(dns.Msg)
	resp.SetReply(req)
	resp.RecursionAvailable = true
	k := 1
	for i, n := range tl.names {
		if strings.EqualFold(n, req.Question[0].Name) {
			k = tl.answers[i]
		}
	}
	for i := 0; i < k; i++ {
		resp.Answer = append(resp.Answer, &dns.A{Hdr: dns.RR_Header{Name: req.Question[0].Name, Rrtype: dns.TypeA, Class: dns.ClassINET, Ttl: 3000},
			A: net.IPv4(10, 1, byte(i/250), byte(1+i%250))})
	}
	_ = ch.Writer.WriteMsg(resp)
	ch.Cancel()
}

type vC11IWarmTransport struct{ writes int }

func (t *vC11IWarmTransport) LocalAddr() net.Addr {
	return &net.TCPAddr{IP: net.IPv4(127, 0, 0, 1), Port: 443}
}
func (t *vC11IWarmTransport) RemoteAddr() net.Addr {
	return &net.TCPAddr{IP: net.IPv4(192, 0, 2, 10), Port: 40000}
}
func (t *vC11IWarmTransport) Close() error                { return nil }
func (t *vC11IWarmTransport) WriteMsg(m *dns.Msg) error   { t.writes++; return nil }
func (t *vC11IWarmTransport) Write(b []byte) (int, error) { t.writes++; return len(b), nil }

// the integer mirror of the token bucket (thousandths of a token, ms): used by the generator
// only, to keep Allow decisions off exact refill boundaries (where float64 rounding decides)
type vC11IBucket struct{ tok, last int }

func (b vC11IBucket) level(r, unit, now int) int {
	d := now - b.last
	if d < 0 {
		d = 0
	}
	t := b.tok + d*r
	if t > r*unit {
		t = r * unit
	}
	return t
}

// the 4-byte form: what udpJob.setRemote stores and the chain's RemoteIP hands the limiter's key hash
func vC11IClientIP(k int) net.IP { return net.IPv4(198, 51, 100, byte(10+k)).To4() }

func vC11IGen(r *rand.Rand) (crate, rate int, names []string, answers []int, qs []*vC11IQuery) {
	rate = []int{1, 1, 2, 4, 5}[r.Intn(5)]
	nclients := 0
	if r.Intn(2) == 0 {
		crate = []int{2, 3, 5, 6, 10, 30}[r.Intn(6)]
		nclients = 1 + r.Intn(2)
		if crate >= 5 {
			rate = 5 // the client's budget, not the entry's, is the one that runs out
		}
	}
	cbuckets := make([]vC11IBucket, nclients)
	for i := range cbuckets {
		cbuckets[i] = vC11IBucket{crate * 60000, 0}
	}
	nn := 1 + r.Intn(2)
	type aim struct {
		ceiling, reserve int
	}
	aims := make([]aim, nn)
	for i := 0; i < nn; i++ {
		p := r.Intn(12)
		a := aim{[]int{512, 512, 600, 1232}[r.Intn(4)], []int{0, 11, 11, 55}[r.Intn(4)]}
		if a.ceiling != 512 && a.reserve == 0 {
			a.reserve = 11
		}
		aims[i] = a
		// header + question of "h<i><p times x>.c11.example." ; every A record adds 16 bytes
		base := 12 + (len(fmt.Sprintf("h%d.c11.example.", i)) + p + 1) + 4
		if r.Intn(3) != 0 {
			// pad the name so that some record count lands EXACTLY on the aimed ceiling
			p += (a.ceiling - a.reserve - base) % 16
			base = 12 + (len(fmt.Sprintf("h%d.c11.example.", i)) + p + 1) + 4
		}
		names = append(names, fmt.Sprintf("h%d%s.c11.example.", i, strings.Repeat("x", p)))
		k := 1
		switch r.Intn(4) {
		case 0:
			k = 1 + r.Intn(3)
		case 1:
			k = 80 + r.Intn(4) // above every UDP ceiling
		default:
			// the body lands within a record of the aimed ceiling
			k = (a.ceiling-a.reserve-base)/16 + r.Intn(3) - 1
			if k < 1 {
				k = 1
			}
		}
		answers = append(answers, k)
	}
	buckets := make([]vC11IBucket, nn)
	for i := range buckets {
		buckets[i] = vC11IBucket{rate * 1000, 0}
	}
	now := 10 + r.Intn(50)
	nq := 3 + r.Intn(8)
	for i := 0; i < nq; i++ {
		switch r.Intn(6) {
		case 0: // same instant
		case 1:
			now += 1 + r.Intn(60)
		case 2:
			now += 100 + r.Intn(800)
		case 3, 4: // around a refill instant of the bucket
			now += 1000/rate*(1+r.Intn(2)) + r.Intn(7) - 3
		default:
			now += 1500 + r.Intn(3000)
		}
		q := &vC11IQuery{name: r.Intn(nn), inline: r.Intn(3) != 0}
		if nclients > 0 && r.Intn(4) != 0 {
			q.client = 1 + r.Intn(nclients)
		}
		a := aims[q.name]
		if r.Intn(2) == 0 {
			// the client the name's size was aimed at
			q.cl = vC11IClient{edns: a.reserve > 0, adv: a.ceiling, cookie: a.reserve == 55, do: r.Intn(3) == 0}
		} else {
			q.cl = vC11IClient{edns: r.Intn(4) != 0, adv: []int{0, 512, 600, 1232, 4096}[r.Intn(5)], cookie: r.Intn(6) == 0, do: r.Intn(3) == 0}
		}
		if !q.cl.edns {
			q.cl.adv, q.cl.cookie, q.cl.do = 0, false, false
		}
		if q.client > 0 {
			q.cl.cookie = false // a cookie turns the ratelimit middleware into the BADCOOKIE handshake: not modelled
		}
		b := &buckets[q.name]
		for {
			// exact refill boundaries of either bucket: float64 rounding would decide
			if q.client > 0 {
				ct := cbuckets[q.client-1].level(crate, 60000, now)
				if ct%60000 == 0 && ct > 0 && ct < crate*60000 {
					now++
					continue
				}
			}
			t := b.level(rate, 1000, now)
			if t%1000 == 0 && t > 0 && t < rate*1000 {
				now++
				continue
			}
			admitted := true
			if q.client > 0 {
				cb := &cbuckets[q.client-1]
				if ct := cb.level(crate, 60000, now); ct >= 60000 {
					*cb = vC11IBucket{ct - 60000, now}
				} else {
					admitted = false
				}
			}
			if admitted && t >= 1000 {
				*b = vC11IBucket{t - 1000, now}
			}
			break
		}
		q.at = now
		qs = append(qs, q)
	}
	return
}

// corpus/C11/inline.json: fixed scenarios replayed first on every run.
// [{"note":..., "client_rate":0, "rate":1, "names":[{"pad":0,"records":31}], "queries":[{"at":100,"name":0,"client":0,"inline":true,"edns":false,"adv":0,"do":false,"cookie":false}, ...]}]
type vC11ICorpusEntry struct {
	Note       string `json:"note"`
	ClientRate int    `json:"client_rate"`
	Rate       int    `json:"rate"`
	Names      []struct {
		Pad     int `json:"pad"`
		Records int `json:"records"`
	} `json:"names"`
	Queries []struct {
		At     int  `json:"at"`
		Name   int  `json:"name"`
		Client int  `json:"client"`
		Inline bool `json:"inline"`
		Edns   bool `json:"edns"`
		Adv    int  `json:"adv"`
		Do     bool `json:"do"`
		Cookie bool `json:"cookie"`
	} `json:"queries"`
}

func vC11ICorpus() []vC11ICorpusEntry {
	dir := os.Getenv("VERIF_CORPUS")
	if dir == "" {
		return nil
	}
	b, err := os.ReadFile(dir + "/inline.json")
	if err != nil {
		return nil
	}
	var es []vC11ICorpusEntry
	if json.Unmarshal(b, &es) != nil {
		return nil
	}
	return es
}

func TestVerifC11Inline(t *testing.T) {
	out := os.Getenv("VERIF_OUT")
	if out == "" {
		t.Skip("VERIF_OUT not set")
	}
	f, err := os.Create(out)
	if err != nil {
		t.Fatal(err)
	}
	defer f.Close()
	seed := int64(vC11SEnvInt("VERIF_SEED", 1))
	n := vC11SEnvInt("VERIF_N", 100)
	r := rand.New(rand.NewSource(seed*49979687 + 29))
	corpus := vC11ICorpus()
	for c := 0; c < n; c++ {
		crate, rate, names, answers, qs := vC11IGen(r)
		kind := "inline"
		if c < len(corpus) {
			// instants of a corpus entry are taken as written (keep them off refill boundaries)
			ce := corpus[c]
			kind = "inline-corpus"
			crate, rate, names, answers, qs = ce.ClientRate, ce.Rate, nil, nil, nil
			for i, nm := range ce.Names {
				names = append(names, fmt.Sprintf("h%d%s.c11.example.", i, strings.Repeat("x", nm.Pad)))
				answers = append(answers, nm.Records)
			}
			for _, cq := range ce.Queries {
				if cq.Name < 0 || cq.Name >= len(names) {
					continue
				}
				qs = append(qs, &vC11IQuery{at: cq.At, name: cq.Name, client: cq.Client, inline: cq.Inline,
					cl: vC11IClient{edns: cq.Edns, adv: cq.Adv, do: cq.Do, cookie: cq.Cookie}})
			}
		}
		tail := &vC11ITail{answers: answers, names: names}
		goFail := ""
		inconclusive := false
		var leasedEnd, inflightEnd int64
		inlineOn := false
		cache.VC11ResetEntryLimiters()
		middleware.Reset()
		defaults.RegisterUpTo("resolver")
		middleware.Register(tail.Name(), func(*config.Config) middleware.Handler { return tail })
		cfg := &config.Config{Bind: "127.0.0.1:0", Expire: 600, CacheSize: 10240, RateLimit: rate, ClientRateLimit: crate}
		cfg.QueryTimeout.Duration = 2 * time.Second
		middleware.Setup(cfg)
		s := New(cfg)
		cc, _ := middleware.Get("cache").(*cache.Cache)
		if cc == nil {
			t.Fatal("no cache handler in the default chain")
		}
		rl, _ := middleware.Get("ratelimit").(*ratelimit.RateLimit)
		if rl == nil {
			t.Fatal("no ratelimit handler in the default chain")
		}
		synctest.Test(t, func(t *testing.T) {
			srv, err1 := net.ListenUDP("udp4", &net.UDPAddr{IP: net.IPv4(127, 0, 0, 1)})
			cl, err2 := net.ListenUDP("udp4", &net.UDPAddr{IP: net.IPv4(127, 0, 0, 1)})
			if err1 != nil || err2 != nil {
				inconclusive = true
				return
			}
			defer srv.Close()
			defer cl.Close()
			clAddr := cl.LocalAddr().(*net.UDPAddr).AddrPort()
			clRaw, _ := cl.SyscallConn()
			e := newUDPEngine(s, []*net.UDPConn{srv}, false, 2, 8, resourcePlan{})
			e.slabCap = 32
			inlineOn = e.inline != nil
			for i := 0; i < e.workers; i++ {
				e.workerG.Add(1)
				go e.worker(i)
			}
			readerBurst := udpTXBurst{slot: e.workers}
			start := time.Now()
			// warm-up at instant 0: one miss per name over a stream-like transport (no
			// truncation), answered by the stand-in; a miss does not touch the limiter
			for i, name := range names {
				m := new(dns.Msg)
				m.SetQuestion(name, dns.TypeA)
				m.Id = uint16(60000 + i)
				m.SetEdns0(1232, false)
				wt := &vC11IWarmTransport{}
				s.ServeMsg(context.Background(), wt, m)
				if wt.writes != 1 && goFail == "" {
					goFail = fmt.Sprintf("warm-up query for %s got %d replies", name, wt.writes)
				}
			}
			synctest.Wait()
			warmCalls := tail.calls.Load()
			poll := func() {
				buf := make([]byte, 8192)
				for {
					got := -1
					_ = clRaw.Read(func(fd uintptr) bool {
						nn, _, rerr := syscall.Recvfrom(int(fd), buf, syscall.MSG_DONTWAIT)
						if rerr == nil {
							got = nn
						}
						return true
					})
					if got < 0 {
						return
					}
					m := new(dns.Msg)
					if m.Unpack(buf[:got]) != nil {
						continue
					}
					id := int(m.Id)
					if id < 1 || id > len(qs) {
						continue
					}
					q := qs[id-1]
					q.replies++
					if q.replies == 1 {
						q.tc = m.Truncated
						q.rcode = m.Rcode
					}
				}
			}
			for idx, q := range qs {
				if d := start.Add(time.Duration(q.at) * time.Millisecond).Sub(time.Now()); d > 0 {
					time.Sleep(d)
				}
				synctest.Wait()
				poll()
				body, ede, flat, before, ok := cc.VC11HitFacts(names[q.name], q.cl.do)
				if (!ok || !flat || ede != 0 || before < 0) && goFail == "" {
					goFail = fmt.Sprintf("query %d: the warmed entry of %s is not a flat wire-eligible hit with a limiter (found %v flat %v ede %d tokens %d)", idx, names[q.name], ok, flat, ede, before)
				}
				q.body, q.before = body, before
				remote := clAddr
				if q.client > 0 && crate > 0 {
					q.cbefore = rl.VC11ClientTokens(vC11IClientIP(q.client - 1))
					// the logical peer is a remote address (what the chain sees); the kernel
					// sockaddr the batched sender uses stays the loopback client socket
					ip4 := vC11IClientIP(q.client - 1).To4()
					remote = netip.AddrPortFrom(netip.AddrFrom4([4]byte{ip4[0], ip4[1], ip4[2], ip4[3]}), clAddr.Port())
				}
				msg := new(dns.Msg)
				msg.SetQuestion(names[q.name], dns.TypeA)
				msg.Id = uint16(idx + 1)
				if q.cl.edns {
					msg.SetEdns0(uint16(q.cl.adv), q.cl.do)
					if q.cl.cookie {
						opt := msg.IsEdns0()
						opt.Option = append(opt.Option, &dns.EDNS0_COOKIE{Code: dns.EDNS0COOKIE, Cookie: "0123456789abcdef"})
					}
				}
				raw, _ := msg.Pack()
				j := e.take(0)
				if j == nil {
					if goFail == "" {
						goFail = fmt.Sprintf("query %d: no slab although nothing is in flight", idx)
					}
					continue
				}
				j.transition(udpJobFree, udpJobReading)
				j.rxLen = copy(j.rx[:], raw)
				j.readTime = time.Now()
				j.setRemote(remote)
				j.pc = srv
				j.pktinfoLen = 0
				j.rawSALen = 0
				vC11ArmRaw(j, clAddr)
				if q.inline && e.inline != nil {
					if !e.serveInline(j, &readerBurst) {
						q.handoff = true
						e.enqueueCounted(j)
					}
				} else {
					e.enqueue(j)
				}
				e.flushTX(&readerBurst)
				synctest.Wait()
				poll()
				_, _, _, q.after, _ = cc.VC11HitFacts(names[q.name], q.cl.do)
				if q.client > 0 && crate > 0 {
					q.cafter = rl.VC11ClientTokens(vC11IClientIP(q.client - 1))
				}
			}
			time.Sleep(5 * time.Second)
			synctest.Wait()
			poll()
			leasedEnd = e.leased.Load()
			inflightEnd = e.inFlight.Load()
			close(e.ready)
			e.workerG.Wait()
			e.overflowG.Wait()
			poll()
			if extra := tail.calls.Load() - warmCalls; extra != 0 && goFail == "" {
				goFail = fmt.Sprintf("%d queries for warmed names reached the resolver stand-in", extra)
			}
		})
		for _, h := range middleware.Handlers() {
			if st, ok := h.(interface{ Stop() }); ok {
				st.Stop()
			}
		}
		middleware.Reset()
		if inconclusive {
			b, _ := json.Marshal(map[string]any{"k": "inline", "coq": "CaseWGConc 0 false 0 0 false", "inconclusive": true, "nontrivial": false, "desc": "loopback bind failed"})
			f.Write(append(b, '\n'))
			continue
		}
		if !inlineOn && goFail == "" {
			goFail = "the default chain offers no inline fast path (no InlineBarrier): the inline driver has nothing to drive"
		}
		var qc, oc []string
		var desc []map[string]any
		handoffs, refused := 0, 0
		for i, q := range qs {
			limited := q.client > 0 && crate > 0
			qc = append(qc, fmt.Sprintf("mk_iq %d %d %d %v %v %d %v %d", q.at, q.name, q.client, q.inline, q.cl.edns, q.cl.adv, q.cl.cookie, q.body))
			oc = append(oc, fmt.Sprintf("mk_io %d %v %v %d %d %v %d %d", q.replies, q.tc, q.handoff, q.before, q.after, limited, q.cbefore, q.cafter))
			desc = append(desc, map[string]any{"i": i, "at_ms": q.at, "name": names[q.name], "path": map[bool]string{true: "udp-inline", false: "udp-ring"}[q.inline],
				"client": map[bool]string{true: fmt.Sprintf("remote %s", vC11IClientIP(q.client-1)), false: "loopback"}[q.client > 0], "client_tokens_before_x60000": q.cbefore, "client_tokens_after_x60000": q.cafter,
				"edns": q.cl.edns, "advertised": q.cl.adv, "do": q.cl.do, "cookie": q.cl.cookie, "stored_body_len": q.body,
				"tokens_before_x1000": q.before, "tokens_after_x1000": q.after, "replies": q.replies, "tc": q.tc, "rcode": q.rcode, "handed_off_by_inline_pass": q.handoff})
			if q.handoff {
				handoffs++
			}
			cadm := !limited || q.cbefore >= 60000
			if q.before < 1000 || !cadm {
				refused++
			}
			if goFail == "" {
				switch {
				case q.replies > 1:
					goFail = fmt.Sprintf("query %d: %d replies", i, q.replies)
				case limited && cadm && q.cafter != q.cbefore-60000:
					goFail = fmt.Sprintf("query %d (%s, %d ms): one question, but its client's limiter went from %d/60000 to %d/60000 tokens (handed off by the inline pass: %v)", i, names[q.name], q.at, q.cbefore, q.cafter, q.handoff)
				case !cadm && (q.replies != 0 || q.cafter != q.cbefore || q.after != q.before):
					goFail = fmt.Sprintf("query %d (%s, %d ms): its client's limiter held %d/60000 tokens (refused), yet replies=%d, client tokens afterwards %d/60000, entry tokens %d -> %d", i, names[q.name], q.at, q.cbefore, q.replies, q.cafter, q.before, q.after)
				case !cadm:
				case q.before >= 1000 && q.replies == 0:
					goFail = fmt.Sprintf("query %d (%s, %d ms): the entry's limiter held %d/1000 tokens when it arrived, so rate policy admits it, and no reply arrived (handed off by the inline pass: %v; tokens afterwards %d/1000)", i, names[q.name], q.at, q.before, q.handoff, q.after)
				case q.replies == 1 && q.after != q.before-1000:
					goFail = fmt.Sprintf("query %d (%s, %d ms): one question, one reply, but the entry's limiter went from %d/1000 to %d/1000 tokens (handed off by the inline pass: %v)", i, names[q.name], q.at, q.before, q.after, q.handoff)
				}
			}
		}
		if (leasedEnd != 0 || inflightEnd != 0) && goFail == "" {
			goFail = fmt.Sprintf("after the drain %d slabs are still leased and %d jobs in flight", leasedEnd, inflightEnd)
		}
		b, _ := json.Marshal(map[string]any{
			"k":          fmt.Sprintf("%s-rate%d-client%d", kind, rate, crate),
			"coq":        fmt.Sprintf("CaseInline %d %d %d [%s] [%s]", crate, rate, len(names), strings.Join(qc, "; "), strings.Join(oc, "; ")),
			"nontrivial": handoffs >= 1 && refused >= 1,
			"go_fail":    goFail,
			"desc":       map[string]any{"mode": "inline", "entry_ratelimit_per_s": rate, "client_ratelimit_per_min": crate, "names": names, "answer_records": answers, "queries": desc, "leased_after_drain": leasedEnd, "inflight_after_drain": inflightEnd},
		})
		f.Write(append(b, '\n'))
	}
}
