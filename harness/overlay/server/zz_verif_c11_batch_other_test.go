//go:build verif && !(linux && (amd64 || arm64))

package server

import "net/netip"

func vC11ArmRaw(j *udpJob, ap netip.AddrPort) {}

type vC11Senders struct{}

func (v *vC11Senders) script(d []int)           {}
func vC11WrapSenders(e *udpEngine) *vC11Senders { return &vC11Senders{} }
