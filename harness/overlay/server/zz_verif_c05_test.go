//go:build verif

package server

// C05 driver (b): two-server differential.
//
// Phase "ingress": a minimal pipeline (edns + answering stub).  Every generated packet
// goes through the engine's header accept and then (strict) Server.ServeRaw on a
// strict-slot transport and (reference) dns.Msg.Unpack + Server.ServeMsg on a plain
// transport.  The observed verdict of each run is one Coq case (model: ingress_wire /
// ingress_msg); the two verdicts are also compared on the Go side.
//
// Phase "diff": two identically configured servers over the default chain up to a
// scripted stub resolver.  A generated history of query packets is applied packet by
// packet to server W through ServeRaw (or ServeRawInline + ServeRawReplay) on a
// strict-slot UDP/TCP transport and to server M through Unpack + ServeMsg on a plain
// transport of the same protocol.  After every packet the two replies are decoded and
// compared as abstract messages, together with what the stub resolver saw on each side;
// at the end the same probe queries are sent to both servers through the same (decoded)
// path to compare what later queries can see.  This phase is differential TESTING; its
// Coq cases only re-compare the component digests the driver computed.

import (
	"context"
	"encoding/hex"
	"encoding/json"
	"fmt"
	"hash/fnv"
	"math/rand"
	"net"
	"os"
	"reflect"
	"runtime"
	"sort"
	"strconv"
	"strings"
	"sync"
	"testing"
	"time"

	"github.com/miekg/dns"
	"github.com/prometheus/client_golang/prometheus"
	"github.com/semihalev/sdns/config"
	"github.com/semihalev/sdns/internal/dnsutil"
	"github.com/semihalev/sdns/internal/metric"
	"github.com/semihalev/sdns/internal/wire"
	"github.com/semihalev/sdns/middleware"
	"github.com/semihalev/sdns/middleware/cache"
	"github.com/semihalev/sdns/middleware/defaults"
	"github.com/semihalev/sdns/middleware/edns"
)

// ---------------------------------------------------------------- transports

// vC05StrictJob offers the strict-path slots and the body lease exactly like udpJob/tcpJob.
type vC05StrictJob struct {
	tcp    bool
	ip     net.IP
	wrote  []byte
	writes int
	tx     [8192]byte

	req        middleware.Request
	chain      middleware.Chain
	carrier    jobCarrier
	ednsWriter edns.ResponseWriter
}

// rearm prepares the slot for the next packet the way an engine's job slab is reused: the strict-path
// storage (request, chain, carrier, edns writer) and the TX buffer are NOT cleared.  The TX buffer is
// left holding the previous reply (dirty = false) or poisoned with 0xFF (dirty = true): a reply must
// never depend on what the lease held before.
func (j *vC05StrictJob) rearm(ip net.IP, dirty bool) {
	j.ip = ip
	j.wrote = j.wrote[:0]
	j.writes = 0
	if dirty {
		for i := range j.tx {
			j.tx[i] = 0xFF
		}
	}
}

func (j *vC05StrictJob) LeaseWire(capacity int) []byte {
	if capacity > len(j.tx) {
		return nil
	}
	return j.tx[:0]
}
func (j *vC05StrictJob) LocalAddr() net.Addr {
	if j.tcp {
		return &net.TCPAddr{IP: net.IPv4(127, 0, 0, 1), Port: 53}
	}
	return &net.UDPAddr{IP: net.IPv4(127, 0, 0, 1), Port: 53}
}
func (j *vC05StrictJob) RemoteAddr() net.Addr {
	if j.tcp {
		return &net.TCPAddr{IP: j.ip, Port: 4242}
	}
	return &net.UDPAddr{IP: j.ip, Port: 4242}
}
func (j *vC05StrictJob) Close() error { return nil }
func (j *vC05StrictJob) Write(b []byte) (int, error) {
	j.wrote = append(j.wrote[:0], b...)
	j.writes++
	return len(b), nil
}
func (j *vC05StrictJob) WriteMsg(m *dns.Msg) error {
	out, err := m.PackBuffer(make([]byte, 4096))
	if err != nil {
		return err
	}
	_, err = j.Write(out)
	return err
}
func (j *vC05StrictJob) StrictSlots() (*middleware.Request, *middleware.Chain, *jobCarrier, *edns.ResponseWriter) {
	return &j.req, &j.chain, &j.carrier, &j.ednsWriter
}

// vC05PlainJob is a transport without any byte-path capability.
type vC05PlainJob struct {
	tcp    bool
	ip     net.IP
	wrote  []byte
	writes int
}

func (j *vC05PlainJob) LocalAddr() net.Addr {
	if j.tcp {
		return &net.TCPAddr{IP: net.IPv4(127, 0, 0, 1), Port: 53}
	}
	return &net.UDPAddr{IP: net.IPv4(127, 0, 0, 1), Port: 53}
}
func (j *vC05PlainJob) RemoteAddr() net.Addr {
	if j.tcp {
		return &net.TCPAddr{IP: j.ip, Port: 4242}
	}
	return &net.UDPAddr{IP: j.ip, Port: 4242}
}
func (j *vC05PlainJob) Close() error { return nil }
func (j *vC05PlainJob) Write(b []byte) (int, error) {
	j.wrote = append(j.wrote[:0], b...)
	j.writes++
	return len(b), nil
}
func (j *vC05PlainJob) WriteMsg(m *dns.Msg) error {
	out, err := m.PackBuffer(make([]byte, 4096))
	if err != nil {
		return err
	}
	_, err = j.Write(out)
	return err
}

// ---------------------------------------------------------------- scripted stub resolver

// vC05Goid is the id of the calling goroutine (the number in the first line of its stack trace).
func vC05Goid() uint64 {
	var buf [64]byte
	f := strings.Fields(string(buf[:runtime.Stack(buf[:], false)]))
	if len(f) < 2 {
		return 0
	}
	n, _ := strconv.ParseUint(f[1], 10, 64)
	return n
}

type vC05Stub struct {
	mu *sync.Mutex // guards *log: background refresh workers reach the stub from their own goroutines
	fg *uint64     // the goroutine that serves the history's packets (everything else is background work)
	log   *[]string
	epoch *int // the scripted universe's validation epoch: signed names validate (AD) in even epochs only
}

func (vC05Stub) Name() string { return "verif-c05-stub" }

func vC05A(owner string, ttl uint32, b byte) dns.RR {
	return &dns.A{Hdr: dns.RR_Header{Name: owner, Rrtype: dns.TypeA, Class: dns.ClassINET, Ttl: ttl}, A: net.IPv4(192, 0, 2, b)}
}
func vC05AAAA(owner string, ttl uint32, b byte) dns.RR {
	return &dns.AAAA{Hdr: dns.RR_Header{Name: owner, Rrtype: dns.TypeAAAA, Class: dns.ClassINET, Ttl: ttl}, AAAA: net.ParseIP("2001:db8::" + strconv.Itoa(int(b)))}
}
func vC05CNAME(owner, target string, ttl uint32) dns.RR {
	return &dns.CNAME{Hdr: dns.RR_Header{Name: owner, Rrtype: dns.TypeCNAME, Class: dns.ClassINET, Ttl: ttl}, Target: target}
}
func vC05SOA(zone string, ttl uint32) dns.RR {
	if zone == "." {
		return &dns.SOA{Hdr: dns.RR_Header{Name: ".", Rrtype: dns.TypeSOA, Class: dns.ClassINET, Ttl: ttl},
			Ns: "a.root-servers.net.", Mbox: "nstld.verisign-grs.com.", Serial: 7, Refresh: 1800, Retry: 900, Expire: 604800, Minttl: 86400}
	}
	return &dns.SOA{Hdr: dns.RR_Header{Name: zone, Rrtype: dns.TypeSOA, Class: dns.ClassINET, Ttl: ttl},
		Ns: "ns." + zone, Mbox: "host." + zone, Serial: 7, Refresh: 3600, Retry: 600, Expire: 86400, Minttl: 60}
}
func vC05RRSIG(owner string, covered uint16, ttl uint32) dns.RR {
	return &dns.RRSIG{
		Hdr:         dns.RR_Header{Name: owner, Rrtype: dns.TypeRRSIG, Class: dns.ClassINET, Ttl: ttl},
		TypeCovered: covered, Algorithm: dns.RSASHA256, Labels: uint8(dns.CountLabel(owner)), OrigTtl: ttl,
		Expiration: 2000000000, Inception: 1600000000, KeyTag: 12345, SignerName: "zero.test.",
		Signature: "MEQCIF5edm5vY2Vhbm9ncmFwaHkgaXMgZnVuIQIgTm90QVJlYWxTaWc=",
	}
}

// the rich universe: one RRset per record type, in presentation form.  Shapes on purpose: several records per
// set; RDATA names inside the zone (the packer compresses them against the question), outside it and sharing a
// suffix with one another (compressed against an EARLIER RDATA of the same section for the RFC 1035 types, left
// uncompressed for the later types), the root; DNSSEC record types as the payload of a question.
var vC05RichRData = map[uint16][]string{
	dns.TypeNS:         {"NS ns1.zero.test.", "NS ns2.zero.test.", "NS ns.isp.example.", "NS ns.backup.isp.example."},
	dns.TypePTR:        {"PTR host-a.isp.example.", "PTR host-b.isp.example.", "PTR host-c.zero.test."},
	dns.TypeMX:         {"MX 10 mail.zero.test.", "MX 20 mail.backup.example.", "MX 30 mx.backup.example."},
	dns.TypeSRV:        {"SRV 0 5 5060 sip-a.isp.example.", "SRV 1 5 5060 sip-b.isp.example.", "SRV 2 0 5061 sip.zero.test."},
	dns.TypeSVCB:       {`SVCB 1 svc-a.isp.example. alpn="h2,h3" port="8443"`, `SVCB 2 svc-b.isp.example. ipv4hint="192.0.2.1"`, "SVCB 3 svc.zero.test."},
	dns.TypeHTTPS:      {`HTTPS 1 . alpn="h2,h3" ipv4hint="192.0.2.7" ipv6hint="2001:db8::7"`, `HTTPS 2 web.isp.example. port="8443"`},
	dns.TypeNAPTR:      {`NAPTR 100 10 "u" "E2U+sip" "!^.*$!sip:info@example.com!" .`, `NAPTR 100 20 "s" "SIP+D2U" "" _sip._udp.isp.example.`, `NAPTR 100 30 "s" "SIP+D2T" "" _sip._tcp.zero.test.`},
	dns.TypeCAA:        {`CAA 0 issue "ca.example.net"`, `CAA 128 iodef "mailto:sec@zero.test"`},
	dns.TypeTLSA:       {"TLSA 3 1 1 0123456789abcdef0123456789abcdef0123456789abcdef0123456789abcdef"},
	dns.TypeDS:         {"DS 12345 8 2 0123456789abcdef0123456789abcdef0123456789abcdef0123456789abcdef", "DS 12346 13 2 fedcba9876543210fedcba9876543210fedcba9876543210fedcba9876543210"},
	dns.TypeDNSKEY:     {"DNSKEY 257 3 8 AwEAAaetidLzsKWUt4swWR8yu0wPHPiUi8LUsAD0QPWU+wzt89epO6tHzkMBVDkC7qphQO2hTY4hHn9npWFRw5BYubE=", "DNSKEY 256 3 8 AwEAAcw5QLr0IjC0wKbGoBPQv4qmeqHy9mvL5qGQTuaG5TSrNqEAR6b/qvxDx6my4JmEmjUPA1JeEI9YfTUieMr2UZk="},
	dns.TypeNSEC:       {"NSEC rsz.zero.test. A NS MX TXT RRSIG NSEC"},
	dns.TypeNSEC3:      {"NSEC3 1 0 5 aabbccdd 2vptu5timamqttgl4luu9kg21e0aor3s A RRSIG"},
	dns.TypeNSEC3PARAM: {"NSEC3PARAM 1 0 5 aabbccdd"},
	dns.TypeRRSIG:      {"RRSIG A 8 3 300 20330518033227 20200913054000 12345 zero.test. MEQCIF5edm5vY2Vhbm9ncmFwaHkgaXMgZnVuIQIgTm90QVJlYWxTaWc=", "RRSIG MX 8 3 300 20330518033227 20200913054000 12345 zero.test. MEQCIF5edm5vY2Vhbm9ncmFwaHkgaXMgZnVuIQIgTm90QVJlYWxTaWc="},
	dns.TypeSOA:        {"SOA ns.zero.test. host.zero.test. 7 3600 600 86400 60"},
	dns.TypeHINFO:      {`HINFO "PDP-11" "UNIX"`},
	dns.TypeRP:         {"RP admin.zero.test. txt.isp.example.", "RP ops.isp.example. txt.isp.example."},
	dns.TypeKX:         {"KX 10 kx.zero.test.", "KX 20 kx.isp.example."},
	dns.TypeURI:        {`URI 10 1 "https://www.isp.example/path"`},
	dns.TypeLOC:        {"LOC 52 22 23.000 N 4 53 32.000 E -2.00m 0.00m 10000m 10m"},
	dns.TypeSSHFP:      {"SSHFP 4 2 0123456789abcdef0123456789abcdef0123456789abcdef0123456789abcdef"},
	dns.TypeCDS:        {"CDS 12345 8 2 0123456789abcdef0123456789abcdef0123456789abcdef0123456789abcdef"},
	dns.TypeA:          {"A 192.0.2.61", "A 192.0.2.62"},
	dns.TypeAAAA:       {"AAAA 2001:db8::61"},
	dns.TypeTXT:        {`TXT "v=spf1 -all"`, `TXT "rich" "universe"`},
}

// the types of the rich universe in a fixed order (generators draw from it)
var vC05RichTypes = func() []int {
	var out []int
	for t := range vC05RichRData {
		out = append(out, int(t))
	}
	sort.Ints(out)
	return out
}()

var vC05RichParsed = map[uint16][]dns.RR{}
var vC05RichMu sync.Mutex

// vC05Rich returns the RRset of the given type at owner, nil for a type outside the table.
func vC05Rich(owner string, qtype uint16, ttl uint32) []dns.RR {
	vC05RichMu.Lock()
	defer vC05RichMu.Unlock()
	tmpl, ok := vC05RichParsed[qtype]
	if !ok {
		for _, line := range vC05RichRData[qtype] {
			rr, err := dns.NewRR("x.zero.test. 300 IN " + line)
			if err != nil || rr == nil {
				panic(fmt.Sprintf("vC05Rich: %q: %v", line, err))
			}
			tmpl = append(tmpl, rr)
		}
		vC05RichParsed[qtype] = tmpl
	}
	var out []dns.RR
	for _, rr := range tmpl {
		c := dns.Copy(rr)
		c.Header().Name = owner
		c.Header().Ttl = ttl
		out = append(out, c)
	}
	return out
}

func vC05IsRichName(name string) bool {
	for _, p := range []string{"rr", "rs", "ra", "rb", "rt"} {
		if strings.HasPrefix(name, p) {
			return true
		}
	}
	return false
}

const vC05Zone = "zero.test."

// names at or below nx1.zero.test. get a signed NXDOMAIN which the stub, standing in for the
// validating resolver, marks as locally validated (the resolver-to-cache trust seam)
func vC05SignedNX(name string) bool {
	return name == "nx1."+vC05Zone || strings.HasSuffix(name, ".nx1."+vC05Zone)
}

// the universe: behaviour is a function of the first label (lower-cased)
func vC05Respond(req *dns.Msg, epoch int) *dns.Msg {
	q := req.Question[0]
	name := strings.ToLower(q.Name)
	first := name
	if i := strings.IndexByte(name, '.'); i >= 0 {
		first = name[:i]
	}
	// names below an nx*/sf* name behave like that name (subtree denial / zone failure)
	if strings.HasSuffix(name, "."+vC05Zone) {
		labels := strings.Split(strings.TrimSuffix(name, "."+vC05Zone), ".")
		if last := labels[len(labels)-1]; strings.HasPrefix(last, "nx") || strings.HasPrefix(last, "sf") {
			first = last
		}
	}
	kind := strings.TrimRight(first, "0123456789")
	idx := byte(len(first)*7 + len(name))
	resp := new(dns.Msg)
	resp.SetReply(req)
	resp.RecursionAvailable = true
	inZone := strings.HasSuffix(name, "."+vC05Zone) || name == vC05Zone
	ttl := uint32(300)
	if strings.HasSuffix(first, "1") {
		ttl = 3600
	}
	if strings.HasSuffix(first, "2") {
		ttl = 5 // the cache's floor: gone after a small clock advance
	}
	secure := epoch%2 == 0
	nodata := func() {
		resp.Ns = []dns.RR{vC05SOA(vC05Zone, ttl)}
	}
	if !inZone {
		resp.Rcode = dns.RcodeNameError
		resp.Ns = []dns.RR{vC05SOA(".", 300)}
		return resp
	}
	switch kind {
	case "pos":
		// an upstream may leave AA set: a cached answer is never authoritative on either path
		resp.Authoritative = strings.HasSuffix(first, "1")
		// ... and a forwarder relays the header of an upstream that does not offer recursion: RA is kept as
		// admitted on both paths (exact hits and, through pos2 / cb0, the hops of composed chains)
		resp.RecursionAvailable = !strings.HasSuffix(first, "1") && !strings.HasSuffix(first, "2")
		switch q.Qtype {
		case dns.TypeA:
			resp.Answer = []dns.RR{vC05A(q.Name, ttl, idx), vC05A(q.Name, ttl, idx+1)}
		case dns.TypeAAAA:
			resp.Answer = []dns.RR{vC05AAAA(q.Name, ttl, idx)}
		case dns.TypeTXT:
			resp.Answer = []dns.RR{&dns.TXT{Hdr: dns.RR_Header{Name: q.Name, Rrtype: dns.TypeTXT, Class: dns.ClassINET, Ttl: ttl}, Txt: []string{"hello", "world"}}}
		default:
			nodata()
		}
	case "mx":
		if q.Qtype == dns.TypeMX {
			resp.Answer = []dns.RR{&dns.MX{Hdr: dns.RR_Header{Name: q.Name, Rrtype: dns.TypeMX, Class: dns.ClassINET, Ttl: ttl}, Preference: 10, Mx: "mail." + vC05Zone}}
			resp.Extra = []dns.RR{vC05A("mail."+vC05Zone, ttl, 25)}
		} else {
			nodata()
		}
	case "ca": // alias-only answers: the cache has to chase
		next := map[string]string{"ca0": "cb0", "cb0": "cc0", "cc0": "pos0", "ca1": "pos2", "ca2": "nx0", "ca3": "sf0", "ca4": "big0"}[first]
		if next == "" {
			next = "pos0"
		}
		resp.RecursionAvailable = first != "ca1" // relayed from a non-recursive upstream (see pos1)
		if q.Qtype == dns.TypeCNAME || q.Qtype == dns.TypeA || q.Qtype == dns.TypeAAAA || q.Qtype == dns.TypeMX || q.Qtype == dns.TypeTXT {
			resp.Answer = []dns.RR{vC05CNAME(q.Name, next+"."+vC05Zone, ttl)}
		} else {
			nodata()
		}
	case "cb", "cc":
		next := map[string]string{"cb0": "cc0", "cc0": "pos0"}[first]
		if next == "" {
			next = "pos0"
		}
		resp.Answer = []dns.RR{vC05CNAME(q.Name, next+"."+vC05Zone, ttl)}
		resp.RecursionAvailable = first != "cb0" // a hop in the middle of a chain whose other legs offer recursion
	case "cx": // alias onto a hop whose own answer carries a self-alias next to the terminal record
		if q.Qtype == dns.TypeA || q.Qtype == dns.TypeAAAA || q.Qtype == dns.TypeCNAME {
			resp.Answer = []dns.RR{vC05CNAME(q.Name, "cy"+first[2:]+"."+vC05Zone, ttl)}
		} else {
			nodata()
		}
	case "cy": // "n CNAME n" + "n A": nothing an upstream may legitimately send; the cache admits what it is given
		if q.Qtype == dns.TypeA {
			resp.Answer = []dns.RR{vC05CNAME(q.Name, q.Name, ttl), vC05A(q.Name, ttl, idx)}
		} else {
			nodata()
		}
	case "cz": // an alias onto the SAME name in another spelling next to the terminal record: admitted (the
		// admission-time scan compares spellings exactly), a self-alias for a client that uses that spelling
		if q.Qtype == dns.TypeA {
			resp.Answer = []dns.RR{vC05CNAME(q.Name, strings.ToUpper(q.Name), ttl), vC05A(q.Name, ttl, idx)}
		} else {
			nodata()
		}
	case "cf": // full chain in one response
		if q.Qtype == dns.TypeA {
			resp.Answer = []dns.RR{vC05CNAME(q.Name, "cfm."+vC05Zone, ttl), vC05CNAME("cfm."+vC05Zone, "cft."+vC05Zone, ttl), vC05A("cft."+vC05Zone, ttl, 77)}
		} else {
			resp.Answer = []dns.RR{vC05CNAME(q.Name, "cfm."+vC05Zone, ttl)}
		}
	case "sig": // signed, validated; sig1 behaves like a forwarder's upstream: AD whatever CD says
		resp.AuthenticatedData = secure && (!req.CheckingDisabled || strings.HasSuffix(first, "1"))
		if q.Qtype == dns.TypeA {
			resp.Answer = []dns.RR{vC05A(q.Name, ttl, idx), vC05RRSIG(q.Name, dns.TypeA, ttl)}
		} else if q.Qtype == dns.TypeRRSIG {
			resp.Answer = []dns.RR{vC05RRSIG(q.Name, dns.TypeA, ttl)}
		} else {
			resp.Ns = []dns.RR{vC05SOA(vC05Zone, ttl), vC05RRSIG(vC05Zone, dns.TypeSOA, ttl),
				&dns.NSEC{Hdr: dns.RR_Header{Name: q.Name, Rrtype: dns.TypeNSEC, Class: dns.ClassINET, Ttl: 60}, NextDomain: "sih." + vC05Zone, TypeBitMap: []uint16{dns.TypeA, dns.TypeRRSIG, dns.TypeNSEC}},
				vC05RRSIG(q.Name, dns.TypeNSEC, 60)}
		}
	case "sc": // signed alias, target signed; sc1 is long-lived and points at the short-lived sig2
		resp.AuthenticatedData = secure && !req.CheckingDisabled
		target := "sig0."
		if first == "sc1" {
			target = "sig2."
		}
		resp.Answer = []dns.RR{vC05CNAME(q.Name, target+vC05Zone, ttl), vC05RRSIG(q.Name, dns.TypeCNAME, ttl)}
	case "nx":
		resp.Rcode = dns.RcodeNameError
		resp.Ns = []dns.RR{vC05SOA(vC05Zone, ttl)}
		if vC05SignedNX(name) {
			resp.AuthenticatedData = secure && !req.CheckingDisabled
			resp.Ns = append(resp.Ns, vC05RRSIG(vC05Zone, dns.TypeSOA, ttl),
				&dns.NSEC{Hdr: dns.RR_Header{Name: "nw." + vC05Zone, Rrtype: dns.TypeNSEC, Class: dns.ClassINET, Ttl: 60}, NextDomain: "ny." + vC05Zone, TypeBitMap: []uint16{dns.TypeA, dns.TypeRRSIG, dns.TypeNSEC}},
				vC05RRSIG("nw."+vC05Zone, dns.TypeNSEC, 60),
				&dns.NSEC{Hdr: dns.RR_Header{Name: vC05Zone, Rrtype: dns.TypeNSEC, Class: dns.ClassINET, Ttl: 60}, NextDomain: "a." + vC05Zone, TypeBitMap: []uint16{dns.TypeNS, dns.TypeSOA, dns.TypeRRSIG, dns.TypeNSEC, dns.TypeDNSKEY}},
				vC05RRSIG(vC05Zone, dns.TypeNSEC, 60))
		}
	case "nd":
		nodata()
	case "ede":
		resp.Answer = []dns.RR{vC05A(q.Name, ttl, idx)}
		opt := &dns.OPT{Hdr: dns.RR_Header{Name: ".", Rrtype: dns.TypeOPT}}
		opt.SetUDPSize(1232)
		opt.Option = append(opt.Option, &dns.EDNS0_EDE{InfoCode: dns.ExtendedErrorCodeStaleAnswer, ExtraText: "stale answer " + first})
		resp.Extra = append(resp.Extra, opt)
	case "big":
		for i := 0; i < 9; i++ {
			resp.Answer = append(resp.Answer, &dns.TXT{Hdr: dns.RR_Header{Name: q.Name, Rrtype: dns.TypeTXT, Class: dns.ClassINET, Ttl: ttl},
				Txt: []string{strings.Repeat(string(rune('a'+i)), 180)}})
		}
		if q.Qtype != dns.TypeTXT {
			resp.Answer = nil
			for i := 0; i < 90; i++ {
				resp.Answer = append(resp.Answer, vC05A(q.Name, ttl, byte(i)))
			}
		}
	case "rr", "rs": // rich universe: the RRset of the asked type for every type of vC05RichTypes; rs* is signed
		signed := kind == "rs"
		if signed {
			resp.AuthenticatedData = secure && !req.CheckingDisabled
		}
		if rrs := vC05Rich(q.Name, q.Qtype, ttl); rrs != nil {
			resp.Answer = rrs
			if signed && q.Qtype != dns.TypeRRSIG {
				resp.Answer = append(resp.Answer, vC05RRSIG(q.Name, q.Qtype, ttl))
			}
		} else if signed {
			resp.Ns = []dns.RR{vC05SOA(vC05Zone, ttl), vC05RRSIG(vC05Zone, dns.TypeSOA, ttl),
				&dns.NSEC{Hdr: dns.RR_Header{Name: q.Name, Rrtype: dns.TypeNSEC, Class: dns.ClassINET, Ttl: 60}, NextDomain: "rsz." + vC05Zone, TypeBitMap: []uint16{dns.TypeA, dns.TypeRRSIG, dns.TypeNSEC}},
				vC05RRSIG(q.Name, dns.TypeNSEC, 60)}
		} else {
			nodata()
		}
	case "ra", "ralong", "rb", "rt": // aliases into the rich universe; owner and target differ in length for ralong/rb
		// (every offset of a composed reply then differs from the hop's stored body); rt* is signed -> rs*
		digits := first[len(kind):]
		target := map[string]string{"ra": "rr", "ralong": "rr", "rb": "ralong", "rt": "rs"}[kind] + digits + "." + vC05Zone
		if q.Qtype == dns.TypeNSEC || q.Qtype == dns.TypeRRSIG {
			nodata() // types that live AT an alias owner are not answered through it
			break
		}
		resp.Answer = []dns.RR{vC05CNAME(q.Name, target, ttl)}
		if kind == "rt" {
			resp.AuthenticatedData = secure && !req.CheckingDisabled
			resp.Answer = append(resp.Answer, vC05RRSIG(q.Name, dns.TypeCNAME, ttl))
		}
	case "sf", "nxf": // nxf* sorts inside the span the nx1 denial proof covers
		resp.Rcode = dns.RcodeServerFailure
		if strings.HasSuffix(first, "1") {
			opt := &dns.OPT{Hdr: dns.RR_Header{Name: ".", Rrtype: dns.TypeOPT}}
			opt.SetUDPSize(1232)
			opt.Option = append(opt.Option, &dns.EDNS0_EDE{InfoCode: dns.ExtendedErrorCodeNetworkError, ExtraText: "upstream timeout"})
			resp.Extra = append(resp.Extra, opt)
		}
	case "ref":
		resp.Rcode = dns.RcodeRefused
	default:
		switch q.Qtype {
		case dns.TypeA:
			resp.Answer = []dns.RR{vC05A(q.Name, ttl, idx)}
		default:
			nodata()
		}
	}
	return resp
}

func (s vC05Stub) ServeDNS(ctx context.Context, ch *middleware.Chain) {
	ctx, req := ch.Materialize(ctx)
	if req == nil {
		return
	}
	if len(req.Question) == 0 {
		ch.Cancel()
		return
	}
	if s.log != nil {
		// what reaches resolution: the normalised upstream request
		q := req.Question[0]
		line := fmt.Sprintf("%s/%d/%d rd=%v cd=%v ad=%v", q.Name, q.Qtype, q.Qclass, req.RecursionDesired, req.CheckingDisabled, req.AuthenticatedData)
		if opt := req.IsEdns0(); opt != nil {
			var codes []string
			for _, o := range opt.Option {
				c := strconv.Itoa(int(o.Option()))
				if e, ok := o.(*dns.EDNS0_SUBNET); ok {
					c += fmt.Sprintf("[fam=%d %s/%d scope=%d]", e.Family, e.Address, e.SourceNetmask, e.SourceScope)
				}
				codes = append(codes, c)
			}
			line += fmt.Sprintf(" opt(size=%d do=%v ver=%d opts=%s)", opt.UDPSize(), opt.Do(), opt.Version(), strings.Join(codes, ","))
		}
		if !ch.Writer.Internal() {
			line += " client"
		}
		// origin: a query that reaches resolution on the goroutine serving the client's packet belongs
		// to that packet (its own hand-off and the sub-queries of its alias chase, in their order);
		// one that arrives on another goroutine is background work (the refresh queue's four workers
		// run concurrently, so the order among their queries is not a fact of either server)
		if s.fg != nil && vC05Goid() != *s.fg {
			line = "bg " + line
		}
		s.mu.Lock()
		*s.log = append(*s.log, line)
		s.mu.Unlock()
	}
	epoch := 0
	if s.epoch != nil {
		epoch = *s.epoch
	}
	resp := vC05Respond(req, epoch)
	if name := strings.ToLower(req.Question[0].Name); resp.Rcode == dns.RcodeNameError && vC05SignedNX(name) && !req.CheckingDisabled && epoch%2 == 0 {
		middleware.MarkValidatedNegativeProofResponse(ctx, resp, middleware.ValidatedNegativeProof{
			Subject: "nx1." + vC05Zone, Zone: vC05Zone, Kind: middleware.ValidatedNegativeProofNSEC, Aggressive: true,
		})
	}
	// an authority that understands client subnet answers with a scope: /0 for names ending in 0,
	// the source prefix for names ending in 1, a shorter one otherwise
	if ropt := req.IsEdns0(); ropt != nil && resp.Rcode != dns.RcodeServerFailure {
		for _, o := range ropt.Option {
			if e, ok := o.(*dns.EDNS0_SUBNET); ok && e.Family != 0 {
				scope := e.SourceNetmask / 2
				first := strings.SplitN(strings.ToLower(req.Question[0].Name), ".", 2)[0]
				if strings.HasSuffix(first, "0") {
					scope = 0
				} else if strings.HasSuffix(first, "1") {
					scope = e.SourceNetmask
				}
				opt := resp.IsEdns0()
				if opt == nil {
					opt = &dns.OPT{Hdr: dns.RR_Header{Name: ".", Rrtype: dns.TypeOPT}}
					opt.SetUDPSize(1232)
					resp.Extra = append(resp.Extra, opt)
				}
				opt.Option = append(opt.Option, &dns.EDNS0_SUBNET{Code: dns.EDNS0SUBNET, Family: e.Family, SourceNetmask: e.SourceNetmask, SourceScope: scope, Address: e.Address})
				break
			}
		}
	}
	_ = ch.Writer.WriteMsg(resp)
	ch.Cancel()
}

// ---------------------------------------------------------------- servers

type vC05Toggles struct {
	nsid        bool
	clientRate  int
	entryRate   int
	prefetch    bool
	rfc8198     int // 0 default, 1 on, 2 off
	rfc9520     int
	hosts       bool
	emptyZones  bool
	chaos       bool
	ecs         int // 0 off, 1 enabled for every client, 2 enabled for 203.0.113.0/26 only
	tcp         bool
	inline      bool
	minimalPipe bool
}

func (t vC05Toggles) String() string {
	return fmt.Sprintf("nsid=%v crl=%d erl=%d prefetch=%v 8198=%d 9520=%d hosts=%v ez=%v chaos=%v ecs=%d tcp=%v inline=%v",
		t.nsid, t.clientRate, t.entryRate, t.prefetch, t.rfc8198, t.rfc9520, t.hosts, t.emptyZones, t.chaos, t.ecs, t.tcp, t.inline)
}

func vC05Config(t vC05Toggles, hostsPath string) *config.Config {
	cfg := &config.Config{
		Bind:         "127.0.0.1:0",
		Expire:       600,
		CacheSize:    1024,
		CookieSecret: vC05Secret,
	}
	cfg.QueryTimeout.Duration = 10 * time.Second
	if t.nsid {
		cfg.NSID = "verif-c05"
	}
	cfg.ClientRateLimit = t.clientRate
	cfg.RateLimit = t.entryRate
	if t.prefetch {
		cfg.Prefetch = 10
	}
	tr, fa := true, false
	switch t.rfc8198 {
	case 1:
		cfg.RFC8198 = &tr
	case 2:
		cfg.RFC8198 = &fa
	}
	switch t.rfc9520 {
	case 1:
		cfg.RFC9520 = &tr
	case 2:
		cfg.RFC9520 = &fa
	}
	if t.hosts {
		cfg.HostsFile = hostsPath
	}
	if t.emptyZones {
		cfg.EmptyZones = []string{"10.in-addr.arpa.", "168.192.in-addr.arpa."}
	}
	cfg.Chaos = t.chaos
	switch t.ecs {
	case 1:
		cfg.ECS.Enabled = true
	case 2:
		cfg.ECS.Enabled = true
		cfg.ECS.ClientNetworks = []string{"203.0.113.0/26", "2001:db8:c05::/48"}
	}
	return cfg
}

type vC05Server struct {
	s     *Server
	mu    sync.Mutex
	fg    uint64
	log   []string
	epoch int
	total time.Duration // virtual clock advance so far
}

// wait for background refreshes started by the last packet (cache.VC05PrefetchIdle)
func (vs *vC05Server) settle() bool {
	if vs.s == nil || vs.s.pipeline == nil {
		return true
	}
	if c, ok := vs.s.pipeline.Get("cache").(*cache.Cache); ok {
		return cache.VC05PrefetchIdle(c, 2*time.Second)
	}
	return true
}

// advance the server's virtual clock (cache.VC05Shift, overlay export hook)
func (vs *vC05Server) shift(d time.Duration) {
	vs.total += d
	if vs.s == nil || vs.s.pipeline == nil {
		return
	}
	if c, ok := vs.s.pipeline.Get("cache").(*cache.Cache); ok {
		cache.VC05Shift(c, d, vs.total)
	}
}

func vC05NewServer(t vC05Toggles, hostsPath string) *vC05Server {
	vs := &vC05Server{fg: vC05Goid()}
	middleware.Reset()
	if t.minimalPipe {
		middleware.Register("edns", func(cfg *config.Config) middleware.Handler { return edns.New(cfg) })
	} else {
		defaults.RegisterUpTo("resolver")
	}
	middleware.Register("verif-c05-stub", func(*config.Config) middleware.Handler { return vC05Stub{mu: &vs.mu, fg: &vs.fg, log: &vs.log, epoch: &vs.epoch} })
	cfg := vC05Config(t, hostsPath)
	middleware.Setup(cfg)
	vs.s = New(cfg)
	middleware.Reset()
	return vs
}

func (vs *vC05Server) resetLog() {
	vs.mu.Lock()
	vs.log = vs.log[:0]
	vs.mu.Unlock()
}

// takeLog: what the stub saw during the step - the packet's own queries in order, then the background
// queries as a sorted multiset (call after settle()).
func (vs *vC05Server) takeLog() string {
	vs.mu.Lock()
	defer vs.mu.Unlock()
	var fg, bg []string
	for _, l := range vs.log {
		if strings.HasPrefix(l, "bg ") {
			bg = append(bg, l)
		} else {
			fg = append(fg, l)
		}
	}
	sort.Strings(bg)
	return strings.Join(append(fg, bg...), "\n")
}

func (vs *vC05Server) stop() {
	if vs.s == nil || vs.s.pipeline == nil {
		return
	}
	for _, h := range vs.s.pipeline.Handlers() {
		if st, ok := h.(interface{ Stop() }); ok {
			st.Stop()
		}
	}
}

// ---------------------------------------------------------------- abstract replies

func vC05Hash(s string) uint64 {
	h := fnv.New64a()
	h.Write([]byte(s))
	return h.Sum64() >> 4 // keep the numeral short of 2^60
}

func vC05RRKey(rr dns.RR) string {
	h := rr.Header()
	buf := make([]byte, dns.Len(rr)+32)
	rdata := ""
	if off, err := dns.PackRR(rr, buf, 0, nil, false); err == nil {
		// skip owner + fixed header
		nameLen := 0
		for nameLen < off && buf[nameLen] != 0 {
			nameLen += int(buf[nameLen]) + 1
		}
		nameLen++
		if nameLen+10 <= off {
			rdata = hex.EncodeToString(buf[nameLen+10 : off])
		}
	} else {
		rdata = "unpackable:" + rr.String()
	}
	return fmt.Sprintf("%s|%d|%d|%d|%s", strings.ToLower(h.Name), h.Rrtype, h.Class, h.Ttl, rdata)
}

func vC05Section(rrs []dns.RR) string {
	var lines []string
	for _, rr := range rrs {
		if rr.Header().Rrtype == dns.TypeOPT {
			continue
		}
		lines = append(lines, vC05RRKey(rr))
	}
	sort.Strings(lines)
	return strings.Join(lines, "\n")
}

// vC05FoldNames lower-cases the RDATA of the record types whose RDATA names the library
// compresses (RFC 1035 types): used only to CLASSIFY a difference as the known
// rdata-name-case finding, never to accept it.
func vC05FoldNames(section string) string {
	var out []string
	for _, l := range strings.Split(section, "\n") {
		f := strings.Split(l, "|")
		if len(f) == 5 {
			switch f[1] {
			case "2", "5", "6", "12", "15", "7", "8", "9", "14":
				if raw, err := hex.DecodeString(f[4]); err == nil {
					f[4] = hex.EncodeToString([]byte(strings.ToLower(string(raw))))
				}
			}
		}
		out = append(out, strings.Join(f, "|"))
	}
	sort.Strings(out)
	return strings.Join(out, "\n")
}

// vC05CaseOnly reports whether two abstract replies differ only in the letter case of
// names inside RDATA.
func vC05CaseOnly(a, b []string) bool {
	differs := false
	for k := range a {
		if a[k] == b[k] {
			continue
		}
		if k < 3 || k > 5 || vC05FoldNames(a[k]) != vC05FoldNames(b[k]) {
			return false
		}
		differs = true
	}
	return differs
}

// components of an abstract reply, in a fixed order
var vC05Comp = []string{"presence", "header", "question", "answer", "authority", "additional", "opt"}

func vC05Abstract(raw []byte, wrote bool) []string {
	if !wrote {
		return []string{"none", "", "", "", "", "", ""}
	}
	m := new(dns.Msg)
	if err := m.Unpack(raw); err != nil {
		return []string{"undecodable:" + err.Error(), hex.EncodeToString(raw), "", "", "", "", ""}
	}
	hdr := fmt.Sprintf("id=%d qr=%v op=%d aa=%v tc=%v rd=%v ra=%v z=%v ad=%v cd=%v rcode=%d",
		m.Id, m.Response, m.Opcode, m.Authoritative, m.Truncated, m.RecursionDesired, m.RecursionAvailable, m.Zero, m.AuthenticatedData, m.CheckingDisabled, m.Rcode)
	var qs []string
	for _, q := range m.Question {
		qs = append(qs, fmt.Sprintf("%s/%d/%d", q.Name, q.Qtype, q.Qclass))
	}
	nopt := 0
	optS := "absent"
	for _, rr := range m.Extra {
		if o, ok := rr.(*dns.OPT); ok {
			nopt++
			var opts []string
			for _, e := range o.Option {
				d := ""
				tmp := &dns.OPT{Hdr: dns.RR_Header{Name: ".", Rrtype: dns.TypeOPT}, Option: []dns.EDNS0{e}}
				buf := make([]byte, 70000)
				if off, err := dns.PackRR(tmp, buf, 0, nil, false); err == nil && off >= 15 {
					d = hex.EncodeToString(buf[15:off])
				}
				opts = append(opts, fmt.Sprintf("%d:%s", e.Option(), d))
			}
			sort.Strings(opts)
			optS = fmt.Sprintf("owner=%s ver=%d size=%d do=%v ttl=%08x opts=[%s]", o.Hdr.Name, o.Version(), o.UDPSize(), o.Do(), o.Hdr.Ttl, strings.Join(opts, " "))
		}
	}
	if nopt > 1 {
		optS = fmt.Sprintf("%d-opts ", nopt) + optS
	}
	return []string{"reply", hdr, strings.Join(qs, ","), vC05Section(m.Answer), vC05Section(m.Ns), vC05Section(m.Extra), optS}
}

func vC05Digests(parts []string) string {
	var nums []string
	for _, p := range parts {
		nums = append(nums, strconv.FormatUint(vC05Hash(p), 10))
	}
	return "[" + strings.Join(nums, ";") + "]%N"
}

// TTLs may legitimately differ by the second that passed between the two serves: a pure
// TTL difference of at most one second is retried on fresh servers by the caller.
func vC05OnlyTTLDrift(a, b []string) bool {
	if a[0] != b[0] || a[1] != b[1] || a[2] != b[2] || a[6] != b[6] {
		return false
	}
	for _, i := range []int{3, 4, 5} {
		la, lb := strings.Split(a[i], "\n"), strings.Split(b[i], "\n")
		if len(la) != len(lb) {
			return false
		}
		// compare with TTL removed, multiset-wise
		strip := func(ls []string) []string {
			var out []string
			for _, l := range ls {
				f := strings.Split(l, "|")
				if len(f) == 5 {
					f[3] = "*"
				}
				out = append(out, strings.Join(f, "|"))
			}
			sort.Strings(out)
			return out
		}
		sa, sb := strip(la), strip(lb)
		for k := range sa {
			if sa[k] != sb[k] {
				return false
			}
		}
		// every TTL within one second of its counterpart (same order after sort by non-TTL key is not
		// guaranteed for duplicates; be conservative: compare sorted TTL lists)
		ttls := func(ls []string) []int {
			var out []int
			for _, l := range ls {
				f := strings.Split(l, "|")
				if len(f) == 5 {
					n, _ := strconv.Atoi(f[3])
					out = append(out, n)
				}
			}
			sort.Ints(out)
			return out
		}
		ta, tb := ttls(la), ttls(lb)
		for k := range ta {
			d := ta[k] - tb[k]
			if d < -1 || d > 1 {
				return false
			}
		}
	}
	return true
}

// ---------------------------------------------------------------- packet generators

type vC05Gen struct {
	r       *rand.Rand
	ecsBias bool // the scenario forwards client subnet: send well-formed ECS options often
}

func (g *vC05Gen) pick(xs ...int) int { return xs[g.r.Intn(len(xs))] }
func vC05Put16(b []byte, v int) []byte { return append(b, byte(v>>8), byte(v)) }

func vC05WireName(name string, g *vC05Gen) []byte {
	var b []byte
	for _, l := range strings.Split(strings.TrimSuffix(name, "."), ".") {
		if l == "" {
			continue
		}
		b = append(b, byte(len(l)))
		for i := 0; i < len(l); i++ {
			c := l[i]
			if g != nil && c >= 'a' && c <= 'z' && g.r.Intn(6) == 0 {
				c -= 32 // 0x20 mixed case
			}
			b = append(b, c)
		}
	}
	return append(b, 0)
}

type vC05Query struct {
	prefix []byte // raw wire labels put in front of name
	name   string
	qtype  int
	qclass int
	flags  int
	opt    bool
	size   int
	do     bool
	ver    int
	ext    int
	zbits  int
	opts   [][]byte
	id     int
	tag    string
}

func (q *vC05Query) pack(g *vC05Gen) []byte {
	b := vC05Put16(nil, q.id)
	b = vC05Put16(b, q.flags)
	b = vC05Put16(b, 1)
	b = vC05Put16(b, 0)
	b = vC05Put16(b, 0)
	ar := 0
	if q.opt {
		ar = 1
	}
	b = vC05Put16(b, ar)
	b = append(b, q.prefix...)
	b = append(b, vC05WireName(q.name, g)...)
	b = vC05Put16(b, q.qtype)
	b = vC05Put16(b, q.qclass)
	if q.opt {
		b = append(b, 0)
		b = vC05Put16(b, 41)
		b = vC05Put16(b, q.size)
		fl := q.zbits
		if q.do {
			fl |= 0x8000
		}
		b = append(b, byte(q.ext), byte(q.ver))
		b = vC05Put16(b, fl)
		var rd []byte
		for _, o := range q.opts {
			rd = append(rd, o...)
		}
		b = vC05Put16(b, len(rd))
		b = append(b, rd...)
	}
	return b
}

func vC05Opt(code int, data []byte) []byte {
	b := vC05Put16(nil, code)
	b = vC05Put16(b, len(data))
	return append(b, data...)
}

var vC05Names = []string{
	"pos0", "pos1", "pos2", "mx0", "ca0", "ca1", "ca2", "ca3", "ca4", "cb0", "cc0", "cf0", "cf1", "sig0", "sig1", "sig2", "sc0", "sc1",
	"nx0", "nx1", "a.nx0", "a.nx1", "b.a.nx1", "nd0", "nd1", "ede0", "ede1", "big0", "big1", "sf0", "sf1", "a.sf0", "nxf0", "nxf1", "ref0", "hosts0", "hosts1", "zz0",
	"rr0", "rr1", "rr2", "rs0", "rs1", "rs2", "ra0", "ra2", "ralong0", "ralong1", "ralong2", "rb0", "rt0", "rt1", "rt2",
}

const vC05Secret = "6c6f6f6b61686172646c6f6f6b6168617264"

func (g *vC05Gen) query(ip net.IP) *vC05Query {
	q := &vC05Query{id: g.r.Intn(65536), qclass: 1, flags: 0x0100, size: 1232}
	var tags []string
	switch x := g.r.Intn(100); {
	case x < 90:
		q.name = vC05Names[g.r.Intn(len(vC05Names))] + "." + vC05Zone
	case x < 93:
		q.name = g.pickS("1.0.0.10.in-addr.arpa.", "5.1.168.192.in-addr.arpa.", "10.in-addr.arpa.", "1.0.16.172.in-addr.arpa.",
			"d.f.ip6.arpa.", "1.8.e.f.ip6.arpa.", "8.b.d.0.1.0.0.2.ip6.arpa.", "0.in-addr.arpa.", "7.254.169.in-addr.arpa.", "1.0.0.127.in-addr.arpa.",
			"200.2.0.192.in-addr.arpa.", "9.113.0.203.in-addr.arpa.", "arpa.", "in-addr.arpa.",
			"1.0.0.0.0.0.0.0.0.0.0.0.0.0.0.0.0.0.0.0.0.0.0.0.0.0.0.0.0.0.0.0.ip6.arpa.")
		tags = append(tags, "as112")
	case x < 95:
		q.name = g.pickS("version.bind.", "hostname.bind.", "id.server.")
		q.qclass = 3
		q.qtype = 16
		tags = append(tags, "chaos")
	case x < 97:
		q.name = "."
		tags = append(tags, "root")
	default:
		q.name = g.pickS("outside.example.", "zero.test.", "x.y.z.pos0.zero.test.")
	}
	if q.qtype == 0 {
		q.qtype = g.pick(1, 1, 1, 1, 1, 28, 28, 15, 16, 5, 46, 255, 43, 2, 6, 12, 65, 65000)
		if strings.HasSuffix(q.name, "arpa.") {
			q.qtype = g.pick(12, 12, 12, 6, 2, 1, 43, 255, 16)
		}
		if vC05IsRichName(q.name) && g.r.Intn(8) > 0 {
			q.qtype = vC05RichTypes[g.r.Intn(len(vC05RichTypes))]
		}
	}
	// name shapes: extra labels in front of any name - deep (label-count boundaries of the
	// byte-path name walkers), bytes that need escaping in presentation form, a 63-octet label,
	// a name filled up to the 255-octet limit
	if p := g.r.Intn(100); p < 12 || (strings.HasSuffix(q.name, "arpa.") && p < 45) {
		room := 255 - len(vC05WireName(q.name, nil))
		var pre []byte
		switch g.r.Intn(6) {
		case 0, 1:
			k := g.pick(1, 2, 5, 10, 20, 30, 32, 33, 34, 35, 36, 40, 64, 100, 120, 126)
			for i := 0; i < k && len(pre)+2 <= room; i++ {
				pre = append(pre, 1, byte('a'+g.r.Intn(26)))
			}
			tags = append(tags, fmt.Sprintf("deep+%d", len(pre)/2))
		case 2:
			pre = append(pre, 2, 'l', 'b', 7, '_', 'd', 'n', 's', '-', 's', 'd', 4, '_', 'u', 'd', 'p')
			tags = append(tags, "dns-sd")
		case 3:
			lab := []byte{byte(g.pick('.', '\\', ' ', '"', ';', '@', '$', '(', 0, 7, 127, 128, 255, 'A', 'Z')), 'x', byte(g.pick('.', '\\', 200, 'Q'))}
			pre = append(pre, byte(len(lab)))
			pre = append(pre, lab...)
			tags = append(tags, "odd-bytes")
		case 4:
			pre = append(pre, 63)
			for i := 0; i < 63; i++ {
				pre = append(pre, byte('a'+i%26))
			}
			tags = append(tags, "label63")
		default:
			for len(pre)+2 <= room {
				n := room - len(pre) - 1
				if n > 63 {
					n = 63
				}
				pre = append(pre, byte(n))
				for i := 0; i < n; i++ {
					pre = append(pre, byte('a'+g.r.Intn(26)))
				}
			}
			tags = append(tags, "maxlen")
		}
		if len(pre) <= room {
			q.prefix = pre
		}
	}
	if g.r.Intn(25) == 0 {
		q.qclass = g.pick(3, 4, 255, 254, 0, 2, 1000)
		tags = append(tags, "class")
	}
	switch g.r.Intn(28) {
	case 0:
		q.flags = 0x0000
		tags = append(tags, "no-rd")
	case 1:
		q.flags = 0x0110
		tags = append(tags, "cd")
	case 2:
		q.flags = 0x0120
		tags = append(tags, "ad")
	case 3:
		q.flags = 0x0130
		tags = append(tags, "ad+cd")
	case 4:
		q.flags = 0x0100 | g.pick(0x0200, 0x0400, 0x0080, 0x0040, 0x0001, 0x000F)
		tags = append(tags, "odd-flag")
	case 5:
		if g.r.Intn(3) == 0 {
			q.flags = 0x0100 | g.pick(4, 1, 2, 5, 15)<<11
			tags = append(tags, "opcode")
		}
	}
	if g.r.Intn(100) < 70 {
		q.opt = true
		q.size = g.pick(1232, 1232, 4096, 512, 0, 100, 65535, 1500, 600)
		q.do = g.r.Intn(3) == 0
		if q.do {
			tags = append(tags, "do")
		}
		if g.r.Intn(25) == 0 {
			q.ver = g.pick(1, 2, 255)
			tags = append(tags, "version")
		}
		if g.r.Intn(40) == 0 {
			q.ext = g.pick(1, 255)
			tags = append(tags, "ext-rcode")
		}
		if g.r.Intn(20) == 0 {
			q.zbits = g.pick(0x4000, 0x0001, 0x7FFF)
			tags = append(tags, "z-bits")
		}
		// a client-subnet option is what a stub sends whatever the server is configured to do: often under an ECS
		// policy, now and then without one (the option is then stripped and the query shares the plain key - but
		// neither path may answer it from the shared denial rungs)
		if p := g.r.Intn(100); (g.ecsBias && p < 35) || p < 7 {
			fam, mask, addr := 1, g.pick(24, 24, 32, 16, 8, 0), []byte{192, 0, 2, 77}
			if g.r.Intn(4) == 0 {
				fam, mask, addr = 2, g.pick(56, 48, 64, 128, 32), []byte{0x20, 0x01, 0x0d, 0xb8, 0, 1, 2, 3, 4, 5, 6, 7, 8, 9, 10, 11}
			}
			if g.r.Intn(3) == 0 {
				addr[1] ^= byte(1 + g.r.Intn(3)) // another subnet
			}
			d := vC05Put16(nil, fam)
			d = append(d, byte(mask), byte(g.pick(0, 0, 0, 8)))
			d = append(d, addr[:(mask+7)/8]...)
			q.opts = append(q.opts, vC05Opt(8, d))
			tags = append(tags, "ecs-ok")
		}
		for i, n := 0, g.pick(0, 0, 0, 1, 1, 2, 3); i < n; i++ {
			switch y := g.r.Intn(100); {
			case y < 40:
				client := []byte{1, 2, 3, 4, 5, 6, 7, byte(g.pick(8, 9))}
				var data []byte
				switch g.r.Intn(8) {
				case 0, 1, 2:
					data = client
				case 3, 4:
					// echo the server cookie this server hands out for this client cookie and address
					data = client
					if ip != nil {
						full := dnsutil.GenerateServerCookie(vC05Secret, ip.String(), hex.EncodeToString(client))
						if e, err := hex.DecodeString(full); err == nil {
							data = e
						}
					}
				case 5:
					data = append(append([]byte{}, client...), make([]byte, g.pick(8, 16, 32))...)
				case 6:
					data = client[:g.pick(0, 4, 7)]
				default:
					data = append(append([]byte{}, client...), make([]byte, 33)...)
				}
				q.opts = append(q.opts, vC05Opt(10, data))
				tags = append(tags, "cookie")
			case y < 55:
				q.opts = append(q.opts, vC05Opt(3, nil))
				tags = append(tags, "nsid")
			case y < 70:
				fam := g.pick(1, 1, 2, 0, 3)
				mask := g.pick(24, 24, 32, 33, 0, 56)
				if fam == 0 {
					mask = g.pick(0, 0, 8)
				}
				d := vC05Put16(nil, fam)
				d = append(d, byte(mask), 0)
				d = append(d, []byte{192, 0, 2, 0}[:g.pick(3, 4, 4, 0)]...)
				q.opts = append(q.opts, vC05Opt(8, d))
				tags = append(tags, "ecs")
			case y < 80:
				q.opts = append(q.opts, vC05Opt(11, make([]byte, g.pick(0, 0, 2, 1))))
				tags = append(tags, "keepalive")
			case y < 88:
				q.opts = append(q.opts, vC05Opt(12, make([]byte, g.pick(0, 4, 31))))
				tags = append(tags, "padding")
			default:
				q.opts = append(q.opts, vC05Opt(g.pick(65001, 15, 9, 5, 14), make([]byte, g.pick(0, 2, 4))))
				tags = append(tags, "other-opt")
			}
		}
	}
	q.tag = strings.Join(tags, " ")
	return q
}

func (g *vC05Gen) pickS(xs ...string) string { return xs[g.r.Intn(len(xs))] }

// structurally damaged packets for the ingress phase (and a few for the diff phase)
func (g *vC05Gen) damage(b []byte) ([]byte, string) {
	b = append([]byte{}, b...)
	switch g.r.Intn(12) {
	case 0:
		return b[:g.r.Intn(len(b)+1)], "truncated"
	case 1:
		if len(b) > 12 {
			i := 12 + g.r.Intn(len(b)-12)
			b[i] ^= byte(1 << uint(g.r.Intn(8)))
		}
		return b, "bitflip"
	case 2:
		b[4+2*g.r.Intn(4)+1] = byte(g.pick(0, 1, 2, 3))
		return b, "count"
	case 3:
		return append(b, make([]byte, g.pick(1, 3, 11))...), "trailing"
	case 4:
		// compressed question name pointing at a name placed after the question
		nb := append([]byte{}, b[:12]...)
		nb = append(nb, 0xC0, byte(12+2+4))
		nb = append(nb, 0, 1, 0, 1)
		nb = append(nb, 3, 'p', 'o', 's', 4, 'z', 'e', 'r', 'o', 4, 't', 'e', 's', 't', 0)
		nb[10], nb[11] = 0, 0
		return nb, "pointer-name"
	case 5:
		b[2] |= 0x80
		return b, "qr"
	case 6:
		b[2] = (b[2] &^ 0x78) | byte(g.pick(1, 2, 4, 5, 15)<<3)
		return b, "opcode"
	case 7:
		nb := append([]byte{}, b[:12]...)
		nb = append(nb, 0xC0, 12, 0, 1, 0, 1)
		nb[10], nb[11] = 0, 0
		return nb, "pointer-loop"
	case 8:
		// two questions
		nb := append([]byte{}, b[:12]...)
		nb[5] = 2
		nb[10], nb[11] = 0, 0
		nb = append(nb, 1, 'a', 0, 0, 1, 0, 1, 1, 'b', 0, 0, 1, 0, 1)
		return nb, "two-questions"
	case 9:
		nb := append([]byte{}, b[:12]...)
		nb[5] = 0
		nb[10], nb[11] = 0, 0
		return nb, "header-only"
	case 10:
		if len(b) > 13 {
			b[12] = byte(g.pick(0x40, 0x80, 0xBF, 63))
		}
		return b, "label-type"
	default:
		return b[:g.pick(0, 5, 11, 12)%(len(b)+1)], "short"
	}
}

// ---------------------------------------------------------------- ingress phase

const (
	vC05VDrop = iota
	vC05VNotImpHdr
	vC05VFormErrHdr
	vC05VFormErrBody
	vC05VFormErrQd
	vC05VNotImpOpcode
	vC05VBadVers
	vC05VProceed
	vC05VOther
)

var vC05VName = []string{"VDrop", "VNotImpHdr", "VFormErrHdr", "VFormErrBody", "VFormErrQd", "VNotImpOpcode", "VBadVers", "VProceed", "VOther"}

func vC05Bytes(b []byte) string {
	if len(b) == 0 {
		return "[]"
	}
	var sb strings.Builder
	sb.WriteByte('[')
	for i, x := range b {
		if i > 0 {
			sb.WriteByte(';')
		}
		sb.WriteString(strconv.Itoa(int(x)))
	}
	sb.WriteString("]%N")
	return sb.String()
}

// classify what the minimal pipeline did: FORMERR / NOTIMP / BADVERS are decided in front of the stub
func vC05Classify(handled bool, wrote bool, reply []byte) int {
	if !handled {
		return vC05VFormErrBody
	}
	if !wrote {
		return vC05VOther
	}
	m := new(dns.Msg)
	if m.Unpack(reply) != nil {
		return vC05VOther
	}
	switch {
	case m.Rcode == dns.RcodeFormatError:
		return vC05VFormErrQd
	case m.Rcode == dns.RcodeNotImplemented:
		return vC05VNotImpOpcode
	case m.Rcode == dns.RcodeBadVers:
		return vC05VBadVers
	}
	// any other reply is the stub's (whatever RA it relays: some scripted names answer like a non-recursive
	// upstream behind a forwarder): the packet was handed on
	return vC05VProceed
}

// the strict ingress phase serves every packet through ONE job slot (reused like an engine slab)
var vC05IngressJob = &vC05StrictJob{}
var vC05IngressCount int

func vC05Ingress(s *Server, raw []byte, strict bool) (int, []byte, bool) {
	header, ok := wire.ParseHeader(raw)
	if !ok {
		return vC05VDrop, nil, false
	}
	switch acceptHeader(header) {
	case acceptIgnore:
		return vC05VDrop, nil, false
	case acceptNotImplemented:
		return vC05VNotImpHdr, nil, false
	case acceptFormatError:
		return vC05VFormErrHdr, nil, false
	}
	ip := net.IPv4(203, 0, 113, 9)
	if strict {
		job := vC05IngressJob
		vC05IngressCount++
		job.rearm(ip, vC05IngressCount%3 != 0)
		handled := s.ServeRaw(job, raw, time.Now())
		out := append([]byte(nil), job.wrote...)
		return vC05Classify(handled, job.writes > 0, out), out, job.writes > 0
	}
	m := new(dns.Msg)
	if err := m.Unpack(raw); err != nil {
		return vC05VFormErrBody, nil, false
	}
	job := &vC05PlainJob{ip: ip}
	s.ServeMsg(context.Background(), job, m)
	return vC05Classify(true, job.writes > 0, job.wrote), job.wrote, job.writes > 0
}

// ---------------------------------------------------------------- the test

func vC05EnvInt(name string, def int) int {
	if s := os.Getenv(name); s != "" {
		if n, err := strconv.Atoi(s); err == nil {
			return n
		}
	}
	return def
}

// the raw reply of the last decoded-path serve (viaMsg), for CaseChase
var vC05LastMsgReply []byte

type vC05Step struct {
	raw   []byte
	tag   string
	ip    net.IP
	probe bool
	ctl   string        // "" = a packet; "shift" = advance the virtual clock by d; "epoch" = the zone's validation status flips
	d     time.Duration
}

type vC05StepObs struct {
	w, m       []string // abstract replies
	wLog, mLog string   // what the stub saw during this step
	route      string   // which byte-path outcome counters moved on the wire-path server (coverage only)
	unsettled  bool     // a background refresh did not finish in time: the rest of the history is not comparable
	// alias composition (CaseChase): the chain views taken right before the packet on each server, whether
	// the decoded-path server's view was the same right after it, and the raw replies
	chW, chM   *cache.VC05Chase
	chMStable  bool
	rawW, rawM []byte
	// admission-time verdict (CaseVerdict): the exact entry's view right before the packet on each server and,
	// on the decoded-path server, right after it
	vdW, vdM, vdMPost *cache.VC05Verdict
}

func (vs *vC05Server) cache() *cache.Cache {
	if vs.s == nil || vs.s.pipeline == nil {
		return nil
	}
	c, _ := vs.s.pipeline.Get("cache").(*cache.Cache)
	return c
}

// the client's DO bit as both paths read it
func vC05ClientDO(raw []byte) bool {
	m := new(dns.Msg)
	if err := m.Unpack(raw); err != nil {
		return false
	}
	if o := m.IsEdns0(); o != nil {
		return o.Do()
	}
	return false
}

// vC05ReachesCache: the decoded reply is the CACHE's reply only for a packet the handlers in front of the
// cache hand on - the edns handler answers an OPT version other than 0 itself (BADVERS, no sections), on
// both paths; such a reply says nothing about the chase / the serving verdict (it is compared as CaseDiff)
func vC05ReachesCache(raw []byte) bool {
	m := new(dns.Msg)
	if err := m.Unpack(raw); err != nil {
		return false
	}
	if o := m.IsEdns0(); o != nil && o.Version() != 0 {
		return false
	}
	return true
}

// vC05ChaseCase renders one CaseChase term (names numbered per folded name) or "" when nothing was viewed.
func vC05ChaseCase(st vC05Step, ob vC05StepObs) (string, map[string]any) {
	if ob.chW == nil && ob.chM == nil {
		return "", nil
	}
	ids := map[string]int{}
	id := func(n string) int {
		if n == "" {
			return 0
		}
		if v, ok := ids[n]; ok {
			return v
		}
		ids[n] = len(ids) + 1
		return ids[n]
	}
	bs := map[bool]string{true: "true", false: "false"}
	recs := func(rs []cache.VC05Rec) string {
		if len(rs) == 0 {
			return "[]"
		}
		var p []string
		for _, r := range rs {
			p = append(p, fmt.Sprintf("mk_rrec N %d %d %d %d", r.Type, id(r.Target), r.Rest, r.TTL))
		}
		return "[" + strings.Join(p, "; ") + "]"
	}
	dummies := func(n int) string {
		if n == 0 {
			return "[]"
		}
		return "[" + strings.Join(strings.Split(strings.Repeat("mk_rrec N 0 0 0 0,", n), ",")[:n], "; ") + "]"
	}
	entryFull := func(h cache.VC05Hop) string {
		return fmt.Sprintf("(mk_centry N %d %s %s %s %d %s %s %d %s %s %s)", id(h.StoredName), recs(h.FullRecs), dummies(h.FullNS), dummies(h.FullExtra),
			h.FullRcode, bs[h.FullAD], bs[h.Live], h.TTL, bs[h.WireOK], bs[h.Recomposable], bs[h.Due])
	}
	entry := func(h cache.VC05Hop) string {
		return fmt.Sprintf("(mk_centry N %d %s %s %s %d %s %s %d %s %s %s)", id(h.StoredName), recs(h.Recs), dummies(h.NS), dummies(h.Extra),
			h.Rcode, bs[h.AD], bs[h.Live], h.TTL, bs[h.WireOK], bs[h.Recomposable], bs[h.Due])
	}
	view := func(v *cache.VC05Chase, full bool) string {
		if v == nil || len(v.Hops) == 0 {
			return "None"
		}
		ent := entry
		if full {
			ent = entryFull
		}
		var rest []string
		for _, h := range v.Hops[1:] {
			rest = append(rest, fmt.Sprintf("(%d%%N, %s)", id(h.Asked), ent(h)))
		}
		rs := "[]"
		if len(rest) > 0 {
			rs = "[" + strings.Join(rest, "; ") + "]"
		}
		return fmt.Sprintf("(Some (%s, %s))", ent(v.Hops[0]), rs)
	}
	answers := func(raw []byte) ([]cache.VC05Rec, int, bool, bool) {
		m := new(dns.Msg)
		if len(raw) == 0 || m.Unpack(raw) != nil {
			return nil, 0, false, false
		}
		var out []cache.VC05Rec
		for _, rr := range m.Answer {
			out = append(out, cache.VC05RecOf(rr))
		}
		return out, m.Rcode, m.Truncated, true
	}
	var ref *cache.VC05Chase
	if ob.chW != nil {
		ref = ob.chW
	} else {
		ref = ob.chM
	}
	qname := id(ref.Hops[0].Asked)
	wview, segs, comp, wrep := "None", "None", "None", "None"
	if ob.chW != nil && ob.chW.Stable {
		wview = view(ob.chW, false)
		if ob.chW.CodeOK {
			// the folded stored names of the segments the code filled, in order
			var ns []string
			for _, n := range ob.chW.CodeSegs {
				ns = append(ns, strconv.Itoa(id(n)))
			}
			segs = "(Some [" + strings.Join(ns, ";") + "]%N)"
			if ob.chW.CompOK {
				comp = fmt.Sprintf("(Some (%s, %s))", recs(ob.chW.Composed), bs[ob.chW.CompAD])
			}
			if strings.Contains(ob.route, "chase_served") {
				if a, _, tc, ok := answers(ob.rawW); ok && !tc {
					wrep = "(Some " + recs(a) + ")"
				}
			}
		}
	}
	mview, mrep := "None", "None"
	if ob.chM != nil && ob.chM.Stable && ob.chMStable {
		mview = view(ob.chM, true)
		// the edns writer removes DNSSEC records for a client without DO after the chase: such a reply is
		// comparable with the chase's own output only when no hop carries any
		strippedLater := false
		if !vC05ClientDO(st.raw) {
			for _, h := range ob.chM.Hops {
				strippedLater = strippedLater || h.FullDNSSEC
			}
		}
		if a, rc, tc, ok := answers(ob.rawM); ok && !tc && !strippedLater && vC05ReachesCache(st.raw) {
			mrep = fmt.Sprintf("(Some (%d%%N, %s))", rc, recs(a))
		}
	}
	names := make([]string, len(ids))
	for n, i := range ids {
		names[i-1] = n
	}
	desc := map[string]any{"names": names, "route": ob.route, "tags": st.tag, "code_ok": ob.chW != nil && ob.chW.CodeOK, "raw": hex.EncodeToString(st.raw)}
	if ob.chW != nil {
		desc["wire_hops"] = len(ob.chW.Hops)
		desc["code_segs"] = ob.chW.CodeSegs
	}
	return fmt.Sprintf("CaseChase %d %s %d %s %s %s %s %s %s", ref.Qtype, bs[ref.CD], qname, wview, segs, comp, wrep, mview, mrep), desc
}

// vC05VerdictCase renders one CaseVerdict term, or "" when the wire-path server held no exact entry.  key is
// what makes two cases the same for the per-run de-duplication; withBytes adds the stored packed body.
func vC05VerdictCase(st vC05Step, ob vC05StepObs, withBytes bool) (string, string, map[string]any) {
	v := ob.vdW
	if v == nil || !v.Live {
		return "", "", nil
	}
	nrec := len(v.Full.An) + len(v.Full.Ns) + len(v.Full.Ar)
	if nrec > 16 {
		return "", "", nil // oversized answers: the text would cost more than the case tells
	}
	ids := map[string]int{}
	id := func(n string) int {
		if n == "" {
			return 0
		}
		if x, ok := ids[n]; ok {
			return x
		}
		ids[n] = len(ids) + 1
		return ids[n]
	}
	qname := id(v.Name)
	bs := map[bool]string{true: "true", false: "false"}
	recs := func(rs []cache.VC05Rec) string {
		if len(rs) == 0 {
			return "[]"
		}
		var p []string
		for _, r := range rs {
			p = append(p, fmt.Sprintf("mk_rrec N %d %d %d 0", r.Type, id(r.Target), r.Rest))
		}
		return "[" + strings.Join(p, "; ") + "]"
	}
	body := func(b cache.VC05Body) string {
		return fmt.Sprintf("(mk_vbody N %d %s %s %s %s)", b.Rcode, bs[b.AD], recs(b.An), recs(b.Ns), recs(b.Ar))
	}
	flags := func(f cache.VC05Flags) string {
		return fmt.Sprintf("(mk_vflags %s %s %s)", bs[f.Eligible], bs[f.DNSSEC], bs[f.ChaseSafe])
	}
	stripped := "None"
	if v.HasStripped {
		stripped = fmt.Sprintf("(Some (%s, %s))", body(v.Stripped), flags(v.StrippedFlags))
	}
	reply := func(raw []byte) string {
		m := new(dns.Msg)
		if len(raw) == 0 || m.Unpack(raw) != nil || m.Truncated {
			return "None"
		}
		b := cache.VC05Body{Rcode: m.Rcode, AD: m.AuthenticatedData}
		for i, sec := range [][]dns.RR{m.Answer, m.Ns, m.Extra} {
			for _, rr := range sec {
				if rr.Header().Rrtype == dns.TypeOPT {
					continue
				}
				r := cache.VC05RecOf(rr)
				switch i {
				case 0:
					b.An = append(b.An, r)
				case 1:
					b.Ns = append(b.Ns, r)
				default:
					b.Ar = append(b.Ar, r)
				}
			}
		}
		return "(Some " + body(b) + ")"
	}
	do := vC05ClientDO(st.raw)
	served := ob.route == "served"
	wrep := "None"
	if served {
		wrep = reply(ob.rawW)
	}
	// the decoded-path server's reply is comparable when it held the same entry before and after the packet
	mrep := "None"
	if ob.vdM != nil && ob.vdMPost != nil && ob.vdM.Live && ob.vdMPost.Live && reflect.DeepEqual(ob.vdM.Full, v.Full) &&
		reflect.DeepEqual(ob.vdM.Full, ob.vdMPost.Full) && ob.vdM.FullFlags == v.FullFlags && vC05ReachesCache(st.raw) {
		mrep = reply(ob.rawM)
	}
	bytesS := "[]"
	if withBytes {
		bytesS = vC05Bytes(v.Wire)
	}
	term := fmt.Sprintf("CaseVerdict %d %s %s %d %s %s %s %d %s %s %s %s %s %s", v.Qtype, bs[do], bs[v.CD], qname, body(v.Full), flags(v.FullFlags), stripped,
		v.Choice, flags(v.ChoiceFlags), bs[v.InfoDNSSEC], bytesS, bs[served], wrep, mrep)
	key := fmt.Sprintf("%s/%d do=%v cd=%v %s choice=%d served=%v w=%v m=%v %d", v.Name, v.Qtype, do, v.CD, flags(v.FullFlags), v.Choice, served, wrep != "None", mrep != "None", vC05Hash(body(v.Full)))
	desc := map[string]any{"name": v.Name, "qtype": v.Qtype, "do": do, "route": ob.route, "tags": st.tag, "choice": v.Choice, "raw": hex.EncodeToString(st.raw),
		"flags": flags(v.FullFlags), "stripped": v.HasStripped, "wire_reply": wrep != "None", "msg_reply": mrep != "None"}
	return term, key, desc
}

// the cache's byte-path outcome counters, read from the default registry (coverage only)
func vC05WireOutcomes() map[string]float64 {
	metric.FlushAll()
	out := map[string]float64{}
	families, err := prometheus.DefaultGatherer.Gather()
	if err != nil {
		return out
	}
	for _, f := range families {
		if f.GetName() != "dns_cache_wire_fastpath_total" {
			continue
		}
		for _, m := range f.GetMetric() {
			for _, l := range m.GetLabel() {
				if l.GetName() == "outcome" {
					out[l.GetValue()] = m.GetCounter().GetValue()
				}
			}
		}
	}
	return out
}

// run one scenario on two fresh servers; returns per-step observations.  The whole history
// runs on the wire-path server first and on the decoded-path server afterwards: the cache's
// per-entry limiters live in a process-global pool keyed by (rate, key), so two servers in one
// process would otherwise draw from the same buckets; the pause lets the buckets refill.
func vC05RunScenario(t vC05Toggles, hostsPath string, steps []vC05Step) []vC05StepObs {
	out := make([]vC05StepObs, len(steps))
	engine := func(st vC05Step) bool {
		header, ok := wire.ParseHeader(st.raw)
		return !ok || acceptHeader(header) != acceptOK
	}
	viaMsg := func(vs *vC05Server, st vC05Step) []string {
		job := &vC05PlainJob{ip: st.ip, tcp: t.tcp}
		m := new(dns.Msg)
		if err := m.Unpack(st.raw); err != nil {
			return []string{"engine-formerr", "", "", "", "", "", ""}
		}
		vs.s.ServeMsg(context.Background(), job, m)
		vC05LastMsgReply = nil
		if job.writes == 1 {
			vC05LastMsgReply = append([]byte(nil), job.wrote...)
		}
		a := vC05Abstract(job.wrote, job.writes > 0)
		if job.writes > 1 {
			a[0] = fmt.Sprintf("reply-x%d", job.writes)
		}
		return a
	}
	// --- wire side
	cache.VC05FreshEntryLimiters() // both servers of a scenario start from full per-entry buckets
	sw := vC05NewServer(t, hostsPath)
	// one transport job slot for the whole history, as the engines reuse a slab: strict-path storage
	// and TX lease carry over from packet to packet (poisoned with 0xFF two times out of three, holding
	// the previous reply otherwise)
	wjob := &vC05StrictJob{tcp: t.tcp}
	ctl := func(vs *vC05Server, st vC05Step) bool {
		switch st.ctl {
		case "shift":
			vs.shift(st.d)
		case "epoch":
			vs.epoch++
		default:
			return false
		}
		return true
	}
	for i, st := range steps {
		if ctl(sw, st) {
			out[i].w = []string{"ctl", "", "", "", "", "", ""}
			continue
		}
		if engine(st) {
			out[i].w = []string{"engine", "", "", "", "", "", ""}
			continue
		}
		sw.resetLog()
		if st.probe {
			// probes compare state: same (decoded) path on both servers
			out[i].w = viaMsg(sw, st)
		} else {
			before := vC05WireOutcomes()
			now := time.Now()
			chase := t.clientRate == 0 && t.entryRate == 0
			if chase {
				out[i].chW = cache.VC05ChaseView(sw.cache(), st.raw, vC05ClientDO(st.raw))
				out[i].vdW = cache.VC05VerdictView(sw.cache(), st.raw, vC05ClientDO(st.raw))
			}
			job := wjob
			job.rearm(st.ip, i%3 != 0)
			handled := true
			if t.inline && sw.s.InlineReady() {
				done := sw.s.ServeRawInline(job, st.raw, now)
				if job.writes == 0 && !done {
					handled = sw.s.ServeRawReplay(job, st.raw, now)
				}
			} else {
				handled = sw.s.ServeRaw(job, st.raw, now)
			}
			if !handled {
				out[i].w = []string{"engine-formerr", "", "", "", "", "", ""}
			} else {
				out[i].w = vC05Abstract(job.wrote, job.writes > 0)
				if job.writes > 1 {
					out[i].w[0] = fmt.Sprintf("reply-x%d", job.writes)
				}
				if job.writes == 1 {
					out[i].rawW = append([]byte(nil), job.wrote...)
				}
			}
			var moved []string
			for k, v := range vC05WireOutcomes() {
				if v != before[k] {
					moved = append(moved, k)
				}
			}
			sort.Strings(moved)
			out[i].route = strings.Join(moved, "+")
			if out[i].route == "" {
				out[i].route = "decoded"
			}
		}
		if t.prefetch && !sw.settle() {
			out[i].unsettled = true
		}
		out[i].wLog = sw.takeLog()
	}
	sw.stop()
	// the per-entry limiters are a process-global pool: the decoded-path server starts from full buckets like the
	// wire-path server did (fresh pools instead of a one-second refill pause)
	cache.VC05FreshEntryLimiters()
	// --- message side
	sm := vC05NewServer(t, hostsPath)
	for i, st := range steps {
		if ctl(sm, st) || engine(st) {
			out[i].m = out[i].w
			continue
		}
		sm.resetLog()
		chaseM := !st.probe && t.clientRate == 0 && t.entryRate == 0
		if chaseM {
			out[i].chM = cache.VC05ChaseView(sm.cache(), st.raw, vC05ClientDO(st.raw))
			out[i].vdM = cache.VC05VerdictView(sm.cache(), st.raw, vC05ClientDO(st.raw))
		}
		out[i].m = viaMsg(sm, st)
		if out[i].vdM != nil {
			out[i].vdMPost = cache.VC05VerdictView(sm.cache(), st.raw, vC05ClientDO(st.raw))
			out[i].rawM = vC05LastMsgReply
		}
		if out[i].chM != nil {
			post := cache.VC05ChaseView(sm.cache(), st.raw, vC05ClientDO(st.raw))
			out[i].chMStable = post != nil && reflect.DeepEqual(out[i].chM.Hops, post.Hops)
			out[i].rawM = vC05LastMsgReply
		}
		if t.prefetch && !sm.settle() {
			out[i].unsettled = true
		}
		out[i].mLog = sm.takeLog()
	}
	sm.stop()
	return out
}

// vC05HopRefreshOnly NAMES a hand-off difference as the class of the fixed finding chase-hop-prefetch
// (/repo cad4531; it never accepts one - the case stays a plain failure): the byte path composed an alias chain from cached hops (outcome counter
// chase_served), the refresh queue is configured, the two client-visible replies are equal, and the
// only thing the decoded-path server's resolver saw beyond the wire-path server's is background
// (non-client) traffic for the client's qtype/qclass at a name other than the one asked - the refresh
// of a hop.  Anything else (a client query reaching resolution on one side only, a refresh on the wire
// side only, another type, the queried name itself) stays a plain failure.
func vC05HopRefreshOnly(tg vC05Toggles, st vC05Step, ob vC05StepObs) bool {
	if !tg.prefetch || st.probe || !strings.Contains(ob.route, "chase_served") || ob.wLog == ob.mLog {
		return false
	}
	for k := range ob.w {
		if ob.w[k] != ob.m[k] {
			return false
		}
	}
	q := new(dns.Msg)
	if err := q.Unpack(st.raw); err != nil || len(q.Question) != 1 {
		return false
	}
	lines := func(l string) []string {
		if l == "" {
			return nil
		}
		return strings.Split(l, "\n")
	}
	wl, ml := lines(ob.wLog), lines(ob.mLog)
	extra := 0
	for _, l := range ml {
		if len(wl) > 0 && wl[0] == l {
			wl = wl[1:]
			continue
		}
		// an extra line on the decoded side: must be a background query for a hop
		isBg := strings.HasPrefix(l, "bg ")
		l = strings.TrimPrefix(l, "bg ")
		f := strings.SplitN(l, " ", 2)
		qf := strings.Split(f[0], "/")
		if !isBg || strings.HasSuffix(l, " client") || len(qf) != 3 ||
			qf[1] != strconv.Itoa(int(q.Question[0].Qtype)) || qf[2] != strconv.Itoa(int(q.Question[0].Qclass)) ||
			strings.EqualFold(qf[0], q.Question[0].Name) {
			return false
		}
		extra++
	}
	return len(wl) == 0 && extra > 0
}

// vC05AliasCaseLoop NAMES a difference as the class of the fixed finding alias-target-case (/repo a4faf69;
// it never accepts one - the case stays a plain failure):
// the byte path served a stored answer (NOERROR) that holds an alias record whose target is, letter for
// letter, the name as THIS client spelled it, the decoded path answered SERVFAIL with empty sections for
// the same packet (additionalAnswer's exact-spelling self-alias test), nothing else in the headers differs
// and the resolver saw the same on both sides.
func vC05AliasCaseLoop(ob vC05StepObs) bool {
	if ob.w[0] != "reply" || ob.m[0] != "reply" || ob.wLog != ob.mLog || ob.w[2] != ob.m[2] {
		return false
	}
	if strings.Replace(ob.w[1], "rcode=0", "rcode=2", 1) != ob.m[1] || !strings.HasSuffix(ob.w[1], "rcode=0") || ob.m[3] != "" || ob.m[4] != "" {
		return false
	}
	qn := strings.SplitN(ob.w[2], "/", 2)[0]
	for _, l := range strings.Split(ob.w[3], "\n") {
		f := strings.Split(l, "|")
		if len(f) != 5 || f[1] != "5" {
			continue
		}
		raw, err := hex.DecodeString(f[4])
		if err != nil {
			continue
		}
		if name, _, err := dns.UnpackDomainName(raw, 0); err == nil && name == qn {
			return true
		}
	}
	return false
}

func vC05Differs(obs []vC05StepObs) (int, bool) {
	for i, ob := range obs {
		if vC05CaseOnly(ob.w, ob.m) && ob.wLog == ob.mLog {
			continue
		}
		for k := range ob.w {
			if ob.w[k] != ob.m[k] {
				return i, vC05OnlyTTLDrift(ob.w, ob.m) && ob.wLog == ob.mLog
			}
		}
		if ob.wLog != ob.mLog {
			return i, false
		}
	}
	return -1, false
}

func TestVerifC05Differential(t *testing.T) {
	path := os.Getenv("VERIF_OUT")
	if path == "" {
		t.Skip("VERIF_OUT not set")
	}
	f, err := os.Create(path)
	if err != nil {
		t.Fatal(err)
	}
	defer f.Close()
	seed := vC05EnvInt("VERIF_SEED", 0)
	n := vC05EnvInt("VERIF_N", 1200)
	scratch := os.Getenv("VERIF_SCRATCH")
	if scratch == "" {
		scratch = t.TempDir()
	}
	hostsPath := scratch + "/c05-hosts"
	_ = os.WriteFile(hostsPath, []byte("192.0.2.200 hosts0.zero.test\n2001:db8::200 hosts0.zero.test\n192.0.2.201 hosts1.zero.test alias1.zero.test\n"), 0o644)
	g := &vC05Gen{r: rand.New(rand.NewSource(int64(seed)*104729 + 5))}
	emit := func(rec map[string]any) {
		b, _ := json.Marshal(rec)
		f.Write(append(b, '\n'))
	}

	emitKnown := func(st vC05Step, scen, i int, tg vC05Toggles, ob vC05StepObs, why string) {
		if len(why) > 1200 {
			why = why[:1200] + "…"
		}
		wd := append(append([]string{}, ob.w...), ob.wLog)
		md := append(append([]string{}, ob.m...), ob.mLog)
		emit(map[string]any{
			"k":   "diff/rdata-name-case",
			"coq": fmt.Sprintf("CaseDiff %s %s", vC05Digests(wd), vC05Digests(md)),
			"desc": map[string]any{"raw": hex.EncodeToString(st.raw), "tags": st.tag, "scenario": scen, "step": i, "toggles": tg.String(),
				"wire": strings.Join(ob.w, " ; "), "msg": strings.Join(ob.m, " ; ")},
			"nontrivial": true,
			"go_fail":    "names inside RDATA follow the letter case of the client's question on the wire path: " + why,
			"fkey":       "rdata-name-case",
		})
	}

	// ------------------------------------------------ phase 0: header word of a served hit
	// wire.ApplyReply (+ ClearAD for CD) on a stored header, against the library's
	// Unpack + SetReply + the header steps of CacheEntry.ToMsg + Pack
	for c := 0; c < 80; c++ {
		stored := g.r.Intn(65536)
		if c%2 == 0 {
			stored = g.pick(0x8180, 0x81A0, 0x8580, 0x8183, 0x8182, 0x83A0, 0x81C0, 0x0000, 0xFFFF) ^ (g.r.Intn(2) << uint(g.r.Intn(16)))
		}
		opcode := 0
		if c%5 == 4 {
			opcode = g.pick(1, 2, 4, 5, 15)
		}
		rd, cd := g.r.Intn(2) == 0, g.r.Intn(2) == 0
		id := g.r.Intn(65536)
		hdr := make([]byte, 12)
		hdr[2], hdr[3] = byte(stored>>8), byte(stored)
		wb := append([]byte{}, hdr...)
		wire.ApplyReply(wb, uint16(id), opcode, rd, cd)
		if cd && stored&0x20 != 0 {
			wire.ClearAD(wb)
		}
		wf := int(wb[2])<<8 | int(wb[3])
		goFail := ""
		mf := -1
		resp := new(dns.Msg)
		if err := resp.Unpack(hdr); err != nil {
			goFail = "library refuses a bare header: " + err.Error()
		} else {
			req := new(dns.Msg)
			req.Id, req.Opcode, req.RecursionDesired, req.CheckingDisabled = uint16(id), opcode, rd, cd
			rc := resp.Rcode
			resp.SetReply(req)
			resp.Rcode = rc
			resp.Id = req.Id
			resp.Authoritative = false
			if req.CheckingDisabled {
				resp.AuthenticatedData = false
			}
			out, err := resp.Pack()
			if err != nil || len(out) < 12 {
				goFail = "library cannot pack the reply header"
			} else {
				mf = int(out[2])<<8 | int(out[3])
				if int(out[0])<<8|int(out[1]) != int(wb[0])<<8|int(wb[1]) {
					goFail = "reply ids differ"
				}
			}
		}
		if goFail == "" && opcode == 0 && wf != mf {
			goFail = fmt.Sprintf("header words differ: bytes %#04x message %#04x", wf, mf)
		}
		bs := map[bool]string{true: "true", false: "false"}
		emit(map[string]any{
			"k":          "reply-header",
			"coq":        fmt.Sprintf("CaseReplyHdr %d %d %s %s %d %d", stored, opcode, bs[rd], bs[cd], wf, mf&0xFFFF),
			"desc":       map[string]any{"stored": stored, "opcode": opcode, "rd": rd, "cd": cd, "wire": wf, "msg": mf},
			"nontrivial": true,
			"go_fail":    goFail,
		})
	}

	// ------------------------------------------------ phase 1: ingress verdicts
	nIngress := n / 7 // ~600 ingress cases in a quick run: eight verdict kinds, dominated by VProceed
	{
		ws := vC05NewServer(vC05Toggles{minimalPipe: true}, hostsPath)
		ms := vC05NewServer(vC05Toggles{minimalPipe: true}, hostsPath)
		for c := 0; c < nIngress; c++ {
			q := g.query(net.IPv4(203, 0, 113, 9))
			raw := q.pack(g)
			tag := q.tag
			if g.r.Intn(3) == 0 {
				var dt string
				raw, dt = g.damage(raw)
				tag += " " + dt
			}
			vw, rw, ww := vC05Ingress(ws.s, raw, true)
			vm, rm, wm := vC05Ingress(ms.s, raw, false)
			goFail := ""
			if vw != vm {
				goFail = fmt.Sprintf("strict ingress verdict %s, decoded ingress verdict %s", vC05VName[vw], vC05VName[vm])
			} else if vw == vC05VOther {
				goFail = "unclassified outcome on the minimal pipeline"
			} else if ww != wm {
				goFail = "one ingress replied, the other did not"
			} else if ww {
				aw, am := vC05Abstract(rw, true), vC05Abstract(rm, true)
				for k := range aw {
					if aw[k] != am[k] {
						goFail = fmt.Sprintf("minimal pipeline replies differ in %s: wire{%s} msg{%s}", vC05Comp[k], aw[k], am[k])
						break
					}
				}
			}
			for _, side := range []struct {
				strict bool
				v      int
			}{{true, vw}, {false, vm}} {
				v := side.v
				if v == vC05VOther {
					v = vC05VProceed
				}
				emit(map[string]any{
					"k":          "ingress/" + vC05VName[side.v],
					"coq":        fmt.Sprintf("CaseIngress %s %s %s", vC05Bytes(raw), map[bool]string{true: "true", false: "false"}[side.strict], vC05VName[v]),
					"desc":       map[string]any{"raw": hex.EncodeToString(raw), "tags": tag, "strict": side.strict, "verdict": vC05VName[side.v]},
					"nontrivial": side.v != vC05VDrop,
					"go_fail":    goFail,
				})
			}
		}
		ws.stop()
		ms.stop()
	}

	// ------------------------------------------------ phase 2: two-server differential
	budget := n - n/4
	scen := 0
	// scripted histories first: the ladder orders and hand-overs the random histories reach rarely
	type sq struct {
		name  string
		qt    int
		flags int
		do    bool
		noopt bool
	}
	scripted := []struct {
		tg vC05Toggles
		qs []sq
	}{
		// a cached failure shadowed later by an aggressive denial proof covering the same name
		{vC05Toggles{}, []sq{{"nxf0", 1, 0x0100, false, false}, {"nxf0", 1, 0x0100, false, false}, {"nx1", 1, 0x0100, true, false}, {"nxf0", 1, 0x0100, false, false},
			{"nxf0", 1, 0x0100, true, false}, {"nxf1", 1, 0x0100, false, false}, {"nxf0", 1, 0x0110, false, false}, {"nxf0", 28, 0x0100, false, false}}},
		{vC05Toggles{rfc8198: 2}, []sq{{"nxf0", 1, 0x0100, false, false}, {"nx1", 1, 0x0100, true, false}, {"nxf0", 1, 0x0100, false, false}, {"nxf1", 1, 0x0100, false, false}}},
		{vC05Toggles{inline: true}, []sq{{"nxf0", 1, 0x0100, false, false}, {"nx1", 1, 0x0100, false, false}, {"nxf0", 1, 0x0100, false, false}, {"a.nx1", 1, 0x0100, false, false}, {"a.nxf0", 1, 0x0100, false, false}}},
		// subtree cut, then names below it, with and without DO / CD / OPT
		{vC05Toggles{}, []sq{{"nx1", 1, 0x0100, false, false}, {"a.nx1", 1, 0x0100, false, false}, {"b.a.nx1", 28, 0x0100, true, false}, {"a.nx1", 1, 0x0110, true, false}, {"a.nx1", 1, 0x0100, false, true}, {"c.nx1", 16, 0x0120, false, false}}},
		{vC05Toggles{tcp: true, nsid: true}, []sq{{"nx1", 1, 0x0100, true, false}, {"a.nx1", 1, 0x0100, true, false}, {"a.nx1", 1, 0x0100, false, false}}},
		// alias chains: partly cached, fully cached, ending in NXDOMAIN / SERVFAIL
		{vC05Toggles{}, []sq{{"ca0", 1, 0x0100, false, false}, {"ca0", 1, 0x0100, false, false}, {"cb0", 1, 0x0100, false, false}, {"cc0", 1, 0x0100, false, false}, {"pos0", 1, 0x0100, false, false}, {"ca0", 1, 0x0100, false, false}, {"ca0", 1, 0x0100, true, false}, {"ca0", 28, 0x0100, false, false}, {"ca0", 5, 0x0100, false, false}}},
		{vC05Toggles{inline: true}, []sq{{"ca2", 1, 0x0100, false, false}, {"ca2", 1, 0x0100, false, false}, {"nx0", 1, 0x0100, false, false}, {"ca2", 1, 0x0100, false, false}, {"ca3", 1, 0x0100, false, false}, {"ca3", 1, 0x0100, false, false}, {"sf0", 1, 0x0100, false, false}, {"ca3", 1, 0x0100, false, false}}},
		// signed entries: DO on/off, AD/CD combinations, forwarder-style AD with CD
		{vC05Toggles{}, []sq{{"sig0", 1, 0x0100, true, false}, {"sig0", 1, 0x0100, true, false}, {"sig0", 1, 0x0100, false, false}, {"sig0", 1, 0x0120, false, false}, {"sig0", 1, 0x0110, true, false}, {"sig0", 1, 0x0110, true, false}, {"sig0", 1, 0x0130, false, false}, {"sig0", 1, 0x0100, false, true}, {"sig0", 46, 0x0100, false, false}, {"sig0", 46, 0x0100, false, false}}},
		{vC05Toggles{tcp: true}, []sq{{"sig1", 1, 0x0110, true, false}, {"sig1", 1, 0x0110, true, false}, {"sig1", 1, 0x0130, false, false}, {"sig1", 1, 0x0130, true, false}, {"sc0", 1, 0x0100, true, false}, {"sc0", 1, 0x0100, true, false}, {"sc0", 1, 0x0100, false, false}}},
		// cached failures: question kind, zone kind, with upstream EDE, rfc9520 off
		{vC05Toggles{}, []sq{{"sf0", 1, 0x0100, false, false}, {"sf0", 1, 0x0100, false, false}, {"sf0", 1, 0x0100, true, false}, {"sf0", 1, 0x0100, false, true}, {"a.sf0", 1, 0x0100, false, false}, {"sf0", 28, 0x0100, false, false}, {"sf1", 1, 0x0100, false, false}, {"sf1", 1, 0x0100, false, false}, {"sf0", 1, 0x0110, false, false}, {"sf0", 1, 0x0110, false, false}}},
		{vC05Toggles{rfc9520: 2, inline: true}, []sq{{"sf0", 1, 0x0100, false, false}, {"sf0", 1, 0x0100, false, false}, {"sf1", 1, 0x0100, false, false}, {"sf1", 1, 0x0100, false, false}}},
		// oversized answers over UDP with small / default / large advertised sizes, then TCP
		{vC05Toggles{}, []sq{{"big0", 16, 0x0100, false, false}, {"big0", 16, 0x0100, false, false}, {"big0", 16, 0x0100, false, true}, {"big1", 1, 0x0100, false, false}, {"big1", 1, 0x0100, false, false}, {"big1", 1, 0x0100, false, true}}},
		{vC05Toggles{tcp: true}, []sq{{"big0", 16, 0x0100, false, false}, {"big0", 16, 0x0100, false, false}, {"big1", 1, 0x0100, false, true}, {"big1", 1, 0x0100, false, true}}},
		// EDE-bearing entries, NODATA, hosts file, entry limiter
		{vC05Toggles{hosts: true, nsid: true}, []sq{{"ede0", 1, 0x0100, false, false}, {"ede0", 1, 0x0100, false, false}, {"ede0", 1, 0x0100, false, true}, {"nd0", 1, 0x0100, false, false}, {"nd0", 1, 0x0100, false, false}, {"hosts0", 1, 0x0100, false, false}, {"hosts0", 28, 0x0100, false, false}, {"hosts0", 16, 0x0100, false, false}, {"hosts1", 1, 0x0100, false, true}}},
		{vC05Toggles{entryRate: 2}, []sq{{"pos0", 1, 0x0100, false, false}, {"pos0", 1, 0x0100, false, false}, {"pos0", 1, 0x0100, false, false}, {"pos0", 1, 0x0100, false, false}, {"pos0", 1, 0x0100, false, false}}},
		{vC05Toggles{clientRate: 4}, []sq{{"pos0", 1, 0x0100, false, false}, {"pos0", 1, 0x0100, false, false}, {"pos1", 1, 0x0100, false, false}, {"pos0", 1, 0x0100, false, false}, {"pos0", 1, 0x0100, false, false}, {"pos0", 1, 0x0100, false, false}}},
	}
	var scriptedSteps [][]vC05Step
	for _, sc := range scripted {
		var steps []vC05Step
		for _, x := range sc.qs {
			q := &vC05Query{id: 1000 + len(steps), name: x.name + "." + vC05Zone, qtype: x.qt, qclass: 1, flags: x.flags, opt: !x.noopt, size: 1232, do: x.do}
			steps = append(steps, vC05Step{raw: q.pack(g), tag: fmt.Sprintf("scripted %s/%d flags=%#x do=%v opt=%v", q.name, x.qt, x.flags, x.do, !x.noopt), ip: net.IPv4(203, 0, 113, 40)})
		}
		scriptedSteps = append(scriptedSteps, steps)
	}
	// second batch, with packet sizes, clock advances and validation-status flips
	scriptedTg := make([]vC05Toggles, 0, len(scripted)+32)
	for _, sc := range scripted {
		scriptedTg = append(scriptedTg, sc.tg)
	}
	pk := func(name string, qt, flags int, do, opt bool, size int) vC05Step {
		q := &vC05Query{id: 2000 + g.r.Intn(1000), name: name + "." + vC05Zone, qtype: qt, qclass: 1, flags: flags, opt: opt, size: size, do: do}
		return vC05Step{raw: q.pack(g), tag: fmt.Sprintf("scripted %s/%d flags=%#x do=%v opt=%v size=%d", q.name, qt, flags, do, opt, size), ip: net.IPv4(203, 0, 113, 41)}
	}
	sh := func(sec int) vC05Step {
		return vC05Step{ctl: "shift", d: time.Duration(sec) * time.Second, tag: fmt.Sprintf("clock +%ds", sec)}
	}
	ep := func() vC05Step { return vC05Step{ctl: "epoch", tag: "validation status flips"} }
	add2 := func(tg vC05Toggles, steps ...vC05Step) {
		scriptedTg = append(scriptedTg, tg)
		scriptedSteps = append(scriptedSteps, steps)
	}
	// per-entry limiter x oversized cached answers x advertised sizes x single pass / inline+replay x UDP/TCP:
	// a hit that cannot be served from bytes must cost exactly the token the decoded path charges
	for _, v := range []struct {
		rate        int
		inline, tcp bool
	}{{1, true, false}, {1, false, false}, {1, true, true}, {2, true, false}} {
		tg := vC05Toggles{entryRate: v.rate, inline: v.inline, tcp: v.tcp}
		add2(tg, pk("big0", 16, 0x0100, false, true, 4096), pk("big0", 16, 0x0100, false, true, 512), pk("big0", 16, 0x0100, false, true, 512),
			pk("big0", 16, 0x0100, false, true, 4096), pk("big0", 16, 0x0100, false, false, 0),
			pk("big1", 1, 0x0100, false, false, 0), pk("big1", 1, 0x0100, false, false, 0), pk("big1", 1, 0x0100, false, true, 1232),
			pk("pos0", 1, 0x0100, false, true, 1232), pk("pos0", 1, 0x0100, false, true, 1232), pk("pos0", 1, 0x0100, false, true, 1232))
	}
	add2(vC05Toggles{entryRate: 1, inline: true}, pk("ca4", 16, 0x0100, false, true, 4096), pk("big0", 16, 0x0100, false, true, 4096), pk("ca4", 16, 0x0100, false, true, 512), pk("ca4", 16, 0x0100, false, true, 4096))
	add2(vC05Toggles{entryRate: 1, inline: true}, pk("sig0", 1, 0x0100, true, true, 1232), pk("sig0", 1, 0x0100, false, true, 1232), pk("sig0", 1, 0x0100, true, true, 1232))
	add2(vC05Toggles{entryRate: 1, inline: true}, pk("ede0", 1, 0x0100, false, true, 1232), pk("ede0", 1, 0x0100, false, false, 0), pk("nd0", 1, 0x0100, false, true, 1232), pk("nd0", 1, 0x0100, false, true, 1232))
	// alias chains whose legs are re-admitted with another validation verdict or lifetime after the
	// alias itself was admitted: expiry of the short-lived target, status flip, re-admission, then the
	// alias asked by clients that are shown AD (DO / AD bit) and by one that is not
	for _, inline := range []bool{false, true} {
		for _, first := range []int{0, 1} {
			var pre []vC05Step
			if first == 1 {
				pre = append(pre, ep()) // start insecure, turn secure later
			}
			tg := vC05Toggles{inline: inline}
			add2(tg, append(pre, pk("sc1", 1, 0x0100, true, true, 1232), pk("sig2", 1, 0x0100, true, true, 1232), pk("sc1", 1, 0x0100, true, true, 1232),
				sh(7), ep(), pk("sig2", 1, 0x0100, true, true, 1232), pk("sc1", 1, 0x0100, true, true, 1232), pk("sc1", 1, 0x0120, false, false, 0),
				pk("sc1", 1, 0x0100, false, true, 1232), pk("sc1", 1, 0x0110, true, true, 1232), sh(7), ep(), pk("sc1", 1, 0x0100, true, true, 1232),
				pk("sig2", 1, 0x0100, true, true, 1232), pk("sc1", 1, 0x0100, true, true, 1232))...)
			add2(tg, append(pre, pk("ca1", 1, 0x0100, false, true, 1232), pk("ca1", 1, 0x0100, false, true, 1232), sh(7), pk("ca1", 1, 0x0100, false, true, 1232),
				pk("pos2", 1, 0x0100, false, true, 1232), pk("ca1", 1, 0x0100, false, true, 1232), sh(3), pk("ca1", 1, 0x0100, false, true, 1232), sh(3), pk("ca1", 1, 0x0100, false, true, 1232))...)
		}
	}
	// everything ages: exact hits, cuts, failures and denial proofs across small and large advances
	add2(vC05Toggles{}, pk("pos2", 1, 0x0100, false, true, 1232), pk("pos2", 1, 0x0100, false, true, 1232), sh(2), pk("pos2", 1, 0x0100, false, true, 1232), sh(2), pk("pos2", 1, 0x0100, false, true, 1232), sh(2), pk("pos2", 1, 0x0100, false, true, 1232),
		pk("pos0", 1, 0x0100, false, true, 1232), sh(299), pk("pos0", 1, 0x0100, false, true, 1232), sh(2), pk("pos0", 1, 0x0100, false, true, 1232))
	// an OPT version the edns handler answers itself (BADVERS) on a warm alias chain and a warm exact entry: the
	// chain / entry is viewed, the cache serves nothing on either path (chase kind `decoded`)
	pkv := func(name string, qt, ver int) vC05Step {
		q := &vC05Query{id: 2990, name: name + "." + vC05Zone, qtype: qt, qclass: 1, flags: 0x0100, opt: true, size: 1232, ver: ver}
		return vC05Step{raw: q.pack(g), tag: fmt.Sprintf("scripted %s/%d version=%d", q.name, qt, ver), ip: net.IPv4(203, 0, 113, 41)}
	}
	add2(vC05Toggles{}, pk("ca0", 1, 0x0100, false, true, 1232), pk("ca0", 1, 0x0100, false, true, 1232), pkv("ca0", 1, 1), pk("pos0", 1, 0x0100, false, true, 1232), pkv("pos0", 1, 255), pk("ca0", 1, 0x0100, false, true, 1232))
	add2(vC05Toggles{}, pk("nx1", 1, 0x0100, true, true, 1232), pk("a.nx1", 1, 0x0100, true, true, 1232), sh(30), pk("a.nx1", 1, 0x0100, false, true, 1232), sh(40), pk("a.nx1", 1, 0x0100, false, true, 1232), pk("nxf0", 1, 0x0100, false, true, 1232),
		pk("sf0", 1, 0x0100, false, true, 1232), pk("sf0", 1, 0x0100, false, true, 1232), sh(4), pk("sf0", 1, 0x0100, false, true, 1232), sh(10), pk("sf0", 1, 0x0100, false, true, 1232), pk("sf0", 1, 0x0100, false, true, 1232))
	// refresh queue on.  (i) an alias chain whose hop enters its refresh window while the alias itself is
	// far from it: ca1 (ttl 3600) -> pos2 (ttl 5, window = its last second) - regression histories of the fixed
	// finding chase-hop-prefetch (cad4531: the byte-path composer did not tick the hop's refresh).  (ii) a three-hop chain admitted 100 s
	// before its alias: the alias inherits the hops' lifetime, so all four entries enter their windows
	// together, the alias declines on both paths and four refreshes run concurrently on the queue's
	// workers (their order at the resolver is not an observable; see vC05Stub).  Single pass and
	// inline+replay; afterwards the hop and the alias are asked again.
	for _, inline := range []bool{false, true} {
		add2(vC05Toggles{prefetch: true, inline: inline}, pk("ca1", 28, 0x0100, false, true, 1232), pk("ca1", 28, 0x0100, false, true, 1232), sh(4),
			pk("ca1", 28, 0x0100, false, true, 1232), pk("pos2", 28, 0x0100, false, true, 1232), pk("ca1", 28, 0x0100, false, true, 1232))
		add2(vC05Toggles{prefetch: true, inline: inline}, pk("cb0", 1, 0x0100, false, true, 1232), sh(100), pk("ca0", 1, 0x0100, false, true, 1232), pk("ca0", 1, 0x0100, false, true, 1232), sh(175),
			pk("ca0", 1, 0x0100, false, true, 1232), pk("ca0", 1, 0x0100, false, true, 1232), pk("pos0", 1, 0x0100, false, true, 1232), sh(20), pk("ca0", 1, 0x0100, false, true, 1232), pk("cb0", 1, 0x0100, false, true, 1232))
	}
	// one job slot, realistic leftovers: a validated (AD=1) byte-served hit for a DO client stays in the TX
	// lease, then the cached failure is served from bytes on the same slot at a step whose lease is NOT
	// poisoned (step index divisible by 3) - the reply header must not inherit AD/TC/Z from the lease
	for _, inline := range []bool{false, true} {
		add2(vC05Toggles{inline: inline}, pk("sf0", 1, 0x0100, false, true, 1232), pk("sig0", 1, 0x0100, true, true, 1232), pk("sig0", 1, 0x0120, true, true, 1232),
			pk("sf0", 1, 0x0100, false, true, 1232), pk("sig0", 1, 0x0100, true, true, 1232), pk("nx1", 1, 0x0100, true, true, 1232), pk("a.nx1", 1, 0x0100, false, true, 1232), pk("sig0", 1, 0x0120, true, true, 1232), pk("big0", 16, 0x0100, false, true, 512), pk("sf0", 1, 0x0100, false, false, 0))
	}
	// model witness Proofs_chase.ex_chase_back_alias_differs on the real code: a hop whose cached answer is
	// "n CNAME n" + "n A" - asked directly (flat byte hit vs the decoded scan) and behind an alias (composer vs
	// nested chase), single pass and inline+replay
	for _, inline := range []bool{false, true} {
		add2(vC05Toggles{inline: inline}, pk("cy0", 1, 0x0100, false, true, 1232), pk("cy0", 1, 0x0100, false, true, 1232), pk("cx0", 1, 0x0100, false, true, 1232),
			pk("cx0", 1, 0x0100, false, true, 1232), pk("cx0", 1, 0x0100, false, true, 1232), pk("cy0", 1, 0x0100, false, false, 0))
		add2(vC05Toggles{inline: inline}, pk("cx1", 1, 0x0100, false, true, 1232), pk("cx1", 1, 0x0100, false, true, 1232), pk("cx1", 1, 0x0100, false, true, 1232), pk("cy1", 1, 0x0100, false, true, 1232))
	}
	// ... and the reachable variant: the alias target is the owner in another letter case, the first client
	// spells the name in lower case (admitted), the next one in upper case (exact spellings, no 0x20 mixing)
	pkx := func(name string) vC05Step {
		q := &vC05Query{id: 2500 + g.r.Intn(400), name: name, qtype: 1, qclass: 1, flags: 0x0100, opt: true, size: 1232}
		return vC05Step{raw: q.pack(nil), tag: "scripted exact-spelling " + name + "/1", ip: net.IPv4(203, 0, 113, 42)}
	}
	for _, inline := range []bool{false, true} {
		add2(vC05Toggles{inline: inline}, pkx("cz0.zero.test."), pkx("cz0.zero.test."), pkx("CZ0.ZERO.TEST."), pkx("cz0.zero.test."), pkx("CZ0.ZERO.TEST."))
	}
	// client subnet forwarding: enabled for everybody / for an allow-list, clients reported in 16-byte
	// (IPv4-mapped) and 4-byte form and IPv6, inside and outside the list; misses, hits, other subnets,
	// the same names without the option
	pko := func(name string, qt int, ip net.IP, opts ...[]byte) vC05Step {
		q := &vC05Query{id: 3000 + g.r.Intn(1000), name: name + "." + vC05Zone, qtype: qt, qclass: 1, flags: 0x0100, opt: true, size: 1232, opts: opts}
		return vC05Step{raw: q.pack(g), tag: fmt.Sprintf("scripted %s/%d from %s (%d-byte) opts=%d", q.name, qt, ip, len(ip), len(opts)), ip: ip}
	}
	ecs4 := func(a, b, c byte, mask int) []byte {
		return vC05Opt(8, append([]byte{0, 1, byte(mask), 0}, []byte{a, b, c, 0}[:(mask+7)/8]...))
	}
	// ... under every ECS configuration INCLUDING none (mode 0: the default; the option is stripped), and on every
	// rung of the ladder: exact hits, names below a validated NXDOMAIN cut, inside an aggressive-denial span, cached
	// failures - with the option, without it, and with it again once the plain query has been answered
	for _, mode := range []int{0, 1, 2} {
		ips := []net.IP{net.IPv4(203, 0, 113, 30), net.IPv4(203, 0, 113, 30).To4(), net.IPv4(203, 0, 113, 99), net.ParseIP("2001:db8:c05::30")}
		if mode == 0 {
			ips = ips[1:3]
		}
		for _, ip := range ips {
			add2(vC05Toggles{ecs: mode}, pko("pos1", 1, ip, ecs4(192, 0, 2, 24)), pko("pos1", 1, ip, ecs4(192, 0, 2, 24)), pko("pos1", 1, ip, ecs4(192, 0, 3, 24)),
				pko("pos1", 1, ip), pko("pos0", 1, ip, ecs4(192, 0, 2, 24)), pko("pos0", 1, ip), pko("pos2", 1, ip, ecs4(192, 0, 2, 32)), pko("pos2", 1, ip, ecs4(192, 0, 2, 16)),
				pko("nx0", 1, ip, ecs4(192, 0, 2, 24)), pko("nx0", 1, ip), pko("sf0", 1, ip, ecs4(192, 0, 2, 24)), pko("sf0", 1, ip))
			for _, r8198 := range []int{0, 2} {
				add2(vC05Toggles{ecs: mode, rfc8198: r8198}, pko("nx1", 1, ip), pko("a.nx1", 1, ip, ecs4(192, 0, 2, 24)), pko("a.nx1", 1, ip), pko("a.nx1", 1, ip, ecs4(192, 0, 2, 24)),
					pko("b.a.nx1", 28, ip, ecs4(192, 0, 2, 16)), pko("nxf0", 1, ip, ecs4(192, 0, 2, 24)), pko("nxf0", 1, ip), pko("nxf0", 1, ip, ecs4(192, 0, 2, 24)),
					pko("sf0", 1, ip), pko("a.sf0", 1, ip, ecs4(192, 0, 2, 24)), pko("sf0", 1, ip, ecs4(192, 0, 2, 24)))
			}
		}
	}
	// cookies against the per-client limiter over UDP and TCP: first contact, the server cookie echoed,
	// a stale / bare cookie afterwards, until the bucket is empty and beyond
	for _, tcp := range []bool{false, true} {
		for _, rate := range []int{3, 6} {
			ip := net.IPv4(203, 0, 113, 45)
			client := []byte{9, 8, 7, 6, 5, 4, 3, 2}
			full, _ := hex.DecodeString(dnsutil.GenerateServerCookie(vC05Secret, ip.String(), hex.EncodeToString(client)))
			stale := append(append([]byte{}, client...), make([]byte, 32)...)
			bare, echo, old := vC05Opt(10, client), vC05Opt(10, full), vC05Opt(10, stale)
			add2(vC05Toggles{clientRate: rate, tcp: tcp}, pko("pos0", 1, ip, bare), pko("pos0", 1, ip, echo), pko("pos0", 1, ip, bare), pko("pos0", 1, ip, old),
				pko("pos0", 1, ip, echo), pko("pos0", 1, ip, bare), pko("pos0", 1, ip), pko("pos0", 1, ip, old), pko("pos0", 1, ip, bare), pko("pos0", 1, ip, echo), pko("pos0", 1, ip))
		}
	}
	// reverse and special-use names of every depth on the byte-path name walkers (empty zones, hosts PTR)
	deep := func(base string, k int, qt int) vC05Step {
		q := &vC05Query{id: 4000 + k, name: base, qtype: qt, qclass: 1, flags: 0x0100, opt: true, size: 1232}
		for i := 0; i < k; i++ {
			q.prefix = append(q.prefix, 1, byte('a'+i%26))
		}
		return vC05Step{raw: q.pack(g), tag: fmt.Sprintf("scripted %d labels + %s /%d", k, base, qt), ip: net.IPv4(203, 0, 113, 46)}
	}
	for _, ez := range []bool{false, true} {
		var steps []vC05Step
		for _, base := range []string{"10.in-addr.arpa.", "8.b.d.0.1.0.0.2.ip6.arpa.", "1.0.0.0.0.0.0.0.0.0.0.0.0.0.0.0.0.0.0.0.0.0.0.0.0.0.0.0.0.0.0.0.ip6.arpa.", "pos0." + vC05Zone, "hosts0." + vC05Zone} {
			for _, k := range []int{0, 1, 3, 29, 30, 31, 32, 33, 34, 60, 100} {
				steps = append(steps, deep(base, k, g.pick(12, 12, 1, 43)))
			}
		}
		add2(vC05Toggles{emptyZones: ez, hosts: true}, steps...)
	}
	// record types: every type of the rich universe x {exact hit, alias chain of one and of two hops composed from
	// warm entries} x {DO, no DO, no OPT}, unsigned and signed; the hop's owner and the alias differ in length and
	// the alias records sit in front, so a pointer copied verbatim out of a hop's stored body points elsewhere in
	// the composed reply.  Quick tier: single pass for the unsigned and inline+replay for the signed family;
	// thorough tier: both serve modes x UDP/TCP for each.
	{
		types := append([]int{}, vC05RichTypes...)
		// ... and two types the universe holds no records of (one the library knows, one it does not): the
		// unsigned names answer NODATA with the SOA alone, the signed ones with SOA + NSEC + RRSIGs in the
		// authority section (DNSSEC records outside the answer section), directly and behind the aliases
		types = append(types, 99, 65280)
		modes := []vC05Toggles{{}, {inline: true}}
		if os.Getenv("VERIF_TIER") == "thorough" {
			modes = []vC05Toggles{{}, {inline: true}, {tcp: true}, {tcp: true, inline: true}}
		}
		for mi, tg := range modes {
			var plain, signed []vC05Step
			for _, qt := range types {
				plain = append(plain, pk("rr0", qt, 0x0100, false, true, 1232), pk("rr0", qt, 0x0100, false, true, 1232), pk("rr0", qt, 0x0100, true, true, 1232), pk("rr0", qt, 0x0100, false, false, 0),
					pk("ralong0", qt, 0x0100, false, true, 1232), pk("ralong0", qt, 0x0100, false, true, 1232), pk("ralong0", qt, 0x0100, true, true, 4096),
					pk("rb0", qt, 0x0100, false, true, 1232), pk("rb0", qt, 0x0100, false, false, 0))
				signed = append(signed, pk("rs0", qt, 0x0100, true, true, 1232), pk("rs0", qt, 0x0100, true, true, 1232), pk("rs0", qt, 0x0100, false, true, 1232), pk("rs0", qt, 0x0100, false, false, 0), pk("rs0", qt, 0x0110, true, true, 1232),
					pk("rt0", qt, 0x0100, true, true, 1232), pk("rt0", qt, 0x0100, true, true, 1232), pk("rt0", qt, 0x0100, false, true, 1232), pk("rt0", qt, 0x0120, false, false, 0))
			}
			if len(modes) > 2 || mi == 0 {
				add2(tg, plain...)
			}
			if len(modes) > 2 || mi == 1 {
				add2(tg, signed...)
			}
		}
	}
	nScripted := len(scriptedSteps)
	// CaseVerdict budget: distinct (entry, question, DO, choice, route) observations only
	verdictLeft, verdictBytesLeft := 260, 40
	if os.Getenv("VERIF_TIER") == "thorough" {
		verdictLeft, verdictBytesLeft = 3000, 300
	}
	verdictSeen, verdictBytesSeen := map[string]bool{}, map[string]bool{}
	// ... spread over the SHAPES of the stored body (rcode, answer or not, DNSSEC records in answer / authority,
	// alias in the answer): the scripted sweeps come first and would otherwise spend the whole budget on
	// unsigned positive answers
	verdictPerClass, verdictBytesPerClass := map[string]int{}, map[string]int{}
	verdictClassCap, verdictBytesClassCap := 45, 8
	if os.Getenv("VERIF_TIER") == "thorough" {
		verdictClassCap, verdictBytesClassCap = 700, 60
	}
	verdictClass := func(v *cache.VC05Verdict) string {
		has := func(rs []cache.VC05Rec, ts ...uint16) bool {
			for _, r := range rs {
				for _, t := range ts {
					if uint16(r.Type) == t {
						return true
					}
				}
			}
			return false
		}
		return fmt.Sprintf("rc%d an=%v and=%v nsd=%v cn=%v", v.Full.Rcode, len(v.Full.An) > 0, has(v.Full.An, 46, 47, 50), has(v.Full.Ns, 46, 47, 50), has(v.Full.An, 5))
	}
	for budget > 0 {
		scen++
		tg := vC05Toggles{
			nsid:       g.r.Intn(2) == 0,
			prefetch:   g.r.Intn(3) == 0,
			rfc8198:    g.pick(0, 0, 1, 2),
			rfc9520:    g.pick(0, 0, 1, 2),
			hosts:      g.r.Intn(2) == 0,
			emptyZones: g.r.Intn(3) == 0,
			chaos:      g.r.Intn(2) == 0,
			ecs:        g.pick(0, 0, 1, 2),
			tcp:        g.r.Intn(3) == 0,
			inline:     g.r.Intn(3) == 0,
		}
		if g.r.Intn(4) == 0 {
			tg.clientRate = g.pick(4, 8, 20)
		}
		if g.r.Intn(4) == 0 {
			tg.entryRate = g.pick(1, 1, 2, 3)
		}
		g.ecsBias = tg.ecs > 0
		// history: a handful of names queried repeatedly so that cache states are reached
		nsteps := 24 + g.r.Intn(16)
		if nsteps > budget {
			nsteps = budget
		}
		families := [][]string{
			{"pos0", "pos1"}, {"ca0", "cb0", "cc0", "pos0"}, {"ca1", "pos2"}, {"sc1", "sig2"}, {"sc1", "sig2", "sig0"}, {"ca4", "big0"}, {"big0", "big1"}, {"ca2", "nx0"}, {"ca3", "sf0"}, {"cf0"},
			{"sig0", "sc0"}, {"sig1"}, {"nx0", "a.nx0"}, {"nx1", "a.nx1", "b.a.nx1"}, {"nd0"}, {"ede0"}, {"big0"}, {"big1"},
			{"sf0", "a.sf0"}, {"sf1"}, {"nxf0", "nx1"}, {"nxf0", "nx1", "nxf1"}, {"mx0"}, {"hosts0"}, {"ref0"}, {"nd1", "ede1"},
			{"rr0", "ralong0", "rb0"}, {"rr2", "ralong2", "ra2"}, {"rs0", "rt0"}, {"rs1", "rt1"}, {"rs2", "rt2"}, {"rr1", "ralong1"}, {"rs0"}, {"rr0", "ra0"},
		}
		// a history over the rich universe concentrates on a few record types, so that the same (name, type)
		// is asked again and the alias chain onto it is warm
		richQt := []int{vC05RichTypes[g.r.Intn(len(vC05RichTypes))], vC05RichTypes[g.r.Intn(len(vC05RichTypes))], vC05RichTypes[g.r.Intn(len(vC05RichTypes))]}
		focus := []string{}
		for i := 0; i < 2+g.r.Intn(2); i++ {
			focus = append(focus, families[g.r.Intn(len(families))]...)
		}
		// two clients per history; the transport may report an IPv4 client in 4-byte or in 16-byte
		// (IPv4-mapped) form, or the client is IPv6; inside / outside the ECS allow-list
		ipPool := []net.IP{net.IPv4(203, 0, 113, 30), net.IPv4(203, 0, 113, 31).To4(), net.IPv4(203, 0, 113, 99), net.IPv4(198, 51, 100, 7).To4(),
			net.ParseIP("2001:db8:c05::30"), net.ParseIP("2001:db8:ffff::1")}
		ips := []net.IP{ipPool[g.r.Intn(len(ipPool))], ipPool[g.r.Intn(len(ipPool))]}
		var steps []vC05Step
		for i := 0; i < nsteps; i++ {
			if i > 2 {
				switch x := g.r.Intn(100); {
				case x < 6:
					d := time.Duration(g.pick(2, 4, 6, 6, 11, 301, 3601)) * time.Second
					steps = append(steps, vC05Step{ctl: "shift", d: d, tag: "clock +" + d.String()})
					continue
				case x < 9:
					steps = append(steps, vC05Step{ctl: "epoch", tag: "validation status flips"})
					continue
				}
			}
			ip := ips[0]
			if g.r.Intn(5) == 0 {
				ip = ips[1]
			}
			q := g.query(ip)
			if g.r.Intn(20) < 17 && strings.HasSuffix(q.name, vC05Zone) {
				q.name = focus[g.r.Intn(len(focus))] + "." + vC05Zone
				if g.r.Intn(5) > 0 {
					q.qtype = g.pick(1, 1, 1, 1, 1, 1, 28, 16, 15)
				}
				if vC05IsRichName(q.name) && g.r.Intn(10) > 0 {
					q.qtype = richQt[g.r.Intn(len(richQt))]
				}
			}
			if strings.HasPrefix(q.name, "big") || strings.HasPrefix(q.name, "ca4") {
				// oversized answers: the advertised size decides between a byte serve and truncation
				if g.r.Intn(3) > 0 {
					q.size = g.pick(512, 512, 600, 1232, 0, 4096)
					q.opt = g.r.Intn(4) > 0
				}
			}
			if strings.HasPrefix(q.name, "sig") || strings.HasPrefix(q.name, "sc") || strings.HasPrefix(q.name, "nx1") || strings.HasPrefix(q.name, "rs") || strings.HasPrefix(q.name, "rt") ||
				(vC05IsRichName(q.name) && (q.qtype == 46 || q.qtype == 47 || q.qtype == 50 || q.qtype == 43 || q.qtype == 48)) {
				// signed material: every AD/CD/DO combination matters
				q.flags = g.pick(0x0100, 0x0100, 0x0110, 0x0120, 0x0130)
				if q.opt {
					q.do = g.r.Intn(2) == 0
				}
				q.tag += fmt.Sprintf(" signed(flags=%#x do=%v)", q.flags, q.do)
			}
			raw := q.pack(g)
			tag := q.tag
			if g.r.Intn(25) == 0 {
				var dt string
				raw, dt = g.damage(raw)
				tag += " " + dt
			}
			steps = append(steps, vC05Step{raw: raw, tag: fmt.Sprintf("%s %s/%d", tag, q.name, q.qtype), ip: ip})
		}
		// probes: the same decoded path on both servers, so only the state can make them differ
		for _, nm := range focus {
			for _, v := range []struct {
				do    bool
				flags int
				qt    int
			}{{false, 0x0100, 1}, {true, 0x0100, 1}, {true, 0x0110, 1}, {false, 0x0100, 28}} {
				q := &vC05Query{id: 4242, name: nm + "." + vC05Zone, qtype: v.qt, qclass: 1, flags: v.flags, opt: true, size: 4096, do: v.do}
				steps = append(steps, vC05Step{raw: q.pack(nil), tag: "probe " + q.name, ip: net.IPv4(203, 0, 113, byte(100+len(steps)%100)), probe: true})
			}
		}
		for _, nm := range focus {
			if vC05IsRichName(nm) {
				for _, do := range []bool{false, true} {
					q := &vC05Query{id: 4243, name: nm + "." + vC05Zone, qtype: richQt[0], qclass: 1, flags: 0x0100, opt: true, size: 4096, do: do}
					steps = append(steps, vC05Step{raw: q.pack(nil), tag: "probe " + q.name, ip: net.IPv4(203, 0, 113, byte(100+len(steps)%100)), probe: true})
				}
			}
		}
		if scen <= nScripted {
			tg = scriptedTg[scen-1]
			steps = scriptedSteps[scen-1]
			nsteps = len(steps)
		}
		if only := vC05EnvInt("VERIF_C05_SCEN", 0); only > 0 && scen != only {
			// debugging aid: replay one scenario of a seed (the generator draws above are unaffected)
			budget -= nsteps
			continue
		}
		scenT0 := time.Now()
		obs := vC05RunScenario(tg, hostsPath, steps)
		if os.Getenv("VERIF_C05_TIMING") != "" {
			// debugging aid: where the driver's wall time goes
			defer func(scen, n int, tg vC05Toggles, d time.Duration) {
				fmt.Fprintf(os.Stderr, "timing scen %d steps %d first-run %v [%s]\n", scen, n, d, tg.String())
			}(scen, len(steps), tg, time.Since(scenT0))
		}
		if os.Getenv("VERIF_C05_DEBUG") != "" {
			for i, ob := range obs {
				fmt.Fprintf(os.Stderr, "scen %d step %d [%s] %s\n  route=%s unsettled=%v\n  w=%s\n  m=%s\n  wlog={%s}\n  mlog={%s}\n", scen, i, tg.String(), steps[i].tag, ob.route, ob.unsettled,
					strings.Join(ob.w, " ; "), strings.Join(ob.m, " ; "), ob.wLog, ob.mLog)
			}
		}
		if at, _ := vC05Differs(obs); at >= 0 {
			// a second may have passed between store and serve (TTL truncation, expiry and
			// refresh thresholds all read the wall clock), or a token bucket refilled mid-run:
			// whatever the difference is, rerun on fresh servers; only a difference that shows
			// at the same step every time is reported (no verdict depends on machine load)
			for retry := 0; retry < 2; retry++ {
				obs2 := vC05RunScenario(tg, hostsPath, steps)
				at2, _ := vC05Differs(obs2)
				if at2 != at {
					obs = obs2
					if at2 < 0 {
						break
					}
					at = at2
				}
			}
		}
		firstBad := -1
		unsettled := false
		for i, ob := range obs {
			st := steps[i]
			goFail := ""
			fkey := ""
			hopRegress := false
			for k := range ob.w {
				if ob.w[k] != ob.m[k] {
					goFail = fmt.Sprintf("replies differ in %s: wire{%s} msg{%s}", vC05Comp[k], ob.w[k], ob.m[k])
					break
				}
			}
			aliasCase := false
			if goFail != "" && vC05AliasCaseLoop(ob) {
				// the class of the FIXED finding alias-target-case (/repo a4faf69): a plain failure, only named
				aliasCase = true
				goFail = "regression of alias-target-case (fixed in a4faf69): an alias onto its own owner in the client's letter case is a SERVFAIL on the decoded path only: " + goFail
			}
			if goFail != "" && vC05CaseOnly(ob.w, ob.m) && ob.wLog == ob.mLog {
				// known finding: names inside RDATA take the letter case of the client's question
				fkey = "rdata-name-case"
				emitKnown(st, scen, i, tg, ob, goFail)
				goFail = ""
			}
			if goFail == "" && ob.wLog != ob.mLog {
				goFail = fmt.Sprintf("resolution hand-off differs: wire saw {%s} msg saw {%s}", ob.wLog, ob.mLog)
				if firstBad < 0 && vC05HopRefreshOnly(tg, st, ob) {
					// the class of the FIXED finding chase-hop-prefetch (/repo cad4531): a plain failure,
					// only named so that a regression is recognised at once
					hopRegress = true
					goFail = "regression of chase-hop-prefetch (fixed in cad4531): a cached hop of an alias chain composed on the byte path does not tick its refresh: " + goFail
				}
			}
			if goFail != "" && firstBad >= 0 {
				// states have already diverged: later differences are consequences
				goFail = ""
			} else if goFail != "" {
				firstBad = i
				if len(goFail) > 1500 {
					goFail = goFail[:1500] + "…"
				}
			}
			kind := "diff/" + ob.w[0] + "/" + ob.route
			if st.probe {
				kind = "probe/" + ob.w[0]
			}
			if hopRegress {
				kind = "diff/chase-hop-prefetch-regression"
			}
			if aliasCase {
				kind = "diff/alias-target-case-regression"
			}
			var hist []string
			if goFail != "" {
				for _, p := range steps[:i+1] {
					if p.ctl != "" {
						hist = append(hist, "ctl: "+p.tag)
						continue
					}
					hist = append(hist, hex.EncodeToString(p.raw)+" "+p.ip.String())
				}
			}
			wd := append(append([]string{}, ob.w...), ob.wLog)
			md := append(append([]string{}, ob.m...), ob.mLog)
			rec := map[string]any{
				"k":   kind,
				"coq": fmt.Sprintf("CaseDiff %s %s", vC05Digests(wd), vC05Digests(md)),
				"desc": map[string]any{"raw": hex.EncodeToString(st.raw), "tags": st.tag, "scenario": scen, "step": i, "toggles": tg.String(),
					"wire": strings.Join(ob.w[:3], " ; "), "msg": strings.Join(ob.m[:3], " ; "), "history": hist},
				"nontrivial": ob.w[0] == "reply" || ob.m[0] == "reply",
				"go_fail":    goFail,
			}
			if ob.unsettled {
				unsettled = true
			}
			if unsettled {
				rec["inconclusive"] = true
				rec["go_fail"] = ""
			}
			if firstBad >= 0 && i > firstBad {
				// after a divergence the two servers are no longer identically prepared
				rec["inconclusive"] = true
			}
			if fkey != "" {
				// reported once through emitKnown; keep this step out of the plain comparison
				rec["inconclusive"] = true
			}
			emit(rec)
			if cq, cdesc := vC05ChaseCase(st, ob); cq != "" && !unsettled && !(firstBad >= 0 && i > firstBad) {
				emit(map[string]any{"k": "chase/" + ob.route, "coq": cq, "desc": cdesc, "nontrivial": true, "go_fail": ""})
			}
			if !st.probe && !unsettled && !(firstBad >= 0 && i > firstBad) && verdictLeft > 0 && ob.vdW != nil && verdictPerClass[verdictClass(ob.vdW)] < verdictClassCap {
				class := verdictClass(ob.vdW)
				withBytes := len(ob.vdW.Wire) <= 260 && verdictBytesLeft > 0 && verdictBytesPerClass[class] < verdictBytesClassCap &&
					!verdictBytesSeen[ob.vdW.Name+"/"+strconv.Itoa(int(ob.vdW.Qtype))]
				if vq, key, vdesc := vC05VerdictCase(st, ob, withBytes); vq != "" && !verdictSeen[key] {
					verdictSeen[key] = true
					verdictLeft--
					verdictPerClass[class]++
					if withBytes {
						verdictBytesLeft--
						verdictBytesPerClass[class]++
						verdictBytesSeen[ob.vdW.Name+"/"+strconv.Itoa(int(ob.vdW.Qtype))] = true
					}
					emit(map[string]any{"k": fmt.Sprintf("verdict/choice%d/%s", ob.vdW.Choice, ob.route), "coq": vq, "desc": vdesc, "nontrivial": true, "go_fail": ""})
				}
			}
		}
		budget -= nsteps
	}
}
