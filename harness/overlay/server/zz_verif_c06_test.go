//go:build verif

package server

// C06 driver: generated (query packet, scripted downstream response) pairs
// through the REAL ingress of every owned entry:
//
//   udp  : udpEngine.serve on a job slab (acceptHeader, rejectInPlace,
//          Server.ServeRaw -> strict wire path or decoded fallback)
//   tcp  : tcpEngine.serveFrame on a stream job (same ladder, framed)
//   doh  : Server.ServeHTTP (POST application/dns-message)
//   doq  : Server.ServeMsg with a "doq" transport whose WriteMsg runs the
//          real doq.ResponseWriter.WriteMsg (ID rewrite + pack) first
//
// The pipeline is the real edns handler followed by a scripted last handler
// that plays "everything downstream" (cache / resolver / forwarder). The
// observation is the raw reply bytes at the transport (or their absence).

import (
	"bytes"
	"context"
	"encoding/binary"
	"encoding/hex"
	"encoding/json"
	"fmt"
	"math/big"
	"math/rand"
	"net"
	"net/http"
	"net/http/httptest"
	"net/netip"
	"os"
	"reflect"
	"strconv"
	"strings"
	"testing"
	"time"

	"github.com/miekg/dns"
	"github.com/semihalev/sdns/config"
	"github.com/semihalev/sdns/internal/dnsutil"
	"github.com/semihalev/sdns/internal/ecs"
	"github.com/semihalev/sdns/middleware"
	"github.com/semihalev/sdns/middleware/edns"
	"github.com/semihalev/sdns/server/doq"
)

const (
	vC06UDP = iota
	vC06TCP
	vC06DOH
	vC06DOQ
)

var vC06TrName = []string{"UDP", "TCP", "DOH", "DOQ"}

func vC06EnvInt(name string, def int) int {
	if s := os.Getenv(name); s != "" {
		if n, err := strconv.Atoi(s); err == nil {
			return n
		}
	}
	return def
}

// ---------------------------------------------------------------- abstraction

type vC06Tab struct {
	names map[string]int // exact (case-sensitive) name -> id; "." is 0
	ents  []string       // entry id-1: "(first label length, id of the rest)"
	rrs   map[string]int
	bad   string // set when a record's RDATA name layout cannot be derived
}

func vC06NewTab() *vC06Tab { return &vC06Tab{names: map[string]int{}, rrs: map[string]int{}} }

// name interns a domain name and all its suffixes, the way the library's compression map keys
// them: by exact presentation string.  Equal ids <=> equal names.
func (t *vC06Tab) name(s string) int {
	if s == "" || s == "." {
		return 0
	}
	if id, ok := t.names[s]; ok {
		return id
	}
	next, end := dns.NextLabel(s, 0)
	rest := "."
	if !end && next < len(s) {
		rest = s[next:]
	}
	parent := t.name(rest)
	label := s
	if !end && next <= len(s) {
		label = s[:next]
	}
	if !strings.HasSuffix(label, ".") {
		label += "."
	}
	llen := vC06NameLen(label) - 2 // wire length of the single label
	if llen < 0 {
		llen = 0
	}
	t.ents = append(t.ents, fmt.Sprintf("(%d, %d)", llen, parent))
	id := len(t.ents)
	t.names[s] = id
	return id
}

func (t *vC06Tab) table() string { return "[" + strings.Join(t.ents, "; ") + "]" }

// rdata derives the RDATA layout name compression sees, generically from the library's struct tags:
// `dns:"cdomain-name"` fields are compressible names, `dns:"domain-name"` fields are names that are
// only entered into the map; integer fields before them have their wire width; whatever follows
// the last name is one opaque run sized from the record's measured length.
func (t *vC06Tab) rdata(rr dns.RR) string {
	total := dns.Len(rr) - 10 - vC06NameLen(rr.Header().Name)
	v := reflect.ValueOf(rr)
	if v.Kind() == reflect.Ptr {
		v = v.Elem()
	}
	var segs []string
	pend, used, unknown := 0, 0, false
	if v.Kind() == reflect.Struct {
		ty := v.Type()
		for i := 0; i < ty.NumField(); i++ {
			f := ty.Field(i)
			if f.Name == "Hdr" {
				continue
			}
			tag := f.Tag.Get("dns")
			if strings.Contains(tag, "domain-name") && f.Type.Kind() == reflect.String {
				if unknown {
					t.bad = "RDATA layout of " + ty.Name() + " not derivable"
				}
				if pend > 0 {
					segs = append(segs, fmt.Sprintf("SFix %d", pend))
					used += pend
					pend = 0
				}
				nm := v.Field(i).String()
				segs = append(segs, fmt.Sprintf("SName %s %d", vC06B(strings.Contains(tag, "cdomain-name")), t.name(nm)))
				used += vC06NameLen(nm)
				continue
			}
			if strings.Contains(tag, "domain-name") {
				t.bad = "name list field in " + ty.Name()
			}
			switch f.Type.Kind() {
			case reflect.Uint8:
				pend++
			case reflect.Uint16:
				pend += 2
			case reflect.Uint32:
				pend += 4
			case reflect.Uint64:
				pend += 8
			default:
				unknown = true
			}
		}
	}
	if rest := total - used; rest > 0 {
		segs = append(segs, fmt.Sprintf("SFix %d", rest))
	} else if rest < 0 {
		t.bad = "RDATA accounting of " + v.Type().Name() + " negative"
	}
	return "[" + strings.Join(segs, "; ") + "]"
}

func (t *vC06Tab) rr(rr dns.RR) int {
	// identity = uncompressed wire form (stable across pack/unpack, unlike the
	// presentation form of NSEC3 and friends)
	s := rr.String()
	buf := make([]byte, dns.Len(rr)+16)
	if off, err := dns.PackRR(rr, buf, 0, nil, false); err == nil {
		s = string(buf[:off])
	}
	if id, ok := t.rrs[s]; ok {
		return id
	}
	id := len(t.rrs)
	t.rrs[s] = id
	return id
}

func vC06B(b bool) string {
	if b {
		return "true"
	}
	return "false"
}

// vC06OptData packs a single option with the library and returns its data.
func vC06OptData(o dns.EDNS0) []byte {
	tmp := &dns.OPT{Hdr: dns.RR_Header{Name: ".", Rrtype: dns.TypeOPT}, Option: []dns.EDNS0{o}}
	buf := make([]byte, 70000)
	off, err := dns.PackRR(tmp, buf, 0, nil, false)
	if err != nil || off < 15 {
		return nil
	}
	return append([]byte(nil), buf[15:off]...)
}

func vC06AbsEopt(o dns.EDNS0) string {
	d := vC06OptData(o)
	return fmt.Sprintf("mk_eopt %d %d %s", o.Option(), len(d), new(big.Int).SetBytes(d).String())
}

func vC06AbsOpt(o *dns.OPT) string {
	var opts []string
	for _, e := range o.Option {
		opts = append(opts, vC06AbsEopt(e))
	}
	return fmt.Sprintf("mk_opt %d %d %s %d [%s]", o.Version(), o.UDPSize(), vC06B(o.Do()), o.Hdr.Ttl&0x7FFF, strings.Join(opts, "; "))
}

// vC06Octets renders octets as a Coq list of N.
func vC06Octets(b []byte) string {
	if len(b) == 0 {
		return "[]"
	}
	var sb strings.Builder
	sb.WriteString("[")
	for i, x := range b {
		if i > 0 {
			sb.WriteString(";")
		}
		sb.WriteString(strconv.Itoa(int(x)))
	}
	sb.WriteString("]%N")
	return sb.String()
}

// vC06OptTail returns the octets of the reply's OPT when it is the reply's last record
// (root owner, so the record is exactly its fixed part plus its options): the raw bytes the
// model's encoder (WireOpt.enc_opt) and the translated internal/wire builders must reproduce.
func vC06OptTail(obs *dns.Msg, reply []byte) []byte {
	if obs == nil || len(obs.Extra) == 0 {
		return nil
	}
	o, ok := obs.Extra[len(obs.Extra)-1].(*dns.OPT)
	if !ok {
		return nil
	}
	n := 11
	for _, e := range o.Option {
		n += 4 + len(vC06OptData(e))
	}
	if n > len(reply) {
		return nil
	}
	return reply[len(reply)-n:]
}

// vC06Step is one (packet, scripted downstream) pair in replayable form: what corpus/C06 holds
// and what every case's desc carries (with the step before it — jobs and writer slots are reused).
type vC06Step struct {
	Name     string `json:"name,omitempty"`
	Tr       int    `json:"tr"`
	Cfg      int    `json:"cfg"`
	Client   int    `json:"client"`
	Qid      uint16 `json:"qid"`
	Strict   bool   `json:"strict_try,omitempty"`
	QueryHex string `json:"query_hex"`
	Write    bool   `json:"write"`
	Rcode    int    `json:"rcode"`
	AA       bool   `json:"aa"`
	AD       bool   `json:"ad"`
	RA       bool   `json:"ra"`
	TC       bool   `json:"tc"`
	An       []string `json:"an"`
	Ns       []string `json:"ns"`
	Ex       []string `json:"ex"`
	Fill     int      `json:"fill"`
	OptMode  int      `json:"opt_mode"`
	OptKind  []int    `json:"opt_kind"`
	OptSeed  int64    `json:"opt_seed"`
	OwnSize  uint16   `json:"own_size"`
	OwnDo    bool     `json:"own_do"`
	OptPos   int      `json:"opt_pos"`
	Wire     bool     `json:"wire"`
	WireEDE  int      `json:"wire_ede"`
}

func vC06MkStep(tr, ci, client int, qid uint16, strictTry bool, raw []byte, sc *vC06Script) *vC06Step {
	return &vC06Step{Tr: tr, Cfg: ci, Client: client, Qid: qid, Strict: strictTry, QueryHex: hex.EncodeToString(raw),
		Write: sc.write, Rcode: sc.rcode, AA: sc.aa, AD: sc.ad, RA: sc.ra, TC: sc.tc, An: sc.an, Ns: sc.ns, Ex: sc.ex, Fill: sc.fill,
		OptMode: sc.optMode, OptKind: sc.optKind, OptSeed: sc.optSeed, OwnSize: sc.ownSize, OwnDo: sc.ownDo, OptPos: sc.optPos,
		Wire: sc.wire, WireEDE: sc.wireEDE}
}

func (st *vC06Step) script() *vC06Script {
	return &vC06Script{write: st.Write, rcode: st.Rcode, aa: st.AA, ad: st.AD, ra: st.RA, tc: st.TC, an: st.An, ns: st.Ns, ex: st.Ex,
		fill: st.Fill, optMode: st.OptMode, optKind: st.OptKind, optSeed: st.OptSeed, ownSize: st.OwnSize, ownDo: st.OwnDo,
		optPos: st.OptPos, wire: st.Wire, wireEDE: st.WireEDE}
}

// vC06CorpusFile reads $VERIF_CORPUS/<name>: fixed steps replayed, in order, before the generated ones.
func vC06CorpusFile(name string) []*vC06Step {
	dir := os.Getenv("VERIF_CORPUS")
	if dir == "" {
		return nil
	}
	b, err := os.ReadFile(dir + "/" + name)
	if err != nil {
		return nil
	}
	var steps []*vC06Step
	if json.Unmarshal(b, &steps) != nil {
		return nil
	}
	return steps
}

func vC06NameLen(s string) int {
	buf := make([]byte, 300)
	off, err := dns.PackDomainName(s, buf, 0, nil, false)
	if err != nil {
		return len(s) + 1
	}
	return off
}

func (t *vC06Tab) absRR(rr dns.RR) string {
	h := rr.Header()
	return fmt.Sprintf("mk_rr %d %d %d %d %d %d %s", t.rr(rr), t.name(h.Name), h.Rrtype, h.Class, h.Ttl, dns.Len(rr), t.rdata(rr))
}

func (t *vC06Tab) absMsg(m *dns.Msg, alias *dns.OPT) string {
	hdr := fmt.Sprintf("mk_hdr %d %s %d %s %s %s %s %s %s %s %d", m.Id, vC06B(m.Response), m.Opcode, vC06B(m.Authoritative),
		vC06B(m.Truncated), vC06B(m.RecursionDesired), vC06B(m.RecursionAvailable), vC06B(m.Zero), vC06B(m.AuthenticatedData),
		vC06B(m.CheckingDisabled), m.Rcode)
	var qs, an, ns, ex []string
	for _, q := range m.Question {
		qs = append(qs, fmt.Sprintf("mk_quest %d %d %d %d", t.name(q.Name), q.Qtype, q.Qclass, vC06NameLen(q.Name)+4))
	}
	for _, rr := range m.Answer {
		an = append(an, t.absRR(rr))
	}
	for _, rr := range m.Ns {
		ns = append(ns, t.absRR(rr))
	}
	for _, rr := range m.Extra {
		if o, ok := rr.(*dns.OPT); ok {
			if alias != nil && o == alias {
				ex = append(ex, "XReq ("+vC06AbsOpt(o)+")")
			} else {
				ex = append(ex, "XO ("+vC06AbsOpt(o)+")")
			}
			continue
		}
		ex = append(ex, "XR ("+t.absRR(rr)+")")
	}
	return fmt.Sprintf("mk_msg (%s) [%s] [%s] [%s] [%s]", hdr, strings.Join(qs, "; "), strings.Join(an, "; "), strings.Join(ns, "; "), strings.Join(ex, "; "))
}

// ---------------------------------------------------------------- options

// kinds: 0 ECS v4, 1 ECS v6, 2 COOKIE(8), 3 COOKIE(8+16), 4 COOKIE short(4), 5 NSID(empty), 6 NSID(data),
// 7 KEEPALIVE(empty), 8 KEEPALIVE(value), 9 PADDING, 10 EDE, 11 LOCAL 65001, 12 DAU, 13 EXPIRE
func vC06MkOpt(kind int, r *rand.Rand) dns.EDNS0 {
	rb := func(n int) []byte {
		b := make([]byte, n)
		r.Read(b)
		if n > 0 && b[0] == 0 {
			b[0] = 1
		}
		return b
	}
	switch kind {
	case 0:
		return &dns.EDNS0_SUBNET{Code: dns.EDNS0SUBNET, Family: 1, SourceNetmask: uint8(8 + r.Intn(25)), SourceScope: uint8(r.Intn(25)), Address: net.IPv4(198, 51, byte(r.Intn(256)), byte(r.Intn(256))).To4()}
	case 1:
		ip := net.ParseIP("2001:db8::")
		ip[6], ip[7], ip[8] = byte(r.Intn(256)), byte(r.Intn(256)), byte(r.Intn(256))
		return &dns.EDNS0_SUBNET{Code: dns.EDNS0SUBNET, Family: 2, SourceNetmask: uint8(32 + r.Intn(33)), SourceScope: 0, Address: ip}
	case 2:
		return &dns.EDNS0_COOKIE{Code: dns.EDNS0COOKIE, Cookie: hex.EncodeToString(rb(8))}
	case 3:
		return &dns.EDNS0_COOKIE{Code: dns.EDNS0COOKIE, Cookie: hex.EncodeToString(rb(24))}
	case 4:
		return &dns.EDNS0_COOKIE{Code: dns.EDNS0COOKIE, Cookie: hex.EncodeToString(rb(4))}
	case 5:
		return &dns.EDNS0_NSID{Code: dns.EDNS0NSID, Nsid: ""}
	case 6:
		return &dns.EDNS0_NSID{Code: dns.EDNS0NSID, Nsid: hex.EncodeToString(rb(1 + r.Intn(12)))}
	case 7:
		return &dns.EDNS0_TCP_KEEPALIVE{Code: dns.EDNS0TCPKEEPALIVE}
	case 8:
		return &dns.EDNS0_TCP_KEEPALIVE{Code: dns.EDNS0TCPKEEPALIVE, Timeout: uint16(1 + r.Intn(3000))}
	case 9:
		return &dns.EDNS0_PADDING{Padding: rb(1 + r.Intn(24))}
	case 10:
		return &dns.EDNS0_EDE{InfoCode: uint16(r.Intn(25)), ExtraText: []string{"", "stale", "dnssec bogus"}[r.Intn(3)]}
	case 11:
		return &dns.EDNS0_LOCAL{Code: 65001, Data: rb(1 + r.Intn(10))}
	case 12:
		return &dns.EDNS0_DAU{Code: dns.EDNS0DAU, AlgCode: []uint8{8, 13}}
	default:
		return &dns.EDNS0_EXPIRE{Code: dns.EDNS0EXPIRE, Expire: uint32(1 + r.Intn(100000))}
	}
}

// vC06RawOpt builds an option of a well-known code with a payload of boundary shape: lengths and
// field values at and just past what the option's format allows.  Whether the packet is still
// decodable is decided by the library's Unpack, not here.
func vC06RawOpt(r *rand.Rand) dns.EDNS0 {
	rb := func(n int) []byte {
		b := make([]byte, n)
		r.Read(b)
		return b
	}
	pick := func(v ...int) int { return v[r.Intn(len(v))] }
	switch r.Intn(8) {
	case 0, 1, 2: // client subnet: family, source prefix, scope prefix, address
		fam := pick(0, 1, 1, 1, 2, 2, 3)
		max := 32
		if fam == 2 {
			max = 128
		}
		src := pick(0, 8, 24, max-1, max, max+1, 255)
		scope := pick(0, 0, 24, max, max+1, 129, 255)
		if fam == 0 {
			src = pick(0, 0, 8)
		}
		alen := (src + 7) / 8
		if alen > 16 {
			alen = 16
		}
		alen += pick(0, 0, 0, 0, 1, -1)
		if alen < 0 {
			alen = 0
		}
		d := []byte{0, byte(fam), byte(src), byte(scope)}
		a := rb(alen)
		if alen > 0 && src%8 != 0 && r.Intn(2) == 0 {
			a[alen-1] &= byte(0xFF << (8 - src%8)) // host bits cleared, as a careful client sends it
		}
		return &dns.EDNS0_LOCAL{Code: dns.EDNS0SUBNET, Data: append(d, a...)}
	case 3:
		return &dns.EDNS0_LOCAL{Code: dns.EDNS0COOKIE, Data: rb(pick(0, 1, 7, 8, 9, 16, 24, 32, 40, 41))}
	case 4:
		return &dns.EDNS0_LOCAL{Code: dns.EDNS0TCPKEEPALIVE, Data: rb(pick(0, 1, 2, 3))}
	case 5:
		return &dns.EDNS0_LOCAL{Code: dns.EDNS0EDE, Data: rb(pick(0, 1, 2, 12))}
	case 6:
		return &dns.EDNS0_LOCAL{Code: dns.EDNS0EXPIRE, Data: rb(pick(0, 3, 4, 5))}
	default:
		return &dns.EDNS0_LOCAL{Code: uint16(pick(1, 2, 5, 6, 7, 13, 14, 16)), Data: rb(pick(0, 1, 2, 4, 8, 18))}
	}
}

// ---------------------------------------------------------------- scripted last handler

type vC06Script struct {
	write   bool
	rcode   int
	aa, ad  bool
	ra, tc  bool
	an      []string // RR texts, '@' = question name
	ns      []string
	ex      []string
	fill    int // bytes of TXT filler appended to the answer (0: none)
	optMode int // 0 none, 1 re-attach the request's OPT, 2 own OPT, 3 own OPT followed by a second own OPT,
	// 4: a handler NO middleware of the tree resembles — it appends a private-use option to the request's
	// own OPT, attaches it, and attaches an OPT of its own after it (the witness that premise
	// req_opt_clean of no_foreign_option_reflected is necessary; judged without that one clause)
	optKind []int
	optSeed int64
	ownSize uint16
	ownDo   bool
	optPos  int // 0 OPT last in Extra, 1 OPT first
	wire    bool // try the byte path (WireReady / WriteWire) before WriteMsg, as the cache does
	wireEDE int  // -1: none; otherwise the Extended DNS Error info code passed in WireInfo

	// outputs of one run
	tab       *vC06Tab
	called    bool
	undecoded bool
	dn        string
	foreign   bool // downstream's last OPT is its own and carries an option the shaper does not strip
	extraOpt  bool // downstream carries more than one OPT and an earlier one has options
	wireTried bool // WriteWire was called
	blen      int  // length of the body handed to WriteWire
	hasd      bool // WireInfo.HasDNSSEC
	edeCoq    string
}

var vC06Cur *vC06Script

type vC06Stub struct{}

func (vC06Stub) Name() string { return "verifc06stub" }

func vC06Filler(owner string, n int) dns.RR {
	t := &dns.TXT{Hdr: dns.RR_Header{Name: owner, Rrtype: dns.TypeTXT, Class: dns.ClassINET, Ttl: 60}}
	for n > 0 {
		k := n
		if k > 255 {
			k = 255
		}
		t.Txt = append(t.Txt, strings.Repeat("x", k))
		n -= k
	}
	if len(t.Txt) == 0 {
		t.Txt = []string{""}
	}
	return t
}

func vC06Parse(tpls []string, qname string) []dns.RR {
	var out []dns.RR
	for _, t := range tpls {
		rr, err := dns.NewRR(strings.ReplaceAll(t, "@", qname))
		if err != nil || rr == nil {
			continue
		}
		// a template that does not survive packing with this owner (name too long) is skipped
		buf := make([]byte, dns.Len(rr)+300)
		off, perr := dns.PackRR(rr, buf, 0, nil, false)
		if perr != nil {
			continue
		}
		if _, _, uerr := dns.UnpackRR(buf[:off], 0); uerr != nil {
			continue
		}
		out = append(out, rr)
	}
	return out
}

func (vC06Stub) ServeDNS(ctx context.Context, ch *middleware.Chain) {
	sc := vC06Cur
	if sc == nil {
		ch.Cancel()
		return
	}
	sc.called = true
	sc.undecoded = ch.Request.Undecoded()
	_, req := ch.Materialize(ctx)
	if req == nil {
		return
	}
	if !sc.write {
		ch.Cancel()
		return
	}
	m := new(dns.Msg)
	m.SetReply(req)
	m.Rcode = sc.rcode
	m.Authoritative = sc.aa
	m.AuthenticatedData = sc.ad
	m.RecursionAvailable = sc.ra
	m.Truncated = sc.tc
	qname := "."
	if len(req.Question) > 0 {
		qname = req.Question[0].Name
	}
	m.Answer = vC06Parse(sc.an, qname)
	if sc.fill > 0 {
		m.Answer = append(m.Answer, vC06Filler(qname, sc.fill))
	}
	m.Ns = vC06Parse(sc.ns, qname)
	m.Extra = vC06Parse(sc.ex, qname)
	r := rand.New(rand.NewSource(sc.optSeed))
	var alias *dns.OPT
	addOpt := func(o *dns.OPT) {
		if sc.optPos == 1 {
			m.Extra = append([]dns.RR{o}, m.Extra...)
		} else {
			m.Extra = append(m.Extra, o)
		}
	}
	var wireEDE *dns.EDNS0_EDE
	if sc.wire && sc.wireEDE >= 0 {
		wireEDE = &dns.EDNS0_EDE{InfoCode: uint16(sc.wireEDE), ExtraText: []string{"", "cached error"}[sc.wireEDE%2]}
		if ro := req.IsEdns0(); ro != nil {
			// what CacheEntry.ToMsg does to restore a stored EDE on the Msg path
			o := &dns.OPT{Hdr: dns.RR_Header{Name: ".", Rrtype: dns.TypeOPT, Class: ro.UDPSize()}}
			o.Option = append(o.Option, wireEDE)
			m.Extra = append(m.Extra, o)
		}
	}
	switch sc.optMode {
	case 1:
		if o := req.IsEdns0(); o != nil {
			for _, k := range sc.optKind {
				o.Option = append(o.Option, vC06MkOpt(k, r))
			}
			addOpt(o)
			if !sc.undecoded {
				alias = o
			}
		}
	case 4:
		if o := req.IsEdns0(); o != nil {
			o.Option = append(o.Option, &dns.EDNS0_LOCAL{Code: 65001, Data: []byte{0xC0, 0x06}})
			m.Extra = append(m.Extra, o)
			if !sc.undecoded {
				alias = o
			}
			o2 := new(dns.OPT)
			o2.Hdr.Name = "."
			o2.Hdr.Rrtype = dns.TypeOPT
			o2.SetUDPSize(sc.ownSize)
			m.Extra = append(m.Extra, o2)
		}
	case 2, 3:
		n := 1
		if sc.optMode == 3 {
			n = 2
		}
		for i := 0; i < n; i++ {
			o := new(dns.OPT)
			o.Hdr.Name = "."
			o.Hdr.Rrtype = dns.TypeOPT
			o.SetUDPSize(sc.ownSize)
			if sc.ownDo {
				o.SetDo()
			}
			for _, k := range sc.optKind {
				o.Option = append(o.Option, vC06MkOpt(k, r))
			}
			addOpt(o)
		}
	}
	sc.foreign = false
	if last := m.IsEdns0(); last != nil && last != alias {
		for _, e := range last.Option {
			switch e.Option() {
			case dns.EDNS0SUBNET, dns.EDNS0TCPKEEPALIVE, dns.EDNS0EDE:
			default:
				sc.foreign = true
			}
		}
	}
	sc.extraOpt = false
	for _, rr := range m.Extra {
		if o, ok := rr.(*dns.OPT); ok && o != m.IsEdns0() && len(o.Option) > 0 {
			sc.extraOpt = true
		}
	}
	sc.dn = sc.tab.absMsg(m, alias)
	sc.wireTried = false
	if sc.wire {
		if ww, ok := ch.Writer.(middleware.WireWriter); ok {
			if capab, ready := ww.WireReady(); ready {
				nb := m.Copy()
				var ex []dns.RR
				for _, rr := range nb.Extra {
					if _, isOpt := rr.(*dns.OPT); !isOpt {
						ex = append(ex, rr)
					}
				}
				nb.Extra = ex
				nb.Compress = true
				if body, err := nb.Pack(); err == nil {
					hasd := false
					if len(nb.Question) == 0 || nb.Question[0].Qtype != dns.TypeRRSIG {
						for _, rr := range append(append([]dns.RR{}, nb.Answer...), nb.Ns...) {
							switch rr.(type) {
							case *dns.RRSIG, *dns.NSEC, *dns.NSEC3:
								hasd = true
							}
						}
					}
					info := middleware.WireInfo{Rcode: m.Rcode, AuthenticatedData: m.AuthenticatedData, HasDNSSEC: hasd}
					sc.edeCoq = "None"
					if wireEDE != nil {
						info.HasEDE, info.EDECode, info.EDEText = true, wireEDE.InfoCode, wireEDE.ExtraText
						sc.edeCoq = "(Some (" + vC06AbsEopt(wireEDE) + "))"
					}
					sc.wireTried, sc.blen, sc.hasd = true, len(body), hasd
					buf := make([]byte, len(body), len(body)+capab.Reserve+64)
					copy(buf, body)
					if err := ww.WriteWire(buf, info); err == nil {
						return
					}
				}
			}
		}
	}
	_ = ch.Writer.WriteMsg(m)
}

// ---------------------------------------------------------------- transports

type vC06Conn struct {
	buf bytes.Buffer
	ra  net.Addr
}

func (c *vC06Conn) Read([]byte) (int, error)         { return 0, fmt.Errorf("eof") }
func (c *vC06Conn) Write(b []byte) (int, error)      { return c.buf.Write(b) }
func (c *vC06Conn) Close() error                     { return nil }
func (c *vC06Conn) LocalAddr() net.Addr              { return &net.TCPAddr{IP: net.IPv4(127, 0, 0, 1), Port: 53} }
func (c *vC06Conn) RemoteAddr() net.Addr             { return c.ra }
func (c *vC06Conn) SetDeadline(time.Time) error      { return nil }
func (c *vC06Conn) SetReadDeadline(time.Time) error  { return nil }
func (c *vC06Conn) SetWriteDeadline(time.Time) error { return nil }

// vC06DoqW stands in for the DoQ stream writer: Proto "doq", and WriteMsg first
// runs the real doq.ResponseWriter.WriteMsg (which rewrites the ID and packs;
// its final stream write has no stream here and is cut short), then captures.
type vC06DoqW struct {
	ra    net.Addr
	proto string
	msg   *dns.Msg
	wire  []byte
}

func (w *vC06DoqW) LocalAddr() net.Addr  { return &net.UDPAddr{IP: net.IPv4(127, 0, 0, 1), Port: 853} }
func (w *vC06DoqW) RemoteAddr() net.Addr { return w.ra }
func (w *vC06DoqW) Close() error         { return nil }
func (w *vC06DoqW) Proto() string        { return w.proto }
func (w *vC06DoqW) Write(b []byte) (int, error) {
	w.wire = append([]byte(nil), b...)
	return len(b), nil
}
func (w *vC06DoqW) WriteMsg(m *dns.Msg) error {
	if w.proto == "doq" {
		func() {
			defer func() { _ = recover() }()
			_ = (&doq.ResponseWriter{}).WriteMsg(m)
		}()
	}
	w.msg = m
	b, err := m.Pack()
	if err != nil {
		return err
	}
	w.wire = b
	return nil
}

type vC06Env struct {
	cfgs  []*config.Config
	srv   []*Server
	ednsH []*edns.EDNS
	pol   []*ecs.Policy
	udp   []*udpEngine
	tcp   []*tcpEngine
}

func vC06NewEnv() *vC06Env {
	env := &vC06Env{}
	for i := 0; i < 4; i++ {
		cfg := new(config.Config)
		cfg.QueryTimeout = config.Duration{Duration: time.Hour}
		cfg.CookieSecret = "c06-secret-" + strconv.Itoa(i)
		if i&1 == 1 {
			cfg.NSID = []string{"", "verif-nsid", "", "ns"}[i]
		}
		if i&2 == 2 {
			cfg.ECS = config.ECSConfig{Enabled: true, ForwardV4Max: 24, ForwardV6Max: 56, ClientNetworks: []string{"192.0.2.0/24"}}
		}
		e := edns.New(cfg)
		reg := middleware.NewRegistry()
		reg.Register("edns", func(*config.Config) middleware.Handler { return e })
		reg.Register("verifc06stub", func(*config.Config) middleware.Handler { return vC06Stub{} })
		s := &Server{cfg: cfg, pipeline: reg.Build(cfg)}
		p, _ := ecs.Build(cfg.ECS.Enabled, cfg.ECS.ForwardV4Max, cfg.ECS.ForwardV6Max, cfg.ECS.MinScopeV4, cfg.ECS.MinScopeV6, cfg.ECS.ClientNetworks)
		env.cfgs = append(env.cfgs, cfg)
		env.srv = append(env.srv, s)
		env.ednsH = append(env.ednsH, e)
		env.pol = append(env.pol, p)
		env.udp = append(env.udp, newUDPEngine(s, nil, false, 1, 1, defaultResourcePlan(1)))
		env.tcp = append(env.tcp, newTCPEngine(s, "tcp", 4, defaultResourcePlan(1)))
	}
	return env
}

// run serves one packet on the chosen entry and returns the raw reply (nil: none).
func (env *vC06Env) run(tr, ci int, raw []byte, client netip.AddrPort, qid uint16) []byte {
	s := env.srv[ci]
	switch tr {
	case vC06UDP:
		e := env.udp[ci]
		j := e.take(0)
		j.setRemote(client)
		j.rxLen = copy(j.rx[:], raw)
		j.readTime = time.Now()
		j.state = udpJobQueued
		e.inFlight.Add(1)
		var burst udpTXBurst
		e.serve(j, &burst)
		var out []byte
		if burst.n > 0 {
			out = append([]byte(nil), j.tx[:j.txLen]...)
			burst.release()
		}
		return out
	case vC06TCP:
		e := env.tcp[ci]
		fc := &vC06Conn{ra: net.TCPAddrFromAddrPort(client)}
		j := newTCPJob(e, true)
		j.conn = fc
		st := new(tcpStream)
		st.reset(fc)
		defer st.wait.Stop()
		j.stream = st
		n := copy(j.rx, raw)
		j.readTime = time.Now()
		if !e.serveFrame(j, n) {
			return nil
		}
		_ = st.flush()
		b := fc.buf.Bytes()
		if len(b) < 2 {
			return nil
		}
		l := int(binary.BigEndian.Uint16(b))
		if len(b) < 2+l {
			return nil
		}
		return append([]byte(nil), b[2:2+l]...)
	case vC06DOH:
		req := httptest.NewRequest(http.MethodPost, "/dns-query", bytes.NewReader(raw))
		req.Header.Set("Content-Type", "application/dns-message")
		req.RemoteAddr = client.String()
		rec := httptest.NewRecorder()
		s.ServeHTTP(rec, req)
		if rec.Code != 200 {
			return nil
		}
		return append([]byte(nil), rec.Body.Bytes()...)
	default:
		q := new(dns.Msg)
		if err := q.Unpack(raw); err != nil {
			return nil
		}
		q.Id = qid // the DoQ stream handler replaces the client's (zero) ID by a fresh one
		w := &vC06DoqW{ra: net.UDPAddrFromAddrPort(client), proto: "doq"}
		s.ServeMsg(context.Background(), w, q)
		return w.wire
	}
}

// twin runs the same (query, script) through the edns handler on a transport
// that never truncates, and returns the library's two length measurements of
// the shaped message — the oracle the model uses for Msg.Len with compression.
func (env *vC06Env) twin(ci int, raw []byte, client netip.AddrPort, sc *vC06Script) (int, int) {
	q := new(dns.Msg)
	if err := q.Unpack(raw); err != nil {
		return 0, 0
	}
	keepTab := sc.tab
	sc.tab = vC06NewTab()
	defer func() { sc.tab = keepTab }()
	ch := middleware.NewChain([]middleware.Handler{env.ednsH[ci], vC06Stub{}})
	w := &vC06DoqW{ra: net.TCPAddrFromAddrPort(client), proto: "doh"}
	ch.Reset(w, q)
	ch.Next(context.Background())
	if w.msg == nil {
		return 0, 0
	}
	m := w.msg
	cl := m.Len()
	u := *m
	u.Compress = false
	return u.Len(), cl
}

// ---------------------------------------------------------------- generators

var vC06Names = []string{"example.com.", "ExAmPle.CoM.", "a.b.c.example.org.", "x.test.", "WWW.Example.NET.", "k.", "."}

func vC06LongName(r *rand.Rand, total int) string {
	var sb strings.Builder
	n := 0
	for n+2 < total {
		l := 1 + r.Intn(50)
		if n+1+l+1 > total {
			l = total - n - 2
		}
		if l <= 0 {
			break
		}
		for i := 0; i < l; i++ {
			sb.WriteByte("abcdefghijklmnopqrstuvwxyzABCDEFGH0123456789"[r.Intn(44)])
		}
		sb.WriteByte('.')
		n += 1 + l
	}
	if sb.Len() == 0 {
		return "."
	}
	return sb.String()
}

var vC06Sizes = []uint16{0, 100, 511, 512, 513, 600, 700, 1000, 1231, 1232, 1233, 1400, 4096, 65535}
var vC06QTypes = []uint16{dns.TypeA, dns.TypeA, dns.TypeAAAA, dns.TypeTXT, dns.TypeRRSIG, dns.TypeDNSKEY, dns.TypeNS, dns.TypeANY, dns.TypeNSEC, dns.TypeDS, dns.TypeSOA}

type vC06Q struct {
	raw    []byte
	hasOpt bool
	ecsOpt *dns.EDNS0_SUBNET
	cookie string // effective client cookie half (hex) or ""
}

func vC06GenQuery(r *rand.Rand) *vC06Q {
	q := new(dns.Msg)
	q.Id = uint16(r.Intn(65536))
	q.RecursionDesired = r.Intn(4) != 0
	q.CheckingDisabled = r.Intn(3) == 0
	q.AuthenticatedData = r.Intn(3) == 0
	if r.Intn(40) == 0 {
		q.Zero = true
	}
	if r.Intn(25) == 0 {
		q.Opcode = []int{1, 2, 4, 4, 5, 6, 15}[r.Intn(7)]
	}
	if r.Intn(30) == 0 {
		q.Response = true
	}
	if r.Intn(16) == 0 {
		// the whole (QR, opcode) table, jointly: responses with foreign opcodes included
		q.Response = r.Intn(2) == 0
		q.Opcode = []int{0, 1, 2, 3, 4, 5, 6, 9, 15}[r.Intn(9)]
	}
	name := vC06Names[r.Intn(len(vC06Names))]
	switch r.Intn(12) {
	case 0:
		name = vC06LongName(r, 60+r.Intn(190))
	case 1:
		name = vC06LongName(r, 254)
	}
	qt := vC06QTypes[r.Intn(len(vC06QTypes))]
	qc := uint16(dns.ClassINET)
	if r.Intn(30) == 0 {
		qc = dns.ClassCHAOS
	}
	q.Question = []dns.Question{{Name: name, Qtype: qt, Qclass: qc}}
	res := &vC06Q{}
	if r.Intn(10) < 7 {
		res.hasOpt = true
		o := new(dns.OPT)
		o.Hdr.Name = "."
		o.Hdr.Rrtype = dns.TypeOPT
		o.SetUDPSize(vC06Sizes[r.Intn(len(vC06Sizes))])
		if r.Intn(2) == 0 {
			o.SetDo()
		}
		if r.Intn(14) == 0 {
			o.SetVersion(uint8(1 + r.Intn(3)))
		}
		if r.Intn(40) == 0 {
			o.Hdr.Ttl |= 0x0040 // a Z flag
		}
		// at most one option per code (the strict parser refuses duplicates of
		// the ones it reads; the decoded loop keeps the last)
		if r.Intn(3) == 0 {
			e := vC06MkOpt(r.Intn(2), r).(*dns.EDNS0_SUBNET)
			e.SourceScope = 0
			o.Option = append(o.Option, e)
			res.ecsOpt = e
		}
		if r.Intn(3) == 0 {
			k := []int{2, 2, 3, 4}[r.Intn(4)]
			c := vC06MkOpt(k, r).(*dns.EDNS0_COOKIE)
			o.Option = append(o.Option, c)
			if len(c.Cookie) >= 16 {
				res.cookie = c.Cookie[:16]
			}
		}
		if r.Intn(4) == 0 {
			o.Option = append(o.Option, vC06MkOpt(5, r))
		}
		if r.Intn(4) == 0 {
			o.Option = append(o.Option, vC06MkOpt(7+r.Intn(2), r))
		}
		if r.Intn(6) == 0 {
			o.Option = append(o.Option, vC06MkOpt(9, r))
		}
		if r.Intn(12) == 0 {
			o.Option = append(o.Option, vC06MkOpt(11+r.Intn(3), r))
		}
		if r.Intn(4) == 0 {
			raw := vC06RawOpt(r)
			kept := o.Option[:0]
			for _, e := range o.Option {
				if e.Option() != raw.Option() {
					kept = append(kept, e)
				}
			}
			o.Option = append(kept, raw)
		}
		r.Shuffle(len(o.Option), func(i, j int) { o.Option[i], o.Option[j] = o.Option[j], o.Option[i] })
		q.Extra = append(q.Extra, o)
	}
	// a bad-version query that is itself larger than what it advertises
	if res.hasOpt && r.Intn(40) == 0 {
		o := q.Extra[0].(*dns.OPT)
		o.SetVersion(uint8(1 + r.Intn(3)))
		o.SetUDPSize([]uint16{0, 512, 600}[r.Intn(3)])
		q.Extra = append([]dns.RR{vC06Filler("big."+vC06Names[0], 400+r.Intn(500))}, q.Extra...)
	} else if r.Intn(14) == 0 {
		// a second additional record (ARCOUNT <= 2 passes the header check)
		var x dns.RR
		if r.Intn(3) == 0 {
			x = vC06Filler("big."+vC06Names[0], 200+r.Intn(500))
		} else {
			x, _ = dns.NewRR("add.example.com. 30 IN A 192.0.2.55")
		}
		if r.Intn(2) == 0 {
			q.Extra = append(q.Extra, x)
		} else {
			q.Extra = append([]dns.RR{x}, q.Extra...)
		}
	}
	// one record too many in a section (well-formed packet, counts the accept table refuses)
	switch r.Intn(90) {
	case 0:
		x1, _ := dns.NewRR("add1.example.com. 30 IN A 192.0.2.57")
		x2, _ := dns.NewRR("add2.example.com. 30 IN A 192.0.2.58")
		q.Extra = append([]dns.RR{x1, x2}, q.Extra...)
		if len(q.Extra) == 2 {
			x3, _ := dns.NewRR("add3.example.com. 30 IN A 192.0.2.59")
			q.Extra = append(q.Extra, x3)
		}
		if len(q.Extra) > 3 {
			q.Extra = q.Extra[len(q.Extra)-3:]
		}
	case 1:
		x1, _ := dns.NewRR("ans1.example.com. 30 IN A 192.0.2.57")
		x2, _ := dns.NewRR("ans2.example.com. 30 IN A 192.0.2.58")
		q.Answer = append(q.Answer, x1, x2)
	case 2:
		x1, _ := dns.NewRR("example.com. 30 IN NS ns1.example.com.")
		x2, _ := dns.NewRR("example.com. 30 IN NS ns2.example.com.")
		q.Ns = append(q.Ns, x1, x2)
	}
	if r.Intn(30) == 0 {
		x, _ := dns.NewRR("ans.example.com. 30 IN A 192.0.2.56")
		q.Answer = append(q.Answer, x)
	}
	if r.Intn(40) == 0 {
		x, _ := dns.NewRR("example.com. 30 IN NS ns.example.com.")
		q.Ns = append(q.Ns, x)
	}
	if r.Intn(50) == 0 {
		q.Question = append(q.Question, dns.Question{Name: "second.example.", Qtype: dns.TypeA, Qclass: dns.ClassINET})
	}
	if r.Intn(60) == 0 {
		q.Question = nil
	}
	raw, err := q.Pack()
	if err != nil {
		q2 := new(dns.Msg)
		q2.SetQuestion("example.com.", dns.TypeA)
		q2.Id = q.Id
		raw, _ = q2.Pack()
		res.hasOpt, res.ecsOpt, res.cookie = false, nil, ""
	}
	// raw-level damage
	switch r.Intn(45) {
	case 0: // header count lies
		binary.BigEndian.PutUint16(raw[4:], uint16(r.Intn(3)))
	case 1:
		binary.BigEndian.PutUint16(raw[6:], uint16(r.Intn(4)))
	case 2:
		binary.BigEndian.PutUint16(raw[8:], uint16(r.Intn(4)))
	case 3:
		binary.BigEndian.PutUint16(raw[10:], uint16(r.Intn(5)))
	case 4: // cut the body
		if len(raw) > 13 {
			raw = raw[:12+r.Intn(len(raw)-12)]
		}
	case 5: // trailing garbage
		raw = append(raw, byte(r.Intn(256)), byte(r.Intn(256)))
	}
	res.raw = raw
	return res
}

var vC06AnTpl = [][]string{
	{"@ 300 IN A 192.0.2.1"},
	{"@ 300 IN A 192.0.2.1", "@ 300 IN A 192.0.2.2", "@ 300 IN RRSIG A 8 2 300 20300101000000 20200101000000 12345 example.com. c2lnbmF0dXJlc2lnbmF0dXJlc2lnbmF0dXJl"},
	{"@ 60 IN AAAA 2001:db8::1", "@ 60 IN RRSIG AAAA 13 2 60 20300101000000 20200101000000 4242 example.com. AAECAwQFBgcICQoLDA0ODxAREhMUFRYXGBkaGxwdHh8="},
	{"@ 120 IN CNAME target.example.net.", "target.example.net. 120 IN A 198.51.100.9"},
	{"@ 30 IN TXT \"hello world\""},
	{"@ 3600 IN DNSKEY 257 3 8 AwEAAaz/tAm8yTn4Mfeh5eyI96WSVexTBAvkMgJzkKTOiW1vkIbzxeF3+/4RgWOq7HrxRixHlFlExOLAJr5emLvN7SWXgnLh4+B5xQlNVz8Og8kvArMtNROxVQuCaSnIDdD5LKyWbRd2n9WGe2R8PzgCmr3EgVLrjyBxWezF0jLHwVN8efS3rCj/EWgvIWgb9tarpVUDK/b58Da+sqqls3eNbuv7pr+eoZG+SrDK6nWeL3c6H5Apxz7LjVc1uTIdsIXxuOLYA4/ilBmSVIzuDWfdRUfhHdY6+cn8HFRm+2hM8AnXGXws9555KrUB5qihylGa8subX2Nn6UwNR1AkUTV74bU="},
	{},
}
var vC06NsTpl = [][]string{
	{},
	{"example.com. 3600 IN SOA ns.example.com. host.example.com. 1 7200 900 1209600 300"},
	{"example.com. 3600 IN SOA ns.example.com. host.example.com. 1 7200 900 1209600 300", "example.com. 3600 IN RRSIG SOA 8 2 3600 20300101000000 20200101000000 12345 example.com. c2ln",
		"@ 300 IN NSEC \\000.@ A RRSIG NSEC", "@ 300 IN RRSIG NSEC 8 2 300 20300101000000 20200101000000 12345 example.com. c2ln"},
	{"0p9mhaveqvm6t7vbl5lop2u3t2rp3tom.example.com. 300 IN NSEC3 1 0 2 AABB 2t7b4g4vsa5smi47k61mv5bv1a22bojr A RRSIG", "0p9mhaveqvm6t7vbl5lop2u3t2rp3tom.example.com. 300 IN RRSIG NSEC3 8 3 300 20300101000000 20200101000000 12345 example.com. c2ln"},
	{"example.com. 300 IN NS ns1.example.com.", "example.com. 300 IN NS ns2.example.com."},
	{"example.com. 300 IN NS ns1.example.com.", "example.com. 300 IN DS 12345 8 2 0102030405060708090a0b0c0d0e0f101112131415161718191a1b1c1d1e1f20", "example.com. 300 IN RRSIG DS 8 2 300 20300101000000 20200101000000 1 com. c2ln"},
}
var vC06ExTpl = [][]string{
	{}, {}, {},
	{"ns1.example.com. 300 IN A 192.0.2.53"},
	{"ns1.example.com. 300 IN A 192.0.2.53", "ns2.example.com. 300 IN AAAA 2001:db8::53", "ns1.example.com. 300 IN RRSIG A 8 3 300 20300101000000 20200101000000 12345 example.com. c2ln"},
}

func vC06GenScript(r *rand.Rand) *vC06Script {
	sc := &vC06Script{write: r.Intn(40) != 0}
	sc.rcode = []int{0, 0, 0, 0, 3, 2, 5}[r.Intn(7)]
	sc.aa = r.Intn(4) == 0
	sc.ad = r.Intn(2) == 0
	sc.ra = r.Intn(5) != 0
	sc.tc = r.Intn(40) == 0
	sc.an = vC06AnTpl[r.Intn(len(vC06AnTpl))]
	sc.ns = vC06NsTpl[r.Intn(len(vC06NsTpl))]
	sc.ex = vC06ExTpl[r.Intn(len(vC06ExTpl))]
	if r.Intn(3) == 0 {
		sc.fill = 1 + r.Intn(1400)
	}
	switch x := r.Intn(20); {
	case x < 6:
		sc.optMode = 0
	case x < 12:
		sc.optMode = 1
	case x < 19:
		sc.optMode = 2
	default:
		sc.optMode = 3
	}
	sc.optSeed = r.Int63()
	sc.ownSize = vC06Sizes[r.Intn(len(vC06Sizes))]
	sc.ownDo = r.Intn(2) == 0
	if r.Intn(8) == 0 {
		sc.optPos = 1
	}
	sc.wireEDE = -1
	if r.Intn(60) == 0 {
		sc.optMode = 4
		sc.optKind = nil
		return sc
	}
	if r.Intn(4) == 0 {
		// a cache hit served from stored bytes: no OPT of its own, maybe a stored EDE
		sc.wire = true
		sc.optMode = 0
		if r.Intn(3) == 0 {
			sc.wireEDE = r.Intn(25)
		}
	}
	if sc.optMode == 1 {
		// the resolver adds an Extended DNS Error to the OPT it re-attaches
		if r.Intn(3) == 0 {
			sc.optKind = []int{10}
		}
	} else if sc.optMode >= 2 {
		// a forwarded upstream's own OPT: mostly the options the shaper strips
		// (ECS, keepalive) and EDE; sometimes others
		for _, k := range []int{0, 8, 10} {
			if r.Intn(3) == 0 {
				sc.optKind = append(sc.optKind, k)
			}
		}
		if r.Intn(5) == 0 {
			sc.optKind = append(sc.optKind, []int{3, 6, 9, 11, 13, 1, 7}[r.Intn(7)])
		}
		r.Shuffle(len(sc.optKind), func(i, j int) { sc.optKind[i], sc.optKind[j] = sc.optKind[j], sc.optKind[i] })
	}
	return sc
}

// ---------------------------------------------------------------- the test

// vC06Limit is max(512, min(advertised, 1232)) for a decoded query.
func vC06Limit(q *dns.Msg) int {
	limit := 512
	if o := q.IsEdns0(); o != nil {
		limit = int(o.UDPSize())
		if limit < 512 {
			limit = 512
		}
		if limit > 1232 {
			limit = 1232
		}
	}
	return limit
}

// vC06Facts re-reads what the client sent from the library's decode of the packet (the selected
// OPT is the last one): the generator's own bookkeeping does not survive raw-level payloads.
func vC06Facts(gq *vC06Q, body *dns.Msg) {
	gq.hasOpt, gq.ecsOpt, gq.cookie = false, nil, ""
	if body == nil {
		return
	}
	o := body.IsEdns0()
	if o == nil {
		return
	}
	gq.hasOpt = true
	for _, e := range o.Option {
		switch v := e.(type) {
		case *dns.EDNS0_SUBNET:
			gq.ecsOpt = v
		case *dns.EDNS0_COOKIE:
			if len(v.Cookie) >= 16 {
				gq.cookie = v.Cookie[:16]
			}
		}
	}
}

func vC06AbsHeader(raw []byte) string {
	if len(raw) < 12 {
		return "mk_T_Header 0 0 0 0 0 0"
	}
	return fmt.Sprintf("mk_T_Header %d %d %d %d %d %d", binary.BigEndian.Uint16(raw[0:]), binary.BigEndian.Uint16(raw[2:]),
		binary.BigEndian.Uint16(raw[4:]), binary.BigEndian.Uint16(raw[6:]), binary.BigEndian.Uint16(raw[8:]), binary.BigEndian.Uint16(raw[10:]))
}

// vC06Runner serves one (packet, script) step on the real entry and writes its case.
type vC06Runner struct {
	env     *vC06Env
	f       *os.File
	clients []netip.AddrPort
	prev    *vC06Step
}

func (rn *vC06Runner) one(gq *vC06Q, sc *vC06Script, tr, ci, cli int, qid uint16, tune bool, tuneOff int, kprefix string) {
	env, f, clients, prev := rn.env, rn.f, rn.clients, rn.prev
	client := clients[cli]
	raw := gq.raw
	if tr == vC06DOQ && len(raw) >= 2 {
		raw[0], raw[1] = 0, 0 // RFC 9250: clients send ID 0
	}
	body := new(dns.Msg)
	bodyOK := body.Unpack(raw) == nil
	if bodyOK {
		vC06Facts(gq, body)
	} else {
		vC06Facts(gq, nil)
	}

	// boundary tuning of the filler on UDP: aim the shaped length at limit-1 / limit / limit+1
	if tune && bodyOK && sc.write {
		limit := vC06Limit(body)
		target := limit + tuneOff
		if sc.fill == 0 {
			sc.fill = 10
		}
		for it := 0; it < 4; it++ {
			vC06Cur = sc
			sc.tab = vC06NewTab()
			_, cl := env.twin(ci, raw, client, sc)
			if cl == 0 || cl == target {
				break
			}
			nf := sc.fill + target - cl
			if nf < 1 {
				break
			}
			sc.fill = nf
		}
	}
	step := vC06MkStep(tr, ci, cli, qid, false, raw, sc)

	tab := vC06NewTab()
	bodyCoq := "None"
	if bodyOK {
		bodyCoq = "(Some (" + tab.absMsg(body, nil) + "))"
	}
	// the real run
	sc.tab = tab
	sc.called, sc.dn, sc.foreign, sc.undecoded, sc.extraOpt, sc.wireTried = false, "", false, false, false, false
	vC06Cur = sc
	reply := env.run(tr, ci, append([]byte(nil), raw...), client, qid)
	called, dn, foreign, strict, extraOpt := sc.called, sc.dn, sc.foreign, sc.undecoded, sc.extraOpt
	wireTried, blen, hasd, edeWire := sc.wireTried, sc.blen, sc.hasd, sc.edeCoq
	// the length oracle
	ulen, clen := 0, 0
	if tr == vC06UDP && bodyOK {
		ulen, clen = env.twin(ci, raw, client, sc)
	}
	_ = ulen
	vC06Cur = nil

	goFail := ""
	obsCoq := "None"
	oulen, oclen := 0, 0
	var obs *dns.Msg
	if reply != nil {
		obs = new(dns.Msg)
		if err := obs.Unpack(reply); err != nil {
			goFail = "reply does not unpack: " + err.Error()
			obs = nil
		} else {
			obsCoq = "(Some (" + tab.absMsg(obs, nil) + "))"
			oulen = obs.Len() // an unpacked message has Compress = false
			cm := obs.Copy()
			cm.Compress = true
			oclen = cm.Len()
		}
	}
	dnCoq := "None"
	if dn != "" {
		dnCoq = "(Some (" + dn + "))"
	}

	// configuration facts and oracles (server cookie, ECS clamp) for this client
	cfg := env.cfgs[ci]
	nsidCoq := "None"
	if cfg.NSID != "" {
		nsidCoq = fmt.Sprintf("(Some (mk_eopt 3 %d %s))", len(cfg.NSID), new(big.Int).SetBytes([]byte(cfg.NSID)).String())
	}
	cookieCoq := "0"
	if gq.cookie != "" {
		ip := net.IP(client.Addr().AsSlice())
		sck := dnsutil.GenerateServerCookie(cfg.CookieSecret, ip.String(), gq.cookie)
		b, _ := hex.DecodeString(sck)
		cookieCoq = new(big.Int).SetBytes(b).String()
	}
	ecsCoq := "None"
	if gq.ecsOpt != nil && env.pol[ci].Allows(client.Addr()) {
		if fwd := env.pol[ci].Clamp(gq.ecsOpt); fwd != nil {
			ecsCoq = "(Some (" + vC06AbsEopt(fwd) + "))"
		}
	}
	cfgCoq := fmt.Sprintf("(mk_cfg %s %s %s)", nsidCoq, cookieCoq, ecsCoq)

	var coq string
	if (tr == vC06UDP || tr == vC06TCP) && wireTried {
		coq = fmt.Sprintf("CaseWire %s %s %s (%s) %s %s %s %s %s %d %d %s %d %d %d", vC06TrName[tr], cfgCoq, tab.table(), vC06AbsHeader(raw), bodyCoq, vC06B(strict), dnCoq,
			vC06B(hasd), edeWire, blen, clen, obsCoq, len(reply), oulen, oclen)
	} else if tr == vC06UDP || tr == vC06TCP {
		coq = fmt.Sprintf("CaseRaw %s %s %s (%s) %s %s %s %d %s %d %d %d", vC06TrName[tr], cfgCoq, tab.table(), vC06AbsHeader(raw), bodyCoq, vC06B(strict), dnCoq, clen, obsCoq, len(reply), oulen, oclen)
	} else if !bodyOK {
		// DoH answers HTTP 400 / the DoQ handler closes the connection: no DNS reply to judge
		if reply != nil {
			goFail = "undecodable request got a DNS reply on " + vC06TrName[tr]
		}
		coq = ""
	} else {
		qm := body
		if tr == vC06DOQ {
			// the stream handler hands the chain the fresh ID, not the client's
			qm = body.Copy()
			qm.Id = qid
		}
		qmCoq := tab.absMsg(qm, nil)
		coq = fmt.Sprintf("CaseMsg %s %s %s (%s) %s %d %s %d %d %d", vC06TrName[tr], cfgCoq, tab.table(), qmCoq, dnCoq, clen, obsCoq, len(reply), oulen, oclen)
	}

	// kind
	k := strings.ToLower(vC06TrName[tr]) + "-"
	switch {
	case obs == nil && !called:
		k += "silent"
	case obs == nil:
		k += "nowrite"
	case !called && obs.Rcode == dns.RcodeBadVers:
		k += "badvers"
	case !called && obs.Rcode == dns.RcodeNotImplemented:
		k += "notimp"
	case !called && obs.Rcode == dns.RcodeFormatError:
		k += "formerr"
	case !called:
		k += "other"
	case obs.Truncated && len(obs.Answer) == 0 && sc.write && !sc.tc:
		k += "truncated"
	default:
		k += "shaped"
		if strict {
			k += "-strict"
		}
	}
	if wireTried {
		k += "-wire"
	}
	// classes of input that used to trip the four findings fixed by fb9758c (kept as kinds so
	// that the evidence shows they are still generated; they must now pass strictly)
	switch {
	case !called && obs != nil && obs.Rcode == dns.RcodeBadVers && ecsCoq != "None":
		k += "-ecs"
	case !called && obs != nil && obs.Rcode == dns.RcodeBadVers && tr == vC06UDP && len(raw) > vC06Limit(body):
		k += "-bigquery"
	case called && extraOpt && gq.hasOpt && obs != nil:
		k += "-extraopt"
	case called && foreign && gq.hasOpt && obs != nil:
		k += "-foreignopt"
	}
	if (tr == vC06UDP || tr == vC06TCP) && len(raw) < 12 {
		k += "-short"
	}
	k = kprefix + k
	if coq != "" {
		pkt, plen := []byte(nil), 0
		if tr == vC06UDP || tr == vC06TCP {
			pkt, plen = raw[:min(12, len(raw))], len(raw)
		}
		coq = fmt.Sprintf("CaseBytes %s %d %s (%s)", vC06Octets(pkt), plen, vC06Octets(vC06OptTail(obs, reply)), coq)
	}
	fkey := ""
	relax := 0
	if sc.optMode == 4 {
		k += "-reqoptjunk"
		relax = 1
	}
	nontrivial := !(called && !gq.hasOpt && sc.optMode == 0 && len(sc.ns) == 0)
	rec := map[string]any{
		"k": k, "coq": coq, "nontrivial": nontrivial,
		"desc": map[string]any{"transport": vC06TrName[tr], "cfg": ci, "client": client.String(), "query_hex": hex.EncodeToString(raw),
			"downstream": dn, "reply_hex": hex.EncodeToString(reply), "clen_oracle": clen, "step": step, "prev_step": prev},
	}
	rn.prev = step
	if goFail == "" && tab.bad != "" {
		goFail = "driver cannot abstract a record: " + tab.bad
	}
	if goFail != "" {
		rec["go_fail"] = goFail
	}
	if fkey != "" {
		rec["fkey"] = fkey
	}
	if relax != 0 && coq != "" {
		rec["coq"] = fmt.Sprintf("CaseRelax %d (%s)", relax, coq)
		relax = 0
	}
	b, _ := json.Marshal(rec)
	f.Write(append(b, '\n'))
	if relax != 0 && coq != "" {
		// the same input judged without the clause the known finding breaks
		rec2 := map[string]any{"k": k + "-relaxed", "coq": fmt.Sprintf("CaseRelax %d (%s)", relax, coq), "nontrivial": false, "desc": rec["desc"]}
		b2, _ := json.Marshal(rec2)
		f.Write(append(b2, '\n'))
	}
}

func TestVerifC06Server(t *testing.T) {
	outp := os.Getenv("VERIF_OUT")
	if outp == "" {
		t.Skip("VERIF_OUT not set")
	}
	f, err := os.Create(outp)
	if err != nil {
		t.Fatal(err)
	}
	defer f.Close()
	seed := int64(vC06EnvInt("VERIF_SEED", 1))
	r := rand.New(rand.NewSource(seed*1000003 + 6))
	n := vC06EnvInt("VERIF_N", 400)
	env := vC06NewEnv()
	clients := []netip.AddrPort{netip.MustParseAddrPort("192.0.2.7:5353"), netip.MustParseAddrPort("[2001:db8::7]:5353"), netip.MustParseAddrPort("203.0.113.9:4000")}

	corpus := vC06CorpusFile("steps_server.json")
	rn := &vC06Runner{env: env, f: f, clients: clients}
	for c := 0; c < len(corpus)+n; c++ {
		var gq *vC06Q
		var sc *vC06Script
		var tr, ci, cli int
		var qid uint16
		tune, tuneOff := false, 0
		fromCorpus := c < len(corpus)
		if fromCorpus {
			st := corpus[c]
			b, err := hex.DecodeString(st.QueryHex)
			if err != nil || st.Tr < 0 || st.Tr > vC06DOQ || st.Cfg < 0 || st.Cfg > 3 || st.Client < 0 || st.Client > 2 {
				t.Fatalf("corpus step %d is malformed", c)
			}
			gq, sc, tr, ci, cli, qid = &vC06Q{raw: b}, st.script(), st.Tr, st.Cfg, st.Client, st.Qid
		} else {
			gq = vC06GenQuery(r)
			sc = vC06GenScript(r)
			tr = []int{vC06UDP, vC06UDP, vC06UDP, vC06UDP, vC06TCP, vC06TCP, vC06TCP, vC06DOH, vC06DOH, vC06DOQ}[r.Intn(10)]
			ci = r.Intn(4)
			cli = []int{0, 0, 0, 1, 2}[r.Intn(5)]
			qid = uint16(r.Intn(65536))
			if r.Intn(100) == 0 && len(gq.raw) > 12 {
				// shorter than a header (wire.ParseHeader refuses it) or a header and nothing else
				gq.raw = gq.raw[:[]int{1, 2, 5, 10, 11, 11, 12, 12, 12}[r.Intn(9)]]
			}
			if tr == vC06UDP && r.Intn(3) == 0 {
				tune, tuneOff = true, r.Intn(3)-1
			}
		}
		kp := ""
		if fromCorpus {
			kp = "corpus-"
		}
		rn.one(gq, sc, tr, ci, cli, qid, tune, tuneOff, kp)
	}
}

// ---------------------------------------------------------------- exhaustive small scopes (thorough tier only)

// TestVerifC06Enum is the thorough tier's exhaustive part.
//
// Part 1 — the header sweep: for both listeners and nine section-count tuples, ALL 65 536 values of the
// flags word of a header-only packet go through udpEngine.serve / tcpEngine.serveFrame (acceptHeader,
// rejectInPlace, the undecodable-body FORMERR).  One case per (listener, counts) carries the observed
// outcomes run-length encoded (0 = silence, 1 + the 12 reply octets as a number otherwise); Coq expands
// them and compares each with the model (check) and with the accept table of the statement (spec).
//
// Part 2 — the shaper grid: {QUERY, NOTIFY} x RD x AD x CD x {AA|TC|RA|Z all clear, all set} x
// {no OPT, bare OPT DO=0/1, size 512, version 1, each of the 14 option kinds} x {UDP, TCP} x four
// downstream scripts (signed answer without OPT; the request's OPT re-attached with an EDE; an own OPT
// with ECS, keepalive, EDE and a cookie; a byte-path hit with a stored EDE), each as an ordinary case.
func TestVerifC06Enum(t *testing.T) {
	outp := os.Getenv("VERIF_OUT")
	if outp == "" {
		t.Skip("VERIF_OUT not set")
	}
	f, err := os.Create(outp)
	if err != nil {
		t.Fatal(err)
	}
	defer f.Close()
	env := vC06NewEnv()
	clients := []netip.AddrPort{netip.MustParseAddrPort("192.0.2.7:5353"), netip.MustParseAddrPort("[2001:db8::7]:5353"), netip.MustParseAddrPort("203.0.113.9:4000")}

	// part 1
	counts := [][4]uint16{{1, 0, 0, 0}, {1, 1, 1, 2}, {0, 0, 0, 0}, {2, 0, 0, 0}, {1, 2, 0, 0}, {1, 0, 2, 0}, {1, 0, 0, 3}, {1, 1, 1, 3}, {65535, 65535, 65535, 65535}}
	if vC06EnvInt("VERIF_N", 1) > 0 {
		for _, tr := range []int{vC06UDP, vC06TCP} {
			for ci, cnt := range counts {
				id := uint16(0xA55A ^ (ci * 257))
				var runs []string
				cur, n := "", 0
				goFail := ""
				flush := func() {
					if n > 0 {
						runs = append(runs, fmt.Sprintf("(%d, %s)", n, cur))
					}
				}
				for flags := 0; flags < 65536; flags++ {
					var pkt [12]byte
					binary.BigEndian.PutUint16(pkt[0:], id)
					binary.BigEndian.PutUint16(pkt[2:], uint16(flags))
					for i := 0; i < 4; i++ {
						binary.BigEndian.PutUint16(pkt[4+2*i:], cnt[i])
					}
					reply := env.run(tr, 0, pkt[:], clients[0], 0)
					o := "0"
					if reply != nil {
						if len(reply) != 12 {
							if goFail == "" {
								goFail = fmt.Sprintf("flags %#04x: the rejection is %d octets long, not 12", flags, len(reply))
							}
							o = "1"
						} else {
							v := new(big.Int).SetBytes(reply)
							o = v.Add(v, big.NewInt(1)).String()
						}
					}
					if o != cur {
						flush()
						cur, n = o, 0
					}
					n++
				}
				flush()
				coq := fmt.Sprintf("CaseSweep %s %d %d %d %d %d [%s]", vC06TrName[tr], id, cnt[0], cnt[1], cnt[2], cnt[3], strings.Join(runs, "; "))
				rec := map[string]any{"k": "sweep-" + strings.ToLower(vC06TrName[tr]), "coq": coq, "nontrivial": true,
					"desc": map[string]any{"transport": vC06TrName[tr], "id": id, "counts": cnt, "runs": len(runs),
						"what": "all 65536 flag words of a header-only packet; outcomes run-length encoded in the case"}}
				if goFail != "" {
					rec["go_fail"] = goFail
				}
				b, _ := json.Marshal(rec)
				f.Write(append(b, '\n'))
			}
		}
	}

	// part 2
	rn := &vC06Runner{env: env, f: f, clients: clients}
	r := rand.New(rand.NewSource(606))
	type optVar struct {
		present bool
		size    uint16
		do      bool
		ver     uint8
		kind    int // -1: no option
	}
	vars := []optVar{{}, {true, 1232, false, 0, -1}, {true, 1232, true, 0, -1}, {true, 512, false, 0, -1}, {true, 4096, false, 1, -1}}
	for k := 0; k <= 13; k++ {
		vars = append(vars, optVar{true, 4096, k%2 == 1, 0, k})
	}
	scripts := []func() *vC06Script{
		func() *vC06Script {
			return &vC06Script{write: true, ad: true, ra: true, an: vC06AnTpl[1], ns: vC06NsTpl[2], wireEDE: -1}
		},
		func() *vC06Script {
			return &vC06Script{write: true, ad: true, ra: true, an: vC06AnTpl[0], optMode: 1, optKind: []int{10}, optSeed: 11, wireEDE: -1}
		},
		func() *vC06Script {
			return &vC06Script{write: true, ad: true, ra: true, an: vC06AnTpl[2], ns: vC06NsTpl[3], optMode: 2, optKind: []int{0, 8, 10, 3}, optSeed: 12, ownSize: 4096, ownDo: true, wireEDE: -1}
		},
		func() *vC06Script {
			return &vC06Script{write: true, ad: true, ra: true, an: vC06AnTpl[0], wire: true, wireEDE: 3}
		},
	}
	qid := uint16(1)
	for _, tr := range []int{vC06UDP, vC06TCP} {
		for _, opcode := range []int{dns.OpcodeQuery, dns.OpcodeNotify} {
			for bits := 0; bits < 16; bits++ {
				for _, ov := range vars {
					q := new(dns.Msg)
					q.SetQuestion("example.com.", dns.TypeA)
					q.Id = 0x0600 + qid
					q.Opcode = opcode
					q.RecursionDesired = bits&1 != 0
					q.AuthenticatedData = bits&2 != 0
					q.CheckingDisabled = bits&4 != 0
					if bits&8 != 0 {
						q.Authoritative, q.Truncated, q.RecursionAvailable, q.Zero = true, true, true, true
					}
					if ov.present {
						o := &dns.OPT{Hdr: dns.RR_Header{Name: ".", Rrtype: dns.TypeOPT}}
						o.SetUDPSize(ov.size)
						o.SetVersion(ov.ver)
						if ov.do {
							o.SetDo()
						}
						if ov.kind >= 0 {
							o.Option = append(o.Option, vC06MkOpt(ov.kind, r))
						}
						q.Extra = append(q.Extra, o)
					}
					raw, err := q.Pack()
					if err != nil {
						t.Fatalf("enumeration: query does not pack: %v", err)
					}
					for si, mk := range scripts {
						qid++
						rn.one(&vC06Q{raw: append([]byte(nil), raw...)}, mk(), tr, 3, 0, qid, false, 0, fmt.Sprintf("enum%d-", si))
					}
				}
			}
		}
	}
}
