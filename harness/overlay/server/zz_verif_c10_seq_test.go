//go:build verif && linux && (amd64 || arm64)

package server

// C10 driver "seq": sequential, operation-level differential on the REAL UDP
// engine pieces. No engine goroutine runs (except the overflow goroutine the
// real enqueue spawns, which is joined before the next operation); the driver
// plays the reader and the workers itself, one real call at a time:
//
//   take      e.take + j.transition(Free, Reading)            (what both readers do)
//   cycle     r.arm + kernel-filled descriptors + r.finishRecv  (real batch reader:
//             setRemoteRaw, rawSA copy, serveInline / enqueue / enqueueCounted)
//             then the end-of-cycle e.flushTX(&r.txBurst)
//   portable  the portable reader's per-packet assignments (copied by hand from
//             reader(): rxLen, setRemote, pc, pktinfoLen=0, rawSALen=0) + e.enqueue
//   work      one iteration of the worker loop body: <-e.ready, e.serve(j, &burst),
//             `if burst.full() { flushTX }`, or the default branch's flushTX
//   flush     e.flushTX(&burst)
//
// The handler is a stub that executes the script attached to the packet's ID:
// Write / LeaseWire+append+Write / FlushStaged / panic, returning true/false,
// handled/handoff. Replies really leave through sendmmsg / WriteMsgUDPAddrPort
// on a loopback socket and are read back on real client sockets.

import (
	"bytes"
	"encoding/binary"
	"encoding/json"
	"fmt"
	"math/rand"
	"net"
	"net/netip"
	"os"
	"path/filepath"
	"sort"
	"strconv"
	"strings"
	"sync"
	"testing"
	"time"

	"github.com/miekg/dns"
	"github.com/semihalev/sdns/middleware"
	"golang.org/x/sys/unix"
)

func vC10EnvInt(name string, def int) int {
	if s := os.Getenv(name); s != "" {
		if n, err := strconv.Atoi(s); err == nil {
			return n
		}
	}
	return def
}

// vC10RLE renders bytes as a Coq list of (count, byte) pairs.
func vC10RLE(b []byte) string {
	var sb strings.Builder
	sb.WriteString("[")
	first := true
	for i := 0; i < len(b); {
		j := i
		for j < len(b) && b[j] == b[i] {
			j++
		}
		if !first {
			sb.WriteString(";")
		}
		first = false
		fmt.Fprintf(&sb, "(%d,%d)", j-i, b[i])
		i = j
	}
	sb.WriteString("]")
	return sb.String()
}

func vC10Bool(b bool) string {
	if b {
		return "true"
	}
	return "false"
}

const (
	vC10HopWrite = iota
	vC10HopLease
	vC10HopAppend
	vC10HopWriteLease
	vC10HopFlush
	vC10HopPanic
	vC10HopWriteMsg
)

// data of a WriteMsg hop: the message packed on its own (m.Pack into fresh memory — the
// reference for what the client must receive); ulen: its UNCOMPRESSED length, which is what the
// library's PackBuffer sizes its output array by.
type vC10Hop struct {
	kind int
	data []byte
	msg  *dns.Msg
	ulen int
}

// Go-side white-box findings of handler hops (the overflow goroutine runs hops too).
var (
	vC10HopMu    sync.Mutex
	vC10HopFails []string
)

func vC10HopFail(format string, a ...any) {
	vC10HopMu.Lock()
	if len(vC10HopFails) < 4 {
		vC10HopFails = append(vC10HopFails, fmt.Sprintf(format, a...))
	}
	vC10HopMu.Unlock()
}

func vC10TakeHopFails() string {
	vC10HopMu.Lock()
	defer vC10HopMu.Unlock()
	s := strings.Join(vC10HopFails, "; ")
	vC10HopFails = nil
	return s
}

func vC10Ulen(m *dns.Msg) int {
	c := *m
	c.Compress = false
	return c.Len()
}

// vC10MsgHop builds a reply MESSAGE for packet id: a question whose name is up to four labels
// of one letter each, answered by TXT records under that same (compressible) owner name.
//
//	small   one short record: packs in place, far from every bound
//	grown   uncompressed length beyond the slab while the wire form is a few hundred octets:
//	        the library packs it in an array of ITS OWN and hands back a short slice of that
//	edge    uncompressed length udpJobBufSize-3 .. +3 (the library's choice of array flips at
//	        uncompressed+1 > len(buf)), wire form small
//	mid     packs in place, wire form 1–3.5 KB
//	huge    the wire form itself exceeds the slab: Write must refuse it
func vC10MsgHop(r *rand.Rand, id uint16, shape string, buf int) vC10Hop {
	letter := func() string { return string(rune('a' + r.Intn(26))) }
	label := func(n int) string { return strings.Repeat(letter(), n) }
	m := new(dns.Msg)
	m.Id = id
	m.Response = true
	m.RecursionAvailable = true
	m.Compress = true
	name := "c10."
	nrec, txt := 1, 8
	target := 0
	switch shape {
	case "small":
		name = label(1+r.Intn(20)) + "." + name
		nrec, txt = 1+r.Intn(2), 1+r.Intn(30)
	case "grown":
		name = label(63) + "." + label(63) + "." + label(40+r.Intn(23)) + "." + name
		nrec = 0
		target = buf + 1 + r.Intn(900)
	case "edge":
		name = label(63) + "." + label(63) + "." + label(63) + "." + label(30+r.Intn(20)) + "." + name
		nrec = 0
		target = buf - 3 + r.Intn(7)
	case "mid":
		name = label(10+r.Intn(40)) + "." + name
		nrec, txt = 4+r.Intn(10), 250
	case "huge":
		name = label(10+r.Intn(40)) + "." + name
		nrec, txt = 17+r.Intn(3), 255
	}
	m.Question = []dns.Question{{Name: name, Qtype: dns.TypeTXT, Qclass: dns.ClassINET}}
	// a TXT record of n content octets in strings of at most 255, each string one letter
	rr := func(n int) *dns.TXT {
		t := &dns.TXT{Hdr: dns.RR_Header{Name: name, Rrtype: dns.TypeTXT, Class: dns.ClassINET, Ttl: 60}}
		for {
			t.Txt = append(t.Txt, strings.Repeat(letter(), min(n, 255)))
			if n -= 255; n <= 0 {
				return t
			}
		}
	}
	for i := 0; i < nrec; i++ {
		m.Answer = append(m.Answer, rr(txt))
	}
	if target > 0 {
		// k records (4..16: few long ones or many short ones) that stop short of the target
		// uncompressed length, then one padded up to it exactly
		fixed := len(name) + 1 + 10 + 2 // owner, fixed RR part, one string's length octet + slack
		k := 4 + r.Intn(13)
		if kmax := (target - 400) / fixed; k > kmax {
			k = kmax
		}
		n := max(1, (target-vC10Ulen(m)-300)/k-fixed)
		for i := 0; i < k-1; i++ {
			m.Answer = append(m.Answer, rr(n))
		}
		pad := rr(0)
		m.Answer = append(m.Answer, pad)
		for d := target - vC10Ulen(m); d > 0; d = target - vC10Ulen(m) {
			last := len(pad.Txt) - 1
			if room := 255 - len(pad.Txt[last]); room > 0 {
				pad.Txt[last] += strings.Repeat("p", min(d, room))
			} else {
				pad.Txt = append(pad.Txt, "")
			}
		}
	}
	exp, err := m.Pack()
	if err != nil {
		return vC10Hop{kind: vC10HopFlush}
	}
	return vC10Hop{kind: vC10HopWriteMsg, data: exp, msg: m, ulen: vC10Ulen(m)}
}

func (g *vC10Gen) msgHop(id uint16, buf int) vC10Hop {
	shape := "small"
	switch k := g.r.Intn(100); {
	case k < 20:
	case k < 55:
		shape = "grown"
	case k < 80:
		shape = "edge"
	case k < 92:
		shape = "mid"
	default:
		shape = "huge"
	}
	return vC10MsgHop(g.r, id, shape, buf)
}

type vC10Script struct {
	inl     []vC10Hop
	handoff bool
	main    []vC10Hop
	ok      bool
}

func vC10HopsCoq(hs []vC10Hop) string {
	var parts []string
	for _, h := range hs {
		switch h.kind {
		case vC10HopWrite:
			parts = append(parts, "HW "+vC10RLE(h.data))
		case vC10HopLease:
			parts = append(parts, "HL")
		case vC10HopAppend:
			parts = append(parts, "HA "+vC10RLE(h.data))
		case vC10HopWriteLease:
			parts = append(parts, "HWL")
		case vC10HopFlush:
			parts = append(parts, "HF")
		case vC10HopPanic:
			parts = append(parts, "HP")
		case vC10HopWriteMsg:
			parts = append(parts, fmt.Sprintf("HM %d %s", h.ulen, vC10RLE(h.data)))
		}
	}
	return "[" + strings.Join(parts, ";") + "]"
}

func (s *vC10Script) coq() string {
	return fmt.Sprintf("(SC %s %s %s %s)", vC10HopsCoq(s.inl), vC10Bool(s.handoff), vC10HopsCoq(s.main), vC10Bool(s.ok))
}

// vC10RunHops executes a script against a transport. leaseCap is what the
// handler asks LeaseWire for.
func vC10RunHops(w middleware.Transport, hs []vC10Hop, leaseCap int) {
	var lease []byte
	for _, h := range hs {
		switch h.kind {
		case vC10HopWrite:
			buf := append([]byte(nil), h.data...) // a caller-owned buffer, never the slab
			_, _ = w.Write(buf)
		case vC10HopLease:
			lease = nil
			if l, ok := w.(middleware.WireTransportLeaser); ok {
				lease = l.LeaseWire(leaseCap)
			}
		case vC10HopAppend:
			lease = append(lease, h.data...)
		case vC10HopWriteLease:
			_, _ = w.Write(lease)
		case vC10HopFlush:
			if f, ok := w.(middleware.StagedFlusher); ok {
				f.FlushStaged()
			}
		case vC10HopPanic:
			panic("verif: scripted handler panic")
		case vC10HopWriteMsg:
			j, _ := w.(*udpJob)
			pre := j != nil && len(h.data) <= len(j.tx) && bytes.Equal(j.tx[:len(h.data)], h.data)
			_ = w.WriteMsg(h.msg)
			if j == nil || len(h.data) > len(j.tx) {
				break
			}
			// white box, Go side: where the library packed (its own sizing rule, by the
			// UNCOMPRESSED length) and what the job has staged
			inTX := bytes.Equal(j.tx[:len(h.data)], h.data)
			if want := h.ulen+1 <= len(j.tx) || j.burst != nil; inTX != want && !pre {
				vC10HopFail("WriteMsg of a %d-octet message (uncompressed %d) on a job with burst=%v: message in the TX buffer afterwards = %v, expected %v", len(h.data), h.ulen, j.burst != nil, inTX, want)
			}
			if j.burst != nil && (j.txLen != len(h.data) || !inTX) {
				vC10HopFail("WriteMsg of a %d-octet message (uncompressed %d) staged %d octets that are not the message", len(h.data), h.ulen, j.txLen)
			}
		}
	}
}

type vC10SeqHandler struct {
	scripts map[uint16]*vC10Script
	inline  bool
}

func (h *vC10SeqHandler) script(raw []byte) *vC10Script {
	if len(raw) >= 2 {
		if s := h.scripts[binary.BigEndian.Uint16(raw)]; s != nil {
			return s
		}
	}
	return &vC10Script{ok: true}
}

func (h *vC10SeqHandler) ServeRaw(w middleware.Transport, raw []byte, _ time.Time) bool {
	s := h.script(raw)
	vC10RunHops(w, s.main, udpJobBufSize)
	return s.ok
}
func (h *vC10SeqHandler) InlineReady() bool { return h.inline }
func (h *vC10SeqHandler) ServeRawInline(w middleware.Transport, raw []byte, _ time.Time) bool {
	s := h.script(raw)
	vC10RunHops(w, s.inl, udpJobBufSize)
	return !s.handoff
}
func (h *vC10SeqHandler) ServeRawReplay(w middleware.Transport, raw []byte, t time.Time) bool {
	return h.ServeRaw(w, raw, t)
}

// ---------------------------------------------------------------- generator

type vC10Gen struct {
	r      *rand.Rand
	nextID int
}

func (g *vC10Gen) id() uint16 {
	g.nextID++
	if g.nextID >= 0xFE00 {
		g.nextID = 1
	}
	return uint16(g.nextID)
}

// payload: the packet's ID, a run of one byte, a couple of distinct bytes.
func (g *vC10Gen) payload(id uint16, n int) []byte {
	b := make([]byte, n)
	fill := byte(g.r.Intn(250) + 1)
	for i := range b {
		b[i] = fill
	}
	if n >= 1 {
		b[0] = byte(id >> 8)
	}
	if n >= 2 {
		b[1] = byte(id)
	}
	if n >= 4 {
		b[n-1] = byte(g.r.Intn(256))
	}
	if n >= 8 && g.r.Intn(2) == 0 {
		b[2+g.r.Intn(n-3)] = byte(g.r.Intn(256))
	}
	return b
}

func (g *vC10Gen) size() int {
	switch g.r.Intn(40) {
	case 0:
		return udpJobBufSize
	case 1:
		return udpJobBufSize - 1
	case 2:
		return 0
	case 3:
		return 1
	case 4:
		return 2
	case 5:
		return 512 + g.r.Intn(2000)
	}
	return 12 + g.r.Intn(40)
}

func (g *vC10Gen) hops(id uint16, allowPanic bool) []vC10Hop {
	if g.r.Intn(100) < 6 {
		// the Msg path: Transport.WriteMsg, alone and around the other ways of writing
		mh := g.msgHop(id, udpJobBufSize)
		switch g.r.Intn(8) {
		case 0:
			return []vC10Hop{{kind: vC10HopWrite, data: g.payload(id, g.size())}, mh}
		case 1:
			return []vC10Hop{mh, {kind: vC10HopWrite, data: g.payload(id, 2+g.r.Intn(20))}}
		case 2:
			return []vC10Hop{{kind: vC10HopLease}, {kind: vC10HopAppend, data: g.payload(id, 4+g.r.Intn(60))}, mh}
		case 3:
			return []vC10Hop{{kind: vC10HopFlush}, mh}
		}
		return []vC10Hop{mh}
	}
	switch k := g.r.Intn(100); {
	case k < 45:
		return []vC10Hop{{kind: vC10HopWrite, data: g.payload(id, g.size())}}
	case k < 65:
		a := g.payload(id, 2+g.r.Intn(30))
		hs := []vC10Hop{{kind: vC10HopLease}, {kind: vC10HopAppend, data: a}}
		if g.r.Intn(2) == 0 {
			hs = append(hs, vC10Hop{kind: vC10HopAppend, data: g.payload(id, 1+g.r.Intn(20))[1:]})
		}
		if g.r.Intn(12) == 0 {
			// fill the slab's TX to the brim
			total := 0
			for _, h := range hs {
				total += len(h.data)
			}
			hs = append(hs, vC10Hop{kind: vC10HopAppend, data: g.payload(id, udpJobBufSize-total)[2:]}, vC10Hop{kind: vC10HopAppend, data: []byte{7, 7}})
		}
		return append(hs, vC10Hop{kind: vC10HopWriteLease})
	case k < 73:
		return nil
	case k < 78:
		if !allowPanic {
			return nil
		}
		if g.r.Intn(2) == 0 {
			return []vC10Hop{{kind: vC10HopPanic}}
		}
		return []vC10Hop{{kind: vC10HopWrite, data: g.payload(id, g.size())}, {kind: vC10HopPanic}}
	case k < 81:
		return []vC10Hop{{kind: vC10HopWrite, data: g.payload(id, udpJobBufSize+1+g.r.Intn(3))}}
	case k < 87:
		return []vC10Hop{{kind: vC10HopFlush}, {kind: vC10HopWrite, data: g.payload(id, g.size())}}
	case k < 91:
		return []vC10Hop{{kind: vC10HopWrite, data: g.payload(id, g.size())}, {kind: vC10HopWrite, data: g.payload(id, 2+g.r.Intn(20))}}
	case k < 94:
		// a body built in the lease and never committed
		return []vC10Hop{{kind: vC10HopLease}, {kind: vC10HopAppend, data: g.payload(id, 4+g.r.Intn(60))}}
	case k < 97:
		// staged, then the lease region is scribbled over without a second Write
		return []vC10Hop{{kind: vC10HopWrite, data: g.payload(id, 20)}, {kind: vC10HopLease}, {kind: vC10HopAppend, data: g.payload(id, 6)}}
	default:
		return []vC10Hop{{kind: vC10HopWrite, data: g.payload(id, g.size())}, {kind: vC10HopFlush}}
	}
}

func (g *vC10Gen) script(id uint16, inline bool) *vC10Script {
	s := &vC10Script{ok: g.r.Intn(16) != 0}
	s.main = g.hops(id, true)
	if inline {
		switch k := g.r.Intn(100); {
		case k < 40: // a miss: declined unwritten
			s.handoff = true
		case k < 85: // a hit
			s.inl = g.hops(id, true)
		case k < 92: // wrote and still asked for a handoff
			s.inl = g.hops(id, false)
			s.handoff = true
		default:
			s.inl = nil
		}
	}
	return s
}

// packet: header shapes that reach every verdict of the accept ladder.
func (g *vC10Gen) packet(id uint16) []byte {
	n := 12 + g.r.Intn(30)
	b := make([]byte, n)
	fill := byte(g.r.Intn(256))
	for i := 12; i < n; i++ {
		b[i] = fill
		if g.r.Intn(6) == 0 {
			b[i] = byte(g.r.Intn(256))
		}
	}
	b[0], b[1] = byte(id>>8), byte(id)
	b[2] = byte(g.r.Intn(2)) // RD
	b[5] = 1                 // QDCOUNT
	switch k := g.r.Intn(100); {
	case k < 72:
	case k < 77: // too short to be a header
		return b[:[]int{0, 1, 2, 5, 11}[g.r.Intn(5)]]
	case k < 82: // a response
		b[2] |= 0x80
	case k < 87: // foreign opcode
		b[2] |= byte([]int{1, 2, 3, 5, 6, 15}[g.r.Intn(6)]) << 3
	case k < 90: // NOTIFY is accepted
		b[2] |= 4 << 3
	case k < 93:
		b[5] = byte([]int{0, 2}[g.r.Intn(2)])
	case k < 95:
		b[7] = 2
	case k < 97:
		b[9] = 2
	case k < 99:
		b[11] = 3
	default:
		b[4] = 1 // QDCOUNT 257
	}
	return b
}

// ---------------------------------------------------------------- one case

type vC10SeqCase struct {
	ops       []string
	panicked  string
	e         *udpEngine
	r         *udpBatchReader
	pc        *net.UDPConn
	clients   []*net.UDPConn
	caddr     []netip.AddrPort
	held      []*udpJob
	sids      map[*udpJob]int
	jobs      []*udpJob
	bursts    []udpTXBurst
	blocked   []bool
	h         *vC10SeqHandler
	idLo      int
	kinds     map[string]int
	inlineOn  bool
	portables int
	rs        []*udpBatchReader // one reader per server socket
	pcs       []*net.UDPConn
	rdOf      map[*udpJob]int // which reader took the slab
}

func (c *vC10SeqCase) sid(j *udpJob) int {
	if id, ok := c.sids[j]; ok {
		return id
	}
	id := len(c.jobs)
	c.sids[j] = id
	c.jobs = append(c.jobs, j)
	return id
}

func (c *vC10SeqCase) guard(f func()) (ok bool) {
	defer func() {
		if r := recover(); r != nil {
			c.panicked = fmt.Sprint(r)
			ok = false
		}
	}()
	f()
	return true
}

func (c *vC10SeqCase) dropHeld(j *udpJob) {
	for i, x := range c.held {
		if x == j {
			c.held = append(c.held[:i], c.held[i+1:]...)
			return
		}
	}
}

func vC10Sockaddr4(ap netip.AddrPort) []byte {
	sa := make([]byte, unix.SizeofSockaddrInet4)
	binary.NativeEndian.PutUint16(sa[0:2], unix.AF_INET)
	sa[2], sa[3] = byte(ap.Port()>>8), byte(ap.Port())
	a4 := ap.Addr().As4()
	copy(sa[4:8], a4[:])
	return sa
}

// ---------------------------------------------------------------- corpus
//
// corpus/C10/seq-*.json: fixed operation histories on the real engine pieces, replayed before
// the generated ones (minimal inputs of the seeded changes and mutations this driver caught).
//
//	{"name": "...", "cap": 2, "queue": 1, "workers": 1, "batchtx": true, "inline": false, "sockets": 1,
//	 "ops": [{"op": "take", "r": 0}, {"op": "recv", "r": 0, "pkts": [{"client": 0, "reply": [20]}]},
//	         {"op": "portable", "r": 0, "pkts": [{"client": 1, "reply": [12]}]}, {"op": "work", "w": 0}, {"op": "flush", "w": 0}]}
//
// a packet: client 0..2; hdr "" (accepted) | "short" | "qr" | "opcode" | "counts"; "reply": sizes the
// main pass Writes; "lease": build the first reply in the leased TX buffer; "inline": sizes the
// inline pass Writes; "handoff": the inline pass declines; "ok": false = undecodable body;
// "fail": "trunc" | "short-sockaddr" | "bad-family" (the receive itself fails).
type vC10SeqCorpusPkt struct {
	Client  int    `json:"client"`
	Hdr     string `json:"hdr"`
	Reply   []int  `json:"reply"`
	Lease   bool   `json:"lease"`
	Inline  []int  `json:"inline"`
	Handoff bool   `json:"handoff"`
	Ok      *bool  `json:"ok"`
	Fail    string `json:"fail"`
	Msg     string `json:"msg"` // the main pass answers through WriteMsg: small | grown | edge | mid | huge
}
type vC10SeqCorpusOp struct {
	Op   string             `json:"op"`
	R    int                `json:"r"`
	W    int                `json:"w"`
	Pkts []vC10SeqCorpusPkt `json:"pkts"`
}
type vC10SeqCorpusCase struct {
	Name    string            `json:"name"`
	Cap     int               `json:"cap"`
	Queue   int               `json:"queue"`
	Workers int               `json:"workers"`
	BatchTX bool              `json:"batchtx"`
	Inline  bool              `json:"inline"`
	Sockets int               `json:"sockets"`
	Ops     []vC10SeqCorpusOp `json:"ops"`
}

func vC10LoadSeqCorpus() []vC10SeqCorpusCase {
	dir := os.Getenv("VERIF_CORPUS")
	if dir == "" {
		return nil
	}
	files, _ := filepath.Glob(filepath.Join(dir, "seq-*.json"))
	sort.Strings(files)
	var out []vC10SeqCorpusCase
	for _, p := range files {
		if b, err := os.ReadFile(p); err == nil {
			var cs []vC10SeqCorpusCase
			if json.Unmarshal(b, &cs) == nil {
				out = append(out, cs...)
			}
		}
	}
	return out
}

// build turns a corpus packet into wire bytes and a handler script.
func (p *vC10SeqCorpusPkt) build(id uint16, inlineOn bool) ([]byte, *vC10Script) {
	pkt := []byte{byte(id >> 8), byte(id), 1, 0, 0, 1, 0, 0, 0, 0, 0, 0, 5, 5, 5, 5}
	switch p.Hdr {
	case "short":
		pkt = pkt[:5]
	case "qr":
		pkt[2] |= 0x80
	case "opcode":
		pkt[2] |= 2 << 3
	case "counts":
		pkt[5] = 2
	}
	sc := &vC10Script{ok: p.Ok == nil || *p.Ok}
	for i, n := range p.Reply {
		if i == 0 && p.Lease {
			sc.main = append(sc.main, vC10Hop{kind: vC10HopLease}, vC10Hop{kind: vC10HopAppend, data: vC10CorpusPayload(id, n)}, vC10Hop{kind: vC10HopWriteLease})
			continue
		}
		sc.main = append(sc.main, vC10Hop{kind: vC10HopWrite, data: vC10CorpusPayload(id, n)})
	}
	if p.Msg != "" {
		sc.main = append(sc.main, vC10MsgHop(rand.New(rand.NewSource(int64(len(p.Msg))*131+int64(p.Client))), id, p.Msg, udpJobBufSize))
	}
	if inlineOn {
		for _, n := range p.Inline {
			sc.inl = append(sc.inl, vC10Hop{kind: vC10HopWrite, data: vC10CorpusPayload(id, n)})
		}
		sc.handoff = p.Handoff
	}
	return pkt, sc
}

func TestVerifC10Seq(t *testing.T) {
	out := os.Getenv("VERIF_OUT")
	if out == "" {
		t.Skip("VERIF_OUT not set")
	}
	f, err := os.Create(out)
	if err != nil {
		t.Fatal(err)
	}
	defer f.Close()
	seed := vC10EnvInt("VERIF_SEED", 1)
	n := vC10EnvInt("VERIF_N", 300)
	g := &vC10Gen{r: rand.New(rand.NewSource(int64(seed)*7919 + 10))}

	pc, err := net.ListenUDP("udp4", &net.UDPAddr{IP: net.IPv4(127, 0, 0, 1)})
	if err != nil {
		t.Fatal(err)
	}
	defer pc.Close()
	// a second server socket: a quarter of the cases run the engine on both (one reader each,
	// one slab pool), a client's flow being (client, server socket)
	pc2, err := net.ListenUDP("udp4", &net.UDPAddr{IP: net.IPv4(127, 0, 0, 1)})
	if err != nil {
		t.Fatal(err)
	}
	defer pc2.Close()
	pc2Port := pc2.LocalAddr().(*net.UDPAddr).AddrPort().Port()
	const nClients = 3
	var clients []*net.UDPConn
	var caddr []netip.AddrPort
	for i := 0; i < nClients; i++ {
		c, err := net.ListenUDP("udp4", &net.UDPAddr{IP: net.IPv4(127, 0, 0, 1)})
		if err != nil {
			t.Fatal(err)
		}
		defer c.Close()
		_ = c.SetReadBuffer(4 << 20)
		clients = append(clients, c)
		caddr = append(caddr, c.LocalAddr().(*net.UDPAddr).AddrPort())
	}

	type pending struct {
		line   map[string]any
		lo, hi int // packet-ID range of the case
	}
	var lines []*pending
	rbuf := make([]byte, 65536)
	// Finished cases are written once they are too old to be hit by a straggler;
	// behind them sits a sentinel for the case in progress, rewritten after every
	// operation and replaced by the real line when the case completes. An engine
	// panic on a goroutine the driver cannot recover (the overflow goroutine)
	// kills the process and leaves the sentinel: a Go-side oracle failure with
	// the operations that led there.
	var off int64
	flush := func(keep int) {
		_ = f.Truncate(off)
		_, _ = f.Seek(off, 0)
		for len(lines) > keep {
			b, _ := json.Marshal(lines[0].line)
			n, _ := f.Write(append(b, '\n'))
			off += int64(n)
			lines = lines[1:]
		}
	}
	sentinel := func(c *vC10SeqCase, capN, qcap, workers int, batchtx bool) {
		_ = f.Truncate(off)
		_, _ = f.Seek(off, 0)
		b, _ := json.Marshal(map[string]any{
			"k":          "udp-seq-died",
			"nontrivial": true,
			"go_fail":    "the process died inside this case: an engine panic on a goroutine nothing recovers",
			"desc":       map[string]any{"slabCap": capN, "queue": qcap, "workers": workers, "batchtx": batchtx, "inline": c.inlineOn, "ops_so_far": c.ops},
		})
		_, _ = f.Write(append(b, '\n'))
	}

	corpus := vC10LoadSeqCorpus()
	for cn := -len(corpus); cn < n; cn++ {
		r := g.r
		var fixed *vC10SeqCorpusCase
		if cn < 0 {
			fixed = &corpus[cn+len(corpus)]
		}
		shape := r.Intn(12)
		capN, qcap, workers := 2+r.Intn(5), 1+r.Intn(3), 1+r.Intn(2)
		if shape == 0 { // room for a full burst
			capN, qcap, workers = 40, 36, 1
		}
		batchtx := r.Intn(4) != 0
		inlineOn := r.Intn(2) == 0
		if fixed != nil {
			shape, capN, qcap, workers, batchtx, inlineOn = 1, max(2, fixed.Cap), max(1, fixed.Queue), max(1, fixed.Workers), fixed.BatchTX, fixed.Inline
		}
		h := &vC10SeqHandler{scripts: map[uint16]*vC10Script{}, inline: inlineOn}
		pcs := []*net.UDPConn{pc}
		if (fixed == nil && shape != 0 && r.Intn(4) == 0) || (fixed != nil && fixed.Sockets == 2) {
			pcs = append(pcs, pc2)
		}
		plan := resourcePlan{udpSockets: len(pcs), udpWorkers: workers, udpQueue: qcap}
		plan.udpSpareSlabs = int64(capN - (qcap + workers + len(pcs)*udpReaderReserve))
		e := newUDPEngine(h, pcs, false, workers, qcap, plan)
		if int(e.slabCap) != capN || e.txConns == nil || e.txConns[pc] == nil || (len(pcs) == 2 && e.txConns[pc2] == nil) {
			t.Fatalf("engine set-up: slabCap=%d want %d txConns=%v", e.slabCap, capN, e.txConns)
		}
		if !batchtx {
			e.txRetired.Store(true)
		}
		c := &vC10SeqCase{e: e, pc: pc, clients: clients, caddr: caddr, sids: map[*udpJob]int{}, h: h,
			bursts: make([]udpTXBurst, workers), blocked: make([]bool, workers), idLo: g.nextID + 1, inlineOn: inlineOn,
			kinds: map[string]int{}, pcs: pcs, rdOf: map[*udpJob]int{}}
		for w := range c.bursts {
			c.bursts[w].slot = w
		}
		for i, p := range pcs {
			c.rs = append(c.rs, newUDPBatchReader(e, i, p, e.txConns[p]))
		}
		c.r = c.rs[0]

		nops := 12 + r.Intn(30)
		if shape == 0 {
			nops = 90
		}
		flush(4)
		if fixed != nil {
			nops = 0
			for _, o := range fixed.Ops {
				if c.panicked != "" {
					break
				}
				sentinel(c, capN, qcap, workers, batchtx)
				ri := min(max(o.R, 0), len(c.rs)-1)
				w := min(max(o.W, 0), workers-1)
				var mine []*udpJob
				for _, j := range c.held {
					if c.rdOf[j] == ri {
						mine = append(mine, j)
					}
				}
				switch o.Op {
				case "take":
					var j *udpJob
					if !c.guard(func() {
						j = e.take(c.rs[ri].idx)
						if j != nil {
							j.transition(udpJobFree, udpJobReading)
						}
					}) {
						break
					}
					if j == nil {
						c.ops = append(c.ops, fmt.Sprintf("UTake %d 0 false", ri))
					} else {
						c.held = append(c.held, j)
						c.rdOf[j] = ri
						c.ops = append(c.ops, fmt.Sprintf("UTake %d %d true", ri, c.sid(j)))
					}
				case "recv":
					rr := c.rs[ri]
					cnt := min(len(o.Pkts), len(mine), udpBatchSize)
					if cnt == 0 {
						continue
					}
					batch := append([]*udpJob(nil), mine[:cnt]...)
					for i, j := range batch {
						rr.arm(j, i)
					}
					now := time.Now()
					for i, j := range batch {
						cp := &o.Pkts[i]
						cl := min(max(cp.Client, 0), nClients-1)
						id := g.id()
						pkt, sc := cp.build(id, inlineOn)
						h.scripts[id] = sc
						hd := &rr.hdrs[i]
						copy(j.rx[:], pkt)
						hd.dlen = uint32(len(pkt))
						sa := vC10Sockaddr4(caddr[cl])
						copy(rr.names[i][:], sa)
						hd.hdr.Namelen = uint32(len(sa))
						hd.hdr.Flags = 0
						switch cp.Fail {
						case "trunc":
							hd.hdr.Flags = unix.MSG_TRUNC
						case "short-sockaddr":
							hd.hdr.Namelen = 1
						case "bad-family":
							binary.NativeEndian.PutUint16(rr.names[i][0:2], unix.AF_UNIX)
						}
						c.dropHeld(j)
						ok := c.guard(func() {
							rr.finishRecv(i, now)
							e.overflowG.Wait()
						})
						if cp.Fail != "" {
							c.ops = append(c.ops, fmt.Sprintf("URecvFail %d %d", ri, c.sid(j)))
						} else {
							c.ops = append(c.ops, fmt.Sprintf("URecv %d %d true %s %d %s %s", ri, c.sid(j), vC10Bool(inlineOn), cl+1+1024*ri, vC10RLE(pkt), sc.coq()))
						}
						if !ok {
							break
						}
					}
					if c.panicked == "" {
						c.guard(func() {
							if rr.txBurst.n > 0 {
								e.flushTX(&rr.txBurst)
							}
						})
						c.ops = append(c.ops, fmt.Sprintf("UFlush %d", workers+ri))
					}
				case "portable":
					if len(mine) == 0 || len(o.Pkts) == 0 {
						continue
					}
					j := mine[0]
					cp := &o.Pkts[0]
					cl := min(max(cp.Client, 0), nClients-1)
					id := g.id()
					pkt, sc := cp.build(id, false)
					h.scripts[id] = sc
					c.dropHeld(j)
					c.guard(func() {
						copy(j.rx[:], pkt)
						j.rxLen = len(pkt)
						j.readTime = time.Now()
						j.setRemote(caddr[cl])
						j.pc = c.pcs[ri]
						j.pktinfoLen = 0
						j.rawSALen = 0
						e.enqueue(j)
						e.overflowG.Wait()
					})
					c.portables++
					c.ops = append(c.ops, fmt.Sprintf("URecv %d %d false false %d %s %s", ri, c.sid(j), cl+1+1024*ri, vC10RLE(pkt), sc.coq()))
				case "work":
					c.guard(func() {
						select {
						case j := <-e.ready:
							e.serve(j, &c.bursts[w])
							if !c.blocked[w] && c.bursts[w].full() {
								e.flushTX(&c.bursts[w])
							}
							c.blocked[w] = false
						default:
							if !c.blocked[w] {
								e.flushTX(&c.bursts[w])
								c.blocked[w] = true
							}
						}
					})
					c.ops = append(c.ops, fmt.Sprintf("UWork %d", w))
				case "flush":
					c.guard(func() { e.flushTX(&c.bursts[w]) })
					c.ops = append(c.ops, fmt.Sprintf("UFlush %d", w))
				}
			}
		}
		for op := 0; op < nops && c.panicked == ""; op++ {
			sentinel(c, capN, qcap, workers, batchtx)
			k := r.Intn(100)
			if shape == 0 {
				// takes, then receives, then work: drives a burst to its bound
				switch {
				case op < 20:
					k = 0
				case op < 24:
					k = 30
				case op < 70:
					k = 70
				}
			}
			switch {
			case k < 25: // take
				var j *udpJob
				ri := r.Intn(len(c.rs))
				ok := c.guard(func() {
					j = e.take(c.rs[ri].idx)
					if j != nil {
						j.transition(udpJobFree, udpJobReading)
					}
				})
				if !ok {
					break
				}
				if j == nil {
					c.ops = append(c.ops, fmt.Sprintf("UTake %d 0 false", ri))
					c.kinds["take-shed"]++
				} else {
					c.held = append(c.held, j)
					c.rdOf[j] = ri
					c.ops = append(c.ops, fmt.Sprintf("UTake %d %d true", ri, c.sid(j)))
				}
			case k < 60: // one receive cycle of the batch reader
				if len(c.held) == 0 {
					continue
				}
				// the cycle of one socket's reader: the slabs that reader armed
				ri := c.rdOf[c.held[r.Intn(len(c.held))]]
				rr := c.rs[ri]
				var mine []*udpJob
				for _, j := range c.held {
					if c.rdOf[j] == ri {
						mine = append(mine, j)
					}
				}
				cnt := 1 + r.Intn(len(mine))
				if cnt > udpBatchSize {
					cnt = udpBatchSize
				}
				if shape != 0 && cnt > 3 {
					cnt = 1 + r.Intn(3)
				}
				if shape == 0 {
					cnt = min(len(mine), udpBatchSize)
				}
				batch := append([]*udpJob(nil), mine[:cnt]...)
				for i, j := range batch {
					rr.arm(j, i)
				}
				now := time.Now()
				for i, j := range batch {
					cl := r.Intn(nClients)
					id := g.id()
					pkt := g.packet(id)
					sc := g.script(id, inlineOn)
					if shape == 0 && r.Intn(8) != 0 {
						pkt = pkt[:12]
						pkt[2], pkt[4], pkt[5], pkt[6], pkt[7], pkt[8], pkt[9], pkt[10], pkt[11] = 0, 0, 1, 0, 0, 0, 0, 0, 0
						sc = &vC10Script{ok: true, main: []vC10Hop{{kind: vC10HopWrite, data: g.payload(id, 14)}}, handoff: true}
						if inlineOn && r.Intn(2) == 0 {
							sc.handoff = false
							sc.inl = sc.main
						}
					}
					h.scripts[id] = sc
					fail := r.Intn(25) == 0
					hd := &rr.hdrs[i]
					copy(j.rx[:], pkt)
					hd.dlen = uint32(len(pkt))
					sa := vC10Sockaddr4(caddr[cl])
					copy(rr.names[i][:], sa)
					hd.hdr.Namelen = uint32(len(sa))
					hd.hdr.Flags = 0
					failKind := ""
					if fail {
						switch r.Intn(3) {
						case 0:
							hd.hdr.Flags = unix.MSG_TRUNC
							failKind = "trunc"
						case 1:
							hd.hdr.Namelen = 1
							failKind = "short-sockaddr"
						default:
							binary.NativeEndian.PutUint16(rr.names[i][0:2], unix.AF_UNIX)
							failKind = "bad-family"
						}
					}
					c.dropHeld(j)
					ok := c.guard(func() {
						rr.finishRecv(i, now)
						e.overflowG.Wait()
					})
					if fail {
						c.ops = append(c.ops, fmt.Sprintf("URecvFail %d %d", ri, c.sid(j)))
						c.kinds["recv-"+failKind]++
					} else {
						c.ops = append(c.ops, fmt.Sprintf("URecv %d %d true %s %d %s %s", ri, c.sid(j), vC10Bool(inlineOn), cl+1+1024*ri, vC10RLE(pkt), sc.coq()))
						if inlineOn {
							c.kinds["recv-inline"]++
						} else {
							c.kinds["recv-batch"]++
						}
					}
					if !ok {
						break
					}
				}
				if c.panicked == "" {
					// end of cycle: the receive batch goes back out as one transmit batch
					c.guard(func() {
						if rr.txBurst.n > 0 {
							e.flushTX(&rr.txBurst)
						}
					})
					c.ops = append(c.ops, fmt.Sprintf("UFlush %d", workers+ri))
				}
			case k < 66: // a datagram through the portable reader's assignments
				if len(c.held) == 0 {
					continue
				}
				j := c.held[r.Intn(len(c.held))]
				ri := c.rdOf[j]
				cl := r.Intn(nClients)
				id := g.id()
				pkt := g.packet(id)
				sc := g.script(id, false)
				h.scripts[id] = sc
				c.dropHeld(j)
				c.guard(func() {
					copy(j.rx[:], pkt)
					j.rxLen = len(pkt)
					j.readTime = time.Now()
					j.setRemote(caddr[cl])
					j.pc = c.pcs[ri]
					j.pktinfoLen = 0
					j.rawSALen = 0
					e.enqueue(j)
					e.overflowG.Wait()
				})
				c.portables++
				c.kinds["recv-portable"]++
				c.ops = append(c.ops, fmt.Sprintf("URecv %d %d false false %d %s %s", ri, c.sid(j), cl+1+1024*ri, vC10RLE(pkt), sc.coq()))
			case k < 94: // one worker-loop iteration
				w := r.Intn(workers)
				c.guard(func() {
					select {
					case j := <-e.ready:
						e.serve(j, &c.bursts[w])
						if !c.blocked[w] && c.bursts[w].full() {
							e.flushTX(&c.bursts[w])
						}
						c.blocked[w] = false
						c.kinds["work-serve"]++
					default:
						if !c.blocked[w] {
							e.flushTX(&c.bursts[w])
							c.blocked[w] = true
							c.kinds["work-idle-flush"]++
						}
					}
				})
				c.ops = append(c.ops, fmt.Sprintf("UWork %d", w))
			default: // a flush out of turn (shutdown's closing flush)
				w := r.Intn(workers)
				c.guard(func() { e.flushTX(&c.bursts[w]) })
				c.ops = append(c.ops, fmt.Sprintf("UFlush %d", w))
			}
		}

		// Collect what each client received. A marker sent through the same
		// server socket after the last operation closes the window.
		inconclusive := false
		marker := []byte{0xFF, 0xFF, 'C', '1', '0', byte(cn >> 16), byte(cn >> 8), byte(cn)}
		var recvCoq []string
		recvDesc := map[string][]string{}
		idHi := g.nextID
		for ci, cl := range clients {
			if _, err := pc.WriteToUDPAddrPort(marker, caddr[ci]); err != nil {
				inconclusive = true
				continue
			}
			got := make([][]string, len(pcs))
			for {
				_ = cl.SetReadDeadline(time.Now().Add(3 * time.Second))
				m, from, err := cl.ReadFromUDPAddrPort(rbuf)
				if err != nil {
					inconclusive = true
					break
				}
				d := rbuf[:m]
				if m == len(marker) && d[0] == 0xFF && d[1] == 0xFF {
					if string(d) == string(marker) {
						break
					}
					continue // an older case's marker
				}
				if m >= 2 {
					id := int(binary.BigEndian.Uint16(d))
					if !(id >= c.idLo && id <= idHi) && c.idLo <= idHi {
						// a straggler of an earlier case: that case is inconclusive
						for _, p := range lines {
							if id >= p.lo && id <= p.hi {
								p.line["inconclusive"] = true
							}
						}
						continue
					}
				}
				// the flow a reply came back on: this client and the server socket it left from
				sk := 0
				if from.Port() == pc2Port {
					sk = 1
				}
				if sk >= len(pcs) {
					sk = 0
					c.panicked = "a datagram left from a socket this engine does not serve"
				}
				got[sk] = append(got[sk], vC10RLE(d))
				key := strconv.Itoa(ci + 1 + 1024*sk)
				recvDesc[key] = append(recvDesc[key], fmt.Sprintf("%d bytes id=%x", m, d[:min(2, m)]))
			}
			for sk := range pcs {
				recvCoq = append(recvCoq, fmt.Sprintf("(%d,[%s])", ci+1+1024*sk, strings.Join(got[sk], ";")))
			}
		}
		var final []string
		for _, j := range c.jobs {
			final = append(final, fmt.Sprintf("(%d,%d,%s,%s,%d,%s)", j.state, j.txLen, vC10Bool(j.written), vC10Bool(j.replay), j.rxLen, vC10Bool(j.rawSALen != 0)))
		}
		kind := "udp-seq"
		if shape == 0 {
			kind = "udp-seq-burst"
		}
		if inlineOn {
			kind += "-inline"
		}
		if !batchtx {
			kind += "-directtx"
		}
		if len(pcs) == 2 {
			kind += "-2sock"
		}
		if fixed != nil {
			kind = "corpus:" + fixed.Name
		}
		line := map[string]any{
			"k": kind,
			"coq": fmt.Sprintf("CaseUdp %d %d %d %s [%s] [%s] [%s] %s", capN, qcap, workers, vC10Bool(batchtx),
				strings.Join(c.ops, ";"), strings.Join(recvCoq, ";"), strings.Join(final, ";"), vC10Bool(c.panicked != "")),
			"nontrivial": len(c.jobs) > 0 && len(recvDesc) > 0,
			"desc":       map[string]any{"slabCap": capN, "queue": qcap, "workers": workers, "batchtx": batchtx, "inline": inlineOn, "sockets": len(pcs), "ops": len(c.ops), "op_kinds": c.kinds, "received": recvDesc, "slabs": len(c.jobs)},
		}
		if c.panicked != "" {
			line["go_fail"] = "the engine panicked: " + c.panicked
		} else if hf := vC10TakeHopFails(); hf != "" {
			line["go_fail"] = hf
		}
		_ = vC10TakeHopFails()
		if inconclusive {
			line["inconclusive"] = true
		}
		lines = append(lines, &pending{line: line, lo: c.idLo, hi: idHi})
		// leave no slab of this engine referenced by a later case: fresh engine each time
	}
	flush(0)
}
