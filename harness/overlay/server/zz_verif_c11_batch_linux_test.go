//go:build verif && linux && (amd64 || arm64)

package server

// C11 server driver, Linux batch-path half: gives every slab the client's raw
// kernel sockaddr (as the recvmmsg reader does, so replies really leave
// through sendmmsg) and lets a scenario script what the kernel answers to the
// next sendmmsg calls of every sender: a short count or a refusal.

import (
	"encoding/binary"
	"net/netip"

	"golang.org/x/sys/unix"
)

func vC11ArmRaw(j *udpJob, ap netip.AddrPort) {
	if !ap.Addr().Is4() {
		return
	}
	var sa [unix.SizeofSockaddrInet4]byte
	binary.NativeEndian.PutUint16(sa[0:2], unix.AF_INET)
	sa[2], sa[3] = byte(ap.Port()>>8), byte(ap.Port())
	a4 := ap.Addr().As4()
	copy(sa[4:8], a4[:])
	copy(j.rawSA[:], sa[:])
	j.rawSALen = uint32(len(sa))
}

type vC11Senders struct {
	queue [][]int // per sender slot: pending directives
}

// script appends the same directives to every sender (n > 0: deliver only the first n
// messages of the call; 0: refuse the call with EPERM)
func (v *vC11Senders) script(d []int) {
	for i := range v.queue {
		v.queue[i] = append(v.queue[i], d...)
	}
}

func vC11WrapSenders(e *udpEngine) *vC11Senders {
	v := &vC11Senders{queue: make([][]int, len(e.txSenders))}
	for i := range e.txSenders {
		i := i
		s := &e.txSenders[i]
		orig := s.writeFn
		s.writeFn = func(fd uintptr) bool {
			if len(v.queue[i]) == 0 {
				return orig(fd)
			}
			d := v.queue[i][0]
			v.queue[i] = v.queue[i][1:]
			if d == 0 {
				s.sent, s.werr = 0, unix.EPERM
				return true
			}
			full := s.count
			if s.start+d < full {
				s.count = s.start + d
			}
			ok := orig(fd)
			s.count = full
			return ok
		}
	}
	return v
}
