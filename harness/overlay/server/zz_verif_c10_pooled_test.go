//go:build verif && linux && (amd64 || arm64)

package server

// C10 driver "pooled": the POOLED transports — DoH (Server.ServeHTTP: wire POST, wire
// GET, JSON GET, each exchange on its own mock writer) and DoQ (a real doq.Server on a
// loopback QUIC socket: pooled request messages, one ResponseWriter per stream) — in
// front of the real Server and the real default chain, every request on a chain drawn
// from Pipeline.chainPool. Requests of different clients OVERLAP in a generated,
// deterministic interleaving: the last handler of the chain parks every request at a
// gate, so the driver decides which request is in flight while which other one begins,
// is answered and ends.
//
// Observed: which Chain object (by identity) every request ran on, which pooled
// request message (DoQ), and which exchange / stream received whose reply (a reply is
// attributed to the request whose question it answers). The history is replayed on
// ModelChains (pooled kind: KBeginPool is enabled only when the pool really can hand
// that chain out) — CaseChains with no slabs.
//
// The same history a third time: the WRAPPER STACK every request arrives with at the last
// handler — the pooled writer wrappers the middlewares in front took from their pools
// (edns.responseWriterPool, Cache.writerPool, ...), identified by pointer and Go type, walked
// from ch.Writer down the embedded ResponseWriter fields to the chain's base writer — replayed
// on ModelWrap (CaseWrap: a wrapper is handed out only while no request in flight has it on
// its chain; the answer arrives at the request that was answered).

import (
	"bytes"
	"context"
	"crypto/ecdsa"
	"crypto/elliptic"
	crand "crypto/rand"
	"crypto/tls"
	"crypto/x509"
	"crypto/x509/pkix"
	"encoding/base64"
	"encoding/binary"
	"encoding/json"
	"fmt"
	"io"
	"math/big"
	"math/rand"
	"net"
	"net/http/httptest"
	"os"
	"reflect"
	"strings"
	"sync"
	"testing"
	"time"

	"github.com/miekg/dns"
	"github.com/quic-go/quic-go"
	"github.com/semihalev/sdns/config"
	"github.com/semihalev/sdns/middleware"
	"github.com/semihalev/sdns/middleware/defaults"
	"github.com/semihalev/sdns/server/doq"
)

type vC10Layer struct {
	typ string
	ptr uintptr
}

type vC10Arrival struct {
	name   string
	chain  *middleware.Chain
	msg    *dns.Msg
	stale  string       // sections the request message should not carry
	layers []vC10Layer // ch.Writer and everything beneath it, top first; the last one is the base writer
}

// vC10WriterStack walks from w down the embedded (exported) ResponseWriter fields.
func vC10WriterStack(w middleware.ResponseWriter) []vC10Layer {
	var out []vC10Layer
	var cur any = w
	for depth := 0; cur != nil && depth < 32; depth++ {
		v := reflect.ValueOf(cur)
		if v.Kind() != reflect.Pointer || v.IsNil() {
			break
		}
		out = append(out, vC10Layer{typ: v.Elem().Type().String(), ptr: v.Pointer()})
		if v.Elem().Kind() != reflect.Struct {
			break
		}
		f := v.Elem().FieldByName("ResponseWriter")
		if !f.IsValid() || !f.CanInterface() || f.Kind() != reflect.Interface || f.IsNil() {
			break
		}
		cur = f.Interface()
	}
	return out
}

type vC10GateWitness struct {
	mu      sync.Mutex
	gates   map[string]chan struct{}
	arrived chan vC10Arrival
}

func (w *vC10GateWitness) Name() string { return "verif-c10-gate" }
func (w *vC10GateWitness) gate(name string) chan struct{} {
	w.mu.Lock()
	defer w.mu.Unlock()
	g := w.gates[name]
	if g == nil {
		g = make(chan struct{})
		w.gates[name] = g
	}
	return g
}
func (w *vC10GateWitness) ServeDNS(ctx context.Context, ch *middleware.Chain) {
	_, req := ch.Materialize(ctx)
	if req == nil || len(req.Question) != 1 {
		return
	}
	name := req.Question[0].Name
	stale := ""
	if len(req.Answer) > 0 || len(req.Ns) > 0 {
		stale = fmt.Sprintf("the request message for %q arrives with %d answer and %d authority records", name, len(req.Answer), len(req.Ns))
	}
	select {
	case w.arrived <- vC10Arrival{name: name, chain: ch, msg: req, stale: stale, layers: vC10WriterStack(ch.Writer)}:
	case <-time.After(5 * time.Second):
	}
	select {
	case <-w.gate(name):
	case <-time.After(8 * time.Second):
	}
	resp := vC10Reply(req, 0)
	resp.RecursionAvailable = true
	// reply shapes, named by the second label of the question: "grown" — an RRset under a long owner
	// name whose UNCOMPRESSED size exceeds 4096 octets while its wire form is about half that (what a
	// transport that packs into a fixed buffer must still deliver whole); "big" — larger than 4096
	// octets on the wire too. Every record repeats the question name, so a reply identifies itself.
	if labels := dns.SplitDomainName(name); len(labels) > 1 && (labels[1] == "grown" || labels[1] == "big") {
		n := vC10PooledGrownRecords
		if labels[1] == "big" {
			n = vC10PooledBigRecords
		}
		for len(resp.Answer) < n {
			resp.Answer = append(resp.Answer, &dns.TXT{Hdr: dns.RR_Header{Name: name, Rrtype: dns.TypeTXT, Class: dns.ClassINET, Ttl: 300}, Txt: []string{name}})
		}
		resp.Compress = true
	}
	_ = ch.Writer.WriteMsg(resp)
	ch.Cancel()
}

const (
	vC10PooledGrownRecords = 22
	vC10PooledBigRecords   = 48
)

type vC10PReq struct {
	shape  string // "", "grown", "big"

	r      int
	kind   string
	name   string
	id     uint16
	done   chan struct{}
	status int
	body   []byte
	stream *quic.Stream
	failed string
	hasOpt bool // the request carried an OPT record, and its DO bit
	do     bool
}

func vC10SelfSigned() (tls.Certificate, error) {
	key, err := ecdsa.GenerateKey(elliptic.P256(), crand.Reader)
	if err != nil {
		return tls.Certificate{}, err
	}
	tpl := &x509.Certificate{SerialNumber: big.NewInt(10), Subject: pkix.Name{CommonName: "verif-c10"},
		NotBefore: time.Now().Add(-time.Hour), NotAfter: time.Now().Add(24 * time.Hour),
		KeyUsage: x509.KeyUsageDigitalSignature, ExtKeyUsage: []x509.ExtKeyUsage{x509.ExtKeyUsageServerAuth},
		IPAddresses: []net.IP{net.IPv4(127, 0, 0, 1)}}
	der, err := x509.CreateCertificate(crand.Reader, tpl, tpl, &key.PublicKey, key)
	if err != nil {
		return tls.Certificate{}, err
	}
	return tls.Certificate{Certificate: [][]byte{der}, PrivateKey: key}, nil
}

func vC10PRLE(b []byte) string { return vC10RLE(b) }

func TestVerifC10Pooled(t *testing.T) {
	out := os.Getenv("VERIF_OUT")
	if out == "" {
		t.Skip("VERIF_OUT not set")
	}
	f, err := os.Create(out)
	if err != nil {
		t.Fatal(err)
	}
	defer f.Close()
	seed := vC10EnvInt("VERIF_SEED", 1)
	n := vC10EnvInt("VERIF_N", 30)
	r := rand.New(rand.NewSource(int64(seed)*69621 + 10))

	witness := &vC10GateWitness{gates: map[string]chan struct{}{}, arrived: make(chan vC10Arrival, 64)}
	middleware.Reset()
	defaults.RegisterUpTo("resolver")
	middleware.Register(witness.Name(), func(*config.Config) middleware.Handler { return witness })
	cfg := &config.Config{Bind: "127.0.0.1:0", BindDOH: "127.0.0.1:8443", Expire: 600, CacheSize: 10240, CookieSecret: "verif-c10-cookie-secret"}
	cfg.QueryTimeout.Duration = 10 * time.Second
	middleware.Setup(cfg)
	s := New(cfg)
	defer middleware.Reset()

	// DoQ on loopback
	var qaddr string
	var qsrv *doq.Server
	tlsClient := &tls.Config{InsecureSkipVerify: true, NextProtos: []string{"doq"}} //nolint:gosec
	if cert, err := vC10SelfSigned(); err == nil {
		if pc, err := net.ListenPacket("udp4", "127.0.0.1:0"); err == nil {
			qaddr = pc.LocalAddr().String()
			qsrv = &doq.Server{Addr: qaddr, Handler: s}
			go func() {
				_ = qsrv.Serve(pc, &tls.Config{Certificates: []tls.Certificate{cert}, MinVersion: tls.VersionTLS13})
			}()
			defer func() { _ = qsrv.Shutdown(); _ = pc.Close() }()
			time.Sleep(50 * time.Millisecond)
		}
	}

	conclusive := 0
	defer func() {
		if conclusive == 0 && n > 0 {
			b, _ := json.Marshal(map[string]any{"k": "pooled-driver-blind", "nontrivial": true, "desc": map[string]any{"cases": n},
				"go_fail": "not one DoH / DoQ request of this run reached the resolver and came back: the pooled transports serve nothing"})
			f.Write(append(b, '\n'))
		}
	}()
	// corpus: explicit request sequences (kind, reply shape), each request answered before the next begins
	type pooledCorpus struct {
		Name string     `json:"name"`
		Reqs [][]string `json:"reqs"`
	}
	var corpus []pooledCorpus
	if dir := os.Getenv("VERIF_CORPUS"); dir != "" {
		if b, err := os.ReadFile(dir + "/pooled-regressions.json"); err == nil {
			_ = json.Unmarshal(b, &corpus)
		}
	}
	for cn := -len(corpus); cn < n; cn++ {
		var forceKind, forceShape []string
		corpusName := ""
		if cn < 0 {
			c := corpus[cn+len(corpus)]
			corpusName = c.Name
			for _, rq := range c.Reqs {
				if len(rq) == 2 {
					forceKind, forceShape = append(forceKind, rq[0]), append(forceShape, rq[1])
				}
			}
		}
		chainID := map[*middleware.Chain]int{}
		msgID := map[*dns.Msg]int{}
		var ops, obs, mops, mobs, xops, xobs []string
		wrapID := map[vC10Layer]int{} // by (type, address): an address the collector reuses for another type is another wrapper
		levelID := map[string]int{}
		baseOf := map[uintptr]int{} // base writer -> chain
		depthOf := map[int]int{}
		wrapReused := false
		var live []*vC10PReq
		byName := map[string]*vC10PReq{}
		kinds := map[string]int{}
		goFail, inconclusive := "", false
		var qconns []*quic.Conn
		useDoQ := qaddr != "" && (r.Intn(4) != 0 || cn < 0)
		if useDoQ {
			for i := 0; i < 2; i++ {
				ctx, cancel := context.WithTimeout(context.Background(), 3*time.Second)
				c, err := quic.DialAddr(ctx, qaddr, tlsClient, nil)
				cancel()
				if err != nil {
					useDoQ = false
					break
				}
				qconns = append(qconns, c)
			}
		}
		next := 0
		emissions, reusedChain := 0, false

		start := func() {
			next++
			q := &vC10PReq{r: next, done: make(chan struct{}), id: uint16(r.Intn(65000) + 1)}
			q.name = fmt.Sprintf("p%d-c%d-s%d.pooled.c10.test.", next, cn, seed)
			if len(forceShape) > 0 {
				q.shape, forceShape = forceShape[0], forceShape[1:]
			} else if k := r.Intn(12); k < 2 {
				q.shape = "grown"
			} else if k == 2 {
				q.shape = "big"
			}
			if q.shape != "" {
				q.name = fmt.Sprintf("p%d-c%d-s%d.%s.%s.pooled.c10.test.", next, cn, seed, q.shape, strings.Repeat("x", 60))
				kinds["reply-"+q.shape]++
			}
			kindsAvail := []string{"doh-post", "doh-get", "doh-json"}
			if useDoQ {
				kindsAvail = append(kindsAvail, "doq", "doq", "doq")
			}
			q.kind = kindsAvail[r.Intn(len(kindsAvail))]
			if len(forceKind) > 0 {
				if forceKind[0] != "doq" || useDoQ {
					q.kind = forceKind[0]
				}
				forceKind = forceKind[1:]
			}
			kinds[q.kind]++
			m := new(dns.Msg)
			m.SetQuestion(q.name, dns.TypeTXT)
			m.Id = q.id
			if r.Intn(2) == 0 {
				q.hasOpt, q.do = true, r.Intn(3) == 0
				m.SetEdns0(1232, q.do)
			}
			packed, _ := m.Pack()
			remote := fmt.Sprintf("198.51.100.%d:%d", 1+next%200, 4000+next)
			switch q.kind {
			case "doh-post", "doh-get", "doh-json":
				var hr = httptest.NewRequest("POST", "/dns-query", bytes.NewReader(packed))
				switch q.kind {
				case "doh-post":
					hr.Header.Set("Content-Type", "application/dns-message")
				case "doh-get":
					hr = httptest.NewRequest("GET", "/dns-query?dns="+base64.RawURLEncoding.EncodeToString(packed), nil)
				default:
					hr = httptest.NewRequest("GET", "/dns-query?name="+strings.TrimSuffix(q.name, ".")+"&type=TXT", nil)
				}
				hr.RemoteAddr = remote
				rec := httptest.NewRecorder()
				go func() {
					defer close(q.done)
					defer func() {
						if x := recover(); x != nil {
							q.failed = fmt.Sprint("ServeHTTP panicked: ", x)
						}
					}()
					s.ServeHTTP(rec, hr)
					q.status, q.body = rec.Code, rec.Body.Bytes()
				}()
			case "doq":
				conn := qconns[r.Intn(len(qconns))]
				ctx, cancel := context.WithTimeout(context.Background(), 3*time.Second)
				st, err := conn.OpenStreamSync(ctx)
				cancel()
				if err != nil {
					inconclusive = true
					close(q.done)
					break
				}
				q.stream = st
				frame := binary.BigEndian.AppendUint16(nil, uint16(len(packed)))
				frame = append(frame, packed...)
				_, _ = st.Write(frame)
				_ = st.Close()
				go func() {
					defer close(q.done)
					_ = st.SetReadDeadline(time.Now().Add(12 * time.Second))
					b, _ := io.ReadAll(st)
					if len(b) >= 2 && int(binary.BigEndian.Uint16(b)) == len(b)-2 {
						q.status, q.body = 200, b[2:]
					} else if len(b) > 0 {
						q.failed = fmt.Sprintf("a DoQ stream carries %d bytes that are no one framed message", len(b))
					}
				}()
			}
			// the request is in flight once it reached the gate
			select {
			case a := <-witness.arrived:
				owner := byName[a.name]
				if a.name != q.name {
					if owner == nil {
						goFail = fmt.Sprintf("a request for %q reached the resolver that nobody sent", a.name)
					} else {
						goFail = fmt.Sprintf("request %d (%s) arrived a second time", owner.r, a.name)
					}
					return
				}
				if a.stale != "" && goFail == "" {
					goFail = a.stale
				}
				id, seen := chainID[a.chain]
				if !seen {
					id = len(chainID)
					chainID[a.chain] = id
				} else {
					reusedChain = true
				}
				ops, obs = append(ops, fmt.Sprintf("KBP %d %d", q.r, id)), append(obs, "None")
				mid, mseen := msgID[a.msg]
				if !mseen {
					mid = len(msgID)
					msgID[a.msg] = mid
				}
				mops, mobs = append(mops, fmt.Sprintf("KBP %d %d", q.r, mid)), append(mobs, "None")
				// the wrapper stack, outermost (first taken) first; the bottom layer is the base writer
				if nl := len(a.layers); nl > 0 {
					base := a.layers[nl-1]
					if !strings.HasSuffix(base.typ, "responseWriter") && goFail == "" {
						goFail = fmt.Sprintf("request %d: the writer stack does not end in the chain's base writer but in a %s", q.r, base.typ)
					}
					if c, seen := baseOf[base.ptr]; seen && c != id && goFail == "" {
						goFail = fmt.Sprintf("request %d runs on chain %d and its writer stack ends in the base writer of chain %d", q.r, id, c)
					}
					baseOf[base.ptr] = id
					var ws []string
					for i := nl - 2; i >= 0; i-- {
						l := a.layers[i]
						lv, ok := levelID[l.typ]
						if !ok {
							lv = len(levelID) + 1
							levelID[l.typ] = lv
						}
						wi, seen := wrapID[l]
						if !seen {
							wi = len(wrapID)
							wrapID[l] = wi
						} else {
							wrapReused = true
						}
						ws = append(ws, fmt.Sprintf("(%d,%d)", wi, lv))
					}
					depthOf[q.r] = nl - 1
					xops, xobs = append(xops, fmt.Sprintf("XB %d [%s]", q.r, strings.Join(ws, ";"))), append(xobs, "None")
				}
			case <-q.done:
				// ended without ever reaching the resolver: nothing to attribute; a run in which
				// this happens to every case is reported as blind below
				inconclusive = true
				return
			case <-time.After(6 * time.Second):
				inconclusive = true
				return
			}
			byName[q.name] = q
			live = append(live, q)
		}
		finish := func(i int) {
			q := live[i]
			live = append(live[:i], live[i+1:]...)
			close(witness.gate(q.name))
			select {
			case <-q.done:
			case <-time.After(15 * time.Second):
				inconclusive = true
				return
			}
			if q.failed != "" && goFail == "" {
				goFail = fmt.Sprintf("request %d (%s): %s", q.r, q.kind, q.failed)
			}
			// whose reply is it
			gotName, gotID := "", -1
			if q.status == 200 && len(q.body) > 0 {
				if q.kind == "doh-json" {
					var js struct {
						Question []struct {
							Name string `json:"name"`
						} `json:"Question"`
					}
					if json.Unmarshal(q.body, &js) == nil && len(js.Question) == 1 {
						gotName = dns.Fqdn(js.Question[0].Name)
					}
				} else {
					m := new(dns.Msg)
					if m.Unpack(q.body) == nil && len(m.Question) == 1 {
						gotName, gotID = m.Question[0].Name, int(m.Id)
						want := map[string]int{"": 1, "grown": vC10PooledGrownRecords, "big": vC10PooledBigRecords}[q.shape]
						if len(m.Answer) != want && !m.Truncated && goFail == "" {
							goFail = fmt.Sprintf("request %d (%s, %s reply): the reply about %q carries %d answer records, the resolver wrote %d", q.r, q.kind, q.shape, gotName, len(m.Answer), want)
						}
						// what the edns wrapper shows of the client: the OPT facts of THIS request
						// (a wrapper holding another request's facts answers an OPT-less query with an
						// OPT, or echoes the other client's DO bit)
						opt := m.IsEdns0()
						if (opt != nil) != q.hasOpt && goFail == "" {
							goFail = fmt.Sprintf("request %d (%s): the query carried OPT=%v and the reply carries OPT=%v", q.r, q.kind, q.hasOpt, opt != nil)
						}
						if opt != nil && opt.Do() != q.do && goFail == "" {
							goFail = fmt.Sprintf("request %d (%s): the query's DO bit is %v and the reply's is %v", q.r, q.kind, q.do, opt.Do())
						}
						for _, rr := range m.Answer {
							if tx, ok := rr.(*dns.TXT); ok && (len(tx.Txt) == 0 || tx.Txt[0] != gotName) && goFail == "" {
								goFail = fmt.Sprintf("request %d: a reply about %q whose answer encodes %v", q.r, gotName, tx.Txt)
							}
						}
					}
				}
			}
			if gotName != "" {
				emissions++
				owner := byName[gotName]
				switch {
				case owner == nil:
					if goFail == "" {
						goFail = fmt.Sprintf("request %d (%s, asked %q) received a reply about %q", q.r, q.kind, q.name, gotName)
					}
				default:
					tagb := []byte(strings.SplitN(gotName, ".", 2)[0]) // the first label names the request
					ops = append(ops, fmt.Sprintf("KW %d %s", owner.r, vC10PRLE(tagb)))
					obs = append(obs, fmt.Sprintf("Some (%d,%s)", q.r, vC10PRLE(tagb)))
					xops, xobs = append(xops, fmt.Sprintf("XW %d", owner.r)), append(xobs, fmt.Sprintf("Some %d", q.r))
					if owner != q && goFail == "" {
						goFail = fmt.Sprintf("request %d (%s, asked %q) received the reply to request %d (%q)", q.r, q.kind, q.name, owner.r, gotName)
					}
					wantID := int(q.id)
					if q.kind == "doq" {
						wantID = 0
					}
					if gotID >= 0 && gotID != wantID && goFail == "" {
						goFail = fmt.Sprintf("request %d (%s): reply id %d, want %d", q.r, q.kind, gotID, wantID)
					}
				}
			} else if goFail == "" {
				goFail = fmt.Sprintf("request %d (%s, %q) ended with status %d and %d bytes: no reply although the resolver answered", q.r, q.kind, q.name, q.status, len(q.body))
			}
			ops, obs = append(ops, fmt.Sprintf("KEP %d", q.r)), append(obs, "None")
			mops, mobs = append(mops, fmt.Sprintf("KEP %d", q.r)), append(mobs, "None")
			xops, xobs = append(xops, fmt.Sprintf("XE %d %d", q.r, depthOf[q.r])), append(xobs, "None")
		}

		nops := 6 + r.Intn(12)
		if cn < 0 {
			nops = 0
			for len(forceKind) > 0 && !inconclusive && goFail == "" {
				start()
				if len(live) > 0 {
					finish(0)
				}
			}
		}
		for op := 0; op < nops && !inconclusive && goFail == ""; op++ {
			if len(live) == 0 || (len(live) < 5 && r.Intn(5) < 3) {
				start()
			} else {
				finish(r.Intn(len(live)))
			}
		}
		for len(live) > 0 && !inconclusive {
			finish(0)
		}
		// unblock whatever is left when the case was cut short
		for _, q := range live {
			close(witness.gate(q.name))
		}
		for _, c := range qconns {
			_ = c.CloseWithError(0, "")
		}
		kind := "pooled-doh"
		if useDoQ {
			kind = "pooled-doh-doq"
		}
		if corpusName != "" {
			kind = "corpus:" + corpusName
		}
		line := map[string]any{
			"k":          kind,
			"coq":        fmt.Sprintf("CaseChains 0 [%s] [%s]", strings.Join(ops, ";"), strings.Join(obs, ";")),
			"nontrivial": emissions > 1 && reusedChain,
			"desc":       map[string]any{"requests": next, "replies": emissions, "kinds": kinds, "chains_seen": len(chainID), "pooled_chain_reused": reusedChain, "request_messages_seen": len(msgID)},
		}
		if goFail != "" {
			line["go_fail"] = goFail
		}
		if inconclusive {
			line["inconclusive"] = true
		} else {
			conclusive++
		}
		b, _ := json.Marshal(line)
		f.Write(append(b, '\n'))
		// the pooled request messages of the same history (DoQ's msgPool; DoH allocates)
		if !inconclusive && goFail == "" && len(mops) > 0 {
			b, _ := json.Marshal(map[string]any{"k": kind + "-msgs", "nontrivial": len(msgID) < next,
				"coq":  fmt.Sprintf("CaseChains 0 [%s] [%s]", strings.Join(mops, ";"), strings.Join(mobs, ";")),
				"desc": map[string]any{"requests": next, "request_messages_seen": len(msgID)}})
			f.Write(append(b, '\n'))
		}
		// ... and the pooled writer wrappers of the same history
		// (also for a history the Go-side oracle already rejected: the model must reject it too)
		if !inconclusive && len(xops) > 0 {
			b, _ := json.Marshal(map[string]any{"k": kind + "-wraps", "nontrivial": wrapReused && emissions > 1,
				"coq":  fmt.Sprintf("CaseWrap [%s] [%s]", strings.Join(xops, ";"), strings.Join(xobs, ";")),
				"desc": map[string]any{"requests": next, "wrapper_types": levelID, "wrappers_seen": len(wrapID), "wrapper_reused": wrapReused}})
			f.Write(append(b, '\n'))
		}
	}
}
