//go:build verif

package server

// C11 driver (d): server level. The REAL default chain (every handler ahead
// of the resolver, in registered order: recovery ... edns ... cache, failover)
// with a scripted stand-in for the resolver, behind
//   - the real Server.ServeMsg entry (DoH/DoQ-like: own goroutine, a parent
//     context the client can cancel, a recording transport), and
//   - the REAL udpEngine: real slabs (take/release, admission cap), real pool
//     workers, the bounded ready queue, overflow goroutines, serve /
//     serveInline / replay, staged replies flushed with the real send path to
//     a real loopback UDP socket that plays the client.
// The driver plays the socket reader: it fills a slab and dispatches it the
// way the readers do. Everything runs in a testing/synctest bubble, so the
// query timeout, the dedup bound and the failure TTL elapse in virtual time.
// Recorded per query: datagrams that arrived at the client socket carrying
// its ID (or writes on the ServeMsg transport), the class of the reply,
// whether the chain was entered, whether the resolver stand-in ran; after the
// drain: slabs still leased, jobs still in flight.

import (
	"context"
	"encoding/json"
	"fmt"
	"math/rand"
	"net"
	"net/netip"
	"os"
	"sort"
	"strconv"
	"strings"
	"sync"
	"sync/atomic"
	"syscall"
	"testing"
	"testing/synctest"
	"time"

	"github.com/miekg/dns"
	"github.com/semihalev/sdns/config"
	"github.com/semihalev/sdns/internal/dnsutil"
	"github.com/semihalev/sdns/middleware"
	"github.com/semihalev/sdns/middleware/defaults"
)

func vC11SEnvInt(name string, def int) int {
	if s := os.Getenv(name); s != "" {
		if n, err := strconv.Atoi(s); err == nil {
			return n
		}
	}
	return def
}

type vC11SAtt struct {
	code  int
	local bool
}

type vC11SReq struct {
	name    int
	path    int // 0 ServeMsg, 1 ring, 2 inline first
	shape   int // datagram shape: 0 OPT, 1 no OPT, (both carried by the strict wire parser), 3 / 4 OPT with an option it declines: DAU, a local-use code (decoded fallback of ServeRaw / ServeRawInline / ServeRawReplay)
	arrive  int
	age     int // how long the datagram sat before the reader got to it (read time = arrive - age)
	hold    int // 0 none, 1 until released, 2 until its context ends
	atts    []vC11SAtt
	cancel  int
	release int
	racy    bool

	mu      sync.Mutex
	writes  int
	class   int
	wtime   int
	called  atomic.Bool
	entered atomic.Bool
	endAt   atomic.Int64
	relCh   chan struct{}
	relOnce sync.Once
	cancelF context.CancelFunc
	done    chan struct{}
}

type vC11STransport struct {
	rq    *vC11SReq
	start time.Time
}

func (t *vC11STransport) LocalAddr() net.Addr {
	return &net.TCPAddr{IP: net.IPv4(127, 0, 0, 1), Port: 443}
}
func (t *vC11STransport) RemoteAddr() net.Addr {
	return &net.TCPAddr{IP: net.IPv4(192, 0, 2, 10), Port: 40000}
}
func (t *vC11STransport) Close() error { return nil }
func (t *vC11STransport) record(m *dns.Msg) {
	rq := t.rq
	rq.mu.Lock()
	defer rq.mu.Unlock()
	rq.writes++
	if rq.writes > 1 {
		return
	}
	rq.wtime = int(time.Since(t.start) / time.Millisecond)
	rq.class = vC11SClassify(m)
}
func (t *vC11STransport) WriteMsg(m *dns.Msg) error { t.record(m); return nil }
func (t *vC11STransport) Write(b []byte) (int, error) {
	m := new(dns.Msg)
	if err := m.Unpack(b); err != nil {
		m = nil
	}
	t.record(m)
	return len(b), nil
}

func vC11SClassify(m *dns.Msg) int {
	if m == nil {
		return 9
	}
	if m.Rcode == dns.RcodeSuccess {
		return 1
	}
	if m.Rcode != dns.RcodeServerFailure {
		return 8
	}
	ede := dnsutil.GetEDE(m)
	switch {
	case ede == nil:
		return 2
	case ede.InfoCode == dns.ExtendedErrorCodeNoReachableAuthority && ede.ExtraText == "Query timeout exceeded":
		return 3
	case ede.InfoCode == dns.ExtendedErrorCodeOther && strings.Contains(ede.ExtraText, "Failure probe retry limit"):
		return 4
	case ede.InfoCode == dns.ExtendedErrorCodeCachedError:
		return 5
	default:
		return 2
	}
}

type vC11SFront struct {
	reqs  *[]*vC11SReq
	start *time.Time
}

func (f *vC11SFront) Name() string { return "verif-c11-front" }
func (f *vC11SFront) ServeDNS(ctx context.Context, ch *middleware.Chain) {
	if id := int(ch.Request.ID()); id >= 1 && id <= len(*f.reqs) {
		rq := (*f.reqs)[id-1]
		rq.entered.Store(true)
		defer func() { rq.endAt.Store(int64(time.Since(*f.start) / time.Millisecond)) }()
	}
	ch.Next(ctx)
}

type vC11STail struct {
	reqs  *[]*vC11SReq
	calls *atomic.Int64
}

func (tl *vC11STail) Name() string { return "verif-c11-tail" }
func (tl *vC11STail) ServeDNS(ctx context.Context, ch *middleware.Chain) {
	ctx, req := ch.Materialize(ctx)
	if req == nil {
		return
	}
	rq := (*tl.reqs)[int(req.Id)-1]
	rq.called.Store(true)
	tl.calls.Add(1)
	switch rq.hold {
	case 1:
		<-rq.relCh
	case 2:
		<-ctx.Done()
	}
	for _, a := range rq.atts {
		resp := new(dns.Msg)
		resp.SetReply(req)
		resp.RecursionAvailable = true
		if a.code == 0 {
			resp.Answer = []dns.RR{&dns.A{Hdr: dns.RR_Header{Name: req.Question[0].Name, Rrtype: dns.TypeA, Class: dns.ClassINET, Ttl: 3000}, A: net.IPv4(192, 0, 2, 1)}}
		} else {
			resp.Rcode = dns.RcodeServerFailure
			resp.SetEdns0(1232, false)
			dnsutil.SetEDE(resp, dns.ExtendedErrorCodeNetworkError, "scripted failure")
			if a.local {
				lctx, _ := middleware.EnsureResolutionAttemptGuard(ctx)
				middleware.MarkRequestLocalFailureResponse(lctx, resp, middleware.ErrResolutionAttemptLimit)
			}
		}
		_ = ch.Writer.WriteMsg(resp)
	}
	ch.Cancel()
}

type vC11SEvent struct {
	t    int
	kind int // 0 arrive, 1 cancel, 2 release, 4 tick
	idx  int
}

type vC11SScenario struct {
	workers, qcap, slabCap int
	qt                     int // query timeout ms
	reqs                   []*vC11SReq
	events                 []vC11SEvent
	faults                 map[int][]int // event index -> directives for every sender (n>0: short count n, 0: refuse)
	mode                   string
}

func vC11SGen(r *rand.Rand) *vC11SScenario {
	sc := &vC11SScenario{qt: 2000}
	used := map[int]bool{}
	pick := func(lo, hi int) int {
		for {
			t := lo + r.Intn(hi-lo)
			if !used[t] {
				used[t] = true
				return t
			}
		}
	}
	queueing := r.Intn(2) == 0
	nreq := 1 + r.Intn(6)
	if queueing {
		sc.mode = "server-queueing"
		sc.workers = 1 + r.Intn(2)
		sc.qcap = 1 + r.Intn(2)
		sc.slabCap = sc.workers + sc.qcap + 1 + r.Intn(3)
		nreq = 3 + r.Intn(6)
	} else {
		sc.mode = "server-wide"
		sc.workers = 8
		sc.qcap = 8
		sc.slabCap = 32
	}
	followAtts := []vC11SAtt{{0, false}}
	if r.Intn(2) == 0 {
		followAtts = []vC11SAtt{{2, true}}
	}
	base := 10
	if r.Intn(2) == 0 {
		base = 2500 // late enough for a datagram to be older than the whole budget when read
	}
	// several requests that block in the resolver stand-in: then any of them may end up a
	// follower of another, so all scripts must commute (see the racy note in C11/Run.v)
	extraHolders := queueing && r.Intn(2) == 0
	for i := 0; i < nreq; i++ {
		rq := &vC11SReq{cancel: -1, release: -1}
		rq.name = 0
		if r.Intn(4) == 0 {
			rq.name = 1 + r.Intn(2)
		}
		rq.arrive = pick(base, base+400)
		if queueing {
			rq.path = 1
			if r.Intn(6) == 0 {
				rq.path = 0
			}
		} else {
			rq.path = r.Intn(3)
		}
		if rq.path != 0 {
			switch r.Intn(8) {
			case 0:
				rq.age = sc.qt + r.Intn(50) // already out of budget when read
			case 1:
				rq.age = sc.qt - 1 - r.Intn(300)
			case 2:
				rq.age = r.Intn(sc.qt / 2)
			}
			if rq.age > rq.arrive {
				rq.age = rq.arrive
			}
		}
		if i == 0 || (extraHolders && r.Intn(3) == 0) {
			switch r.Intn(10) {
			case 0:
				rq.hold = 0
			case 1, 2, 3:
				rq.hold = 2
			default:
				rq.hold = 1
			}
			switch r.Intn(6) {
			case 0, 1:
				rq.atts = []vC11SAtt{{0, false}}
			case 2, 3:
				rq.atts = []vC11SAtt{{2, true}}
			case 4:
				rq.atts = []vC11SAtt{{2, false}}
			default:
				rq.atts = []vC11SAtt{{0, false}, {2, true}}
			}
			if rq.hold == 2 {
				rq.atts = []vC11SAtt{{2, true}}
			}
			if rq.hold == 1 {
				if r.Intn(3) == 0 {
					rq.release = pick(base+sc.qt, base+sc.qt+1500) // after every budget of its cohort
				} else {
					rq.release = pick(base+20, base+900)
				}
			}
			if extraHolders {
				rq.racy = true
				rq.atts = followAtts
				if i > 0 {
					// a SECOND blocker on the same key does not commute with the first: which of
					// them wins a re-election decides who ends up parked behind a leader that is
					// released only after their deadlines (seen once in 75 000 thorough cases and
					// once in ~50 quick runs as a model mismatch without a spec failure). The
					// extra holders exist to occupy pool workers; they do that under a key of
					// their own.
					rq.name = 10 + i
				}
				if followAtts[0].code == 0 && rq.hold == 2 {
					rq.hold = 1
				}
			}
		} else {
			rq.hold = 0
			rq.atts = followAtts
			rq.racy = true
		}
		if rq.path == 0 && r.Intn(4) == 0 {
			rq.cancel = pick(rq.arrive+1, rq.arrive+600)
		}
		sc.reqs = append(sc.reqs, rq)
		sc.events = append(sc.events, vC11SEvent{rq.arrive, 0, i})
		if rq.cancel >= 0 {
			sc.events = append(sc.events, vC11SEvent{rq.cancel, 1, i})
		}
		if rq.release >= 0 {
			sc.events = append(sc.events, vC11SEvent{rq.release, 2, i})
		}
		// a tick at the request's own deadline so that the client socket is polled then
		sc.events = append(sc.events, vC11SEvent{rq.arrive - rq.age + sc.qt, 4, i})
	}
	if !queueing && r.Intn(2) == 0 {
		// one receive cycle carrying several datagrams for a name that is already cached:
		// the inline pass answers them all and their replies leave as ONE transmit batch
		warm := &vC11SReq{name: 7, path: r.Intn(2), arrive: pick(1, 9), hold: 0, atts: []vC11SAtt{{0, false}}, cancel: -1, release: -1}
		sc.reqs = append(sc.reqs, warm)
		wi := len(sc.reqs) - 1
		sc.events = append(sc.events, vC11SEvent{warm.arrive, 0, wi}, vC11SEvent{warm.arrive + sc.qt, 4, wi})
		at := pick(base+400, base+600)
		for k := 0; k < 2+r.Intn(5); k++ {
			rq := &vC11SReq{name: 7, path: 2, arrive: at, hold: 0, atts: followAtts, cancel: -1, release: -1}
			sc.reqs = append(sc.reqs, rq)
			sc.events = append(sc.events, vC11SEvent{at, 0, len(sc.reqs) - 1}, vC11SEvent{at + sc.qt, 4, len(sc.reqs) - 1})
		}
	}
	sort.SliceStable(sc.events, func(a, b int) bool {
		if sc.events[a].t != sc.events[b].t {
			return sc.events[a].t < sc.events[b].t
		}
		return sc.events[a].kind == 4 && sc.events[b].kind != 4
	})
	// what the kernel does to transmit batches from some point on: a short sendmmsg count,
	// a refused call (the fallback then sends one by one), or both in a row
	sc.faults = map[int][]int{}
	for ei, ev := range sc.events {
		if ev.kind == 0 && r.Intn(3) == 0 {
			var d []int
			for k := 0; k < 1+r.Intn(3); k++ {
				d = append(d, r.Intn(4))
			}
			sc.faults[ei] = d
		}
	}
	// the datagram's shape: the model knows one deadline rule (read time + query timeout) for every
	// shape; the code has a strict wire branch and a decoded fallback in each of its three entries
	for _, rq := range sc.reqs {
		if rq.path != 0 {
			rq.shape = []int{0, 0, 3, 4}[r.Intn(4)] // always with an OPT: the deadline reply is told from other SERVFAILs by its EDE
		}
	}
	return sc
}

func TestVerifC11Server(t *testing.T) { vC11ServerRun(t, false) }

// TestVerifC11Shutdown: the same scenarios with the listener shut down somewhere in the middle,
// through the REAL udpListener.Shutdown (read deadline, udpEngine.stopAndDrain, socket close)
// with a drain timeout of 100-2500 ms against a 2 s query timeout. The driver plays the
// reader, so "admission stopped" is the driver no longer dispatching ring datagrams.
func TestVerifC11Shutdown(t *testing.T) { vC11ServerRun(t, true) }

func vC11ServerRun(t *testing.T, withShutdown bool) {
	out := os.Getenv("VERIF_OUT")
	if out == "" {
		t.Skip("VERIF_OUT not set")
	}
	f, err := os.Create(out)
	if err != nil {
		t.Fatal(err)
	}
	defer f.Close()
	seed := int64(vC11SEnvInt("VERIF_SEED", 1))
	n := vC11SEnvInt("VERIF_N", 100)
	r := rand.New(rand.NewSource(seed*32452843 + 17))
	r2 := rand.New(rand.NewSource(seed*15485863 + 3))
	for c := 0; c < n; c++ {
		sc := vC11SGen(r)
		stopAt, drain := -1, 0
		if withShutdown {
			// instants on which anything can end: no tie with the stop or the socket close
			busy := map[int]bool{}
			last := 0
			for _, ev := range sc.events {
				busy[ev.t] = true
				if ev.t > last && ev.t < 50000 {
					last = ev.t
				}
			}
			first := sc.events[0].t
			for {
				stopAt = first + r2.Intn(last-first+200)
				drain = 100 + r2.Intn(2400)
				if !busy[stopAt] && !busy[stopAt+drain] && stopAt > 0 {
					break
				}
			}
			sc.events = append(sc.events, vC11SEvent{stopAt, 5, 0}, vC11SEvent{stopAt + drain, 4, 0})
			sort.SliceStable(sc.events, func(a, b int) bool {
				if sc.events[a].t != sc.events[b].t {
					return sc.events[a].t < sc.events[b].t
				}
				return sc.events[a].kind == 4 && sc.events[b].kind != 4
			})
			sc.faults = map[int][]int{} // kernel send faults are the server driver's business
			sc.mode = "shutdown-" + strings.TrimPrefix(sc.mode, "server-")
		}
		var drainErr error
		shutdownReturned := -1
		stopped := false
		var coqEvents []string
		var downCalls atomic.Int64
		goFail := ""
		inconclusive := false
		var leasedEnd, inflightEnd int64
		// The pipeline is built outside the bubble: some handlers start janitor goroutines
		// that never exit, and a bubble must end with none of its goroutines blocked.
		var bubbleStart time.Time
		front := &vC11SFront{reqs: &sc.reqs, start: &bubbleStart}
		tail := &vC11STail{reqs: &sc.reqs, calls: &downCalls}
		middleware.Reset()
		middleware.Register(front.Name(), func(*config.Config) middleware.Handler { return front })
		defaults.RegisterUpTo("resolver")
		middleware.Register(tail.Name(), func(*config.Config) middleware.Handler { return tail })
		cfg := &config.Config{Bind: "127.0.0.1:0", Expire: 600, CacheSize: 10240}
		cfg.QueryTimeout.Duration = time.Duration(sc.qt) * time.Millisecond
		middleware.Setup(cfg)
		s := New(cfg)
		synctest.Test(t, func(t *testing.T) {
			srv, err1 := net.ListenUDP("udp4", &net.UDPAddr{IP: net.IPv4(127, 0, 0, 1)})
			cl, err2 := net.ListenUDP("udp4", &net.UDPAddr{IP: net.IPv4(127, 0, 0, 1)})
			if err1 != nil || err2 != nil {
				inconclusive = true
				return
			}
			defer srv.Close()
			defer cl.Close()
			clAddr := cl.LocalAddr().(*net.UDPAddr).AddrPort()
			clRaw, _ := cl.SyscallConn()
			e := newUDPEngine(s, []*net.UDPConn{srv}, false, sc.workers, sc.qcap, resourcePlan{})
			e.slabCap = int64(sc.slabCap)
			for i := 0; i < e.workers; i++ {
				e.workerG.Add(1)
				go e.worker(i)
			}
			readerBurst := udpTXBurst{slot: e.workers}
			start := time.Now()
			bubbleStart = start
			lst := &udpListener{addr: "verif", engine: e, pcs: []*net.UDPConn{srv}, done: make(chan struct{})}
			var lstG sync.WaitGroup
			for _, rq := range sc.reqs {
				rq.relCh = make(chan struct{})
				rq.endAt.Store(int64(rq.arrive)) // never served: "returned" on arrival
			}
			senders := vC11WrapSenders(e)
			now := 0
			poll := func() {
				buf := make([]byte, 4096)
				for {
					got := -1
					_ = clRaw.Read(func(fd uintptr) bool {
						nn, _, rerr := syscall.Recvfrom(int(fd), buf, syscall.MSG_DONTWAIT)
						if rerr == nil {
							got = nn
						}
						return true
					})
					if got < 0 {
						return
					}
					m := new(dns.Msg)
					if m.Unpack(buf[:got]) != nil {
						continue
					}
					id := int(m.Id)
					if id < 1 || id > len(sc.reqs) {
						continue
					}
					rq := sc.reqs[id-1]
					rq.mu.Lock()
					rq.writes++
					if rq.writes == 1 {
						rq.class = vC11SClassify(m)
						rq.wtime = now
					}
					rq.mu.Unlock()
				}
			}
			sleepTo := func(ms int) {
				if ms > now {
					time.Sleep(start.Add(time.Duration(ms) * time.Millisecond).Sub(time.Now()))
					now = ms
					synctest.Wait()
					coqEvents = append(coqEvents, fmt.Sprintf("EAdvance %d", ms))
					poll()
				}
			}
			launch := func(idx int) {
				rq := sc.reqs[idx]
				msg := new(dns.Msg)
				msg.SetQuestion(fmt.Sprintf("n%d.c11.example.", rq.name), dns.TypeA)
				msg.Id = uint16(idx + 1)
				switch rq.shape {
				case 3:
					msg.SetEdns0(1232, false)
					msg.IsEdns0().Option = append(msg.IsEdns0().Option, &dns.EDNS0_DAU{Code: dns.EDNS0DAU, AlgCode: []uint8{8, 13}})
				case 4:
					msg.SetEdns0(1232, false)
					msg.IsEdns0().Option = append(msg.IsEdns0().Option, &dns.EDNS0_LOCAL{Code: 65001, Data: []byte{1, 2}})
				default:
					msg.SetEdns0(1232, false)
				}
				if rq.path == 0 {
					rq.done = make(chan struct{})
					parent, cancel := context.WithCancel(context.Background())
					rq.cancelF = cancel
					go func() {
						defer close(rq.done)
						s.ServeMsg(parent, &vC11STransport{rq: rq, start: start}, msg)
						rq.endAt.Store(int64(time.Since(start) / time.Millisecond))
					}()
					return
				}
				if stopped {
					return // the readers are gone: the datagram is never read
				}
				raw, _ := msg.Pack()
				j := e.take(0)
				if j == nil {
					return // shed at the admission cap: the datagram is consumed and dropped
				}
				j.transition(udpJobFree, udpJobReading)
				j.rxLen = copy(j.rx[:], raw)
				j.readTime = start.Add(time.Duration(rq.arrive-rq.age) * time.Millisecond)
				j.setRemote(clAddr)
				j.pc = srv
				j.pktinfoLen = 0
				j.rawSALen = 0
				vC11ArmRaw(j, clAddr) // what the batched reader records: the client's kernel sockaddr
				if rq.path == 2 && e.inline != nil {
					if !e.serveInline(j, &readerBurst) {
						e.enqueueCounted(j)
					}
					return
				}
				e.enqueue(j)
			}
			for ei, ev := range sc.events {
				sleepTo(ev.t)
				switch ev.kind {
				case 0:
					if sc.faults[ei] != nil {
						// what the kernel will do to the next sends: short counts, refusals
						senders.script(sc.faults[ei])
					}
					launch(ev.idx)
					coqEvents = append(coqEvents, fmt.Sprintf("EArrive %d", ev.idx))
					// one receive cycle = the datagrams of one instant; its replies leave as one batch
					last := ei+1 >= len(sc.events) || sc.events[ei+1].t != ev.t || sc.events[ei+1].kind != 0 || sc.reqs[sc.events[ei+1].idx].path != 2 || sc.reqs[ev.idx].path != 2
					if last {
						e.flushTX(&readerBurst)
					}
				case 1:
					sc.reqs[ev.idx].cancelF()
					coqEvents = append(coqEvents, fmt.Sprintf("ECancel %d", ev.idx))
				case 2:
					rq := sc.reqs[ev.idx]
					rq.relOnce.Do(func() { close(rq.relCh) })
					coqEvents = append(coqEvents, fmt.Sprintf("ERelease %d", ev.idx))
				case 5:
					stopped = true
					lst.timeout = time.Duration(drain) * time.Millisecond
					lstG.Add(1)
					go func() {
						defer lstG.Done()
						drainErr = lst.Shutdown(context.Background())
						shutdownReturned = int(time.Since(start) / time.Millisecond)
					}()
					coqEvents = append(coqEvents, fmt.Sprintf("EShutdown %d", drain))
				}
				synctest.Wait()
				poll()
			}
			sleepTo(now + 100000)
			for i, rq := range sc.reqs {
				if rq.hold == 1 {
					fired := false
					rq.relOnce.Do(func() { close(rq.relCh); fired = true })
					if fired {
						coqEvents = append(coqEvents, fmt.Sprintf("ERelease %d", i))
						synctest.Wait()
						poll()
					}
				}
			}
			synctest.Wait()
			poll()
			for i, rq := range sc.reqs {
				if rq.done != nil {
					select {
					case <-rq.done:
					default:
						goFail = fmt.Sprintf("request %d (ServeMsg) still running after every deadline, bound and release", i)
						rq.cancelF()
					}
				}
			}
			leasedEnd = e.leased.Load()
			inflightEnd = e.inFlight.Load()
			if stopped {
				lstG.Wait() // stopAndDrain closed the ready queue
			} else {
				close(e.ready)
			}
			e.workerG.Wait()
			e.overflowG.Wait()
			poll()
		})
		for _, h := range middleware.Handlers() {
			if st, ok := h.(interface{ Stop() }); ok {
				st.Stop()
			}
		}
		middleware.Reset()
		if inconclusive {
			b, _ := json.Marshal(map[string]any{"k": sc.mode, "coq": "CaseWGConc 0 false 0 0 false", "inconclusive": true, "nontrivial": false, "desc": "loopback bind failed"})
			f.Write(append(b, '\n'))
			continue
		}
		var reqCoq, obsCoq, paths, entered []string
		var desc []map[string]any
		nontrivial := false
		for i, rq := range sc.reqs {
			var atts []string
			for _, a := range rq.atts {
				atts = append(atts, fmt.Sprintf("mk_att %d %v", a.code, a.local))
			}
			deadline := rq.arrive - rq.age + sc.qt
			hold := []string{"HNone", "HUntilRelease", "HUntilCtx"}[rq.hold]
			reqCoq = append(reqCoq, fmt.Sprintf("new_preq %d false %d %s [%s]", rq.name, deadline, hold, strings.Join(atts, "; ")))
			mpath := rq.path
			if mpath == 2 && rq.shape >= 3 {
				mpath = 3 // inline first, declined by the strict parser: handed off outright, the replay decodes
			}
			paths = append(paths, fmt.Sprintf("%d%%N", mpath))
			cancelled := rq.cancel >= 0
			expired := rq.writes > 0 && rq.wtime >= deadline
			obsCoq = append(obsCoq, fmt.Sprintf("mk_pobs %d %d %v %v %v %d %v %d", rq.writes, rq.class, rq.called.Load(), cancelled, expired, rq.wtime, rq.racy, rq.endAt.Load()))
			entered = append(entered, fmt.Sprint(rq.entered.Load()))
			desc = append(desc, map[string]any{"i": i, "q": rq.name, "path": []string{"ServeMsg", "udp-ring", "udp-inline"}[rq.path], "shape": []string{"opt", "no-opt", "", "opt+DAU", "opt+local-option"}[rq.shape], "arrive": rq.arrive, "read_age": rq.age, "deadline": deadline,
				"hold": hold, "atts": fmt.Sprint(rq.atts), "cancel_at": rq.cancel, "release_at": rq.release,
				"replies": rq.writes, "class": rq.class, "chain_entered": rq.entered.Load(), "resolver_standin": rq.called.Load(), "seen_at": rq.wtime, "returned_at": rq.endAt.Load()})
			if rq.writes > 1 && goFail == "" {
				goFail = fmt.Sprintf("query %d: %d replies", i, rq.writes)
			}
			lostToClose := withShutdown && drainErr != nil && rq.path != 0 && int(rq.endAt.Load()) > stopAt+drain
			if rq.writes == 0 && !cancelled && rq.entered.Load() && !lostToClose && goFail == "" {
				goFail = fmt.Sprintf("query %d entered the chain, the client never went away, and no reply arrived", i)
			}
			if !rq.called.Load() && rq.writes == 1 {
				nontrivial = true
			}
		}
		if (leasedEnd != 0 || inflightEnd != 0) && goFail == "" {
			goFail = fmt.Sprintf("after the drain %d slabs are still leased and %d jobs in flight", leasedEnd, inflightEnd)
		}
		coqCase := fmt.Sprintf("CaseServer %d %d %d [%s] [%s] [%s] [%s] [%s] %d %d %d", sc.workers, sc.qcap, sc.slabCap,
			strings.Join(reqCoq, "; "), strings.Join(paths, "; "), strings.Join(coqEvents, "; "), strings.Join(obsCoq, "; "), strings.Join(entered, "; "),
			downCalls.Load(), leasedEnd, inflightEnd)
		if withShutdown {
			if goFail == "" && (shutdownReturned < 0 || shutdownReturned > stopAt+drain) {
				goFail = fmt.Sprintf("Shutdown called at %d ms with a %d ms drain timeout returned at %d ms", stopAt, drain, shutdownReturned)
			}
			devs := make([]string, len(coqEvents))
			for i, ev := range coqEvents {
				devs[i] = "D" + ev[1:]
			}
			coqCase = fmt.Sprintf("CaseShutdown %d %d %d [%s] [%s] [%s] [%s] [%s] %d %d %d %v %d %d", sc.workers, sc.qcap, sc.slabCap,
				strings.Join(reqCoq, "; "), strings.Join(paths, "; "), strings.Join(devs, "; "), strings.Join(obsCoq, "; "), strings.Join(entered, "; "),
				downCalls.Load(), leasedEnd, inflightEnd, drainErr != nil, stopAt, shutdownReturned)
		}
		b, _ := json.Marshal(map[string]any{
			"k":          sc.mode,
			"coq":        coqCase,
			"nontrivial": nontrivial && len(sc.reqs) > 1,
			"go_fail":    goFail,
			"desc": map[string]any{"mode": sc.mode, "workers": sc.workers, "queue": sc.qcap, "slab_cap": sc.slabCap, "query_timeout_ms": sc.qt,
				"requests": desc, "timeline": coqEvents, "resolver_standin_calls": downCalls.Load(), "leased_after_drain": leasedEnd, "inflight_after_drain": inflightEnd,
				"shutdown_at": stopAt, "drain_timeout_ms": drain, "shutdown_returned_at": shutdownReturned, "drain_error": fmt.Sprint(drainErr)},
		})
		f.Write(append(b, '\n'))
	}
	_ = netip.Addr{}
}
